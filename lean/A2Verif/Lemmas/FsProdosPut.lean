import A2Verif.Lemmas.FsProdosModify
import A2Verif.Lemmas.FsProdosFree
/-!
# `put` of a one-chunk (seedling) file: the exact image (`put_seedling_spec`)

Given what `prepare_to_write` found (name, key block of the parent directory, free entry slot, first free block), `put`
of a file image with the single chunk 0 performs four writes: the parent key block with its file count raised, the
entry slot with the fresh entry, the data block, and the entry slot again with the final entry (blocks used 1, end of
file, access).  Nothing else of the image changes; in the bitmap exactly the data block becomes used.
-/
namespace A2Verif.FsProdos
open A2Verif.Fs.Prodos

theorem setUnit_self (r : Raw) (i : Nat) (b : Bytes) (h : i < r.units.size) : (setUnit r i b).units[i]? = some b := by
  simp [setUnit, Array.getElem?_setIfInBounds_self, h]

/-- unit `j` of an image after unit `i` was replaced -/
theorem setUnit_get (r : Raw) (i j : Nat) (b : Bytes) (h : i < r.units.size) :
    (setUnit r i b).units[j]? = if i = j then some b else r.units[j]? := by
  by_cases hij : i = j
  · subst hij; rw [setUnit_self r i b h]; simp
  · rw [setUnit_other r i j b hij]; simp [hij]

/-- first fit picks the block that is free while all smaller ones are not -/
theorem find_first_free (buf : Array Nat) (total nb : Nat) (hnb : nb < total) (hfree : freeB buf nb = true)
    (hmin : ∀ j, j < nb → freeB buf j = false) : (List.range total).find? (freeB buf) = some nb := by
  rw [List.find?_eq_some_iff_append]
  refine ⟨hfree, List.range nb, (List.range' (nb + 1) (total - nb - 1)), ?_, ?_⟩
  · have h1 : List.range total = List.range' 0 total := by simp [List.range_eq_range']
    have h2 : List.range nb = List.range' 0 nb := by simp [List.range_eq_range']
    rw [h1, h2]
    have : total = nb + (1 + (total - nb - 1)) := by omega
    conv => lhs; rw [this]
    rw [← List.range'_append_1, ← List.range'_append_1]
    simp [List.range'_one]
  · intro j hj
    have := hmin j (List.mem_range.mp hj)
    simp [this]

theorem bufOpen_clearBit (d : Disk) (buf : Array Nat) (i : Nat) (h : BufOpen d buf) :
    BufOpen { d with bitmap := some (clearBit buf i) } (clearBit buf i) :=
  ⟨rfl, bytesOk_clearBit buf i h.bytes, by rw [size_clearBit]; exact h.covers⟩

/-- clearing the bit of a block that is not free changes no mark -/
theorem freeB_clearBit_used (buf : Array Nat) (i : Nat) (hok : BytesOk buf) (hi : i / 8 < buf.size) (hused : freeB buf i = false) (j : Nat) :
    freeB (clearBit buf i) j = freeB buf j := by
  rw [freeB_clearBit buf i j hok hi]
  by_cases h : j = i
  · subst h; simp [hused]
  · simp [h]

/-- `write_entry(loc, e)` on an open buffer -/
theorem writeEntry_plain (d : Disk) (buf : Array Nat) (loc : Loc) (blk e : Bytes)
    (hnb : d.bitmapBlocks.contains loc.block = false) (hblk : d.raw.units[loc.block]? = some blk)
    (hidx : Dir.idxOk { kind := kindOf loc.block blk, bytes := blk.take dirLen } loc.idx = true)
    (hopen : d.bitmap = some buf) (hcov : loc.block / 8 < buf.size) :
    writeEntry loc e d =
      (.ok (), { d with
        raw := setUnit d.raw loc.block (blockWithEntry blk loc.idx e), bitmap := some (clearBit buf loc.block) }) := by
  have hsz : loc.block < d.raw.units.size := by
    rcases Nat.lt_or_ge loc.block d.raw.units.size with h | h
    · exact h
    · rw [Array.getElem?_eq_none h] at hblk; cases hblk
  unfold writeEntry
  simp only [bind_def, M.bind, getDirectory_plain d loc.block blk hnb hblk, M.ofOption, Dir.setEntry, hidx, ↓reduceIte]
  rw [writeBlock_plain d buf _ loc.block hnb hsz hopen hcov]
  rfl

theorem freeBlocks_pos_of_find (buf : Array Nat) (total nb : Nat) (h : (List.range total).find? (freeB buf) = some nb) :
    0 < (freeBlocks buf total).length := by
  have hm : nb ∈ List.range total := List.mem_of_find?_eq_some h
  exact numFree_pos_of_free buf total nb (List.mem_range.mp hm) (List.find?_some h)

/-- the first round of `write_file` for a file whose chunk 0 is present: the data block goes to the first free block -/
theorem wfStep_first (d : Disk) (buf : Array Nat) (f : FImg) (c : Bytes) (st : WS) (nb : Nat)
    (hs : st.storage = stSeedling) (hm : st.masterCount = 0) (hlook : f.chunks.lookup 0 = some c)
    (hopen : BufOpen d buf) (hfind : (List.range d.total).find? (freeB buf) = some nb) (hnb16 : nb < 65536)
    (hnbb : d.bitmapBlocks.contains nb = false) (hsz : nb < d.raw.units.size) (hcov : nb / 8 < buf.size) :
    wfStep f 1 0 st d =
      (.ok { st with entry := Ent.setEof (Ent.incBlocks st.entry) (Ent.eof st.entry + c.length) },
       { d with raw := setUnit d.raw nb (quantize (c.take blockSize)), bitmap := some (clearBit buf nb) }) := by
  have hpos := freeBlocks_pos_of_find buf d.total nb hfind
  have hmod : nb % 65536 = nb := Nat.mod_eq_of_lt hnb16
  unfold wfStep
  simp only [hlook, hm, hs, bind_def, pure_def, gt_iff_lt, Nat.lt_irrefl, ↓reduceIte, Nat.not_lt_zero]
  unfold M.bind
  rw [numFreeBlocks_open d buf hopen]
  simp only []
  have h2 : ¬ ((freeBlocks buf d.total).length < 1) := by omega
  simp only [↓reduceIte, h2]
  unfold writeDataBlockOrNot
  simp only [bind_def, pure_def]
  unfold M.bind
  rw [getAvailableBlock_open d buf hopen, hfind]
  simp only [Option.map_some, hmod]
  rw [writeBlock_plain d buf c nb hnbb hsz hopen.isOpen hcov]
  simp [M.pure]

theorem bind_ok {α β : Type} (m : M α) (f : α → M β) (d d' : Disk) (a : α) (h : m d = (.ok a, d')) :
    M.bind m f d = f a d' := by
  unfold M.bind; rw [h]

theorem ofOption_some {α : Type} (a : α) (d : Disk) : M.ofOption (some a) d = (.ok a, d) := rfl

theorem getD_quantize_take (x : Bytes) (k : Nat) (hk : k < x.length) (hk2 : k < blockSize) :
    (quantize (x.take blockSize)).getD k 0 = x.getD k 0 := by
  unfold quantize
  simp only [List.getD_eq_getElem?_getD]
  rw [List.getElem?_append_left (by simp; omega), List.getElem?_take_of_lt hk2, List.getElem?_take_of_lt hk2]

theorem blockWithEntry_head (blk e : Bytes) (idx k : Nat) (hk : k < 4) (hidx : 1 ≤ idx ∧ idx ≤ 13) (hlen : blk.length = 512) :
    (blockWithEntry blk idx e).getD k 0 = blk.getD k 0 := by
  unfold blockWithEntry
  have hoff : 4 ≤ Dir.entryOff idx ∧ Dir.entryOff idx ≤ 472 := by unfold Dir.entryOff entryLen; omega
  have hl1 : (blk.take dirLen).length = 511 := by simp [hlen, dirLen]
  have hsl : k < (splice (blk.take dirLen) (Dir.entryOff idx) (e.take entryLen)).length := by
    unfold splice; simp only [List.length_append, List.length_take, hl1]; omega
  rw [getD_quantize_take _ k hsl (by unfold blockSize; omega)]
  rw [getD_splice_outside _ _ _ k (Or.inl (by omega)) (by rw [hl1]; omega)]
  simp only [List.getD_eq_getElem?_getD]
  rw [List.getElem?_take_of_lt (by unfold dirLen; omega)]

theorem blockWithEntry_length (blk e : Bytes) (idx : Nat) : (blockWithEntry blk idx e).length = 512 := by
  unfold blockWithEntry quantize blockSize
  simp only [List.length_append, List.length_take, List.length_replicate]
  omega

def keyBlockInc (kblk : Bytes) : Bytes :=
  quantize ((splice (kblk.take dirLen) (4 + 33) (u16le (le16 (kblk.take dirLen) (4 + 33) + 1))).take blockSize)

theorem keyBlockInc_head (kblk : Bytes) (k : Nat) (hk : k < 4) (hlen : kblk.length = 512) :
    (keyBlockInc kblk).getD k 0 = kblk.getD k 0 := by
  unfold keyBlockInc
  have hl1 : (kblk.take dirLen).length = 511 := by simp [hlen, dirLen]
  have hsl : k < (splice (kblk.take dirLen) (4 + 33) (u16le (le16 (kblk.take dirLen) (4 + 33) + 1))).length := by
    unfold splice; simp only [List.length_append, List.length_take, hl1]; omega
  rw [getD_quantize_take _ k hsl (by unfold blockSize; omega)]
  rw [getD_splice_outside _ _ _ k (Or.inl (by omega)) (by rw [hl1]; omega)]
  simp only [List.getD_eq_getElem?_getD]
  rw [List.getElem?_take_of_lt (by unfold dirLen; omega)]

theorem keyBlockInc_length (kblk : Bytes) : (keyBlockInc kblk).length = 512 := by
  unfold keyBlockInc quantize blockSize
  simp only [List.length_append, List.length_take, List.length_replicate]
  omega

theorem kindOf_congr (i : Nat) (a b : Bytes) (h0 : a.getD 0 0 = b.getD 0 0) (h1 : a.getD 1 0 = b.getD 1 0) : kindOf i a = kindOf i b := by
  unfold kindOf; rw [h0, h1]

def IdxOkFor (loc : Loc) (blk : Bytes) : Prop :=
  Dir.idxOk { kind := kindOf loc.block blk, bytes := blk.take dirLen } loc.idx = true

theorem idxOkFor_congr (loc : Loc) (a b : Bytes) (h : kindOf loc.block a = kindOf loc.block b) : IdxOkFor loc a → IdxOkFor loc b := by
  unfold IdxOkFor Dir.idxOk; simp only [h]; exact id

theorem idxOk_range (loc : Loc) (blk : Bytes) (h : IdxOkFor loc blk) : 1 ≤ loc.idx ∧ loc.idx ≤ 13 := by
  unfold IdxOkFor Dir.idxOk at h
  split at h <;> simp at h <;> omega

theorem incFileCount_ok (k : DKind) (bytes : Bytes) (hk : k ≠ DKind.entry) (hc : le16 bytes (4 + 33) + 1 ≤ 65535) :
    Dir.incFileCount { kind := k, bytes := bytes } =
      some { kind := k, bytes := splice bytes (4 + 33) (u16le (le16 bytes (4 + 33) + 1)) } := by
  unfold Dir.incFileCount Dir.fileCount
  cases k with
  | entry => exact absurd rfl hk
  | volKey => simp only; rw [if_neg (by omega)]
  | subKey => simp only; rw [if_neg (by omega)]

theorem units_get_unitAt (r : Raw) (i : Nat) (h : i < r.units.size) : r.units[i]? = some (unitAt r i) := by
  unfold unitAt; rw [Array.getElem?_eq_getElem h]; rfl

theorem blocksNeeded_one (f : FImg) (c : Bytes) (h : f.chunks = [(0, c)]) : blocksNeeded f = 1 ∧ f.end_ = 1 := by
  unfold blocksNeeded FImg.end_
  rw [h]; simp

/-- the entry `write_file` stores at the end for a one-chunk file, from the entry it read back -/
def seedlingFinalEntry (eRead : Bytes) (clen eof acc : Nat) : Bytes :=
  let e1 := Ent.setEof (Ent.incBlocks (Ent.setEof eRead 0)) (Ent.eof (Ent.setEof eRead 0) + clen)
  Ent.setAccess (if eof > 0 then Ent.setEof e1 eof else e1) acc

theorem put_seedling_spec (d : Disk) (buf : Array Nat) (f : FImg) (time : Bytes) (nm : Bytes) (key nb : Nat) (loc : Loc)
    (kblk lblk c : Bytes) (acc : Nat)
    (hf1 : f.fsOk = true) (hf2 : f.chunkLen = blockSize) (hch : f.chunks = [(0, c)])
    (hlen : ¬ (f.fsType.length < 1 ∨ f.version.length < 1 ∨ f.minVersion.length < 1 ∨ f.aux.length < 2))
    (hacc : f.access[0]? = some acc)
    (hopen : BufOpen d buf)
    (hprep : prepareToWrite f.fullPath d = (.ok (nm, key, loc, nb), d))
    -- the parent key block
    (hkb : d.bitmapBlocks.contains key = false) (hkblk : d.raw.units[key]? = some kblk) (hklen : kblk.length = 512)
    (hkk : kindOf key kblk ≠ DKind.entry) (hkc : le16 (kblk.take dirLen) (4 + 33) + 1 ≤ 65535)
    (hkcov : key / 8 < buf.size) (hkused : freeB buf key = false)
    -- the block of the entry slot
    (hlb : d.bitmapBlocks.contains loc.block = false) (hlblk : d.raw.units[loc.block]? = some lblk) (hllen : lblk.length = 512)
    (hlidx : IdxOkFor loc lblk) (hlcov : loc.block / 8 < buf.size) (hlused : freeB buf loc.block = false)
    -- the first free block
    (hnbfree : freeB buf nb = true) (hnbmin : ∀ j, j < nb → freeB buf j = false) (hnbt : nb < d.total) (hnb16 : nb < 65536)
    (hnbb : d.bitmapBlocks.contains nb = false) (hnbsz : nb < d.raw.units.size) (hnbcov : nb / 8 < buf.size) :
    let r1 := setUnit d.raw key (keyBlockInc kblk)
    let e0 := createFileEntry nm (f.fsType.getD 0 0) nb (f.version.getD 0 0) (f.minVersion.getD 0 0) acc (f.aux.getD 0 0) (f.aux.getD 1 0) key time
    let r2 := setUnit r1 loc.block (blockWithEntry (unitAt r1 loc.block) loc.idx e0)
    let r3 := setUnit r2 nb (quantize (c.take blockSize))
    let eRead := slice ((unitAt r3 loc.block).take dirLen) (Dir.entryOff loc.idx) entryLen
    let r4 := setUnit r3 loc.block (blockWithEntry (unitAt r3 loc.block) loc.idx (seedlingFinalEntry eRead c.length f.eof acc))
    put f time {} d = (.ok f.eof, { d with raw := r4, bitmap := some (clearBit (clearBit (clearBit (clearBit buf key) loc.block) nb) loc.block) }) := by
  intro r1 e0 r2 r3 eRead r4
  obtain ⟨hbn, hend⟩ := blocksNeeded_one f c hch
  have hpos : 0 < (freeBlocks buf d.total).length := numFree_pos_of_free buf d.total nb hnbt hnbfree
  have hksz : key < d.raw.units.size := by
    rcases Nat.lt_or_ge key d.raw.units.size with h | h
    · exact h
    · rw [Array.getElem?_eq_none h] at hkblk; cases hkblk
  have hlsz : loc.block < d.raw.units.size := by
    rcases Nat.lt_or_ge loc.block d.raw.units.size with h | h
    · exact h
    · rw [Array.getElem?_eq_none h] at hlblk; cases hlblk
  unfold put
  have hnl : ¬ (f.chunks.length = 0) := by rw [hch]; simp
  simp only [hf1, hf2, hnl, bind_def, Bool.not_true, Bool.false_eq_true, ↓reduceIte, ne_eq, not_true_eq_false, false_and]
  rw [bind_ok _ _ d d _ hprep]
  simp only []
  rw [bind_ok _ _ d d _ (numFreeBlocks_open d buf hopen)]
  have h2 : ¬ (blocksNeeded f > (freeBlocks buf d.total).length) := by rw [hbn]; omega
  simp only [h2, ↓reduceIte]
  rw [bind_ok _ _ d d _ (getDirectory_plain d key kblk hkb hkblk)]
  simp only [incFileCount_ok _ _ hkk hkc]
  rw [bind_ok _ _ d d _ (ofOption_some _ d)]
  simp only []
  -- first write: the key block with its file count raised
  have hw1 : writeBlock (splice (List.take dirLen kblk) (4 + 33) (u16le (le16 (List.take dirLen kblk) (4 + 33) + 1))) key 0 d =
      (.ok (), { d with raw := r1, bitmap := some (clearBit buf key) }) :=
    writeBlock_plain d buf _ key hkb hksz hopen.isOpen hkcov
  rw [bind_ok _ _ d _ _ hw1]
  simp only [hlen, ↓reduceIte, hacc]
  rw [bind_ok _ _ _ _ _ (ofOption_some _ _)]
  -- second write: the fresh entry
  have hr1sz : r1.units.size = d.raw.units.size := setUnit_size _ _ _
  have hl1 : IdxOkFor loc (unitAt r1 loc.block) ∧ (unitAt r1 loc.block).length = 512 := by
    show IdxOkFor loc (unitAt (setUnit d.raw key (keyBlockInc kblk)) loc.block) ∧ _
    unfold unitAt
    rw [setUnit_get _ _ _ _ hksz]
    by_cases h : key = loc.block
    · simp only [h, ↓reduceIte, Option.getD_some]
      have hkl : kblk = lblk := by rw [h] at hkblk; rw [hkblk] at hlblk; exact Option.some.inj hlblk
      subst hkl
      exact ⟨idxOkFor_congr loc kblk _ (kindOf_congr _ _ _ (keyBlockInc_head kblk 0 (by omega) hklen).symm
        (keyBlockInc_head kblk 1 (by omega) hklen).symm) hlidx, keyBlockInc_length kblk⟩
    · simp only [h, ↓reduceIte, hlblk, Option.getD_some]
      exact ⟨hlidx, hllen⟩
  have hw2 : writeEntry loc e0 { d with raw := r1, bitmap := some (clearBit buf key) } =
      (.ok (), { d with raw := r2, bitmap := some (clearBit (clearBit buf key) loc.block) }) :=
    writeEntry_plain { d with raw := r1, bitmap := some (clearBit buf key) } (clearBit buf key) loc
      (unitAt r1 loc.block) e0 hlb (units_get_unitAt _ _ (by rw [hr1sz]; exact hlsz)) hl1.1 rfl (by rw [size_clearBit]; exact hlcov)
  rw [bind_ok _ _ _ _ _ hw2]
  -- `write_file`
  have hr2sz : r2.units.size = d.raw.units.size := by rw [show r2.units.size = r1.units.size from setUnit_size _ _ _, hr1sz]
  have hrng := idxOk_range loc _ hl1.1
  have hl2eq : unitAt r2 loc.block = blockWithEntry (unitAt r1 loc.block) loc.idx e0 := by
    show unitAt (setUnit r1 loc.block _) loc.block = _
    unfold unitAt; rw [setUnit_self _ _ _ (by rw [hr1sz]; exact hlsz)]; rfl
  have hl2 : IdxOkFor loc (unitAt r2 loc.block) ∧ (unitAt r2 loc.block).length = 512 := by
    rw [hl2eq]
    exact ⟨idxOkFor_congr loc _ _ (kindOf_congr _ _ _ (blockWithEntry_head _ _ _ 0 (by omega) hrng hl1.2).symm
      (blockWithEntry_head _ _ _ 1 (by omega) hrng hl1.2).symm) hl1.1, blockWithEntry_length _ _ _⟩
  unfold writeFile
  simp only [hnl, ↓reduceIte, bind_def, pure_def]
  rw [bind_ok _ _ _ _ _ (getDirectory_plain { d with raw := r2, bitmap := some (clearBit (clearBit buf key) loc.block) }
    loc.block (unitAt r2 loc.block) hlb (units_get_unitAt _ _ (by rw [hr2sz]; exact hlsz)))]
  have hge : Dir.getEntry { kind := kindOf loc.block (unitAt r2 loc.block), bytes := List.take dirLen (unitAt r2 loc.block) } loc.idx =
      some (slice (List.take dirLen (unitAt r2 loc.block)) (Dir.entryOff loc.idx) entryLen) := by
    have h := hl2.1
    unfold IdxOkFor at h
    unfold Dir.getEntry; rw [if_pos h]
  rw [hge, bind_ok _ _ _ _ _ (ofOption_some _ _)]
  -- the loop: one round
  have hb1 : ∀ j, freeB (clearBit buf key) j = freeB buf j := freeB_clearBit_used buf key hopen.bytes hkcov hkused
  have hb2 : ∀ j, freeB (clearBit (clearBit buf key) loc.block) j = freeB buf j := by
    intro j
    rw [freeB_clearBit_used (clearBit buf key) loc.block (bytesOk_clearBit buf key hopen.bytes)
      (by rw [size_clearBit]; exact hlcov) (by rw [hb1]; exact hlused) j, hb1]
  have hopen2 : BufOpen { d with raw := r2, bitmap := some (clearBit (clearBit buf key) loc.block) } (clearBit (clearBit buf key) loc.block) :=
    ⟨rfl, bytesOk_clearBit _ _ (bytesOk_clearBit buf key hopen.bytes), by rw [size_clearBit, size_clearBit]; exact hopen.covers⟩
  have hfind : (List.range d.total).find? (freeB (clearBit (clearBit buf key) loc.block)) = some nb :=
    find_first_free _ d.total nb hnbt (by rw [hb2]; exact hnbfree) (fun j hj => by rw [hb2]; exact hnbmin j hj)
  have hlook : f.chunks.lookup 0 = some c := by rw [hch]; rfl
  have hstep := wfStep_first { d with raw := r2, bitmap := some (clearBit (clearBit buf key) loc.block) }
    (clearBit (clearBit buf key) loc.block) f c
    { storage := stSeedling, masterBuf := zeros blockSize, masterPtr := 0, masterCount := 0,
      indexBuf := zeros blockSize, indexPtr := 0, indexCount := 0,
      entry := Ent.setEof (slice (List.take dirLen (unitAt r2 loc.block)) (Dir.entryOff loc.idx) entryLen) 0 }
    nb rfl rfl hlook hopen2 hfind hnb16 hnbb (by rw [hr2sz]; exact hnbsz) (by rw [size_clearBit, size_clearBit]; exact hnbcov)
  rw [hend]
  have hr01 : rng 0 1 = [0] := rfl
  rw [hr01]
  unfold wfLoop
  simp only [bind_def]
  have hin := bind_ok _ (fun s' => wfLoop f 1 [] s') _ _ _ hstep
  have hnil : ∀ (s' : WS) (dd : Disk), wfLoop f 1 [] s' dd = (.ok s', dd) := fun _ _ => rfl
  rw [hnil] at hin
  rw [bind_ok _ _ _ _ _ hin]
  simp only [hacc]
  rw [bind_ok _ _ _ _ _ (ofOption_some _ _)]
  -- last write: the final entry
  have hne : nb ≠ loc.block := by intro h; rw [h] at hnbfree; rw [hnbfree] at hlused; cases hlused
  have hr3sz : r3.units.size = d.raw.units.size := by rw [show r3.units.size = r2.units.size from setUnit_size _ _ _, hr2sz]
  have hl3eq : unitAt r3 loc.block = unitAt r2 loc.block := by
    show unitAt (setUnit r2 nb _) loc.block = _
    unfold unitAt; rw [setUnit_other _ _ _ _ hne]
  have hw4 := writeEntry_plain { d with raw := r3, bitmap := some (clearBit (clearBit (clearBit buf key) loc.block) nb) }
    (clearBit (clearBit (clearBit buf key) loc.block) nb) loc (unitAt r3 loc.block)
    (seedlingFinalEntry eRead c.length f.eof acc) hlb (units_get_unitAt _ _ (by rw [hr3sz]; exact hlsz))
    (by rw [hl3eq]; exact hl2.1) rfl (by rw [size_clearBit, size_clearBit, size_clearBit]; exact hlcov)
  have heq : seedlingFinalEntry eRead c.length f.eof acc =
      Ent.setAccess
        (if f.eof > 0 then
          Ent.setEof
            (Ent.setEof (Ent.incBlocks (Ent.setEof (slice (List.take dirLen (unitAt r2 loc.block)) (Dir.entryOff loc.idx) entryLen) 0))
              (Ent.eof (Ent.setEof (slice (List.take dirLen (unitAt r2 loc.block)) (Dir.entryOff loc.idx) entryLen) 0) + List.length c))
            f.eof
        else
          Ent.setEof (Ent.incBlocks (Ent.setEof (slice (List.take dirLen (unitAt r2 loc.block)) (Dir.entryOff loc.idx) entryLen) 0))
            (Ent.eof (Ent.setEof (slice (List.take dirLen (unitAt r2 loc.block)) (Dir.entryOff loc.idx) entryLen) 0) + List.length c))
        acc := by
    show seedlingFinalEntry (slice (List.take dirLen (unitAt r3 loc.block)) (Dir.entryOff loc.idx) entryLen) _ _ _ = _
    rw [hl3eq]; rfl
  rw [← heq, bind_ok _ _ _ _ _ hw4]
  rfl
/-! ## `rename` and `create` (mkdir) -/

theorem attempt_ok {α : Type} (m : M α) (d d' : Disk) (a : α) (h : m d = (.ok a, d')) : M.attempt m d = (.ok (some a), d') := by
  unfold M.attempt; rw [h]

/-- `rename(path, name)` of a file: if `ok_to_rename` passes and the search finds the file at `loc` (both leaving the disk
as it is) and the entry's rename bit is set, exactly the storage/length byte and the 15 name bytes of that entry change -/
theorem rename_spec (d : Disk) (buf : Array Nat) (path newName : Bytes) (loc : Loc) (blk : Bytes)
    (hok : okToRename path newName d = (.ok (), d)) (hfind : findFile path d = (.ok loc, d))
    (hnb : d.bitmapBlocks.contains loc.block = false) (hblk : d.raw.units[loc.block]? = some blk)
    (hidx : IdxOkFor loc blk) (hopen : d.bitmap = some buf) (hcov : loc.block / 8 < buf.size)
    (hbit : Ent.access (slice (blk.take dirLen) (Dir.entryOff loc.idx) entryLen) &&& 0x40 ≠ 0) :
    rename path newName d = (.ok (), { d with
      raw := setUnit d.raw loc.block (blockWithEntry blk loc.idx
        (Ent.rename (slice (blk.take dirLen) (Dir.entryOff loc.idx) entryLen) newName)),
      bitmap := some (clearBit buf loc.block) }) := by
  unfold rename
  simp only [bind_def]
  rw [bind_ok _ _ d d _ hok, bind_ok _ _ d d _ (attempt_ok _ d d loc hfind)]
  simp only []
  exact modify_spec d buf loc blk none (some newName) none none hnb hblk hidx hopen hcov (by simp) (by simp [hbit])

/-- the key block of a new sub-directory as `create` writes it -/
def newSubdirBlock (nm : Bytes) (loc : Loc) (time : Bytes) : Bytes :=
  quantize ((u16le 0 ++ u16le 0 ++ subDirHeader nm loc.block loc.idx time ++ zeros (12 * entryLen)).take blockSize)

/-- **`create(path)` (mkdir)**: given what `prepare_to_write` returned, three writes — the parent key block with its file
count raised, the entry slot with the sub-directory entry (`blocks_used = 1`, `eof = 512`, key pointer `nb`), and block
`nb` with the new directory's key block; nothing else changes, in the bitmap exactly `nb` becomes used -/
theorem mkdir_spec (d : Disk) (buf : Array Nat) (path time nm : Bytes) (key nb : Nat) (loc : Loc) (kblk lblk : Bytes)
    (hopen : BufOpen d buf)
    (hprep : prepareToWrite path d = (.ok (nm, key, loc, nb), d))
    (hkb : d.bitmapBlocks.contains key = false) (hkblk : d.raw.units[key]? = some kblk) (hklen : kblk.length = 512)
    (hkk : kindOf key kblk ≠ DKind.entry) (hkc : le16 (kblk.take dirLen) (4 + 33) + 1 ≤ 65535) (hkcov : key / 8 < buf.size)
    (hlb : d.bitmapBlocks.contains loc.block = false) (hlblk : d.raw.units[loc.block]? = some lblk) (hllen : lblk.length = 512)
    (hlidx : IdxOkFor loc lblk) (hlcov : loc.block / 8 < buf.size)
    (hnbb : d.bitmapBlocks.contains nb = false) (hnbsz : nb < d.raw.units.size) (hnbcov : nb / 8 < buf.size) :
    let r1 := setUnit d.raw key (keyBlockInc kblk)
    let r2 := setUnit r1 loc.block (blockWithEntry (unitAt r1 loc.block) loc.idx (createSubdir nm nb key time))
    let r3 := setUnit r2 nb (newSubdirBlock nm loc time)
    mkdir path time d = (.ok (), { d with raw := r3, bitmap := some (clearBit (clearBit (clearBit buf key) loc.block) nb) }) := by
  intro r1 r2 r3
  have hksz : key < d.raw.units.size := by
    rcases Nat.lt_or_ge key d.raw.units.size with h | h
    · exact h
    · rw [Array.getElem?_eq_none h] at hkblk; cases hkblk
  have hlsz : loc.block < d.raw.units.size := by
    rcases Nat.lt_or_ge loc.block d.raw.units.size with h | h
    · exact h
    · rw [Array.getElem?_eq_none h] at hlblk; cases hlblk
  unfold mkdir
  simp only [bind_def]
  rw [bind_ok _ _ d d _ hprep]
  simp only []
  rw [bind_ok _ _ d d _ (getDirectory_plain d key kblk hkb hkblk)]
  simp only [incFileCount_ok _ _ hkk hkc]
  rw [bind_ok _ _ d d _ (ofOption_some _ d)]
  simp only []
  have hw1 : writeBlock (splice (List.take dirLen kblk) (4 + 33) (u16le (le16 (List.take dirLen kblk) (4 + 33) + 1))) key 0 d =
      (.ok (), { d with raw := r1, bitmap := some (clearBit buf key) }) :=
    writeBlock_plain d buf _ key hkb hksz hopen.isOpen hkcov
  rw [bind_ok _ _ d _ _ hw1]
  have hr1sz : r1.units.size = d.raw.units.size := setUnit_size _ _ _
  have hl1 : IdxOkFor loc (unitAt r1 loc.block) := by
    show IdxOkFor loc (unitAt (setUnit d.raw key (keyBlockInc kblk)) loc.block)
    unfold unitAt
    rw [setUnit_get _ _ _ _ hksz]
    by_cases h : key = loc.block
    · simp only [h, ↓reduceIte, Option.getD_some]
      have hkl : kblk = lblk := by rw [h] at hkblk; rw [hkblk] at hlblk; exact Option.some.inj hlblk
      subst hkl
      exact idxOkFor_congr loc kblk _ (kindOf_congr _ _ _ (keyBlockInc_head kblk 0 (by omega) hklen).symm
        (keyBlockInc_head kblk 1 (by omega) hklen).symm) hlidx
    · simp only [h, ↓reduceIte, hlblk, Option.getD_some]
      exact hlidx
  have hw2 : writeEntry loc (createSubdir nm nb key time) { d with raw := r1, bitmap := some (clearBit buf key) } =
      (.ok (), { d with raw := r2, bitmap := some (clearBit (clearBit buf key) loc.block) }) :=
    writeEntry_plain { d with raw := r1, bitmap := some (clearBit buf key) } (clearBit buf key) loc
      (unitAt r1 loc.block) _ hlb (units_get_unitAt _ _ (by rw [hr1sz]; exact hlsz)) hl1 rfl (by rw [size_clearBit]; exact hlcov)
  rw [bind_ok _ _ _ _ _ hw2]
  have hr2sz : r2.units.size = d.raw.units.size := by rw [show r2.units.size = r1.units.size from setUnit_size _ _ _, hr1sz]
  exact writeBlock_plain { d with raw := r2, bitmap := some (clearBit (clearBit buf key) loc.block) }
    (clearBit (clearBit buf key) loc.block) _ nb hnbb (by rw [hr2sz]; exact hnbsz) rfl
    (by rw [size_clearBit, size_clearBit]; exact hnbcov)

end A2Verif.FsProdos
