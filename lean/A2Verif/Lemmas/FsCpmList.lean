import A2Verif.Model.Raw
/-!
# List facts used by the CP/M refinement proof: `eraseDups`, grouping by a key, sorting with distinct keys
Core Lean only.
-/
namespace A2Verif.FsCpm

theorem eraseDups_length_le {α : Type} [BEq α] : ∀ (n : Nat) (l : List α), l.length ≤ n → l.eraseDups.length ≤ l.length := by
  intro n
  induction n with
  | zero => intro l h; cases l with
    | nil => simp
    | cons a l => simp at h
  | succ n ih =>
    intro l h
    cases l with
    | nil => simp
    | cons a l =>
      rw [List.eraseDups_cons, List.length_cons, List.length_cons]
      have h1 : (l.filter (fun b => !b == a)).length ≤ l.length := List.length_filter_le _ _
      have := ih (l.filter (fun b => !b == a)) (by simp at h; omega)
      omega

theorem nodup_eraseDups {α : Type} [BEq α] [LawfulBEq α] : ∀ (n : Nat) (l : List α), l.length ≤ n → l.eraseDups.Nodup := by
  intro n
  induction n with
  | zero => intro l h; cases l with
    | nil => simp
    | cons a l => simp at h
  | succ n ih =>
    intro l h
    cases l with
    | nil => simp
    | cons a l =>
      rw [List.eraseDups_cons, List.nodup_cons]
      have h1 : (l.filter (fun b => !b == a)).length ≤ l.length := List.length_filter_le _ _
      refine ⟨?_, ih _ (by simp at h; omega)⟩
      intro hm
      rw [List.mem_eraseDups, List.mem_filter] at hm
      simp at hm

theorem eraseDups_nodup {α : Type} [BEq α] [LawfulBEq α] (l : List α) : l.eraseDups.Nodup := nodup_eraseDups l.length l (Nat.le_refl _)

/-- `eraseDups` keeps the length exactly when there was nothing to erase -/
theorem nodup_of_eraseDups_length {α : Type} [BEq α] [LawfulBEq α] : ∀ (n : Nat) (l : List α), l.length ≤ n →
    l.eraseDups.length = l.length → l.Nodup := by
  intro n
  induction n with
  | zero => intro l h _; cases l with
    | nil => simp
    | cons a l => simp at h
  | succ n ih =>
    intro l h he
    cases l with
    | nil => simp
    | cons a l =>
      rw [List.eraseDups_cons, List.length_cons, List.length_cons] at he
      have h1 : (l.filter (fun b => !b == a)).length ≤ l.length := List.length_filter_le _ _
      have h2 := eraseDups_length_le _ (l.filter (fun b => !b == a)) (Nat.le_refl _)
      have hfl : (l.filter (fun b => !b == a)).length = l.length := by omega
      have hf : l.filter (fun b => !b == a) = l := List.filter_eq_self.2 (by
        rw [← List.length_filter_eq_length_iff]; exact hfl)
      rw [hf] at he
      rw [List.nodup_cons]
      refine ⟨?_, ih l (by simp at h; omega) (by omega)⟩
      intro hm
      have := (List.filter_eq_self.1 hf) a hm
      simp at this

theorem eraseDups_of_nodup {α : Type} [BEq α] [LawfulBEq α] : ∀ {l : List α}, l.Nodup → l.eraseDups = l
  | [], _ => by simp
  | a :: l, h => by
    rw [List.nodup_cons] at h
    rw [List.eraseDups_cons]
    have hf : l.filter (fun b => !b == a) = l := List.filter_eq_self.2 (by
      intro b hb
      have : b ≠ a := fun e => h.1 (e ▸ hb)
      simpa using this)
    rw [hf, eraseDups_of_nodup h.2]

theorem flatMap_congr_mem {α β : Type} {f g : α → List β} : ∀ {l : List α}, (∀ a ∈ l, f a = g a) → l.flatMap f = l.flatMap g
  | [], _ => rfl
  | a :: l, h => by
    rw [List.flatMap_cons, List.flatMap_cons, h a List.mem_cons_self,
      flatMap_congr_mem (fun b hb => h b (List.mem_cons_of_mem _ hb))]

/-- grouping a list by a key (groups in order of first appearance) is a permutation of the list -/
theorem group_perm {α κ : Type} [BEq κ] [LawfulBEq κ] (key : α → κ) : ∀ (n : Nat) (l : List α), l.length ≤ n →
    (((l.map key).eraseDups).flatMap (fun k => l.filter (fun a => key a == k))).Perm l := by
  intro n
  induction n with
  | zero => intro l h; cases l with
    | nil => simp
    | cons a l => simp at h
  | succ n ih =>
    intro l h
    cases l with
    | nil => simp
    | cons a t =>
      rw [List.map_cons, List.eraseDups_cons, List.flatMap_cons]
      have hfm : (t.map key).filter (fun b => !b == key a) = (t.filter (fun x => !(key x == key a))).map key := by
        rw [List.filter_map]; rfl
      rw [hfm]
      have hhead : (a :: t).filter (fun x => key x == key a) = a :: t.filter (fun x => key x == key a) := by
        rw [List.filter_cons_of_pos (by simp)]
      rw [hhead]
      have hrest : (((t.filter (fun x => !(key x == key a))).map key).eraseDups).flatMap (fun k => (a :: t).filter (fun x => key x == k)) =
          (((t.filter (fun x => !(key x == key a))).map key).eraseDups).flatMap
            (fun k => (t.filter (fun x => !(key x == key a))).filter (fun x => key x == k)) := by
        apply flatMap_congr_mem
        intro k hk
        rw [List.mem_eraseDups, List.mem_map] at hk
        obtain ⟨x, hx, rfl⟩ := hk
        rw [List.mem_filter] at hx
        have hne : (key a == key x) = false := by
          have := hx.2
          simp only [Bool.not_eq_true', beq_eq_false_iff_ne, ne_eq] at this
          simpa using fun e => this e.symm
        rw [List.filter_cons_of_neg (by simp [hne]), List.filter_filter]
        apply List.filter_congr
        intro y _
        by_cases hy : key y == key x
        · have : key y = key x := by simpa using hy
          have hne' : (key y == key a) = false := by
            rw [this]
            simpa using fun e => (by simpa using hne : ¬ key a = key x) e.symm
          simp [hy, hne']
        · simp [hy]
      rw [hrest]
      have hlen : (t.filter (fun x => !(key x == key a))).length ≤ n := by
        have := List.length_filter_le (fun x => !(key x == key a)) t
        simp at h; omega
      have hp := ih _ hlen
      refine (List.Perm.cons a ((List.Perm.append (List.Perm.refl _) hp).trans ?_))
      exact List.filter_append_perm (fun x => key x == key a) t

theorem group_perm' {α κ : Type} [BEq κ] [LawfulBEq κ] (key : α → κ) (l : List α) :
    (((l.map key).eraseDups).flatMap (fun k => l.filter (fun a => key a == k))).Perm l :=
  group_perm key l.length l (Nat.le_refl _)

/-- sorting by a key function whose values are pairwise different gives strictly ascending keys -/
theorem sorted_lt_of_nodup {β : Type} (l : List (Nat × β)) (h : (l.map (·.1)).Nodup) :
    ((l.mergeSort (fun a b => decide (a.1 ≤ b.1))).map (·.1)).Pairwise (· < ·) := by
  have hs := List.pairwise_mergeSort (le := fun (a b : Nat × β) => decide (a.1 ≤ b.1))
    (by intro a b c h1 h2; simp only [decide_eq_true_eq] at *; omega)
    (by intro a b; simp only [Bool.or_eq_true, decide_eq_true_eq]; omega) l
  have hp := List.mergeSort_perm l (fun a b => decide (a.1 ≤ b.1))
  have hn : ((l.mergeSort (fun a b => decide (a.1 ≤ b.1))).map (·.1)).Nodup := (hp.map (·.1)).nodup_iff.2 h
  rw [List.nodup_iff_pairwise_ne, List.pairwise_map] at hn
  rw [List.pairwise_map]
  exact (hs.and hn).imp (fun ⟨a, b⟩ => by simp only [decide_eq_true_eq] at a; omega)

end A2Verif.FsCpm
