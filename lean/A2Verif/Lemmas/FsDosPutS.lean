import A2Verif.Lemmas.FsDosPutB
/-!
# `put`, part S: files with more than one T/S list — what has been built so far

`Seg` is a T/S list chain segment whose last link points to the list under construction.  `Acc` collects what
the finished lists `U` amount to in an image `r` with buffer `v`: the reader's walk over them yields exactly the
chunks with index below `n`, their units (`chainUnits`) are pairwise different, were free in the state `w0`
`write_file` started from and are exactly what the buffer marks used in addition, and nothing else differs from
`w0` except the catalog sector.  `Pre` is `Acc` + `Seg` for the lists finished before the one `K` describes;
`acc_extend` adds the current list (from its loop invariant `LI`).  Core Lean only.
-/
set_option linter.unusedSimpArgs false
namespace A2Verif.Fs.Dos3x
open A2Verif.FsDos A2Verif.Read.Dos3x

/-! ## lists -/

theorem walkOf_append {r : Raw} {c : Nat} : ∀ (U V : List Nat) (base : Nat),
    walkOf r c base (U ++ V) = walkOf r c base U ++ walkOf r c (base + 122 * U.length) V := by
  intro U
  induction U with
  | nil => intro V base; simp [walkOf]
  | cons u U ih =>
    intro V base
    simp only [List.cons_append, walkOf, ih, List.length_cons, List.append_assoc]
    have : base + 122 + 122 * U.length = base + 122 * (U.length + 1) := by omega
    rw [this]

theorem chainUnits_append {r : Raw} {c : Nat} : ∀ (U V : List Nat),
    chainUnits r c (U ++ V) = chainUnits r c U ++ chainUnits r c V := by
  intro U
  induction U with
  | nil => intro V; rfl
  | cons u U ih => intro V; simp only [List.cons_append, chainUnits, ih, List.append_assoc]

theorem pairUnits_congr {c : Nat} {b b' : Bytes} (hT : ∀ k, pairT b' k = pairT b k) (hS : ∀ k, pairS b' k = pairS b k)
    (ks : List Nat) : pairUnits c b' ks = pairUnits c b ks := by
  unfold pairUnits
  apply filterMap_congr'
  intro k _
  rw [hT k, hS k]

theorem chainUnits_congr {r r' : Raw} {c : Nat} : ∀ {U : List Nat}, (∀ u ∈ U, sec r' u = sec r u) →
    chainUnits r' c U = chainUnits r c U := by
  intro U
  induction U with
  | nil => intro _; rfl
  | cons u U ih =>
    intro h
    simp only [chainUnits]
    rw [h u List.mem_cons_self, ih (fun x hx => h x (List.mem_cons_of_mem _ hx))]

theorem mem_chainUnits_list {r : Raw} {c : Nat} {U : List Nat} {u : Nat} (h : u ∈ U) : u ∈ chainUnits r c U :=
  (mem_chainUnits U 0 u).2 (Or.inl h)

/-- the units of a chain in the order the reader lists them (`owned`) are a permutation of `chainUnits` -/
theorem chainUnits_perm {r : Raw} {c : Nat} : ∀ (U : List Nat) (base : Nat),
    (chainUnits r c U).Perm (U ++ (walkOf r c base U).map (·.2.2)) := by
  intro U
  induction U with
  | nil => intro base; simp [chainUnits, walkOf]
  | cons u U ih =>
    intro base
    simp only [chainUnits, walkOf, List.map_append, hereOf_units, List.cons_append, List.append_assoc, List.nil_append]
    refine List.perm_middle.trans (List.Perm.cons u ?_)
    refine (List.Perm.append_left _ (ih (base + 122))).trans ?_
    rw [← List.append_assoc, ← List.append_assoc]
    exact List.Perm.append_right _ List.perm_append_comm

theorem nodup_filterMap_inj {α : Type} {f : Nat → Option α} : ∀ {l : List Nat}, l.Nodup →
    (∀ a b x, a ∈ l → b ∈ l → f a = some x → f b = some x → a = b) → (l.filterMap f).Nodup := by
  intro l
  induction l with
  | nil => intro _ _; exact List.nodup_nil
  | cons a l ih =>
    intro hn hinj
    have hnc := List.nodup_cons.1 hn
    have ih' := ih hnc.2 (fun a' b x ha hb => hinj a' b x (List.mem_cons_of_mem _ ha) (List.mem_cons_of_mem _ hb))
    rw [List.filterMap_cons]
    cases hfa : f a with
    | none => exact ih'
    | some x =>
      refine List.nodup_cons.2 ⟨?_, ih'⟩
      intro hm
      obtain ⟨b, hb, hfb⟩ := List.mem_filterMap.1 hm
      have := hinj a b x List.mem_cons_self (List.mem_cons_of_mem _ hb) hfa hfb
      exact hnc.1 (this ▸ hb)

theorem range_split (a p : Nat) : List.range (a + p) = List.range a ++ (List.range p).map (fun k => a + k) := List.range_add

/-! ## chain segments -/

/-- the T/S lists `D` are chained from pointer `(t,s)`; the last of them points to `(t',s')` -/
def Seg (r : Raw) (c : Nat) : Nat → Nat → List Nat → Nat → Nat → Prop
  | t, s, [], t', s' => t = t' ∧ s = s'
  | t, s, u :: rest, t', s' => TsNode r c t s u ∧ (sec r u).getD 1 0 ≠ 0 ∧
      Seg r c ((sec r u).getD 1 0) ((sec r u).getD 2 0) rest t' s'

theorem Seg.snoc {r : Raw} {c : Nat} : ∀ {D : List Nat} {t s t' s' u : Nat}, Seg r c t s D t' s' → TsNode r c t' s' u →
    (sec r u).getD 1 0 ≠ 0 → Seg r c t s (D ++ [u]) ((sec r u).getD 1 0) ((sec r u).getD 2 0) := by
  intro D
  induction D with
  | nil =>
    intro t s t' s' u h hn h0
    obtain ⟨rfl, rfl⟩ := h
    exact ⟨hn, h0, rfl, rfl⟩
  | cons x D ih =>
    intro t s t' s' u h hn h0
    obtain ⟨a, b, c'⟩ := h
    exact ⟨a, b, ih c' hn h0⟩

theorem Seg.close {r : Raw} {c : Nat} : ∀ {D : List Nat} {t s t' s' u : Nat}, Seg r c t s D t' s' → TsNode r c t' s' u →
    (sec r u).getD 1 0 = 0 → (sec r u).getD 2 0 = 0 → TsChain r c t s (D ++ [u]) := by
  intro D
  induction D with
  | nil =>
    intro t s t' s' u h hn h1 h2
    obtain ⟨rfl, rfl⟩ := h
    exact ⟨hn, h1, h2⟩
  | cons x D ih =>
    intro t s t' s' u h hn h1 h2
    obtain ⟨a, b, c'⟩ := h
    have := ih c' hn h1 h2
    cases hD : D ++ [u] with
    | nil => simp at hD
    | cons y ys =>
      rw [hD] at this
      show TsChain r c t s (x :: (D ++ [u]))
      rw [hD]
      exact ⟨a, b, this⟩

theorem Seg.congr {r r' : Raw} {c : Nat} (hsz : r'.units.size = r.units.size) : ∀ {D : List Nat} {t s t' s' : Nat},
    (∀ u ∈ D, sec r' u = sec r u) → Seg r c t s D t' s' → Seg r' c t s D t' s' := by
  intro D
  induction D with
  | nil => intro t s t' s' _ h; exact h
  | cons u D ih =>
    intro t s t' s' hag h
    have hu := hag u List.mem_cons_self
    obtain ⟨⟨ht, hs, he, hlt, hp⟩, h1, hrest⟩ := h
    refine ⟨⟨ht, hs, he, by rw [hsz]; exact hlt, ?_⟩, by rw [hu]; exact h1, ?_⟩
    · rw [hu]; exact hp.congr hsz
    · rw [hu]; exact ih (fun x hx => hag x (List.mem_cons_of_mem _ hx)) hrest

/-! ## what the finished lists amount to -/

/-- the chunks with index below `n`, as the reader returns them -/
def stored (chunks : List (Nat × Bytes)) (ks : List Nat) : List (Nat × Bytes) :=
  ks.filterMap (fun k => (chunks.lookup k).map (fun d => (k, quantize d)))

structure Acc (w0 : W) (c ud : Nat) (chunks : List (Nat × Bytes)) (r : Raw) (v : Bytes) (U : List Nat) (n : Nat) : Prop where
  size : r.units.size = 35 * c
  walk : (walkOf r c 0 U).map (fun x => (x.1, x.2.1)) = stored chunks (List.range n)
  nodup : (chainUnits r c U).Nodup
  free : ∀ x ∈ chainUnits r c U, x < 35 * c ∧ isFreeU w0.v c x = true
  taken : Taken w0.v v c (chainUnits r c U)
  frame : ∀ x, x ∉ chainUnits r c U → x ≠ ud → x ≠ vtocTrack * c → sec r x = sec w0.img x

/-- the state in which the T/S list described by `K` was started: the lists `D` before it are finished -/
structure Pre (w0 : W) (tt0 tsec0 : Nat) (D : List Nat) (K : PCtx) : Prop where
  hc : K.c = w0.c
  base : K.base = 122 * D.length
  later : K.later + D.length = (K.endIdx - 1) / 122
  udUsed0 : isFreeU w0.v K.c K.ud = false
  vtUsed0 : isFreeU w0.v K.c (vtocTrack * K.c) = false
  udLt : K.ud < 35 * K.c
  seg : Seg K.img0 K.c tt0 tsec0 D K.tt K.tsec
  acc : Acc w0 K.c K.ud K.chunks K.img0 K.v0 D K.base

/-- what the reader finds in one T/S list sector with content `b` in image `r` -/
theorem here_chunks {K : PCtx} {p : Nat} {b : Bytes} {r : Raw} (hp : p ≤ 122)
    (pres : ∀ k d, k < p → K.chunks.lookup (K.base + k) = some d → pairT b k ≠ 0 ∧ sec r (K.unit b k) = quantize d)
    (hole : ∀ k, k < 122 → (p ≤ k ∨ K.chunks.lookup (K.base + k) = none) → pairT b k = 0) :
    (hereOf r K.c b K.base).map (fun x => (x.1, x.2.1)) = stored K.chunks ((List.range p).map (fun k => K.base + k)) := by
  unfold hereOf stored
  rw [List.map_filterMap, List.filterMap_map]
  have hsplit : List.range 122 = List.range p ++ (List.range (122 - p)).map (fun k => p + k) := by
    have := range_split p (122 - p)
    rw [show p + (122 - p) = 122 by omega] at this
    exact this
  rw [hsplit, List.filterMap_append]
  have h2 : List.filterMap (fun k => Option.map (fun x : Nat × Bytes × Nat => (x.1, x.2.1))
      (if pairT b k = 0 then none else some (K.base + k, sec r (pairT b k * K.c + pairS b k), pairT b k * K.c + pairS b k)))
      ((List.range (122 - p)).map (fun k => p + k)) = [] := by
    rw [List.filterMap_eq_nil_iff]
    intro k hk'
    obtain ⟨i, hi, rfl⟩ := List.mem_map.1 hk'
    have hi' := List.mem_range.1 hi
    rw [hole (p + i) (by omega) (Or.inl (by omega))]
    simp
  rw [h2, List.append_nil]
  apply filterMap_congr'
  intro k hk'
  have hke := List.mem_range.1 hk'
  simp only [Function.comp]
  cases hl : K.chunks.lookup (K.base + k) with
  | none =>
    rw [hole k (by omega) (Or.inr hl)]
    simp
  | some d =>
    obtain ⟨h0, hs⟩ := pres k d hke hl
    unfold PCtx.unit at hs
    simp only [h0, if_false, Option.map_some, hs]

section extend
variable {w0 : W} {tt0 tsec0 : Nat} {D : List Nat} {K : PCtx} {p : Nat} {st : LoopSt} {w : W}
  (hpre : Pre w0 tt0 tsec0 D K) (hk : PCtxOk K) (hli : LI K p st w)
include hpre hk hli

omit hk hli in
/-- the units of the finished lists are marked used in the buffer the current list was started from -/
theorem Pre.used {x : Nat} (hx : x ∈ chainUnits K.img0 K.c D) : isFreeU K.v0 K.c x = false := by
  rw [isFreeU_taken hpre.acc.taken (hpre.acc.free x hx).1]
  simp [hx]

theorem Pre.notNew {x : Nat} (hx : x ∈ chainUnits K.img0 K.c D) :
    x ≠ K.uT ∧ x ≠ K.ud ∧ x ≠ vtocTrack * K.c ∧ ∀ k, k < 122 → pairT st.tsl k ≠ 0 → x ≠ K.unit st.tsl k := by
  have hu := Pre.used hpre hx
  have hf := (hpre.acc.free x hx).2
  refine ⟨?_, ?_, ?_, ?_⟩
  · intro e; rw [e, hk.uTfree] at hu; cases hu
  · intro e; rw [e, hpre.udUsed0] at hf; cases hf
  · intro e; rw [e, hpre.vtUsed0] at hf; cases hf
  · intro k hk1 h0 e
    rw [e, (hli.dfree k hk1 h0).1] at hu; cases hu

/-- the finished lists and their data sectors are as they were when the current list was started -/
theorem Pre.stable {x : Nat} (hx : x ∈ chainUnits K.img0 K.c D) : sec w.img x = sec K.img0 x := by
  obtain ⟨a, b, c', d⟩ := Pre.notNew hpre hk hli hx
  exact hli.frame x a b c' d

/-- **adding the current list**: in any image `r'` that agrees with the working image except in the bytes of the
current T/S list sector outside its pairs, the lists `D ++ [K.uT]` hold the chunks below `K.base + p` -/
theorem acc_extend (hp : p ≤ 122) (hp0 : 0 < p) {r' : Raw} (hsz : r'.units.size = 35 * K.c)
    (hoth : ∀ x, x ≠ K.uT → x ≠ vtocTrack * K.c → sec r' x = sec w.img x)
    (hpT : ∀ k, pairT (sec r' K.uT) k = pairT st.tsl k) (hpS : ∀ k, pairS (sec r' K.uT) k = pairS st.tsl k) :
    Acc w0 K.c K.ud K.chunks r' w.v (D ++ [K.uT]) (K.base + p) ∧ Seg r' K.c tt0 tsec0 D K.tt K.tsec ∧
      TsNode r' K.c K.tt K.tsec K.uT := by
  have hacc := hpre.acc
  have hu1 : K.uT < 35 * K.c := by rw [hk.huT]; exact unit_lt hk.htt hk.htsec
  -- old units in the new image
  have hold : ∀ x ∈ chainUnits K.img0 K.c D, sec r' x = sec K.img0 x := by
    intro x hx
    obtain ⟨a, _, c', _⟩ := Pre.notNew hpre hk hli hx
    rw [hoth x a c', Pre.stable hpre hk hli hx]
  have hcu : chainUnits r' K.c D = chainUnits K.img0 K.c D :=
    chainUnits_congr (fun u hu => hold u (mem_chainUnits_list hu))
  have hpu : pairUnits K.c (sec r' K.uT) (List.range 122) = pairUnits K.c st.tsl (List.range 122) := pairUnits_congr hpT hpS _
  have hcuAll : chainUnits r' K.c (D ++ [K.uT]) = chainUnits K.img0 K.c D ++ (pairUnits K.c st.tsl (List.range 122) ++ [K.uT]) := by
    rw [chainUnits_append, hcu]
    simp only [chainUnits, hpu, List.append_nil]
  -- pairs of the current list
  have hpb : ∀ k, k < 122 → pairT st.tsl k ≠ 0 → pairT st.tsl k < 35 ∧ pairS st.tsl k < K.c := by
    intro k hk1 h0
    have hke : k < p := by
      rcases Nat.lt_or_ge k p with h | h
      · exact h
      · exact absurd (hli.hole k hk1 (Or.inl h)) h0
    cases hl : K.chunks.lookup (K.base + k) with
    | none => exact absurd (hli.hole k hk1 (Or.inr hl)) h0
    | some d => obtain ⟨_, a, b, _⟩ := hli.pres k d hke hl; exact ⟨a, b⟩
  have hmemD : ∀ x, x ∈ pairUnits K.c st.tsl (List.range 122) ↔ ∃ k, k < 122 ∧ pairT st.tsl k ≠ 0 ∧ x = K.unit st.tsl k := by
    intro x; rw [mem_pairUnits]; rfl
  have hnewfree : ∀ x, x ∈ pairUnits K.c st.tsl (List.range 122) ++ [K.uT] → x < 35 * K.c ∧ isFreeU K.v0 K.c x = true := by
    intro x hx
    rcases List.mem_append.1 hx with h | h
    · obtain ⟨k, hk1, h0, rfl⟩ := (hmemD x).1 h
      exact ⟨unit_lt (hpb k hk1 h0).1 (hpb k hk1 h0).2, (hli.dfree k hk1 h0).1⟩
    · rw [List.mem_singleton.1 h]; exact ⟨hu1, hk.uTfree⟩
  have hvt17 : vtocTrack * K.c < 35 * K.c := by unfold vtocTrack; have := hk.hc; omega
  have hdata17 : ∀ k, k < 122 → pairT st.tsl k ≠ 0 → K.unit st.tsl k ≠ vtocTrack * K.c := by
    intro k hk1 h0 e
    have := (hli.dfree k hk1 h0).1
    rw [e, hk.vtUsed] at this; cases this
  have hT : sec w.img K.uT = st.tsl := hli.hT hp0
  refine ⟨⟨hsz, ?_, ?_, ?_, ?_, ?_⟩, ?_, ?_⟩
  · -- the walk
    rw [walkOf_append]
    have h1 : walkOf r' K.c 0 D = walkOf K.img0 K.c 0 D := by
      apply walkOf_congr
      · intro u hu; exact hold u (mem_chainUnits_list hu)
      · intro x hx
        exact hold x.2.2 ((mem_chainUnits D 0 x.2.2).2 (Or.inr (List.mem_map_of_mem hx)))
    rw [h1, List.map_append, hacc.walk]
    have h2 : walkOf r' K.c (0 + 122 * D.length) [K.uT] = hereOf r' K.c (sec r' K.uT) K.base := by
      simp [walkOf, hpre.base]
    rw [h2, here_chunks (K := K) (r := r') (b := sec r' K.uT) hp]
    · unfold stored
      rw [range_split, List.filterMap_append]
    · intro k d hkp hd
      obtain ⟨a, _, _, e⟩ := hli.pres k d hkp hd
      refine ⟨by rw [hpT]; exact a, ?_⟩
      have hun : K.unit (sec r' K.uT) k = K.unit st.tsl k := by unfold PCtx.unit; rw [hpT, hpS]
      rw [hun, hoth _ (hli.dfree k (by omega) a).2 (hdata17 k (by omega) a)]
      exact e
    · intro k hk1 hor
      rw [hpT]; exact hli.hole k hk1 hor
  · -- pairwise different
    rw [hcuAll]
    refine List.nodup_append.2 ⟨hacc.nodup, ?_, ?_⟩
    · refine List.nodup_append.2 ⟨?_, (by simp), ?_⟩
      · unfold pairUnits
        apply nodup_filterMap_inj List.nodup_range
        intro a b x ha hb hfa hfb
        have ha0 : pairT st.tsl a ≠ 0 := fun h => by simp [h] at hfa
        have hb0 : pairT st.tsl b ≠ 0 := fun h => by simp [h] at hfb
        simp only [ha0, if_false, Option.some.injEq] at hfa
        simp only [hb0, if_false, Option.some.injEq] at hfb
        apply hli.inj a b (List.mem_range.1 ha) (List.mem_range.1 hb) ha0 hb0
        unfold PCtx.unit; rw [hfa, hfb]
      · intro a ha b hb e
        rw [List.mem_singleton.1 hb] at e
        obtain ⟨k, hk1, h0, rfl⟩ := (hmemD a).1 ha
        exact (hli.dfree k hk1 h0).2 e
    · intro a ha b hb e
      have h1 := Pre.used hpre ha
      have h2 := (hnewfree b hb).2
      rw [e, h2] at h1; cases h1
  · -- were free
    rw [hcuAll]
    intro x hx
    rcases List.mem_append.1 hx with h | h
    · exact hacc.free x h
    · obtain ⟨a, b⟩ := hnewfree x h
      refine ⟨a, ?_⟩
      rw [isFreeU_taken hacc.taken a] at b
      simp only [Bool.and_eq_true] at b
      exact b.1
  · -- are marked used
    rw [hcuAll]
    refine (hacc.taken.trans hli.taken).congr (fun y => ?_)
    simp only [List.mem_append, List.mem_cons, List.mem_nil_iff, or_false]
    constructor
    · rintro (h | h | h)
      · exact Or.inl h
      · exact Or.inr (Or.inr h)
      · exact Or.inr (Or.inl h)
    · rintro (h | h | h)
      · exact Or.inl h
      · exact Or.inr (Or.inr h)
      · exact Or.inr (Or.inl h)
  · -- everything else untouched
    rw [hcuAll]
    intro x hx hxud hx17
    simp only [List.mem_append, List.mem_cons, List.mem_nil_iff, or_false, not_or] at hx
    obtain ⟨hx1, hx2, hx3⟩ := hx
    rw [hoth x hx3 hx17, hli.frame x hx3 hxud hx17 (fun k hk1 h0 e => hx2 ((hmemD x).2 ⟨k, hk1, h0, e⟩))]
    exact hacc.frame x hx1 hxud hx17
  · -- the segment
    exact Seg.congr (by rw [hsz, hacc.size]) (fun u hu => hold u (mem_chainUnits_list hu)) hpre.seg
  · -- the node of the current list
    refine ⟨hk.htt, hk.htsec, hk.huT, by rw [hsz]; exact hu1, ?_⟩
    intro k hk1 h0
    rw [hpT] at h0
    obtain ⟨a, b⟩ := hpb k hk1 h0
    rw [hpT, hpS, hsz]
    exact ⟨a, b, unit_lt a b⟩

end extend

end A2Verif.Fs.Dos3x
