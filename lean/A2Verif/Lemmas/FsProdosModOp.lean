import A2Verif.Lemmas.FsProdosEnt
/-!
# `lock`, `unlock`, `retype` of a file of the volume directory refine the abstract operations

From either buffer state, every outcome, `Inv` preserved (`SInv` after `get_img()`): the in-place rewrite of one entry
(`modify_found` = `modify_trace` + `replace_reading`) and the abstract step for each operation.
-/
namespace A2Verif.FsProdos
open A2Verif.Fs.Prodos
open A2Verif.Read.Prodos (entryAt dirChain idxPtr indexEntries readData trimName bitmapFree)
open A2Verif.Read.ProdosT

abbrev pdParams : FsParams := { eofRule := id, keepsType := true, keepsAux := true, hasLock := true }

/-- `modify` on the slot the search found: the operation succeeds and the reading afterwards is the old one with that record
replaced -/
theorem modify_found {d : Disk} (hs : SInv d) (v : Vol) (fsL : List LRec) (ch : List Nat)
    (hr : Read.ProdosT.read d.raw = .ok v) (ht : readTree d.raw (hdrTotal d.raw) = .ok (fsL, ch))
    (B k : Nat) (hB : B ∈ ch) (hk13 : k < 13) (hkey : B = 2 → 1 ≤ k)
    (hst : (entryAt (unitAt d.raw B) k 39).getD 0 0 / 16 = 1 ∨ (entryAt (unitAt d.raw B) k 39).getD 0 0 / 16 = 2 ∨
      (entryAt (unitAt d.raw B) k 39).getD 0 0 / 16 = 3)
    (lock : Option Bool) (newName : Option Bytes) (newType : Option (Option Nat)) (newAux : Option Nat)
    (hty : newType ≠ some none)
    (hren : ¬ (Ent.access (entryAt (unitAt d.raw B) k 39) &&& 0x40 = 0 ∧ newName.isSome = true))
    (e' : Bytes) (he' : modEntry lock newName newType newAux (entryAt (unitAt d.raw B) k 39) = e')
    (hl : e'.length = 39) (hb : ∀ x ∈ e', x < 256) (hsb : SameBlocks (entryAt (unitAt d.raw B) k 39) e')
    (hua : UniformAcc (e'.getD 30 0)) (hname : 47 ∉ trimName e')
    (hpath : ∀ f, Read.ProdosT.readFile d.raw (hdrTotal d.raw) (entryAt (unitAt d.raw B) k 39) [] = .ok f →
      (baseRec e' []).path = f.path ∨ (baseRec e' []).path ∉ v.paths) :
    ∃ d1 d4 v4 f FA FB, Fs.Prodos.modify { block := B, idx := k + 1 } lock newName newType newAux d = (.ok (), d1) ∧
      d1.flush = (.ok (), d4) ∧ SInv d4 ∧ Read.ProdosT.read d4.raw = .ok v4 ∧
      Read.ProdosT.readFile d.raw (hdrTotal d.raw) (entryAt (unitAt d.raw B) k 39) [] = .ok f ∧
      v.files = FA ++ f :: FB ∧ v4.files = FA ++ reRec e' [] f :: FB ∧ v4.wfB = true ∧ v.wfB = true ∧ v4.label = v.label := by
  obtain ⟨v', fsL', ch', hr', ht', c, hts, heff, hbsz, hbok⟩ := hs.ctx
  have e2 : fsL' = fsL ∧ ch' = ch := by
    rw [ht] at ht'; injection ht' with h; injection h with h1 h2; exact ⟨h1.symm, h2.symm⟩
  obtain ⟨rfl, rfl⟩ := e2
  obtain ⟨_, _, _, _, _, _, _, hchf, _, _, _, _, _⟩ := root_chain_facts hs.inv v' fsL' ch' hr' ht
  have hBl : B < d.raw.units.size := by rw [← hs.inv.size]; exact (hchf B hB).1
  obtain ⟨d1, hd1, n1⟩ := modify_trace c B k hB hk13 hkey lock newName newType newAux hty hren
    (by rw [heff, hbsz]; exact cover_of_lt (hchf B hB).1) (hs.inv.shape.unit hBl).1
  rw [he', take_full e' hl] at n1
  obtain ⟨d4, v4, f, FA, FB, hfl, hs4, hr4, hrf, hf1, hf4, hw4, hw, hlab⟩ :=
    replace_reading hs v fsL' ch' hr ht B k hB hk13 hkey hst e' hl hb hsb hua hname n1 hpath
  exact ⟨d1, d4, v4, f, FA, FB, hd1, hfl, hs4, hr4, hrf, hf1, hf4, hw4, hw, hlab⟩

/-- the slot the search found: a file entry of 39 bytes whose trimmed name is the upper-cased name -/
theorem found_slot {d : Disk} (hs : SInv d) (v : Vol) (fsL : List LRec) (ch : List Nat)
    (hr : Read.ProdosT.read d.raw = .ok v) (ht : readTree d.raw (hdrTotal d.raw) = .ok (fsL, ch))
    (nm : Bytes) (hv : isNameValid nm = true) (x : Bytes × Nat × Nat)
    (hx : (dirSlots d.raw 2 ch).find? (isHit fileTypes nm) = some x) :
    ∃ B k, B ∈ ch ∧ k < 13 ∧ (B = 2 → 1 ≤ k) ∧ x = (entryAt (unitAt d.raw B) k 39, B, k + 1) ∧
      ((entryAt (unitAt d.raw B) k 39).getD 0 0 / 16 = 1 ∨ (entryAt (unitAt d.raw B) k 39).getD 0 0 / 16 = 2 ∨
        (entryAt (unitAt d.raw B) k 39).getD 0 0 / 16 = 3) ∧
      trimName (entryAt (unitAt d.raw B) k 39) = upper nm ∧ (entryAt (unitAt d.raw B) k 39).length = 39 ∧
      (∀ y ∈ entryAt (unitAt d.raw B) k 39, y < 256) ∧ UniformAcc ((entryAt (unitAt d.raw B) k 39).getD 30 0) ∧
      47 ∉ trimName (entryAt (unitAt d.raw B) k 39) := by
  obtain ⟨hw, hn, hroot, hvv, hc, hic, hnd, hchf, h2, h6, h3, hbt, hstv⟩ := root_chain_facts hs.inv v fsL ch hr ht
  obtain ⟨hxm, hxhit⟩ := mem_find hx
  obtain ⟨B, hB, k, hk13, hkey, hxe⟩ := mem_dirSlots.mp hxm
  subst hxe
  have hmatch : isFileMatch fileTypes nm (entryAt (unitAt d.raw B) k 39) = true := by
    unfold isHit at hxhit; simp only [Bool.and_eq_true] at hxhit; exact hxhit.2
  obtain ⟨hst, hname⟩ := isFileMatch_file nm _ hv hmatch
  have hBl : B < d.raw.units.size := by rw [← hs.inv.size]; exact (hchf B hB).1
  have hsh := hs.inv.shape.unit hBl
  refine ⟨B, k, hB, hk13, hkey, rfl, hst, hname, entryAt_length _ _ (by rw [hsh.1]; omega), entryAt_bytes _ _ hsh.2, ?_,
    hroot.names _ hxm (by unfold isAct; simp only [ne_eq, decide_eq_true_eq]; omega)⟩
  rcases (hroot.slots _ hxm).file (by simp only; omega) with h0 | ⟨_, hu, _⟩
  · simp only at h0; rw [h0] at hst; simp at hst
  · exact hu

/-- the fields of the old and of the new record -/
theorem reRec_fields (e' : Bytes) (f : FileRec) :
    (reRec e' [] f).path = trimName e' ∧ (reRec e' [] f).ftype = e'.getD 16 0 ∧ (reRec e' [] f).aux = le16 e' 31 ∧
    (reRec e' [] f).locked = readerLocked (e'.getD 30 0) ∧ (reRec e' [] f).eof = le24 e' 21 ∧
    (reRec e' [] f).chunks = f.chunks ∧ (reRec e' [] f).owned = f.owned ∧ (reRec e' [] f).isDir = false := by
  unfold reRec baseRec readerLocked
  simp

theorem old_fields (r : Raw) (total : Nat) (e : Bytes) (f : FileRec) (h : Read.ProdosT.readFile r total e [] = .ok f) :
    f.path = trimName e ∧ f.ftype = e.getD 16 0 ∧ f.aux = le16 e 31 ∧ f.locked = readerLocked (e.getD 30 0) ∧
    f.eof = le24 e 21 ∧ f.isDir = false := by
  obtain ⟨h1, h2, h3, _, h5, h6, h7⟩ := readFile_rec_fields r total e [] f h
  refine ⟨by rw [h1, baseRec_path_root], h5, h6, ?_, h7, h2⟩
  rw [h3]; unfold baseRec readerLocked; simp

/-- an operation that begins with `find_file` and does not find the file fails with the search's error, changing nothing -/
theorem findFile_fail {d : Disk} {bm cnt : Nat} {ch : List Nat} (c : RootCtx d bm cnt ch) (path nm : Bytes)
    (hnodes : normalizePath (volName (hdrOf d.raw)) path = .ok [volName (hdrOf d.raw), nm]) (hnm : nm ≠ [])
    (hnone : isNameValid nm = false ∨ (dirSlots d.raw 2 ch).find? (isHit fileTypes nm) = none) :
    ∃ e, findFile path d = (.error e, d) := by
  rw [findFile_root' c path nm hnodes hnm]
  unfold rootSearch
  rcases hnone with h | h
  · rw [h]; exact ⟨_, rfl⟩
  · by_cases hv : isNameValid nm = true
    · simp only [hv, Bool.not_true, Bool.false_eq_true, ↓reduceIte, h]; exact ⟨_, rfl⟩
    · have hv' : isNameValid nm = false := by simpa using hv
      rw [hv']; exact ⟨_, rfl⟩

theorem findFile_found {d : Disk} {bm cnt : Nat} {ch : List Nat} (c : RootCtx d bm cnt ch) (path nm : Bytes)
    (hnodes : normalizePath (volName (hdrOf d.raw)) path = .ok [volName (hdrOf d.raw), nm]) (hnm : nm ≠ [])
    (hv : isNameValid nm = true) (x : Bytes × Nat × Nat) (hx : (dirSlots d.raw 2 ch).find? (isHit fileTypes nm) = some x) :
    findFile path d = (.ok (slotLoc x), d) := by
  rw [findFile_root' c path nm hnodes hnm]
  unfold rootSearch
  simp only [hv, Bool.not_true, Bool.false_eq_true, ↓reduceIte, hx]

/-- the conclusion shared by the operations: result, state after `get_img()`, readings, abstract step -/
def Refines (d : Disk) {α : Type} (run : R α × Disk) (op : FsOp) : Prop :=
  ∃ d4 v v4, run.2.flush = (.ok (), d4) ∧ SInv d4 ∧ Read.ProdosT.read d.raw = .ok v ∧ Read.ProdosT.read d4.raw = .ok v4 ∧
    stepOk pdParams v op (match run.1 with | .ok _ => true | .error _ => false) v4 = true ∧ v4.label = v.label

/-- a refused operation that left the disk object alone -/
theorem refines_refused {d : Disk} (hs : SInv d) {α : Type} (e : Err) (op : FsOp) :
    Refines d ((.error e, d) : R α × Disk) op := by
  obtain ⟨v, fsL, ch, hr, ht, _⟩ := hs.ctx
  obtain ⟨hw, _⟩ := root_chain_facts hs.inv v fsL ch hr ht
  obtain ⟨d4, hf4, hraw4, hs4⟩ := refused_same hs
  exact ⟨d4, v, v, hf4, hs4, hr, by rw [hraw4]; exact hr, stepOk_refused_same hw _, rfl⟩

/-- **`lock(path)` refines the abstract `lock`** (files of the volume directory) -/
theorem lock_refines' {d : Disk} (hs : SInv d) (path nm : Bytes)
    (hnodes : normalizePath (volName (hdrOf d.raw)) path = .ok [volName (hdrOf d.raw), nm]) (hnm : nm ≠ []) :
    Refines d (Fs.Prodos.lock path d) (.lock (upper nm)) := by
  obtain ⟨v, fsL, ch, hr, ht, c, hts, heff, hbsz, hbok⟩ := hs.ctx
  have hfail : ∀ e, findFile path d = (.error e, d) → Refines d (Fs.Prodos.lock path d) (.lock (upper nm)) := by
    intro e he
    have : Fs.Prodos.lock path d = (.error e, d) := by
      unfold Fs.Prodos.lock; simp only [bind_def]; unfold M.bind; rw [he]
    rw [this]; exact refines_refused hs e _
  by_cases hv : isNameValid nm = true
  · cases hx : (dirSlots d.raw 2 ch).find? (isHit fileTypes nm) with
    | none => obtain ⟨e, he⟩ := findFile_fail c path nm hnodes hnm (Or.inr hx); exact hfail e he
    | some x =>
      obtain ⟨B, k, hB, hk13, hkey, hxe, hst, hname, hl0, hb0, hua0, hns0⟩ := found_slot hs v fsL ch hr ht nm hv x hx
      subst hxe
      have ha : (entryAt (unitAt d.raw B) k 39).getD 30 0 < 256 := getD_lt_of_bytes _ _ hb0
      obtain ⟨hu', hlt', hlk'⟩ := lockAcc_uniform ⟨_, ha⟩
      have hgd := fun j => setAccess_getD (entryAt (unitAt d.raw B) k 39) (lockAcc ((entryAt (unitAt d.raw B) k 39).getD 30 0)) j hl0
      have htrim0 : trimName (Ent.setAccess (entryAt (unitAt d.raw B) k 39) (lockAcc ((entryAt (unitAt d.raw B) k 39).getD 30 0))) =
          trimName (entryAt (unitAt d.raw B) k 39) :=
        trimName_congr _ _ (by rw [setAccess_length _ _ hl0, hl0]) (fun j hj => by rw [hgd j, if_neg (by omega)])
      obtain ⟨d1, d4, v4, f, FA, FB, hmod, hfl, hs4, hr4, hrf, hf1, hf4, hw4, hw, hlab⟩ :=
        modify_found hs v fsL ch hr ht B k hB hk13 hkey hst (some true) none none none (by simp) (by simp)
          (Ent.setAccess (entryAt (unitAt d.raw B) k 39) (lockAcc ((entryAt (unitAt d.raw B) k 39).getD 30 0)))
          (modEntry_lock _) (setAccess_length _ _ hl0)
          (splice_bytes _ _ _ hb0 (by intro y hy; simp at hy; rw [hy]; exact hlt'))
          (sameBlocks_of_bytes _ _ (by rw [hgd 0, if_neg (by omega)]) (fun j h1 h2 => by rw [hgd j, if_neg (by omega)]))
          (by rw [hgd 30, if_pos rfl]; exact hu')
          (by rw [htrim0]; exact hns0)
          (fun f' hf' => Or.inl (by
            rw [baseRec_path_root, (old_fields _ _ _ f' hf').1]
            exact trimName_congr _ _ (by rw [setAccess_length _ _ hl0, hl0]) (fun j hj => by rw [hgd j, if_neg (by omega)])))
      have hrun : Fs.Prodos.lock path d = (.ok (), d1) := by
        unfold Fs.Prodos.lock; simp only [bind_def]
        rw [bind_ok _ _ d d _ (findFile_found c path nm hnodes hnm hv _ hx)]
        exact hmod
      rw [hrun]
      refine ⟨d4, v, v4, hfl, hs4, hr, hr4, ?_, hlab⟩
      obtain ⟨o1, o2, o3, o4, o5, o6⟩ := old_fields _ _ _ f hrf
      obtain ⟨n1, n2, n3, n4, n5, n6, n7, n8⟩ := reRec_fields (Ent.setAccess (entryAt (unitAt d.raw B) k 39)
        (lockAcc ((entryAt (unitAt d.raw B) k 39).getD 30 0))) f
      have hi : FA.length < v.files.length := by rw [hf1]; simp
      have hget : v.files[FA.length] = f := by simp only [hf1]; exact getElem_mid FA FB f (by simp)
      have htrim : trimName (Ent.setAccess (entryAt (unitAt d.raw B) k 39) (lockAcc ((entryAt (unitAt d.raw B) k 39).getD 30 0))) =
          trimName (entryAt (unitAt d.raw B) k 39) :=
        trimName_congr _ _ (by rw [setAccess_length _ _ hl0, hl0]) (fun j hj => by rw [hgd j, if_neg (by omega)])
      apply stepOk_lock_of hw hw4 hi (by rw [hget, o1, hname]) (by rw [hf4, hf1, set_mid]) (by rw [n1, htrim, hname])
      rw [hget]
      refine ⟨by rw [n4, hgd 30, if_pos rfl]; exact hlk', n6, ?_, n7, ?_, ?_, by rw [n8, o6]⟩
      · rw [n5, o5]; unfold le24 le16; rw [hgd 21, hgd 22, hgd 23, if_neg (by omega), if_neg (by omega), if_neg (by omega)]
      · rw [n2, o2, hgd 16, if_neg (by omega)]
      · rw [n3, o3]; unfold le16; rw [hgd 31, hgd 32, if_neg (by omega), if_neg (by omega)]
  · have hv' : isNameValid nm = false := by simpa using hv
    obtain ⟨e, he⟩ := findFile_fail c path nm hnodes hnm (Or.inl hv'); exact hfail e he

/-- **`unlock(path)` refines the abstract `unlock`** (files of the volume directory) -/
theorem unlock_refines' {d : Disk} (hs : SInv d) (path nm : Bytes)
    (hnodes : normalizePath (volName (hdrOf d.raw)) path = .ok [volName (hdrOf d.raw), nm]) (hnm : nm ≠ []) :
    Refines d (Fs.Prodos.unlock path d) (.unlock (upper nm)) := by
  obtain ⟨v, fsL, ch, hr, ht, c, hts, heff, hbsz, hbok⟩ := hs.ctx
  have hfail : ∀ e, findFile path d = (.error e, d) → Refines d (Fs.Prodos.unlock path d) (.unlock (upper nm)) := by
    intro e he
    have : Fs.Prodos.unlock path d = (.error e, d) := by
      unfold Fs.Prodos.unlock; simp only [bind_def]; unfold M.bind; rw [he]
    rw [this]; exact refines_refused hs e _
  by_cases hv : isNameValid nm = true
  · cases hx : (dirSlots d.raw 2 ch).find? (isHit fileTypes nm) with
    | none => obtain ⟨e, he⟩ := findFile_fail c path nm hnodes hnm (Or.inr hx); exact hfail e he
    | some x =>
      obtain ⟨B, k, hB, hk13, hkey, hxe, hst, hname, hl0, hb0, hua0, hns0⟩ := found_slot hs v fsL ch hr ht nm hv x hx
      subst hxe
      have ha : (entryAt (unitAt d.raw B) k 39).getD 30 0 < 256 := getD_lt_of_bytes _ _ hb0
      obtain ⟨hu', hlt', hlk'⟩ := unlockAcc_uniform ⟨_, ha⟩
      have hgd := fun j => setAccess_getD (entryAt (unitAt d.raw B) k 39) (unlockAcc ((entryAt (unitAt d.raw B) k 39).getD 30 0)) j hl0
      have htrim0 : trimName (Ent.setAccess (entryAt (unitAt d.raw B) k 39) (unlockAcc ((entryAt (unitAt d.raw B) k 39).getD 30 0))) =
          trimName (entryAt (unitAt d.raw B) k 39) :=
        trimName_congr _ _ (by rw [setAccess_length _ _ hl0, hl0]) (fun j hj => by rw [hgd j, if_neg (by omega)])
      obtain ⟨d1, d4, v4, f, FA, FB, hmod, hfl, hs4, hr4, hrf, hf1, hf4, hw4, hw, hlab⟩ :=
        modify_found hs v fsL ch hr ht B k hB hk13 hkey hst (some false) none none none (by simp) (by simp)
          (Ent.setAccess (entryAt (unitAt d.raw B) k 39) (unlockAcc ((entryAt (unitAt d.raw B) k 39).getD 30 0)))
          (modEntry_unlock _) (setAccess_length _ _ hl0)
          (splice_bytes _ _ _ hb0 (by intro y hy; simp at hy; rw [hy]; exact hlt'))
          (sameBlocks_of_bytes _ _ (by rw [hgd 0, if_neg (by omega)]) (fun j h1 h2 => by rw [hgd j, if_neg (by omega)]))
          (by rw [hgd 30, if_pos rfl]; exact hu')
          (by rw [htrim0]; exact hns0)
          (fun f' hf' => Or.inl (by
            rw [baseRec_path_root, (old_fields _ _ _ f' hf').1]
            exact trimName_congr _ _ (by rw [setAccess_length _ _ hl0, hl0]) (fun j hj => by rw [hgd j, if_neg (by omega)])))
      have hrun : Fs.Prodos.unlock path d = (.ok (), d1) := by
        unfold Fs.Prodos.unlock; simp only [bind_def]
        rw [bind_ok _ _ d d _ (findFile_found c path nm hnodes hnm hv _ hx)]
        exact hmod
      rw [hrun]
      refine ⟨d4, v, v4, hfl, hs4, hr, hr4, ?_, hlab⟩
      obtain ⟨o1, o2, o3, o4, o5, o6⟩ := old_fields _ _ _ f hrf
      obtain ⟨n1, n2, n3, n4, n5, n6, n7, n8⟩ := reRec_fields (Ent.setAccess (entryAt (unitAt d.raw B) k 39)
        (unlockAcc ((entryAt (unitAt d.raw B) k 39).getD 30 0))) f
      have hi : FA.length < v.files.length := by rw [hf1]; simp
      have hget : v.files[FA.length] = f := by simp only [hf1]; exact getElem_mid FA FB f (by simp)
      have htrim : trimName (Ent.setAccess (entryAt (unitAt d.raw B) k 39) (unlockAcc ((entryAt (unitAt d.raw B) k 39).getD 30 0))) =
          trimName (entryAt (unitAt d.raw B) k 39) :=
        trimName_congr _ _ (by rw [setAccess_length _ _ hl0, hl0]) (fun j hj => by rw [hgd j, if_neg (by omega)])
      apply stepOk_unlock_of hw hw4 hi (by rw [hget, o1, hname]) (by rw [hf4, hf1, set_mid]) (by rw [n1, htrim, hname])
      rw [hget]
      refine ⟨by rw [n4, hgd 30, if_pos rfl]; exact hlk', n6, ?_, n7, ?_, ?_, by rw [n8, o6]⟩
      · rw [n5, o5]; unfold le24 le16; rw [hgd 21, hgd 22, hgd 23, if_neg (by omega), if_neg (by omega), if_neg (by omega)]
      · rw [n2, o2, hgd 16, if_neg (by omega)]
      · rw [n3, o3]; unfold le16; rw [hgd 31, hgd 32, if_neg (by omega), if_neg (by omega)]
  · have hv' : isNameValid nm = false := by simpa using hv
    obtain ⟨e, he⟩ := findFile_fail c path nm hnodes hnm (Or.inl hv'); exact hfail e he

/-- **`retype(path, type, aux)` refines the abstract `retype`** (files of the volume directory); `newType = none` is a type
string `FileType::from_str` refuses, `aux = none` a sub-type `u16::from_str` refuses, a type code is a byte -/
theorem retype_refines' {d : Disk} (hs : SInv d) (path nm : Bytes) (newType aux : Option Nat)
    (hnodes : normalizePath (volName (hdrOf d.raw)) path = .ok [volName (hdrOf d.raw), nm]) (hnm : nm ≠ [])
    (htb : ∀ t, newType = some t → t < 256) :
    Refines d (Fs.Prodos.retype path newType aux d) (.retype (upper nm)) := by
  obtain ⟨v, fsL, ch, hr, ht, c, hts, heff, hbsz, hbok⟩ := hs.ctx
  cases aux with
  | none => exact refines_refused hs .parseInt _
  | some a =>
  have hfail : ∀ e, findFile path d = (.error e, d) → Refines d (Fs.Prodos.retype path newType (some a) d) (.retype (upper nm)) := by
    intro e he
    have : Fs.Prodos.retype path newType (some a) d = (.error e, d) := by
      unfold Fs.Prodos.retype; simp only [bind_def]; unfold M.bind; rw [he]
    rw [this]; exact refines_refused hs e _
  by_cases hv : isNameValid nm = true
  · cases hx : (dirSlots d.raw 2 ch).find? (isHit fileTypes nm) with
    | none => obtain ⟨e, he⟩ := findFile_fail c path nm hnodes hnm (Or.inr hx); exact hfail e he
    | some x =>
      obtain ⟨B, k, hB, hk13, hkey, hxe, hst, hname, hl0, hb0, hua0, hns0⟩ := found_slot hs v fsL ch hr ht nm hv x hx
      subst hxe
      obtain ⟨_, _, _, _, _, _, _, hchf, _, _, _, _, _⟩ := root_chain_facts hs.inv v fsL ch hr ht
      have hBl : B < d.raw.units.size := by rw [← hs.inv.size]; exact (hchf B hB).1
      cases newType with
      | none =>
        -- the type string is refused after the entry has been read: nothing is written
        have hrun : Fs.Prodos.retype path none (some a) d = (.error .fileTypeMismatch, d) := by
          unfold Fs.Prodos.retype; simp only [bind_def]
          rw [bind_ok _ _ d d _ (findFile_found c path nm hnodes hnm hv _ hx)]
          show Fs.Prodos.modify { block := B, idx := k + 1 } none none (some none) (some a) d = _
          unfold Fs.Prodos.modify
          simp only [bind_def]
          rw [bind_ok _ _ d d _ (getDirectory_st c.st B (unitAt d.raw B) (c.nb B hB) (units_get_unitAt _ _ hBl))]
          show M.bind (M.ofOption (Dir.getEntry _ (k + 1))) _ d = _
          rw [getEntry_slot c.kinds B k hB hk13 hkey, bind_ok _ _ d d _ (ofOption_some _ d)]
          simp only [Option.isSome_none, Bool.false_eq_true, and_false, ↓reduceIte]
          rfl
        rw [hrun]; exact refines_refused hs _ _
      | some t =>
      have ht256 := htb t rfl
      have hgd := fun j => retypeEntry_getD (entryAt (unitAt d.raw B) k 39) t a j hl0
      have hlen' := retypeEntry_length (entryAt (unitAt d.raw B) k 39) t a hl0
      have hbytes' : ∀ y ∈ Ent.setAux (Ent.setFtype (entryAt (unitAt d.raw B) k 39) t) a, y < 256 := by
        unfold Ent.setAux Ent.setFtype
        apply splice_bytes _ _ _ (splice_bytes _ _ _ hb0 (by intro y hy; simp at hy; rw [hy]; exact ht256)) (u16le_bytes a)
      have htrim0 : trimName (Ent.setAux (Ent.setFtype (entryAt (unitAt d.raw B) k 39) t) a) = trimName (entryAt (unitAt d.raw B) k 39) :=
        trimName_congr _ _ (by rw [hlen', hl0]) (fun j hj => by
          rw [hgd j, if_neg (by omega), if_neg (by omega), if_neg (by omega)])
      obtain ⟨d1, d4, v4, f, FA, FB, hmod, hfl, hs4, hr4, hrf, hf1, hf4, hw4, hw, hlab⟩ :=
        modify_found hs v fsL ch hr ht B k hB hk13 hkey hst none none (some (some t)) (some a) (by simp) (by simp)
          (Ent.setAux (Ent.setFtype (entryAt (unitAt d.raw B) k 39) t) a)
          (modEntry_retype _ t a) hlen' hbytes'
          (sameBlocks_of_bytes _ _ (by rw [hgd 0, if_neg (by omega), if_neg (by omega), if_neg (by omega)])
            (fun j h1 h2 => by rw [hgd j, if_neg (by omega), if_neg (by omega), if_neg (by omega)]))
          (by rw [hgd 30, if_neg (by omega), if_neg (by omega), if_neg (by omega)]; exact hua0)
          (by rw [htrim0]; exact hns0)
          (fun f' hf' => Or.inl (by
            rw [baseRec_path_root, (old_fields _ _ _ f' hf').1]
            exact trimName_congr _ _ (by rw [hlen', hl0]) (fun j hj => by
              rw [hgd j, if_neg (by omega), if_neg (by omega), if_neg (by omega)])))
      have hrun : Fs.Prodos.retype path (some t) (some a) d = (.ok (), d1) := by
        unfold Fs.Prodos.retype; simp only [bind_def]
        rw [bind_ok _ _ d d _ (findFile_found c path nm hnodes hnm hv _ hx)]
        exact hmod
      rw [hrun]
      refine ⟨d4, v, v4, hfl, hs4, hr, hr4, ?_, hlab⟩
      obtain ⟨o1, o2, o3, o4, o5, o6⟩ := old_fields _ _ _ f hrf
      obtain ⟨n1, n2, n3, n4, n5, n6, n7, n8⟩ := reRec_fields (Ent.setAux (Ent.setFtype (entryAt (unitAt d.raw B) k 39) t) a) f
      have hi : FA.length < v.files.length := by rw [hf1]; simp
      have hget : v.files[FA.length] = f := by simp only [hf1]; exact getElem_mid FA FB f (by simp)
      have htrim : trimName (Ent.setAux (Ent.setFtype (entryAt (unitAt d.raw B) k 39) t) a) = trimName (entryAt (unitAt d.raw B) k 39) :=
        trimName_congr _ _ (by rw [hlen', hl0]) (fun j hj => by
          rw [hgd j, if_neg (by omega), if_neg (by omega), if_neg (by omega)])
      apply stepOk_retype_of hw hw4 hi (by rw [hget, o1, hname]) (by rw [hf4, hf1, set_mid]) (by rw [n1, htrim, hname])
      rw [hget]
      refine ⟨n6, ?_, n7, by rw [n8, o6]⟩
      rw [n5, o5]; unfold le24 le16
      rw [hgd 21, hgd 22, hgd 23, if_neg (by omega), if_neg (by omega), if_neg (by omega), if_neg (by omega), if_neg (by omega),
        if_neg (by omega), if_neg (by omega), if_neg (by omega), if_neg (by omega)]
  · have hv' : isNameValid nm = false := by simpa using hv
    obtain ⟨e, he⟩ := findFile_fail c path nm hnodes hnm (Or.inl hv'); exact hfail e he

end A2Verif.FsProdos
