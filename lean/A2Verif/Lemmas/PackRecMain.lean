import A2Verif.Lemmas.PackRecRead
/-! Records: every stored record is found again by the repaired `from_fimg`. -/
namespace A2Verif.Packing

/-- a record the theorem talks about: it encodes, to a non-empty string that fits the record length -/
structure GoodRec (conv : Bytes → Option Bytes) (L : Nat) (p : Nat × Bytes) (data : Bytes) : Prop where
  enc : conv p.2 = some data
  ne : data ≠ []
  le : data.length ≤ L

/-- the state `update_fimg` starts a record with -/
def startState (cs : List (Nat × Bytes)) (eof n pos : Nat) : RecW :=
  RecW.mk cs eof (pos / n) (pos % n) (getBuf cs (pos / n))

theorem writeOne (n : Nat) (hn : 0 < n) (cs : List (Nat × Bytes)) (eof pos : Nat) (data : Bytes)
    (hne : data ≠ []) (hcs : ChunksLe cs n) :
    (∀ q, vb (writeRecord n data (startState cs eof n pos)).chunks n q =
      if pos ≤ q ∧ q < pos + data.length then data.getD (q - pos) 0 else vb cs n q) ∧
    (getChunk (writeRecord n data (startState cs eof n pos)).chunks (pos / n)).isSome ∧
    ChunksLe (writeRecord n data (startState cs eof n pos)).chunks n ∧
    (∀ k, (getChunk cs k).isSome → (getChunk (writeRecord n data (startState cs eof n pos)).chunks k).isSome) := by
  obtain ⟨h1, h2, h3, h4⟩ := writeRecord_spec n hn data (startState cs eof n pos) hne
    (Nat.mod_lt _ hn) hcs (getBuf_le hcs _)
  have hp : (startState cs eof n pos).chunk * n + (startState cs eof n pos).offset = pos := Nat.div_add_mod' pos n
  refine ⟨?_, h2, h3, h4⟩
  intro q
  rw [h1 q, hp]
  have : vw n (startState cs eof n pos) q = vb cs n q := by
    unfold vw vb startState
    by_cases e : q / n = pos / n
    · simp only [e, if_true]
    · simp only [e, if_false]
  rw [this]

theorem slots_disjoint (L a b dl q : Nat) (hab : a ≠ b) (hdl : dl ≤ L)
    (h1 : L * b ≤ q) (h2 : q < L * b + L) : ¬ (L * a ≤ q ∧ q < L * a + dl) := by
  rintro ⟨h3, h4⟩
  rcases Nat.lt_or_gt_of_ne hab with h | h
  · have : L * (a + 1) ≤ L * b := Nat.mul_le_mul_left L h
    rw [Nat.mul_succ] at this
    omega
  · have : L * (b + 1) ≤ L * a := Nat.mul_le_mul_left L h
    rw [Nat.mul_succ] at this
    omega

/-- records with other numbers leave the slot of record `num` alone -/
theorem writeRecords_frame (conv : Bytes → Option Bytes) (L n num : Nat) (hn : 0 < n) :
    ∀ (recs cs : List (Nat × Bytes)) (eof : Nat),
    (∀ p ∈ recs, p.1 ≠ num ∧ ∃ d, GoodRec conv L p d) → ChunksLe cs n →
    ∃ cs' eof', writeRecords L n conv recs cs eof = some (cs', eof') ∧ ChunksLe cs' n ∧
      (∀ q, L * num ≤ q → q < L * num + L → vb cs' n q = vb cs n q) ∧
      (∀ k, (getChunk cs k).isSome → (getChunk cs' k).isSome) := by
  intro recs
  induction recs with
  | nil => intro cs eof _ hcs; exact ⟨cs, eof, rfl, hcs, fun _ _ _ => rfl, fun _ h => h⟩
  | cons p r ih =>
    intro cs eof hall hcs
    obtain ⟨k, fields⟩ := p
    obtain ⟨hk, d, gd⟩ := hall (k, fields) (List.mem_cons_self ..)
    obtain ⟨w1, w2, w3, w4⟩ := writeOne n hn cs eof (L * k) d gd.ne hcs
    obtain ⟨cs', eof', e1, e2, e3, e4⟩ := ih (writeRecord n d (startState cs eof n (L * k))).chunks
      (writeRecord n d (startState cs eof n (L * k))).eof
      (fun q hq => hall q (List.mem_cons_of_mem _ hq)) w3
    refine ⟨cs', eof', ?_, e2, ?_, fun j hj => e4 j (w4 j hj)⟩
    · simp only [writeRecords, gd.enc]
      exact e1
    · intro q h1 h2
      rw [e3 q h1 h2, w1 q, if_neg (slots_disjoint L k num d.length q hk gd.le h1 h2)]

/-- the target record ends up in its slot, followed by zeros -/
theorem writeRecords_target (conv : Bytes → Option Bytes) (L n : Nat) (hn : 0 < n)
    (target : Nat × Bytes) (tdata : Bytes) (gt : GoodRec conv L target tdata) :
    ∀ (recs cs : List (Nat × Bytes)) (eof : Nat), (recs.map Prod.fst).Nodup →
    (∀ p ∈ recs, ∃ d, GoodRec conv L p d) → target ∈ recs → ChunksLe cs n →
    (∀ q, L * target.1 ≤ q → q < L * target.1 + L → vb cs n q = 0) →
    ∃ cs' eof', writeRecords L n conv recs cs eof = some (cs', eof') ∧ ChunksLe cs' n ∧
      (∀ j, j < L → vb cs' n (L * target.1 + j) = tdata.getD j 0) ∧
      (getChunk cs' (L * target.1 / n)).isSome := by
  intro recs
  induction recs with
  | nil => intro cs eof _ _ hm; cases hm
  | cons p r ih =>
    intro cs eof hnd hall hm hcs hz
    obtain ⟨k, fields⟩ := p
    simp only [List.map_cons, List.nodup_cons] at hnd
    obtain ⟨hk, hnd'⟩ := hnd
    rcases List.mem_cons.mp hm with e | hm'
    · -- the target is written now; the rest does not touch its slot
      subst e
      obtain ⟨w1, w2, w3, w4⟩ := writeOne n hn cs eof (L * k) tdata gt.ne hcs
      have hothers : ∀ q ∈ r, q.1 ≠ k ∧ ∃ d, GoodRec conv L q d := by
        intro q hq
        refine ⟨?_, hall q (List.mem_cons_of_mem _ hq)⟩
        intro e
        exact hk (by rw [← e]; exact List.mem_map_of_mem hq)
      obtain ⟨cs', eof', e1, e2, e3, e4⟩ := writeRecords_frame conv L n k hn r
        (writeRecord n tdata (startState cs eof n (L * k))).chunks
        (writeRecord n tdata (startState cs eof n (L * k))).eof hothers w3
      refine ⟨cs', eof', ?_, e2, ?_, e4 _ w2⟩
      · simp only [writeRecords]
        rw [show conv fields = some tdata from gt.enc]
        exact e1
      · intro j hj
        have hz' : ∀ q, L * k ≤ q → q < L * k + L → vb cs n q = 0 := hz
        show vb cs' n (L * k + j) = _
        rw [e3 _ (by omega) (by omega), w1]
        by_cases hjd : j < tdata.length
        · rw [if_pos ⟨by omega, by omega⟩, Nat.add_sub_cancel_left]
        · rw [if_neg (by omega), hz' _ (by omega) (by omega)]
          rw [List.getD_eq_getElem?_getD, List.getElem?_eq_none (by omega)]; rfl
    · -- another record first
      have hne : k ≠ target.1 := by
        intro e
        exact hk (by rw [e]; exact List.mem_map_of_mem hm')
      obtain ⟨d, gd⟩ := hall (k, fields) (List.mem_cons_self ..)
      obtain ⟨w1, w2, w3, w4⟩ := writeOne n hn cs eof (L * k) d gd.ne hcs
      obtain ⟨cs', eof', e1, e2, e3, e4⟩ := ih (writeRecord n d (startState cs eof n (L * k))).chunks
        (writeRecord n d (startState cs eof n (L * k))).eof hnd'
        (fun q hq => hall q (List.mem_cons_of_mem _ hq)) hm' w3
        (by
          intro q h1 h2
          rw [w1 q, if_neg (slots_disjoint L k target.1 d.length q hne gd.le h1 h2)]
          exact hz q h1 h2)
      refine ⟨cs', eof', ?_, e2, e3, e4⟩
      simp only [writeRecords, gd.enc]
      exact e1

/-- what the decoder of the record text has to satisfy (both `to_utf8`s are byte-wise maps that keep NUL) -/
structure DecOk (toUtf8 : Bytes → Bytes) : Prop where
  app : ∀ a b, toUtf8 (a ++ b) = toUtf8 a ++ toUtf8 b
  zero : ∀ k, toUtf8 (List.replicate k 0) = List.replicate k 0

theorem window_arith (n S so P L E m : Nat) (hS : S * n + so = P) (hE : P + L < E * n + n) (hSE : S * n ≤ E * n)
    (hm : m * n = E * n - S * n + n) : so + L ≤ m * n := by omega

/-- the repaired reader returns the record stored in slot `num` -/
theorem readRecord_found (cs : List (Nat × Bytes)) (n L num : Nat) (hn : 0 < n) (hcs : ChunksLe cs n)
    (toUtf8 : Bytes → Bytes) (hdk : DecOk toUtf8) (data fields : Bytes)
    (hslot : ∀ j, j < L → vb cs n (L * num + j) = data.getD j 0)
    (hchunk : (getChunk cs (L * num / n)).isSome) (hle : data.length ≤ L)
    (hdec : toUtf8 data = fields) (hnz : 0 ∉ fields) (hne : fields ≠ []) :
    readRecord .zeroFill cs n L toUtf8 num = some fields := by
  have hP : num * L = L * num := Nat.mul_comm _ _
  have hSE : num * L / n ≤ (num + 1) * L / n := Nat.div_le_div_right (by rw [Nat.add_mul]; omega)
  obtain ⟨m', hm'⟩ : ∃ m', 1 + (num + 1) * L / n - num * L / n = m' + 1 ∧ m' = (num + 1) * L / n - num * L / n :=
    ⟨(num + 1) * L / n - num * L / n, by omega, rfl⟩
  have hbl : (vbytes cs n (num * L / n) (m' + 1)).length = (m' + 1) * n := by simp [vbytes]
  have hfit : num * L % n + L ≤ (m' + 1) * n := by
    apply window_arith n (num * L / n) (num * L % n) (num * L) L ((num + 1) * L / n) (m' + 1) (Nat.div_add_mod' _ _)
    · have h0 := Nat.lt_mul_div_succ ((num + 1) * L) hn
      generalize (num + 1) * L / n = E at h0 ⊢
      have e1 : (num + 1) * L = num * L + L := by rw [Nat.add_mul, Nat.one_mul]
      rw [e1, Nat.mul_add, Nat.mul_one, Nat.mul_comm n E] at h0
      exact h0
    · exact Nat.mul_le_mul_right n hSE
    · rw [hm'.2, Nat.add_mul, Nat.one_mul, Nat.sub_mul]
  have hchunk' : (getChunk cs (num * L / n)).isSome = true := by rw [hP]; exact hchunk
  have hwin := vbytes_window cs n (num * L / n) (m' + 1) (num * L % n) L hfit
  have hpos : num * L / n * n + num * L % n = L * num := by rw [Nat.div_add_mod', hP]
  have hslice : ((vbytes cs n (num * L / n) (m' + 1)).take (num * L % n + L)).drop (num * L % n)
      = data ++ List.replicate (L - data.length) 0 := by
    rw [hwin, pad_eq_map data L hle]
    apply List.map_congr_left
    intro j hj
    rw [hpos]
    exact hslot j (List.mem_range.mp hj)
  unfold readRecord
  simp only []
  rw [hm'.1, gatherZ_start cs n _ m' hcs]
  simp only [hchunk', hbl, true_and]
  have hso : num * L % n < (m' + 1) * n := by
    have : 0 < L ∨ L = 0 := by omega
    have := Nat.mod_lt (num * L) hn
    rw [Nat.add_mul, Nat.one_mul]; omega
  rw [if_pos hso, Nat.min_eq_left hfit, hslice, hdk.app, hdk.zero, hdec]
  have hbf : beforeFirst 0 (fields ++ List.replicate (L - data.length) 0) = fields := by
    cases hk : L - data.length with
    | zero => rw [List.replicate_zero, List.append_nil]; exact beforeFirst_none 0 fields hnz
    | succ k => rw [List.replicate_succ]; exact beforeFirst_append 0 fields _ hnz
  rw [hbf, if_pos (List.length_pos_iff.mpr hne)]

/-! ### candidates -/

theorem ceilDiv_le (a L r : Nat) (hL : 0 < L) (h : a ≤ r * L) : ceilDiv a L ≤ r := by
  unfold ceilDiv
  by_cases hm : a % L > 0
  · rw [if_pos hm]
    have hne : a ≠ r * L := by
      intro e; rw [e, Nat.mul_mod_left] at hm; omega
    have : a / L < r := (Nat.div_lt_iff_lt_mul hL).mpr (by omega)
    omega
  · rw [if_neg hm]
    have : a / L ≤ r := Nat.div_le_of_le_mul (by rw [Nat.mul_comm]; exact h)
    omega

theorem lt_ceilDiv (a L r : Nat) (hL : 0 < L) (h : r * L < a) : r < ceilDiv a L := by
  unfold ceilDiv
  have h1 : r ≤ a / L := (Nat.le_div_iff_mul_le hL).mpr (by omega)
  by_cases hm : a % L > 0
  · rw [if_pos hm]; omega
  · rw [if_neg hm]
    have h0 : a % L = 0 := by omega
    have h2 := Nat.div_add_mod a L
    rw [h0, Nat.add_zero] at h2
    have : r ≠ a / L := by
      intro e
      rw [e, Nat.mul_comm] at h
      omega
    omega

theorem getChunk_mem : ∀ (cs : List (Nat × Bytes)) (k : Nat) (v : Bytes), getChunk cs k = some v → (k, v) ∈ cs := by
  intro cs
  induction cs with
  | nil => intro k v h; cases h
  | cons p r ih =>
    intro k v h
    obtain ⟨k', v'⟩ := p
    simp only [getChunk] at h
    by_cases e : k' = k
    · simp only [e, if_true, Option.some.injEq] at h
      subst e; subst h; exact List.mem_cons_self ..
    · simp only [e, if_false] at h
      exact List.mem_cons_of_mem _ (ih k v h)

/-- a record whose first byte lies in an existing chunk is a candidate of `from_fimg` -/
theorem mem_cands (cs : List (Nat × Bytes)) (n L num : Nat) (hn : 0 < n) (hL : 0 < L)
    (h : (getChunk cs (L * num / n)).isSome) :
    num ∈ cs.flatMap (fun (p : Nat × Bytes) =>
      (List.range (ceilDiv ((p.1 + 1) * n) L - ceilDiv (p.1 * n) L)).map (· + ceilDiv (p.1 * n) L)) := by
  obtain ⟨v, hv⟩ := Option.isSome_iff_exists.mp h
  refine List.mem_flatMap.mpr ⟨(L * num / n, v), getChunk_mem cs _ v hv, ?_⟩
  have h1 : ceilDiv (L * num / n * n) L ≤ num :=
    ceilDiv_le _ L num hL (by rw [Nat.mul_comm num L]; exact Nat.div_mul_le_self _ _)
  have h2 : num < ceilDiv ((L * num / n + 1) * n) L :=
    lt_ceilDiv _ L num hL (by
      have := Nat.lt_mul_div_succ (L * num) hn
      rw [Nat.mul_comm n] at this
      rw [Nat.mul_comm num L]; exact this)
  show num ∈ (List.range (ceilDiv ((L * num / n + 1) * n) L - ceilDiv (L * num / n * n) L)).map (· + ceilDiv (L * num / n * n) L)
  refine List.mem_map.mpr ⟨num - ceilDiv (L * num / n * n) L, List.mem_range.mpr (by omega), by omega⟩

theorem vb_nil (n q : Nat) : vb [] n q = 0 := by simp [vb, getBuf, getChunk]

theorem vb_first (n q : Nat) : vb (insertChunk [] 0 (List.replicate n 0)) n q = 0 := by
  unfold vb
  rw [getBuf_insert]
  by_cases e : 0 = q / n
  · rw [if_pos e, List.getD_eq_getElem?_getD, List.getElem?_replicate]
    split <;> rfl
  · rw [if_neg e]; simp [getBuf, getChunk]

theorem chunksLe_nil (n : Nat) : ChunksLe [] n := by intro k c h; cases h

/-- **Records: every stored record is returned by the repaired reader.**  For every record length,
chunk length and set of records with distinct numbers whose encodings are non-empty, fit the record
length, and decode (NUL-free) to the stored text. -/
theorem records_found (conv : Bytes → Option Bytes) (toUtf8 : Bytes → Bytes) (hdk : DecOk toUtf8)
    (L : Nat) (recs : List (Nat × Bytes)) (f g : FImg) (reqFirst : Bool)
    (hnd : (recs.map Prod.fst).Nodup)
    (hgood : ∀ p ∈ recs, ∃ d, GoodRec conv L p d ∧ toUtf8 d = p.2 ∧ 0 ∉ p.2 ∧ p.2 ≠ [])
    (h : updateFimg L recs f reqFirst conv true = .ok g) :
    ∃ m, fromFimg .zeroFill g L toUtf8 = .ok m ∧ ∀ p ∈ recs, p ∈ m := by
  unfold updateFimg at h
  by_cases hL : L < 2 ∨ L > 0xffff
  · rw [if_pos hL] at h; cases h
  · rw [if_neg hL] at h
    by_cases hc0 : f.chunkLen = 0
    · rw [if_pos hc0] at h; cases h
    · rw [if_neg hc0] at h
      have hn : 0 < f.chunkLen := by omega
      have hL0 : 0 < L := by omega
      simp only [if_true] at h
      -- the initial chunk map is all zeros
      have hinit : ∃ cs1, cs1 = (if reqFirst = true then insertChunk [] 0 (List.replicate f.chunkLen 0) else []) ∧
          ChunksLe cs1 f.chunkLen ∧ ∀ q, vb cs1 f.chunkLen q = 0 := by
        cases reqFirst with
        | true => exact ⟨_, rfl, (chunksLe_nil _).insert 0 _ (by simp), vb_first _⟩
        | false => exact ⟨_, rfl, chunksLe_nil _, vb_nil _⟩
      obtain ⟨cs1, hcs1, hle1, hz1⟩ := hinit
      rw [← hcs1] at h
      cases hw : writeRecords L f.chunkLen conv recs cs1 0 with
      | none => rw [hw] at h; cases h
      | some pr =>
        obtain ⟨cs, eof⟩ := pr
        rw [hw] at h
        simp only [Res.ok.injEq] at h
        have hgc : g.chunks = cs := by rw [← h]
        have hgl : g.chunkLen = f.chunkLen := by rw [← h]
        unfold fromFimg
        rw [if_neg (by omega), hgl, if_neg hc0, hgc]
        refine ⟨_, rfl, ?_⟩
        intro p hp
        obtain ⟨d, gd, hdec, hnz, hne⟩ := hgood p hp
        obtain ⟨cs', eof', e1, e2, e3, e4⟩ := writeRecords_target conv L f.chunkLen hn p d gd recs cs1 0 hnd
          (fun q hq => by obtain ⟨d', g', _⟩ := hgood q hq; exact ⟨d', g'⟩) hp hle1 (fun q _ _ => hz1 q)
        rw [hw] at e1
        simp only [Option.some.injEq, Prod.mk.injEq] at e1
        obtain ⟨ecs, _⟩ := e1
        subst ecs
        refine List.mem_filterMap.mpr ⟨p.1, mem_cands cs f.chunkLen L p.1 hn hL0 e4, ?_⟩
        rw [readRecord_found cs f.chunkLen L p.1 hn e2 toUtf8 hdk d p.2 e3 e4 gd.le hdec hnz hne]
        rfl

end A2Verif.Packing
