import A2Verif.Model.Retok
import A2Verif.Lemmas.Detok
/-! C14 round 2: the escape codec of the Applesoft listing is inverted by `parse_escaped_ascii` -/
namespace A2Verif.Detok
open A2Verif.Gen.Tokens

/-! ### hex digits -/

theorem hexLower_spec : ∀ d : Fin 16, isHex (hexLower d.val) = true ∧ hexVal (hexLower d.val) = d.val ∧
    hexLower d.val ≠ 10 ∧ hexLower d.val ≠ 34 ∧ hexLower d.val ≠ 58 ∧ hexLower d.val ≠ 92 ∧ hexLower d.val ≠ 32 := by
  decide

theorem hexEsc_eq (b : Nat) : hexEsc b = [92, 120, hexLower (b / 16 % 16), hexLower (b % 16)] := rfl

theorem hexEsc_value (b : Nat) (h : b < 256) :
    isHex (hexLower (b / 16 % 16)) = true ∧ isHex (hexLower (b % 16)) = true ∧
    16 * hexVal (hexLower (b / 16 % 16)) + hexVal (hexLower (b % 16)) = b := by
  have h1 := hexLower_spec ⟨b / 16 % 16, by omega⟩
  have h2 := hexLower_spec ⟨b % 16, by omega⟩
  simp only at h1 h2
  refine ⟨h1.1, h2.1, ?_⟩
  rw [h1.2.1, h2.2.1]
  omega

/-! ### `unescA` one step -/

/-- a character that does not start an escape is copied -/
theorem unescA_cons_copy (c : Nat) (t : List Nat)
    (h : ¬ (c = 92 ∧ ∃ h1 h2 r, t = 120 :: h1 :: h2 :: r ∧ isHex h1 = true ∧ isHex h2 = true)) :
    unescA (c :: t) = c :: unescA t := by
  match t with
  | [] => simp [unescA]
  | [_] => simp [unescA]
  | [_, _] => simp [unescA]
  | x :: h1 :: h2 :: r =>
    rw [unescA]
    split
    · rename_i hc
      exfalso
      apply h
      refine ⟨hc.1, h1, h2, r, ?_, hc.2.2.1, hc.2.2.2⟩
      rw [hc.2.1]
    · rfl

theorem unescA_escape (h1 h2 : Nat) (t : List Nat) (a : isHex h1 = true) (b : isHex h2 = true) :
    unescA (92 :: 120 :: h1 :: h2 :: t) = (16 * hexVal h1 + hexVal h2) :: unescA t := by
  rw [unescA]; simp [a, b]

/-! ### shape of the listing of a payload -/

/-- if the listing of a payload starts with a character other than a backslash, that character is
the first payload byte, printed raw -/
theorem escP_head (r : List Nat) (c : Nat) (t : List Nat) (h : escP r = c :: t) (hc : c ≠ 92) :
    ∃ r1, r = c :: r1 ∧ t = escP r1 := by
  cases r with
  | nil => simp [escP] at h
  | cons b r1 =>
    simp only [escP, pieceP] at h
    split at h
    · -- b = 92: every alternative starts with 92
      split at h
      · split at h <;> simp at h <;> omega
      · simp at h; omega
    · split at h
      · rw [hexEsc_eq] at h; simp at h; omega
      · simp at h
        exact ⟨r1, by rw [h.1], h.2.symm⟩

/-- **the escape codec is inverted by `parse_escaped_ascii`**: for every payload (any bytes, escapes
and escape look-alikes included) un-escaping its listing returns the payload -/
theorem unescA_escP : ∀ (p : List Nat), (∀ b ∈ p, b < 256) → unescA (escP p) = p := by
  intro p
  induction p with
  | nil => intro _; simp [escP, unescA]
  | cons b rest ih =>
    intro hb
    have hrest : ∀ x ∈ rest, x < 256 := fun x hx => hb x (by simp [hx])
    have ih' := ih hrest
    have hb256 : b < 256 := hb b (by simp)
    simp only [escP, pieceP]
    split
    · -- b = 92
      rename_i hb92
      split
      · rename_i x h1 h2 r'
        split
        · -- look-alike: `\x5c`
          rename_i hl
          show unescA (92 :: 120 :: 53 :: 99 :: escP (x :: h1 :: h2 :: r')) = b :: x :: h1 :: h2 :: r'
          rw [unescA_escape 53 99 _ (by decide) (by decide), ih', hb92]
          simp [hexVal]
        · rename_i hl
          show unescA (92 :: escP (x :: h1 :: h2 :: r')) = b :: x :: h1 :: h2 :: r'
          rw [unescA_cons_copy, ih', hb92]
          rintro ⟨_, k1, k2, r, he, hk1, hk2⟩
          obtain ⟨r1, e1, t1⟩ := escP_head _ _ _ he (by decide)
          have hk1' : k1 ≠ 92 := by intro h; rw [h] at hk1; simp [isHex] at hk1
          obtain ⟨r2, e2, t2⟩ := escP_head _ _ _ t1.symm hk1'
          have hk2' : k2 ≠ 92 := by intro h; rw [h] at hk2; simp [isHex] at hk2
          obtain ⟨r3, e3, _⟩ := escP_head _ _ _ t2.symm hk2'
          rw [e2, e3] at e1
          simp at e1
          apply hl
          rw [e1.1, e1.2.1, e1.2.2.1]
          exact ⟨rfl, hk1, hk2⟩
      · rename_i hshort
        show unescA (92 :: escP rest) = b :: rest
        rw [unescA_cons_copy, ih', hb92]
        rintro ⟨_, k1, k2, r, he, hk1, hk2⟩
        obtain ⟨r1, e1, t1⟩ := escP_head _ _ _ he (by decide)
        have hk1' : k1 ≠ 92 := by intro h; rw [h] at hk1; simp [isHex] at hk1
        obtain ⟨r2, e2, t2⟩ := escP_head _ _ _ t1.symm hk1'
        have hk2' : k2 ≠ 92 := by intro h; rw [h] at hk2; simp [isHex] at hk2
        obtain ⟨r3, e3, _⟩ := escP_head _ _ _ t2.symm hk2'
        rw [e2, e3] at e1
        exact hshort _ _ _ _ e1
    · rename_i hb92
      split
      · -- escaped byte
        obtain ⟨a1, a2, a3⟩ := hexEsc_value b hb256
        rw [hexEsc_eq]
        show unescA (92 :: 120 :: _ :: _ :: escP rest) = b :: rest
        rw [unescA_escape _ _ _ a1 a2, ih', a3]
      · show unescA (b :: escP rest) = b :: rest
        rw [unescA_cons_copy, ih']
        rintro ⟨h, _⟩
        exact hb92 h

/-! ### `bytes_to_escaped_string_ex` in terms of the payload -/

/-- terminator lists the Applesoft detokenizer passes for the three contexts -/
def termOf : Ctx → List Nat
  | .str => [34, 0]
  | .rem => [0]
  | .data => [58, 0]

/-- text of one byte as `escA` prints it (look-ahead into the whole rest of the image) -/
def pieceA (b : Nat) (rest : List Nat) : List Nat :=
  if b = 92 ∧ 3 ≤ rest.length then
    match rest with
    | x :: h1 :: h2 :: _ => if x = 120 ∧ isHex h1 ∧ isHex h2 then [92, 120, 53, 99] else [92]
    | _ => [92]
  else if aEscapes.contains b ∨ b > 126 then hexEsc b
  else [b]

theorem stopA_true_iff {ctx : Ctx} {term : List Nat} {q b : Nat} :
    stopA ctx term q b = true ↔
      ((ctx = .data ∧ b = 0) ∨ (ctx = .data ∧ q % 2 = 0 ∧ term.contains b = true)) ∨
        (ctx ≠ .data ∧ term.contains b = true) := by
  simp only [stopA, Bool.or_eq_true, Bool.and_eq_true, decide_eq_true_eq, and_assoc]

theorem escA_stop {ctx : Ctx} {term : List Nat} {q b : Nat} {rest : List Nat}
    (h : stopA ctx term q b = true) : escA ctx term (b :: rest) q = ([], b :: rest) := by
  unfold escA
  split
  · rfl
  · split
    · rfl
    · split
      · rfl
      · rename_i h1 h2 h3
        exfalso
        rcases stopA_true_iff.mp h with (h | h) | h
        · exact h1 h
        · exact h2 h
        · exact h3 h

theorem escA_go {ctx : Ctx} {term : List Nat} {q b : Nat} {rest : List Nat}
    (h : stopA ctx term q b = false) :
    escA ctx term (b :: rest) q =
      (pieceA b rest ++ (escA ctx term rest (if b = aQuote then q + 1 else q)).1,
       (escA ctx term rest (if b = aQuote then q + 1 else q)).2) := by
  have hn : ¬ stopA ctx term q b = true := by simp [h]
  conv => lhs; unfold escA
  split
  · rename_i hc; exact absurd (stopA_true_iff.mpr (Or.inl (Or.inl hc))) hn
  · split
    · rename_i hc; exact absurd (stopA_true_iff.mpr (Or.inl (Or.inr hc))) hn
    · split
      · rename_i hc; exact absurd (stopA_true_iff.mpr (Or.inr hc)) hn
      · rfl

/-- a byte that ends a payload is neither `x` nor a hex digit: it blocks every escape look-ahead -/
theorem stopA_blocker {ctx : Ctx} {q c : Nat} (h : stopA ctx (termOf ctx) q c = true) :
    c ≠ 120 ∧ isHex c = false := by
  have hc : c = 0 ∨ c = 34 ∨ c = 58 := by
    cases ctx <;> simp [stopA, termOf] at h <;> omega
  rcases hc with h | h | h <;> subst h <;> decide

theorem stopA_zero (ctx : Ctx) (q : Nat) : stopA ctx (termOf ctx) q 0 = true := by
  cases ctx <;> simp [stopA, termOf]

theorem pieceA_eq_pieceP (b c : Nat) (p z : List Nat) (hc : c ≠ 120) (hx : isHex c = false) :
    pieceA b (p ++ c :: z) = pieceP b p := by
  unfold pieceA pieceP
  match p with
  | [] =>
    by_cases hb : b = 92
    · simp only [hb, List.nil_append]
      cases z with
      | nil => simp [aEscapes]
      | cons z1 z' =>
        cases z' with
        | nil => simp [aEscapes]
        | cons z2 z'' => simp [hc]
    · simp [hb]
  | [x] =>
    by_cases hb : b = 92
    · simp only [hb]
      cases z with
      | nil => simp [aEscapes]
      | cons z1 z' => simp [hx]
    · simp [hb]
  | [x, h1] =>
    by_cases hb : b = 92
    · simp [hb, hx]
    · simp [hb]
  | x :: h1 :: h2 :: p' =>
    by_cases hb : b = 92
    · simp [hb]
    · simp [hb]

theorem spanA_split (ctx : Ctx) (term : List Nat) : ∀ (b' : List Nat) (q : Nat),
    (spanA ctx term q b').1 ++ (spanA ctx term q b').2 = b' ∧
    ((spanA ctx term q b').2 = [] ∨ ∃ c z q', (spanA ctx term q b').2 = c :: z ∧ stopA ctx term q' c = true) := by
  intro b'
  induction b' with
  | nil => intro q; simp [spanA]
  | cons b rest ih =>
    intro q
    by_cases hs : stopA ctx term q b = true
    · simp only [spanA, hs, if_true]
      exact ⟨by simp, Or.inr ⟨b, rest, q, rfl, hs⟩⟩
    · simp only [spanA, hs]
      have := ih (if b = aQuote then q + 1 else q)
      exact ⟨by simp [this.1], this.2⟩

/-- **`bytes_to_escaped_string_ex` prints the payload-only listing**: on a line `b' ++ 00 ++ …` the Rust
routine (whose look-ahead runs into the rest of the image) returns the escaped text of the payload and
stops exactly where the payload ends -/
theorem escA_spanA (ctx : Ctx) (tl : List Nat) : ∀ (b' : List Nat) (q : Nat), (∀ x ∈ b', x ≠ 0) →
    escA ctx (termOf ctx) (b' ++ 0 :: tl) q =
      (escP (spanA ctx (termOf ctx) q b').1, (spanA ctx (termOf ctx) q b').2 ++ 0 :: tl) := by
  intro b'
  induction b' with
  | nil =>
    intro q _
    simp only [List.nil_append, spanA, escP]
    exact escA_stop (stopA_zero ctx q)
  | cons b rest ih =>
    intro q hnz
    have hrest : ∀ x ∈ rest, x ≠ 0 := fun x hx => hnz x (by simp [hx])
    by_cases hs : stopA ctx (termOf ctx) q b = true
    · simp only [List.cons_append, spanA, hs, if_true, escP]
      exact escA_stop hs
    · have hs' : stopA ctx (termOf ctx) q b = false := by simpa using hs
      simp only [List.cons_append, spanA, hs', Bool.false_eq_true, if_false]
      rw [escA_go hs', ih _ hrest]
      simp only [escP]
      obtain ⟨hsplit, hr⟩ := spanA_split ctx (termOf ctx) rest (if b = aQuote then q + 1 else q)
      have hpiece : pieceA b (rest ++ 0 :: tl) =
          pieceP b (spanA ctx (termOf ctx) (if b = aQuote then q + 1 else q) rest).1 := by
        rcases hr with hr | ⟨c, z, q', hr, hst⟩
        · have : rest = (spanA ctx (termOf ctx) (if b = aQuote then q + 1 else q) rest).1 := by
            rw [hr] at hsplit; simpa using hsplit.symm
          rw [← this]
          exact pieceA_eq_pieceP b 0 rest tl (by decide) (by decide)
        · obtain ⟨k1, k2⟩ := stopA_blocker hst
          have : rest ++ 0 :: tl =
              (spanA ctx (termOf ctx) (if b = aQuote then q + 1 else q) rest).1 ++ c :: (z ++ 0 :: tl) := by
            rw [hr] at hsplit
            conv => lhs; rw [← hsplit]
            simp
          rw [this]
          exact pieceA_eq_pieceP b c _ _ k1 k2
      rw [hpiece]

/-! ### the parser's view of a listed payload -/

theorem spanT_neutral (ctx : Ctx) (q c : Nat) (X : List Nat) (h1 : c ≠ 10) (h2 : c ≠ 34) (h3 : c ≠ 58) :
    spanT ctx q (c :: X) = (c :: (spanT ctx q X).1, (spanT ctx q X).2) := by
  simp [spanT, stopT, h1, h2, h3]

theorem stopA_stopT {ctx : Ctx} {q b : Nat} (h : stopA ctx (termOf ctx) q b = true) (hb : b = 34 ∨ b = 58) :
    stopT ctx q b = true := by
  cases ctx <;> simp [stopA, termOf] at h <;> simp [stopT] <;> omega

theorem stopT_of_not_stopA {ctx : Ctx} {q b : Nat} (h : stopA ctx (termOf ctx) q b = false) (hb : b ≠ 10) :
    stopT ctx q b = false := by
  cases ctx <;> simp [stopA, termOf] at h <;> simp [stopT, hb] <;> omega

/-- the text of one payload byte is passed over by the parser's payload scan, with the same quote count -/
theorem spanT_piece {ctx : Ctx} {q b : Nat} (p' X : List Nat)
    (hs : stopA ctx (termOf ctx) q b = false) (hb : b < 256) :
    spanT ctx q (pieceP b p' ++ X) =
      (pieceP b p' ++ (spanT ctx (if b = aQuote then q + 1 else q) X).1,
       (spanT ctx (if b = aQuote then q + 1 else q) X).2) := by
  unfold pieceP
  split
  · rename_i hb92
    have hq : (if b = aQuote then q + 1 else q) = q := by simp [hb92, aQuote]
    rw [hq]
    split
    · split
      · simp [spanT_neutral]
      · simp [spanT_neutral]
    · simp [spanT_neutral]
  · rename_i hb92
    split
    · rename_i hesc
      have hq : (if b = aQuote then q + 1 else q) = q := by
        have : b ≠ 34 := by
          rcases hesc with h | h
          · simp [aEscapes] at h; omega
          · omega
        simp [aQuote, this]
      rw [hq, hexEsc_eq]
      have h1 := hexLower_spec ⟨b / 16 % 16, by omega⟩
      have h2 := hexLower_spec ⟨b % 16, by omega⟩
      simp only at h1 h2
      simp [spanT_neutral, h1.2.2.1, h1.2.2.2.1, h1.2.2.2.2.1, h2.2.2.1, h2.2.2.2.1, h2.2.2.2.2.1]
    · rename_i hesc
      have h10 : b ≠ 10 := by
        intro h; apply hesc; left; simp [aEscapes, h]
      have := stopT_of_not_stopA hs h10
      simp only [List.cons_append, List.nil_append, spanT, this, aQuote, Bool.false_eq_true, if_false]
      rfl

/-- **the parser finds the listed payload again**: scanning the listing of the payload of `b'` stops
exactly at its end (a closing quote, an unquoted colon, or the end of the line), with the quote parity
the detokenizer had -/
theorem spanT_escP (ctx : Ctx) : ∀ (b' : List Nat) (q : Nat) (w : List Nat), (∀ x ∈ b', x < 256) →
    ((spanA ctx (termOf ctx) q b').2 = [] → ∃ w', w = 10 :: w') →
    (∀ c z, (spanA ctx (termOf ctx) q b').2 = c :: z → (c = 34 ∨ c = 58) ∧ ∃ w', w = c :: w') →
    spanT ctx q (escP (spanA ctx (termOf ctx) q b').1 ++ w) = (escP (spanA ctx (termOf ctx) q b').1, w) := by
  intro b'
  induction b' with
  | nil =>
    intro q w _ h1 _
    obtain ⟨w', hw⟩ := h1 (by simp [spanA])
    simp [spanA, escP, hw, spanT, stopT]
  | cons b rest ih =>
    intro q w hlt h1 h2
    have hrest : ∀ x ∈ rest, x < 256 := fun x hx => hlt x (by simp [hx])
    by_cases hs : stopA ctx (termOf ctx) q b = true
    · have hsp : spanA ctx (termOf ctx) q (b :: rest) = ([], b :: rest) := by simp [spanA, hs]
      obtain ⟨hb, w', hw⟩ := h2 b rest (by rw [hsp])
      rw [hsp]
      simp [escP, hw, spanT, stopA_stopT hs hb]
    · have hs' : stopA ctx (termOf ctx) q b = false := by simpa using hs
      have hsp : spanA ctx (termOf ctx) q (b :: rest) =
          (b :: (spanA ctx (termOf ctx) (if b = aQuote then q + 1 else q) rest).1,
           (spanA ctx (termOf ctx) (if b = aQuote then q + 1 else q) rest).2) := by
        simp [spanA, hs']
      rw [hsp] at h1 h2 ⊢
      simp only [escP, List.append_assoc]
      rw [spanT_piece _ _ hs' (hlt b (by simp)), ih _ w hrest h1 h2]

end A2Verif.Detok
