import A2Verif.Lemmas.Renumber
namespace A2Verif.Lemmas.Renumber
open A2Verif.Model.Renumber

/-! Part 5: one `replace_range` on a text of terminated lines -/

/-- no line terminator inside a line -/
def NoNl (l : List Nat) : Prop := ∀ c ∈ l, c ≠ 10 ∧ c ≠ 13

/-- the text of the lines `ls`, each terminated by `\n` -/
def joinT (ls : List (List Nat)) : List Nat := ls.flatMap (· ++ [10])

theorem splitLines_cons_of_ne (c : Nat) (cs : List Nat) (h1 : c ≠ 10) (h2 : c ≠ 13) :
    splitLines (c :: cs) = match splitLines cs with
      | [] => [[c]]
      | l :: ls => (c :: l) :: ls := by
  rw [splitLines.eq_3 c cs (fun _ hc _ => h2 hc), if_neg h1]
  cases splitLines cs <;> rfl

theorem splitLines_lf (cs : List Nat) : splitLines (10 :: cs) = [] :: splitLines cs := by
  rw [splitLines.eq_3 10 cs (fun _ hc _ => by cases hc)]
  simp

theorem splitLines_line (l rest : List Nat) (h : NoNl l) :
    splitLines (l ++ 10 :: rest) = l :: splitLines rest := by
  induction l with
  | nil => simpa using splitLines_lf rest
  | cons c l ih =>
    have hc := h c (by simp)
    have hl : NoNl l := fun d hd => h d (by simp [hd])
    simp only [List.cons_append]
    rw [splitLines_cons_of_ne c _ hc.1 hc.2, ih hl]

theorem splitLines_joinT (ls : List (List Nat)) (h : ∀ l ∈ ls, NoNl l) : splitLines (joinT ls) = ls := by
  induction ls with
  | nil => simp [joinT, splitLines]
  | cons l ls ih =>
    have : joinT (l :: ls) = l ++ 10 :: joinT ls := by simp [joinT]
    rw [this, splitLines_line l _ (h l (by simp)), ih (fun l' hl' => h l' (by simp [hl']))]

/-- the closed form of the `replace_range` loop for a range on row `curr + k` -/
theorem scan_row (rng : Range) (ls : List (List Nat)) (curr sc ec k : Nat)
    (hs : rng.s.line = curr + k) (he : rng.e.line = curr + k) (hk : k < ls.length) :
    scan rng ls curr sc ec false =
      (sc + (joinT (ls.take k)).length + rng.s.ch, ec + (joinT (ls.take k)).length + rng.e.ch, true, true) := by
  induction ls generalizing curr sc ec k with
  | nil => cases hk
  | cons l ls ih =>
    cases k with
    | zero =>
      simp [scan, hs, he, joinT]
    | succ k =>
      have h1 : ¬ rng.s.line = curr := by omega
      have h2 : ¬ rng.e.line = curr := by omega
      have := ih (curr + 1) (sc + (l.length + 1)) (ec + (l.length + 1)) k (by omega) (by omega)
        (by simpa using hk)
      simp only [scan, h1, h2, ↓reduceIte, Bool.not_false, this]
      simp [joinT]
      omega

/-- **one edit on one row.**  On a text of `\n`-terminated lines, `replace_range` with a range lying on row
`r` replaces exactly the characters `[s,e)` of that row: the character offsets it sums over the preceding
lines (`start_char`, `end_char`) address the right place whatever the lengths of those lines are, all other
rows and the rest of row `r` are untouched. -/
theorem replaceRange_row (ls : List (List Nat)) (h : ∀ l ∈ ls, NoNl l) (r s e : Nat) (new : List Nat)
    (hnew : NoNl new) (l : List Nat) (hr : ls[r]? = some l) (hse : s ≤ e) (hel : e ≤ l.length) :
    replaceRange (joinT ls) ⟨⟨r, s⟩, ⟨r, e⟩⟩ new = .ok (joinT (ls.set r (replace1 l ⟨s, e, new⟩))) := by
  have hrl : r < ls.length := by
    rcases Nat.lt_or_ge r ls.length with h' | h'
    · exact h'
    · rw [List.getElem?_eq_none h'] at hr; cases hr
  have hnew' : crlfToLf new = new := by
    induction new with
    | nil => rfl
    | cons c cs ih =>
      have hc := hnew c (by simp)
      have : crlfToLf (c :: cs) = c :: crlfToLf cs := crlfToLf.eq_3 c cs (fun _ h' _ => hc.2 h')
      rw [this, ih (fun d hd => hnew d (by simp [hd]))]
  -- the text around row r
  have hsplit : ls = ls.take r ++ l :: ls.drop (r + 1) := by
    have := List.getElem?_eq_some_iff.mp hr
    obtain ⟨_, hl⟩ := this
    rw [← hl]
    simp
  have hdoc : joinT ls = joinT (ls.take r) ++ (l ++ 10 :: joinT (ls.drop (r + 1))) := by
    conv => lhs; rw [hsplit]
    simp [joinT]
  have hset : joinT (ls.set r (replace1 l ⟨s, e, new⟩)) =
      joinT (ls.take r) ++ (replace1 l ⟨s, e, new⟩ ++ 10 :: joinT (ls.drop (r + 1))) := by
    have : ls.set r (replace1 l ⟨s, e, new⟩) = ls.take r ++ replace1 l ⟨s, e, new⟩ :: ls.drop (r + 1) := by
      rw [List.set_eq_take_append_cons_drop]; simp [hrl]
    rw [this]; simp [joinT]
  unfold replaceRange
  simp only [splitLines_joinT ls h, hnew']
  rw [scan_row ⟨⟨r, s⟩, ⟨r, e⟩⟩ ls 0 0 0 r (by simp) (by simp) hrl]
  simp only [Nat.zero_add, Bool.and_self, ↓reduceIte]
  have hlen : (joinT ls).length = (joinT (ls.take r)).length + (l.length + 1 + (joinT (ls.drop (r + 1))).length) := by
    rw [hdoc]; simp; omega
  rw [if_pos (by omega)]
  congr 1
  rw [hset, hdoc]
  generalize joinT (List.take r ls) = P
  generalize joinT (List.drop (r + 1) ls) = Q
  have e1 : List.take (P.length + s) (P ++ (l ++ 10 :: Q)) = P ++ l.take s := by
    rw [List.take_append]; simp; rw [List.take_append_of_le_length (by omega), List.take_of_length_le (by omega)]
  have e2 : List.drop (P.length + e) (P ++ (l ++ 10 :: Q)) = l.drop e ++ 10 :: Q := by
    rw [List.drop_append]; simp; rw [List.drop_append_of_le_length (by omega), List.drop_of_length_le (by omega)]; simp
  rw [e1, e2]
  simp [replace1]

/-! Part 6: the `apply_edits` loop on rows -/

/-- the edit lies on one row of `ls`, inside that row, and its new text has no line terminator -/
def EditOn (ls : List (List Nat)) (ed : Edit) : Prop :=
  ed.rng.e.line = ed.rng.s.line ∧ NoNl ed.new ∧
    ∃ l, ls[ed.rng.s.line]? = some l ∧ ed.rng.s.ch ≤ ed.rng.e.ch ∧ ed.rng.e.ch ≤ l.length

/-- the effect of one single-row edit on the list of rows -/
def rowsStep (ls : List (List Nat)) (ed : Edit) : List (List Nat) :=
  ls.set ed.rng.s.line (replace1 (ls[ed.rng.s.line]?.getD []) ⟨ed.rng.s.ch, ed.rng.e.ch, ed.new⟩)

/-- every edit of the sequence is valid on the rows as they are when it is applied -/
inductive ValidSeq : List (List Nat) → List Edit → Prop
  | nil (ls : List (List Nat)) : ValidSeq ls []
  | cons {ls : List (List Nat)} {ed : Edit} {es : List Edit} :
      EditOn ls ed → ValidSeq (rowsStep ls ed) es → ValidSeq ls (ed :: es)

theorem noNl_rowsStep (ls : List (List Nat)) (h : ∀ l ∈ ls, NoNl l) (ed : Edit) (hn : NoNl ed.new) :
    ∀ l ∈ rowsStep ls ed, NoNl l := by
  intro l hl
  unfold rowsStep at hl
  rcases List.mem_or_eq_of_mem_set hl with hl | hl
  · exact h l hl
  · subst hl
    have hrow : NoNl (ls[ed.rng.s.line]?.getD []) := by
      cases hg : ls[ed.rng.s.line]? with
      | none => intro c hc; simp at hc
      | some l0 => exact h l0 (List.mem_of_getElem? hg)
    intro c hc
    simp only [replace1, List.mem_append] at hc
    rcases hc with (hc | hc) | hc
    · exact hrow c (List.mem_of_mem_take hc)
    · exact hn c hc
    · exact hrow c (List.mem_of_mem_drop hc)

/-- **the loop of `apply_edits` acts row-wise.**  On a text of `\n`-terminated rows, applying a sequence of
single-row edits, each valid on the rows as they are at that moment, never fails, never panics, keeps the
number of rows, and produces the text of the rows obtained by replacing `[s,e)` in the addressed row at each
step. -/
theorem applyLoop_rows (ls : List (List Nat)) (h : ∀ l ∈ ls, NoNl l) (es : List Edit) (hv : ValidSeq ls es) :
    applyLoop 0 es (joinT ls) = .ok (joinT (es.foldl rowsStep ls)) ∧
      (es.foldl rowsStep ls).length = ls.length := by
  induction hv with
  | nil ls => exact ⟨rfl, rfl⟩
  | @cons ls ed es hon _ ih =>
    obtain ⟨hline, hn, l, hl, hse, hel⟩ := hon
    have hstep := replaceRange_row ls h ed.rng.s.line ed.rng.s.ch ed.rng.e.ch ed.new hn l hl hse hel
    have hrs : rowsStep ls ed = ls.set ed.rng.s.line (replace1 l ⟨ed.rng.s.ch, ed.rng.e.ch, ed.new⟩) := by
      unfold rowsStep; rw [hl]; rfl
    have ih' := ih (noNl_rowsStep ls h ed hn)
    constructor
    · simp only [applyLoop, Nat.not_lt_zero, or_self, ↓reduceIte, Nat.sub_zero, hline, hstep, Res.bind,
        List.foldl_cons]
      rw [← hrs]; exact ih'.1
    · simp only [List.foldl_cons]
      rw [ih'.2, hrs, List.length_set]

end A2Verif.Lemmas.Renumber
