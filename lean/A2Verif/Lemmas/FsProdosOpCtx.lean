import A2Verif.Lemmas.FsProdosPatch
/-!
# From `SInv` to the facts the operations need, and back

`SInv.ctx`: the reading, the chain of the volume directory and `RootCtx` of a disk object between two calls.
`refused_same`: an operation that left the disk object alone ends, after `get_img()`, in an `SInv` state with the same
image.  `close_op`: an operation that ended in a `Next` state whose written-back image satisfies `Inv` ends in an `SInv`
state.
-/
namespace A2Verif.FsProdos
open A2Verif.Fs.Prodos
open A2Verif.Read.Prodos (entryAt dirChain idxPtr indexEntries readData trimName bitmapFree)
open A2Verif.Read.ProdosT

/-- the reading of an image (the empty volume where it cannot be read) -/
def volOf (r : Raw) : Vol :=
  match Read.ProdosT.read r with
  | .ok v => v
  | .error _ => { lo := 0, hi := 0, sys := [], files := [], freeUnits := [] }

theorem volOf_eq {r : Raw} {v : Vol} (h : Read.ProdosT.read r = .ok v) : volOf r = v := by unfold volOf; rw [h]

theorem nbmOf_pos {t : Nat} (h : 6 ≤ t) : 0 < nbmOf t := by unfold nbmOf; omega

theorem cover_of_lt {y total : Nat} (h : y < total) : y / 8 < blockSize * nbmOf total := by
  unfold nbmOf blockSize; omega

/-- the facts an operation on the volume directory starts from -/
theorem SInv.ctx {d : Disk} (hs : SInv d) :
    ∃ v fsL ch, Read.ProdosT.read d.raw = .ok v ∧ readTree d.raw (hdrTotal d.raw) = .ok (fsL, ch) ∧
      RootCtx d (hdrBm d.raw) (nbmOf (hdrTotal d.raw)) ch ∧ hdrTotal d.raw = d.total ∧
      effBuf d (hdrBm d.raw) (nbmOf (hdrTotal d.raw)) = bufOf d.raw (hdrBm d.raw) (nbmOf (hdrTotal d.raw)) ∧
      (bufOf d.raw (hdrBm d.raw) (nbmOf (hdrTotal d.raw))).size = blockSize * nbmOf (hdrTotal d.raw) ∧
      BytesOk (bufOf d.raw (hdrBm d.raw) (nbmOf (hdrTotal d.raw))) := by
  obtain ⟨v, fsL, ch, hr, ht, _, _, _⟩ := hs.inv.ex
  obtain ⟨hw, hn, hroot, hv, hc, hic, hnd, hchf, h2, h6, h3, hbt, hstv⟩ := root_chain_facts hs.inv v fsL ch hr ht
  have hts : hdrTotal d.raw = d.total := by rw [hs.inv.size, hs.total]
  have hst := hs.st
  rw [← hts] at hst
  have hex : ∀ i ∈ bmRange (hdrBm d.raw) (nbmOf (hdrTotal d.raw)), i < d.raw.units.size := hst.exist
  obtain ⟨rest, hch⟩ := chain_head hic
  have hkinds : KindsOk d.raw 2 ch := by
    rw [hch]
    apply kindsOk_root d.raw rest (by rw [← hch]; exact hroot.prev) (by rw [← hch]; exact hnd)
    intro x hx
    exact hic.ne_zero x (by rw [hch]; exact List.mem_cons_of_mem _ hx)
  have heff := hs.eff
  rw [← hts] at heff
  refine ⟨v, fsL, ch, hr, ht, ⟨hst, hic, fun x hx => (hchf x hx).2.1, hkinds, hroot.len, hroot.prev⟩, hts, heff, ?_, ?_⟩
  · exact bufOf_size _ _ _ (fun i hi => (hs.inv.shape.unit (hex i hi)).1)
  · exact bufOf_bytesOk _ _ _ (fun i hi => (hs.inv.shape.unit (hex i hi)).2)

/-- **an operation that changed nothing**: after `get_img()` the image is the same and the state is an `SInv` state -/
theorem refused_same {d : Disk} (hs : SInv d) : ∃ d', d.flush = (.ok (), d') ∧ d'.raw = d.raw ∧ SInv d' := by
  obtain ⟨v, fsL, ch, hr, ht, c, hts, heff, hbsz, hbok⟩ := hs.ctx
  obtain ⟨_, _, _, _, _, _, _, _, _, h6, _, _, _⟩ := root_chain_facts hs.inv v fsL ch hr ht
  have hex := c.st.exist
  have hlen : ∀ i ∈ bmRange (hdrBm d.raw) (nbmOf (hdrTotal d.raw)), (unitAt d.raw i).length = blockSize :=
    fun i hi => (hs.inv.shape.unit (hex i hi)).1
  obtain ⟨d', hf, hraw, hclosed, hbb, htot, hsrc⟩ := flush_next c.st (by rw [heff]; exact hbsz) (nbmOf_pos h6) hlen
  have hraw' : d'.raw = d.raw := by rw [hraw, heff, wbRaw_bufOf d.raw _ _ hex hlen]
  refine ⟨d', hf, hraw', ?_⟩
  refine ⟨by rw [hraw']; exact hs.inv, by rw [htot, hraw']; exact hs.total, by rw [hsrc]; exact hs.src, Or.inl ⟨hclosed, ?_⟩⟩
  rw [hraw', htot, ← hts]
  exact hbb

/-- **closing an operation**: the operation ended in a state with image `r3` and effective buffer `buf3`; the written-back
image satisfies `Inv` and has the old bitmap pointer and size.  Then `get_img()` succeeds and leaves an `SInv` state. -/
theorem close_op {d d3 : Disk} (hs : SInv d) (r3 : Raw) (buf3 : Array Nat)
    (n : Next d d3 (hdrBm d.raw) (nbmOf (hdrTotal d.raw)) r3 buf3)
    (hbs : buf3.size = blockSize * nbmOf (hdrTotal d.raw))
    (hlen : ∀ i ∈ bmRange (hdrBm d.raw) (nbmOf (hdrTotal d.raw)), (unitAt r3 i).length = blockSize)
    (hinv : Inv (wbRaw r3 (hdrBm d.raw) (nbmOf (hdrTotal d.raw)) buf3))
    (hbm : hdrBm (wbRaw r3 (hdrBm d.raw) (nbmOf (hdrTotal d.raw)) buf3) = hdrBm d.raw)
    (hsz : (wbRaw r3 (hdrBm d.raw) (nbmOf (hdrTotal d.raw)) buf3).units.size = d.raw.units.size) :
    ∃ d4, d3.flush = (.ok (), d4) ∧ d4.raw = wbRaw r3 (hdrBm d.raw) (nbmOf (hdrTotal d.raw)) buf3 ∧ SInv d4 := by
  obtain ⟨v, fsL, ch, hr, ht, c, hts, _, _, _⟩ := hs.ctx
  obtain ⟨_, _, _, _, _, _, _, _, _, h6, _, _, _⟩ := root_chain_facts hs.inv v fsL ch hr ht
  obtain ⟨d4, hf, hraw, hclosed, hbb, htot, hsrc⟩ := flush_next n.st (by rw [n.eff]; exact hbs) (nbmOf_pos h6)
    (by rw [n.raw]; exact hlen)
  rw [n.raw, n.eff] at hraw
  refine ⟨d4, hf, hraw, ?_⟩
  refine ⟨by rw [hraw]; exact hinv, ?_, by rw [hsrc, n.src]; exact hs.src, Or.inl ⟨hclosed, ?_⟩⟩
  · rw [htot, n.total, hraw, hsz]; exact hs.total
  · rw [hraw, hbm, htot, n.total, ← hts]; exact hbb

/-! ## the access byte -/

theorem uniform_locked : ∀ a : Fin 256, UniformAcc a.val →
    ((readerLocked a.val = false ↔ a.val &&& 0x80 ≠ 0) ∧ (readerLocked a.val = false ↔ a.val &&& 0x40 ≠ 0)) := by
  decide +kernel

end A2Verif.FsProdos
