import A2Verif.Lemmas.FsProdosPatch
/-!
# From `SInv` to the facts the operations need, and back

`SInv.ctx`: the reading, the chain of the volume directory and `RootCtx` of a disk object between two calls.
`refused_same`: an operation that left the disk object alone ends, after `get_img()`, in an `SInv` state with the same
image.  `close_op`: an operation that ended in a `Next` state whose written-back image satisfies `Inv` ends in an `SInv`
state.
-/
namespace A2Verif.FsProdos
open A2Verif.Fs.Prodos
open A2Verif.Read.Prodos (entryAt dirChain idxPtr indexEntries readData trimName bitmapFree)
open A2Verif.Read.ProdosT

/-- the reading of an image (the empty volume where it cannot be read) -/
def volOf (r : Raw) : Vol :=
  match Read.ProdosT.read r with
  | .ok v => v
  | .error _ => { lo := 0, hi := 0, sys := [], files := [], freeUnits := [] }

/-- the volume read after an operation: bounds, system blocks and label as before -/
def nextVol (v : Vol) (total : Nat) (files : List FileRec) (free : List Nat) : Vol :=
  { lo := 0, hi := total, sys := v.sys, files := files, freeUnits := free, label := v.label }

theorem volOf_eq {r : Raw} {v : Vol} (h : Read.ProdosT.read r = .ok v) : volOf r = v := by unfold volOf; rw [h]

theorem nbmOf_pos {t : Nat} (h : 6 ≤ t) : 0 < nbmOf t := by unfold nbmOf; omega

theorem cover_of_lt {y total : Nat} (h : y < total) : y / 8 < blockSize * nbmOf total := by
  unfold nbmOf blockSize; omega

/-- the facts an operation on the volume directory starts from -/
theorem SInv.ctx {d : Disk} (hs : SInv d) :
    ∃ v fsL ch, Read.ProdosT.read d.raw = .ok v ∧ readTree d.raw (hdrTotal d.raw) = .ok (fsL, ch) ∧
      RootCtx d (hdrBm d.raw) (nbmOf (hdrTotal d.raw)) ch ∧ hdrTotal d.raw = d.total ∧
      effBuf d (hdrBm d.raw) (nbmOf (hdrTotal d.raw)) = bufOf d.raw (hdrBm d.raw) (nbmOf (hdrTotal d.raw)) ∧
      (bufOf d.raw (hdrBm d.raw) (nbmOf (hdrTotal d.raw))).size = blockSize * nbmOf (hdrTotal d.raw) ∧
      BytesOk (bufOf d.raw (hdrBm d.raw) (nbmOf (hdrTotal d.raw))) := by
  obtain ⟨v, fsL, ch, hr, ht, _, _, _⟩ := hs.inv.ex
  obtain ⟨hw, hn, hroot, hv, hc, hic, hnd, hchf, h2, h6, h3, hbt, hstv⟩ := root_chain_facts hs.inv v fsL ch hr ht
  have hts : hdrTotal d.raw = d.total := by rw [hs.inv.size, hs.total]
  have hst := hs.st
  rw [← hts] at hst
  have hex : ∀ i ∈ bmRange (hdrBm d.raw) (nbmOf (hdrTotal d.raw)), i < d.raw.units.size := hst.exist
  obtain ⟨rest, hch⟩ := chain_head hic
  have hkinds : KindsOk d.raw 2 ch := by
    rw [hch]
    apply kindsOk_root d.raw rest (by rw [← hch]; exact hroot.prev) (by rw [← hch]; exact hnd)
    intro x hx
    exact hic.ne_zero x (by rw [hch]; exact List.mem_cons_of_mem _ hx)
  have heff := hs.eff
  rw [← hts] at heff
  refine ⟨v, fsL, ch, hr, ht, ⟨hst, hic, fun x hx => (hchf x hx).2.1, hkinds, hroot.len, hroot.prev⟩, hts, heff, ?_, ?_⟩
  · exact bufOf_size _ _ _ (fun i hi => (hs.inv.shape.unit (hex i hi)).1)
  · exact bufOf_bytesOk _ _ _ (fun i hi => (hs.inv.shape.unit (hex i hi)).2)

/-- **an operation that changed nothing**: after `get_img()` the image is the same and the state is an `SInv` state -/
theorem refused_same {d : Disk} (hs : SInv d) : ∃ d', d.flush = (.ok (), d') ∧ d'.raw = d.raw ∧ SInv d' := by
  obtain ⟨v, fsL, ch, hr, ht, c, hts, heff, hbsz, hbok⟩ := hs.ctx
  obtain ⟨_, _, _, _, _, _, _, _, _, h6, _, _, _⟩ := root_chain_facts hs.inv v fsL ch hr ht
  have hex := c.st.exist
  have hlen : ∀ i ∈ bmRange (hdrBm d.raw) (nbmOf (hdrTotal d.raw)), (unitAt d.raw i).length = blockSize :=
    fun i hi => (hs.inv.shape.unit (hex i hi)).1
  obtain ⟨d', hf, hraw, hclosed, hbb, htot, hsrc⟩ := flush_next c.st (by rw [heff]; exact hbsz) (nbmOf_pos h6) hlen
  have hraw' : d'.raw = d.raw := by rw [hraw, heff, wbRaw_bufOf d.raw _ _ hex hlen]
  refine ⟨d', hf, hraw', ?_⟩
  refine ⟨by rw [hraw']; exact hs.inv, by rw [htot, hraw']; exact hs.total, by rw [hsrc]; exact hs.src, Or.inl ⟨hclosed, ?_⟩⟩
  rw [hraw', htot, ← hts]
  exact hbb

/-- **closing an operation**: the operation ended in a state with image `r3` and effective buffer `buf3`; the written-back
image satisfies `Inv` and has the old bitmap pointer and size.  Then `get_img()` succeeds and leaves an `SInv` state. -/
theorem close_op {d d3 : Disk} (hs : SInv d) (r3 : Raw) (buf3 : Array Nat)
    (n : Next d d3 (hdrBm d.raw) (nbmOf (hdrTotal d.raw)) r3 buf3)
    (hbs : buf3.size = blockSize * nbmOf (hdrTotal d.raw))
    (hlen : ∀ i ∈ bmRange (hdrBm d.raw) (nbmOf (hdrTotal d.raw)), (unitAt r3 i).length = blockSize)
    (hinv : Inv (wbRaw r3 (hdrBm d.raw) (nbmOf (hdrTotal d.raw)) buf3))
    (hbm : hdrBm (wbRaw r3 (hdrBm d.raw) (nbmOf (hdrTotal d.raw)) buf3) = hdrBm d.raw)
    (hsz : (wbRaw r3 (hdrBm d.raw) (nbmOf (hdrTotal d.raw)) buf3).units.size = d.raw.units.size) :
    ∃ d4, d3.flush = (.ok (), d4) ∧ d4.raw = wbRaw r3 (hdrBm d.raw) (nbmOf (hdrTotal d.raw)) buf3 ∧ SInv d4 := by
  obtain ⟨v, fsL, ch, hr, ht, c, hts, _, _, _⟩ := hs.ctx
  obtain ⟨_, _, _, _, _, _, _, _, _, h6, _, _, _⟩ := root_chain_facts hs.inv v fsL ch hr ht
  obtain ⟨d4, hf, hraw, hclosed, hbb, htot, hsrc⟩ := flush_next n.st (by rw [n.eff]; exact hbs) (nbmOf_pos h6)
    (by rw [n.raw]; exact hlen)
  rw [n.raw, n.eff] at hraw
  refine ⟨d4, hf, hraw, ?_⟩
  refine ⟨by rw [hraw]; exact hinv, ?_, by rw [hsrc, n.src]; exact hs.src, Or.inl ⟨hclosed, ?_⟩⟩
  · rw [htot, n.total, hraw, hsz]; exact hs.total
  · rw [hraw, hbm, htot, n.total, ← hts]; exact hbb

theorem mem_find {α : Type} {p : α → Bool} {l : List α} {x : α} (h : l.find? p = some x) : x ∈ l ∧ p x = true :=
  ⟨List.mem_of_find?_eq_some h, List.find?_some h⟩

/-- what the reader calls the path of a file entry under the volume directory -/
theorem baseRec_path_root (e : Bytes) : (baseRec e []).path = trimName e := by
  unfold baseRec; simp

theorem readFile_rec_fields (r : Raw) (total : Nat) (e pfx : Bytes) (f : FileRec) (h : Read.ProdosT.readFile r total e pfx = .ok f) :
    f.path = (baseRec e pfx).path ∧ f.isDir = false ∧ f.locked = (baseRec e pfx).locked ∧ f.access = e.getD 30 0 ∧
    f.ftype = e.getD 16 0 ∧ f.aux = le16 e 31 ∧ f.eof = le24 e 21 := by
  unfold Read.ProdosT.readFile at h
  simp only at h
  split at h
  · cases hu : r.unit (le16 e 0x11) "data-block" with
    | error x => rw [hu] at h; cases h
    | ok d =>
      rw [hu] at h; simp only at h
      split at h
      · cases h
      · injection h with h; subst h; exact ⟨rfl, rfl, rfl, rfl, rfl, rfl, rfl⟩
  · split at h
    · cases hu : r.unit (le16 e 0x11) "index-block" with
      | error x => rw [hu] at h; cases h
      | ok ib =>
        rw [hu] at h; simp only at h
        cases hd : readData r total (indexEntries ib 0) with
        | error x => rw [hd] at h; cases h
        | ok cs =>
          rw [hd] at h; simp only at h
          split at h
          · cases h
          · injection h with h; subst h; exact ⟨rfl, rfl, rfl, rfl, rfl, rfl, rfl⟩
    · cases hu : r.unit (le16 e 0x11) "master-index-block" with
      | error x => rw [hu] at h; cases h
      | ok mb =>
        rw [hu] at h; simp only at h
        cases hm : List.mapM (treeIndex r total)
            ((List.range 128).filterMap (fun k => if idxPtr mb k = 0 then none else some (k, idxPtr mb k))) with
        | error x => rw [hm] at h; cases h
        | ok parts =>
          rw [hm] at h; simp only at h
          split at h
          · cases h
          · injection h with h; subst h; exact ⟨rfl, rfl, rfl, rfl, rfl, rfl, rfl⟩

theorem getD_lt_of_bytes (b : Bytes) (j : Nat) (h : ∀ x ∈ b, x < 256) : b.getD j 0 < 256 := by
  simp only [List.getD_eq_getElem?_getD]
  by_cases hj : j < b.length
  · rw [List.getElem?_eq_getElem hj]; exact h _ (List.getElem_mem hj)
  · rw [List.getElem?_eq_none (by omega)]; decide

theorem entryAt_bytes (blk : Bytes) (k : Nat) (h : ∀ x ∈ blk, x < 256) : ∀ x ∈ entryAt blk k 39, x < 256 := by
  intro x hx
  unfold entryAt slice at hx
  exact h x (List.mem_of_mem_drop (List.mem_of_mem_take hx))

/-- the slot a search for a sub-directory entry finds holds a directory entry -/
theorem dir_hit_is_dir {r : Raw} {ch : List Nat} (nm : Bytes) (hl : nm.length ≤ 15) (x : Bytes × Nat × Nat)
    (h : isHit [stSubDirEntry] nm x = true) : x.1.getD 0 0 / 16 = 0xD ∧ x.1.getD 0 0 = 0xD * 16 + nm.length := by
  unfold isHit at h
  simp only [Bool.and_eq_true] at h
  obtain ⟨hact, hm⟩ := h
  unfold isFileMatch at hm
  simp only [List.any_cons, List.any_nil, Bool.or_false, Bool.and_eq_true, beq_iff_eq] at hm
  have hn : nibsOf stSubDirEntry nm = 0xD * 16 + nm.length := by
    unfold nibsOf stSubDirEntry; omega
  have he0 : x.1.getD 0 0 = 0xD * 16 + nm.length := by
    have := hm.1; rw [hn] at this; exact this.symm
  exact ⟨by rw [he0]; omega, he0⟩

theorem attempt_err {α : Type} (m : M α) (d d' : Disk) (e : Err) (h : m d = (.error e, d')) (he : e ≠ .panic) :
    M.attempt m d = (.ok none, d') := by
  unfold M.attempt; rw [h]
  cases e <;> first | rfl | exact absurd rfl he

/-- `find_dir_key_block` of a path into the volume directory that names no sub-directory answers `PATH NOT FOUND` -/
theorem findDirKeyBlock_nodir {d : Disk} {bm cnt : Nat} {ch : List Nat} (c : RootCtx d bm cnt ch) (path nm : Bytes)
    (hnodes : normalizePath (volName (hdrOf d.raw)) path = .ok [volName (hdrOf d.raw), nm]) (hnm : nm ≠ [])
    (hnv : NotVol (volName (hdrOf d.raw)) path)
    (hnone : isNameValid nm = true → (dirSlots d.raw 2 ch).find? (isHit [stSubDirEntry] nm) = none) :
    findDirKeyBlock path d = (.error .pathNotFound, d) := by
  cases hvv : isNameValid nm with
  | true => exact findDirKeyBlock_root c path nm hnodes hnm hnv (hnone hvv)
  | false =>
    unfold findDirKeyBlock
    simp only [bind_def]
    rw [bind_ok _ _ d d _ (getVolHeader_root c)]
    unfold NotVol at hnv
    simp only [hnv, ↓reduceIte]
    have hs := searchVolume_root c [stSubDirEntry] path nm hnodes hnm
    unfold rootSearch at hs
    rw [hvv] at hs
    simp only [Bool.not_false, ↓reduceIte] at hs
    rw [bind_ok _ _ d d _ (attempt_err _ d d _ hs (by decide))]
    rfl

/-! ## the access byte -/

theorem uniform_locked : ∀ a : Fin 256, UniformAcc a.val →
    ((readerLocked a.val = false ↔ a.val &&& 0x80 ≠ 0) ∧ (readerLocked a.val = false ↔ a.val &&& 0x40 ≠ 0)) := by
  decide +kernel

end A2Verif.FsProdos
