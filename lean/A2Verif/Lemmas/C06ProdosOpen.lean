import A2Verif.Lemmas.C06ProdosRead
/-!
# C06, ProDOS: whether the bitmap blocks of the image are up to date is invisible to every operation

`OSim d o`: two objects with the **same buffer and the same recorded bitmap blocks** (at most one: volumes below 4096
blocks) whose images agree on every other block — and on all blocks when the buffer is closed.  This is how an object
with unsaved allocations (`d`) relates to its saved-and-reloaded twin *once the twin has re-opened its buffer*
(`openTwin`).  Every primitive respects the relation: a bitmap block is read from the buffer, `write_block` refuses it in
both, `zap_block` of it drops the buffer in both and overwrites the only block in which the images could differ.  Hence
every operation of the model does (`OResp`), modifying ones included.
-/
namespace A2Verif.Reload.Prodos
open A2Verif.Fs.Prodos A2Verif.FsProdos

structure OSim (d o : Disk) : Prop where
  total : o.total = d.total
  bitmap : o.bitmap = d.bitmap
  blocks : o.bitmapBlocks = d.bitmapBlocks
  src : o.src = d.src
  pos : 0 < d.total
  one : d.bitmapBlocks.length ≤ 1
  small : d.total < 4096
  ulen : o.raw.unitLen = d.raw.unitLen
  size : o.raw.units.size = d.raw.units.size
  off : ∀ u, d.bitmapBlocks.contains u = false → o.raw.units[u]? = d.raw.units[u]?
  closedEq : d.bitmap = none → o.raw = d.raw

theorem OSim.refl (d : Disk) (h0 : 0 < d.total) (h1 : d.bitmapBlocks.length ≤ 1) (h2 : d.total < 4096) : OSim d d :=
  ⟨rfl, rfl, rfl, rfl, h0, h1, h2, rfl, rfl, fun _ _ => rfl, fun _ => rfl⟩

/-- at most one bitmap block below 4096 blocks, in either variant of the source -/
theorem bmCount_le_one {d : Disk} (h : d.total < 4096) : d.bmCount ≤ 1 := by
  unfold Disk.bmCount bitmapBlockCount; split <;> omega

theorem bmCount_pos {d : Disk} (h : 0 < d.total) : 0 < d.bmCount := by
  unfold Disk.bmCount bitmapBlockCount; split <;> omega

structure OResp {α : Type} (m : M α) : Prop where
  out : ∀ d o, OSim d o → (m o).1 = (m d).1 ∧ OSim (m d).2 (m o).2

theorem OResp.pure {α : Type} (a : α) : OResp (pure a : M α) := ⟨fun _ _ h => ⟨rfl, h⟩⟩
theorem OResp.pure' {α : Type} (a : α) : OResp (M.pure a : M α) := ⟨fun _ _ h => ⟨rfl, h⟩⟩
theorem OResp.fail {α : Type} (e : Err) : OResp (M.fail e : M α) := ⟨fun _ _ h => ⟨rfl, h⟩⟩
theorem OResp.lift {α : Type} (x : R α) : OResp (M.lift x) := ⟨fun _ _ h => ⟨rfl, h⟩⟩
theorem OResp.ofOption {α : Type} (x : Option α) : OResp (M.ofOption x) := by
  constructor
  intro d o h
  unfold M.ofOption
  cases x <;> exact ⟨rfl, h⟩

theorem OResp.bind {α β : Type} {m : M α} {f : α → M β} (hm : OResp m) (hf : ∀ a, OResp (f a)) : OResp (m >>= f) := by
  constructor
  intro d o h
  obtain ⟨e1, s1⟩ := hm.out d o h
  have hbind : ∀ e : Disk, (m >>= f) e = match m e with
      | (.ok a, e') => f a e'
      | (.error er, e') => (.error er, e') := fun _ => rfl
  rw [hbind d, hbind o]
  rcases hw : m d with ⟨x, d1⟩
  rcases hw' : m o with ⟨x', o1⟩
  rw [hw, hw'] at e1 s1
  simp only at e1 s1
  subst e1
  cases x' with
  | error e => exact ⟨rfl, s1⟩
  | ok a => exact (hf a).out d1 o1 s1

theorem OResp.bind' {α β : Type} {m : M α} {f : α → M β} (hm : OResp m) (hf : ∀ a, OResp (f a)) : OResp (M.bind m f) :=
  OResp.bind hm hf

theorem OResp.ite {α : Type} {c : Prop} [Decidable c] {a b : M α} (ha : OResp a) (hb : OResp b) : OResp (if c then a else b) := by
  split <;> assumption

theorem OResp.attempt {α : Type} {m : M α} (hm : OResp m) : OResp (M.attempt m) := by
  constructor
  intro d o h
  obtain ⟨e1, s1⟩ := hm.out d o h
  unfold M.attempt
  rcases hw : m d with ⟨x, d1⟩
  rcases hw' : m o with ⟨x', o1⟩
  rw [hw, hw'] at e1 s1
  simp only at e1 s1
  subst e1
  cases x' with
  | ok a => exact ⟨rfl, s1⟩
  | error e => cases e <;> exact ⟨rfl, s1⟩

theorem raw_ext {r r' : Raw} (hu : r'.unitLen = r.unitLen) (hs : r'.units.size = r.units.size)
    (he : ∀ i : Nat, r'.units[i]? = r.units[i]?) : r' = r := by
  cases r; cases r'
  simp only at hu hs he
  subst hu
  congr
  exact Array.ext_getElem? he

theorem openLoop_len (r : Raw) : ∀ (is : List Nat) (acc : Array Nat) (pushed : List Nat),
    (openLoop r is acc pushed).2.length ≤ pushed.length + is.length := by
  intro is
  induction is with
  | nil => intro acc pushed; simp [openLoop]
  | cons i is ih =>
    intro acc pushed
    unfold openLoop
    split
    · simp
    · have := ih (acc ++ (by assumption : Bytes).toArray) (pushed ++ [i])
      simp only [List.length_append, List.length_cons, List.length_nil] at this ⊢
      omega

theorem disk_ext {d o : Disk} (h1 : o.raw = d.raw) (h2 : o.total = d.total) (h3 : o.bitmap = d.bitmap) (h4 : o.bitmapBlocks = d.bitmapBlocks)
    (h5 : o.src = d.src) : o = d := by
  cases d; cases o
  simp only at h1 h2 h3 h4 h5
  subst h1 h2 h3 h4 h5
  rfl

/-- `open_bitmap_buffer` keeps `total_blocks` and records at most `1 + total/4096` bitmap blocks -/
theorem openBitmap_facts (d : Disk) (h1 : d.bitmapBlocks.length ≤ 1) (h2 : d.total < 4096) :
    (openBitmap d).2.total = d.total ∧ (openBitmap d).2.bitmapBlocks.length ≤ 1 ∧ (openBitmap d).2.raw = d.raw := by
  have hcnt : d.bmCount ≤ 1 := bmCount_le_one h2
  unfold openBitmap
  cases hb : d.bitmap with
  | some b => exact ⟨rfl, h1, rfl⟩
  | none =>
    simp only
    cases hk : imgRead d.raw volKeyBlock with
    | error er => exact ⟨rfl, by simp, rfl⟩
    | ok kb =>
      simp only
      have hlen := openLoop_len d.raw (List.range' (le16 kb (4 + 35)) d.bmCount) #[] []
      rcases hol : openLoop d.raw (List.range' (le16 kb (4 + 35)) d.bmCount) #[] [] with ⟨x, pushed⟩
      rw [hol] at hlen
      simp only [List.length_nil, List.length_range', Nat.zero_add] at hlen
      have hlen : pushed.length ≤ 1 := Nat.le_trans hlen hcnt
      cases x with
      | error er => exact ⟨rfl, hlen, rfl⟩
      | ok buf => exact ⟨rfl, hlen, rfl⟩

theorem getBitmap_eq (e : Disk) : Fs.Prodos.getBitmap e = match openBitmap e with
    | (.ok _, e') => (match e'.bitmap with | some b => (.ok b, e') | none => (.error .panic, e'))
    | (.error er, e') => (.error er, e') := by
  unfold Fs.Prodos.getBitmap M.bind
  cases openBitmap e with
  | mk x e' =>
    cases x with
    | error er => rfl
    | ok u =>
      simp only [M.get, M.ofOption]
      cases e'.bitmap <;> rfl

theorem getBitmap_state (e : Disk) : (Fs.Prodos.getBitmap e).2 = (openBitmap e).2 := by
  rw [getBitmap_eq]
  cases openBitmap e with
  | mk x e' =>
    cases x with
    | error er => rfl
    | ok u =>
      simp only
      cases e'.bitmap <;> rfl

/-- `open_bitmap_buffer` / `get_bitmap_buffer` -/
theorem OResp.getBitmap : OResp Fs.Prodos.getBitmap := by
  constructor
  intro d o h
  cases hb : d.bitmap with
  | some b =>
    have hb' : o.bitmap = some b := by rw [h.bitmap, hb]
    have e1 : openBitmap d = (.ok (), d) := by unfold openBitmap; simp only [hb]
    have e2 : openBitmap o = (.ok (), o) := by unfold openBitmap; simp only [hb']
    rw [getBitmap_eq d, getBitmap_eq o, e1, e2]
    simp only [hb, hb']
    exact ⟨trivial, h⟩
  | none =>
    -- with the buffer closed the two objects are the same object
    have : o = d := disk_ext (h.closedEq hb) h.total h.bitmap h.blocks h.src
    subst this
    refine ⟨rfl, ?_⟩
    rw [getBitmap_state]
    obtain ⟨t, l, _⟩ := openBitmap_facts o h.one h.small
    exact OSim.refl _ (by rw [t]; exact h.pos) l (by rw [t]; exact h.small)

theorem OResp.setBitmap (buf : Array Nat) : OResp (setBitmap buf) := by
  constructor
  intro d o h
  unfold Fs.Prodos.setBitmap
  exact ⟨rfl, ⟨h.total, rfl, h.blocks, h.src, h.pos, h.one, h.small, h.ulen, h.size, h.off, fun hn => by cases hn⟩⟩

/-- `read_block` -/
theorem OResp.readBlock (i : Nat) : OResp (Fs.Prodos.readBlock i) := by
  have hg := OResp.getBitmap
  constructor
  intro d o h
  have key : ∀ e : Disk, Fs.Prodos.readBlock i e =
      if e.bitmapBlocks.contains i then
        (Fs.Prodos.getBitmap >>= fun buf =>
          if i < e.bitmapBlocks.headD 0 ∨ (i - e.bitmapBlocks.headD 0) * blockSize + blockSize > buf.size then M.fail .panic
          else Pure.pure ((buf.extract ((i - e.bitmapBlocks.headD 0) * blockSize) ((i - e.bitmapBlocks.headD 0) * blockSize + blockSize)).toList)) e
      else (imgRead e.raw i, e) := by
    intro e
    unfold Fs.Prodos.readBlock
    show M.bind M.get _ e = _
    unfold M.bind
    simp only [M.get]
    split <;> rfl
  rw [key d, key o, h.blocks]
  by_cases hc : d.bitmapBlocks.contains i = true
  · simp only [hc, if_true]
    exact (OResp.bind hg (fun buf => by
      apply OResp.ite
      · exact OResp.fail _
      · exact OResp.pure _)).out d o h
  · have hc' : d.bitmapBlocks.contains i = false := by simpa using hc
    simp only [hc', Bool.false_eq_true, if_false]
    refine ⟨?_, h⟩
    unfold imgRead
    rw [h.off i hc']

theorem single_of_contains {l : List Nat} {i u : Nat} (h1 : l.length ≤ 1) (hi : l.contains i = true) (hu : l.contains u = true) : u = i := by
  cases l with
  | nil => simp at hi
  | cons x xs =>
    have hxs : xs = [] := by
      cases xs with
      | nil => rfl
      | cons y ys => simp at h1
    subst hxs
    have a : i = x := by simpa using hi
    have b : u = x := by simpa using hu
    rw [a, b]

/-- `zap_block` in closed form -/
theorem zapBlock_eq (data : Bytes) (i offset : Nat) (e : Disk) : Fs.Prodos.zapBlock data i offset e =
    if data.length < offset then (.error .panic, e) else
    if i < e.raw.units.size then
      (.ok (), Disk.mk ⟨e.raw.unitLen, e.raw.units.setIfInBounds i (quantize (blockSlice data offset))⟩ e.total
                 (if e.bitmapBlocks.contains i then none else e.bitmap) e.bitmapBlocks e.src)
    else (.error .imgErr, Disk.mk e.raw e.total (if e.bitmapBlocks.contains i then none else e.bitmap) e.bitmapBlocks e.src) := by
  unfold Fs.Prodos.zapBlock imgWrite
  split
  · rfl
  · by_cases hc : e.bitmapBlocks.contains i = true
    · simp only [hc, if_true]
      by_cases hi : i < e.raw.units.size
      · simp only [if_pos hi]
      · simp only [if_neg hi]
    · have hc' : e.bitmapBlocks.contains i = false := by simpa using hc
      simp only [hc', Bool.false_eq_true, if_false]
      by_cases hi : i < e.raw.units.size
      · simp only [if_pos hi]
      · simp only [if_neg hi]

/-- `zap_block` -/
theorem OResp.zapBlock (data : Bytes) (i offset : Nat) : OResp (Fs.Prodos.zapBlock data i offset) := by
  constructor
  intro d o h
  rw [zapBlock_eq, zapBlock_eq, h.size, h.blocks, h.total, h.bitmap, h.ulen, h.src]
  by_cases hl : data.length < offset
  · simp only [if_pos hl]; exact ⟨trivial, h⟩
  · simp only [if_neg hl]
    by_cases hi : i < d.raw.units.size
    · simp only [if_pos hi]
      refine ⟨trivial, ⟨rfl, rfl, rfl, rfl, h.pos, h.one, h.small, rfl, by simp [h.size], ?_, ?_⟩⟩
      · intro u hu
        show (o.raw.units.setIfInBounds i _)[u]? = (d.raw.units.setIfInBounds i _)[u]?
        simp only [Array.getElem?_setIfInBounds, h.size]
        split
        · rfl
        · exact h.off u hu
      · intro hn
        show (⟨d.raw.unitLen, o.raw.units.setIfInBounds i _⟩ : Raw) = ⟨d.raw.unitLen, d.raw.units.setIfInBounds i _⟩
        congr 1
        apply Array.ext_getElem?
        intro u
        simp only [Array.getElem?_setIfInBounds, h.size]
        by_cases hu : i = u
        · simp [hu]
        · simp only [if_neg hu]
          by_cases hc : d.bitmapBlocks.contains i = true
          · -- the bitmap block is the only block in which the images could differ
            by_cases hcu : d.bitmapBlocks.contains u = true
            · exact absurd (single_of_contains h.one hc hcu).symm hu
            · exact h.off u (by simpa using hcu)
          · have hc' : d.bitmapBlocks.contains i = false := by simpa using hc
            simp only [hc', Bool.false_eq_true, if_false] at hn
            rw [h.closedEq hn]
    · simp only [if_neg hi]
      refine ⟨trivial, ⟨rfl, rfl, rfl, rfl, h.pos, h.one, h.small, h.ulen, h.size, h.off, ?_⟩⟩
      intro hn
      show o.raw = d.raw
      by_cases hc : d.bitmapBlocks.contains i = true
      · apply raw_ext h.ulen h.size
        intro u
        by_cases hcu : d.bitmapBlocks.contains u = true
        · have := single_of_contains h.one hc hcu
          subst this
          rw [Array.getElem?_eq_none (by rw [h.size]; omega), Array.getElem?_eq_none (by omega)]
        · exact h.off u (by simpa using hcu)
      · have hc' : d.bitmapBlocks.contains i = false := by simpa using hc
        simp only [hc', Bool.false_eq_true, if_false] at hn
        exact h.closedEq hn

theorem OResp.get_blocks {β : Type} {f : Disk → M β} (hf : ∀ d o, OSim d o → (f o o).1 = (f d d).1 ∧ OSim (f d d).2 (f o o).2) :
    OResp (M.get >>= f) := by
  constructor
  intro d o h
  exact hf d o h


/-- code following `M.get` that reads only `total_blocks`, the recorded bitmap blocks and the source variant -/
theorem OResp.get_bind {β : Type} {f : Disk → M β}
    (h : ∀ d o : Disk, o.total = d.total → o.bitmapBlocks = d.bitmapBlocks → o.src = d.src → f o = f d)
    (hf : ∀ d, OResp (f d)) : OResp (M.get >>= f) := by
  constructor
  intro d o hs
  have e1 : (M.get >>= f) d = f d d := rfl
  have e2 : (M.get >>= f) o = f o o := rfl
  rw [e1, e2, h d o hs.total hs.blocks hs.src]
  exact (hf d).out d o hs

/-- an object that carries only what code following `M.get` may read -/
def parDisk (t : Nat) (bl : List Nat) (sr : Repairs) : Disk := { raw := ⟨0, #[]⟩, total := t, bitmap := none, bitmapBlocks := bl, src := sr }

/-- the same, with the check "reads only these three fields" discharged by `rfl` at the use site -/
theorem OResp.get_bind_par {β : Type} {f : Disk → M β} (h : ∀ d : Disk, f d = f (parDisk d.total d.bitmapBlocks d.src))
    (hf : ∀ d, OResp (f d)) : OResp (M.get >>= f) := by
  apply OResp.get_bind _ hf
  intro d o ht hb hs
  rw [h o, h d, ht, hb, hs]

theorem OResp.allocate (i : Nat) : OResp (allocate i) := by
  unfold Fs.Prodos.allocate
  apply OResp.bind OResp.getBitmap
  intro buf
  split
  · exact OResp.fail _
  · exact OResp.setBitmap _

theorem OResp.deallocate (i : Nat) : OResp (deallocate i) := by
  unfold Fs.Prodos.deallocate
  apply OResp.bind OResp.getBitmap
  intro buf
  split
  · exact OResp.fail _
  · exact OResp.setBitmap _

theorem OResp.isBlockFree (i : Nat) : OResp (isBlockFree i) := by
  unfold Fs.Prodos.isBlockFree
  apply OResp.bind OResp.getBitmap
  intro buf
  split
  · exact OResp.fail _
  · exact OResp.pure _

theorem OResp.numFreeBlocks : OResp numFreeBlocks := by
  unfold Fs.Prodos.numFreeBlocks
  apply OResp.get_bind
  · intro d o ht _ _; simp only [ht]
  · intro d
    apply OResp.ite (OResp.pure _)
    exact OResp.bind OResp.getBitmap (fun buf => OResp.lift _)

theorem OResp.getAvailableBlock : OResp getAvailableBlock := by
  unfold Fs.Prodos.getAvailableBlock
  apply OResp.get_bind
  · intro d o ht _ _; simp only [ht]
  · intro d
    apply OResp.ite (OResp.pure _)
    exact OResp.bind OResp.getBitmap (fun buf => OResp.lift _)

/-- `write_block`: refused for a recorded bitmap block in both objects -/
theorem OResp.writeBlock (data : Bytes) (i offset : Nat) : OResp (writeBlock data i offset) := by
  unfold Fs.Prodos.writeBlock
  apply OResp.get_bind
  · intro d o _ hb _; simp only [hb]
  · intro d
    apply OResp.ite (OResp.fail _)
    exact OResp.bind (OResp.zapBlock _ _ _) (fun _ => OResp.allocate _)

/-! ## the object and its re-opened twin; saving -/

theorem osim_openTwin {d : Disk} {b : Array Nat} (h : Coh d) (hb : d.bitmap = some b) (ht : d.total < 4096) : OSim d (openTwin d b) := by
  obtain ⟨hl, _, _, _⟩ := h.buf b hb
  have hpos : 0 < d.total := by have := h.total; have := h.key; unfold volKeyBlock at *; omega
  refine ⟨rfl, hb.symm, hl.symm, rfl, hpos, by rw [hl, List.length_range']; exact bmCount_le_one ht, ht, (wbRaw_size _ _ _ _).2, flushed_size d b, ?_, ?_⟩
  · intro u hu
    rw [hl] at hu
    exact flushed_other b (by simpa using hu)
  · intro hn; rw [hb] at hn; cases hn

theorem osim_raw_eq {d o : Disk} (h : OSim d o) (hc : d.bitmap = none ∨ d.bitmapBlocks = []) : o.raw = d.raw := by
  cases hc with
  | inl h1 => exact h.closedEq h1
  | inr h1 =>
    apply raw_ext h.ulen h.size
    intro u
    exact h.off u (by rw [h1]; rfl)

theorem zapBlock_bitmap_none (data : Bytes) (i offset : Nat) (e : Disk) (hn : e.bitmap = none) :
    (Fs.Prodos.zapBlock data i offset e).2.bitmap = none := by
  rw [zapBlock_eq]
  have : (if e.bitmapBlocks.contains i = true then none else e.bitmap) = none := by rw [hn]; split <;> rfl
  split
  · exact hn
  · split <;> exact this

theorem forEach_zap_none (data : Bytes) (first : Nat) : ∀ (is : List Nat) (e : Disk), e.bitmap = none →
    (forEach (fun i => Fs.Prodos.zapBlock data i ((i - first) * blockSize)) is e).2.bitmap = none := by
  intro is
  induction is with
  | nil => intro e hn; exact hn
  | cons i is ih =>
    intro e hn
    unfold forEach M.bind
    have h1 := zapBlock_bitmap_none data i ((i - first) * blockSize) e hn
    rcases hz : Fs.Prodos.zapBlock data i ((i - first) * blockSize) e with ⟨x, e1⟩
    rw [hz] at h1
    cases x with
    | error er => exact h1
    | ok u => exact ih e1 h1

/-- after `writeback_bitmap_buffer` the buffer is closed or no bitmap block is recorded -/
theorem writeback_post (e : Disk) (hp : 0 < e.total) : (writeback e).2.bitmap = none ∨ (writeback e).2.bitmapBlocks = [] := by
  have hw : writeback e = (match e.bitmap with
      | none => (pure () : M Unit)
      | some buf => match e.bitmapBlocks with
        | [] => pure ()
        | first :: _ => forEach (fun i => Fs.Prodos.zapBlock buf.toList i ((i - first) * blockSize))
            (List.range' first e.bmCount)) e := rfl
  rw [hw]
  cases hb : e.bitmap with
  | none => exact Or.inl hb
  | some buf =>
    simp only
    cases hl : e.bitmapBlocks with
    | nil => exact Or.inr hl
    | cons first tl =>
      simp only
      left
      obtain ⟨n, hn⟩ : ∃ n, e.bmCount = n + 1 := ⟨e.bmCount - 1, by have := bmCount_pos hp; omega⟩
      rw [hn]
      show (forEach _ (first :: List.range' (first + 1) n) e).2.bitmap = none
      unfold forEach M.bind
      have hz : (Fs.Prodos.zapBlock buf.toList first ((first - first) * blockSize) e).2.bitmap = none := by
        rw [zapBlock_eq, Nat.sub_self, Nat.zero_mul, if_neg (Nat.not_lt_zero _)]
        have hc : e.bitmapBlocks.contains first = true := by rw [hl]; simp
        split <;> simp only [hc, if_true]
      rcases hzz : Fs.Prodos.zapBlock buf.toList first ((first - first) * blockSize) e with ⟨x, e1⟩
      rw [hzz] at hz
      cases x with
      | error er => exact hz
      | ok u => exact forEach_zap_none _ _ _ e1 hz

theorem OResp.forEach {α : Type} {f : α → M Unit} (hf : ∀ a, OResp (f a)) : ∀ (l : List α), OResp (forEach f l) := by
  intro l
  induction l with
  | nil => exact OResp.pure' _
  | cons a as ih => unfold Fs.Prodos.forEach; exact OResp.bind' (hf a) (fun _ => ih)

theorem OResp.writeback : OResp Fs.Prodos.writeback := by
  constructor
  intro d o h
  have hw : ∀ e : Disk, Fs.Prodos.writeback e = (match e.bitmap with
      | none => (Pure.pure () : M Unit)
      | some buf => match e.bitmapBlocks with
        | [] => Pure.pure ()
        | first :: _ => Fs.Prodos.forEach (fun i => Fs.Prodos.zapBlock buf.toList i ((i - first) * blockSize))
            (List.range' first e.bmCount)) e := fun _ => rfl
  have hbm : o.bmCount = d.bmCount := by unfold Disk.bmCount; rw [h.src, h.total]
  rw [hw d, hw o, h.bitmap, h.blocks, hbm]
  cases d.bitmap with
  | none => exact ⟨rfl, h⟩
  | some buf =>
    simp only
    cases d.bitmapBlocks with
    | nil => exact ⟨rfl, h⟩
    | cons first tl => exact (OResp.forEach (fun i => OResp.zapBlock _ _ _) _).out d o h

/-- objects related by `OSim` are saved to the same bytes -/
theorem save_osim {d o : Disk} (h : OSim d o) : save o = save d := by
  obtain ⟨e1, s1⟩ := OResp.writeback.out d o h
  have hr : (writeback o).2.raw = (writeback d).2.raw := osim_raw_eq s1 (writeback_post d h.pos)
  unfold save Disk.flush
  rcases hd : writeback d with ⟨x, d1⟩
  rcases ho : writeback o with ⟨x', o1⟩
  rw [hd, ho] at e1 hr
  simp only at e1 hr
  subst e1
  cases x' with
  | error e => rfl
  | ok u => simp only; rw [hr]

/-! ## the operations -/

attribute [local irreducible] Fs.Prodos.readBlock Fs.Prodos.getBitmap Fs.Prodos.numFreeBlocks Fs.Prodos.getAvailableBlock
  Fs.Prodos.zapBlock Fs.Prodos.writeBlock Fs.Prodos.allocate Fs.Prodos.deallocate Fs.Prodos.isBlockFree
  M.lift M.fail M.ofOption M.attempt M.pure M.get

syntax "oresp_step" : tactic
macro_rules | `(tactic| oresp_step) => `(tactic| first
  | exact OResp.pure _ | exact OResp.pure' _ | exact OResp.fail _ | exact OResp.lift _ | exact OResp.ofOption _
  | exact OResp.readBlock _ | exact OResp.getBitmap | exact OResp.numFreeBlocks | exact OResp.getAvailableBlock
  | exact OResp.zapBlock _ _ _ | exact OResp.writeBlock _ _ _ | exact OResp.allocate _ | exact OResp.deallocate _
  | exact OResp.isBlockFree _
  | (refine OResp.get_bind_par (fun d => rfl) (fun d => ?_))
  | apply OResp.bind
  | apply OResp.ite
  | apply OResp.attempt
  | intro _
  | split)
macro "oresp" : tactic => `(tactic| repeat' oresp_step)
macro "oresp_using " t:term : tactic => `(tactic| repeat' (first | exact $t | oresp_step))

theorem OResp.getVolHeader  : OResp (Fs.Prodos.getVolHeader ) := by
  unfold Fs.Prodos.getVolHeader; oresp
macro_rules | `(tactic| oresp_step) => `(tactic| exact OResp.getVolHeader )
attribute [local irreducible] Fs.Prodos.getVolHeader

theorem OResp.getDirectory (i : Nat) : OResp (Fs.Prodos.getDirectory i) := by
  unfold Fs.Prodos.getDirectory; oresp
macro_rules | `(tactic| oresp_step) => `(tactic| exact OResp.getDirectory _)
attribute [local irreducible] Fs.Prodos.getDirectory

theorem OResp.keyDirLoop  : ∀ (fuel curr : Nat), OResp (Fs.Prodos.keyDirLoop  fuel curr) := by
  intro fuel
  induction fuel with
  | zero => intro curr; unfold Fs.Prodos.keyDirLoop; oresp
  | succ n ih => intro curr; unfold Fs.Prodos.keyDirLoop; oresp_using (ih _)
macro_rules | `(tactic| oresp_step) => `(tactic| exact OResp.keyDirLoop _ _)
attribute [local irreducible] Fs.Prodos.keyDirLoop

theorem OResp.getKeyDirectory (ptr : Nat) : OResp (Fs.Prodos.getKeyDirectory ptr) := OResp.keyDirLoop 100 ptr
macro_rules | `(tactic| oresp_step) => `(tactic| exact OResp.getKeyDirectory _)
attribute [local irreducible] Fs.Prodos.getKeyDirectory

theorem OResp.readEntry (loc : Loc) : OResp (Fs.Prodos.readEntry loc) := by
  unfold Fs.Prodos.readEntry; oresp
macro_rules | `(tactic| oresp_step) => `(tactic| exact OResp.readEntry _)
attribute [local irreducible] Fs.Prodos.readEntry

theorem OResp.writeEntry (loc : Loc) (e : Bytes) : OResp (Fs.Prodos.writeEntry loc e) := by
  unfold Fs.Prodos.writeEntry; oresp
macro_rules | `(tactic| oresp_step) => `(tactic| exact OResp.writeEntry _ _)
attribute [local irreducible] Fs.Prodos.writeEntry

theorem OResp.expandLoop (parentLoc : Loc) (entry : Bytes) : ∀ (fuel curr : Nat), OResp (Fs.Prodos.expandLoop parentLoc entry fuel curr) := by
  intro fuel
  induction fuel with
  | zero => intro curr; unfold Fs.Prodos.expandLoop; oresp
  | succ n ih => intro curr; unfold Fs.Prodos.expandLoop; oresp_using (ih _)
macro_rules | `(tactic| oresp_step) => `(tactic| exact OResp.expandLoop _ _ _ _)
attribute [local irreducible] Fs.Prodos.expandLoop

theorem OResp.expandDirectory (parentLoc : Loc) : OResp (Fs.Prodos.expandDirectory parentLoc) := by
  unfold Fs.Prodos.expandDirectory; oresp
macro_rules | `(tactic| oresp_step) => `(tactic| exact OResp.expandDirectory _)
attribute [local irreducible] Fs.Prodos.expandDirectory

theorem OResp.availEntryLoop (keyBlock : Nat) : ∀ (fuel curr : Nat), OResp (Fs.Prodos.availEntryLoop keyBlock fuel curr) := by
  intro fuel
  induction fuel with
  | zero => intro curr; unfold Fs.Prodos.availEntryLoop; oresp
  | succ n ih => intro curr; unfold Fs.Prodos.availEntryLoop; oresp_using (ih _)
macro_rules | `(tactic| oresp_step) => `(tactic| exact OResp.availEntryLoop _ _ _)
attribute [local irreducible] Fs.Prodos.availEntryLoop

theorem OResp.getAvailableEntry (keyBlock : Nat) : OResp (Fs.Prodos.getAvailableEntry keyBlock) := OResp.availEntryLoop keyBlock 100 keyBlock
macro_rules | `(tactic| oresp_step) => `(tactic| exact OResp.getAvailableEntry _)
attribute [local irreducible] Fs.Prodos.getAvailableEntry

theorem OResp.searchLoop (types : List Nat) (nm : Bytes) : ∀ (fuel curr : Nat), OResp (Fs.Prodos.searchLoop types nm fuel curr) := by
  intro fuel
  induction fuel with
  | zero => intro curr; unfold Fs.Prodos.searchLoop; oresp
  | succ n ih => intro curr; unfold Fs.Prodos.searchLoop; oresp_using (ih _)
macro_rules | `(tactic| oresp_step) => `(tactic| exact OResp.searchLoop _ _ _ _)
attribute [local irreducible] Fs.Prodos.searchLoop

theorem OResp.searchEntries (types : List Nat) (nm : Bytes) (k : Nat) : OResp (Fs.Prodos.searchEntries types nm k) := by
  unfold Fs.Prodos.searchEntries; oresp
macro_rules | `(tactic| oresp_step) => `(tactic| exact OResp.searchEntries _ _ _)
attribute [local irreducible] Fs.Prodos.searchEntries

theorem OResp.walkLoop (types : List Nat) (nodes : List Bytes) (n : Nat) : ∀ (l : List Nat) (curr : Nat), OResp (Fs.Prodos.walkLoop types nodes n l curr) := by
  intro l
  induction l with
  | nil => intro curr; unfold Fs.Prodos.walkLoop; oresp
  | cons x xs ih => intro curr; unfold Fs.Prodos.walkLoop; oresp_using (ih _)
macro_rules | `(tactic| oresp_step) => `(tactic| exact OResp.walkLoop _ _ _ _ _)
attribute [local irreducible] Fs.Prodos.walkLoop

theorem OResp.searchVolume (types : List Nat) (path : Bytes) : OResp (Fs.Prodos.searchVolume types path) := by
  unfold Fs.Prodos.searchVolume; oresp
macro_rules | `(tactic| oresp_step) => `(tactic| exact OResp.searchVolume _ _)
attribute [local irreducible] Fs.Prodos.searchVolume

theorem OResp.findFile (path : Bytes) : OResp (Fs.Prodos.findFile path) := OResp.searchVolume _ _
macro_rules | `(tactic| oresp_step) => `(tactic| exact OResp.findFile _)
attribute [local irreducible] Fs.Prodos.findFile

theorem OResp.findDirKeyBlock (path : Bytes) : OResp (Fs.Prodos.findDirKeyBlock path) := by
  unfold Fs.Prodos.findDirKeyBlock; oresp
macro_rules | `(tactic| oresp_step) => `(tactic| exact OResp.findDirKeyBlock _)
attribute [local irreducible] Fs.Prodos.findDirKeyBlock

theorem OResp.readIndexLoop (ib : Bytes) (base : Nat) : ∀ (l : List Nat) , OResp (Fs.Prodos.readIndexLoop ib base l ) := by
  intro l
  induction l with
  | nil => unfold Fs.Prodos.readIndexLoop; oresp
  | cons x xs ih => unfold Fs.Prodos.readIndexLoop; oresp_using ih
macro_rules | `(tactic| oresp_step) => `(tactic| exact OResp.readIndexLoop _ _ _)
attribute [local irreducible] Fs.Prodos.readIndexLoop

theorem OResp.readIndexBlock (p base : Nat) : OResp (Fs.Prodos.readIndexBlock p base) := by
  unfold Fs.Prodos.readIndexBlock; oresp
macro_rules | `(tactic| oresp_step) => `(tactic| exact OResp.readIndexBlock _ _)
attribute [local irreducible] Fs.Prodos.readIndexBlock

theorem OResp.readMasterLoop (mb : Bytes) : ∀ (l : List Nat) , OResp (Fs.Prodos.readMasterLoop mb l ) := by
  intro l
  induction l with
  | nil => unfold Fs.Prodos.readMasterLoop; oresp
  | cons x xs ih => unfold Fs.Prodos.readMasterLoop; oresp_using ih
macro_rules | `(tactic| oresp_step) => `(tactic| exact OResp.readMasterLoop _ _)
attribute [local irreducible] Fs.Prodos.readMasterLoop

theorem OResp.readFile (e : Bytes) : OResp (Fs.Prodos.readFile e) := by
  unfold Fs.Prodos.readFile; oresp
macro_rules | `(tactic| oresp_step) => `(tactic| exact OResp.readFile _)
attribute [local irreducible] Fs.Prodos.readFile

theorem OResp.get (path : Bytes) : OResp (Fs.Prodos.get path) := by
  unfold Fs.Prodos.get; oresp

theorem OResp.deallocPtrs (blk : Bytes) : ∀ (l : List Nat) , OResp (Fs.Prodos.deallocPtrs blk l ) := by
  intro l
  induction l with
  | nil => unfold Fs.Prodos.deallocPtrs; oresp
  | cons x xs ih => unfold Fs.Prodos.deallocPtrs; oresp_using ih
macro_rules | `(tactic| oresp_step) => `(tactic| exact OResp.deallocPtrs _ _)
attribute [local irreducible] Fs.Prodos.deallocPtrs

theorem OResp.deallocIndexBlock (p : Nat) : OResp (Fs.Prodos.deallocIndexBlock p) := by
  unfold Fs.Prodos.deallocIndexBlock; oresp
macro_rules | `(tactic| oresp_step) => `(tactic| exact OResp.deallocIndexBlock _)
attribute [local irreducible] Fs.Prodos.deallocIndexBlock

theorem OResp.deallocMasterLoop (mb : Bytes) : ∀ (l : List Nat) , OResp (Fs.Prodos.deallocMasterLoop mb l ) := by
  intro l
  induction l with
  | nil => unfold Fs.Prodos.deallocMasterLoop; oresp
  | cons x xs ih => unfold Fs.Prodos.deallocMasterLoop; oresp_using ih
macro_rules | `(tactic| oresp_step) => `(tactic| exact OResp.deallocMasterLoop _ _)
attribute [local irreducible] Fs.Prodos.deallocMasterLoop

theorem OResp.deallocFileBlocks (e : Bytes) : OResp (Fs.Prodos.deallocFileBlocks e) := by
  unfold Fs.Prodos.deallocFileBlocks; oresp
macro_rules | `(tactic| oresp_step) => `(tactic| exact OResp.deallocFileBlocks _)
attribute [local irreducible] Fs.Prodos.deallocFileBlocks

theorem OResp.dirDeleteLoop (dirNext : Nat) {finish : M Unit} (hf : OResp finish) : ∀ (fuel next : Nat),
    OResp (Fs.Prodos.dirDeleteLoop dirNext finish fuel next) := by
  intro fuel
  induction fuel with
  | zero => intro next; unfold Fs.Prodos.dirDeleteLoop; oresp
  | succ n ih => intro next; unfold Fs.Prodos.dirDeleteLoop; repeat' (first | exact hf | exact ih _ | oresp_step)

theorem OResp.dirDeleteLoopFixed {finish : M Unit} (hf : OResp finish) : ∀ (fuel next link : Nat),
    OResp (Fs.Prodos.dirDeleteLoopFixed finish fuel next link) := by
  intro fuel
  induction fuel with
  | zero => intro next link; unfold Fs.Prodos.dirDeleteLoopFixed; oresp
  | succ n ih => intro next link; unfold Fs.Prodos.dirDeleteLoopFixed; repeat' (first | exact hf | exact ih _ _ | oresp_step)
macro_rules | `(tactic| oresp_step) => `(tactic| apply OResp.dirDeleteLoop)
macro_rules | `(tactic| oresp_step) => `(tactic| apply OResp.dirDeleteLoopFixed)
attribute [local irreducible] Fs.Prodos.dirDeleteLoop Fs.Prodos.dirDeleteLoopFixed

theorem OResp.delete (path : Bytes) (rp : Repairs) : OResp (Fs.Prodos.delete path rp) := by
  unfold Fs.Prodos.delete; oresp

theorem OResp.modify (loc : Loc) (lock : Option Bool) (nn : Option Bytes) (nt : Option (Option Nat)) (na : Option Nat) : OResp (Fs.Prodos.modify loc lock nn nt na) := by
  unfold Fs.Prodos.modify; oresp
macro_rules | `(tactic| oresp_step) => `(tactic| exact OResp.modify _ _ _ _ _)
attribute [local irreducible] Fs.Prodos.modify

theorem OResp.okToRename (path nn : Bytes) : OResp (Fs.Prodos.okToRename path nn) := by
  unfold Fs.Prodos.okToRename; oresp
macro_rules | `(tactic| oresp_step) => `(tactic| exact OResp.okToRename _ _)
attribute [local irreducible] Fs.Prodos.okToRename

theorem OResp.rename (path nn : Bytes) : OResp (Fs.Prodos.rename path nn) := by
  unfold Fs.Prodos.rename; oresp

theorem OResp.lock (path : Bytes) : OResp (Fs.Prodos.lock path) := by
  unfold Fs.Prodos.lock; oresp

theorem OResp.unlock (path : Bytes) : OResp (Fs.Prodos.unlock path) := by
  unfold Fs.Prodos.unlock; oresp

theorem OResp.retype (path : Bytes) (nt : Option Nat) (aux : Option Nat) : OResp (Fs.Prodos.retype path nt aux) := by
  unfold Fs.Prodos.retype; oresp

theorem OResp.prepareToWrite (path : Bytes) : OResp (Fs.Prodos.prepareToWrite path) := by
  unfold Fs.Prodos.prepareToWrite; oresp
macro_rules | `(tactic| oresp_step) => `(tactic| exact OResp.prepareToWrite _)
attribute [local irreducible] Fs.Prodos.prepareToWrite

theorem OResp.writeDataBlockOrNot (count end_ : Nat) (ent : Bytes) (bm : Option Bytes) : OResp (Fs.Prodos.writeDataBlockOrNot count end_ ent bm) := by
  unfold Fs.Prodos.writeDataBlockOrNot; oresp
macro_rules | `(tactic| oresp_step) => `(tactic| exact OResp.writeDataBlockOrNot _ _ _ _)
attribute [local irreducible] Fs.Prodos.writeDataBlockOrNot

theorem OResp.availOrPanic  : OResp (Fs.Prodos.availOrPanic ) := by
  unfold Fs.Prodos.availOrPanic; oresp
macro_rules | `(tactic| oresp_step) => `(tactic| exact OResp.availOrPanic )
attribute [local irreducible] Fs.Prodos.availOrPanic

theorem OResp.wfStep (f : FImg) (end_ count : Nat) (s : WS) : OResp (Fs.Prodos.wfStep f end_ count s) := by
  unfold Fs.Prodos.wfStep; oresp
macro_rules | `(tactic| oresp_step) => `(tactic| exact OResp.wfStep _ _ _ _)
attribute [local irreducible] Fs.Prodos.wfStep

theorem OResp.wfLoop (f : FImg) (end_ : Nat) : ∀ (l : List Nat) (s : WS), OResp (Fs.Prodos.wfLoop f end_ l s) := by
  intro l
  induction l with
  | nil => intro s; unfold Fs.Prodos.wfLoop; oresp
  | cons x xs ih => intro s; unfold Fs.Prodos.wfLoop; oresp_using (ih _)
macro_rules | `(tactic| oresp_step) => `(tactic| exact OResp.wfLoop _ _ _ _)
attribute [local irreducible] Fs.Prodos.wfLoop

theorem OResp.writeFile (loc : Loc) (f : FImg) : OResp (Fs.Prodos.writeFile loc f) := by
  unfold Fs.Prodos.writeFile; oresp
macro_rules | `(tactic| oresp_step) => `(tactic| exact OResp.writeFile _ _)
attribute [local irreducible] Fs.Prodos.writeFile

theorem OResp.put (f : FImg) (time : Bytes) (rp : Repairs) : OResp (Fs.Prodos.put f time rp) := by
  unfold Fs.Prodos.put; oresp

theorem OResp.mkdir (path time : Bytes) : OResp (Fs.Prodos.mkdir path time) := by
  unfold Fs.Prodos.mkdir; oresp

theorem OResp.statFree  : OResp (Fs.Prodos.statFree ) := by
  unfold Fs.Prodos.statFree; oresp

theorem OResp.catalogLoop  : ∀ (fuel curr : Nat), OResp (Fs.Prodos.catalogLoop  fuel curr) := by
  intro fuel
  induction fuel with
  | zero => intro curr; unfold Fs.Prodos.catalogLoop; oresp
  | succ n ih => intro curr; unfold Fs.Prodos.catalogLoop; oresp_using (ih _)
macro_rules | `(tactic| oresp_step) => `(tactic| exact OResp.catalogLoop _ _)
attribute [local irreducible] Fs.Prodos.catalogLoop

theorem OResp.catalog (path : Bytes) : OResp (Fs.Prodos.catalog path) := by
  unfold Fs.Prodos.catalog; oresp

/-! ## operations and histories -/

/-- the operations of the ProDOS model, queries included (`format` apart) -/
inductive Op where
  | put (f : FImg) (time : Bytes) (rp : Repairs)
  | delete (path : Bytes) (rp : Repairs)
  | rename (path name : Bytes)
  | lock (path : Bytes)
  | unlock (path : Bytes)
  | retype (path : Bytes) (ty aux : Option Nat)
  | mkdir (path time : Bytes)
  | get (path : Bytes)
  | catalog (path : Bytes)
  | statFree

/-- what an operation answers -/
inductive Out where
  | unit (x : R Unit)
  | nat (x : R Nat)
  | got (x : R Got)
  | rows (x : R (List (Bytes × Nat × Nat)))

/-- run one operation: answer and object afterwards -/
def Op.run (d : Disk) : Op → Out × Disk
  | .put f t rp => let x := Fs.Prodos.put f t rp d; (.nat x.1, x.2)
  | .delete p rp => let x := Fs.Prodos.delete p rp d; (.unit x.1, x.2)
  | .rename p n => let x := Fs.Prodos.rename p n d; (.unit x.1, x.2)
  | .lock p => let x := Fs.Prodos.lock p d; (.unit x.1, x.2)
  | .unlock p => let x := Fs.Prodos.unlock p d; (.unit x.1, x.2)
  | .retype p t a => let x := Fs.Prodos.retype p t a d; (.unit x.1, x.2)
  | .mkdir p t => let x := Fs.Prodos.mkdir p t d; (.unit x.1, x.2)
  | .get p => let x := Fs.Prodos.get p d; (.got x.1, x.2)
  | .catalog p => let x := Fs.Prodos.catalog p d; (.rows x.1, x.2)
  | .statFree => let x := Fs.Prodos.statFree d; (.nat x.1, x.2)

theorem op_osim {d o : Disk} (h : OSim d o) (op : Op) : (op.run o).1 = (op.run d).1 ∧ OSim (op.run d).2 (op.run o).2 := by
  cases op with
  | put f t rp => obtain ⟨e, s⟩ := (OResp.put f t rp).out d o h; exact ⟨congrArg Out.nat e, s⟩
  | delete p rp => obtain ⟨e, s⟩ := (OResp.delete p rp).out d o h; exact ⟨congrArg Out.unit e, s⟩
  | rename p n => obtain ⟨e, s⟩ := (OResp.rename p n).out d o h; exact ⟨congrArg Out.unit e, s⟩
  | lock p => obtain ⟨e, s⟩ := (OResp.lock p).out d o h; exact ⟨congrArg Out.unit e, s⟩
  | unlock p => obtain ⟨e, s⟩ := (OResp.unlock p).out d o h; exact ⟨congrArg Out.unit e, s⟩
  | retype p t a => obtain ⟨e, s⟩ := (OResp.retype p t a).out d o h; exact ⟨congrArg Out.unit e, s⟩
  | mkdir p t => obtain ⟨e, s⟩ := (OResp.mkdir p t).out d o h; exact ⟨congrArg Out.unit e, s⟩
  | get p => obtain ⟨e, s⟩ := (OResp.get p).out d o h; exact ⟨congrArg Out.got e, s⟩
  | catalog p => obtain ⟨e, s⟩ := (OResp.catalog p).out d o h; exact ⟨congrArg Out.rows e, s⟩
  | statFree => obtain ⟨e, s⟩ := OResp.statFree.out d o h; exact ⟨congrArg Out.nat e, s⟩

/-- run a list of operations -/
def exec : Disk → List Op → List Out × Disk
  | d, [] => ([], d)
  | d, op :: rest => let x := op.run d; let y := exec x.2 rest; (x.1 :: y.1, y.2)

theorem exec_osim : ∀ (ops : List Op) {d o : Disk}, OSim d o → (exec o ops).1 = (exec d ops).1 ∧ OSim (exec d ops).2 (exec o ops).2 := by
  intro ops
  induction ops with
  | nil => intro d o h; exact ⟨rfl, h⟩
  | cons op rest ih =>
    intro d o h
    obtain ⟨e, s⟩ := op_osim h op
    obtain ⟨e2, s2⟩ := ih s
    refine ⟨?_, s2⟩
    show (op.run o).1 :: (exec (op.run o).2 rest).1 = (op.run d).1 :: (exec (op.run d).2 rest).1
    rw [e, e2]

end A2Verif.Reload.Prodos
