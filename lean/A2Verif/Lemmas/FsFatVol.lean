import A2Verif.Lemmas.FsFatDel
/-!
# The reading of a state as a function of the per-entry readings of its root directory; the free list

`readFrom_iff`: the reading succeeds iff the `mapM` of the per-entry reading over the reader's entries succeeds, and
then it is `mkVol` of the flattened records.  `mem_freeUnitsOf`/`freeUnitsOf_nodup`: the free list of the reading is
the list of data clusters whose FAT entry is 0, without repetition.
-/
namespace A2Verif.FsFat
open A2Verif A2Verif.Fs.Fat A2Verif.Read.Fat A2Verif.Read.FatT

/-- the volume the reader reports for the records `files` -/
def mkVol (b : Fs.Fat.Bpb) (f : Array Nat) (files : List FileRec) : Vol :=
  { lo := 2, hi := hiOf b, sys := [], files := files, freeUnits := freeUnitsOf b f }

/-- the per-entry reading of the root directory of state `d` under the FAT `f` -/
def rd (d : Disk) (f : Array Nat) : Bytes → Except String (List FileRec) :=
  rdEnt d.raw (rbpb d.bpb) f false (hiOf d.bpb) 32 []

theorem readFrom_iff {d : Disk} {f : Array Nat} {buf : Bytes} {v : Vol} :
    readFrom d f buf = .ok v ↔ ∃ R, (dirEnts buf).mapM (rd d f) = .ok R ∧ v = mkVol d.bpb f R.flatten := by
  unfold readFrom rd
  rw [readDirT_succ]
  cases hm : (dirEnts buf).mapM (rdEnt d.raw (rbpb d.bpb) f false (hiOf d.bpb) 32 []) with
  | error er =>
    simp only [bind, Except.bind, Except.map]
    constructor
    · intro h; cases h
    · rintro ⟨R, h, _⟩; cases h
  | ok R =>
    simp only [bind, Except.bind, pure, Except.pure, Except.map]
    constructor
    · intro h
      injection h with h
      exact ⟨R, rfl, h.symm⟩
    · rintro ⟨R', h, hv⟩
      injection h with h
      subst h
      rw [hv]
      rfl

theorem mem_freeUnitsOf {b : Fs.Fat.Bpb} {f : Array Nat} {x : Nat} :
    x ∈ freeUnitsOf b f ↔ (2 ≤ x ∧ x < 2 + b.clusterCountUsable) ∧ nxt f x = 0 := by
  unfold freeUnitsOf
  simp only [List.mem_filter, List.mem_map, List.mem_range, fatEntry_eq, decide_eq_true_eq]
  constructor
  · rintro ⟨⟨k, hk, rfl⟩, h⟩; exact ⟨⟨by omega, by omega⟩, h⟩
  · rintro ⟨⟨h1, h2⟩, h⟩; exact ⟨⟨x - 2, by omega, by omega⟩, h⟩

theorem freeUnitsOf_nodup (b : Fs.Fat.Bpb) (f : Array Nat) : (freeUnitsOf b f).Nodup := by
  unfold freeUnitsOf
  apply List.Nodup.sublist List.filter_sublist
  have : (List.range b.clusterCountUsable).map (· + 2) = List.range' 2 b.clusterCountUsable := by
    rw [range'_eq_map]
    apply List.map_congr_left
    intro k _; omega
  rw [this]
  exact List.nodup_range' 1

theorem mem_range_iff {lo hi x : Nat} : x ∈ Vol.range lo hi ↔ lo ≤ x ∧ x < hi := by
  unfold Vol.range
  simp only [List.mem_map, List.mem_range]
  constructor
  · rintro ⟨k, hk, rfl⟩; omega
  · rintro ⟨h1, h2⟩; exact ⟨x - lo, by omega, by omega⟩

/-- the reading of a volume without files whose FAT marks every data cluster free is well formed and leak free -/
theorem mkVol_empty {b : Fs.Fat.Bpb} {f : Array Nat} (hfree : ∀ m, 2 ≤ m → nxt f m = 0) :
    (mkVol b f []).wfB = true ∧ (mkVol b f []).noLeak = true := by
  constructor
  · rw [wfB_iff]
    refine ⟨by simp [mkVol, Vol.allOwned], by simp [mkVol, Vol.allOwned], by simp [mkVol, Vol.allOwned], by simp [mkVol],
      ⟨freeUnitsOf_nodup b f, ?_⟩, by simp [mkVol], by simp [mkVol]⟩
    intro u hu
    have := (mem_freeUnitsOf.mp hu).1
    exact ⟨this.1, this.2⟩
  · unfold Vol.noLeak
    rw [List.all_eq_true]
    intro u hu
    have hu' := mem_range_iff.mp hu
    have : u ∈ freeUnitsOf b f := mem_freeUnitsOf.mpr ⟨⟨hu'.1, hu'.2⟩, hfree u hu'.1⟩
    simp only [Bool.or_eq_true, List.contains_iff_mem]
    exact Or.inr this

end A2Verif.FsFat
