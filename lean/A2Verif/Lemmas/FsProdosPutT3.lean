import A2Verif.Lemmas.FsProdosPutT2
/-!
# `write_file`: one round of the loop while the file is a tree

`tree_core`: the body of a tree round once a full group has been closed (`index_count < 256`): an index block is taken when
the group gets its first chunk, the data block (or hole), the pointer into the index buffer, the index block, the pointer
into the master index buffer, the master index block.
-/
namespace A2Verif.FsProdos
open A2Verif.Fs.Prodos
open A2Verif.Read.Prodos (entryAt dirChain idxPtr indexEntries readData trimName)

theorem tree_core {f : FImg} {d2 : Disk} {bm cnt : Nat} {e0 : Bytes} {c : Nat} {s : WS} {dn : Disk} {Al : List Nat}
    {G : List (Nat × List Nat)} {P : List Nat} (ctx : LoopCtx d2 bm cnt) (inv : TreeInv f d2 bm cnt e0 c s dn Al G P)
    (hic : s.indexCount < 256) (hmc : s.masterCount ≤ 127)
    (hfit : allocCount f (c + 1) ≤ (freeBlocks (effBuf d2 bm cnt) d2.total).length)
    (hbytes : ∀ k data, f.chunks.lookup k = some data → ∀ x ∈ data, x < 256) (end_ : Nat) :
    ∃ ip' e1 d1 p e2 dw ib1 d3 mb1 d4 Al',
      ((s.indexPtr = 0 ∧ (f.chunks.lookup c).isSome = true ∧
          ∃ dA, availOrPanic dn = (.ok ip', dA) ∧ allocate ip' dA = (.ok (), d1) ∧ e1 = Ent.incBlocks s.entry) ∨
       (¬ (s.indexPtr = 0 ∧ (f.chunks.lookup c).isSome = true) ∧ ip' = s.indexPtr ∧ e1 = s.entry ∧ d1 = dn)) ∧
      writeDataBlockOrNot c end_ e1 (f.chunks.lookup c) d1 = (.ok (p, e2), dw) ∧
      packIndexPtr s.indexBuf p s.indexCount = some ib1 ∧
      ((0 < ip' ∧ writeBlock ib1 ip' 0 dw = (.ok (), d3)) ∨ (ip' = 0 ∧ d3 = dw)) ∧
      packIndexPtr s.masterBuf ip' s.masterCount = some mb1 ∧
      writeBlock mb1 s.masterPtr 0 d3 = (.ok (), d4) ∧
      TreeInv f d2 bm cnt e0 (c + 1)
        { s with entry := e2, indexPtr := ip', indexBuf := ib1, masterBuf := mb1, indexCount := s.indexCount + 1 } d4 Al' G (P ++ [p]) := by
  have hF := freeBlocks_lt (effBuf d2 bm cnt) d2.total ctx.tot0 ctx.zero
  have h16 := ctx.tot16
  have hcc := inv.cc
  have hc256 := inv.c256
  have hmc1 := inv.mc1
  have hdiv : c / 256 = s.masterCount := by rw [hcc]; omega
  have hstep := allocCount_succ_tree f c hc256
  rw [hdiv] at hstep
  have hacount := inv.acount
  -- the current group has a chunk so far iff it has an index block
  have hgrp : s.masterCount ∈ grp f c ↔ s.indexPtr ≠ 0 := by
    rw [mem_grp]
    constructor
    · rintro ⟨k, hk1, hk2, hk3, hk4⟩ h0
      have hkl : k - 256 * s.masterCount < P.length := by rw [inv.plen]; omega
      unfold hasChunk at hk3
      cases hl : f.chunks.lookup k with
      | none => rw [hl] at hk3; cases hk3
      | some data =>
        have := (inv.gcur.dat (k - 256 * s.masterCount) hkl data (by rw [show 256 * s.masterCount + (k - 256 * s.masterCount) = k by omega]; exact hl)).1
        exact this (inv.gcur.zero h0 _ (getD_mem_of_lt _ _ hkl))
    · intro h0
      obtain ⟨k, hk, hh⟩ := inv.csome h0
      rw [inv.plen] at hk
      exact ⟨256 * s.masterCount + k, by omega, by omega, hh, by omega⟩
  have hMAl : s.masterPtr ∈ Al := (inv.ownAl _).mp List.mem_cons_self
  have hnzAl : ∀ x ∈ Al, x ≠ 0 ∧ x < d2.total := by
    intro x hx
    obtain ⟨h1, h2⟩ := inv.a.alfree x hx
    exact ⟨fun e => (by rw [e, ctx.zero] at h1; cases h1), h2⟩
  -- A: the index block of the group, if it is the group's first chunk
  obtain ⟨ip', e1, d1, Al1, hA, a1, hAl1, hraw1, ent1, hip'Al, hip'0, hip'new⟩ :
      ∃ ip' e1 d1 Al1,
        ((s.indexPtr = 0 ∧ (f.chunks.lookup c).isSome = true ∧
            ∃ dA, availOrPanic dn = (.ok ip', dA) ∧ allocate ip' dA = (.ok (), d1) ∧ e1 = Ent.incBlocks s.entry) ∨
         (¬ (s.indexPtr = 0 ∧ (f.chunks.lookup c).isSome = true) ∧ ip' = s.indexPtr ∧ e1 = s.entry ∧ d1 = dn)) ∧
        AState d2 bm cnt d1 Al1 ∧
        Al1 = Al ++ (if s.indexPtr = 0 ∧ (f.chunks.lookup c).isSome = true then [ip'] else []) ∧
        d1.raw = dn.raw ∧ EFacts e0 e1 3 s.masterPtr Al1.length ∧ (ip' ≠ 0 → ip' ∈ Al1) ∧
        (ip' = 0 ↔ (s.indexPtr = 0 ∧ (f.chunks.lookup c).isSome = false)) ∧
        (s.indexPtr ≠ 0 → ip' = s.indexPtr) := by
    by_cases hq : s.indexPtr = 0 ∧ (f.chunks.lookup c).isSome = true
    · have hh : hasChunk f c = true := hq.2
      have hng : s.masterCount ∉ grp f c := fun h => (hgrp.mp h) hq.1
      rw [if_pos hh, if_pos ⟨hh, hng⟩] at hstep
      obtain ⟨q, dA, d1, hav, hal, a1, hraw1, hql, hqf, hqn⟩ := astate_reserve ctx inv.a (by omega)
      have hq0 : q ≠ 0 := fun e => by rw [e, ctx.zero] at hqf; cases hqf
      refine ⟨q, Ent.incBlocks s.entry, d1, Al ++ [q], Or.inl ⟨hq.1, hq.2, dA, hav, hal, rfl⟩, a1, by rw [if_pos hq], hraw1, ?_,
        fun _ => List.mem_append_right _ (List.mem_singleton.mpr rfl), ?_, fun h => absurd hq.1 h⟩
      · rw [List.length_append]; exact inv.ent.incBlocks (by omega)
      · constructor
        · intro e; exact absurd e hq0
        · rintro ⟨_, h2⟩; rw [hq.2] at h2; cases h2
    · refine ⟨s.indexPtr, s.entry, dn, Al, Or.inr ⟨hq, rfl, rfl, rfl⟩, inv.a, by rw [if_neg hq, List.append_nil], rfl, inv.ent,
        fun h => inv.gcur.ipal h, ?_, fun _ => rfl⟩
      constructor
      · intro e
        refine ⟨e, ?_⟩
        cases h : (f.chunks.lookup c).isSome with
        | false => rfl
        | true => exact absurd ⟨e, h⟩ hq
      · rintro ⟨h1, _⟩; exact h1
  have hlenA : Al1.length = Al.length + (if s.indexPtr = 0 ∧ (f.chunks.lookup c).isSome = true then 1 else 0) := by
    rw [hAl1, List.length_append]; split <;> rfl
  -- B: the data block
  obtain ⟨p, e2, dw, Al2, hw, w, hef⟩ := wdb_any ctx a1 (f.chunks.lookup c) (by
    intro h
    have hh : hasChunk f c = true := h
    rw [if_pos hh] at hstep
    by_cases hq : s.indexPtr = 0
    · have hng : s.masterCount ∉ grp f c := fun h' => (hgrp.mp h') hq
      rw [if_pos ⟨hh, hng⟩] at hstep
      rw [hlenA, if_pos ⟨hq, h⟩]; omega
    · rw [hlenA, if_neg (fun h' => hq h'.1)]; omega) (hbytes c) c end_ e1
  have hlenB : Al2.length = Al1.length + (if p = 0 then 0 else 1) := by
    rw [w.al, List.length_append]; split <;> rfl
  have hAl2eq : Al2.length = allocCount f (c + 1) := by
    rw [hlenB, hlenA, hstep, hacount]
    cases hl : f.chunks.lookup c with
    | none =>
      have : p = 0 := w.none hl
      have hh : hasChunk f c = false := by unfold hasChunk; rw [hl]; rfl
      simp [this, hh]
    | some data =>
      have hh : hasChunk f c = true := by unfold hasChunk; rw [hl]; rfl
      have hp0 := (w.some data hl).1
      simp only [hh, hp0, ↓reduceIte, true_and, Option.isSome_some, and_true]
      by_cases hq : s.indexPtr = 0
      · have hng : s.masterCount ∉ grp f c := fun h' => (hgrp.mp h') hq
        simp [hq, hng]
      · have hg : s.masterCount ∈ grp f c := hgrp.mpr hq
        simp [hq, hg]
  have hAl2le : Al2.length ≤ allocCount f (c + 1) := Nat.le_of_eq hAl2eq
  have ent2 := hef e0 3 s.masterPtr Al1.length ent1 (by
    have : Al1.length ≤ Al2.length := by rw [hlenB]; omega
    omega)
  rw [← hlenB] at ent2
  have hp16 : p < 65536 := by
    cases hl : f.chunks.lookup c with
    | none => rw [w.none hl]; decide
    | some data => have := (w.some data hl).2.1; omega
  have hAlsub1 : ∀ x ∈ Al, x ∈ Al1 := fun x hx => by rw [hAl1]; exact List.mem_append_left _ hx
  have hAlsub2 : ∀ x ∈ Al1, x ∈ Al2 := fun x hx => by rw [w.al]; exact List.mem_append_left _ hx
  -- C: the pointer into the index buffer
  obtain ⟨ib1, hpack, hib1⟩ := pack_append s.indexBuf P p inv.ibuf (by rw [inv.plen]; exact hic) hp16
  rw [inv.plen] at hpack
  -- D: the index block
  obtain ⟨d3, hD, a3, hu3, ho3⟩ : ∃ d3, ((0 < ip' ∧ writeBlock ib1 ip' 0 dw = (.ok (), d3)) ∨ (ip' = 0 ∧ d3 = dw)) ∧
      AState d2 bm cnt d3 Al2 ∧ (ip' ≠ 0 → unitAt d3.raw ip' = ib1) ∧
      (∀ j, j ≠ ip' → d3.raw.units[j]? = dw.raw.units[j]?) := by
    by_cases h0 : ip' = 0
    · exact ⟨dw, Or.inr ⟨h0, rfl⟩, w.a, fun h => absurd h0 h, fun _ _ => rfl⟩
    · obtain ⟨d3, hwb, a3, hu3, ho3⟩ := astate_rewrite ctx w.a ip' (hAlsub2 _ (hip'Al h0)) ib1 hib1.bytes
      refine ⟨d3, Or.inl ⟨by omega, hwb⟩, a3, fun _ => ?_, ho3⟩
      rw [hu3, List.take_of_length_le (by rw [hib1.len]; decide), quantize_full _ hib1.len]
  -- E: the pointer into the master index buffer
  have hip'16 : ip' < 65536 := by
    by_cases h0 : ip' = 0
    · rw [h0]; decide
    · have := (a1.alfree ip' (hip'Al h0)).2; omega
  obtain ⟨mb1, hpm, hmb1⟩ := pack_last s.masterBuf (G.map (·.1)) s.indexPtr ip' inv.mbuf
    (by rw [List.length_map, inv.gl]; omega) hip'16
  rw [List.length_map, inv.gl] at hpm
  -- F: the master index block
  obtain ⟨d4, hwm, a4, hu4, ho4⟩ := astate_rewrite ctx a3 s.masterPtr (hAlsub2 _ (hAlsub1 _ hMAl)) mb1 hmb1.bytes
  -- blocks taken before this round, other than the master index block and the group's index block, are untouched
  have hpnew : p ≠ 0 → p ∉ Al1 := by
    intro hp0
    cases hl : f.chunks.lookup c with
    | none => exact absurd (w.none hl) hp0
    | some data => exact (w.some data hl).2.2.2.1
  have hip'M : ip' ≠ 0 → ip' ≠ s.masterPtr := by
    intro h0 e
    by_cases hq : s.indexPtr = 0
    · -- new block
      have : ip' ∉ Al := by
        rcases hA with ⟨_, _, dA, hav, hal, _⟩ | ⟨hn, h1, _, _⟩
        · intro hm
          have hnd := a1.alnd
          rw [hAl1] at hnd
          have hc1 : (f.chunks.lookup c).isSome = true := by
            cases h : (f.chunks.lookup c).isSome with
            | true => rfl
            | false => exact absurd (hip'0.mpr ⟨hq, h⟩) h0
          rw [if_pos ⟨hq, hc1⟩, List.nodup_append] at hnd
          exact hnd.2.2 ip' hm ip' (List.mem_singleton.mpr rfl) rfl
        · rw [h1, hq] at h0; exact absurd rfl h0
      exact this (e ▸ hMAl)
    · rw [hip'new hq] at e
      have hnd := inv.own
      rw [List.nodup_cons] at hnd
      apply hnd.1
      rw [ownedOf_append, ownedOf_single]
      apply List.mem_append_right
      unfold grpOwned; simp only; rw [if_neg hq, ← e]; exact List.mem_cons_self
  have hkeep : ∀ x ∈ Al, x ≠ s.masterPtr → x ≠ ip' → unitAt d4.raw x = unitAt dn.raw x := by
    intro x hx hxM hxi
    rw [unitAt_congr (ho4 x hxM), unitAt_congr (ho3 x hxi), unitAt_congr (w.oth x (by
      by_cases hp0 : p = 0
      · exact Or.inl hp0
      · exact Or.inr (fun e => hpnew hp0 (e ▸ hAlsub1 x hx)))), hraw1]
  -- the blocks of the finished groups are blocks taken before, different from `M` and from the current index block
  have hGown : ∀ x ∈ ownedOf G, x ∈ Al ∧ x ≠ s.masterPtr ∧ x ≠ ip' := by
    intro x hx
    have hxo : x ∈ s.masterPtr :: ownedOf (G ++ [(s.indexPtr, P)]) := by
      rw [ownedOf_append]; exact List.mem_cons_of_mem _ (List.mem_append_left _ hx)
    have hxAl := (inv.ownAl x).mp hxo
    have hnd := inv.own
    rw [List.nodup_cons, ownedOf_append, List.nodup_append] at hnd
    refine ⟨hxAl, fun e => hnd.1 (by rw [← e]; exact List.mem_append_left _ hx), ?_⟩
    intro e
    by_cases hq : s.indexPtr = 0
    · by_cases h0 : ip' = 0
      · exact (hnzAl x hxAl).1 (e.trans h0)
      · -- a new block
        rcases hA with ⟨_, hc1, _⟩ | ⟨_, h1, _, _⟩
        · have hnd1 := a1.alnd
          rw [hAl1, if_pos ⟨hq, hc1⟩, List.nodup_append] at hnd1
          exact hnd1.2.2 x hxAl ip' (List.mem_singleton.mpr rfl) e
        · rw [h1, hq] at h0; exact h0 rfl
    · rw [hip'new hq] at e
      apply hnd.2.2.2 x hx x _ rfl
      rw [ownedOf_single]; unfold grpOwned; simp only; rw [if_neg hq, e]; exact List.mem_cons_self
  have hmemG : ∀ j (h : j < G.length), ∀ x ∈ grpOwned (G[j].1, G[j].2), x ∈ ownedOf G := by
    intro j h x hx
    unfold ownedOf
    rw [List.mem_flatMap]
    exact ⟨G[j], List.getElem_mem h, hx⟩
  -- the owned blocks
  have hgo : grpOwned (ip', P ++ [p]) = grpOwned (s.indexPtr, P) ++
      ((if s.indexPtr = 0 ∧ (f.chunks.lookup c).isSome = true then [ip'] else []) ++ (if p = 0 then [] else [p])) := by
    unfold grpOwned
    simp only
    by_cases hq : s.indexPtr = 0
    · have hPz : P.filter (· ≠ 0) = [] := by
        rw [List.filter_eq_nil_iff]; intro x hx; have := inv.gcur.zero hq x hx; simp [this]
      cases hl : f.chunks.lookup c with
      | none =>
        have hp0 : p = 0 := w.none hl
        have hi0 : ip' = 0 := hip'0.mpr ⟨hq, by rw [hl]; rfl⟩
        simp [hq, hp0, hi0]
      | some data =>
        have hp0 := (w.some data hl).1
        have hi0 : ip' ≠ 0 := fun e => by have := (hip'0.mp e).2; rw [hl] at this; cases this
        simp [hq, hp0, hi0, List.filter_append]
        exact fun a ha => inv.gcur.zero hq a ha
    · have hi : ip' = s.indexPtr := hip'new hq
      rw [hi, if_neg hq, if_neg hq, if_neg (fun h => hq h.1), List.filter_append]
      by_cases hp0 : p = 0
      · simp [hp0]
      · simp [hp0]
  have hO' : ownedOf (G ++ [(ip', P ++ [p])]) = ownedOf (G ++ [(s.indexPtr, P)]) ++
      ((if s.indexPtr = 0 ∧ (f.chunks.lookup c).isSome = true then [ip'] else []) ++ (if p = 0 then [] else [p])) := by
    rw [ownedOf_append, ownedOf_append, ownedOf_single, ownedOf_single, hgo, List.append_assoc]
  have hAl2 : Al2 = Al ++ ((if s.indexPtr = 0 ∧ (f.chunks.lookup c).isSome = true then [ip'] else []) ++ (if p = 0 then [] else [p])) := by
    rw [w.al, hAl1, List.append_assoc]
  obtain ⟨hown', hownAl', holen'⟩ := own_step inv.own inv.ownAl inv.olen hAl2 a4.alnd hO'
  have hip'4 : ip' ≠ 0 → unitAt d4.raw ip' = ib1 := by
    intro h0
    rw [unitAt_congr (ho4 ip' (hip'M h0))]; exact hu3 h0
  refine ⟨ip', e1, d1, p, e2, dw, ib1, d3, mb1, d4, Al2, hA, hw, hpack, hD, hpm, hwm,
    ⟨a4, inv.st, inv.gl, by show c + 1 = 256 * s.masterCount + (s.indexCount + 1); omega, inv.mc1,
      by show s.indexCount + 1 ≤ 256; omega, by rw [List.length_append, inv.plen]; rfl, ?_, ?_, ?_, hib1, hip'4, hmb1, ?_, ent2,
      hown', hownAl', holen', ?_, by omega⟩⟩
  · intro j hj
    refine ⟨(inv.gfin j hj).1, (inv.gfin j hj).2.mono (fun x hx => hAlsub2 _ (hAlsub1 _ hx)) ?_⟩
    intro x hx
    obtain ⟨h1, h2, h3⟩ := hGown x (hmemG j hj x hx)
    exact hkeep x h1 h2 h3
  · -- the current group
    have hgetl : ∀ k, k < P.length → (P ++ [p]).getD k 0 = P.getD k 0 := by
      intro k hk
      simp only [List.getD_eq_getElem?_getD]
      rw [List.getElem?_append_left hk]
    have hgetc : (P ++ [p]).getD P.length 0 = p := by
      simp only [List.getD_eq_getElem?_getD]
      rw [List.getElem?_append_right (Nat.le_refl _)]
      simp
    have hcidx : 256 * s.masterCount + P.length = c := by rw [inv.plen]; omega
    refine ⟨?_, fun h0 => hAlsub2 _ (hip'Al h0), fun h0 => by rw [hip'4 h0]; exact hib1, ?_, ?_, ?_⟩
    · intro h0 x hx
      obtain ⟨hq, hc0⟩ := hip'0.mp h0
      rcases List.mem_append.mp hx with h | h
      · exact inv.gcur.zero hq x h
      · rw [List.mem_singleton] at h; rw [h]
        cases hl : f.chunks.lookup c with
        | none => exact w.none hl
        | some data => rw [hl] at hc0; cases hc0
    · intro x hx hx0
      rcases List.mem_append.mp hx with h | h
      · exact hAlsub2 _ (hAlsub1 _ (inv.gcur.pal x h hx0))
      · rw [List.mem_singleton] at h; subst h
        rw [w.al, if_neg hx0]; exact List.mem_append_right _ (List.mem_singleton.mpr rfl)
    · intro k hk data hl
      rw [List.length_append, List.length_singleton] at hk
      by_cases hkc : k = P.length
      · subst hkc
        rw [hcidx] at hl
        rw [hgetc]
        obtain ⟨hp0, _, _, hpn, hu, _⟩ := w.some data hl
        refine ⟨hp0, ?_⟩
        have hpM : p ≠ s.masterPtr := fun e => hpn (e ▸ hAlsub1 _ hMAl)
        have hpi : p ≠ ip' := fun e => hpn (e ▸ hip'Al (e ▸ hp0))
        rw [unitAt_congr (ho4 p hpM), unitAt_congr (ho3 p hpi), hu]
      · have hk' : k < P.length := by omega
        rw [hgetl k hk']
        obtain ⟨h0, hu⟩ := inv.gcur.dat k hk' data hl
        refine ⟨h0, ?_⟩
        have hm := getD_mem_of_lt P k hk'
        have hq : s.indexPtr ≠ 0 := fun e => h0 (inv.gcur.zero e _ hm)
        have hxAl := inv.gcur.pal _ hm h0
        have hnd := inv.own
        rw [List.nodup_cons, ownedOf_append, ownedOf_single] at hnd
        have hxg : P.getD k 0 ∈ grpOwned (s.indexPtr, P) := by
          unfold grpOwned; simp only; rw [if_neg hq]
          exact List.mem_cons_of_mem _ (List.mem_filter.mpr ⟨hm, by simpa using h0⟩)
        have hxM : P.getD k 0 ≠ s.masterPtr := fun e => hnd.1 (by rw [← e]; exact List.mem_append_right _ hxg)
        have hxi : P.getD k 0 ≠ ip' := by
          rw [hip'new hq]
          intro e
          have hnd2 := (List.nodup_append.mp hnd.2).2.1
          unfold grpOwned at hnd2; simp only at hnd2; rw [if_neg hq, List.nodup_cons] at hnd2
          exact hnd2.1 (by rw [← e]; exact List.mem_filter.mpr ⟨hm, by simpa using h0⟩)
        rw [hkeep _ hxAl hxM hxi, hu]
    · intro k hk hl
      rw [List.length_append, List.length_singleton] at hk
      by_cases hkc : k = P.length
      · subst hkc; rw [hcidx] at hl; rw [hgetc]; exact w.none hl
      · rw [hgetl k (by omega)]; exact inv.gcur.hole k (by omega) hl
  · intro h0
    have hcidx : 256 * s.masterCount + P.length = c := by rw [inv.plen]; omega
    by_cases hq : s.indexPtr = 0
    · refine ⟨P.length, by simp, ?_⟩
      rw [hcidx]
      cases h : hasChunk f c with
      | true => rfl
      | false => exact absurd (hip'0.mpr ⟨hq, h⟩) h0
    · obtain ⟨k, hk, hh⟩ := inv.csome hq
      exact ⟨k, by rw [List.length_append]; omega, hh⟩
  · show unitAt d4.raw s.masterPtr = mb1
    rw [hu4, List.take_of_length_le (by rw [hmb1.len]; decide), quantize_full _ hmb1.len]
  · exact hAl2eq

end A2Verif.FsProdos
