import A2Verif.Props.FsProdos
/-!
Kernel-evaluated histories on a 10-block volume: the executable refinement check `historyRefines` (every step is a transition
`stepOk prodosParams` allows between the readings of the **total** reader, ends in an image satisfying `InvB`, and has the
expected result).  Each takes 20–50 s.
-/
namespace A2Verif.FsProdos
open A2Verif.Fs.Prodos

/-- a sparse sapling file (chunks 0 and 2 of 3) is a transition the specification allows: put reads back, length and
type read back, only free units used, volume well formed and leak free afterwards (kernel evaluation) -/
theorem example_sparse_put_refines :
    historyRefines repaired exTime
      [ (str "B", [], .put (str "b") 6 0x2000 0xC3 1100 [(0, chunkOf 1 512), (2, chunkOf 3 76)], true) ] (formatted 10) = true := by
  decide +kernel

/-- put, lock, refused delete of the locked file: three transitions the specification allows, the last one with a
refusal that changes nothing (kernel evaluation) -/
theorem example_history_refines :
    historyRefines repaired exTime
      [ (str "A", [], .put (str "a") 4 0x1234 0xC3 300 [(0, chunkOf 7 300)], true),
        (str "A", [], .lock (str "A"), true),
        (str "A", [], .delete (str "a"), false) ] (formatted 10) = true := by
  decide +kernel

end A2Verif.FsProdos
