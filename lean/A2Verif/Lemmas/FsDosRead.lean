import A2Verif.Model.Read.Dos3x
import A2Verif.Model.VolSpec
/-!
# What the independent DOS 3.x reader returns on a volume with a known layout

A *layout* names the sectors of the catalog chain and, for every live catalog entry in catalog order, the
sectors of its T/S list chain.  `CatChain`/`TsChain` say that the image really is chained that way (pointers in
range, end markers).  The theorems compute `Read.Dos3x.catalog`, `tsWalk` and `read` on such an image: the walk
succeeds within its fuel and returns exactly the values derived from the layout (`volOf`).  Core Lean only.
-/
namespace A2Verif.FsDos
open A2Verif.Read.Dos3x

/-- sector content by unit number (`[]` outside the image) -/
def sec (r : Raw) (u : Nat) : Bytes := (r.units[u]?).getD []

theorem unit_ok {r : Raw} {u : Nat} {who : String} (h : u < r.units.size) : r.unit u who = .ok (sec r u) := by
  unfold Raw.unit sec
  rw [Array.getElem?_eq_getElem h]
  rfl

/-- the geometry the invariant fixes: 35 tracks, `c` sectors, 122 pairs per T/S list -/
def geo (c : Nat) : Geo := { tracks := 35, spt := c, maxPairs := 122 }

/-- the 7 entries of a catalog sector -/
def entsOfSec (b : Bytes) : List Bytes := (List.range 7).map (fun k => slice b (0x0B + 35 * k) 35)

/-- the catalog chain starting at pointer `(t,s)` consists of exactly the units `cat` -/
def CatChain (r : Raw) (c : Nat) : Nat → Nat → List Nat → Prop
  | t, s, [] => t = 0 ∧ s = 0
  | t, s, u :: rest => ¬ (t = 0 ∧ s = 0) ∧ t < 35 ∧ s < c ∧ u = t * c + s ∧ u < r.units.size ∧
      CatChain r c ((sec r u).getD 1 0) ((sec r u).getD 2 0) rest

theorem catalog_ok {r : Raw} {c : Nat} : ∀ (cat : List Nat) (fuel t s : Nat) (seen : List Nat),
    CatChain r c t s cat → cat.length < fuel → (∀ u ∈ cat, u ∉ seen) → cat.Nodup →
    catalog r (geo c) fuel t s seen = .ok (seen.reverse ++ cat, cat.flatMap (fun u => entsOfSec (sec r u))) := by
  intro cat
  induction cat with
  | nil =>
    intro fuel t s seen h hf _ _
    obtain ⟨rfl, rfl⟩ := h
    cases fuel with
    | zero => simp at hf
    | succ n => simp [catalog, pure, Except.pure]
  | cons u rest ih =>
    intro fuel t s seen h hf hs hn
    obtain ⟨h0, ht, hs', hu, hsz, hrest⟩ := h
    cases fuel with
    | zero => simp at hf
    | succ n =>
      have hseen : seen.contains (unitOf (geo c) t s) = false := by
        have : unitOf (geo c) t s = u := by simp [unitOf, geo, hu]
        rw [this]
        simpa using hs u List.mem_cons_self
      have hu' : unitOf (geo c) t s = u := by simp [unitOf, geo, hu]
      have hnd := List.nodup_cons.1 hn
      have ih' := ih n ((sec r u).getD 1 0) ((sec r u).getD 2 0) (u :: seen) hrest (by simpa using hf)
        (by
          intro x hx
          simp only [List.mem_cons, not_or]
          exact ⟨fun e => hnd.1 (e ▸ hx), hs x (List.mem_cons_of_mem _ hx)⟩) hnd.2
      rw [catalog]
      rw [if_neg h0, if_neg (by simp [geo]; omega), hseen]
      simp only [Bool.false_eq_true, if_false, hu']
      rw [unit_ok hsz]
      simp only [bind, Except.bind, ih', pure, Except.pure]
      simp [entsOfSec, List.reverse_cons, List.append_assoc]


/-! ## T/S list chains -/

def pairT (b : Bytes) (k : Nat) : Nat := b.getD (0x0C + 2 * k) 0
def pairS (b : Bytes) (k : Nat) : Nat := b.getD (0x0D + 2 * k) 0

/-- every non-hole pair of a T/S list sector points into the volume -/
def PairsOk (r : Raw) (c : Nat) (b : Bytes) : Prop :=
  ∀ k, k < 122 → pairT b k ≠ 0 → pairT b k < 35 ∧ pairS b k < c ∧ pairT b k * c + pairS b k < r.units.size

/-- what the reader collects from one T/S list sector: (chunk index, data, data unit) -/
def hereOf (r : Raw) (c : Nat) (b : Bytes) (base : Nat) : List (Nat × Bytes × Nat) :=
  (List.range 122).filterMap (fun k =>
    if pairT b k = 0 then none else some (base + k, sec r (pairT b k * c + pairS b k), pairT b k * c + pairS b k))

def TsNode (r : Raw) (c : Nat) (t s u : Nat) : Prop :=
  t < 35 ∧ s < c ∧ u = t * c + s ∧ u < r.units.size ∧ PairsOk r c (sec r u)

/-- the T/S list chain starting at pointer `(t,s)` consists of exactly the units `tsl`; the last list has
next pointer (0,0) -/
def TsChain (r : Raw) (c : Nat) : Nat → Nat → List Nat → Prop
  | _, _, [] => False
  | t, s, [u] => TsNode r c t s u ∧ (sec r u).getD 1 0 = 0 ∧ (sec r u).getD 2 0 = 0
  | t, s, u :: u' :: rest => TsNode r c t s u ∧ (sec r u).getD 1 0 ≠ 0 ∧
      TsChain r c ((sec r u).getD 1 0) ((sec r u).getD 2 0) (u' :: rest)

def walkOf (r : Raw) (c : Nat) : Nat → List Nat → List (Nat × Bytes × Nat)
  | _, [] => []
  | base, u :: rest => hereOf r c (sec r u) base ++ walkOf r c (base + 122) rest

theorem filterMapM_ok {α β : Type} (f : α → Except String (Option β)) (g : α → Option β) :
    ∀ (l : List α), (∀ x ∈ l, f x = .ok (g x)) → l.filterMapM f = .ok (l.filterMap g) := by
  intro l
  induction l with
  | nil => intro _; simp [pure, Except.pure]
  | cons a l ih =>
    intro h
    rw [List.filterMapM_cons, h a List.mem_cons_self, ih (fun x hx => h x (List.mem_cons_of_mem _ hx))]
    cases hg : g a <;> simp [bind, Except.bind, hg, pure, Except.pure]

theorem zipIdx_pairs (P : Nat → Nat × Nat) :
    ((List.range 122).map P).zipIdx = (List.range 122).map (fun k => (P k, k)) := by
  apply List.ext_getElem?
  intro i
  simp only [List.getElem?_zipIdx, List.getElem?_map]
  by_cases h : i < 122
  · simp [List.getElem?_range h]
  · simp [List.getElem?_eq_none (show (List.range 122).length ≤ i by simp; omega)]

/-- the reader's scan of one T/S list sector -/
theorem here_ok {r : Raw} {c : Nat} {b : Bytes} {base : Nat} (h : PairsOk r c b) :
    ((((List.range (geo c).maxPairs).map (fun k => (b.getD (0x0C + 2 * k) 0, b.getD (0x0D + 2 * k) 0))).zipIdx).filterMapM
      (fun (x : (Nat × Nat) × Nat) =>
        if x.1.1 = 0 then (pure none : Except String (Option (Nat × Bytes × Nat)))
        else if x.1.1 ≥ (geo c).tracks ∨ x.1.2 ≥ (geo c).spt then .error "data-pointer-out-of-range"
        else do
          let d ← r.unit (unitOf (geo c) x.1.1 x.1.2) "data-sector"
          pure (some (base + x.2, d, unitOf (geo c) x.1.1 x.1.2))))
    = .ok (hereOf r c b base) := by
  show (((List.range 122).map _).zipIdx).filterMapM _ = _
  rw [zipIdx_pairs]
  rw [filterMapM_ok _ (fun (x : (Nat × Nat) × Nat) =>
      if x.1.1 = 0 then none else some (base + x.2, sec r (x.1.1 * c + x.1.2), x.1.1 * c + x.1.2))]
  · rw [List.filterMap_map]
    rfl
  · intro x hx
    obtain ⟨k, hk, rfl⟩ := List.mem_map.1 hx
    have hk' : k < 122 := List.mem_range.1 hk
    simp only
    by_cases h0 : b.getD (0x0C + 2 * k) 0 = 0
    · rw [if_pos h0, if_pos h0]; rfl
    · obtain ⟨h1, h2, h3⟩ := h k hk' h0
      simp only [pairT, pairS] at h1 h2 h3
      rw [if_neg h0, if_neg h0, if_neg (by simp only [geo]; omega)]
      simp only [unitOf, geo]
      rw [unit_ok h3]
      rfl

theorem tsWalk_ok {r : Raw} {c : Nat} : ∀ (tsl : List Nat) (fuel t s base : Nat) (seen : List Nat),
    TsChain r c t s tsl → tsl.length ≤ fuel → (∀ u ∈ tsl, u ∉ seen) → tsl.Nodup →
    tsWalk r (geo c) fuel t s base seen =
      .ok (tsl, (walkOf r c base tsl).map (fun x => (x.1, x.2.1)), (walkOf r c base tsl).map (·.2.2)) := by
  intro tsl
  induction tsl with
  | nil => intro fuel t s base seen h; exact absurd h (by simp [TsChain])
  | cons u rest ih =>
    intro fuel t s base seen h hf hs hn
    cases fuel with
    | zero => simp at hf
    | succ n =>
      have hnode : TsNode r c t s u := by
        cases rest with
        | nil => exact h.1
        | cons u' rest' => exact h.1
      obtain ⟨ht, hs', hu, hsz, hp⟩ := hnode
      have hu' : unitOf (geo c) t s = u := by simp [unitOf, geo, hu]
      have hseen : seen.contains (unitOf (geo c) t s) = false := by
        rw [hu']; simpa using hs u List.mem_cons_self
      rw [tsWalk]
      rw [if_neg (by simp [geo]; omega), hseen]
      simp only [Bool.false_eq_true, if_false, hu']
      rw [unit_ok hsz]
      have hh := here_ok (r := r) (c := c) (b := sec r u) (base := base) hp
      simp only [bind, Except.bind] at hh ⊢
      rw [hh]
      simp only
      cases rest with
      | nil =>
        obtain ⟨_, hnt, _⟩ := h
        rw [if_pos hnt]
        simp [walkOf, pure, Except.pure]
      | cons u' rest' =>
        obtain ⟨_, hnt, hrest⟩ := h
        rw [if_neg hnt]
        have hnd := List.nodup_cons.1 hn
        have ih' := ih n ((sec r u).getD 1 0) ((sec r u).getD 2 0) (base + 122) (u :: seen) hrest (by simpa using hf)
          (by
            intro x hx
            simp only [List.mem_cons, not_or]
            exact ⟨fun e => hnd.1 (e ▸ hx), hs x (List.mem_cons_of_mem _ hx)⟩) hnd.2
        have hmp : (geo c).maxPairs = 122 := rfl
        simp only [hmp, ih', pure, Except.pure]
        simp [walkOf]


/-! ## the whole volume -/

/-- two lists related element by element -/
inductive All2 {α β : Type} (R : α → β → Prop) : List α → List β → Prop
  | nil : All2 R [] []
  | cons {a : α} {b : β} {l1 : List α} {l2 : List β} : R a b → All2 R l1 l2 → All2 R (a :: l1) (b :: l2)

/-- a layout: the catalog sectors in chain order and, per live entry in catalog order, its T/S list sectors -/
structure Lay where
  cat : List Nat
  tsls : List (List Nat)

def isLive (e : Bytes) : Bool := decide (e.getD 0 0 ≠ 0 ∧ e.getD 0 0 ≠ 255)
def entsOf (r : Raw) (cat : List Nat) : List Bytes := cat.flatMap (fun u => entsOfSec (sec r u))
def liveOf (r : Raw) (cat : List Nat) : List Bytes := (entsOf r cat).filter isLive

/-- the record the reader builds for a live entry whose T/S chain is `tsl` -/
def recOf (r : Raw) (c : Nat) (e : Bytes) (tsl : List Nat) : FileRec :=
  { path := (trimName (slice e 3 30)).map (· % 128), ftype := e.getD 2 0 % 128, locked := decide (e.getD 2 0 ≥ 128),
    access := e.getD 2 0 / 128, aux := le16 e 33, eof := 0,
    chunks := (walkOf r c 0 tsl).map (fun x => (x.1, x.2.1)), owned := tsl ++ (walkOf r c 0 tsl).map (·.2.2) }

def filesOf (r : Raw) (c : Nat) (live : List Bytes) (tsls : List (List Nat)) : List FileRec :=
  List.zipWith (recOf r c) live tsls

def vtocOf (r : Raw) (c : Nat) : Bytes := sec r (vtocTrack * c)

def freeOf (r : Raw) (c : Nat) : List Nat :=
  (List.range (35 * c)).filter (fun u => sectorFree (vtocOf r c) (geo c) (u / c) (u % c))

def fixedOf (c : Nat) (L : Lay) : List Nat := (vtocTrack * c) :: L.cat

/-- the reading of a volume with layout `L` -/
def volOf (r : Raw) (c : Nat) (sb : List Nat) (L : Lay) : Vol :=
  { lo := 0, hi := 35 * c, sys := fixedOf c L ++ sb.filter (fun u => !(fixedOf c L).contains u),
    files := filesOf r c (liveOf r L.cat) L.tsls, freeUnits := freeOf r c, label := [(vtocOf r c).getD 6 0] }

def FileChain (r : Raw) (c : Nat) (e : Bytes) (tsl : List Nat) : Prop :=
  TsChain r c (e.getD 0 0) (e.getD 1 0) tsl ∧ tsl.length ≤ 1000 ∧ tsl.Nodup

/-- the image is a DOS 3.x volume laid out as `L` says -/
structure Describes (r : Raw) (c : Nat) (L : Lay) : Prop where
  hc : c = 13 ∨ c = 16
  size : r.units.size = 35 * c
  vTracks : (vtocOf r c).getD 0x34 0 = 35
  vSpt : (vtocOf r c).getD 0x35 0 = c
  vPairs : (vtocOf r c).getD 0x27 0 = 122
  cat : CatChain r c ((vtocOf r c).getD 1 0) ((vtocOf r c).getD 2 0) L.cat
  catNodup : L.cat.Nodup
  catLen : L.cat.length < 100
  files : All2 (FileChain r c) (liveOf r L.cat) L.tsls

theorem files_ok {r : Raw} {c : Nat} {live : List Bytes} {tsls : List (List Nat)}
    (h : All2 (FileChain r c) live tsls) :
    live.mapM (fun e => do
      let (ls, cs, ds) ← tsWalk r (geo c) 1000 (e.getD 0 0) (e.getD 1 0) 0 []
      let ty := e.getD 2 0
      pure ({ path := (trimName (slice e 3 30)).map (· % 128), ftype := ty % 128, locked := ty ≥ 128, access := ty / 128,
              aux := le16 e 33, eof := 0, chunks := cs, owned := ls ++ ds } : FileRec))
    = (.ok (filesOf r c live tsls) : Except String (List FileRec)) := by
  induction h with
  | nil => simp [filesOf, pure, Except.pure]
  | @cons e tsl live tsls hd _ ih =>
    obtain ⟨h1, h2, h3⟩ := hd
    rw [List.mapM_cons, ih, tsWalk_ok tsl 1000 _ _ 0 [] h1 h2 (by simp) h3]
    simp [bind, Except.bind, pure, Except.pure, filesOf, recOf]

theorem read_ok {r : Raw} {c : Nat} {L : Lay} (sb : List Nat) (h : Describes r c L) :
    Read.Dos3x.read r (some sb) = .ok (volOf r c sb L) := by
  have hsz := h.size
  have hspt : (if r.count = 35 * 13 ∨ r.count = 40 * 13 ∨ r.count = 50 * 13 then 13 else 16) = c := by
    unfold Raw.count
    rcases h.hc with rfl | rfl <;> simp [hsz]
  have h0 : 0 < r.units.size := by rcases h.hc with rfl | rfl <;> omega
  have hv : vtocTrack * c < r.units.size := by unfold vtocTrack; rcases h.hc with rfl | rfl <;> omega
  have hg : ({ tracks := (vtocOf r c).getD 0x34 0, spt := (vtocOf r c).getD 0x35 0, maxPairs := (vtocOf r c).getD 0x27 0 } : Geo) = geo c := by
    rw [h.vTracks, h.vSpt, h.vPairs]; rfl
  unfold Read.Dos3x.read
  rw [unit_ok h0]
  simp only [bind, Except.bind]
  rw [hspt, unit_ok hv]
  simp only
  have e1 : List.getD (sec r (vtocTrack * c)) 53 0 = c := h.vSpt
  have e2 : List.getD (sec r (vtocTrack * c)) 52 0 = 35 := h.vTracks
  have e3 : List.getD (sec r (vtocTrack * c)) 39 0 = 122 := h.vPairs
  have hcnt : ¬ (35 * c > r.count ∨ 35 ≤ vtocTrack) := by unfold Raw.count vtocTrack; omega
  have hcat := catalog_ok L.cat 100 _ _ [] h.cat h.catLen (by simp) h.catNodup
  have hfiles := files_ok h.files
  simp only [bind, Except.bind] at hfiles
  simp only [e1, e2, e3, ne_eq, not_true_eq_false, if_false, hcnt]
  have hgeo : ({ tracks := 35, spt := c, maxPairs := 122 } : Geo) = geo c := rfl
  rw [hgeo]
  have hcat' : catalog r (geo c) 100 (List.getD (sec r (vtocTrack * c)) 1 0) (List.getD (sec r (vtocTrack * c)) 2 0) [] =
      .ok (L.cat, entsOf r L.cat) := by simpa [entsOf, vtocOf] using hcat
  rw [hcat']
  simp only [show (122 = 0 ∨ 122 > 122) = False by simp, if_false]
  have hlive : List.filter (fun e => decide (List.getD e 0 0 ≠ 0 ∧ List.getD e 0 0 ≠ 255)) (entsOf r L.cat) = liveOf r L.cat := rfl
  rw [hlive, hfiles]
  rfl

end A2Verif.FsDos
