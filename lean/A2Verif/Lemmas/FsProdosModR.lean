import A2Verif.Lemmas.FsProdosModM
/-!
# One entry of the volume directory rewritten in place: the reading afterwards

`replace_reading`: the slot of a file entry `e0` is overwritten with an entry `e'` that leads to the same blocks
(`SameBlocks`), has a uniform access byte and a path that is the old one or fresh.  After `get_img()` the disk object
satisfies `SInv` again; the reading is the old one with that record replaced by `reRec e' [] f` (chunks and blocks of the old
record, every other field from the new entry), at the same position.  Shared by `lock`, `unlock`, `retype`, `rename`.
-/
namespace A2Verif.FsProdos
open A2Verif.Fs.Prodos
open A2Verif.Read.Prodos (entryAt dirChain idxPtr indexEntries readData trimName bitmapFree)
open A2Verif.Read.ProdosT

theorem replace_reading {d d1 : Disk} (hs : SInv d) (v : Vol) (fsL : List LRec) (ch : List Nat)
    (hr : Read.ProdosT.read d.raw = .ok v) (ht : readTree d.raw (hdrTotal d.raw) = .ok (fsL, ch))
    (B k : Nat) (hB : B ∈ ch) (hk13 : k < 13) (hkey : B = 2 → 1 ≤ k)
    (hst : (entryAt (unitAt d.raw B) k 39).getD 0 0 / 16 = 1 ∨ (entryAt (unitAt d.raw B) k 39).getD 0 0 / 16 = 2 ∨
      (entryAt (unitAt d.raw B) k 39).getD 0 0 / 16 = 3)
    (e' : Bytes) (hl : e'.length = 39) (hb : ∀ x ∈ e', x < 256) (hsb : SameBlocks (entryAt (unitAt d.raw B) k 39) e')
    (hua : UniformAcc (e'.getD 30 0)) (hname : 47 ∉ trimName e')
    (n : Next d d1 (hdrBm d.raw) (nbmOf (hdrTotal d.raw))
      (setUnit d.raw B (patched (unitAt d.raw B) (4 + k * 39) e'))
      (clearBit (effBuf d (hdrBm d.raw) (nbmOf (hdrTotal d.raw))) B))
    (hpath : ∀ f, Read.ProdosT.readFile d.raw (hdrTotal d.raw) (entryAt (unitAt d.raw B) k 39) [] = .ok f →
      (baseRec e' []).path = f.path ∨ (baseRec e' []).path ∉ v.paths) :
    ∃ d4 v4 f FA FB, d1.flush = (.ok (), d4) ∧ SInv d4 ∧ Read.ProdosT.read d4.raw = .ok v4 ∧
      Read.ProdosT.readFile d.raw (hdrTotal d.raw) (entryAt (unitAt d.raw B) k 39) [] = .ok f ∧
      v.files = FA ++ f :: FB ∧ v4.files = FA ++ reRec e' [] f :: FB ∧ v4.wfB = true ∧ v.wfB = true ∧ v4.label = v.label := by
  obtain ⟨v', fsL', ch', hr', ht', c, hts, heff, hbsz, hbok⟩ := hs.ctx
  have e1 : v' = v := by rw [hr] at hr'; injection hr' with h; exact h.symm
  subst e1
  have e2 : fsL' = fsL ∧ ch' = ch := by
    rw [ht] at ht'; injection ht' with h; injection h with h1 h2; exact ⟨h1.symm, h2.symm⟩
  obtain ⟨rfl, rfl⟩ := e2
  obtain ⟨hw, hn, hroot, hvv, hc, hic, hnd, hchf, h2, h6, h3, hbt, hstv⟩ := root_chain_facts hs.inv v' fsL' ch' hr ht
  have hsz := hs.inv.size
  have hxm : (entryAt (unitAt d.raw B) k 39, B, k + 1) ∈ dirSlots d.raw 2 ch' := mem_dirSlots.mpr ⟨B, hB, k, hk13, hkey, rfl⟩
  obtain ⟨f, hrf, hgx, hown, hkeyp⟩ := slot_file_rec hs.inv v' fsL' ch' hr ht _ hxm hst
  obtain ⟨hsplit, h1, h2', hfs2, hfiles, hdisj, hxnd, hxown, hall, hcnt0⟩ :=
    slot_split_facts hs.inv v' fsL' ch' hr ht _ hxm
  simp only at hsplit h1 h2' hfs2 hfiles hdisj hxnd hxown
  rw [hgx] at hfs2 hfiles hdisj hxnd hxown
  simp only [List.map_cons, List.map_nil, List.flatMap_cons, List.flatMap_nil, List.append_nil] at hfiles hdisj hxnd hxown
  have hshapech : ∀ b ∈ ch', b < d.raw.units.size ∧ (unitAt d.raw b).length = 512 ∧ ∀ x ∈ unitAt d.raw b, x < 256 := by
    intro b hb'
    have hbl : b < d.raw.units.size := by rw [← hsz]; exact (hchf b hb').1
    exact ⟨hbl, (hs.inv.shape.unit hbl).1, (hs.inv.shape.unit hbl).2⟩
  have hBsz := (hshapech B hB).1
  have hlenB := (hshapech B hB).2.1
  have hpatch := entry_patch (r := d.raw) e' hshapech hB h2 hk13 hkey (by omega) hb
  -- the new image
  have hu3B : unitAt (setUnit d.raw B (patched (unitAt d.raw B) (4 + k * 39) e')) B = patched (unitAt d.raw B) (4 + k * 39) e' := by
    unfold unitAt; rw [setUnit_self _ _ _ hBsz]; rfl
  have he'' : entryAt (unitAt (setUnit d.raw B (patched (unitAt d.raw B) (4 + k * 39) e')) B) k 39 = e' := by
    rw [hu3B]; exact entryAt_patched_self _ _ k hlenB hl hk13
  have hnotown : B ∉ f.owned := fun hm => (hchf B hB).2.2.1 (hxown B hm)
  have hout : ∀ j, j ∉ ch' → j ∉ ([] : List Nat) → (setUnit d.raw B (patched (unitAt d.raw B) (4 + k * 39) e')).units[j]? = d.raw.units[j]? := by
    intro j hjc _
    exact setUnit_other _ _ _ _ (fun e => hjc (e ▸ hB))
  have hshape3 : ShapeOk (setUnit d.raw B (patched (unitAt d.raw B) (4 + k * 39) e')) := by
    apply shapeOk_of_units
    intro j hj
    rw [setUnit_size] at hj
    by_cases hjB : j = B
    · subst hjB; exact hpatch.shape j hB
    · rw [unitAt_setUnit_other _ _ _ _ (Ne.symm hjB)]; exact hs.inv.shape.unit hj
  have hact0 : isAct (entryAt (unitAt d.raw B) k 39, B, k + 1) = true := by
    unfold isAct; simp only [ne_eq, decide_eq_true_eq]; omega
  have hact' : isAct (e', B, k + 1) = true := by
    unfold isAct; simp only [ne_eq, decide_eq_true_eq]; rw [hsb.st]; omega
  have hcount3 : le16 (unitAt (setUnit d.raw B (patched (unitAt d.raw B) (4 + k * 39) e')) 2) 37 = le16 (unitAt d.raw 2) 37 := by
    by_cases hb2 : B = 2
    · have hk1 := hkey hb2
      subst hb2
      rw [hu3B, le16_patched_out _ _ _ 37 hlenB (by omega) (Or.inl (by omega)) (by omega)]
    · rw [unitAt_setUnit_other _ _ _ _ hb2]
  have hcnt3 : le16 (unitAt (setUnit d.raw B (patched (unitAt d.raw B) (4 + k * 39) e')) 2) 37 =
      ((sBefore (dirSlots d.raw 2 ch') (B, k + 1) ++ (e', B, k + 1) :: sAfter (dirSlots d.raw 2 ch') (B, k + 1)).filter isAct).length := by
    rw [hcount3, ← hcnt0]
    conv => lhs; rw [hsplit]
    rw [filter_length_mid, filter_length_mid, hact0, hact']
  -- the record of the new entry
  have hst' : e'.getD 0 0 / 16 = 1 ∨ e'.getD 0 0 / 16 = 2 ∨ e'.getD 0 0 / 16 = 3 := by rw [hsb.st]; exact hst
  have hrf3 : Read.ProdosT.readFile (setUnit d.raw B (patched (unitAt d.raw B) (4 + k * 39) e')) (hdrTotal d.raw) e' [] = .ok (reRec e' [] f) := by
    rw [readFile_same _ _ _ e' [] hsb,
      readFile_congr d.raw _ (hdrTotal d.raw) _ [] f hrf (fun j hj => setUnit_other _ _ _ _ (fun e => hnotown (by rw [e]; exact hj)))]
    rfl
  have hkey' : ¬ (le16 e' 0x11 = 0 ∨ le16 e' 0x11 ≥ hdrTotal d.raw) := by rw [hsb.key]; exact hkeyp
  have hRE3 := RE_file_of 69 (setUnit d.raw B (patched (unitAt d.raw B) (4 + k * 39) e')) (hdrTotal d.raw) [] 0 (e', B, k + 1)
    (reRec e' [] f) hst' hkey' hrf3
  have hsr3 : slotRecs 69 (setUnit d.raw B (patched (unitAt d.raw B) (4 + k * 39) e')) (hdrTotal d.raw) [] 0 (e', B, k + 1) =
      [(reRec e' [] f, B, k + 1)] := by
    unfold slotRecs; rw [if_pos hact', hRE3]; rfl
  -- the buffer
  have hndw := (wfB_iff.1 hw).2.1
  have hBused : freeB (bufOf d.raw (hdrBm d.raw) (nbmOf (hdrTotal d.raw))) B = false := by
    have hnf := (wfB_iff.1 hw).2.2.2.1 B (hchf B hB).2.2.2
    rw [hvv] at hnf
    simp only [List.mem_filter, List.mem_range, not_and, Bool.not_eq_true] at hnf
    exact hnf (hchf B hB).1
  have hcovB : B / 8 < (bufOf d.raw (hdrBm d.raw) (nbmOf (hdrTotal d.raw))).size := by rw [hbsz]; exact cover_of_lt (hchf B hB).1
  rw [heff] at n
  have hf3 : ∀ j, freeB (clearBit (bufOf d.raw (hdrBm d.raw) (nbmOf (hdrTotal d.raw))) B) j =
      freeB (bufOf d.raw (hdrBm d.raw) (nbmOf (hdrTotal d.raw))) j := freeB_clearBit_used _ B hbok hcovB hBused
  have hbs3 : (clearBit (bufOf d.raw (hdrBm d.raw) (nbmOf (hdrTotal d.raw))) B).size = blockSize * nbmOf (hdrTotal d.raw) := by
    rw [size_clearBit, hbsz]
  have hbok3 := bytesOk_clearBit _ B hbok
  -- the reading
  obtain ⟨hrd4, htree4, htot4, hbm4, hsz4, hshape4, hgeo4, hprev4, hslots4, hslotok4, hsame4⟩ :=
    patched_reading hs.inv v' fsL' ch' hr ht (entryAt (unitAt d.raw B) k 39) B k hxm [] hpatch hout
      (fun u hu => by cases hu) hshape3 _ _ rfl rfl e' he''.symm hcnt3 (fun _ => ⟨_, hRE3⟩)
      (fun j hj => by
        rw [hsr3]
        simp only [List.map_cons, List.map_nil, List.flatMap_cons, List.flatMap_nil, List.append_nil]
        show j ∉ f.owned
        intro hjo
        have hja := hxown j hjo
        have hsysj : j ∈ v'.sys := by
          rw [hvv]; simp only
          rw [mem_bmRange] at hj
          apply List.mem_append_right
          rw [List.mem_map]; exact ⟨j - hdrBm d.raw, List.mem_range.mpr (by omega), by omega⟩
        rw [List.nodup_append] at hndw
        exact hndw.2.2 j hja j hsysj rfl)
      _ hbs3 hbok3 _ rfl _ rfl
  rw [hsr3] at hrd4 htree4
  have hfree4 : (List.range (hdrTotal d.raw)).filter (freeB (clearBit (bufOf d.raw (hdrBm d.raw) (nbmOf (hdrTotal d.raw))) B)) = v'.freeUnits := by
    rw [hvv]; simp only
    apply List.filter_congr
    intro j _; exact hf3 j
  -- well-formedness
  have hfiles' : v'.files = ((sBefore (dirSlots d.raw 2 ch') (B, k + 1)).flatMap (slotRecs 69 d.raw (hdrTotal d.raw) [] 0)).map (·.1) ++
      f :: ((sAfter (dirSlots d.raw 2 ch') (B, k + 1)).flatMap (slotRecs 69 d.raw (hdrTotal d.raw) [] 0)).map (·.1) := by
    rw [hfiles, List.append_assoc]; rfl
  obtain ⟨hw4, hn4⟩ := vol_replace_wf (v := v')
    (v' := nextVol v' (hdrTotal d.raw)
      (((sBefore (dirSlots d.raw 2 ch') (B, k + 1)).flatMap (slotRecs 69 d.raw (hdrTotal d.raw) [] 0) ++ [(reRec e' [] f, B, k + 1)] ++
        (sAfter (dirSlots d.raw 2 ch') (B, k + 1)).flatMap (slotRecs 69 d.raw (hdrTotal d.raw) [] 0)).map (·.1))
      ((List.range (hdrTotal d.raw)).filter (freeB (clearBit (bufOf d.raw (hdrBm d.raw) (nbmOf (hdrTotal d.raw))) B))))
    (f := f) (g := reRec e' [] f) hw hn hfiles'
    (by show List.map _ _ = _; rw [List.map_append, List.map_append, List.append_assoc]; rfl)
    (by rw [hvv]; rfl) (by rw [hvv]; rfl) rfl (by show List.filter _ _ = _; exact hfree4) rfl rfl (hpath f hrf)
  -- the invariant
  have hinv4 : Inv (wbRaw (setUnit d.raw B (patched (unitAt d.raw B) (4 + k * 39) e')) (hdrBm d.raw) (nbmOf (hdrTotal d.raw))
      (clearBit (bufOf d.raw (hdrBm d.raw) (nbmOf (hdrTotal d.raw))) B)) := by
    refine ⟨hshape4, by rw [htot4, hsz4]; exact hsz, _, _, ch', hrd4, by rw [htot4]; exact htree4, hw4, hn4, hgeo4, hprev4, hroot.len, ?_,
      names_after hroot hsplit hslots4 (fun _ => hname)⟩
    intro y hy
    rw [hslots4] at hy
    rcases List.mem_append.mp hy with a | a
    · exact hslotok4 y (List.mem_append_left _ a)
    · rcases List.mem_cons.mp a with rfl | a'
      · refine Or.inl (Or.inr ⟨hst', hua, ?_⟩)
        intro h3'
        simp only at h3' ⊢
        rw [hsb.key]
        -- the master index block is a block of the record: untouched
        have hkeyown : le16 (entryAt (unitAt d.raw B) k 39) 0x11 ∈ f.owned := by
          rw [hown]; unfold ownedOfEntry; simp only
          rw [hsb.st] at h3'
          rw [if_neg (by omega), if_neg (by omega)]
          exact List.mem_cons_self
        have hja := hxown _ hkeyown
        have hu : unitAt (wbRaw (setUnit d.raw B (patched (unitAt d.raw B) (4 + k * 39) e')) (hdrBm d.raw) (nbmOf (hdrTotal d.raw))
            (clearBit (bufOf d.raw (hdrBm d.raw) (nbmOf (hdrTotal d.raw))) B)) (le16 (entryAt (unitAt d.raw B) k 39) 0x11) =
            unitAt d.raw (le16 (entryAt (unitAt d.raw B) k 39) 0x11) := by
          have hnb : le16 (entryAt (unitAt d.raw B) k 39) 0x11 ∉ bmRange (hdrBm d.raw) (nbmOf (hdrTotal d.raw)) := by
            intro hm
            have hsysj : le16 (entryAt (unitAt d.raw B) k 39) 0x11 ∈ v'.sys := by
              rw [hvv]; simp only
              rw [mem_bmRange] at hm
              apply List.mem_append_right
              rw [List.mem_map]
              exact ⟨le16 (entryAt (unitAt d.raw B) k 39) 0x11 - hdrBm d.raw, List.mem_range.mpr (by omega), by omega⟩
            rw [List.nodup_append] at hndw
            exact hndw.2.2 _ hja _ hsysj rfl
          apply unitAt_congr
          rw [hsame4 _ hnb, setUnit_other _ _ _ _ (fun e => hnotown (by rw [e]; exact hkeyown))]
        rw [hu]
        rcases (hroot.slots _ hxm).file (by simp only; omega) with h0 | ⟨_, _, hcl⟩
        · simp only at h0; rw [h0] at hst; simp at hst
        · rw [hsb.st] at h3'; exact hcl h3'
      · exact hslotok4 y (List.mem_append_right _ a')
  have hlen3 : ∀ i ∈ bmRange (hdrBm d.raw) (nbmOf (hdrTotal d.raw)),
      (unitAt (setUnit d.raw B (patched (unitAt d.raw B) (4 + k * 39) e')) i).length = blockSize := by
    intro i hi
    have hisz : i < (setUnit d.raw B (patched (unitAt d.raw B) (4 + k * 39) e')).units.size := by
      rw [setUnit_size]; exact c.st.exist i hi
    exact (hshape3.unit hisz).1
  obtain ⟨d4, hfl4, hraw4, hs4⟩ := close_op hs _ _ n hbs3 hlen3 hinv4 hbm4 hsz4
  refine ⟨d4, _, f, _, _, hfl4, hs4, by rw [hraw4]; exact hrd4, hrf, hfiles', ?_, hw4, hw, rfl⟩
  show List.map _ _ = _
  rw [List.map_append, List.map_append, List.append_assoc]
  rfl

end A2Verif.FsProdos
