import A2Verif.Lemmas.FsFatSubPutAbs
/-!
# `put` of a file into a first-level directory: the part after `prepare_to_write`

`putTail`: what `put` does once `prepare_to_write` has returned the name, the first cluster of the directory, the slot and
the directory buffer.  `put_sub_tail`: from a state that satisfies the invariant between steps (`SInv`) and in which `D` is
a well-formed first-level directory with a free slot at `S1.length`, `putTail` fails without a change of the state, or
leaves a state that satisfies `SInv` for the volume with exactly one more record — the file `D/X`, owning clusters that
were free, holding the chunks, with the length of the file image — and in which `D` is well formed again.
-/
namespace A2Verif.FsFat
open A2Verif A2Verif.Fs.Fat A2Verif.Read.Fat A2Verif.Read.FatT
open A2Verif.FsDos (inserted wfB_insert)

/-- `put` after `prepare_to_write` -/
def putTail (fi : FImg) (now : Stamp) (name : Bytes) (c1 : Option Nat) (idx : Nat) (dir : Directory) : M Nat := do
  let entry ← M.lift (fimgToMetadata (entryCreate (stringToFileName name) 0 now) fi)
  let dir' ← M.lift (dirSet dir idx entry)
  writeFile c1 idx dir' fi

/-- **`put` into a first-level directory, after `prepare_to_write`** -/
theorem put_sub_tail {ds : Disk} {fs : Array Nat} {vs : Vol} (s : SInv ds fs vs) {D X : Bytes} (a : SubArg D X)
    {E1 E2 : List Bytes} {eD : Bytes} {cls : List Nat} (sd : SubDirOk ds D fs E1 eD E2 cls)
    {fi : FImg} {now : Stamp} (hs : StampOk now) (hv : isNameValid (upper X) = true)
    (hacc : fi.dirOrLabel = false) (hsto : fi.storable = true) (hcl : fi.chunkLen = ds.bpb.blockSize)
    {S1 S2 : List Bytes} {e0 : Bytes} (hS : subEntries ds cls = S1 ++ e0 :: S2)
    (hS1 : ∀ x ∈ S1, entryType x ≠ .free ∧ entryType x ≠ .freeAndNoMore)
    (he0 : entryType e0 = .free ∨ entryType e0 = .freeAndNoMore)
    (hnl : absPath D ++ 47 :: absPath X ∉ vs.paths) :
    (∃ er, putTail fi now (upper X) (some (le16 eD 26)) S1.length (subEntries ds cls) ds = (.error er, ds)) ∨
    ∃ n d2 f1 G1 G2 rec free'', putTail fi now (upper X) (some (le16 eD 26)) S1.length (subEntries ds cls) ds = (.ok n, d2) ∧
      d2.bpb = ds.bpb ∧ vs.files = G1 ++ G2 ∧ rec.path = absPath D ++ 47 :: absPath X ∧ rec.isDir = false ∧ rec.owned.Nodup ∧
      (∀ x ∈ rec.owned, x ∈ vs.freeUnits) ∧ free''.Nodup ∧ (∀ x, x ∈ free'' ↔ x ∈ vs.freeUnits ∧ x ∉ rec.owned) ∧
      (rec.chunks.map (·.1)).Pairwise (· < ·) ∧ chunksMatch (chunksOf fi) rec.chunks = true ∧ rec.eof = le32 fi.eof 0 ∧
      SInv d2 f1 (inserted vs G1 G2 rec free'') ∧ SubDirOk d2 D f1 E1 eD E2 cls := by
  have g := s.geo
  have w := s.wok
  obtain ⟨B, Xp, np⟩ := nameParts_of_valid hv
  obtain ⟨hAS, hlenS⟩ := subEntries_spec g sd.chain
  have hidx : S1.length < (subEntries ds cls).length := by rw [hS]; simp
  unfold putTail
  by_cases hm0 : ¬ MetaOk fi
  · left
    have hm := hm0
    have : fi.eof.length < 4 ∨ fi.access.length < 1 ∨ fi.created.length < 5 ∨ fi.modified.length < 4 := by
      unfold MetaOk at hm; omega
    simp only [M_bind_apply, M.lift, fimgToMetadata, this, if_true]
    exact ⟨_, rfl⟩
  have hm : MetaOk fi := Classical.not_not.mp hm0
  have pa := putArg_of_storable hsto hm
  have pfits : ∀ k, k < fi.end → (chunkAt fi.chunks k).length ≤ ds.bpb.blockSize := by rw [← hcl]; exact pa.fits
  have peof : le32 fi.eof 0 ≤ fi.end * ds.bpb.blockSize := by rw [← hcl]; exact pa.eofFits
  have hn11 : (stringToFileName (upper X)).length = 11 := by
    rw [stringToFileName_parts np]
    simp [padTo_length]
  obtain ⟨c1', _, _, _, _⟩ := entryCreate_bytes hn11 0 hs
  obtain ⟨e1, hmeta, hl1, _, _, _⟩ := fimgToMetadata_spec c1' hm
  have hset : dirSet (subEntries ds cls) S1.length e1 = .ok ((subEntries ds cls).set S1.length e1) := by
    simp [dirSet, hidx]
  have hent : dirEntry ((subEntries ds cls).set S1.length e1) S1.length = .ok e1 := by
    unfold dirEntry
    rw [List.getElem?_set_self hidx]
  simp only [M_bind_apply, M.lift, hmeta, hset]
  unfold writeFile
  simp only [M_bind_apply, M.lift, hent, numFreeBlocks_open w]
  by_cases hfree : freeCount ds.bpb fs < fi.end
  · left
    simp only [hfree, if_true, M_fail_apply]
    exact ⟨_, rfl⟩
  simp only [hfree, if_false, M_bind_apply]
  obtain ⟨entry1, d1, f1, cl, hrun, o⟩ := writeLoop_chain fi.chunks fi.end 0 ds fs e1 0 w g.ulen (hiOf_le g)
    (fun k _ hk => pa.noHole k (by omega)) (by omega) (Or.inl (by omega))
  rw [← List.range_eq_range'] at hrun
  right
  obtain ⟨g1, hroot1, hlow1⟩ := geo_of_wrOut g o
  -- the finished entry
  have hent' : entry1 = setClusterOpt e1 cl.head? := by
    cases hcl0 : cl with
    | nil => exact (o.same hcl0).2.2
    | cons c0 rest =>
      have := (o.chain c0 rest hcl0).2.2
      rw [this]
      rfl
  have hc0lt : ∀ c, cl.head? = some c → c < 65536 := by
    intro c hc
    have hmem : c ∈ cl := List.mem_of_mem_head? (by rw [hc]; simp)
    have := (clusInRng_bounds (o.wasFree c hmem).1).2
    have := o.wok.small
    have hb1 := o.bpb
    rw [hb1] at this
    omega
  obtain ⟨q1, q2, q3, q4, q5⟩ := putEntry_facts hs hn11 hm hacc hmeta hc0lt hent'
  have ha24 := access_of_dirOrLabel hacc hm.2.1
  obtain ⟨b3, b4⟩ := fileAttr_bits ha24
  generalize he3 : Entry.setAttr entry1 ARCHIVE = e3 at q1 q2 q3 q4 q5 ⊢
  obtain ⟨n1, n2, n3, n4, n5, n6, n7, n8⟩ := fresh_name np q2
  rw [upper_idem] at n3
  have hk : keyOf X = trimEnd B ++ [46] ++ trimEnd Xp := n3
  have hbit3 : (e3.getD 11 0 / 8) % 2 = 0 := by rw [q3]; exact b3
  have hbit4 : (e3.getD 11 0 / 16) % 2 = 0 := by rw [q3]; exact b4
  have hshown3 : shown e3 := ⟨⟨n6, q1⟩, n7, by omega, hbit3, n8⟩
  have hgood3 : NameGood e3 :=
    ⟨trimEnd B, trimEnd Xp, n1, n2, n4, n5, (fun hd => by rw [hbit4] at hd; cases hd), (fresh_noSlash np).1, (fresh_noSlash np).2⟩
  have hname3 : entName e3 = absPath X := entName_of_key n1 hgood3 hk
  -- the reading before
  obtain ⟨hshD, hgoodD, hE1live, R1, R2, Q, sr⟩ := subReading_of s sd
  obtain ⟨hpD, hpDne⟩ := subDir_path sd hgoodD
  have hpath3 : entPath (entPath [] eD) e3 = absPath D ++ 47 :: absPath X := by
    rw [hpD, entPath_sub hpDne, hname3]
  have hwv := s.wf
  rw [sr.vol] at hwv
  obtain ⟨hoth1, hclsnf⟩ := sub_others hwv
  have hcls2 : ∀ z ∈ cls, 2 ≤ z := fun z hz => (sd.chain.bounds z hz).1
  have hdisj : ∀ z ∈ cls, z ∉ cl := fun z hz hc => by
    have := (o.wasFree z hc).2
    rw [hclsnf z hz] at this
    cases this
  have hcl2 : ∀ c ∈ cl, 2 ≤ c := fun c hc => (clusInRng_bounds (o.wasFree c hc).1).1
  -- the directory after the cluster loop
  have hchain1 : IsChain f1 (hiOf d1.bpb) (le16 eD 26) cls := by
    rw [o.bpb]
    exact sd.chain.congr (fun z hz => o.others z (hdisj z hz) (by have := hcls2 z hz; omega))
  have hunits1 : ∀ z, 2 ≤ z → z ∉ cl → ∀ i, i < ds.bpb.spc →
      d1.raw.units[ds.bpb.firstClusterSec z + i]? = ds.raw.units[ds.bpb.firstClusterSec z + i]? := by
    intro z hz2 hzcl i hi
    apply o.units
    intro c hc
    exact secs_disjoint hz2 (hcl2 c hc) (fun e => hzcl (e ▸ hc)) (by rw [List.mem_range'_1]; omega)
  have hcd1 : chainData d1 cls = chainData ds cls :=
    chainData_congr_cl o.bpb (fun x hx i hi => hunits1 x (hcls2 x hx) (hdisj x hx) i hi)
  have hse1 : subEntries ds cls = dirOfBytes (chainData d1 cls) := by rw [hcd1]; rfl
  have hidx1 : S1.length < (dirOfBytes (chainData d1 cls)).length := by rw [← hse1]; exact hidx
  obtain ⟨r', cw, hwb, hsz', hul', hcw, hfr', hnewS, g2⟩ := writebackSub_spec g1 o.wok hchain1 sd.nodup hidx1 (e' := e3) q1
  have hwb' : writebackDirectoryEntry (some (le16 eD 26)) S1.length ((subEntries ds cls).set S1.length e1) e3 d1 =
      (.ok (), { d1 with raw := r' }) := by
    rw [writebackSub_set hidx, hse1]
    exact hwb
  generalize hd2 : ({ d1 with raw := r' } : Disk) = d2 at hwb' hnewS g2
  have hb2 : d2.bpb = ds.bpb := by rw [← hd2]; exact o.bpb
  have hraw2 : d2.raw = r' := by rw [← hd2]
  have hcwm : cw ∈ cls := List.mem_of_getElem? hcw
  have hcw2 : 2 ≤ cw := hcls2 cw hcwm
  have hunits2 : ∀ z, 2 ≤ z → z ≠ cw → ∀ i, i < ds.bpb.spc →
      d2.raw.units[ds.bpb.firstClusterSec z + i]? = d1.raw.units[ds.bpb.firstClusterSec z + i]? := by
    intro z hz2 hne i hi
    rw [hraw2]
    apply hfr'
    rw [o.bpb]
    exact secs_disjoint hz2 hcw2 hne (by rw [List.mem_range'_1]; omega)
  have hlow2 : ∀ u, u < ds.bpb.firstDataSec → d2.raw.units[u]? = ds.raw.units[u]? := by
    intro u hu
    rw [hraw2, hfr' u (by rw [o.bpb, List.mem_range'_1]; unfold Bpb.firstClusterSec; omega)]
    exact hlow1 u hu
  have hroot2 : rootBuf d2 = rootBuf ds := rootBuf_congr_lt hb2 (fun u _ hu => hlow2 u hu)
  have w2 : WOk d2 f1 := by
    rw [← hd2]
    exact { fat := o.wok.fat, typ := o.wok.typ, bytes := o.wok.bytes, inbuf := o.wok.inbuf,
            geom := (fun c hc x hx => by show x < r'.units.size; rw [hsz']; exact o.wok.geom c hc x hx), small := o.wok.small }
  have hSd : dirOfBytes (chainData ds cls) = S1 ++ e0 :: S2 := hS
  have hS2 : dirOfBytes (chainData d2 cls) = S1 ++ e3 :: S2 := by
    rw [hnewS, ← hse1, hS, set_mid]
  -- the other records keep their readings
  have hzkeep : ∀ z, 2 ≤ z → isFree12 fs z = false → z ∉ cls →
      nxt f1 z = nxt fs z ∧ clusterData d2.raw (rbpb ds.bpb) z = clusterData ds.raw (rbpb ds.bpb) z := by
    intro z hz2 hznf hzcls
    have hzcl : z ∉ cl := fun hc => by
      have := (o.wasFree z hc).2
      rw [hznf] at this
      cases this
    refine ⟨o.others z hzcl (by omega), clusterData_keep g hz2 (fun i hi => ?_)⟩
    rw [hunits2 z hz2 (fun e => hzcls (e ▸ hcwm)) i hi, hunits1 z hz2 hzcl i hi]
  have hkeepL : ∀ (fuel : Nat) (pfx : Bytes) (L : List Bytes) (RR : List (List FileRec)),
      L.mapM (rdEnt ds.raw (rbpb ds.bpb) fs false (hiOf ds.bpb) fuel pfx) = .ok RR →
      (∀ y ∈ RR, ∀ r0 ∈ y, r0 ∈ R1.flatten ++ (Q.flatten ++ R2.flatten)) →
      L.mapM (rdEnt d2.raw (rbpb d2.bpb) f1 false (hiOf d2.bpb) fuel pfx) = .ok RR := by
    intro fuel pfx L RR hL hmem
    apply keep_readings (d := ds) (d' := d2) (f := fs) (f' := f1) hb2 hL
    intro y hy z hz
    obtain ⟨r0, hr0, hzr0⟩ := List.mem_flatMap.mp hz
    obtain ⟨h2, hnf, hncl'⟩ := hoth1 r0 (hmem y hy r0 hr0) z hzr0
    exact hzkeep z h2 hnf hncl'
  -- the reading of `D` before, split at the slot
  have hS1live : ∀ y ∈ S1, live y := fun y hy => live_of_type (hAS y (by rw [hS]; simp [hy])) (hS1 y hy).2
  have hS1end : ∀ x ∈ S1, entryType x ≠ .freeAndNoMore := fun x hx => (hS1 x hx).2
  have he0l : e0.length = 32 := hAS e0 (by rw [hS]; simp)
  have htailS := sd.ents.tail
  rw [hSd] at htailS
  have hskip := act_skip_slot he0l htailS he0
  have hq := sr.q
  rw [dirEnts_skip' hSd hS1live hskip] at hq
  obtain ⟨Q1, Q2, q1', q2', hQe⟩ := mapM_append_inv _ _ _ _ hq
  have hR1' := hkeepL 32 [] _ _ sr.r1 (fun y hy r0 hr0 => List.mem_append_left _ (List.mem_flatten.mpr ⟨y, hy, hr0⟩))
  have hR2' := hkeepL 32 [] _ _ sr.r2 (fun y hy r0 hr0 =>
    List.mem_append_right _ (List.mem_append_right _ (List.mem_flatten.mpr ⟨y, hy, hr0⟩)))
  have hQ1' := hkeepL 31 (entPath [] eD) _ _ q1' (fun y hy r0 hr0 =>
    List.mem_append_right _ (List.mem_append_left _ (by rw [hQe]; exact List.mem_flatten.mpr ⟨y, List.mem_append_left _ hy, hr0⟩)))
  have hQ2' := hkeepL 31 (entPath [] eD) _ _ q2' (fun y hy r0 hr0 =>
    List.mem_append_right _ (List.mem_append_left _ (by rw [hQe]; exact List.mem_flatten.mpr ⟨y, List.mem_append_right _ hy, hr0⟩)))
  -- the new entry
  have hc1 : (cl = [] ∧ le16 e3 26 = 0 ∧ le32 e3 28 = 0) ∨ (∃ c0 rest, cl = c0 :: rest ∧ le16 e3 26 = c0) := by
    cases hcl0 : cl with
    | nil =>
      left
      have hn0 : fi.end = 0 := by rw [← o.len, hcl0]; rfl
      have := peof
      rw [hn0] at this
      rw [hcl0] at q4
      exact ⟨rfl, by simpa using q4, by rw [q5]; omega⟩
    | cons c0 rest =>
      right
      rw [hcl0] at q4
      exact ⟨c0, rest, rfl, by simpa using q4⟩
  have hch : cl = [] ∨ ∃ c0, cl.head? = some c0 ∧ IsChain f1 (hiOf ds.bpb) c0 cl := by
    cases hcl0 : cl with
    | nil => exact Or.inl rfl
    | cons c0 rest =>
      right
      refine ⟨c0, rfl, ?_⟩
      have := (o.chain c0 rest hcl0).1
      rw [hcl0] at this
      exact this
  have hdat : ∀ j c, cl[j]? = some c → ∀ i, i < ds.bpb.spc → d2.raw.units[ds.bpb.firstClusterSec c + i]? =
      some (((blockOf ds.bpb fi.chunks j).drop (i * 512)).take 512) := by
    intro j c hj i hi
    have hcm : c ∈ cl := List.mem_of_getElem? hj
    rw [hunits2 c (hcl2 c hcm) (fun e => hdisj cw hcwm (e ▸ hcm)) i hi]
    have := o.data j c hj i hi
    simp only [Nat.zero_add] at this
    exact this
  have hnew : rdS d2 f1 (entPath [] eD) e3 = .ok [newRecAt ds.bpb fi.chunks (entPath [] eD) e3 cl] :=
    new_file_rec_at g2 hb2 o.nodup hcl2 hch hdat 31 (entPath [] eD) hbit4 hc1 (by rw [q5, o.len]; exact peof)
  -- the directory afterwards
  have hchain2 : IsChain f1 (hiOf d2.bpb) (le16 eD 26) cls := by
    rw [hb2, ← o.bpb]; exact hchain1
  have sd2 : SubDirOk d2 D f1 E1 eD E2 cls := by
    refine { wok := w2, hE := by rw [hroot2]; exact sd.hE, hE1 := sd.hE1, inmap := sd.inmap, key := sd.key, isdir := sd.isdir,
             chain := hchain2, nodup := sd.nodup, ents := ?_ }
    rw [hS2]
    have hold := sd.ents
    rw [hSd] at hold
    refine { ents := ?_, tail := tailZero_replace hold.tail hS1end n6 }
    intro e he h0 h5 hl h46
    simp only [List.mem_append, List.mem_cons] at he
    rcases he with he | he | he
    · exact hold.ents e (by simp [he]) h0 h5 hl h46
    · subst he
      exact ⟨by omega, hgood3⟩
    · exact hold.ents e (by simp [he]) h0 h5 hl h46
  -- the reading afterwards
  have hq' : (dirEnts (chainData d2 cls)).mapM (rdS d2 f1 (entPath [] eD)) =
      .ok (Q1 ++ [newRecAt ds.bpb fi.chunks (entPath [] eD) e3 cl] :: Q2) := by
    rw [dirEnts_split' hS2 hS1live hshown3]
    exact mapM_append_cons_ok _ _ _ _ _ _ _ hQ1' hnew hQ2'
  have hread2 := subReading_read g2 sd2 hshD hE1live hR1' hR2' hq'
  -- the abstract facts
  have hfilesv : vs.files = (R1.flatten ++ dirRecOf eD cls :: Q1.flatten) ++ (Q2.flatten ++ R2.flatten) := by
    rw [sr.vol, hQe]; simp [mkVol]
  have hfreeU : vs.freeUnits = freeUnitsOf ds.bpb fs := by rw [sr.vol]; rfl
  have hgf : ∀ x ∈ cl, x ∈ vs.freeUnits := by
    intro x hx
    rw [hfreeU, mem_freeUnitsOf]
    obtain ⟨hr, hfx⟩ := o.wasFree x hx
    have := clusInRng_bounds hr
    unfold firstDataCluster at this
    exact ⟨⟨this.1, this.2⟩, (isFree12_iff fs x).mp hfx⟩
  have hnz : ∀ x ∈ cl, nxt f1 x ≠ 0 := by
    intro x hx
    cases hcl0 : cl with
    | nil => rw [hcl0] at hx; cases hx
    | cons c0 rest =>
      have := (o.chain c0 rest hcl0).1
      exact this.nonzero x hx
  have hfree' : ∀ x, x ∈ freeUnitsOf ds.bpb f1 ↔ x ∈ vs.freeUnits ∧ x ∉ cl := by
    intro x
    rw [hfreeU, mem_freeUnitsOf, mem_freeUnitsOf]
    constructor
    · rintro ⟨hr, h0⟩
      have hx : x ∉ cl := fun hx => hnz x hx h0
      exact ⟨⟨hr, by rw [← o.others x hx (by omega)]; exact h0⟩, hx⟩
    · rintro ⟨⟨hr, h0⟩, hx⟩
      exact ⟨hr, by rw [o.others x hx (by omega)]; exact h0⟩
  have hchunks : (newRecAt ds.bpb fi.chunks (entPath [] eD) e3 cl).chunks =
      (List.range fi.end).map (fun k => (k, blockOf ds.bpb fi.chunks k)) := by
    show ((List.range cl.length).map (blockOf ds.bpb fi.chunks)).zipIdx.map (fun (d, i) => (i, d)) = _
    rw [zipIdx_range, o.len]
  have hc : ((newRecAt ds.bpb fi.chunks (entPath [] eD) e3 cl).chunks.map (·.1)).Pairwise (· < ·) := by
    rw [hchunks, List.map_map]
    have : ((fun x : Nat × Bytes => x.1) ∘ fun k => (k, blockOf ds.bpb fi.chunks k)) = id := by funext k; rfl
    rw [this, List.map_id]
    exact List.pairwise_lt_range
  have hcm : chunksMatch (chunksOf fi) (newRecAt ds.bpb fi.chunks (entPath [] eD) e3 cl).chunks = true := by
    rw [hchunks]
    unfold chunksOf
    apply chunksMatch_blocks
    intro k hk
    unfold blockOf
    have hfit := pfits k hk
    rw [takeN_of_le hfit]
    apply quantize_take
    have : ds.bpb.blockSize = ds.bpb.spc * 512 := by unfold Bpb.blockSize; rw [g.bps]
    omega
  have hp : (newRecAt ds.bpb fi.chunks (entPath [] eD) e3 cl).path ∉ vs.paths := by
    show entPath (entPath [] eD) e3 ∉ vs.paths
    rw [hpath3]; exact hnl
  have hvol2 : mkVol d2.bpb f1 (R1.flatten ++ (dirRecOf eD cls :: (Q1 ++ [newRecAt ds.bpb fi.chunks (entPath [] eD) e3 cl] :: Q2).flatten) ++ R2.flatten) =
      inserted vs (R1.flatten ++ dirRecOf eD cls :: Q1.flatten) (Q2.flatten ++ R2.flatten)
        (newRecAt ds.bpb fi.chunks (entPath [] eD) e3 cl) (freeUnitsOf ds.bpb f1) := by
    rw [sr.vol, hb2]
    unfold inserted mkVol
    simp
  have hwf2 := wfB_insert hfilesv s.wf o.nodup hgf (freeUnitsOf_nodup ds.bpb f1) hfree' hp hc
  have hnl2 := noLeak_inserted (g := newRecAt ds.bpb fi.chunks (entPath [] eD) e3 cl) hfilesv s.nl hfree'
  refine ⟨Entry.fileSize e3, d2, f1, R1.flatten ++ dirRecOf eD cls :: Q1.flatten, Q2.flatten ++ R2.flatten,
    newRecAt ds.bpb fi.chunks (entPath [] eD) e3 cl, freeUnitsOf ds.bpb f1, ?_, hb2, hfilesv, hpath3, rfl, o.nodup, hgf,
    freeUnitsOf_nodup ds.bpb f1, hfree', hc, hcm, q5, ?_, sd2⟩
  · simp only [hrun, he3, hwb', M_pure_apply]
  · rw [← hvol2]
    exact { lf := by rw [← hd2]; show d1.labelFiles = false; rw [o.lf]; exact s.lf, geo := g2, wok := w2,
            size := by rw [o.fsz, s.size, hb2], root := by rw [RootOk, hroot2]; exact s.root,
            tail := by rw [hroot2]; exact s.tail, read := hread2, wf := by rw [hvol2]; exact hwf2, nl := by rw [hvol2]; exact hnl2 }

end A2Verif.FsFat
