import A2Verif.Lemmas.FsProdosModR
/-!
# Directory entries byte by byte: the entries `lock`, `unlock`, `retype`, `rename` store

`getD_splice`: every byte of a field assignment.  For each of the four `modEntry` variants: length, bytes, which fields
change, `SameBlocks`; `isFileMatch_of_trim`: an entry whose trimmed name is the upper-cased name is what the search
finds (the converse of `isFileMatch_file`).
-/
namespace A2Verif.FsProdos
open A2Verif.Fs.Prodos
open A2Verif.Read.Prodos (entryAt dirChain idxPtr indexEntries readData trimName bitmapFree)
open A2Verif.Read.ProdosT

theorem getD_splice (e new : Bytes) (off j : Nat) (h : off + new.length ≤ e.length) :
    (splice e off new).getD j 0 = if off ≤ j ∧ j < off + new.length then new.getD (j - off) 0 else e.getD j 0 := by
  by_cases hin : off ≤ j ∧ j < off + new.length
  · rw [if_pos hin, getD_splice_inside _ _ _ j hin.1 hin.2 (by omega)]
  · rw [if_neg hin, getD_splice_outside _ _ _ j (by omega) (by omega)]

theorem splice_bytes (e new : Bytes) (off : Nat) (he : ∀ x ∈ e, x < 256) (hn : ∀ x ∈ new, x < 256) :
    ∀ x ∈ splice e off new, x < 256 := by
  intro x hx
  unfold splice at hx
  simp only [List.mem_append] at hx
  rcases hx with (h | h) | h
  · exact he x (List.mem_of_mem_take h)
  · exact hn x h
  · exact he x (List.mem_of_mem_drop h)

theorem take_full (e : Bytes) (h : e.length = 39) : e.take entryLen = e := List.take_of_length_le (by rw [h]; decide)

theorem sameBlocks_of_bytes (e e' : Bytes) (h0 : e'.getD 0 0 / 16 = e.getD 0 0 / 16)
    (h : ∀ j, 17 ≤ j → j ≤ 20 → e'.getD j 0 = e.getD j 0) : SameBlocks e e' :=
  ⟨h0, by unfold le16; rw [h 17 (by omega) (by omega), h 18 (by omega) (by omega)],
   by unfold le16; rw [h 19 (by omega) (by omega), h 20 (by omega) (by omega)]⟩

theorem trimName_congr (e e' : Bytes) (hl : e'.length = e.length) (h : ∀ j, j ≤ 15 → e'.getD j 0 = e.getD j 0) :
    trimName e' = trimName e := by
  unfold trimName
  rw [h 0 (by omega)]
  apply slice_congr _ _ _ _ hl
  intro j hj1 hj2
  have := Nat.mod_lt (e.getD 0 0) (by decide : 16 > 0)
  exact h j (by omega)

/-! ## the access byte: `lock` / `unlock` -/

theorem setAccess_getD (e : Bytes) (a j : Nat) (hl : e.length = 39) :
    (Ent.setAccess e a).getD j 0 = if j = 30 then a else e.getD j 0 := by
  unfold Ent.setAccess
  rw [getD_splice e [a] 30 j (by simp; omega)]
  by_cases hj : j = 30
  · subst hj; simp
  · rw [if_neg (by simp; omega), if_neg hj]

theorem setAccess_length (e : Bytes) (a : Nat) (hl : e.length = 39) : (Ent.setAccess e a).length = 39 := by
  unfold Ent.setAccess; rw [splice_length _ _ _ (by simp; omega)]; exact hl

theorem lockAcc_uniform : ∀ a : Fin 256, UniformAcc (lockAcc a.val) ∧ lockAcc a.val < 256 ∧ readerLocked (lockAcc a.val) = true := by
  decide +kernel

theorem unlockAcc_uniform : ∀ a : Fin 256, UniformAcc (unlockAcc a.val) ∧ unlockAcc a.val < 256 ∧ readerLocked (unlockAcc a.val) = false := by
  decide +kernel

/-! ## type and aux: `retype` -/

theorem retypeEntry_getD (e : Bytes) (t a j : Nat) (hl : e.length = 39) :
    (Ent.setAux (Ent.setFtype e t) a).getD j 0 =
      if j = 16 then t else if j = 31 then a % 256 else if j = 32 then a / 256 % 256 else e.getD j 0 := by
  have hl1 : (Ent.setFtype e t).length = 39 := by
    unfold Ent.setFtype; rw [splice_length _ _ _ (by simp; omega)]; exact hl
  unfold Ent.setAux
  rw [getD_splice _ (u16le a) 31 j (by unfold u16le; simp; omega)]
  unfold Ent.setFtype
  by_cases h31 : j = 31
  · subst h31; unfold u16le; simp
  · by_cases h32 : j = 32
    · subst h32; unfold u16le; simp
    · rw [if_neg (by unfold u16le; simp; omega), getD_splice e [t] 16 j (by simp; omega)]
      by_cases h16 : j = 16
      · subst h16; simp
      · rw [if_neg (by simp; omega), if_neg h16, if_neg h31, if_neg h32]

theorem retypeEntry_length (e : Bytes) (t a : Nat) (hl : e.length = 39) : (Ent.setAux (Ent.setFtype e t) a).length = 39 := by
  unfold Ent.setAux Ent.setFtype
  rw [splice_length _ _ _ (by unfold u16le; rw [splice_length _ _ _ (by simp; omega)]; simp; omega),
    splice_length _ _ _ (by simp; omega)]
  exact hl

/-! ## the name: `rename` -/

theorem upperByte_lt (c : Nat) (h : c < 256) : upperByte c < 256 := by unfold upperByte; split <;> omega

theorem nameField_length (nm : Bytes) (h : nm.length ≤ 15) : (nameField nm).length = 15 := by
  unfold nameField upper zeros; simp; omega

theorem isNameValid_bytes (nm : Bytes) (h : isNameValid nm = true) : ∀ x ∈ upper nm, x < 256 := by
  unfold isNameValid at h
  cases hu : upper nm with
  | nil => rw [hu] at h; cases h
  | cons c rest =>
    rw [hu] at h
    simp only [Bool.and_eq_true, List.all_eq_true, decide_eq_true_eq] at h
    intro x hx
    rcases List.mem_cons.mp hx with rfl | hx'
    · have := h.1.1; unfold isUpperAlpha at this; simp at this; omega
    · have := h.1.2 x hx'
      unfold isNameChar isUpperAlpha at this
      simp at this
      omega

theorem nameField_bytes (nm : Bytes) (h : isNameValid nm = true) : ∀ x ∈ nameField nm, x < 256 := by
  intro x hx
  unfold nameField zeros at hx
  rcases List.mem_append.mp hx with a | a
  · exact isNameValid_bytes nm h x a
  · rw [List.mem_replicate] at a; omega

/-- every byte of the entry `rename` stores -/
theorem renameEntry_getD (e nm : Bytes) (j : Nat) (hl : e.length = 39) (hn : nm.length ≤ 15) :
    (Ent.rename e nm).getD j 0 =
      if j = 0 then nibsOf (Ent.storageType e) nm else if j ≤ 15 then (nameField nm).getD (j - 1) 0 else e.getD j 0 := by
  have hl1 : (Ent.setStorLen e (nibsOf (Ent.storageType e) nm)).length = 39 := by
    unfold Ent.setStorLen; rw [splice_length _ _ _ (by simp; omega)]; exact hl
  unfold Ent.rename
  rw [getD_splice _ (nameField nm) 1 j (by rw [nameField_length nm hn, hl1]; omega), nameField_length nm hn]
  by_cases h0 : j = 0
  · subst h0
    rw [if_neg (by omega), if_pos rfl]
    unfold Ent.setStorLen
    rw [getD_splice e _ 0 0 (by simp; omega)]
    simp
  · by_cases h15 : j ≤ 15
    · rw [if_pos (by omega), if_neg h0, if_pos h15]
    · rw [if_neg (by omega), if_neg h0, if_neg h15]
      unfold Ent.setStorLen
      rw [getD_splice e _ 0 j (by simp; omega), if_neg (by simp; omega)]

theorem renameEntry_length (e nm : Bytes) (hl : e.length = 39) (hn : nm.length ≤ 15) : (Ent.rename e nm).length = 39 := by
  have hl1 : (Ent.setStorLen e (nibsOf (Ent.storageType e) nm)).length = 39 := by
    unfold Ent.setStorLen; rw [splice_length _ _ _ (by simp; omega)]; exact hl
  unfold Ent.rename
  rw [splice_length _ _ _ (by rw [nameField_length nm hn, hl1]; omega), hl1]

theorem storageType_file (e : Bytes) (h : e.getD 0 0 / 16 = 1 ∨ e.getD 0 0 / 16 = 2 ∨ e.getD 0 0 / 16 = 3) :
    Ent.storageType e = e.getD 0 0 / 16 := by
  unfold Ent.storageType Ent.storLen
  rcases h with h1 | h1 | h1 <;> simp only [h1] <;> rfl

/-- the trimmed name of the renamed entry is the upper-cased new name -/
theorem renameEntry_trim (e nm : Bytes) (hl : e.length = 39) (hv : isNameValid nm = true)
    (hst : e.getD 0 0 / 16 = 1 ∨ e.getD 0 0 / 16 = 2 ∨ e.getD 0 0 / 16 = 3) :
    trimName (Ent.rename e nm) = upper nm ∧ (Ent.rename e nm).getD 0 0 / 16 = e.getD 0 0 / 16 ∧
    (Ent.rename e nm).getD 0 0 < 256 := by
  obtain ⟨hn1, hn15⟩ := isNameValid_len nm hv
  have hnibs : nibsOf (Ent.storageType e) nm = e.getD 0 0 / 16 * 16 + nm.length := by
    rw [storageType_file e hst]; unfold nibsOf
    rw [Nat.mod_eq_of_lt (by omega)]
  have h0 : (Ent.rename e nm).getD 0 0 = e.getD 0 0 / 16 * 16 + nm.length := by
    rw [renameEntry_getD e nm 0 hl hn15, if_pos rfl, hnibs]
  refine ⟨?_, by rw [h0]; omega, by rw [h0]; omega⟩
  unfold trimName
  have hmod : (Ent.rename e nm).getD 0 0 % 16 = nm.length := by rw [h0]; omega
  rw [hmod]
  have hul : (upper nm).length = nm.length := by unfold upper; simp
  apply list_eq_of_getD
  · unfold slice; rw [List.length_take, List.length_drop, renameEntry_length e nm hl hn15, hul]; omega
  · intro j hj
    unfold slice at hj
    rw [List.length_take, List.length_drop, renameEntry_length e nm hl hn15] at hj
    rw [getD_slice _ _ _ _ (by omega), renameEntry_getD e nm (1 + j) hl hn15, if_neg (by omega), if_pos (by omega)]
    unfold nameField
    simp only [List.getD_eq_getElem?_getD]
    rw [show 1 + j - 1 = j by omega, List.getElem?_append_left (by omega)]

/-- **converse of `isFileMatch_file`**: an entry of one of the searched storage types whose trimmed name is the upper-cased
name is a match -/
theorem isFileMatch_of_trim (types : List Nat) (nm e : Bytes) (hl : e.length = 39) (hv : isNameValid nm = true)
    (hty : e.getD 0 0 / 16 ∈ types) (h256 : e.getD 0 0 < 256) (hname : trimName e = upper nm) :
    isFileMatch types nm e = true := by
  obtain ⟨hn1, hn15⟩ := isNameValid_len nm hv
  have hul : (upper nm).length = nm.length := by unfold upper; simp
  have hlen : e.getD 0 0 % 16 = nm.length := by
    have := congrArg List.length hname
    unfold trimName slice at this
    rw [List.length_take, List.length_drop, hl, hul] at this
    have hm := Nat.mod_lt (e.getD 0 0) (by decide : 16 > 0)
    omega
  unfold isFileMatch
  rw [List.any_eq_true]
  refine ⟨e.getD 0 0 / 16, hty, ?_⟩
  have hnibs : nibsOf (e.getD 0 0 / 16) nm = e.getD 0 0 := by
    unfold nibsOf; rw [Nat.mod_eq_of_lt (by omega)]; omega
  simp only [hnibs, Bool.and_eq_true, beq_iff_eq]
  refine ⟨rfl, ?_⟩
  rw [hlen]
  have h1 : (nameField nm).take nm.length = upper nm := by
    unfold nameField
    rw [List.take_append_of_le_length (by omega), List.take_of_length_le (by omega)]
  have h2 : (Ent.name e).take nm.length = slice e 1 nm.length := by
    unfold Ent.name slice
    rw [List.take_take, Nat.min_eq_left hn15]
  rw [h1, h2, ← hname]
  unfold trimName
  rw [hlen]

end A2Verif.FsProdos
