import A2Verif.Lemmas.FsFatWrite
import A2Verif.Lemmas.FsFatBuild
/-!
# The reader's side of a new file: the chain the write loop built is the chain the reader follows

`chain_of_isChain`: the reader's `chain` returns a link chain.  `clusterData_of_units`: a cluster whose units hold the
pieces of a block reads as that block.  `rdEnt_congr_owned`: the reading of an entry depends on FAT and image only at the
clusters it reports as owned.  `dirEnts_skip`: the reader's entries of a directory that splits at an entry the reader
passes over.
-/
namespace A2Verif.FsFat
open A2Verif A2Verif.Fs.Fat A2Verif.Read.Fat A2Verif.Read.FatT

/-- the reader follows a link chain to its end -/
theorem chain_of_isChain {f : Array Nat} {hi : Nat} : ∀ {c : Nat} {cl : List Nat}, IsChain f hi c cl → ∀ (fuel : Nat) (seen : List Nat),
    cl.Nodup → (∀ x ∈ cl, x ∉ seen) → cl.length ≤ fuel → chain f false hi fuel c seen = .ok (seen.reverse ++ cl) := by
  intro c cl h
  induction h with
  | @last c h1 h2 h3 =>
    intro fuel seen _ hs hl
    cases fuel with
    | zero => simp at hl
    | succ n =>
      rw [chain]
      have hcs : seen.contains c = false := by
        have := hs c (by simp)
        simpa using this
      rw [if_neg (by omega), hcs]
      simp only [Bool.false_eq_true, if_false, fatEntry_eq]
      have h0 : ¬ (nxt f c = 0) := by omega
      have he : isEnd false (nxt f c) = true := by rw [isEnd_false]; simpa using h3
      rw [if_neg h0, if_pos he]
      simp [pure, Except.pure]
  | @link c cl' h1 h2 h3 h4 _ ih =>
    intro fuel seen hnd hs hl
    cases fuel with
    | zero => simp at hl
    | succ n =>
      rw [chain]
      have hcs : seen.contains c = false := by
        have := hs c (by simp)
        simpa using this
      rw [if_neg (by omega), hcs]
      simp only [Bool.false_eq_true, if_false, fatEntry_eq]
      have he : ¬ (isEnd false (nxt f c) = true) := by rw [isEnd_false]; simp; omega
      rw [if_neg h3, if_neg he]
      have ⟨hc, hnd'⟩ := List.nodup_cons.mp hnd
      rw [ih n (c :: seen) hnd' ?_ (by simp at hl; omega)]
      · simp
      · intro x hx hxs
        rcases List.mem_cons.mp hxs with h | h
        · exact hc (h ▸ hx)
        · exact hs x (by simp [hx]) h

theorem IsChain.nonzero {f : Array Nat} {hi c : Nat} {cl : List Nat} (h : IsChain f hi c cl) : ∀ x ∈ cl, nxt f x ≠ 0 := by
  induction h with
  | last _ _ h3 => intro x hx; simp at hx; subst hx; omega
  | link _ _ h3 _ _ ih =>
    intro x hx
    rcases List.mem_cons.mp hx with h | h
    · subst h; exact h3
    · exact ih x h

/-- a cluster whose units hold the 512-byte pieces of `Q` reads as `Q` -/
theorem clusterData_of_units {d : Disk} (g : Geo d) {c : Nat} (hc : 2 ≤ c) {Q : Bytes} (hQ : Q.length = d.bpb.spc * 512)
    (h : ∀ i, i < d.bpb.spc → d.raw.units[d.bpb.firstClusterSec c + i]? = some ((Q.drop (i * 512)).take 512)) :
    clusterData d.raw (rbpb d.bpb) c = .ok Q := by
  unfold clusterData
  rw [firstData_eq g]
  have hfc : d.bpb.firstDataSec + (c - 2) * (rbpb d.bpb).spc = d.bpb.firstClusterSec c := by
    unfold Bpb.firstClusterSec rbpb; simp only; omega
  rw [hfc]
  show secs d.raw (d.bpb.firstClusterSec c) d.bpb.spc "cluster" = .ok Q
  rw [secs_ok]
  · congr 1
    have : (List.range d.bpb.spc).map (fun k => d.raw.units.getD (d.bpb.firstClusterSec c + k) []) =
        (List.range d.bpb.spc).map (fun j => (Q.drop (j * 512)).take 512) := by
      apply List.map_congr_left
      intro k hk
      rw [Array.getD_eq_getD_getElem?, h k (List.mem_range.mp hk)]
      rfl
    rw [this]
    exact flatten_chunks _ _ hQ
  · intro k hk
    have := h k hk
    by_cases hlt : d.bpb.firstClusterSec c + k < d.raw.units.size
    · exact hlt
    · have hn : d.raw.units[d.bpb.firstClusterSec c + k]? = none := by simp; omega
      rw [hn] at this; cases this

/-- the reading of a cluster depends on its own units only -/
theorem clusterData_congr_at {r r' : Raw} {b : Read.Fat.Bpb} {c : Nat}
    (h : ∀ i, i < b.spc → r'.units[firstData b + (c - 2) * b.spc + i]? = r.units[firstData b + (c - 2) * b.spc + i]?) :
    clusterData r' b c = clusterData r b c := by
  unfold clusterData secs
  congr 1
  apply mapM_congr'
  intro k hk
  unfold Raw.unit
  rw [h k (List.mem_range.mp hk)]

/-! ## the reading of an entry depends on FAT and image only at the clusters it owns -/

theorem fileRec_congr_owned {r r' : Raw} {b : Read.Fat.Bpb} {f f' : Array Nat} {hi : Nat} {path e : Bytes} {rec : FileRec}
    (h : fileRec r b f false hi path e = .ok rec)
    (he : ∀ x ∈ rec.owned, nxt f' x = nxt f x ∧ clusterData r' b x = clusterData r b x) :
    fileRec r' b f' false hi path e = .ok rec := by
  have hch := fileRec_owned h
  have hch' := fileChain_congr_fat hch (fun x hx => (he x hx).1)
  unfold fileRec at h ⊢
  dsimp only at h ⊢
  rw [hch] at h
  rw [hch']
  simp only [] at h ⊢
  have : rec.owned.mapM (clusterData r' b) = rec.owned.mapM (clusterData r b) :=
    mapM_congr' _ _ _ (fun x hx => (he x hx).2)
  rw [this]
  exact h

theorem readDirT_congr_owned (r r' : Raw) (b : Read.Fat.Bpb) (f f' : Array Nat) (hi : Nat) : ∀ (fuel : Nat) (buf pfx : Bytes) (recs : List FileRec),
    readDirT r b f false hi fuel buf pfx = .ok recs →
    (∀ x ∈ recs.flatMap (·.owned), nxt f' x = nxt f x ∧ clusterData r' b x = clusterData r b x) →
    readDirT r' b f' false hi fuel buf pfx = .ok recs := by
  intro fuel
  induction fuel with
  | zero => intro buf pfx recs h _; simp [readDirT] at h
  | succ n ih =>
    intro buf pfx recs h he
    rw [readDirT_succ] at h ⊢
    cases hm : (dirEnts buf).mapM (rdEnt r b f false hi n pfx) with
    | error er => rw [hm] at h; simp [bind, Except.bind] at h
    | ok R =>
      rw [hm] at h
      simp only [bind, Except.bind, pure, Except.pure] at h
      injection h with h
      subst h
      have hm' : (dirEnts buf).mapM (rdEnt r' b f' false hi n pfx) = .ok R := by
        apply mapM_congr_ok _ _ _ _ hm
        intro e y _ hy hye
        have hey : ∀ x ∈ y.flatMap (·.owned), nxt f' x = nxt f x ∧ clusterData r' b x = clusterData r b x := by
          intro x hx
          apply he
          simp only [List.mem_flatMap, List.mem_flatten] at hx ⊢
          obtain ⟨rec, hrec, hxr⟩ := hx
          exact ⟨rec, ⟨y, hy, hrec⟩, hxr⟩
        unfold rdEnt at hye ⊢
        dsimp only at hye ⊢
        by_cases hd : (e.getD 11 0 / 16) % 2 = 1
        · rw [if_pos hd] at hye ⊢
          cases hc : chain f false hi (hi + 1) (le16 e 26) [] with
          | error er => rw [hc] at hye; simp [bind, Except.bind] at hye
          | ok cl =>
            rw [hc] at hye
            simp only [bind, Except.bind] at hye ⊢
            cases hdat : cl.mapM (clusterData r b) with
            | error er => rw [hdat] at hye; simp at hye
            | ok datas =>
              rw [hdat] at hye
              simp only [] at hye
              cases hs : readDirT r b f false hi n datas.flatten (entPath pfx e) with
              | error er => rw [hs] at hye; simp at hye
              | ok sub =>
                rw [hs] at hye
                simp only [pure, Except.pure] at hye
                injection hye with hye
                subst hye
                have hcl : ∀ x ∈ cl, nxt f' x = nxt f x ∧ clusterData r' b x = clusterData r b x := fun x hx => hey x (by simp [hx])
                have hsub : ∀ x ∈ sub.flatMap (·.owned), nxt f' x = nxt f x ∧ clusterData r' b x = clusterData r b x := by
                  intro x hx
                  apply hey
                  simp only [List.flatMap_cons, List.mem_append]
                  exact Or.inr hx
                rw [chain_congr_fat f f' hi _ _ _ _ hc (by simp) (fun x hx => (hcl x hx).1)]
                have hdat' : cl.mapM (clusterData r' b) = .ok datas := by
                  rw [mapM_congr' _ _ _ (fun x hx => (hcl x hx).2)]; exact hdat
                simp only [hdat', ih _ _ _ hs hsub]
                rfl
        · rw [if_neg hd] at hye ⊢
          cases hfr : fileRec r b f false hi (entPath pfx e) e with
          | error er => rw [hfr] at hye; simp [bind, Except.bind] at hye
          | ok rec =>
            rw [hfr] at hye
            simp only [bind, Except.bind, pure, Except.pure] at hye
            injection hye with hye
            subst hye
            rw [fileRec_congr_owned hfr (fun x hx => hey x (by simp [hx]))]
            rfl
      rw [hm']
      rfl

/-- the per-entry form of `readDirT_congr_owned` -/
theorem rdEnt_congr_owned {r r' : Raw} {b : Read.Fat.Bpb} {f f' : Array Nat} {hi fuel : Nat} {pfx e : Bytes} {y : List FileRec}
    (h : rdEnt r b f false hi fuel pfx e = .ok y)
    (he : ∀ x ∈ y.flatMap (·.owned), nxt f' x = nxt f x ∧ clusterData r' b x = clusterData r b x) :
    rdEnt r' b f' false hi fuel pfx e = .ok y := by
  unfold rdEnt at h ⊢
  dsimp only at h ⊢
  by_cases hd : (e.getD 11 0 / 16) % 2 = 1
  · rw [if_pos hd] at h ⊢
    cases hc : chain f false hi (hi + 1) (le16 e 26) [] with
    | error er => rw [hc] at h; simp [bind, Except.bind] at h
    | ok cl =>
      rw [hc] at h
      simp only [bind, Except.bind] at h ⊢
      cases hdat : cl.mapM (clusterData r b) with
      | error er => rw [hdat] at h; simp at h
      | ok datas =>
        rw [hdat] at h
        simp only [] at h
        cases hs : readDirT r b f false hi fuel datas.flatten (entPath pfx e) with
        | error er => rw [hs] at h; simp at h
        | ok sub =>
          rw [hs] at h
          simp only [pure, Except.pure] at h
          injection h with h
          subst h
          have hcl : ∀ x ∈ cl, nxt f' x = nxt f x ∧ clusterData r' b x = clusterData r b x := fun x hx => he x (by simp [hx])
          have hsub : ∀ x ∈ sub.flatMap (·.owned), nxt f' x = nxt f x ∧ clusterData r' b x = clusterData r b x := by
            intro x hx
            apply he
            simp only [List.flatMap_cons, List.mem_append]
            exact Or.inr hx
          rw [chain_congr_fat f f' hi _ _ _ _ hc (by simp) (fun x hx => (hcl x hx).1)]
          have hdat' : cl.mapM (clusterData r' b) = .ok datas := by
            rw [mapM_congr' _ _ _ (fun x hx => (hcl x hx).2)]; exact hdat
          simp only [hdat', readDirT_congr_owned r r' b f f' hi _ _ _ _ hs hsub]
          rfl
  · rw [if_neg hd] at h ⊢
    cases hfr : fileRec r b f false hi (entPath pfx e) e with
    | error er => rw [hfr] at h; simp [bind, Except.bind] at h
    | ok rec =>
      rw [hfr] at h
      simp only [bind, Except.bind, pure, Except.pure] at h
      injection h with h
      subst h
      rw [fileRec_congr_owned hfr (fun x hx => he x (by simp [hx]))]
      rfl

/-! ## directories that split at an entry the reader passes over -/

theorem mapM_append_inv {ε α β : Type} (f : α → Except ε β) : ∀ (A1 A2 : List α) (res : List β),
    (A1 ++ A2).mapM f = .ok res → ∃ R1 R2, A1.mapM f = .ok R1 ∧ A2.mapM f = .ok R2 ∧ res = R1 ++ R2 := by
  intro A1
  induction A1 with
  | nil => intro A2 res h; exact ⟨[], res, rfl, h, rfl⟩
  | cons a t ih =>
    intro A2 res h
    rw [List.cons_append, List.mapM_cons] at h
    cases ha : f a with
    | error e => rw [ha] at h; cases h
    | ok b =>
      rw [ha] at h
      cases ht : (t ++ A2).mapM f with
      | error e => rw [ht] at h; cases h
      | ok rt =>
        rw [ht] at h
        injection h with h
        obtain ⟨R1, R2, e1, e2, e3⟩ := ih A2 rt ht
        refine ⟨b :: R1, R2, ?_, e2, ?_⟩
        · rw [List.mapM_cons, ha, e1]; rfl
        · rw [← h, e3]; rfl

/-- the reader's entries of a directory that splits at an entry it passes over (a deleted entry, or the end mark of a
directory with `TailZero`) -/
theorem dirEnts_skip {buf : Bytes} {E1 E2 : List Bytes} {e : Bytes} (hE : dirOfBytes buf = E1 ++ e :: E2)
    (h1 : ∀ x ∈ E1, live x) (hs : act (e :: E2) = act E2) :
    dirEnts buf = (E1.filter keep).filter (fun e => !(e.getD 0 0 = 46)) ++ (act E2).filter (fun e => !(e.getD 0 0 = 46)) := by
  rw [dirEnts_eq, hE, act_append _ _ h1, hs, List.filter_append]

theorem act_zero_tail {E : List Bytes} (h : ∀ x ∈ E, x.getD 0 0 = 0) : act E = [] := by
  cases E with
  | nil => rfl
  | cons a t => rw [act, if_pos (Or.inl (h a (by simp)))]

end A2Verif.FsFat
