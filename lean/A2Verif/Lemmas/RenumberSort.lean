import A2Verif.Lemmas.RenumberRows
/-!
Part 10 (C16): the order in which `apply_edits` applies the edits (`sortDesc`): a permutation of the edit
list, descending in `(start.line, start.character)`.
-/
namespace A2Verif.Lemmas.Renumber
open A2Verif.Model.Renumber

abbrev KE := (Nat × Nat × Nat) × Edit

theorem keyLe_iff (a b : KE) :
    keyLe a b = true ↔ a.1.1 < b.1.1 ∨ (a.1.1 = b.1.1 ∧ (a.1.2.1 < b.1.2.1 ∨ (a.1.2.1 = b.1.2.1 ∧ a.1.2.2 ≤ b.1.2.2))) := by
  obtain ⟨⟨l1, c1, i1⟩, e1⟩ := a
  obtain ⟨⟨l2, c2, i2⟩, e2⟩ := b
  simp [keyLe]

theorem keyLe_total (a b : KE) : keyLe a b = false → keyLe b a = true := by
  intro h
  have h' : ¬ keyLe a b = true := by simp [h]
  rw [keyLe_iff] at h' ⊢
  omega

theorem keyLe_trans (a b c : KE) : keyLe a b = true → keyLe b c = true → keyLe a c = true := by
  rw [keyLe_iff, keyLe_iff, keyLe_iff]
  omega

theorem insertKey_perm (x : KE) (ys : List KE) : (insertKey x ys).Perm (x :: ys) := by
  induction ys with
  | nil => exact List.Perm.refl _
  | cons y ys ih =>
    unfold insertKey
    split
    · exact List.Perm.refl _
    · exact ((List.Perm.cons y ih).trans (List.Perm.swap x y ys))

theorem sortKeys_perm (xs : List KE) : (sortKeys xs).Perm xs := by
  induction xs with
  | nil => exact List.Perm.refl _
  | cons x xs ih =>
    unfold sortKeys at ih ⊢
    rw [List.foldr_cons]
    exact (insertKey_perm x _).trans (List.Perm.cons x ih)

theorem insertKey_sorted (x : KE) (ys : List KE) (h : ys.Pairwise (fun a b => keyLe a b = true)) :
    (insertKey x ys).Pairwise (fun a b => keyLe a b = true) := by
  induction ys with
  | nil => simp [insertKey]
  | cons y ys ih =>
    have h' := List.pairwise_cons.mp h
    unfold insertKey
    split
    · rename_i hxy
      refine List.pairwise_cons.mpr ⟨?_, h⟩
      intro z hz
      rcases List.mem_cons.mp hz with rfl | hz
      · exact hxy
      · exact keyLe_trans _ _ _ hxy (h'.1 z hz)
    · rename_i hxy
      refine List.pairwise_cons.mpr ⟨?_, ih h'.2⟩
      intro z hz
      rcases List.mem_cons.mp ((insertKey_perm x ys).mem_iff.mp hz) with rfl | hz
      · exact keyLe_total _ _ (by simpa using hxy)
      · exact h'.1 z hz

theorem sortKeys_sorted (xs : List KE) : (sortKeys xs).Pairwise (fun a b => keyLe a b = true) := by
  induction xs with
  | nil => simp [sortKeys]
  | cons x xs ih =>
    unfold sortKeys at ih ⊢
    rw [List.foldr_cons]
    exact insertKey_sorted x _ ih

theorem keyed_map_snd (es : List Edit) : (keyed es).map (·.2) = es := by
  unfold keyed
  rw [List.map_map]
  have : ((fun x : KE => x.2) ∘ fun x : Edit × Nat => ((x.1.rng.s.line, x.1.rng.s.ch, x.2), x.1)) = Prod.fst := by
    funext x; rfl
  rw [this, List.zipIdx_map_fst]

theorem keyed_consistent (es : List Edit) : ∀ x ∈ keyed es, x.1.1 = x.2.rng.s.line ∧ x.1.2.1 = x.2.rng.s.ch := by
  intro x hx
  unfold keyed at hx
  obtain ⟨y, _, rfl⟩ := List.mem_map.mp hx
  exact ⟨rfl, rfl⟩

/-- `apply_edits` applies a permutation of the edit list -/
theorem sortDesc_perm (es : List Edit) : (sortDesc es).Perm es := by
  unfold sortDesc
  refine (List.reverse_perm _).trans ?_
  have := (sortKeys_perm (keyed es)).map (·.2)
  rw [keyed_map_snd] at this
  exact this

/-- `a` does not come after `b` in `(row, start column)` order -/
def EditGe (a b : Edit) : Prop :=
  b.rng.s.line < a.rng.s.line ∨ (b.rng.s.line = a.rng.s.line ∧ b.rng.s.ch ≤ a.rng.s.ch)

/-- … in descending `(start.line, start.character)` order -/
theorem sortDesc_sorted (es : List Edit) : (sortDesc es).Pairwise EditGe := by
  unfold sortDesc
  rw [List.pairwise_reverse, List.pairwise_map]
  refine List.Pairwise.imp_of_mem ?_ (sortKeys_sorted (keyed es))
  intro a b ha hb hab
  have ca := keyed_consistent es a ((sortKeys_perm _).mem_iff.mp ha)
  have cb := keyed_consistent es b ((sortKeys_perm _).mem_iff.mp hb)
  rw [keyLe_iff] at hab
  unfold EditGe
  omega

end A2Verif.Lemmas.Renumber
