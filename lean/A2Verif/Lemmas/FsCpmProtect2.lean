import A2Verif.Lemmas.FsCpmProtect1
/-!
# `protect` / `unprotect`: the entry loops, and the common abstract half
-/
namespace A2Verif.FsCpm
open A2Verif.Fs.Cpm
open A2Verif.Read.Cpm (Dpb fileKey extNum entryPtrs pathOf slots trimR)

/-! ## the password entry -/

theorem passwordCreate_facts (password : Bytes) (user : Nat) (name : Bytes) (rd wr del : Bool) :
    (passwordCreate password user name rd wr del).length = 32 ∧ (passwordCreate password user name rd wr del).getD 0 0 = user + 16 ∧
    slice (passwordCreate password user name rd wr del) 1 11 = (stringToFileName name).1 ++ (stringToFileName name).2 := by
  obtain ⟨hb, ht⟩ := s2fn_lengths name
  unfold passwordCreate
  generalize stringToFileName name = p at hb ht ⊢
  obtain ⟨nm, ty⟩ := p
  simp only [] at hb ht ⊢
  have henc : (stringToPassword password).2.length = 8 := by
    unfold stringToPassword
    simp only [List.length_reverse, List.length_map]
    exact padTo_length _ _
  generalize stringToPassword password = q at henc ⊢
  obtain ⟨decoder, enc⟩ := q
  simp only [] at henc ⊢
  refine ⟨?_, ?_, ?_⟩
  · simp only [List.length_append, List.length_cons, List.length_nil, List.length_replicate, hb, ht, henc]
  · simp
  · unfold slice
    simp only [List.append_assoc, List.singleton_append]
    rw [List.cons_append, List.drop_succ_cons, List.drop_zero, ← List.append_assoc nm ty,
      List.take_append_of_le_length (by simp [hb, ht]), List.take_of_length_le (by simp [hb, ht])]

/-! ## `protect`: replacing the password entry of the file -/

/-- the test `protect`/`unprotect` use to recognise the password entry of `(user, nm, ty)` -/
def pwHit (user : Nat) (nm ty : Bytes) (e : Bytes) : Bool :=
  isPassword e && status e == user + 16 && slice e 1 8 == nm && slice e 9 3 == ty

theorem pwHit_facts {user : Nat} {nm ty e : Bytes} (h : pwHit user nm ty e = true) :
    isExtent e = false ∧ e.getD 0 0 = user + 16 ∧ slice e 1 11 = nm ++ ty := by
  unfold pwHit at h
  simp only [Bool.and_eq_true, beq_iff_eq] at h
  obtain ⟨⟨⟨h1, h2⟩, h3⟩, h4⟩ := h
  refine ⟨?_, h2, ?_⟩
  · unfold isPassword at h1
    simp only [Bool.and_eq_true, decide_eq_true_eq] at h1
    unfold isExtent
    simp only [USER_END, decide_eq_false_iff_not] at h1 ⊢
    omega
  · rw [show (11 : Nat) = 8 + 3 from rfl, slice_add, h3, h4]

theorem protectUpdate_spec {user : Nat} {nm ty newPx : Bytes} : ∀ {dir dir' : Dir}, protectUpdate user nm ty newPx dir = some dir' →
    dir'.length = dir.length ∧ ∀ (j : Nat) (a b : Bytes), dir'[j]? = some a → dir[j]? = some b →
      a = b ∨ (a = newPx ∧ pwHit user nm ty b = true)
  | [], _, h => by unfold protectUpdate at h; cases h
  | e :: rest, dir', h => by
    unfold protectUpdate at h
    by_cases c : (isPassword e && status e == user + 16 && slice e 1 8 == nm && slice e 9 3 == ty) = true
    · rw [if_pos c] at h
      cases h
      refine ⟨rfl, fun j a b ha hb => ?_⟩
      cases j with
      | zero =>
        simp only [List.getElem?_cons_zero, Option.some.injEq] at ha hb
        subst ha; subst hb
        exact Or.inr ⟨rfl, c⟩
      | succ j =>
        simp only [List.getElem?_cons_succ] at ha hb
        rw [ha] at hb; cases hb; exact Or.inl rfl
    · rw [if_neg c] at h
      cases hr : protectUpdate user nm ty newPx rest with
      | none => rw [hr] at h; cases h
      | some rest' =>
        rw [hr] at h
        simp only [Option.map_some, Option.some.injEq] at h
        subst h
        obtain ⟨i1, i2⟩ := protectUpdate_spec hr
        refine ⟨by simp [i1], fun j a b ha hb => ?_⟩
        cases j with
        | zero =>
          simp only [List.getElem?_cons_zero, Option.some.injEq] at ha hb
          subst ha; subst hb; exact Or.inl rfl
        | succ j =>
          simp only [List.getElem?_cons_succ] at ha hb
          exact i2 j a b ha hb

/-! ## `protect`: a new password entry -/

theorem labProtect_facts {e : Bytes} (he : e.length = 32) (hl : isLabel e = true) :
    (Lab.protect e).length = 32 ∧ status (Lab.protect e) = 32 := by
  have hs : status e = 32 := by unfold isLabel at hl; simpa using hl
  unfold Lab.protect Lab.setMode
  refine ⟨by rw [splice_length (by rw [he]; simp), he], ?_⟩
  unfold status at hs ⊢
  rw [splice_getD0 (by omega) (by omega)]
  exact hs

theorem deleted_status {e : Bytes} (h : getType e = .deleted) : status e = 229 := by
  unfold getType typeOfStatus at h
  split at h
  · cases h
  · split at h
    · cases h
    · split at h
      · cases h
      · split at h
        · cases h
        · split at h
          · assumption
          · cases h

theorem protectNew_spec {newPx : Bytes} : ∀ (l done : List Bytes) (c : Nat) (dir' : Dir), (∀ e ∈ l, e.length = 32) →
    protectNew newPx l done c = some dir' →
    ∃ l', dir' = done ++ l' ∧ l'.length = l.length ∧ ∀ (j : Nat) (a b : Bytes), l'[j]? = some a → l[j]? = some b →
      a = b ∨ (isLabel b = true ∧ a = Lab.protect b) ∨ (status b = 229 ∧ a = newPx)
  | [], _, _, _, _, h => by unfold protectNew at h; cases h
  | e :: rest, done, c, dir', hl, h => by
    have he := hl e List.mem_cons_self
    have hrest : ∀ x ∈ rest, x.length = 32 := fun x hx => hl x (List.mem_cons_of_mem _ hx)
    unfold protectNew at h
    simp only [] at h
    -- the entry that takes the place of `e`
    have key : ∀ (e2 : Bytes) (c2 : Nat),
        ((if getType (if isLabel e then (Lab.protect e, c + 1) else (e, c)).1 = .deleted then
            (newPx, (if isLabel e then (Lab.protect e, c + 1) else (e, c)).2 + 1)
          else ((if isLabel e then (Lab.protect e, c + 1) else (e, c)).1, (if isLabel e then (Lab.protect e, c + 1) else (e, c)).2)) = (e2, c2)) →
        e2 = e ∨ (isLabel e = true ∧ e2 = Lab.protect e) ∨ (status e = 229 ∧ e2 = newPx) := by
      intro e2 c2 hq
      by_cases cl : isLabel e = true
      · rw [if_pos cl] at hq
        simp only [] at hq
        have : getType (Lab.protect e) ≠ .deleted := by
          unfold getType
          rw [(labProtect_facts he cl).2]
          decide
        rw [if_neg this] at hq
        cases hq
        exact Or.inr (Or.inl ⟨cl, rfl⟩)
      · rw [if_neg cl] at hq
        simp only [] at hq
        by_cases cd : getType e = .deleted
        · rw [if_pos cd] at hq
          cases hq
          exact Or.inr (Or.inr ⟨deleted_status cd, rfl⟩)
        · rw [if_neg cd] at hq
          cases hq
          exact Or.inl rfl
    generalize hq : (if getType (if isLabel e then (Lab.protect e, c + 1) else (e, c)).1 = .deleted then
            (newPx, (if isLabel e then (Lab.protect e, c + 1) else (e, c)).2 + 1)
          else ((if isLabel e then (Lab.protect e, c + 1) else (e, c)).1, (if isLabel e then (Lab.protect e, c + 1) else (e, c)).2)) = q at h
    obtain ⟨e2, c2⟩ := q
    have hR := key e2 c2 hq
    simp only [] at h
    by_cases c22 : c2 = 2
    · rw [if_pos c22] at h
      cases h
      refine ⟨e2 :: rest, by simp, by simp, fun j a b ha hb => ?_⟩
      cases j with
      | zero =>
        simp only [List.getElem?_cons_zero, Option.some.injEq] at ha hb
        subst ha; subst hb
        exact hR
      | succ j =>
        simp only [List.getElem?_cons_succ] at ha hb
        rw [ha] at hb; cases hb; exact Or.inl rfl
    · rw [if_neg c22] at h
      obtain ⟨l'', e1, e2', e3⟩ := protectNew_spec rest (done ++ [e2]) c2 dir' hrest h
      refine ⟨e2 :: l'', by rw [e1]; simp, by simp [e2'], fun j a b ha hb => ?_⟩
      cases j with
      | zero =>
        simp only [List.getElem?_cons_zero, Option.some.injEq] at ha hb
        subst ha; subst hb
        exact hR
      | succ j =>
        simp only [List.getElem?_cons_succ] at ha hb
        exact e3 j a b ha hb

/-! ## the abstract half, common to `protect` and `unprotect` -/

/-- a file entry with the key of `(u, name)` shows the path `canon x` -/
theorem key_path {d : Dpb} {r : Raw} (h : Inv d r) {x name base ext e : Bytes} {u : Nat} (hu : u < 16) (np : NameParts name base ext)
    (hck : canonKey x = decDigits u ++ [58] ++ (upper base ++ [46] ++ upper ext)) (he : e ∈ fents d r)
    (hk : fileKey e = newKey u (stringToFileName name).1 (stringToFileName name).2) : pathOf e = canon x := by
  have hl := dirOf_entry_length h.shape h.dpb e (mem_fents.1 he).1
  obtain ⟨hb8, ht3⟩ := s2fn_lengths name
  rw [key_split] at hk
  unfold newKey at hk
  simp only [List.cons.injEq] at hk
  obtain ⟨h0, hnt⟩ := hk
  obtain ⟨hn, ht⟩ := List.append_inj hnt (by rw [(fields_len hl).1, List.length_map, hb8])
  exact hdr_path hu np hck ⟨hl, h0, hn, ht, (h.clean e he).b9⟩

/-- what both operations have in common: non-file entries replaced by non-file entries that can be the password entry of the
key `Knew` only -/
structure PwStep (Knew : List Nat) (b a : Bytes) : Prop where
  xb : isExtent b = false
  xa : isExtent a = false
  len : a.length = 32
  na : PwNeutral Knew a
  nb : PwNeutral Knew b

variable {d : Dpb} {r r' : Raw} {res : R Unit} {dir' : Dir} {x name : Bytes} {u : Nat}

/-- every record whose path is not `canon x` is read as before; records keep everything but the password bit -/
theorem pwop_files (h : Inv d r) (hsplit : splitUserFilename x = .ok (u, name)) (hvalid : isNameValid name = true)
    (hlen : dir'.length = (dirOf d r).length)
    (hstep : ∀ (j : Nat) (a b : Bytes), dir'[j]? = some a → (dirOf d r)[j]? = some b →
      a = b ∨ PwStep (newKey u (stringToFileName name).1 (stringToFileName name).2) b a)
    (hsave : saveDirectory d r dir' = (res, r')) :
    res = .ok () ∧ Inv d r' ∧ filesOf d r' = (keys d r).map (fun k => recOf r d dir' (esOf d r k)) ∧
      ∀ k ∈ keys d r, (recOf r d (dirOf d r) (esOf d r k)).path ≠ canon x →
        recOf r d dir' (esOf d r k) = recOf r d (dirOf d r) (esOf d r k) := by
  obtain ⟨hu, hcanon⟩ := split_ok hsplit
  obtain ⟨base, ext, np, hck⟩ := canonKey_ok hu hsplit hvalid hcanon
  obtain ⟨hres, hinv', hfiles'⟩ := nf_spec h hlen (fun j a b ha hb => by
    rcases hstep j a b ha hb with e | p
    · exact Or.inl e
    · exact Or.inr ⟨p.xb, p.xa, p.len⟩) hsave
  refine ⟨hres, hinv', hfiles', fun k hk hp => ?_⟩
  obtain ⟨e0, rest, hes, hm, hkey⟩ := esOf_head hk
  apply recOf_congr (fun _ _ _ _ => rfl)
  rw [hes]
  simp only [List.headD_cons]
  apply pw_other (K := newKey u (stringToFileName name).1 (stringToFileName name).2) hlen _ (mem_fents.1 hm).2
  · intro hkn
    apply hp
    show pathOf ((esOf d r k).headD []) = canon x
    rw [hes]
    exact key_path h hu np hck hm hkn
  · intro j a b ha hb
    rcases hstep j a b ha hb with e | p
    · exact Or.inl e
    · exact Or.inr ⟨p.na, p.nb⟩

/-- the step when a file `canon x` exists: a `retype` in the sense of the specification (content kept, nothing else changed) -/
theorem pwop_retype (h : Inv d r) (hinv' : Inv d r')
    (hfiles' : filesOf d r' = (keys d r).map (fun k => recOf r d dir' (esOf d r k)))
    (hsame : ∀ k ∈ keys d r, (recOf r d (dirOf d r) (esOf d r k)).path ≠ canon x →
        recOf r d dir' (esOf d r k) = recOf r d (dirOf d r) (esOf d r k))
    {f : FileRec} (hf : (volOf d r).lookup (canon x) = some f) :
    stepOk (cpmParams d) (volOf d r) (.retype (canon x)) true (volOf d r') = true := by
  obtain ⟨hm, hq⟩ := lookup_some hf
  have hm' : f ∈ (keys d r).map (fun k => recOf r d (dirOf d r) (esOf d r k)) := hm
  rw [List.mem_map] at hm'
  obtain ⟨K0, hK0, rfl⟩ := hm'
  have ndpre : ((keys d r).map (fun k => (recOf r d (dirOf d r) (esOf d r k)).path)).Nodup := by
    have := wfB_paths_nodup (volOf_wf h)
    unfold Vol.paths at this
    have e : (volOf d r).files = (keys d r).map (fun k => recOf r d (dirOf d r) (esOf d r k)) := rfl
    rw [e, List.map_map] at this
    exact this
  obtain ⟨l1, l2, l3⟩ := touched_lookups (keys d r) (fun k => recOf r d (dirOf d r) (esOf d r k))
    (fun k => recOf r d dir' (esOf d r k)) K0 hK0 rfl hfiles'
    (fun k hk hne => hsame k hk (fun hp => hne (nodup_map_inj ndpre hk hK0 (by rw [hp, hq]))))
    rfl (volOf_wf h) (volOf_wf hinv')
  rw [hq] at l1 l2 l3
  simp only [stepOk, stepConds, List.all_cons, List.all_nil, Bool.and_true, Bool.and_eq_true]
  refine ⟨volOf_wf hinv', by rw [l1]; rfl, ?_, l3⟩
  rw [l1, l2]
  obtain ⟨_, c1, c2, c3, _, _, c6, _⟩ := recOf_ents_fields r d (dirOf d r) dir' (esOf d r K0)
  simp [c1, c2, c3, c6]

/-- the step when no file `canon x` exists: nothing in the reading changes -/
theorem pwop_other (h : Inv d r) (hinv' : Inv d r')
    (hfiles' : filesOf d r' = (keys d r).map (fun k => recOf r d dir' (esOf d r k)))
    (hsame : ∀ k ∈ keys d r, (recOf r d (dirOf d r) (esOf d r k)).path ≠ canon x →
        recOf r d dir' (esOf d r k) = recOf r d (dirOf d r) (esOf d r k))
    (hf : (volOf d r).lookup (canon x) = none) :
    stepOk (cpmParams d) (volOf d r) .other true (volOf d r') = true := by
  have hfe : (volOf d r').files = (volOf d r).files := by
    show filesOf d r' = filesOf d r
    rw [hfiles']
    unfold filesOf
    apply List.map_congr_left
    intro k hk
    apply hsame k hk
    intro hp
    apply find_path_none.1 hf
    show canon x ∈ (filesOf d r).map (·.path)
    unfold filesOf
    rw [List.map_map, List.mem_map]
    exact ⟨k, hk, hp⟩
  simp only [stepOk, stepConds, List.all_cons, List.all_nil, Bool.and_true, Bool.and_eq_true]
  refine ⟨volOf_wf hinv', ?_⟩
  rw [hfe]
  exact sameFiles_refl (wfB_paths_nodup (volOf_wf h))

/-- content, length, blocks and the read-only flag of every file are as before -/
theorem pwop_kept (hinv' : Inv d r')
    (hfiles' : filesOf d r' = (keys d r).map (fun k => recOf r d dir' (esOf d r k))) : ContentKept (volOf d r) (volOf d r') := by
  intro q f hf
  obtain ⟨k, _, rfl, hl⟩ := lookups_fieldwise (keys d r) (fun k => recOf r d (dirOf d r) (esOf d r k))
    (fun k => recOf r d dir' (esOf d r k)) rfl hfiles' (fun _ _ => rfl) (volOf_wf hinv') hf
  exact ⟨_, hl, rfl, rfl, rfl, rfl, rfl⟩

end A2Verif.FsCpm
