import A2Verif.Lemmas.RenumberPlace
import A2Verif.Lemmas.RenumberIns
/-!
Part 19 (C16): from a successful `plan` that moves to the hypotheses of `MoveCtx`.
-/
namespace A2Verif.Lemmas.Renumber
open A2Verif.Model.Renumber

theorem plan_endPos {allTxt : List Nat} {defs refs : List (Nat × Label)} {extSel : Option Range} {p : Params}
    {pl : Plan} (h : plan allTxt defs refs extSel p = .ok pl) :
    ∃ last, (splitLines allTxt).getLast? = some last ∧
      pl.endPos = ⟨(splitLines allTxt).length - 1, last.length⟩ := by
  unfold plan at h
  simp only [] at h
  split at h
  · cases h
  split at h
  · cases h
  split at h
  · cases h
  rename_i last hlast
  cases hn : normSel (splitLines allTxt) ⟨(splitLines allTxt).length - 1, last.length⟩ extSel with
  | err => simp [hn, Res.bind] at h
  | panic => simp [hn, Res.bind] at h
  | ok sel =>
    simp only [hn, Res.bind] at h
    split at h
    · cases h
    split at h
    · cases h
    split at h
    · cases h
    split at h
    · cases h
    split at h
    · cases h
    injection h with h
    subst h
    exact ⟨last, hlast, rfl⟩

theorem getLast?_getElem? {α : Type} (l : List α) (x : α) (h : l.getLast? = some x) : l[l.length - 1]? = some x := by
  rw [List.getLast?_eq_getElem?] at h; exact h

/-- where the block goes: inside the text, in front of a non-blank row (or behind the last row), and outside
the rows `a+1 .. b+1`; `ins0` is `insert_pos.line` before the blank-line loop -/
theorem ins_cases (sel : Range) (l0 ln : Nat) (defs : List (Nat × Label)) (rows : List (List Nat)) (ins0 : Nat)
    (hck : checkLoop sel l0 ln (group defs) 0 = some ins0) (hok : ∀ x ∈ defs, labelOK rows x = true)
    (hdefa : ∃ d ∈ defs, d.2.rng.s.line = sel.s.line) :
    ins0 ≤ pushBlank rows 0 ins0 ∧
      pushBlank rows 0 ins0 ≤ rows.length ∧ (∀ l, rows[pushBlank rows 0 ins0]? = some l → isBlank l = false) ∧
      ((ins0 ≤ sel.s.line ∧ pushBlank rows 0 ins0 ≤ sel.s.line) ∨ sel.e.line + 2 ≤ ins0) := by
  obtain ⟨_, _, hatt⟩ := checkLoop_ins hck
  obtain ⟨p1, p2, p3, p4⟩ := pushBlank_spec rows 0 ins0 (Nat.zero_le _)
  simp only [Nat.sub_zero, Nat.zero_add] at p2 p3 p4
  have hins0 : ins0 ≤ rows.length ∧ (ins0 ≤ sel.s.line ∨ sel.e.line + 2 ≤ ins0) := by
    rcases hatt with h0 | ⟨q, i0, hm, hout, _, h0⟩
    · omega
    · have hmem : (q, i0) ∈ defs := (memG_group defs q i0).mp ⟨[i0], hm, by simp⟩
      obtain ⟨l, hl, he, _, _⟩ := labelOK_geom (hok _ hmem)
      dsimp only at hl he
      have hlt : i0.rng.s.line < rows.length := by
        rcases Nat.lt_or_ge i0.rng.s.line rows.length with h' | h'
        · exact h'
        · rw [List.getElem?_eq_none h'] at hl; cases hl
      unfold onSelRows at hout
      omega
  refine ⟨p1, by omega, p3, ?_⟩
  rcases hins0.2 with h0 | h0
  · left
    refine ⟨h0, ?_⟩
    apply Classical.byContradiction
    intro hgt
    obtain ⟨l, hl, hb⟩ := p2 sel.s.line h0 (by omega)
    obtain ⟨d, hd, hrow⟩ := hdefa
    obtain ⟨l', hl', hb'⟩ := labelOK_nonblank (hok d hd)
    rw [hrow, hl] at hl'
    injection hl' with hl'
    subst hl'
    rw [hb] at hb'; cases hb'
  · right; exact h0

theorem plan_ins_cases {allTxt : List Nat} {defs refs : List (Nat × Label)} {ext : Option Range} {p : Params}
    {pl : Plan} (h : plan allTxt defs refs ext p = .ok pl) (rows : List (List Nat))
    (hsplit : splitLines allTxt = rows) (hok : ∀ x ∈ defs, labelOK rows x = true)
    (hdefa : ∃ d ∈ defs, d.2.rng.s.line = pl.sel.s.line) :
    ∃ ins0, checkLoop pl.sel p.l0 (lastNum p pl.sel defs) (group defs) 0 = some ins0 ∧
      pl.ins = pushBlank rows 0 ins0 ∧ ins0 ≤ pl.ins ∧
      pl.ins ≤ rows.length ∧ (∀ l, rows[pl.ins]? = some l → isBlank l = false) ∧
      ((ins0 ≤ pl.sel.s.line ∧ pl.ins ≤ pl.sel.s.line) ∨ pl.sel.e.line + 2 ≤ ins0) := by
  have f := plan_ok_inv h
  obtain ⟨ins0, hck, hins⟩ := f.check
  rw [hsplit] at hins
  obtain ⟨h1, h2, h3, h4⟩ := ins_cases pl.sel _ _ defs rows ins0 hck hok hdefa
  rw [← hins] at h1 h2 h3 h4
  exact ⟨ins0, hck, hins, h1, h2, h3, h4⟩

theorem plan_ins_facts {allTxt : List Nat} {defs refs : List (Nat × Label)} {ext : Option Range} {p : Params}
    {pl : Plan} (h : plan allTxt defs refs ext p = .ok pl) (rows : List (List Nat))
    (hsplit : splitLines allTxt = rows) (hok : ∀ x ∈ defs, labelOK rows x = true)
    (hdefa : ∃ d ∈ defs, d.2.rng.s.line = pl.sel.s.line) :
    pl.ins ≤ rows.length ∧ (∀ l, rows[pl.ins]? = some l → isBlank l = false) ∧
      (pl.ins ≤ pl.sel.s.line ∨ pl.sel.e.line + 2 ≤ pl.ins) := by
  obtain ⟨ins0, _, _, h1, h2, h3, h4⟩ := plan_ins_cases h rows hsplit hok hdefa
  refine ⟨h2, h3, ?_⟩
  rcases h4 with h4 | h4
  · exact Or.inl h4.2
  · right; omega

theorem isBlank_false_ne_nil {l : List Nat} (h : isBlank l = false) : l ≠ [] := by
  intro hl; subst hl; cases h

/-- the label edits outside the selection -/
theorem plan_unsel_facts {allTxt : List Nat} {defs refs : List (Nat × Label)} {ext : Option Range} {p : Params}
    {pl : Plan} (h : plan allTxt defs refs ext p = .ok pl) (hu : p.updateRefs = true) (rows : List (List Nat))
    (hok : ∀ x ∈ refs, labelOK rows x = true) :
    ∀ ed ∈ pl.unselEdits, ed.rng.e.line = ed.rng.s.line ∧ NoNl ed.new ∧ ed.rng.s.ch < ed.rng.e.ch ∧ ed.new ≠ [] ∧
      ¬ (pl.sel.s.line ≤ ed.rng.s.line ∧ ed.rng.s.line ≤ pl.sel.e.line) ∧
      ∃ l, rows[ed.rng.s.line]? = some l ∧ ed.rng.e.ch ≤ l.length := by
  have f := plan_ok_inv h
  intro ed hed
  rw [f.unselEdits, if_pos hu] at hed
  obtain ⟨s, item, n, hm, _, hkeep, rfl⟩ := (mem_secEdits _ _ _ _).mp hed
  have hmem : (s, item) ∈ refs := (memG_group refs s item).mp hm
  obtain ⟨l, hl, he, h3, h4⟩ := labelOK_geom (hok _ hmem)
  obtain ⟨hn1, hn2⟩ := applyMapping_new n item
  dsimp only at hl he h3 h4
  simp only [Bool.or_eq_true, decide_eq_true_eq] at hkeep
  refine ⟨he, hn1, h3, hn2, ?_, l, hl, h4⟩
  simp only [applyMapping]
  omega

/-- **the situation of a move, from `plan`.**  `B` is the pre-edited block, `updated` its text. -/
theorem moveCtx_of_plan {allTxt : List Nat} {defs refs : List (Nat × Label)} {ext : Option Range} {p : Params}
    {pl : Plan} (h : plan allTxt defs refs ext p = .ok pl) (hu : p.updateRefs = true) (rows : List (List Nat))
    (hsplit : splitLines allTxt = rows) (hnl : ∀ l ∈ rows, NoNl l)
    (hok : ∀ x ∈ defs ++ refs, labelOK rows x = true)
    (hpw : (defs ++ refs).Pairwise DisjX)
    (hmv : pl.ins ≠ pl.sel.s.line) (hab : pl.sel.s.line ≤ pl.sel.e.line)
    (hdefa : ∃ d ∈ defs, d.2.rng.s.line = pl.sel.s.line) (hdefb : ∃ d ∈ defs, d.2.rng.s.line = pl.sel.e.line)
    (B : List (List Nat)) (hB : ∀ x ∈ B, NoNl x) (hBlen : B.length = pl.sel.e.line + 1 - pl.sel.s.line)
    (updated : List Nat)
    (hupd : updated = if pl.lineSep = [CR, LF] then lfToCrlf (joinT B) else joinT B) :
    ∃ last, pl.endPos = ⟨rows.length - 1, last.length⟩ ∧
      MoveCtx rows pl.sel.s.line pl.sel.e.line pl.ins last pl.lineSep updated B pl.unselEdits := by
  have f := plan_ok_inv h
  obtain ⟨last, hlast, hend⟩ := plan_endPos h
  rw [hsplit] at hlast hend
  have hokd : ∀ x ∈ defs, labelOK rows x = true := fun x hx => hok x (List.mem_append_left _ hx)
  have hokr : ∀ x ∈ refs, labelOK rows x = true := fun x hx => hok x (List.mem_append_right _ hx)
  obtain ⟨i1, i2, i3⟩ := plan_ins_facts h rows hsplit hokd hdefa
  have hrowR : ∀ x ∈ refs, x.2.rng.e.line = x.2.rng.s.line := by
    intro x hx
    obtain ⟨_, _, h2, _⟩ := labelOK_geom (hokr x hx)
    exact h2
  refine ⟨last, hend, ?_⟩
  obtain ⟨db, hdb, hrowb⟩ := hdefb
  obtain ⟨lb, hlb, hbb⟩ := labelOK_nonblank (hokd db hdb)
  rw [hrowb] at hlb
  have hbL : pl.sel.e.line < rows.length := by
    rcases Nat.lt_or_ge pl.sel.e.line rows.length with h' | h'
    · exact h'
    · rw [List.getElem?_eq_none h'] at hlb; cases hlb
  constructor
  · exact hnl
  · exact hab
  · exact hbL
  · omega
  · exact i1
  · exact getLast?_getElem? rows last hlast
  · rcases f.lineSepOk with hs | hs <;> rw [hs] <;> rfl
  · rw [hupd]
    have hcr : NoCR (joinT B) := noCR_isDoc (⟨hB, by simp⟩ : IsDoc (joinT B) B true)
    split
    · exact crlfToLf_lfToCrlf _ hcr
    · exact crlfToLf_noCR _ hcr
  · exact hB
  · intro hnil
    rw [hnil] at hBlen
    simp at hBlen
    omega
  · intro l hl
    exact isBlank_false_ne_nil (i2 l hl)
  · intro l hl
    rw [hlb] at hl
    injection hl with hl
    subst hl
    exact isBlank_false_ne_nil hbb
  · exact plan_unsel_facts h hu rows hokr
  · have := edits_pairwise pl.mapping pl.sel defs refs hpw hrowR
    rw [f.unselEdits, if_pos hu]
    exact (List.pairwise_append.mp this).2.1

end A2Verif.Lemmas.Renumber
