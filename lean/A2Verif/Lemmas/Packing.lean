import A2Verif.Model.Packing
/-! Helper lemmas for C13 part 1 (`FileImage` core, bin/tok/raw packers).  Core Lean only. -/
namespace A2Verif.Packing

/-! ### chunks -/

theorem chunksFrom_succ (fuel n idx : Nat) (d : Bytes) :
    chunksFrom (fuel+1) n idx d =
      if d.length ≤ n then [(idx, d)] else (idx, d.take n) :: chunksFrom fuel n (idx+1) (d.drop n) := by
  have h : (d.drop n).isEmpty = decide (d.length ≤ n) := by
    by_cases hd : d.length ≤ n
    · simp [hd, List.drop_eq_nil_iff]
    · simp [hd]
  simp only [chunksFrom, h, decide_eq_true_eq]

theorem seqChunks_chunksFrom (n : Nat) (hn : 0 < n) :
    ∀ (fuel idx : Nat) (d : Bytes), d.length ≤ fuel → seqChunks (chunksFrom fuel n idx d) = d := by
  intro fuel
  induction fuel with
  | zero =>
    intro idx d h
    have : d = [] := List.eq_nil_of_length_eq_zero (by omega)
    simp [chunksFrom, seqChunks, this]
  | succ fuel ih =>
    intro idx d h
    rw [chunksFrom_succ]
    by_cases hd : d.length ≤ n
    · simp [hd, seqChunks]
    · simp only [hd, if_false, seqChunks]
      rw [ih]
      · exact List.take_append_drop n d
      · simp only [List.length_drop]; omega

/-- the first chunk is the first `n` bytes -/
theorem getChunk_chunksFrom_zero (n fuel : Nat) (d : Bytes) (hf : 0 < fuel) :
    getChunk (chunksFrom fuel n 0 d) 0 = some (d.take n) := by
  cases fuel with
  | zero => omega
  | succ fuel =>
    rw [chunksFrom_succ]
    by_cases hd : d.length ≤ n
    · simp [hd, getChunk, List.take_of_length_le hd]
    · simp [hd, getChunk]

/-- keys produced by `desequence` are consecutive from `idx` -/
theorem chunksFrom_keys (n : Nat) (hn : 0 < n) :
    ∀ (fuel idx : Nat) (d : Bytes), d.length ≤ fuel → d ≠ [] →
      (chunksFrom fuel n idx d).map Prod.fst = List.range' idx ((d.length + n - 1) / n) := by
  intro fuel
  induction fuel with
  | zero =>
    intro idx d h hne
    exact absurd (List.eq_nil_of_length_eq_zero (by omega)) hne
  | succ fuel ih =>
    intro idx d h hne
    rw [chunksFrom_succ]
    have hpos : 0 < d.length := List.length_pos_iff.mpr hne
    by_cases hd : d.length ≤ n
    · have : (d.length + n - 1) / n = 1 := by
        apply Nat.div_eq_of_lt_le <;> omega
      simp [hd, this]
    · simp only [hd, if_false, List.map_cons]
      have hlen : (d.drop n).length = d.length - n := List.length_drop
      have hne' : d.drop n ≠ [] := by
        intro h0
        have : (d.drop n).length = 0 := by rw [h0]; rfl
        omega
      rw [ih (idx+1) (d.drop n) (by omega) hne', hlen]
      have : (d.length + n - 1) / n = (d.length - n + n - 1) / n + 1 := by
        have h1 : d.length + n - 1 = (d.length - n + n - 1) + n := by omega
        rw [h1, Nat.add_div_right _ hn]
      rw [this, List.range'_succ]

/-- every chunk produced by `desequence` is non-empty and at most `n` long (no padding) -/
theorem chunksFrom_bounds (n : Nat) (hn : 0 < n) :
    ∀ (fuel idx : Nat) (d : Bytes), d ≠ [] →
      ∀ p ∈ chunksFrom fuel n idx d, p.2 ≠ [] ∧ p.2.length ≤ n := by
  intro fuel
  induction fuel with
  | zero => intro idx d _ p hp; simp [chunksFrom] at hp
  | succ fuel ih =>
    intro idx d hne p hp
    rw [chunksFrom_succ] at hp
    by_cases hd : d.length ≤ n
    · simp [hd] at hp
      subst hp
      exact ⟨hne, hd⟩
    · simp only [hd, if_false, List.mem_cons] at hp
      rcases hp with hp | hp
      · subst hp
        refine ⟨?_, by simp [List.length_take]; omega⟩
        intro h0
        have h1 : d.take n = [] := h0
        have h2 : (d.take n).length = min n d.length := List.length_take
        have hpos : 0 < d.length := List.length_pos_iff.mpr hne
        rw [h1] at h2
        have h3 : ([] : Bytes).length = 0 := rfl
        omega
      · have hne' : d.drop n ≠ [] := by
          intro h0
          have : (d.drop n).length = 0 := by rw [h0]; rfl
          simp at this; omega
        exact ih (idx+1) (d.drop n) hne' p hp

/-- all chunks except possibly the last are full -/
theorem chunksFrom_full (n : Nat) :
    ∀ (fuel idx : Nat) (d : Bytes) (pre : List (Nat × Bytes)) (last : Nat × Bytes),
      chunksFrom fuel n idx d = pre ++ [last] → ∀ p ∈ pre, p.2.length = n := by
  intro fuel
  induction fuel with
  | zero => intro idx d pre last h; simp [chunksFrom] at h
  | succ fuel ih =>
    intro idx d pre last h p hp
    rw [chunksFrom_succ] at h
    by_cases hd : d.length ≤ n
    · simp only [hd, if_true] at h
      cases pre with
      | nil => simp at hp
      | cons a pre' =>
        have := congrArg List.length h
        simp at this
    · simp only [hd, if_false] at h
      cases pre with
      | nil => simp at hp
      | cons a pre' =>
        simp only [List.cons_append, List.cons.injEq] at h
        rcases List.mem_cons.mp hp with hp | hp
        · subst hp
          rw [← h.1]
          simp [List.length_take]; omega
        · exact ih (idx+1) (d.drop n) pre' last h.2 p hp

/-! ### little endian -/

theorem leVal_leBytes : ∀ (n v : Nat), leVal (leBytes n v) = v % 256 ^ n := by
  intro n
  induction n with
  | zero => intro v; simp [leBytes, leVal, Nat.mod_one]
  | succ n ih =>
    intro v
    simp only [leBytes, leVal, ih]
    rw [Nat.pow_succ, Nat.mul_comm (256 ^ n) 256, Nat.mod_mul]

theorem leBytes_length : ∀ (n v : Nat), (leBytes n v).length = n := by
  intro n
  induction n with
  | zero => intro v; rfl
  | succ n ih => intro v; simp [leBytes, ih]

theorem leBytes_take : ∀ (k n v : Nat), (leBytes n v).take k = leBytes (min k n) v := by
  intro k
  induction k with
  | zero => intro n v; simp [leBytes]
  | succ k ih =>
    intro n v
    cases n with
    | zero => simp [leBytes]
    | succ n =>
      simp only [leBytes, List.take_succ_cons, ih]
      have : min (k+1) (n+1) = min k n + 1 := by omega
      rw [this]; rfl

theorem leVal_replicate_zero : ∀ n, leVal (List.replicate n 0) = 0 := by
  intro n
  induction n with
  | zero => rfl
  | succ n ih => simp [List.replicate, leVal, ih]

theorem pow256_dvd_pow64 (k : Nat) (hk : k ≤ 8) : 256 ^ k ∣ 2 ^ 64 := by
  have h256 : (256 : Nat) = 2 ^ 8 := by decide
  rw [h256, ← Nat.pow_mul]
  exact Nat.pow_dvd_pow 2 (by omega)

/-- reading back what `fix_le_vec` wrote gives the value modulo the field width -/
theorem truncLe_fixLe (v n : Nat) : truncLe (fixLe v n) = v % 256 ^ (min 8 n) := by
  unfold truncLe fixLe
  rw [leBytes_take, leVal_leBytes]
  exact Nat.mod_mod_of_dvd _ (pow256_dvd_pow64 _ (Nat.min_le_left 8 n))

theorem truncLe_replicate_zero (n : Nat) : truncLe (List.replicate n 0) = 0 := by
  unfold truncLe
  rw [List.take_replicate, leVal_replicate_zero]

/-! ### `sequence`, `desequence` -/

theorem sequenceLimited_eq_take (f : FImg) (m : Nat) : sequenceLimited f m = (sequence f).take m := by
  unfold sequenceLimited
  by_cases h : m < (sequence f).length
  · simp [h]
  · simp only [h, if_false]
    exact (List.take_of_length_le (by omega)).symm

theorem sequence_desequence (f : FImg) (d : Bytes) (hn : 0 < f.chunkLen) :
    sequence (desequence f d) = d := by
  unfold sequence desequence
  by_cases hd : d = []
  · simp [hd, seqChunks]
  · simp only [hd, if_false]
    exact seqChunks_chunksFrom _ hn _ _ _ (Nat.le_refl _)

theorem desequence_chunks_of_ne (f : FImg) (d : Bytes) (h : d ≠ []) :
    (desequence f d).chunks = chunksFrom d.length f.chunkLen 0 d := by
  unfold desequence; rw [if_neg h]

theorem getEof_desequence (f : FImg) (d : Bytes) :
    getEof (desequence f d) = d.length % 256 ^ (min 8 f.eof.length) := by
  unfold getEof desequence
  by_cases hd : d = []
  · simp [hd, truncLe_replicate_zero]
  · simp only [hd, if_false]
    exact truncLe_fixLe _ _

theorem desequence_eof_length (f : FImg) (d : Bytes) : (desequence f d).eof.length = f.eof.length := by
  unfold desequence
  by_cases hd : d = []
  · simp [hd]
  · simp [hd, fixLe, leBytes_length]

@[simp] theorem desequence_chunkLen (f : FImg) (d : Bytes) : (desequence f d).chunkLen = f.chunkLen := by
  unfold desequence; split <;> rfl

theorem u16le_val (v : Nat) : (u16le v)[0]! + 256 * (u16le v)[1]! = v % 65536 := by
  simp [u16le]; omega

end A2Verif.Packing
