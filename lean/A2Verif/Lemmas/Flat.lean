import A2Verif.Model.Flat
/-!
Update/read and frame lemmas for `slice?`/`splice`/`readExts`/`writeExts`, and the index arithmetic
(`t*S+s` is a bijection onto `[0, T*S)`) used by all flat formats.  Core Lean only.
-/
namespace A2Verif.Model.Flat

theorem length_quantize (src : List Nat) (q : Nat) : (quantize src q).length = q := by
  simp [quantize]

theorem getElem?_splice (data src : List Nat) (o i : Nat) (h : o + src.length ≤ data.length) :
    (splice data o src)[i]? = if i < o then data[i]? else if i < o + src.length then src[i - o]? else data[i]? := by
  unfold splice
  have h1 : (List.take o data).length = o := by simp; omega
  rw [List.append_assoc, List.getElem?_append]
  rw [h1]
  split
  · rename_i hi; simp [hi]
  · rename_i hi
    rw [List.getElem?_append]
    split
    · rename_i h2; rw [if_pos (by omega)]
    · rename_i h2
      rw [if_neg (by omega), List.getElem?_drop]
      congr 1; omega

theorem length_splice (data src : List Nat) (o : Nat) (h : o + src.length ≤ data.length) :
    (splice data o src).length = data.length := by
  simp [splice]; omega

theorem getElem?_slice (data : List Nat) (o n i : Nat) :
    ((data.drop o).take n)[i]? = if i < n then data[o + i]? else none := by
  rw [List.getElem?_take]
  split
  · rw [List.getElem?_drop]
  · rfl

theorem slice?_splice_same (data src : List Nat) (o : Nat) (h : o + src.length ≤ data.length) :
    slice? (splice data o src) o src.length = some src := by
  unfold slice?
  rw [if_pos (by rw [length_splice _ _ _ h]; exact h)]
  congr 1
  apply List.ext_getElem?
  intro i
  rw [getElem?_slice, getElem?_splice _ _ _ _ h]
  by_cases hi : i < src.length
  · rw [if_pos hi, if_neg (by omega), if_pos (by omega)]; congr 1; omega
  · rw [if_neg hi]; exact (List.getElem?_eq_none (by omega)).symm

theorem slice?_splice_disj (data src : List Nat) (o o' n : Nat) (h : o + src.length ≤ data.length)
    (hd : o + src.length ≤ o' ∨ o' + n ≤ o) : slice? (splice data o src) o' n = slice? data o' n := by
  unfold slice?
  rw [length_splice _ _ _ h]
  split
  · congr 1
    apply List.ext_getElem?
    intro i
    rw [getElem?_slice, getElem?_slice]
    split
    · rw [getElem?_splice _ _ _ _ h]
      rcases hd with hd | hd
      · rw [if_neg (by omega), if_neg (by omega)]
      · rw [if_pos (by omega)]
    · rfl
  · rfl

/-- in-range extents can be read -/
theorem readExts_ok (data : List Nat) (offs : List Nat) (len : Nat) (hb : ∀ o ∈ offs, o + len ≤ data.length) :
    ∃ x, readExts data offs len = .ok x ∧ x.length = offs.length * len := by
  induction offs with
  | nil => exact ⟨[], rfl, by simp⟩
  | cons o os ih =>
    obtain ⟨r, hr, hl⟩ := ih (fun p hp => hb p (by simp [hp]))
    have ho := hb o (by simp)
    refine ⟨(data.drop o).take len ++ r, ?_, ?_⟩
    · simp [readExts, slice?, ho, hr]
    · simp [hl, Nat.add_mul]; omega

/-- frame at the level of one slice: writing extents that are all disjoint from `[o', o'+n)` leaves
that slice alone; also the buffer length does not change -/
theorem writeExts_frame (offs : List Nat) (len : Nat) : ∀ (data src data' : List Nat),
    writeExts data offs len src = some data' → src.length = offs.length * len →
    data'.length = data.length ∧
    ∀ o' n, (∀ o ∈ offs, o + len ≤ o' ∨ o' + n ≤ o) → slice? data' o' n = slice? data o' n := by
  induction offs with
  | nil => intro data src data' h _; simp [writeExts] at h; subst h; exact ⟨rfl, fun _ _ _ => rfl⟩
  | cons o os ih =>
    intro data src data' h hs
    simp only [writeExts] at h
    split at h
    · rename_i hin
      have hlen : (src.take len).length = len := by
        simp [List.length_cons, Nat.add_mul] at hs
        simp; omega
      have hin' : o + (src.take len).length ≤ data.length := by rw [hlen]; exact hin
      have hs' : (src.drop len).length = os.length * len := by
        simp [List.length_cons, Nat.add_mul] at hs
        simp; omega
      obtain ⟨hl, hf⟩ := ih _ _ _ h hs'
      refine ⟨by rw [hl, length_splice _ _ _ hin'], ?_⟩
      intro o' n hd
      rw [hf o' n (fun p hp => hd p (by simp [hp]))]
      apply slice?_splice_disj _ _ _ _ _ hin'
      rw [hlen]; exact hd o (by simp)
    · exact absurd h (by simp)

theorem readExts_congr (d1 d2 : List Nat) (offs : List Nat) (len : Nat)
    (h : ∀ o ∈ offs, slice? d1 o len = slice? d2 o len) : readExts d1 offs len = readExts d2 offs len := by
  induction offs with
  | nil => rfl
  | cons o os ih =>
    simp only [readExts]
    rw [h o (by simp), ih (fun p hp => h p (by simp [hp]))]

/-- in-range extents can be written -/
theorem writeExts_some (offs : List Nat) (len : Nat) : ∀ (data src : List Nat),
    (∀ o ∈ offs, o + len ≤ data.length) → src.length = offs.length * len →
    ∃ data', writeExts data offs len src = some data' := by
  induction offs with
  | nil => intro data src _ _; exact ⟨data, rfl⟩
  | cons o os ih =>
    intro data src hb hs
    have hin := hb o (by simp)
    have hlen : (src.take len).length = len := by
      simp [List.length_cons, Nat.add_mul] at hs
      simp; omega
    have hs' : (src.drop len).length = os.length * len := by
      simp [List.length_cons, Nat.add_mul] at hs
      simp; omega
    simp only [writeExts, if_pos hin]
    apply ih _ _ _ hs'
    intro p hp
    rw [length_splice _ _ _ (by rw [hlen]; exact hin)]
    exact hb p (by simp [hp])

/-- update/read: reading back the extents just written gives the source, provided the extents
are pairwise disjoint -/
theorem readExts_writeExts_same (offs : List Nat) (len : Nat) : ∀ (data src data' : List Nat),
    writeExts data offs len src = some data' → src.length = offs.length * len →
    offs.Pairwise (fun a b => a + len ≤ b ∨ b + len ≤ a) →
    readExts data' offs len = .ok src := by
  induction offs with
  | nil =>
    intro data src data' _ hs _
    have : src = [] := List.eq_nil_of_length_eq_zero (by simpa using hs)
    simp [readExts, this]
  | cons o os ih =>
    intro data src data' h hs hp
    simp only [writeExts] at h
    split at h
    · rename_i hin
      have hlen : (src.take len).length = len := by
        simp [List.length_cons, Nat.add_mul] at hs
        simp; omega
      have hin' : o + (src.take len).length ≤ data.length := by rw [hlen]; exact hin
      have hs' : (src.drop len).length = os.length * len := by
        simp [List.length_cons, Nat.add_mul] at hs
        simp; omega
      rw [List.pairwise_cons] at hp
      obtain ⟨_, hf⟩ := writeExts_frame os len _ _ _ h hs'
      have h1 : slice? data' o len = some (src.take len) := by
        rw [hf o len (fun p hp' => by rcases hp.1 p hp' with h | h <;> omega)]
        have := slice?_splice_same data (src.take len) o hin'
        rwa [hlen] at this
      simp only [readExts, h1, ih _ _ _ h hs' hp.2, List.take_append_drop]
    · exact absurd h (by simp)

/-- everything the flat formats need about a write to in-range, pairwise disjoint extents -/
theorem ext_laws (data : List Nat) (offs : List Nat) (len : Nat) (src : List Nat)
    (hb : ∀ o ∈ offs, o + len ≤ data.length) (hs : src.length = offs.length * len)
    (hp : offs.Pairwise (fun a b => a + len ≤ b ∨ b + len ≤ a)) :
    ∃ data', writeExts data offs len src = some data' ∧ data'.length = data.length ∧
      readExts data' offs len = .ok src ∧
      ∀ offs' len', (∀ o ∈ offs, ∀ o' ∈ offs', o + len ≤ o' ∨ o' + len' ≤ o) →
        readExts data' offs' len' = readExts data offs' len' := by
  obtain ⟨data', hw⟩ := writeExts_some offs len data src hb hs
  obtain ⟨hl, hf⟩ := writeExts_frame offs len data src data' hw hs
  refine ⟨data', hw, hl, readExts_writeExts_same offs len data src data' hw hs hp, ?_⟩
  intro offs' len' hd
  apply readExts_congr
  intro o' ho'
  exact hf o' len' (fun o ho => hd o ho o' ho')

/-! ## index arithmetic -/

theorem idx_lt (t s T S : Nat) (ht : t < T) (hs : s < S) : t * S + s < T * S := by
  have h1 : (t + 1) * S ≤ T * S := Nat.mul_le_mul_right S ht
  rw [Nat.add_mul, Nat.one_mul] at h1
  omega

theorem idx_inj (t s t' s' S : Nat) (hs : s < S) (hs' : s' < S) (h : t * S + s = t' * S + s') :
    t = t' ∧ s = s' := by
  have hS : 0 < S := by omega
  have h1 : (t * S + s) / S = t := by
    rw [Nat.mul_comm, Nat.mul_add_div hS, Nat.div_eq_of_lt hs, Nat.add_zero]
  have h2 : (t' * S + s') / S = t' := by
    rw [Nat.mul_comm, Nat.mul_add_div hS, Nat.div_eq_of_lt hs', Nat.add_zero]
  have ht : t = t' := by rw [← h1, ← h2, h]
  subst ht
  exact ⟨rfl, by omega⟩

/-- two different unit indices give disjoint `len`-byte extents -/
theorem ext_disj (u u' len : Nat) (h : u ≠ u') : u * len + len ≤ u' * len ∨ u' * len + len ≤ u * len := by
  rcases Nat.lt_or_gt_of_ne h with h | h
  · left
    have : (u + 1) * len ≤ u' * len := Nat.mul_le_mul_right len h
    rw [Nat.add_mul, Nat.one_mul] at this; exact this
  · right
    have : (u' + 1) * len ≤ u * len := Nat.mul_le_mul_right len h
    rw [Nat.add_mul, Nat.one_mul] at this; exact this

theorem ext_in (u n len : Nat) (h : u < n) : u * len + len ≤ n * len := by
  have : (u + 1) * len ≤ n * len := Nat.mul_le_mul_right len h
  rw [Nat.add_mul, Nat.one_mul] at this; exact this

end A2Verif.Model.Flat
