/-!
# C07, round 3: container independence from the store laws each container PROVES (framework)

`SecStore` is the physical-sector interface of one image format as its executable model gives it:
a state, the invariant the model's theorems are about (`Inv`: "created, then any valid operations"), the
set of physical sector addresses `(cylinder, head, sector id)` of the disk kind, the sector size, and the
two model functions `rd` = `read_sector`, `wr` = `write_sector` — both return the NEW state (a read moves
the head of NIB/WOZ/IMD/TD0 images) and a result (`none` / `false` = refused: `Err` or panic).

`SecLaws S` are the per-address store laws, stated on what reads RETURN (not on an abstraction chosen by
the prover): read of a valid address returns a whole sector and changes no later read; write of a valid
address reads back zero-padded/truncated, every other valid address reads as before; an invalid address
is refused by both and changes no later read.  Each container instantiates `SecLaws` from its C08 theorems
(`Lemmas/C07LawsNib.lean`, `C07LawsFlat.lean`, `C07LawsIbm.lean`).

From `SecLaws` alone: any history of sector reads and writes (valid or not, any order) returns what the
reference map returns (`run_ref`), hence two formats of the same disk kind return the same results and
hold the same content in every sector (`sector_independence`).  Block level: `wrBlock` / `rdBlock` are the
loops of `woz::write_block`, `Imd::write_block`, `Td0::write_block`, `Img::write_block` (locate the block's
sectors, quantize the data to their total size, one `write_sector` per sector in order with consecutive
chunks, stop at the first refusal); `brun_ref`, `block_independence`: the same history of block AND sector
operations on two formats whose address maps agree on the blocks of the history gives the same results and
the same content in every sector and block.
-/
namespace A2Verif.C07All

abbrev CHS := Nat × Nat × Nat

/-- `img::quantize_block(src, n)`: exactly `n` bytes, zero padded / truncated -/
def pad (d : List Nat) (n : Nat) : List Nat := d.take n ++ List.replicate (n - d.length) 0

theorem pad_length (d : List Nat) (n : Nat) : (pad d n).length = n := by
  simp only [pad, List.length_append, List.length_take, List.length_replicate]; omega

theorem pad_of_length (d : List Nat) (n : Nat) (h : d.length = n) : pad d n = d := by
  subst h; simp [pad]

/-- byte data -/
def Bytes (d : List Nat) : Prop := ∀ x ∈ d, x < 256

instance (d : List Nat) : Decidable (Bytes d) := inferInstanceAs (Decidable (∀ x ∈ d, x < 256))

theorem bytes_pad (d : List Nat) (n : Nat) (h : Bytes d) : Bytes (pad d n) := by
  intro x hx
  rcases List.mem_append.1 hx with h1 | h1
  · exact h x (List.mem_of_mem_take h1)
  · rw [List.eq_of_mem_replicate h1]; decide

theorem bytes_take (d : List Nat) (n : Nat) (h : Bytes d) : Bytes (d.take n) :=
  fun x hx => h x (List.mem_of_mem_take hx)

theorem bytes_drop (d : List Nat) (n : Nat) (h : Bytes d) : Bytes (d.drop n) :=
  fun x hx => h x (List.mem_of_mem_drop hx)

structure SecStore where
  St : Type
  /-- what the model's theorems assume of an image (established by `create`, kept by every operation) -/
  Inv : St → Prop
  /-- physical sector addresses of the disk kind -/
  valid : CHS → Bool
  /-- sector size in bytes -/
  unit : CHS → Nat
  /-- `read_sector(cyl, head, sec)`: result (`none` = refused) and the image afterwards -/
  rd : St → CHS → Option (List Nat) × St
  /-- `write_sector(cyl, head, sec, dat)`: accepted? and the image afterwards -/
  wr : St → CHS → List Nat → Bool × St

/-- the per-address store laws, on observable reads -/
structure SecLaws (S : SecStore) : Prop where
  rd_valid : ∀ s a, S.Inv s → S.valid a = true →
    ∃ d s', S.rd s a = (some d, s') ∧ d.length = S.unit a ∧ S.Inv s' ∧
      ∀ b, S.valid b = true → (S.rd s' b).1 = (S.rd s b).1
  wr_valid : ∀ s a d, Bytes d → S.Inv s → S.valid a = true →
    ∃ s', S.wr s a d = (true, s') ∧ S.Inv s' ∧ (S.rd s' a).1 = some (pad d (S.unit a)) ∧
      ∀ b, S.valid b = true → b ≠ a → (S.rd s' b).1 = (S.rd s b).1
  refused : ∀ s a d, S.Inv s → S.valid a = false →
    (∃ s', S.rd s a = (none, s') ∧ S.Inv s' ∧ ∀ b, S.valid b = true → (S.rd s' b).1 = (S.rd s b).1) ∧
    (∃ s', S.wr s a d = (false, s') ∧ S.Inv s' ∧ ∀ b, S.valid b = true → (S.rd s' b).1 = (S.rd s b).1)

/-- content of a freshly created disk: every sector is zeros -/
def zeros (unit : CHS → Nat) : CHS → List Nat := fun a => List.replicate (unit a) 0

/-- the image is usable and every valid sector `a` reads as `m a` -/
def Shows (S : SecStore) (s : S.St) (m : CHS → List Nat) : Prop :=
  S.Inv s ∧ ∀ a, S.valid a = true → (S.rd s a).1 = some (m a)

/-! ## sector operations -/

inductive SOp
  | r (a : CHS)
  | w (a : CHS) (d : List Nat)

def SOp.Bytes : SOp → Prop
  | .r _ => True
  | .w _ d => C07All.Bytes d

instance (op : SOp) : Decidable op.Bytes := by cases op <;> unfold SOp.Bytes <;> infer_instance

namespace SecStore

def step (S : SecStore) (s : S.St) : SOp → Option (List Nat) × S.St
  | .r a => S.rd s a
  | .w a d => ((if (S.wr s a d).1 then some [] else none), (S.wr s a d).2)

/-- run a history on the image (model of the Rust calls), collecting the results -/
def run (S : SecStore) (s : S.St) : List SOp → List (Option (List Nat)) × S.St
  | [] => ([], s)
  | op :: rest => ((S.step s op).1 :: (S.run (S.step s op).2 rest).1, (S.run (S.step s op).2 rest).2)

end SecStore

def upd (m : CHS → List Nat) (a : CHS) (v : List Nat) : CHS → List Nat := fun b => if b = a then v else m b

/-- the same operation on a reference map sector address → content -/
def refStep (valid : CHS → Bool) (unit : CHS → Nat) (m : CHS → List Nat) : SOp → Option (List Nat) × (CHS → List Nat)
  | .r a => ((if valid a then some (m a) else none), m)
  | .w a d => if valid a then (some [], upd m a (pad d (unit a))) else (none, m)

def refRun (valid : CHS → Bool) (unit : CHS → Nat) (m : CHS → List Nat) :
    List SOp → List (Option (List Nat)) × (CHS → List Nat)
  | [] => ([], m)
  | op :: rest => ((refStep valid unit m op).1 :: (refRun valid unit (refStep valid unit m op).2 rest).1,
                   (refRun valid unit (refStep valid unit m op).2 rest).2)

theorem shows_rd {S : SecStore} (L : SecLaws S) {s : S.St} {m : CHS → List Nat} (h : Shows S s m) (a : CHS)
    (hv : S.valid a = true) : ∃ s', S.rd s a = (some (m a), s') ∧ Shows S s' m := by
  obtain ⟨d, s', e, _, hi, hf⟩ := L.rd_valid s a h.1 hv
  have := h.2 a hv
  rw [e] at this
  simp only [Option.some.injEq] at this
  subst this
  exact ⟨s', e, hi, fun b hb => by rw [hf b hb]; exact h.2 b hb⟩

theorem shows_wr {S : SecStore} (L : SecLaws S) {s : S.St} {m : CHS → List Nat} (h : Shows S s m) (a : CHS)
    (hv : S.valid a = true) (d : List Nat) (hb : Bytes d) :
    ∃ s', S.wr s a d = (true, s') ∧ Shows S s' (upd m a (pad d (S.unit a))) := by
  obtain ⟨s', e, hi, hr, hf⟩ := L.wr_valid s a d hb h.1 hv
  refine ⟨s', e, hi, ?_⟩
  intro b hvb
  by_cases hba : b = a
  · subst hba; simp [upd, hr]
  · simp only [upd, if_neg hba]; rw [hf b hvb hba]; exact h.2 b hvb

theorem shows_refused {S : SecStore} (L : SecLaws S) {s : S.St} {m : CHS → List Nat} (h : Shows S s m) (a : CHS)
    (hv : S.valid a = false) (d : List Nat) :
    (∃ s', S.rd s a = (none, s') ∧ Shows S s' m) ∧ (∃ s', S.wr s a d = (false, s') ∧ Shows S s' m) := by
  obtain ⟨⟨s1, e1, i1, f1⟩, ⟨s2, e2, i2, f2⟩⟩ := L.refused s a d h.1 hv
  exact ⟨⟨s1, e1, i1, fun b hb => by rw [f1 b hb]; exact h.2 b hb⟩,
         ⟨s2, e2, i2, fun b hb => by rw [f2 b hb]; exact h.2 b hb⟩⟩

theorem step_ref {S : SecStore} (L : SecLaws S) {s : S.St} {m : CHS → List Nat} (h : Shows S s m) (op : SOp)
    (hb : op.Bytes) :
    (S.step s op).1 = (refStep S.valid S.unit m op).1 ∧
    Shows S (S.step s op).2 (refStep S.valid S.unit m op).2 := by
  cases op with
  | r a =>
    cases hv : S.valid a
    · obtain ⟨s', e, hs⟩ := (shows_refused L h a hv []).1
      simp only [SecStore.step, refStep, e, hv]
      exact ⟨by simp, hs⟩
    · obtain ⟨s', e, hs⟩ := shows_rd L h a hv
      simp only [SecStore.step, refStep, e, hv]
      exact ⟨by simp, hs⟩
  | w a d =>
    cases hv : S.valid a
    · obtain ⟨s', e, hs⟩ := (shows_refused L h a hv d).2
      simp only [SecStore.step, refStep, e, hv]
      exact ⟨by simp, hs⟩
    · obtain ⟨s', e, hs⟩ := shows_wr L h a hv d hb
      simp only [SecStore.step, refStep, e, hv]
      exact ⟨by simp, hs⟩

/-- **every history of sector reads and writes** (valid or invalid addresses, any order, each operation
starting from the state — head position included — the previous one left) returns what the reference map
returns, and the image then shows the reference map's final content. -/
theorem run_ref {S : SecStore} (L : SecLaws S) : ∀ (ops : List SOp) (s : S.St) (m : CHS → List Nat),
    Shows S s m → (∀ op ∈ ops, op.Bytes) →
    (S.run s ops).1 = (refRun S.valid S.unit m ops).1 ∧ Shows S (S.run s ops).2 (refRun S.valid S.unit m ops).2 := by
  intro ops
  induction ops with
  | nil => intro s m h _; exact ⟨rfl, h⟩
  | cons op rest ih =>
    intro s m h hb
    obtain ⟨e1, h1⟩ := step_ref L h op (hb op (List.mem_cons_self ..))
    obtain ⟨e2, h2⟩ := ih _ _ h1 (fun o ho => hb o (List.mem_cons_of_mem _ ho))
    simp only [SecStore.run, refRun]
    exact ⟨by rw [e1, e2], h2⟩

theorem refStep_congr (valid : CHS → Bool) (u u' : CHS → Nat) (hu : ∀ a, valid a = true → u a = u' a)
    (m : CHS → List Nat) (op : SOp) : refStep valid u m op = refStep valid u' m op := by
  cases op with
  | r a => rfl
  | w a d =>
    cases hv : valid a
    · simp [refStep, hv]
    · simp [refStep, hv, hu a hv]

theorem refRun_congr (valid : CHS → Bool) (u u' : CHS → Nat) (hu : ∀ a, valid a = true → u a = u' a) :
    ∀ (ops : List SOp) (m : CHS → List Nat), refRun valid u m ops = refRun valid u' m ops := by
  intro ops
  induction ops with
  | nil => intro m; rfl
  | cons op rest ih =>
    intro m
    simp only [refRun, refStep_congr valid u u' hu m op, ih]

/-- **sector-level container independence, abstract form**: two formats that satisfy the store laws over the
same physical addresses and sector sizes, started from images showing the same content, return the same
results for every history and afterwards show the same content in every sector. -/
theorem sector_independence (S T : SecStore) (LS : SecLaws S) (LT : SecLaws T)
    (hv : ∀ a, S.valid a = T.valid a) (hu : ∀ a, S.valid a = true → S.unit a = T.unit a)
    (s : S.St) (t : T.St) (m : CHS → List Nat) (hs : Shows S s m) (ht : Shows T t m)
    (ops : List SOp) (hb : ∀ op ∈ ops, op.Bytes) :
    (S.run s ops).1 = (T.run t ops).1 ∧
    ∃ m', Shows S (S.run s ops).2 m' ∧ Shows T (T.run t ops).2 m' := by
  obtain ⟨e1, h1⟩ := run_ref LS ops s m hs hb
  obtain ⟨e2, h2⟩ := run_ref LT ops t m ht hb
  have hvf : S.valid = T.valid := funext hv
  have hc := refRun_congr S.valid S.unit T.unit hu ops m
  rw [← hvf, ← hc] at e2 h2
  exact ⟨by rw [e1, e2], _, h1, h2⟩

/-- what "shows the same content" means for the reads themselves -/
theorem shows_same_reads {S T : SecStore} {s : S.St} {t : T.St} {m : CHS → List Nat}
    (hs : Shows S s m) (ht : Shows T t m) (hv : ∀ a, S.valid a = T.valid a) (a : CHS) (ha : S.valid a = true) :
    (S.rd s a).1 = (T.rd t a).1 := by
  rw [hs.2 a ha, ht.2 a (by rw [← hv a]; exact ha)]

/-! ## block operations: the `read_block` / `write_block` loops over `read_sector` / `write_sector` -/

/-- the loop of `read_block`: one `read_sector` per located sector, results appended; the first refusal ends it -/
def rdSecs (S : SecStore) (s : S.St) : List CHS → Option (List Nat) × S.St
  | [] => (some [], s)
  | a :: as =>
    match S.rd s a with
    | (some d, s') =>
      (match rdSecs S s' as with
       | (some r, s'') => (some (d ++ r), s'')
       | (none, s'') => (none, s''))
    | (none, s') => (none, s')

/-- the loop of `write_block`: `write_sector(&padded[offset..offset+sec_len])`, `offset += sec_len` -/
def wrSecs (S : SecStore) (s : S.St) : List CHS → List Nat → Bool × S.St
  | [], _ => (true, s)
  | a :: as, dat =>
    match S.wr s a (dat.take (S.unit a)) with
    | (true, s') => wrSecs S s' as (dat.drop (S.unit a))
    | (false, s') => (false, s')

/-- `ts_list.len() * sec_len` (all sectors of one block have the same size) -/
def total (unit : CHS → Nat) (as : List CHS) : Nat := (as.map unit).sum

def rdBlock {R : Type} (S : SecStore) (loc : R → Option (List CHS)) (s : S.St) (r : R) : Option (List Nat) × S.St :=
  match loc r with
  | none => (none, s)
  | some as => rdSecs S s as

def wrBlock {R : Type} (S : SecStore) (loc : R → Option (List CHS)) (s : S.St) (r : R) (dat : List Nat) : Bool × S.St :=
  match loc r with
  | none => (false, s)
  | some as => wrSecs S s as (pad dat (total S.unit as))

inductive BOp (R : Type)
  | rb (r : R)
  | wb (r : R) (d : List Nat)
  | rs (a : CHS)
  | ws (a : CHS) (d : List Nat)

def BOp.Bytes {R : Type} : BOp R → Prop
  | .wb _ d => C07All.Bytes d
  | .ws _ d => C07All.Bytes d
  | _ => True

instance {R : Type} (op : BOp R) : Decidable op.Bytes := by cases op <;> unfold BOp.Bytes <;> infer_instance

/-- the block addresses an operation mentions -/
def BOp.blocks {R : Type} : BOp R → List R
  | .rb r => [r]
  | .wb r _ => [r]
  | _ => []

def bstep {R : Type} (S : SecStore) (loc : R → Option (List CHS)) (s : S.St) : BOp R → Option (List Nat) × S.St
  | .rb r => rdBlock S loc s r
  | .wb r d => ((if (wrBlock S loc s r d).1 then some [] else none), (wrBlock S loc s r d).2)
  | .rs a => S.step s (.r a)
  | .ws a d => S.step s (.w a d)

def brun {R : Type} (S : SecStore) (loc : R → Option (List CHS)) (s : S.St) :
    List (BOp R) → List (Option (List Nat)) × S.St
  | [] => ([], s)
  | op :: rest => ((bstep S loc s op).1 :: (brun S loc (bstep S loc s op).2 rest).1,
                   (brun S loc (bstep S loc s op).2 rest).2)

/-- sector writes of one block on the reference map -/
def refWrSecs (unit : CHS → Nat) (m : CHS → List Nat) : List CHS → List Nat → (CHS → List Nat)
  | [], _ => m
  | a :: as, dat => refWrSecs unit (upd m a (pad (dat.take (unit a)) (unit a))) as (dat.drop (unit a))

def refBStep {R : Type} (valid : CHS → Bool) (unit : CHS → Nat) (loc : R → Option (List CHS)) (m : CHS → List Nat) :
    BOp R → Option (List Nat) × (CHS → List Nat)
  | .rb r => (match loc r with
      | none => (none, m)
      | some as => (some (as.map m).flatten, m))
  | .wb r d => (match loc r with
      | none => (none, m)
      | some as => (some [], refWrSecs unit m as (pad d (total unit as))))
  | .rs a => refStep valid unit m (.r a)
  | .ws a d => refStep valid unit m (.w a d)

def refBRun {R : Type} (valid : CHS → Bool) (unit : CHS → Nat) (loc : R → Option (List CHS)) (m : CHS → List Nat) :
    List (BOp R) → List (Option (List Nat)) × (CHS → List Nat)
  | [] => ([], m)
  | op :: rest => ((refBStep valid unit loc m op).1 :: (refBRun valid unit loc (refBStep valid unit loc m op).2 rest).1,
                   (refBRun valid unit loc (refBStep valid unit loc m op).2 rest).2)

theorem rdSecs_ref {S : SecStore} (L : SecLaws S) : ∀ (as : List CHS) (s : S.St) (m : CHS → List Nat),
    Shows S s m → (∀ a ∈ as, S.valid a = true) →
    ∃ s', rdSecs S s as = (some (as.map m).flatten, s') ∧ Shows S s' m := by
  intro as
  induction as with
  | nil => intro s m h _; exact ⟨s, rfl, h⟩
  | cons a as ih =>
    intro s m h hv
    obtain ⟨s1, e1, h1⟩ := shows_rd L h a (hv a (List.mem_cons_self ..))
    obtain ⟨s2, e2, h2⟩ := ih s1 m h1 (fun b hb => hv b (List.mem_cons_of_mem _ hb))
    exact ⟨s2, by simp [rdSecs, e1, e2], h2⟩

theorem wrSecs_ref {S : SecStore} (L : SecLaws S) : ∀ (as : List CHS) (s : S.St) (m : CHS → List Nat) (dat : List Nat),
    Shows S s m → (∀ a ∈ as, S.valid a = true) → Bytes dat →
    ∃ s', wrSecs S s as dat = (true, s') ∧ Shows S s' (refWrSecs S.unit m as dat) := by
  intro as
  induction as with
  | nil => intro s m dat h _ _; exact ⟨s, rfl, h⟩
  | cons a as ih =>
    intro s m dat h hv hb
    obtain ⟨s1, e1, h1⟩ := shows_wr L h a (hv a (List.mem_cons_self ..)) (dat.take (S.unit a)) (bytes_take _ _ hb)
    obtain ⟨s2, e2, h2⟩ := ih s1 _ (dat.drop (S.unit a)) h1 (fun b hb => hv b (List.mem_cons_of_mem _ hb))
      (bytes_drop _ _ hb)
    exact ⟨s2, by simp [wrSecs, e1, e2], h2⟩

theorem bstep_ref {R : Type} {S : SecStore} (L : SecLaws S) (loc : R → Option (List CHS))
    (hloc : ∀ r as, loc r = some as → ∀ a ∈ as, S.valid a = true)
    {s : S.St} {m : CHS → List Nat} (h : Shows S s m) (op : BOp R) (hb : op.Bytes) :
    (bstep S loc s op).1 = (refBStep S.valid S.unit loc m op).1 ∧
    Shows S (bstep S loc s op).2 (refBStep S.valid S.unit loc m op).2 := by
  cases op with
  | rb r =>
    cases hl : loc r with
    | none => simp only [bstep, rdBlock, refBStep, hl]; exact ⟨trivial, h⟩
    | some as =>
      obtain ⟨s', e, hs⟩ := rdSecs_ref L as s m h (hloc r as hl)
      simp only [bstep, rdBlock, refBStep, hl, e]
      exact ⟨trivial, hs⟩
  | wb r d =>
    cases hl : loc r with
    | none => simp only [bstep, wrBlock, refBStep, hl]; exact ⟨by simp, h⟩
    | some as =>
      obtain ⟨s', e, hs⟩ := wrSecs_ref L as s m (pad d (total S.unit as)) h (hloc r as hl) (bytes_pad _ _ hb)
      simp only [bstep, wrBlock, refBStep, hl, e]
      exact ⟨by simp, hs⟩
  | rs a => exact step_ref L h (.r a) trivial
  | ws a d => exact step_ref L h (.w a d) hb

/-- **every history of block and sector operations** on a container whose blocks are written sector by
sector returns what the reference map returns under the container's address map. -/
theorem brun_ref {R : Type} {S : SecStore} (L : SecLaws S) (loc : R → Option (List CHS))
    (hloc : ∀ r as, loc r = some as → ∀ a ∈ as, S.valid a = true) :
    ∀ (ops : List (BOp R)) (s : S.St) (m : CHS → List Nat), Shows S s m → (∀ op ∈ ops, op.Bytes) →
    (brun S loc s ops).1 = (refBRun S.valid S.unit loc m ops).1 ∧
    Shows S (brun S loc s ops).2 (refBRun S.valid S.unit loc m ops).2 := by
  intro ops
  induction ops with
  | nil => intro s m h _; exact ⟨rfl, h⟩
  | cons op rest ih =>
    intro s m h hb
    obtain ⟨e1, h1⟩ := bstep_ref L loc hloc h op (hb op (List.mem_cons_self ..))
    obtain ⟨e2, h2⟩ := ih _ _ h1 (fun o ho => hb o (List.mem_cons_of_mem _ ho))
    simp only [brun, refBRun]
    exact ⟨by rw [e1, e2], h2⟩

theorem refWrSecs_congr (u u' : CHS → Nat) : ∀ (as : List CHS) (m : CHS → List Nat) (dat : List Nat),
    (∀ a ∈ as, u a = u' a) → refWrSecs u m as dat = refWrSecs u' m as dat := by
  intro as
  induction as with
  | nil => intro m dat _; rfl
  | cons a as ih =>
    intro m dat h
    simp only [refWrSecs, h a (List.mem_cons_self ..)]
    exact ih _ _ (fun b hb => h b (List.mem_cons_of_mem _ hb))

theorem total_congr (u u' : CHS → Nat) (as : List CHS) (h : ∀ a ∈ as, u a = u' a) : total u as = total u' as := by
  unfold total
  congr 1
  exact List.map_congr_left h

theorem refBStep_congr {R : Type} (valid : CHS → Bool) (u u' : CHS → Nat) (hu : ∀ a, valid a = true → u a = u' a)
    (loc loc' : R → Option (List CHS)) (hloc : ∀ r as, loc r = some as → ∀ a ∈ as, valid a = true)
    (m : CHS → List Nat) (op : BOp R) (hl : ∀ r ∈ op.blocks, loc r = loc' r) :
    refBStep valid u loc m op = refBStep valid u' loc' m op := by
  cases op with
  | rb r =>
    have := hl r (by simp [BOp.blocks])
    simp only [refBStep, ← this]
  | wb r d =>
    have e := hl r (by simp [BOp.blocks])
    simp only [refBStep, ← e]
    cases h : loc r with
    | none => rfl
    | some as =>
      have hua : ∀ a ∈ as, u a = u' a := fun a ha => hu a (hloc r as h a ha)
      simp only [total_congr u u' as hua, refWrSecs_congr u u' as m _ hua]
  | rs a => exact refStep_congr valid u u' hu m (.r a)
  | ws a d => exact refStep_congr valid u u' hu m (.w a d)

theorem refBRun_congr {R : Type} (valid : CHS → Bool) (u u' : CHS → Nat) (hu : ∀ a, valid a = true → u a = u' a)
    (loc loc' : R → Option (List CHS)) (hloc : ∀ r as, loc r = some as → ∀ a ∈ as, valid a = true) :
    ∀ (ops : List (BOp R)) (m : CHS → List Nat), (∀ op ∈ ops, ∀ r ∈ op.blocks, loc r = loc' r) →
    refBRun valid u loc m ops = refBRun valid u' loc' m ops := by
  intro ops
  induction ops with
  | nil => intro m _; rfl
  | cons op rest ih =>
    intro m hl
    simp only [refBRun, refBStep_congr valid u u' hu loc loc' hloc m op (hl op (List.mem_cons_self ..))]
    rw [ih _ (fun o ho => hl o (List.mem_cons_of_mem _ ho))]

/-- **block-level container independence, abstract form**: two formats with the store laws over the same
physical sectors whose address maps agree on the blocks of a history return the same results for that
history of block and sector operations, afterwards show the same content in every physical sector, and
return the same bytes for every block both locate alike. -/
theorem block_independence {R : Type} (S T : SecStore) (LS : SecLaws S) (LT : SecLaws T)
    (hv : ∀ a, S.valid a = T.valid a) (hu : ∀ a, S.valid a = true → S.unit a = T.unit a)
    (locS locT : R → Option (List CHS))
    (hlS : ∀ r as, locS r = some as → ∀ a ∈ as, S.valid a = true)
    (hlT : ∀ r as, locT r = some as → ∀ a ∈ as, T.valid a = true)
    (s : S.St) (t : T.St) (m : CHS → List Nat) (hs : Shows S s m) (ht : Shows T t m)
    (ops : List (BOp R)) (hb : ∀ op ∈ ops, op.Bytes) (hl : ∀ op ∈ ops, ∀ r ∈ op.blocks, locS r = locT r) :
    (brun S locS s ops).1 = (brun T locT t ops).1 ∧
    (∃ m', Shows S (brun S locS s ops).2 m' ∧ Shows T (brun T locT t ops).2 m') ∧
    ∀ r, locS r = locT r →
      (rdBlock S locS (brun S locS s ops).2 r).1 = (rdBlock T locT (brun T locT t ops).2 r).1 := by
  obtain ⟨e1, h1⟩ := brun_ref LS locS hlS ops s m hs hb
  obtain ⟨e2, h2⟩ := brun_ref LT locT hlT ops t m ht hb
  have hvf : S.valid = T.valid := funext hv
  have hc := refBRun_congr S.valid S.unit T.unit hu locS locT hlS ops m hl
  rw [← hvf, ← hc] at e2 h2
  refine ⟨by rw [e1, e2], ⟨_, h1, h2⟩, ?_⟩
  intro r hr
  unfold rdBlock
  rw [← hr]
  cases hlr : locS r with
  | none => rfl
  | some as =>
    obtain ⟨_, r1, _⟩ := rdSecs_ref LS as _ _ h1 (hlS r as hlr)
    obtain ⟨_, r2, _⟩ := rdSecs_ref LT as _ _ h2 (fun a ha => by rw [← hv a]; exact hlS r as hlr a ha)
    simp only [r1, r2]

end A2Verif.C07All
