import A2Verif.Lemmas.RetokLineRT
/-! C14 round 4: the whole-program round trip (induction over the lines) -/
namespace A2Verif.Detok
open A2Verif.Gen.Tokens

theorem scanA_length : ∀ (fuelS addr : Nat) (t : List Nat) (ls : List Line),
    scanA fuelS addr t = some ls → ls.length < t.length := by
  intro fuelS
  induction fuelS with
  | zero => intro addr t ls h; simp [scanA] at h
  | succ f ih =>
    intro addr t ls h
    unfold scanA at h
    split at h
    · simp at h; subst h; simp
    · rename_i lk0 lk1 n0 n1 rest
      cases hs : splitZero rest with
      | none => simp [hs] at h
      | some p =>
        obtain ⟨body, rest'⟩ := p
        simp only [hs] at h
        split at h
        · cases hr : scanA f (addr + body.length + 5) rest' with
          | none => simp [hr] at h
          | some ls' =>
            simp [hr] at h
            subst h
            obtain ⟨e, _⟩ := splitZero_spec rest body rest' hs
            have := ih _ _ _ hr
            subst e
            simp; omega
        · simp at h
    · simp at h

/-- one listed line is read back: number, blank, code, end of line -/
theorem retokLines_line (fuel num : Nat) (txt rest body : List Nat) (hnum : num ≤ 65535)
    (hcode : codeA ((txt ++ 10 :: rest).length + 1) (txt ++ 10 :: rest) = .ok (body, rest)) :
    retokLines (fuel + 1) (dec num ++ [32] ++ txt ++ [10] ++ rest) =
      (retokLines fuel rest).map fun ls => { num := num, body := body } :: ls := by
  have hp := parseDec_dec num (txt ++ 10 :: rest)
  have e : dec num ++ [32] ++ txt ++ [10] ++ rest = dec num ++ 32 :: (txt ++ 10 :: rest) := by simp
  rw [e]
  cases hd : dec num with
  | nil => exact absurd hd (dec_ne_nil num)
  | cons d ds =>
    rw [hd] at hp
    simp only [List.cons_append] at hp ⊢
    have hn : ¬ (65535 < num) := by omega
    simp only [retokLines, hp, hn, if_false]
    rw [hcode]
    simp [Outcome.bind]

/-- **All lines.**  For a stream that scans into lines `ls` whose bodies are in the class and below the
detokenizer's caps: the detokenizer prints some listing `s`, and the reference tokenizer reads `s` back as the
stripped lines. -/
theorem prog_roundtrip : ∀ (fuelS addr : Nat) (t : List Nat) (ls : List Line), scanA fuelS addr t = some ls →
    (∀ l ∈ ls, classBody 0 l.body = true ∧ l.body.length < 255) →
    ∀ (fuel off lines : Nat), ls.length < fuel → off + t.length ≤ 65533 → lines + ls.length ≤ aMaxLines →
    ∃ s, progA fuel t off lines = .ok s ∧ ls.length ≤ s.length ∧
      ∀ fuel2, ls.length < fuel2 → retokLines fuel2 s = .ok (ls.map stripLine) := by
  intro fuelS
  induction fuelS with
  | zero => intro addr t ls h; simp [scanA] at h
  | succ fs ih =>
    intro addr t ls h hcl fuel off lines hf hoff hlines
    obtain ⟨f, rfl⟩ : ∃ f, fuel = f + 1 := ⟨fuel - 1, by omega⟩
    unfold scanA at h
    split at h
    · simp at h; subst h
      refine ⟨[], by simp [progA], by simp, ?_⟩
      intro fuel2 h2
      obtain ⟨g, rfl⟩ : ∃ g, fuel2 = g + 1 := ⟨fuel2 - 1, by simp at h2; omega⟩
      simp [retokLines]
    · rename_i lk0 lk1 n0 n1 rest
      cases hs : splitZero rest with
      | none => simp [hs] at h
      | some p =>
        obtain ⟨body, rest'⟩ := p
        simp only [hs] at h
        split at h
        · rename_i hcond
          obtain ⟨hlk, hle, _, _, hn0, hn1⟩ := hcond
          cases hr : scanA fs (addr + body.length + 5) rest' with
          | none => simp [hr] at h
          | some ls' =>
            simp [hr] at h
            subst h
            obtain ⟨e, _⟩ := splitZero_spec rest body rest' hs
            subst e
            have hl := hcl { num := n0 + 256 * n1, body := body } (by simp)
            have hcl' : ∀ l ∈ ls', classBody 0 l.body = true ∧ l.body.length < 255 :=
              fun l hl => hcl l (by simp [hl])
            simp only [List.length_cons, List.length_append] at hf hoff hlines
            obtain ⟨txt, j1, j2, _, _⟩ := line_roundtrip body.length body (Nat.le_refl _) hl.1 rest' 0
              (body.length + (rest'.length + 1) + 1) (by omega) (by simp; exact hl.2)
            obtain ⟨s', k1, k2, k3⟩ := ih _ _ _ hr hcl' f
              (off + 4 + body.length + 1) (lines + 1)
              (by omega) (by omega) (by omega)
            have hlink : lk0 ≠ 0 ∨ lk1 ≠ 0 := by omega
            have hlmax : lines < aMaxLines := by omega
            have hoff' : off < 65533 := by omega
            refine ⟨dec (n0 + 256 * n1) ++ [32] ++ txt ++ [10] ++ s', ?_, by simp; omega, ?_⟩
            · simp [progA, hoff', hlink, hlmax, j1, Outcome.bind, k1, Outcome.map]
            · intro fuel2 h2
              obtain ⟨g, rfl⟩ : ∃ g, fuel2 = g + 1 := ⟨fuel2 - 1, by simp at h2; omega⟩
              rw [retokLines_line g (n0 + 256 * n1) txt s' (stripBody 0 body) (by omega)
                (j2 s' _ (by simp; omega)), k3 g (by simp at h2; omega)]
              simp [Outcome.map, stripLine]
        · simp at h
    · simp at h

/-- **the model-level round trip for every stream in the class** -/
theorem retokA_detokA_all (addr : Nat) (t : List Nat) (hc : classA addr t = true) :
    ∃ s, detokA t = .ok s ∧ retokA addr s = stripHeadA addr t := by
  unfold classA at hc
  cases hs : scanA (t.length + 1) addr t with
  | none => simp [hs] at hc
  | some ls =>
    simp only [hs, Bool.and_eq_true, List.all_eq_true, decide_eq_true_eq] at hc
    obtain ⟨⟨h1, h2⟩, h3⟩ := hc
    have hlen := scanA_length _ _ _ _ hs
    obtain ⟨s, a1, a2, a3⟩ := prog_roundtrip _ _ _ _ hs (fun l hl => by simpa [len255] using h1 l hl)
      (t.length + 1) 0 0 (by omega) (by omega) (by omega)
    refine ⟨s, a1, ?_⟩
    unfold retokA stripHeadA
    rw [a3 _ (by omega), hs]
    rfl

end A2Verif.Detok
