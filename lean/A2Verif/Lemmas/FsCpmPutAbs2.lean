import A2Verif.Lemmas.FsCpmPutAbs1
import A2Verif.Lemmas.FsCpmPutLoop6
/-!
# Successful `put` refines the abstract `put`: the invariant afterwards
-/
namespace A2Verif.FsCpm
open A2Verif.Fs.Cpm
open A2Verif.Read.Cpm (Dpb fileKey extNum entryPtrs pathOf slots)

/-- what `put_core` works with: the facts about the saved directory, and the image after `save_directory` -/
structure PutCtx (d : Dpb) (r r' sr : Raw) (f : FImg) (user : Nat) (base typ : Bytes) (dir2 : Dir) : Prop where
  pf : PutFacts d r f user base typ sr dir2
  shape' : Shape d r'
  other : ∀ i, dirBlocks d ≤ i → r'.units[i]? = sr.units[i]?
  dir' : dirOf d r' = dir2
  fresh : newKey user base typ ∉ keys d r
  hu : user < 16
  cn : cleanField (base.map (· % 128)) = true
  ct : cleanField (typ.map (· % 128)) = true

theorem hdr_key {user : Nat} {base typ e : Bytes} (h : Hdr user base typ e) : fileKey e = newKey user base typ := by
  rw [key_split, h.user, h.name, h.typ]; rfl

variable {d : Dpb} {r r' sr : Raw} {f : FImg} {user : Nat} {base typ : Bytes} {dir2 : Dir}

/-- a file entry of the saved directory is an old file entry in its place or a new entry -/
theorem entry_cases (c : PutCtx d r r' sr f user base typ dir2) {j : Nat} {e : Bytes} (hj : dir2[j]? = some e) (hx : isExtent e = true) :
    ((dirOf d r)[j]? = some e ∧ e ∈ fents d r) ∨
    (∃ e0, (dirOf d r)[j]? = some e0 ∧ isExtent e0 = false ∧ 32 ≤ status e0 ∧ Hdr user base typ e ∧ ∃ x, XEnt d (dirOf d r) sr f x e) := by
  have hlt : j < (dirOf d r).length := by rw [← c.pf.keeps.1]; exact (List.getElem?_eq_some_iff.1 hj).1
  have h0 : (dirOf d r)[j]? = some (dirOf d r)[j] := List.getElem?_eq_getElem hlt
  by_cases cx : isExtent (dirOf d r)[j] = true
  · have := c.pf.keeps.2 j _ h0 cx
    rw [hj] at this; cases this
    exact Or.inl ⟨h0, mem_fents.2 ⟨List.mem_of_getElem? h0, (isExtent_iff _).1 cx⟩⟩
  · have cx' : isExtent (dirOf d r)[j] = false := by simpa using cx
    obtain ⟨a, b, x, hxe⟩ := c.pf.new j _ e h0 cx' hj hx
    exact Or.inr ⟨_, h0, cx', a, b, x, hxe⟩

theorem old_kept (c : PutCtx d r r' sr f user base typ dir2) {e : Bytes} (he : e ∈ fents d r) :
    ∃ j : Nat, (dirOf d r)[j]? = some e ∧ dir2[j]? = some e := by
  obtain ⟨hm, hu⟩ := mem_fents.1 he
  obtain ⟨j, hj⟩ := List.mem_iff_getElem?.1 hm
  exact ⟨j, hj, c.pf.keeps.2 j e hj ((isExtent_iff e).2 hu)⟩

theorem mem_fents' (c : PutCtx d r r' sr f user base typ dir2) {e : Bytes} :
    e ∈ fents d r' ↔ ∃ j : Nat, dir2[j]? = some e ∧ isExtent e = true := by
  rw [mem_fents, c.dir', List.mem_iff_getElem?, isExtent_iff]
  constructor
  · rintro ⟨⟨j, hj⟩, hu⟩; exact ⟨j, hj, hu⟩
  · rintro ⟨j, hj, hu⟩; exact ⟨⟨j, hj⟩, hu⟩

/-- the entries of every other file are the same list -/
theorem esOf_same (c : PutCtx d r r' sr f user base typ dir2) {k : List Nat} (hk : k ≠ newKey user base typ) :
    esOf d r' k = esOf d r k := by
  unfold esOf fents fentsOf
  rw [c.dir', List.filter_filter, List.filter_filter]
  apply filter_pos _ _ _ c.pf.keeps.1
  intro j a b ha hb hq
  simp only [Bool.and_eq_true, beq_iff_eq, decide_eq_true_eq] at hq
  rcases hq with ⟨hka, hua⟩ | ⟨hkb, hub⟩
  · rcases entry_cases c ha ((isExtent_iff a).2 hua) with ⟨h0, _⟩ | ⟨e0, _, _, _, hh, _⟩
    · rw [hb] at h0; cases h0; rfl
    · exact absurd (hka ▸ hdr_key hh) hk
  · have := c.pf.keeps.2 j b hb ((isExtent_iff b).2 hub)
    rw [ha] at this; cases this; rfl

theorem mem_keys' (c : PutCtx d r r' sr f user base typ dir2) (ha : PutArgsOk d f) {k : List Nat} :
    k ∈ keys d r' ↔ k = newKey user base typ ∨ k ∈ keys d r := by
  rw [mem_keys]
  constructor
  · rintro ⟨e, he, rfl⟩
    obtain ⟨j, hj, hx⟩ := (mem_fents' c).1 he
    rcases entry_cases c hj hx with ⟨_, h1⟩ | ⟨e0, _, _, _, hh, _⟩
    · exact Or.inr (mem_keys.2 ⟨e, h1, rfl⟩)
    · exact Or.inl (hdr_key hh)
  · rintro (rfl | hk)
    · cases hc : f.chunks with
      | nil => exact absurd hc ha.1
      | cons a l =>
        obtain ⟨v, hv⟩ := mem_lookup (l := f.chunks) (k := a.1) (v := a.2) (by rw [hc]; exact List.mem_cons_self)
        obtain ⟨j, e0, e, q1, q2, q3, q4, _⟩ := c.pf.cover a.1 v hv
        obtain ⟨_, hh, _⟩ := c.pf.new j e0 e q1 q2 q3 q4
        exact ⟨e, (mem_fents' c).2 ⟨j, q3, q4⟩, hdr_key hh⟩
    · obtain ⟨e, he, rfl⟩ := mem_keys.1 hk
      obtain ⟨j, _, hj⟩ := old_kept c he
      exact ⟨e, (mem_fents' c).2 ⟨j, hj, (isExtent_iff e).2 (mem_fents.1 he).2⟩, rfl⟩

/-- the entries of the new file are new entries -/
theorem esK_new (c : PutCtx d r r' sr f user base typ dir2) {e : Bytes} (he : e ∈ esOf d r' (newKey user base typ)) :
    ∃ (j : Nat) (e0 : Bytes), (dirOf d r)[j]? = some e0 ∧ isExtent e0 = false ∧ dir2[j]? = some e ∧ isExtent e = true ∧ Hdr user base typ e ∧
      ∃ x, XEnt d (dirOf d r) sr f x e := by
  obtain ⟨h1, h2⟩ := mem_esOf.1 he
  obtain ⟨j, hj, hx⟩ := (mem_fents' c).1 h1
  rcases entry_cases c hj hx with ⟨_, h3⟩ | ⟨e0, a1, a2, _, a4, a5⟩
  · exact absurd (mem_keys.2 ⟨e, h3, h2⟩) c.fresh
  · exact ⟨j, e0, a1, a2, hj, hx, a4, a5⟩

theorem newPtr_not_dir (hr : ResvOk d) {p : Nat} (hp : NewPtr d (dirOf d r) p) : p ∉ Read.Cpm.dirBlocks d := by
  intro hm
  have := (hr p hp.1).2 hm
  rw [hp.2.1] at this; cases this

/-- a non-zero pointer of a new entry is a new block -/
theorem xent_ptr_new {x : Nat} {e : Bytes} (hx : XEnt d (dirOf d r) sr f x e) {k p : Nat} (hk : (entryPtrs d e)[k]? = some p) (hp : p ≠ 0) :
    NewPtr d (dirOf d r) p ∧ ∃ cdat, f.chunks.lookup (x * slots d + k) = some cdat ∧ sr.units[p]? = some (quantize (blockSize d) cdat) := by
  obtain ⟨hk1, hk2⟩ := entryPtrs_getElem? d e hk
  rcases hx.ptr k hk1 with ⟨_, h0⟩ | ⟨cdat, h1, _, h3, h4⟩
  · rw [hk2] at h0; exact absurd h0 hp
  · rw [hk2] at h3 h4; exact ⟨h3, cdat, h1, h4⟩

/-- **the invariant holds after a successful `put`** -/
theorem put_inv (h : Inv d r) (hr : ResvOk d) (ha : PutArgsOk d f) (c : PutCtx d r r' sr f user base typ dir2) : Inv d r' := by
  have hl := dirOf_entry_length h.shape h.dpb
  refine ⟨h.dpb, c.shape', ?_, ?_, ?_⟩
  · intro k hk
    by_cases ck : k = newKey user base typ
    · subst ck
      refine ⟨?_, ?_⟩
      · -- different physical extents
        have hnd : (physOf d (esOf d r' (newKey user base typ))).Nodup := by
          unfold physOf esOf fents fentsOf List.Nodup
          rw [c.dir', List.filter_filter, List.pairwise_map, List.pairwise_filter, List.pairwise_iff_getElem]
          intro i j hi hj hij qa qb heq
          simp only [Bool.and_eq_true, beq_iff_eq, decide_eq_true_eq] at qa qb
          have gi : dir2[i]? = some dir2[i] := List.getElem?_eq_getElem hi
          have gj : dir2[j]? = some dir2[j] := List.getElem?_eq_getElem hj
          have xi := (isExtent_iff _).2 qa.2
          have xj := (isExtent_iff _).2 qb.2
          rcases entry_cases c gi xi with ⟨_, h3⟩ | ⟨e0i, a1, a2, _, _, _⟩
          · exact c.fresh (mem_keys.2 ⟨_, h3, qa.1⟩)
          · rcases entry_cases c gj xj with ⟨_, h3⟩ | ⟨e0j, b1, b2, _, _, _⟩
            · exact c.fresh (mem_keys.2 ⟨_, h3, qb.1⟩)
            · have := c.pf.xinj i j e0i e0j _ _ a1 a2 b1 b2 gi gj xi xj heq
              omega
        unfold dupFree
        rw [eraseDups_of_nodup hnd]
      · rw [List.all_eq_true]
        intro e he
        obtain ⟨j, e0, _, _, _, _, _, x, hx⟩ := esK_new c he
        unfold ptrsOkB
        rw [List.all_eq_true]
        intro p hp
        obtain ⟨k', hk'⟩ := List.mem_iff_getElem?.1 hp
        by_cases hp0 : p = 0
        · rw [hp0]; simp
        · have := (xent_ptr_new hx hk' hp0).1.1
          simpa using this
    · rw [esOf_same c ck]
      have : k ∈ keys d r := by
        rcases (mem_keys' c ha).1 hk with h1 | h1
        · exact absurd h1 ck
        · exact h1
      exact h.good k this
  · intro e he
    obtain ⟨j, hj, hx⟩ := (mem_fents' c).1 he
    rcases entry_cases c hj hx with ⟨_, h1⟩ | ⟨e0, _, _, _, hh, x, hxe⟩
    · exact h.clean e h1
    · exact ⟨by rw [hh.name]; exact c.cn, by rw [hh.typ]; exact c.ct, hxe.ex, hxe.s2, hh.b9⟩
  · have hnd := h.noShare
    rw [List.nodup_append] at hnd ⊢
    refine ⟨?_, hnd.2.1, ?_⟩
    · unfold List.Nodup
      rw [List.pairwise_flatMap]
      refine ⟨?_, ?_⟩
      · intro e he
        obtain ⟨j, hj, hx⟩ := (mem_fents' c).1 he
        exact ownedE_nodup (fun k l p hk hl' hp => (c.pf.dist j j e e k l p hj hj hx hx hk hl' hp).2)
      · unfold fents fentsOf
        rw [c.dir', List.pairwise_filter, List.pairwise_iff_getElem]
        intro i j hi hj hij qa qb p hp q hq heq
        subst heq
        simp only [decide_eq_true_eq] at qa qb
        obtain ⟨k, hk, hp0⟩ := mem_ownedE' hp
        obtain ⟨l, hl', _⟩ := mem_ownedE' hq
        have := (c.pf.dist i j _ _ k l p (List.getElem?_eq_getElem hi) (List.getElem?_eq_getElem hj) ((isExtent_iff _).2 qa)
          ((isExtent_iff _).2 qb) hk hl' hp0).1
        omega
    · intro p hp q hq heq
      subst heq
      rw [List.mem_flatMap] at hp
      obtain ⟨e, he, hpe⟩ := hp
      obtain ⟨j, hj, hx⟩ := (mem_fents' c).1 he
      rcases entry_cases c hj hx with ⟨_, h1⟩ | ⟨e0, _, _, _, _, x, hxe⟩
      · exact hnd.2.2 p (List.mem_flatMap.2 ⟨e, h1, hpe⟩) p hq rfl
      · obtain ⟨k, hk, hp0⟩ := mem_ownedE' hpe
        exact newPtr_not_dir hr (xent_ptr_new hxe hk hp0).1 hq

end A2Verif.FsCpm
