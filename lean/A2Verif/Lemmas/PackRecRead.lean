import A2Verif.Lemmas.PackRec
/-! Records: what the repaired `from_fimg` reads, and the frame/establish lemmas for `update_fimg`. -/
namespace A2Verif.Packing

/-- a chunk padded with zeros to `n` bytes, as an indexed list -/
theorem pad_eq_map (c : Bytes) (n : Nat) (h : c.length ≤ n) :
    c ++ List.replicate (n - c.length) 0 = (List.range n).map (fun i => c.getD i 0) := by
  apply List.ext_getElem?
  intro i
  by_cases hi : i < n
  · rw [List.getElem?_map, List.getElem?_range hi]
    simp only [Option.map_some, List.getD_eq_getElem?_getD]
    by_cases h1 : i < c.length
    · rw [List.getElem?_append_left h1]
      rw [List.getElem?_eq_getElem h1]; rfl
    · rw [List.getElem?_append_right (by omega), List.getElem?_replicate, List.getElem?_eq_none (by omega)]
      rw [if_pos (by omega)]; rfl
  · rw [List.getElem?_eq_none (by simp; omega), List.getElem?_eq_none (by simp; omega)]

theorem vb_chunk (cs : List (Nat × Bytes)) (n c i : Nat) (hi : i < n) :
    vb cs n (c * n + i) = (getBuf cs c).getD i 0 := by
  obtain ⟨d1, d2⟩ := div_mod_pos n c i hi
  unfold vb; rw [d1, d2]

/-- the bytes of `m` consecutive virtual chunks starting at chunk `c` -/
def vbytes (cs : List (Nat × Bytes)) (n c m : Nat) : Bytes := (List.range (m * n)).map (fun i => vb cs n (c * n + i))

theorem vbytes_succ (cs : List (Nat × Bytes)) (n c m : Nat) :
    vbytes cs n c (m + 1) = (List.range n).map (fun i => (getBuf cs c).getD i 0) ++ vbytes cs n (c + 1) m := by
  unfold vbytes
  have : (m + 1) * n = n + m * n := by rw [Nat.add_mul]; omega
  rw [this, List.range_add, List.map_append, List.map_map]
  congr 1
  · apply List.map_congr_left
    intro i hi
    exact vb_chunk cs n c i (List.mem_range.mp hi)
  · apply List.map_congr_left
    intro i _
    simp only [Function.comp]
    congr 1
    rw [Nat.add_mul]; omega

/-- the repaired gathering loop reads the virtual file -/
theorem gatherZ_spec (cs : List (Nat × Bytes)) (n start : Nat) (hcs : ChunksLe cs n) :
    ∀ (fuel k : Nat) (acc : Bytes) (ok : Bool), acc.length = k * n → 0 < k →
      gatherZ cs n start fuel k acc ok = (acc ++ vbytes cs n (start + k) fuel, ok) := by
  intro fuel
  induction fuel with
  | zero => intro k acc ok _ _; simp [gatherZ, vbytes]
  | succ fuel ih =>
    intro k acc ok hacc hk
    have hb := getBuf_le hcs (start + k)
    have hk0 : (k != 0) = true := by simp; omega
    unfold gatherZ
    have key : ∀ c : Bytes, c = getBuf cs (start + k) →
        (acc ++ c) ++ List.replicate ((k + 1) * n - (acc ++ c).length) 0
          = acc ++ (List.range n).map (fun i => (getBuf cs (start + k)).getD i 0) := by
      intro c hc
      subst hc
      rw [List.append_assoc, ← pad_eq_map _ n hb]
      congr 2
      rw [List.length_append, hacc, Nat.add_mul, Nat.one_mul, Nat.add_sub_add_left]
    cases hg : getChunk cs (start + k) with
    | some c =>
      have hc : c = getBuf cs (start + k) := by unfold getBuf; rw [hg]; rfl
      simp only []
      rw [key c hc, ih (k + 1) _ ok (by simp [hacc, Nat.add_mul]) (by omega), vbytes_succ]
      simp [List.append_assoc, Nat.add_assoc]
    | none =>
      have hc : ([] : Bytes) = getBuf cs (start + k) := by unfold getBuf; rw [hg]; rfl
      simp only [hk0, Bool.and_true]
      have := key [] hc
      rw [List.append_nil] at this
      rw [this, ih (k + 1) _ ok (by simp [hacc, Nat.add_mul]) (by omega), vbytes_succ]
      simp [List.append_assoc, Nat.add_assoc]

theorem gatherZ_start (cs : List (Nat × Bytes)) (n start m : Nat) (hcs : ChunksLe cs n) :
    gatherZ cs n start (m + 1) 0 [] true = (vbytes cs n start (m + 1), (getChunk cs start).isSome) := by
  have hb := getBuf_le hcs start
  unfold gatherZ
  cases hg : getChunk cs (start + 0) with
  | some c =>
    have hg' : getChunk cs start = some c := hg
    have hc : c = getBuf cs start := by unfold getBuf; rw [hg']; rfl
    simp only [List.nil_append]
    have : c ++ List.replicate ((0 + 1) * n - c.length) 0 = (List.range n).map (fun i => (getBuf cs start).getD i 0) := by
      rw [hc, ← pad_eq_map _ n hb]; simp
    rw [this, gatherZ_spec cs n start hcs m 1 _ true (by simp) (by omega), vbytes_succ]
    rfl
  | none =>
    have hg' : getChunk cs start = none := hg
    have hc : ([] : Bytes) = getBuf cs start := by unfold getBuf; rw [hg']; rfl
    simp only [List.nil_append]
    have : ([] : Bytes) ++ List.replicate ((0 + 1) * n - ([] : Bytes).length) 0 = (List.range n).map (fun i => (getBuf cs start).getD i 0) := by
      rw [← hc]
      have := pad_eq_map [] n (by simp)
      simpa using this
    rw [List.nil_append] at this
    rw [this, gatherZ_spec cs n start hcs m 1 _ _ (by simp) (by omega), vbytes_succ]
    rfl

/-- a window of the virtual bytes -/
theorem vbytes_window (cs : List (Nat × Bytes)) (n c m a L : Nat) (h : a + L ≤ m * n) :
    ((vbytes cs n c m).take (a + L)).drop a = (List.range L).map (fun j => vb cs n (c * n + a + j)) := by
  unfold vbytes
  apply List.ext_getElem?
  intro i
  rw [List.getElem?_drop, List.getElem?_take]
  by_cases hi : i < L
  · rw [if_pos (by omega), List.getElem?_map, List.getElem?_map, List.getElem?_range (by omega), List.getElem?_range hi]
    simp only [Option.map_some, Nat.add_assoc]
  · rw [if_neg (by omega), List.getElem?_eq_none (by simp; omega)]

end A2Verif.Packing
