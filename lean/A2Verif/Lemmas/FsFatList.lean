import A2Verif.Model.Fs.Fat
/-!
# List plumbing for directory buffers: 32-byte entries, 16 of them to a 512-byte sector
-/
namespace A2Verif.FsFat
open A2Verif A2Verif.Fs.Fat

/-- all elements have length `q` -/
def AllLen (q : Nat) (L : List Bytes) : Prop := ∀ x ∈ L, x.length = q

theorem AllLen.tail {q : Nat} {a : Bytes} {t : List Bytes} (h : AllLen q (a :: t)) : AllLen q t :=
  fun x hx => h x (by simp [hx])

theorem AllLen.set {q : Nat} {L : List Bytes} (h : AllLen q L) (i : Nat) {e : Bytes} (he : e.length = q) : AllLen q (L.set i e) := by
  intro x hx
  rcases List.mem_or_eq_of_mem_set hx with h1 | h1
  · exact h x h1
  · rw [h1]; exact he

theorem flatten_length_of {q : Nat} : ∀ {L : List Bytes}, AllLen q L → L.flatten.length = q * L.length := by
  intro L
  induction L with
  | nil => intro _; simp
  | cons a t ih =>
    intro h
    rw [List.flatten_cons, List.length_append, ih h.tail, h a (by simp), List.length_cons, Nat.mul_succ]
    omega

/-- cutting a flattened list of `q`-blocks gives the blocks back -/
theorem chunkBy_flatten (q : Nat) : ∀ (L : List Bytes), AllLen q L → chunkBy q L.length L.flatten = L := by
  intro L
  induction L with
  | nil => intro _; rfl
  | cons a t ih =>
    intro h
    have ha : a.length = q := h a (by simp)
    rw [List.length_cons, chunkBy, List.flatten_cons]
    congr 1
    · rw [List.take_append_of_le_length (by omega), List.take_of_length_le (by omega)]
    · rw [List.drop_append_of_le_length (by omega), List.drop_of_length_le (by omega), List.nil_append]
      exact ih h.tail

theorem chunkBy_allLen (q : Nat) : ∀ (n : Nat) (b : Bytes), q * n ≤ b.length → AllLen q (chunkBy q n b) ∧ (chunkBy q n b).length = n ∧
    (chunkBy q n b).flatten = b.take (q * n) := by
  intro n
  induction n with
  | zero => intro b _; simp [chunkBy, AllLen]
  | succ n ih =>
    intro b h
    rw [Nat.mul_succ] at h
    have hd : q * n ≤ (b.drop q).length := by simp; omega
    obtain ⟨h1, h2, h3⟩ := ih (b.drop q) hd
    rw [chunkBy]
    refine ⟨?_, by simp [h2], ?_⟩
    · intro x hx
      cases hx with
      | head => simp; omega
      | tail _ hx => exact h1 x hx
    · rw [List.flatten_cons, h3, Nat.mul_succ, Nat.add_comm (q * n) q, ← List.take_add]

theorem dirOfBytes_flatten {L : List Bytes} (h : AllLen 32 L) : dirOfBytes L.flatten = L := by
  unfold dirOfBytes
  rw [flatten_length_of h]
  have : 32 * L.length / 32 = L.length := by omega
  rw [this]
  exact chunkBy_flatten 32 L h

theorem dirOfBytes_spec {buf : Bytes} (h : buf.length % 32 = 0) :
    AllLen 32 (dirOfBytes buf) ∧ (dirOfBytes buf).length = buf.length / 32 ∧ (dirOfBytes buf).flatten = buf := by
  unfold dirOfBytes
  have hle : 32 * (buf.length / 32) ≤ buf.length := Nat.mul_div_le _ _
  obtain ⟨h1, h2, h3⟩ := chunkBy_allLen 32 (buf.length / 32) buf hle
  refine ⟨h1, h2, ?_⟩
  rw [h3]
  apply List.take_of_length_le
  omega

theorem flatten_take {q : Nat} : ∀ (L : List Bytes) (b : Nat), AllLen q L → (L.take b).flatten = L.flatten.take (q * b) := by
  intro L
  induction L with
  | nil => intro b _; simp
  | cons x t ih =>
    intro b h
    have hx : x.length = q := h x (by simp)
    cases b with
    | zero => simp
    | succ b =>
      rw [List.take_succ_cons, List.flatten_cons, List.flatten_cons, ih b h.tail]
      have : q * (b + 1) = x.length + q * b := by rw [Nat.mul_succ, hx]; omega
      rw [this, List.take_length_add_append]

theorem flatten_drop {q : Nat} : ∀ (L : List Bytes) (a : Nat), AllLen q L → (L.drop a).flatten = L.flatten.drop (q * a) := by
  intro L
  induction L with
  | nil => intro a _; simp
  | cons x t ih =>
    intro a h
    have hx : x.length = q := h x (by simp)
    cases a with
    | zero => simp
    | succ a =>
      rw [List.drop_succ_cons, List.flatten_cons, ih a h.tail]
      have : q * (a + 1) = x.length + q * a := by rw [Nat.mul_succ, hx]; omega
      rw [this, List.drop_length_add_append]

/-- a window of whole blocks of a flattened list -/
theorem flatten_window {q : Nat} (L : List Bytes) (a b : Nat) (h : AllLen q L) :
    ((L.drop a).take b).flatten = (L.flatten.drop (q * a)).take (q * b) := by
  have hd : AllLen q (L.drop a) := fun x hx => h x (List.mem_of_mem_drop hx)
  rw [flatten_take _ _ hd, flatten_drop _ _ h]

/-- regrouping: a list of `16 m` blocks, flattened, is the concatenation of its `m` windows of 16 -/
theorem flatten_groups : ∀ (m : Nat) (L : List Bytes), L.length = 16 * m →
    ((List.range m).map (fun k => ((L.drop (16 * k)).take 16).flatten)).flatten = L.flatten := by
  intro m
  induction m with
  | zero => intro L h; simp at h; simp [h]
  | succ m ih =>
    intro L h
    rw [List.range_succ, List.map_append, List.flatten_append]
    have h1 : (L.take (16 * m)).length = 16 * m := by simp; omega
    have e : (List.range m).map (fun k => ((L.drop (16 * k)).take 16).flatten) =
        (List.range m).map (fun k => (((L.take (16 * m)).drop (16 * k)).take 16).flatten) := by
      apply List.map_congr_left
      intro k hk
      have hk' : k < m := by simpa using hk
      rw [List.drop_take, List.take_take]
      congr 2
      omega
    rw [e, ih _ h1]
    simp only [List.map_cons, List.map_nil, List.flatten_cons, List.flatten_nil, List.append_nil]
    have : (L.drop (16 * m)).take 16 = L.drop (16 * m) := by
      apply List.take_of_length_le
      simp; omega
    rw [this, ← List.flatten_append, List.take_append_drop]

/-- a window that does not contain index `i` does not see `set i` -/
theorem window_set_other {α : Type} (L : List α) (i a b : Nat) (x : α) (h : i < a ∨ a + b ≤ i) :
    ((L.set i x).drop a).take b = (L.drop a).take b := by
  apply List.ext_getElem?
  intro n
  simp only [List.getElem?_take, List.getElem?_drop, List.getElem?_set]
  by_cases hn : n < b
  · simp only [hn, if_true]
    have : i ≠ a + n := by omega
    simp [this]
  · simp [hn]

end A2Verif.FsFat
