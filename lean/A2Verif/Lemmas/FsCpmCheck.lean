import A2Verif.Lemmas.FsCpmInv
/-!
# An executable check of the invariant (sound): `invB d r = true → Inv d r`
-/
namespace A2Verif.FsCpm
open A2Verif.Fs.Cpm
open A2Verif.Read.Cpm (Dpb)

def cleanEntryB (e : Bytes) : Bool :=
  cleanField (name7 e) && cleanField (typ7 e) && decide (e.getD 12 0 < 32) && decide (e.getD 14 0 < 64) && decide (e.getD 9 0 < 256)

def invB (d : Dpb) (r : Raw) : Bool :=
  decide (DpbOk d) && decide (r.units.size = d.dsm + 1) && r.units.toList.all (fun b => decide (b.length = blockSize d)) &&
  (keys d r).all (fun k => decide (dupFree d (esOf d r k)) && (esOf d r k).all (ptrsOkB d)) &&
  (fents d r).all cleanEntryB &&
  decide (((fents d r).flatMap (ownedE d) ++ Read.Cpm.dirBlocks d).Nodup)

theorem invB_sound {d : Dpb} {r : Raw} (h : invB d r = true) : Inv d r := by
  unfold invB at h
  simp only [Bool.and_eq_true, decide_eq_true_eq, List.all_eq_true] at h
  obtain ⟨⟨⟨⟨⟨h1, h2⟩, h3⟩, h4⟩, h5⟩, h6⟩ := h
  refine ⟨h1, ⟨h2, ?_⟩, ?_, ?_, h6⟩
  · intro i b hb
    have hi : i < r.units.size := by
      by_cases c : i < r.units.size
      · exact c
      · rw [Array.getElem?_eq_none (by omega)] at hb; cases hb
    rw [Array.getElem?_eq_getElem hi] at hb
    cases hb
    exact h3 _ (by simp [Array.mem_toList_iff])
  · intro k hk
    obtain ⟨a, b⟩ := h4 k hk
    exact ⟨a, by rw [List.all_eq_true]; exact b⟩
  · intro e he
    have := h5 e he
    unfold cleanEntryB at this
    simp only [Bool.and_eq_true, decide_eq_true_eq] at this
    obtain ⟨⟨⟨⟨a, b⟩, c⟩, d'⟩, e'⟩ := this
    exact ⟨a, b, c, d', e'⟩

end A2Verif.FsCpm
