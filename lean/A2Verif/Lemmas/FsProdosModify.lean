import A2Verif.Lemmas.FsProdosAlloc
/-!
# What the entry-only operations of the concrete ProDOS model write

`modify` (behind `lock`, `unlock`, `rename`, `retype`) rewrites exactly one directory block: the 39 bytes of the
entry it was given are replaced by `modEntry … e0`, every other byte of the first 511 is kept, the 512th is
zeroed (the directory structures are 511 bytes long and the image pads a short write), the block's bit in the
bitmap buffer is cleared (`write_block` allocates what it writes), and nothing else of the disk changes.
-/
namespace A2Verif.FsProdos
open A2Verif.Fs.Prodos

/-- the image with unit `i` replaced -/
def setUnit (r : Raw) (i : Nat) (b : Bytes) : Raw := { r with units := r.units.setIfInBounds i b }

theorem readBlock_plain (d : Disk) (i : Nat) (blk : Bytes) (hnb : d.bitmapBlocks.contains i = false)
    (hblk : d.raw.units[i]? = some blk) : readBlock i d = (.ok blk, d) := by
  unfold readBlock
  simp only [bind_def, M.bind, M.get, hnb, Bool.false_eq_true, ↓reduceIte, M.lift, imgRead, hblk]

/-- the kind `get_directory` assigns to block `i` with content `blk` -/
def kindOf (i : Nat) (blk : Bytes) : DKind :=
  if i = volKeyBlock then DKind.volKey else if (blk.getD 0 0 == 0 && blk.getD 1 0 == 0) then DKind.subKey else DKind.entry

theorem getDirectory_plain (d : Disk) (i : Nat) (blk : Bytes) (hnb : d.bitmapBlocks.contains i = false)
    (hblk : d.raw.units[i]? = some blk) :
    getDirectory i d = (.ok { kind := kindOf i blk, bytes := blk.take dirLen }, d) := by
  unfold getDirectory
  simp only [bind_def, M.bind, readBlock_plain d i blk hnb hblk, pure_def, M.pure, kindOf]

/-- `write_block(data, i, 0)` of a block that exists, is not a bitmap block, on an open buffer that covers it -/
theorem writeBlock_plain (d : Disk) (buf : Array Nat) (data : Bytes) (i : Nat)
    (hnb : d.bitmapBlocks.contains i = false) (hi : i < d.raw.units.size)
    (hopen : d.bitmap = some buf) (hcov : i / 8 < buf.size) :
    writeBlock data i 0 d =
      (.ok (), { d with raw := setUnit d.raw i (quantize (data.take blockSize)), bitmap := some (clearBit buf i) }) := by
  unfold writeBlock
  simp only [bind_def, M.bind, M.get, hnb, Bool.false_eq_true, ↓reduceIte]
  have hz : zapBlock data i 0 d = (.ok (), { d with raw := setUnit d.raw i (quantize (data.take blockSize)) }) := by
    unfold zapBlock
    simp only [Nat.not_lt_zero, ↓reduceIte, hnb, Bool.false_eq_true, imgWrite, hi, blockSlice, List.drop_zero, setUnit]
  rw [hz]
  simp only
  rw [allocate_open _ buf i (by simpa using hopen) hcov]

/-- the entry `modify` stores, from the entry it found -/
def modEntry (lock : Option Bool) (newName : Option Bytes) (newType : Option (Option Nat)) (newAux : Option Nat) (e0 : Bytes) : Bytes :=
  let e1 := match lock with
    | some true => Ent.setAccess e0 (((Ent.access e0 &&& (255 ^^^ 0x80)) &&& (255 ^^^ 0x40)) &&& (255 ^^^ 0x02))
    | some false => Ent.setAccess e0 ((((Ent.access e0 ||| 0x01) ||| 0x80) ||| 0x40) ||| 0x02)
    | none => e0
  let e2 := match newName with
    | some nm => Ent.rename e1 nm
    | none => e1
  let e3 := match newType with
    | some (some t) => Ent.setFtype e2 t
    | _ => e2
  match newAux with
    | some a => Ent.setAux e3 a
    | none => e3

/-- the directory block after entry `idx` has been replaced by `e` and the block written back -/
def blockWithEntry (blk : Bytes) (idx : Nat) (e : Bytes) : Bytes :=
  quantize ((splice (blk.take dirLen) (Dir.entryOff idx) (e.take entryLen)).take blockSize)

/-- **`modify` writes one entry.**  The entry location is valid for the kind of its block, the block exists and
is not a bitmap block, the buffer is open and covers it, the new type (if any) is one `FileType::from_str`
accepts, and a rename is not refused by the access bits: then `modify` succeeds and the disk afterwards is the
disk before with that one block rewritten and its bitmap bit cleared. -/
theorem modify_spec (d : Disk) (buf : Array Nat) (loc : Loc) (blk : Bytes)
    (lock : Option Bool) (newName : Option Bytes) (newType : Option (Option Nat)) (newAux : Option Nat)
    (hnb : d.bitmapBlocks.contains loc.block = false) (hblk : d.raw.units[loc.block]? = some blk)
    (hidx : Dir.idxOk { kind := kindOf loc.block blk, bytes := blk.take dirLen } loc.idx = true)
    (hopen : d.bitmap = some buf) (hcov : loc.block / 8 < buf.size)
    (hty : newType ≠ some none)
    (hren : ¬ (Ent.access (slice (blk.take dirLen) (Dir.entryOff loc.idx) entryLen) &&& 0x40 = 0 ∧ newName.isSome = true)) :
    Fs.Prodos.modify loc lock newName newType newAux d =
      (.ok (), { d with
        raw := setUnit d.raw loc.block
          (blockWithEntry blk loc.idx (modEntry lock newName newType newAux (slice (blk.take dirLen) (Dir.entryOff loc.idx) entryLen))),
        bitmap := some (clearBit buf loc.block) }) := by
  have hsz : loc.block < d.raw.units.size := by
    rcases Nat.lt_or_ge loc.block d.raw.units.size with h | h
    · exact h
    · rw [Array.getElem?_eq_none h] at hblk; cases hblk
  rcases newType with _ | (_ | t)
  · unfold Fs.Prodos.modify
    simp only [bind_def, M.bind, getDirectory_plain d loc.block blk hnb hblk, M.ofOption, Dir.getEntry, hidx, ↓reduceIte]
    rw [if_neg hren]
    unfold writeEntry
    simp only [bind_def, M.bind, getDirectory_plain d loc.block blk hnb hblk, M.ofOption, Dir.setEntry, hidx, ↓reduceIte]
    rw [writeBlock_plain d buf _ loc.block hnb hsz hopen hcov]
    rfl
  · exact absurd rfl hty
  · unfold Fs.Prodos.modify
    simp only [bind_def, M.bind, getDirectory_plain d loc.block blk hnb hblk, M.ofOption, Dir.getEntry, hidx, ↓reduceIte]
    rw [if_neg hren]
    unfold writeEntry
    simp only [bind_def, M.bind, getDirectory_plain d loc.block blk hnb hblk, M.ofOption, Dir.setEntry, hidx, ↓reduceIte]
    rw [writeBlock_plain d buf _ loc.block hnb hsz hopen hcov]
    rfl

/-- every other unit of the image is untouched -/
theorem setUnit_other (r : Raw) (i j : Nat) (b : Bytes) (h : i ≠ j) : (setUnit r i b).units[j]? = r.units[j]? := by
  simp [setUnit, Array.getElem?_setIfInBounds_ne h]

theorem setUnit_size (r : Raw) (i : Nat) (b : Bytes) : (setUnit r i b).units.size = r.units.size := by
  simp [setUnit]

/-- `lock(path)`: if the search finds the file at `loc` (and leaves the disk as it is), exactly the access byte of
that entry loses the destroy, rename and write bits -/
theorem lock_spec (d : Disk) (buf : Array Nat) (path : Bytes) (loc : Loc) (blk : Bytes)
    (hfind : findFile path d = (.ok loc, d))
    (hnb : d.bitmapBlocks.contains loc.block = false) (hblk : d.raw.units[loc.block]? = some blk)
    (hidx : Dir.idxOk { kind := kindOf loc.block blk, bytes := blk.take dirLen } loc.idx = true)
    (hopen : d.bitmap = some buf) (hcov : loc.block / 8 < buf.size) :
    lock path d = (.ok (), { d with
      raw := setUnit d.raw loc.block (blockWithEntry blk loc.idx
        (modEntry (some true) none none none (slice (blk.take dirLen) (Dir.entryOff loc.idx) entryLen))),
      bitmap := some (clearBit buf loc.block) }) := by
  unfold lock
  simp only [bind_def, M.bind, hfind]
  exact modify_spec d buf loc blk (some true) none none none hnb hblk hidx hopen hcov (by simp) (by simp)

/-- `unlock(path)`: the access byte of the entry gains the read, destroy, rename and write bits -/
theorem unlock_spec (d : Disk) (buf : Array Nat) (path : Bytes) (loc : Loc) (blk : Bytes)
    (hfind : findFile path d = (.ok loc, d))
    (hnb : d.bitmapBlocks.contains loc.block = false) (hblk : d.raw.units[loc.block]? = some blk)
    (hidx : Dir.idxOk { kind := kindOf loc.block blk, bytes := blk.take dirLen } loc.idx = true)
    (hopen : d.bitmap = some buf) (hcov : loc.block / 8 < buf.size) :
    unlock path d = (.ok (), { d with
      raw := setUnit d.raw loc.block (blockWithEntry blk loc.idx
        (modEntry (some false) none none none (slice (blk.take dirLen) (Dir.entryOff loc.idx) entryLen))),
      bitmap := some (clearBit buf loc.block) }) := by
  unfold unlock
  simp only [bind_def, M.bind, hfind]
  exact modify_spec d buf loc blk (some false) none none none hnb hblk hidx hopen hcov (by simp) (by simp)

/-- `retype(path, type, aux)` with an accepted type and a numeric sub-type: type byte and aux field of the entry -/
theorem retype_spec (d : Disk) (buf : Array Nat) (path : Bytes) (t a : Nat) (loc : Loc) (blk : Bytes)
    (hfind : findFile path d = (.ok loc, d))
    (hnb : d.bitmapBlocks.contains loc.block = false) (hblk : d.raw.units[loc.block]? = some blk)
    (hidx : Dir.idxOk { kind := kindOf loc.block blk, bytes := blk.take dirLen } loc.idx = true)
    (hopen : d.bitmap = some buf) (hcov : loc.block / 8 < buf.size) :
    retype path (some t) (some a) d = (.ok (), { d with
      raw := setUnit d.raw loc.block (blockWithEntry blk loc.idx
        (modEntry none none (some (some t)) (some a) (slice (blk.take dirLen) (Dir.entryOff loc.idx) entryLen))),
      bitmap := some (clearBit buf loc.block) }) := by
  unfold retype
  simp only [bind_def, M.bind, hfind]
  exact modify_spec d buf loc blk none none (some (some t)) (some a) hnb hblk hidx hopen hcov (by simp) (by simp)

/-- refusals of `retype` decided before anything is read or written -/
theorem retype_bad_aux (d : Disk) (path : Bytes) (t : Option Nat) : retype path t none d = (.error .parseInt, d) := rfl

/-! ## the access byte and the reader's notion of "locked" -/

/-- the access byte `lock` stores -/
def lockAcc (a : Nat) : Nat := ((a &&& (255 ^^^ 0x80)) &&& (255 ^^^ 0x40)) &&& (255 ^^^ 0x02)
/-- the access byte `unlock` stores -/
def unlockAcc (a : Nat) : Nat := (((a ||| 0x01) ||| 0x80) ||| 0x40) ||| 0x02
/-- the independent reader's `locked` -/
def readerLocked (acc : Nat) : Bool := decide ((acc / 2) % 2 = 0 ∨ (acc / 64) % 2 = 0 ∨ (acc / 128) % 2 = 0)

theorem lockAcc_locked : ∀ a : Fin 256, readerLocked (lockAcc a.val) = true ∧ lockAcc a.val < 256 := by decide +kernel
theorem unlockAcc_unlocked : ∀ a : Fin 256, readerLocked (unlockAcc a.val) = false ∧ unlockAcc a.val < 256 := by decide +kernel
/-- `delete` and `rename` test exactly bits the reader's `locked` looks at: an entry the reader calls unlocked passes both -/
theorem unlocked_passes_tests : ∀ a : Fin 256, readerLocked a.val = false → (a.val &&& 0x80 ≠ 0 ∧ a.val &&& 0x40 ≠ 0) := by decide +kernel

theorem modEntry_lock (e : Bytes) : modEntry (some true) none none none e = Ent.setAccess e (lockAcc (Ent.access e)) := rfl
theorem modEntry_unlock (e : Bytes) : modEntry (some false) none none none e = Ent.setAccess e (unlockAcc (Ent.access e)) := rfl
theorem modEntry_retype (e : Bytes) (t a : Nat) : modEntry none none (some (some t)) (some a) e = Ent.setAux (Ent.setFtype e t) a := rfl

/-- a field assignment leaves the bytes outside the field alone -/
theorem getD_splice_outside (e new : Bytes) (off k : Nat) (h : k < off ∨ off + new.length ≤ k) (hl : off ≤ e.length) :
    (splice e off new).getD k 0 = e.getD k 0 := by
  unfold splice
  simp only [List.getD_eq_getElem?_getD]
  rcases h with h | h
  · rw [List.append_assoc, List.getElem?_append_left (by simp; omega), List.getElem?_take_of_lt h]
  · rw [List.getElem?_append_right (by simp; omega)]
    simp only [List.length_append, List.length_take, Nat.min_eq_left hl, List.getElem?_drop]
    congr 2; omega

end A2Verif.FsProdos
