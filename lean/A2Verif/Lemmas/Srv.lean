import A2Verif.Model.Srv
/-!
Lemmas about the server protocol model: a classification of every enabled transition into
"queue extended at the back", "one thread moved on", "front job harvested", and the invariants
proved over it.
-/
namespace A2Verif.Srv

variable (an : Nat → Text → Option Diags)

/-! ### small facts -/

theorem qdocs_append (a b : List Job) : qdocs (a ++ b) = qdocs a ++ qdocs b := by
  simp [qdocs]

theorem qdocs_updSt (q : List Job) (id : Nat) (f : Job → JobSt) : qdocs (updSt q id f) = qdocs q := by
  induction q with
  | nil => rfl
  | cons j q ih =>
    simp only [updSt, List.map_cons, qdocs] at *
    rw [ih]
    by_cases h : j.id = id <;> simp [h]

theorem ids_updSt (q : List Job) (id : Nat) (f : Job → JobSt) :
    (updSt q id f).map (·.id) = q.map (·.id) := by
  induction q with
  | nil => rfl
  | cons j q ih =>
    simp only [updSt, List.map_cons] at *
    rw [ih]
    by_cases h : j.id = id <;> simp [h]

theorem mem_updSt {q : List Job} {id : Nat} {f : Job → JobSt} {j' : Job} (h : j' ∈ updSt q id f) :
    ∃ j ∈ q, j'.id = j.id ∧ j'.doc = j.doc ∧ j'.priv = j.priv ∧
      ((j.id = id ∧ j'.st = f j) ∨ (j.id ≠ id ∧ j'.st = j.st)) := by
  simp only [updSt, List.mem_map] at h
  obtain ⟨j, hj, rfl⟩ := h
  refine ⟨j, hj, ?_⟩
  by_cases hid : j.id = id <;> simp [hid]

theorem findJob_some {q : List Job} {id : Nat} {j : Job} (h : findJob q id = some j) :
    j ∈ q ∧ j.id = id := by
  unfold findJob at h
  have h1 := List.mem_of_find?_eq_some h
  have h2 := List.find?_some h
  simp at h2
  exact ⟨h1, h2⟩

/-! ### classification of transitions -/

/-- jobs pushed at the back of the queue (possibly none); nothing else the theorems look at changes -/
structure Ext (s s' : State) (new : List Job) : Prop where
  queue : s'.queue = s.queue ++ new
  launched : s'.launched = s.launched ++ qdocs new
  published : s'.published = s.published
  lock : s'.lock = s.lock
  nextId : s'.nextId = s.nextId + new.length
  fresh : ∀ j ∈ new, j.st = .spawned ∧ s.nextId ≤ j.id
  sorted : (new.map (·.id)).Pairwise (· < ·)
  bound : ∀ j ∈ new, j.id < s.nextId + new.length

/-- one thread moved on -/
structure Upd (s s' : State) (id : Nat) (f : Job → JobSt) : Prop where
  queue : s'.queue = updSt s.queue id f
  launched : s'.launched = s.launched
  published : s'.published = s.published
  nextId : s'.nextId = s.nextId

def pubsOf (j : Job) : List Pub :=
  match j.st with
  | .done (some d) => [{ id := j.id, uri := j.doc.uri, ver := j.doc.ver, diags := d }]
  | _ => []

/-- the front job was popped -/
structure Harvest (s s' : State) (j : Job) : Prop where
  queue : s.queue = j :: s'.queue
  fin : j.st.finished = true
  launched : s'.launched = s.launched
  published : s'.published = s.published ++ pubsOf j
  lock : s'.lock = s.lock
  nextId : s'.nextId = s.nextId

inductive Trans (s s' : State) (e : Event) : Prop
  | ext (new : List Job) (h : Ext s s' new) (hne : ∀ id, e ≠ .die id ∧ e ≠ .finish id ∧ e ≠ .acquire id)
      (hpriv : (∀ c l o, e ≠ .config c l o) → ∀ j ∈ new, j.priv = false)
  | acq (id : Nat) (j : Job) (he : e = .acquire id) (hj : findJob s.queue id = some j)
      (hst : j.st = .spawned) (hu : Upd s s' id (fun _ => .holding))
      (hl : (j.priv = true ∧ s'.lock = s.lock) ∨ (j.priv = false ∧ s.lock = .free ∧ s'.lock = .held id))
  | acqPoisoned (id : Nat) (j : Job) (he : e = .acquire id) (hj : findJob s.queue id = some j)
      (hst : j.st = .spawned) (hp : j.priv = false) (hu : Upd s s' id (fun _ => .done none))
      (hl : s.lock = .poisoned ∧ s'.lock = .poisoned)
  | fin (id : Nat) (j : Job) (he : e = .finish id) (hj : findJob s.queue id = some j)
      (hst : j.st = .holding) (hu : Upd s s' id (fun j => .done (an j.id j.doc.text)))
      (hl : (j.priv = true ∧ s'.lock = s.lock) ∨ (j.priv = false ∧ s'.lock = .free))
  | die (id : Nat) (j : Job) (he : e = .die id) (hj : findJob s.queue id = some j)
      (hst : j.st = .holding) (hu : Upd s s' id (fun _ => .dead))
      (hl : (j.priv = true ∧ s'.lock = s.lock) ∨ (j.priv = false ∧ s'.lock = .poisoned))
  | harvest (j : Job) (he : e = .tick) (h : Harvest s s' j)

theorem Ext.refl (s : State) : Ext s s [] :=
  { queue := by simp, launched := by simp [qdocs], published := rfl, lock := rfl, nextId := by simp,
    fresh := by simp, sorted := by simp, bound := by simp }

theorem Ext.of_eq {s s' : State} (hq : s'.queue = s.queue) (hl : s'.launched = s.launched)
    (hp : s'.published = s.published) (hk : s'.lock = s.lock) (hn : s'.nextId = s.nextId) : Ext s s' [] :=
  { queue := by simp [hq], launched := by simp [qdocs, hl], published := hp, lock := hk, nextId := by simp [hn],
    fresh := by simp, sorted := by simp, bound := by simp }

theorem Ext.launch (s : State) (d : Doc) (p : Bool) :
    Ext s (Srv.launch s d p) [{ id := s.nextId, doc := d, priv := p, st := .spawned }] :=
  { queue := rfl, launched := rfl, published := rfl, lock := rfl, nextId := rfl,
    fresh := by simp, sorted := by simp, bound := by simp }

theorem Ext.launch_of (s s1 : State) (d : Doc) (p : Bool) (hq : s1.queue = s.queue)
    (hl : s1.launched = s.launched) (hp : s1.published = s.published) (hk : s1.lock = s.lock)
    (hn : s1.nextId = s.nextId) :
    Ext s (Srv.launch s1 d p) [{ id := s.nextId, doc := d, priv := p, st := .spawned }] :=
  { queue := by simp [Srv.launch, hq, hn], launched := by simp [Srv.launch, hl, hn, qdocs], published := hp, lock := hk,
    nextId := by simp [Srv.launch, hn],
    fresh := by simp, sorted := by simp, bound := by simp }

theorem Ext.trans {s s1 s2 : State} {n1 n2 : List Job} (h1 : Ext s s1 n1) (h2 : Ext s1 s2 n2) :
    Ext s s2 (n1 ++ n2) where
  queue := by rw [h2.queue, h1.queue, List.append_assoc]
  launched := by rw [h2.launched, h1.launched, qdocs_append, List.append_assoc]
  published := by rw [h2.published, h1.published]
  lock := by rw [h2.lock, h1.lock]
  nextId := by rw [h2.nextId, h1.nextId, List.length_append]; omega
  fresh := by
    intro j hj
    rcases List.mem_append.mp hj with h | h
    · exact h1.fresh j h
    · have := h2.fresh j h
      rw [h1.nextId] at this
      exact ⟨this.1, by omega⟩
  sorted := by
    rw [List.map_append, List.pairwise_append]
    refine ⟨h1.sorted, h2.sorted, ?_⟩
    intro a ha b hb
    simp only [List.mem_map] at ha hb
    obtain ⟨ja, hja, rfl⟩ := ha
    obtain ⟨jb, hjb, rfl⟩ := hb
    have := h1.bound ja hja
    have := (h2.fresh jb hjb).2
    rw [h1.nextId] at this
    omega
  bound := by
    intro j hj
    rw [List.length_append]
    rcases List.mem_append.mp hj with h | h
    · have := h1.bound j h; omega
    · have := h2.bound j h
      rw [h1.nextId] at this
      omega

theorem relaunch_ext (order : List Uri) : ∀ s : State, ∃ new, Ext s (relaunch s order) new := by
  induction order with
  | nil => intro s; exact ⟨[], Ext.refl s⟩
  | cons u rest ih =>
    intro s
    simp only [relaunch]
    split
    · rename_i d _
      obtain ⟨n2, h2⟩ := ih (launch s d true)
      exact ⟨_, (Ext.launch s d true).trans h2⟩
    · exact ih s

theorem step_trans {s s' : State} {e : Event} (hs : step an s e = some s') : Trans an s s' e := by
  cases e with
  | opn u v t =>
    simp only [step, Option.some.injEq] at hs
    subst hs
    exact .ext _ (Ext.launch_of _ _ _ _ rfl rfl rfl rfl rfl) (by simp) (by simp)
  | chg u v t =>
    simp only [step] at hs
    split at hs
    · simp only [Option.some.injEq] at hs
      subst hs
      split
      · exact .ext _ (Ext.launch_of _ _ _ _ rfl rfl rfl rfl rfl) (by simp) (by simp)
      · exact .ext _ (Ext.launch _ _ _) (by simp) (by simp)
    · simp only [Option.some.injEq] at hs
      subst hs
      split
      · exact .ext [] (Ext.of_eq rfl rfl rfl rfl rfl) (by simp) (by simp)
      · exact .ext [] (Ext.refl _) (by simp) (by simp)
  | save u t =>
    simp only [step, Option.some.injEq] at hs
    subst hs
    exact .ext _ (Ext.launch _ _ _) (by simp) (by simp)
  | close u =>
    simp only [step, Option.some.injEq] at hs
    subst hs
    exact .ext [] (Ext.of_eq rfl rfl rfl rfl rfl) (by simp) (by simp)
  | configLock c =>
    simp only [step] at hs
    split at hs
    · simp at hs
    · simp only [Option.some.injEq] at hs
      subst hs
      exact .ext [] (Ext.refl _) (by simp) (by simp)
  | config c live order =>
    simp only [step] at hs
    split at hs
    · simp only [Option.some.injEq] at hs
      subst hs
      obtain ⟨new, h⟩ := relaunch_ext order { s with live := live }
      refine .ext new ?_ (by simp) (fun h => absurd rfl (h _ _ _))
      exact { queue := h.queue, launched := h.launched, published := h.published, lock := h.lock,
              nextId := h.nextId, fresh := h.fresh, sorted := h.sorted, bound := h.bound }
    · simp at hs
  | acquire id =>
    simp only [step] at hs
    split at hs
    · simp at hs
    · rename_i j hj
      split at hs
      · simp at hs
      · rename_i hst
        simp only [ne_eq, Decidable.not_not] at hst
        split at hs
        · rename_i hp
          simp only [Option.some.injEq] at hs
          subst hs
          exact .acq id j rfl hj hst ⟨rfl, rfl, rfl, rfl⟩ (.inl ⟨hp, rfl⟩)
        · rename_i hp
          simp only [Bool.not_eq_true] at hp
          split at hs
          · rename_i hl
            simp only [Option.some.injEq] at hs
            subst hs
            exact .acq id j rfl hj hst ⟨rfl, rfl, rfl, rfl⟩ (.inr ⟨hp, hl, rfl⟩)
          · simp at hs
          · rename_i hl
            simp only [Option.some.injEq] at hs
            subst hs
            exact .acqPoisoned id j rfl hj hst hp ⟨rfl, rfl, rfl, rfl⟩ ⟨hl, hl⟩
  | finish id =>
    simp only [step] at hs
    split at hs
    · simp at hs
    · rename_i j hj
      split at hs
      · simp at hs
      · rename_i hst
        simp only [ne_eq, Decidable.not_not] at hst
        split at hs
        · rename_i hp
          simp only [Option.some.injEq] at hs
          subst hs
          exact .fin id j rfl hj hst ⟨rfl, rfl, rfl, rfl⟩ (.inl ⟨hp, rfl⟩)
        · rename_i hp
          simp only [Bool.not_eq_true] at hp
          simp only [Option.some.injEq] at hs
          subst hs
          exact .fin id j rfl hj hst ⟨rfl, rfl, rfl, rfl⟩ (.inr ⟨hp, rfl⟩)
  | die id =>
    simp only [step] at hs
    split at hs
    · simp at hs
    · rename_i j hj
      split at hs
      · simp at hs
      · rename_i hst
        simp only [ne_eq, Decidable.not_not] at hst
        split at hs
        · rename_i hp
          simp only [Option.some.injEq] at hs
          subst hs
          exact .die id j rfl hj hst ⟨rfl, rfl, rfl, rfl⟩ (.inl ⟨hp, rfl⟩)
        · rename_i hp
          simp only [Bool.not_eq_true] at hp
          simp only [Option.some.injEq] at hs
          subst hs
          exact .die id j rfl hj hst ⟨rfl, rfl, rfl, rfl⟩ (.inr ⟨hp, rfl⟩)
  | tick =>
    simp only [step] at hs
    split at hs
    · simp only [Option.some.injEq] at hs
      subst hs
      exact .ext [] (Ext.refl _) (by simp) (by simp)
    · rename_i j rest hq
      split at hs
      · rename_i d hst
        simp only [Option.some.injEq] at hs
        subst hs
        exact .harvest j rfl { queue := hq, fin := by simp [hst, JobSt.finished], launched := rfl,
                               published := by simp [pubsOf, hst], lock := rfl, nextId := rfl }
      · rename_i hst
        simp only [Option.some.injEq] at hs
        subst hs
        exact .harvest j rfl { queue := hq, fin := by simp [hst, JobSt.finished], launched := rfl,
                               published := by simp [pubsOf, hst], lock := rfl, nextId := rfl }
      · rename_i hst
        simp only [Option.some.injEq] at hs
        subst hs
        exact .harvest j rfl { queue := hq, fin := by simp [hst, JobSt.finished], launched := rfl,
                               published := by simp [pubsOf, hst], lock := rfl, nextId := rfl }
      · simp only [Option.some.injEq] at hs
        subst hs
        exact .ext [] (Ext.refl _) (by simp) (by simp)
      · simp only [Option.some.injEq] at hs
        subst hs
        exact .ext [] (Ext.refl _) (by simp) (by simp)
  | request =>
    simp only [step, Option.some.injEq] at hs
    subst hs
    exact .ext [] (Ext.of_eq rfl rfl rfl rfl rfl) (by simp) (by simp)

end A2Verif.Srv
