import A2Verif.Lemmas.FsProdosDelOp
/-!
# `delete` of a sub-directory of the volume directory

The directory branch of `delete` (source as repaired: the chain is followed).  `dirDelLoop_chain`: the loop releases the blocks
of the directory's chain one after the other.
-/
namespace A2Verif.FsProdos
open A2Verif.Fs.Prodos
open A2Verif.Read.Prodos (entryAt dirChain idxPtr indexEntries readData trimName bitmapFree)
open A2Verif.Read.ProdosT

/-- the buffer after the blocks of a list have been marked free -/
def setBits (buf : Array Nat) : List Nat → Array Nat
  | [] => buf
  | b :: rest => setBits (setBit buf b) rest

theorem setBits_size (l : List Nat) : ∀ (buf : Array Nat), (setBits buf l).size = buf.size := by
  induction l with
  | nil => intro buf; rfl
  | cons b rest ih => intro buf; rw [setBits, ih, size_setBit]

theorem setBits_ok (l : List Nat) : ∀ (buf : Array Nat), BytesOk buf → BytesOk (setBits buf l) := by
  induction l with
  | nil => intro buf h; exact h
  | cons b rest ih => intro buf h; exact ih _ (bytesOk_setBit _ _ h)

theorem freeB_setBits (l : List Nat) : ∀ (buf : Array Nat), BytesOk buf → (∀ y ∈ l, y / 8 < buf.size) →
    ∀ j, freeB (setBits buf l) j = (l.contains j || freeB buf j) := by
  induction l with
  | nil => intro buf _ _ j; simp [setBits]
  | cons b rest ih =>
    intro buf hok hcov j
    rw [setBits, ih _ (bytesOk_setBit _ _ hok) (fun y hy => by rw [size_setBit]; exact hcov y (List.mem_cons_of_mem _ hy)) j,
      freeB_setBit buf b j hok (hcov b List.mem_cons_self)]
    by_cases hjb : j = b
    · subst hjb; simp
    · have : (j == b) = false := by simpa using hjb
      simp [hjb, this]

theorem isChain_nil_zero {r : Raw} {l : Nat} (h : IsChain r l []) : l = 0 := by cases h; rfl

theorem isChain_cons_head {r : Raw} {l c : Nat} {rest : List Nat} (h : IsChain r l (c :: rest)) : l = c ∧ c ≠ 0 := by
  cases h with
  | cons h0 _ _ => exact ⟨rfl, h0⟩

/-- **the loop of the directory branch of `delete`, as repaired**: every block of the chain is released, then `finish` runs -/
theorem dirDelLoop_chain {bm cnt : Nat} (finish : M Unit) : ∀ (rest : List Nat) (b fuel : Nat) (d : Disk), St d bm cnt →
    IsChain d.raw b (b :: rest) → (∀ y ∈ b :: rest, y ∉ bmRange bm cnt ∧ y / 8 < (effBuf d bm cnt).size) → rest.length < fuel →
    ∃ d', dirDeleteLoopFixed finish fuel b (le16 (unitAt d.raw b) 2) d = finish d' ∧
      Next d d' bm cnt d.raw (setBits (effBuf d bm cnt) (b :: rest))
  | [], b, fuel, d, st, hic, hall, hf => by
    obtain ⟨f, rfl⟩ : ∃ f, fuel = f + 1 := ⟨fuel - 1, by omega⟩
    obtain ⟨d1, hd1, n1⟩ := deallocate_next st b (hall b List.mem_cons_self).2
    cases hic with
    | cons hb0 hblk hrest =>
      have hl : le16 (unitAt d.raw b) 2 = 0 := by rw [unitAt_of_get hblk]; exact isChain_nil_zero hrest
      refine ⟨d1, ?_, n1⟩
      unfold dirDeleteLoopFixed
      simp only [bind_def]
      rw [bind_ok _ _ d d1 _ hd1, hl]
      simp
  | c :: rest, b, fuel, d, st, hic, hall, hf => by
    obtain ⟨f, rfl⟩ : ∃ f, fuel = f + 1 := ⟨fuel - 1, by omega⟩
    obtain ⟨d1, hd1, n1⟩ := deallocate_next st b (hall b List.mem_cons_self).2
    cases hic with
    | cons hb0 hblk hrest =>
      have hub := unitAt_of_get hblk
      obtain ⟨hlc', hc0⟩ := isChain_cons_head hrest
      have hlc : le16 (unitAt d.raw b) 2 = c := by rw [hub]; exact hlc'
      have hrest' : IsChain d1.raw c (c :: rest) := by
        rw [n1.raw]; rw [hlc'] at hrest; exact hrest
      have hcsz : c < d.raw.units.size := hrest'.exists c List.mem_cons_self |> fun h => by rw [n1.raw] at h; exact h
      have hgd := getDirectory_st n1.st c (unitAt d.raw c) (hall c (List.mem_cons_of_mem _ List.mem_cons_self)).1
        (by rw [n1.raw]; exact units_get_unitAt _ _ hcsz)
      obtain ⟨d', hloop, n'⟩ := dirDelLoop_chain finish rest c f d1 n1.st hrest'
        (fun y hy => by
          rw [n1.eff, size_setBit]
          exact hall y (List.mem_cons_of_mem _ hy)) (by simp at hf; omega)
      refine ⟨d', ?_, ?_⟩
      · unfold dirDeleteLoopFixed
        simp only [bind_def]
        rw [bind_ok _ _ d d1 _ hd1, hlc]
        simp only [hc0, ne_eq, not_false_eq_true, ↓reduceIte]
        rw [bind_ok _ _ d1 d1 _ hgd, next_eq]
        rw [n1.raw] at hloop
        exact hloop
      · have n := n1.trans n'
        rw [n1.raw, n1.eff] at n
        exact n

theorem getD_take_lt (b : Bytes) (n j : Nat) (h : j < n) : (b.take n).getD j 0 = b.getD j 0 := by
  simp only [List.getD_eq_getElem?_getD]
  rw [List.getElem?_take_of_lt h]

/-- `find_dir_key_block` of a path into the volume directory that names a sub-directory: its key pointer -/
theorem findDirKeyBlock_hit {d : Disk} {bm cnt : Nat} {ch : List Nat} (c : RootCtx d bm cnt ch) (path nm : Bytes)
    (hnodes : normalizePath (volName (hdrOf d.raw)) path = .ok [volName (hdrOf d.raw), nm]) (hnm : nm ≠ [])
    (hnv : NotVol (volName (hdrOf d.raw)) path) (hv : isNameValid nm = true)
    (B k : Nat) (hB : B ∈ ch) (hk13 : k < 13) (hkey : B = 2 → 1 ≤ k)
    (hx : (dirSlots d.raw 2 ch).find? (isHit [stSubDirEntry] nm) = some (entryAt (unitAt d.raw B) k 39, B, k + 1)) :
    findDirKeyBlock path d = (.ok (le16 (entryAt (unitAt d.raw B) k 39) 17), d) := by
  have hBsz : B < d.raw.units.size := c.chain.exists B hB
  unfold findDirKeyBlock
  simp only [bind_def]
  rw [bind_ok _ _ d d _ (getVolHeader_root c)]
  unfold NotVol at hnv
  simp only [hnv, ↓reduceIte]
  have hs := searchVolume_root c [stSubDirEntry] path nm hnodes hnm
  unfold rootSearch at hs
  simp only [hv, Bool.not_true, Bool.false_eq_true, ↓reduceIte, hx] at hs
  rw [bind_ok _ _ d d _ (attempt_ok _ d d _ hs)]
  simp only []
  have hread : readEntry (slotLoc (entryAt (unitAt d.raw B) k 39, B, k + 1)) d = (.ok (entryAt (unitAt d.raw B) k 39), d) := by
    unfold readEntry slotLoc
    simp only [bind_def]
    rw [bind_ok _ _ d d _ (getDirectory_st c.st B (unitAt d.raw B) (c.nb B hB) (units_get_unitAt _ _ hBsz))]
    simp only [getEntry_slot c.kinds B k hB hk13 hkey]
    rfl
  rw [bind_ok _ _ d d _ hread]
  rfl

/-- what `delete` needs of the sub-directory it is to remove -/
structure SubCtx (d : Disk) (bm cnt : Nat) (ch : List Nat) (B k K : Nat) (sch : List Nat) : Prop where
  chain : IsChain d.raw K sch
  nb : ∀ y ∈ sch, y ∉ bmRange bm cnt ∧ y / 8 < (effBuf d bm cnt).size
  notch : ∀ y ∈ sch, y ∉ ch
  len : sch.length ≤ 100
  prev : le16 (unitAt d.raw K) 0 = 0
  parent : le16 (unitAt d.raw K) 39 = B ∧ (unitAt d.raw K).getD 41 0 = k + 1
  klen : (unitAt d.raw K).length = 512

theorem SubCtx.head {d : Disk} {bm cnt : Nat} {ch : List Nat} {B k K : Nat} {sch : List Nat} (s : SubCtx d bm cnt ch B k K sch)
    (hK0 : K ≠ 0) : ∃ rest, sch = K :: rest := by
  cases hc : s.chain with
  | nil => exact absurd rfl hK0
  | cons _ _ _ => exact ⟨_, rfl⟩

/-- the directory branch of `delete` up to the test of the file count -/
theorem delete_dir_prefix {d : Disk} {bm cnt : Nat} {ch : List Nat} (c : RootCtx d bm cnt ch) (path nm : Bytes)
    (hnodes : normalizePath (volName (hdrOf d.raw)) path = .ok [volName (hdrOf d.raw), nm]) (hnm : nm ≠ [])
    (hnv : NotVol (volName (hdrOf d.raw)) path) (hv : isNameValid nm = true)
    (B k : Nat) (hB : B ∈ ch) (hk13 : k < 13) (hkey : B = 2 → 1 ≤ k)
    (hnofile : (dirSlots d.raw 2 ch).find? (isHit fileTypes nm) = none)
    (hx : (dirSlots d.raw 2 ch).find? (isHit [stSubDirEntry] nm) = some (entryAt (unitAt d.raw B) k 39, B, k + 1))
    (K : Nat) (hKe : le16 (entryAt (unitAt d.raw B) k 39) 17 = K) (hK0 : K ≠ 0) (sch : List Nat) (sc : SubCtx d bm cnt ch B k K sch) :
    delete path repaired d =
      (if le16 (unitAt d.raw K) 37 > 0 then M.fail .writeProtected
       else (M.ofOption (Dir.delete { kind := DKind.subKey, bytes := (unitAt d.raw K).take dirLen })).bind fun dir' =>
        (writeBlock dir'.bytes K 0).bind fun _ =>
          dirDeleteLoopFixed
            ((M.ofOption (Dir.deleteEntry { kind := kindOf B (unitAt d.raw B), bytes := (unitAt d.raw B).take dirLen } (k + 1))).bind
              fun parentDir' => (writeBlock parentDir'.bytes B 0).bind fun _ =>
                (getKeyDirectory B).bind fun kk => (M.ofOption kk.2.decFileCount).bind fun keyDir' => writeBlock keyDir'.bytes kk.1 0)
            100 K dir'.next) d := by
  have hBsz : B < d.raw.units.size := c.chain.exists B hB
  obtain ⟨rest, hsch⟩ := sc.head hK0
  have hKm : K ∈ sch := by rw [hsch]; exact List.mem_cons_self
  have hKsz : K < d.raw.units.size := sc.chain.exists K hKm
  obtain ⟨rest2, hch⟩ := chain_head c.chain
  have hK2 : K ≠ 2 := fun e => sc.notch K hKm (by rw [e, hch]; exact List.mem_cons_self)
  have hff : ∃ e, findFile path d = (.error e, d) ∧ e ≠ .panic := by
    rw [findFile_root' c path nm hnodes hnm]
    unfold rootSearch
    simp only [hv, Bool.not_true, Bool.false_eq_true, ↓reduceIte, hnofile]; exact ⟨_, rfl, by decide⟩
  obtain ⟨e, hfe, hep⟩ := hff
  have hfdk := findDirKeyBlock_hit c path nm hnodes hnm hnv hv B k hB hk13 hkey hx
  rw [hKe] at hfdk
  have hgdK := getDirectory_st c.st K (unitAt d.raw K) (sc.nb K hKm).1 (units_get_unitAt _ _ hKsz)
  have hkind : kindOf K (unitAt d.raw K) = DKind.subKey := by
    unfold kindOf
    rw [if_neg hK2]
    have := sc.prev
    unfold le16 at this
    have h0 : (unitAt d.raw K).getD 0 0 = 0 := by omega
    have h1 : (unitAt d.raw K).getD 1 0 = 0 := by
      have : (unitAt d.raw K).getD (0 + 1) 0 = 0 := by omega
      exact this
    rw [h0, h1]; rfl
  have hpe : Dir.parentEntryLoc { kind := DKind.subKey, bytes := (unitAt d.raw K).take dirLen } = some (some { block := B, idx := k + 1 }) := by
    unfold Dir.parentEntryLoc
    simp only
    rw [le16_take _ dirLen 39 (by unfold dirLen; omega), getD_take_lt _ dirLen 41 (by unfold dirLen; omega), sc.parent.1, sc.parent.2]
  have hgdB := getDirectory_st c.st B (unitAt d.raw B) (c.nb B hB) (units_get_unitAt _ _ hBsz)
  have hfc : Dir.fileCount { kind := DKind.subKey, bytes := (unitAt d.raw K).take dirLen } = some (le16 (unitAt d.raw K) 37) := by
    unfold Dir.fileCount
    simp only
    rw [le16_take _ dirLen 37 (by unfold dirLen; omega)]
  unfold delete
  simp only [bind_def]
  rw [bind_ok _ _ d d _ (attempt_err _ d d e hfe hep)]
  simp only []
  rw [bind_ok _ _ d d _ (attempt_ok _ d d _ hfdk)]
  simp only []
  rw [bind_ok _ _ d d _ hgdK, hkind, hpe, bind_ok _ _ d d _ (ofOption_some _ d)]
  simp only []
  rw [bind_ok _ _ d d _ hgdB, hfc, bind_ok _ _ d d _ (ofOption_some _ d)]
  rfl

theorem isChain_congr {r r' : Raw} : ∀ {b : Nat} {ch : List Nat}, IsChain r b ch →
    (∀ x ∈ ch, ∃ blk', r'.units[x]? = some blk' ∧ le16 blk' 2 = le16 (unitAt r x) 2) → IsChain r' b ch
  | _, _, IsChain.nil, _ => IsChain.nil
  | _, _, @IsChain.cons _ b blk rest hb0 hblk hrest, h => by
    obtain ⟨blk', hb', hl⟩ := h b List.mem_cons_self
    refine IsChain.cons hb0 hb' ?_
    rw [hl, unitAt_of_get hblk]
    exact isChain_congr hrest (fun x hx => h x (List.mem_cons_of_mem _ hx))

/-- `delete` of a sub-directory that still holds a file: `WRITE PROTECTED`, nothing written -/
theorem delete_dir_protected {d : Disk} {bm cnt : Nat} {ch : List Nat} (c : RootCtx d bm cnt ch) (path nm : Bytes)
    (hnodes : normalizePath (volName (hdrOf d.raw)) path = .ok [volName (hdrOf d.raw), nm]) (hnm : nm ≠ [])
    (hnv : NotVol (volName (hdrOf d.raw)) path) (hv : isNameValid nm = true)
    (B k : Nat) (hB : B ∈ ch) (hk13 : k < 13) (hkey : B = 2 → 1 ≤ k)
    (hnofile : (dirSlots d.raw 2 ch).find? (isHit fileTypes nm) = none)
    (hx : (dirSlots d.raw 2 ch).find? (isHit [stSubDirEntry] nm) = some (entryAt (unitAt d.raw B) k 39, B, k + 1))
    (K : Nat) (hKe : le16 (entryAt (unitAt d.raw B) k 39) 17 = K) (hK0 : K ≠ 0) (sch : List Nat) (sc : SubCtx d bm cnt ch B k K sch)
    (hfc : le16 (unitAt d.raw K) 37 > 0) :
    delete path repaired d = (.error .writeProtected, d) := by
  rw [delete_dir_prefix c path nm hnodes hnm hnv hv B k hB hk13 hkey hnofile hx K hKe hK0 sch sc, if_pos hfc]
  rfl

/-- **`delete` of an empty sub-directory, as a step**: the header is marked deleted, the blocks of the chain are released, the
parent entry is erased and the file count of the volume directory lowered -/
theorem delete_dir_trace {d : Disk} {bm cnt : Nat} {ch : List Nat} (c : RootCtx d bm cnt ch) (path nm : Bytes)
    (hnodes : normalizePath (volName (hdrOf d.raw)) path = .ok [volName (hdrOf d.raw), nm]) (hnm : nm ≠ [])
    (hnv : NotVol (volName (hdrOf d.raw)) path) (hv : isNameValid nm = true)
    (B k : Nat) (hB : B ∈ ch) (hk13 : k < 13) (hkey : B = 2 → 1 ≤ k)
    (hnofile : (dirSlots d.raw 2 ch).find? (isHit fileTypes nm) = none)
    (hx : (dirSlots d.raw 2 ch).find? (isHit [stSubDirEntry] nm) = some (entryAt (unitAt d.raw B) k 39, B, k + 1))
    (K : Nat) (hKe : le16 (entryAt (unitAt d.raw B) k 39) 17 = K) (hK0 : K ≠ 0) (sch : List Nat) (sc : SubCtx d bm cnt ch B k K sch)
    (hfc : le16 (unitAt d.raw K) 37 = 0)
    (hok : BytesOk (effBuf d bm cnt)) (hcovch : ∀ b ∈ ch, b / 8 < (effBuf d bm cnt).size)
    (hcount : le16 (unitAt d.raw 2) 37 ≠ 0) (hlen : ∀ b ∈ ch, (unitAt d.raw b).length = 512) :
    ∃ d3, delete path repaired d = (.ok (), d3) ∧
      Next d d3 bm cnt (delImage (setUnit d.raw K (patched (unitAt d.raw K) 4 [0])) B (k + 1))
        (clearBit (clearBit (setBits (clearBit (effBuf d bm cnt) K) sch) B) 2) := by
  have hex := c.chain.exists
  have hBsz : B < d.raw.units.size := hex B hB
  have hBnb : B ∉ bmRange bm cnt := c.nb B hB
  obtain ⟨rest, hsch⟩ := sc.head hK0
  have hKm : K ∈ sch := by rw [hsch]; exact List.mem_cons_self
  have hKsz : K < d.raw.units.size := sc.chain.exists K hKm
  obtain ⟨rest2, hch⟩ := chain_head c.chain
  have h2ch : 2 ∈ ch := by rw [hch]; exact List.mem_cons_self
  have hK2 : K ≠ 2 := fun e => sc.notch K hKm (e ▸ h2ch)
  have hKB : K ≠ B := fun e => sc.notch K hKm (e ▸ hB)
  -- the header write
  have hdel : Dir.delete { kind := DKind.subKey, bytes := (unitAt d.raw K).take dirLen } =
      some { kind := DKind.subKey, bytes := splice ((unitAt d.raw K).take dirLen) 4 [0] } := rfl
  obtain ⟨d1, hd1, n1⟩ := writeBlock_next c.st (splice ((unitAt d.raw K).take dirLen) 4 [0]) K (sc.nb K hKm).1 hKsz (sc.nb K hKm).2
    (fun e => absurd e hK2)
  have hraw1 : d1.raw = setUnit d.raw K (patched (unitAt d.raw K) 4 [0]) := n1.raw
  have hsz1 : d1.raw.units.size = d.raw.units.size := by rw [hraw1, setUnit_size]
  have hu1 : ∀ b, b ≠ K → unitAt d1.raw b = unitAt d.raw b := by
    intro b hb; rw [hraw1, unitAt_setUnit_other _ _ _ _ (Ne.symm hb)]
  have hu1K : unitAt d1.raw K = patched (unitAt d.raw K) 4 [0] := by
    rw [hraw1]; unfold unitAt; rw [setUnit_self _ _ _ hKsz]; rfl
  have hnext : Dir.next { kind := DKind.subKey, bytes := splice ((unitAt d.raw K).take dirLen) 4 [0] } = le16 (unitAt d1.raw K) 2 := by
    rw [hu1K, le16_patched_out _ _ _ 2 sc.klen (by simp) (Or.inl (by omega)) (by omega)]
    unfold Dir.next le16
    simp only
    have hl : ((unitAt d.raw K).take dirLen).length = 511 := by simp [sc.klen, dirLen]
    rw [getD_splice_outside _ _ _ 2 (Or.inl (by omega)) (by rw [hl]; omega),
      getD_splice_outside _ _ _ (2 + 1) (Or.inl (by omega)) (by rw [hl]; omega),
      getD_take_lt _ dirLen 2 (by unfold dirLen; omega), getD_take_lt _ dirLen (2 + 1) (by unfold dirLen; omega)]
  -- the chain in the new image
  have hic1 : IsChain d1.raw K (K :: rest) := by
    rw [← hsch]
    apply isChain_congr sc.chain
    intro x hx
    have hxsz : x < d1.raw.units.size := by rw [hsz1]; exact sc.chain.exists x hx
    refine ⟨unitAt d1.raw x, units_get_unitAt _ _ hxsz, ?_⟩
    by_cases hxK : x = K
    · subst hxK
      rw [hu1K, le16_patched_out _ _ _ 2 sc.klen (by simp) (Or.inl (by omega)) (by omega)]
    · rw [hu1 x hxK]
  obtain ⟨d2, hloop, n2⟩ := dirDelLoop_chain (bm := bm) (cnt := cnt)
    ((M.ofOption (Dir.deleteEntry { kind := kindOf B (unitAt d.raw B), bytes := (unitAt d.raw B).take dirLen } (k + 1))).bind
      fun parentDir' => (writeBlock parentDir'.bytes B 0).bind fun _ =>
        (getKeyDirectory B).bind fun kk => (M.ofOption kk.2.decFileCount).bind fun keyDir' => writeBlock keyDir'.bytes kk.1 0)
    rest K 100 d1 n1.st hic1 (fun y hy => by
      rw [n1.eff, size_clearBit, ← hsch] at *
      exact sc.nb y hy) (by have := sc.len; rw [hsch] at this; simp at this; omega)
  rw [n1.eff, ← hsch] at n2
  -- the finish: the parent entry, the file count
  have hoff : Dir.entryOff (k + 1) = 4 + k * 39 := by rw [entryOff_eq' _ (by omega)]; simp
  have hdelE : Dir.deleteEntry { kind := kindOf B (unitAt d.raw B), bytes := (unitAt d.raw B).take dirLen } (k + 1) =
      some { kind := kindOf B (unitAt d.raw B), bytes := splice ((unitAt d.raw B).take dirLen) (Dir.entryOff (k + 1)) [0] } := by
    unfold Dir.deleteEntry; rw [if_pos (idxOk_slot c.kinds B k hB hk13 hkey)]
  have hcov2 : ∀ b ∈ ch, b / 8 < (effBuf d2 bm cnt).size := by
    intro b hb; rw [n2.eff, setBits_size, size_clearBit]; exact hcovch b hb
  have hhdr3 : B = 2 → le16 (quantize ((splice ((unitAt d.raw B).take dirLen) (Dir.entryOff (k + 1)) [0]).take blockSize)) 39 = bm := by
    intro hb2
    have hk1 := hkey hb2
    show le16 (patched (unitAt d.raw B) (Dir.entryOff (k + 1)) [0]) 39 = bm
    rw [hoff, le16_patched_out _ _ _ 39 (hlen B hB) (by simp; omega) (Or.inl (by omega)) (by omega)]
    obtain ⟨kb, hkb, hbm⟩ := c.st.hdr
    rw [hb2, unitAt_of_get hkb]; exact hbm
  obtain ⟨d3, hd3, n3⟩ := writeBlock_next n2.st (splice ((unitAt d.raw B).take dirLen) (Dir.entryOff (k + 1)) [0]) B hBnb
    (by rw [n2.raw, hsz1]; exact hBsz) (hcov2 B hB) hhdr3
  have hr3 : d3.raw = setUnit d1.raw B (patched (unitAt d1.raw B) (Dir.entryOff (k + 1)) [0]) := by
    rw [n3.raw, n2.raw, hu1 B (Ne.symm hKB)]; rfl
  have hsz3 : d3.raw.units.size = d.raw.units.size := by rw [hr3, setUnit_size, hsz1]
  have hu3 : ∀ b ∈ ch, unitAt d3.raw b = if b = B then patched (unitAt d.raw B) (Dir.entryOff (k + 1)) [0] else unitAt d.raw b := by
    intro b hb
    have hbK : b ≠ K := fun e => sc.notch K hKm (e ▸ hb)
    rw [hr3]
    by_cases hbB : b = B
    · subst hbB
      rw [if_pos rfl]
      unfold unitAt
      rw [setUnit_self _ _ _ (by rw [hsz1]; exact hBsz)]
      simp only [Option.getD_some]
      have := hu1 b hbK
      unfold unitAt at this
      rw [this]
    · rw [if_neg hbB, unitAt_setUnit_other _ _ _ _ (fun e => hbB e.symm), hu1 b hbK]
  have hlinks3 : ∀ b ∈ ch, le16 (unitAt d3.raw b) 0 = le16 (unitAt d.raw b) 0 := by
    intro b hb
    rw [hu3 b hb]
    split
    · next hbB => subst hbB; rw [hoff, le16_patched_out _ _ _ 0 (hlen b hb) (by simp; omega) (Or.inl (by omega)) (by omega)]
    · rfl
  have hne : ch ≠ [] := by rw [hch]; simp
  obtain ⟨iB, hiB, hgetB⟩ := mem_index hB
  have hkd := keyDirLoop_chain d3 bm cnt n3.st ch hne (prevOk_congr d.raw d3.raw ch 0 hlinks3 c.prev)
    (fun x hx => by rw [hsz3]; exact hex x hx) c.chain.ne_zero c.nb iB 100 hiB (by have := c.len; omega)
  have hhead : ch.head hne = 2 := by simp [hch]
  rw [hgetB, hhead] at hkd
  have hk2 : kindOf 2 (unitAt d3.raw 2) = DKind.volKey := by unfold kindOf; simp [volKeyBlock]
  have hlen2 : (unitAt d3.raw 2).length = 512 := by
    rw [hu3 2 h2ch]; split
    · exact patched_length _ _ _
    · exact hlen 2 h2ch
  have hcnt2 : le16 ((unitAt d3.raw 2).take dirLen) 37 = le16 (unitAt d.raw 2) 37 := by
    rw [le16_take _ dirLen 37 (by unfold dirLen; omega), hu3 2 h2ch]
    split
    · next hb2 =>
      have hk1 := hkey hb2.symm
      rw [← hb2, hoff, le16_patched_out _ _ _ 37 (hlen 2 h2ch) (by simp; omega) (Or.inl (by omega)) (by omega)]
    · rfl
  have hdec := decFileCount_ok DKind.volKey ((unitAt d3.raw 2).take dirLen) (by decide) (by
    show le16 ((unitAt d3.raw 2).take dirLen) 37 ≠ 0
    rw [hcnt2]; exact hcount)
  have h2nb : (2 : Nat) ∉ bmRange bm cnt := c.two_nb
  have h2sz : 2 < d.raw.units.size := c.two_lt
  have hhdr4 : (2 : Nat) = 2 → le16 (quantize ((splice ((unitAt d3.raw 2).take dirLen) (4 + 33)
      (u16le (le16 ((unitAt d3.raw 2).take dirLen) (4 + 33) - 1))).take blockSize)) 39 = bm := by
    intro _
    show le16 (patched (unitAt d3.raw 2) 37 (u16le _)) 39 = bm
    rw [le16_patched_out _ _ _ 39 hlen2 (by show 37 + 2 ≤ 511; omega) (Or.inr (by show 37 + 2 ≤ 39; omega)) (by omega)]
    obtain ⟨kb, hkb, hbm⟩ := n3.st.hdr
    rw [unitAt_of_get hkb]; exact hbm
  obtain ⟨d4, hd4, n4⟩ := writeBlock_next n3.st (splice ((unitAt d3.raw 2).take dirLen) (4 + 33)
      (u16le (le16 ((unitAt d3.raw 2).take dirLen) (4 + 33) - 1))) 2 h2nb
    (by rw [hsz3]; exact h2sz) (by rw [n3.eff, size_clearBit]; exact hcov2 2 h2ch) hhdr4
  refine ⟨d4, ?_, ?_⟩
  · rw [delete_dir_prefix c path nm hnodes hnm hnv hv B k hB hk13 hkey hnofile hx K hKe hK0 sch sc, if_neg (by omega)]
    rw [hdel, bind_ok _ _ d d _ (ofOption_some _ d)]
    simp only []
    rw [bind_ok _ _ d d1 _ hd1, hnext, hloop]
    rw [hdelE, bind_ok _ _ d2 d2 _ (ofOption_some _ d2)]
    simp only []
    rw [bind_ok _ _ d2 d3 _ hd3]
    unfold getKeyDirectory
    rw [bind_ok _ _ d3 d3 _ hkd]
    simp only [hk2]
    rw [hdec, bind_ok _ _ d3 d3 _ (ofOption_some _ d3)]
    exact hd4
  · have n := ((n1.trans n2).trans n3).trans n4
    rw [n3.eff, n2.eff] at n
    have hr4 : setUnit d3.raw 2 (quantize ((splice ((unitAt d3.raw 2).take dirLen) (4 + 33)
        (u16le (le16 ((unitAt d3.raw 2).take dirLen) (4 + 33) - 1))).take blockSize)) =
        delImage (setUnit d.raw K (patched (unitAt d.raw K) 4 [0])) B (k + 1) := by
      unfold delImage
      simp only []
      rw [← hraw1, ← hr3]
      rfl
    rw [hr4] at n
    exact n

/-- an entry matching a valid name as a sub-directory entry is a directory entry whose name is the upper-cased name -/
theorem isFileMatch_dir (nm e : Bytes) (hv : isNameValid nm = true) (h : isFileMatch [stSubDirEntry] nm e = true) :
    e.getD 0 0 / 16 = 0xD ∧ trimName e = upper nm := by
  obtain ⟨hl1, hl15⟩ := isNameValid_len nm hv
  unfold isFileMatch at h
  simp only [List.any_cons, List.any_nil, Bool.or_false, Bool.and_eq_true, beq_iff_eq] at h
  obtain ⟨hn, hname⟩ := h
  have hnibs : nibsOf stSubDirEntry nm = 0xD * 16 + nm.length := by unfold nibsOf stSubDirEntry; rw [Nat.mod_eq_of_lt (by omega)]
  have hs : e.getD 0 0 = 0xD * 16 + nm.length := by rw [← hnibs, hn]; rfl
  have hmod : nibsOf stSubDirEntry nm % 16 = nm.length := by rw [hnibs]; omega
  rw [hmod] at hname
  refine ⟨by rw [hs]; omega, ?_⟩
  unfold trimName
  have : e.getD 0 0 % 16 = nm.length := by rw [hs]; omega
  rw [this]
  have h1 : (nameField nm).take nm.length = upper nm := by
    unfold nameField
    have : (upper nm).length = nm.length := by unfold upper; simp
    rw [List.take_append_of_le_length (by omega), List.take_of_length_le (by omega)]
  have h2 : (Ent.name e).take nm.length = slice e 1 nm.length := by
    unfold Ent.name slice
    rw [List.take_take, Nat.min_eq_left hl15]
  rw [← h2, ← hname, h1]

/-- **`delete(path)` of a sub-directory of the volume directory refines the abstract `delete`**: a directory that still holds
a file is refused (`WRITE PROTECTED`, nothing changes); an empty one is removed — its record disappears, the blocks of its
chain are free, every other record is identical -/
theorem delete_dir_refines {d : Disk} (hs : SInv d) (path nm : Bytes)
    (hnodes : normalizePath (volName (hdrOf d.raw)) path = .ok [volName (hdrOf d.raw), nm]) (hnm : nm ≠ [])
    (hnv : NotVol (volName (hdrOf d.raw)) path) (hv : isNameValid nm = true)
    (v : Vol) (fsL : List LRec) (ch : List Nat)
    (hr : Read.ProdosT.read d.raw = .ok v) (ht : readTree d.raw (hdrTotal d.raw) = .ok (fsL, ch))
    (hnofile : (dirSlots d.raw 2 ch).find? (isHit fileTypes nm) = none)
    (x : Bytes × Nat × Nat) (hx : (dirSlots d.raw 2 ch).find? (isHit [stSubDirEntry] nm) = some x) :
    ∃ res d1 d4 v4, delete path repaired d = (res, d1) ∧ d1.flush = (.ok (), d4) ∧ SInv d4 ∧
      Read.ProdosT.read d4.raw = .ok v4 ∧
      stepOk { eofRule := id, keepsType := true, keepsAux := true, hasLock := true } v (.delete (upper nm))
        (match res with | .ok _ => true | .error _ => false) v4 = true ∧ v4.label = v.label := by
  obtain ⟨v', fsL', ch', hr', ht', c, hts, heff, hbsz, hbok⟩ := hs.ctx
  have e1 : v' = v := by rw [hr] at hr'; injection hr' with h; exact h.symm
  subst e1
  have e2 : fsL' = fsL ∧ ch' = ch := by
    rw [ht] at ht'; injection ht' with h; injection h with h1 h2; exact ⟨h1.symm, h2.symm⟩
  obtain ⟨rfl, rfl⟩ := e2
  obtain ⟨hw, hn, hroot, hvv, hc, hic, hnd, hchf, h2, h6, h3, hbt, hstv⟩ := root_chain_facts hs.inv v' fsL' ch' hr ht
  have hsz := hs.inv.size
  obtain ⟨hxm, hxhit⟩ := mem_find hx
  obtain ⟨B, hB, k, hk13, hkey, hxe⟩ := mem_dirSlots.mp hxm
  subst hxe
  have hmatch : isFileMatch [stSubDirEntry] nm (entryAt (unitAt d.raw B) k 39) = true := by
    unfold isHit at hxhit; simp only [Bool.and_eq_true] at hxhit; exact hxhit.2
  obtain ⟨hst, hname⟩ := isFileMatch_dir nm _ hv hmatch
  have hact : isAct (entryAt (unitAt d.raw B) k 39, B, k + 1) = true := by
    unfold isAct; simp only [ne_eq, decide_eq_true_eq]; omega
  -- the sub-directory
  have hsub : SubOk d.raw (hdrTotal d.raw) (entryAt (unitAt d.raw B) k 39, B, k + 1) := by
    rcases hroot.slots _ hxm with (h0 | ⟨hf, _⟩) | ⟨_, hsub⟩
    · simp only at h0; rw [h0] at hst; simp at hst
    · simp only at hf; omega
    · exact hsub
  obtain ⟨sch, hcs, hnl, hgeo, hprev, hslen, hhdr, hp1, hp2, hslots⟩ := hsub.chain
  simp only at hcs hnl hgeo hprev hhdr hp1 hp2 hslots
  obtain ⟨hsplit, hs1, hs2, hfs2, hfiles, hdisj, hxnd, hxown, hall, hcnt0⟩ :=
    slot_split_facts hs.inv v' fsL' ch' hr ht _ hxm
  obtain ⟨z, hz⟩ := hall _ hxm hact
  obtain ⟨fs, sch', hzeq, hcs', hK0, hKt, hused, hrd, hfs, hallsub, hcntsub⟩ := dir_slot_facts hst hz hgeo
  simp only at hzeq hcs' hK0 hKt hused hrd hfs hallsub hcntsub
  have hse : sch' = sch := by rw [hcs] at hcs'; injection hcs' with e; exact e.symm
  subst hse
  have hgx0 : slotRecs 69 d.raw (hdrTotal d.raw) [] 0 (entryAt (unitAt d.raw B) k 39, B, k + 1) = z := by
    unfold slotRecs; rw [if_pos hact, hz]; rfl
  -- the blocks of the chain are blocks of the directory's record
  have hschown : ∀ y ∈ sch', y ∈ v'.allOwned := by
    intro y hy
    apply hxown
    rw [hgx0, hzeq]
    simp only [List.map_cons, List.flatMap_cons]
    exact List.mem_append_left _ hy
  obtain ⟨w1, w2, w3, w4, w5, w6, w7⟩ := wfB_iff.1 hw
  have hschfacts : ∀ y ∈ sch', y < hdrTotal d.raw ∧ y ∉ v'.sys := by
    intro y hy
    have hya := hschown y hy
    refine ⟨by have := (w1 y hya).2; rw [hvv] at this; exact this, ?_⟩
    intro hsys
    rw [List.nodup_append] at w2
    exact w2.2.2 y hya y hsys rfl
  obtain ⟨hicS, _, hndS⟩ := dirChain_ok d.raw (hdrTotal d.raw) 1000 _ sch' hcs
  have hsys_bm : ∀ b ∈ bmRange (hdrBm d.raw) (nbmOf (hdrTotal d.raw)), b ∈ v'.sys := by
    intro b hb
    rw [hvv]; simp only
    rw [mem_bmRange] at hb
    apply List.mem_append_right
    rw [List.mem_map]; exact ⟨b - hdrBm d.raw, List.mem_range.mpr (by omega), by omega⟩
  have hKm : le16 (entryAt (unitAt d.raw B) k 39) 17 ∈ sch' := dirChain_start_mem d.raw _ 1000 _ sch' hK0 hcs
  have hKsz : le16 (entryAt (unitAt d.raw B) k 39) 17 < d.raw.units.size := by rw [← hsz]; exact hKt
  have sc : SubCtx d (hdrBm d.raw) (nbmOf (hdrTotal d.raw)) ch' B k (le16 (entryAt (unitAt d.raw B) k 39) 17) sch' :=
    ⟨hicS, fun y hy => ⟨fun hm => (hschfacts y hy).2 (hsys_bm y hm), by rw [heff, hbsz]; exact cover_of_lt (hschfacts y hy).1⟩,
      fun y hy hm => (hschfacts y hy).2 (hchf y hm).2.2.2, hslen, (by
        cases hsc : sch' with
        | nil => rw [hsc] at hKm; cases hKm
        | cons a l =>
          rw [hsc] at hprev hicS
          have := (isChain_cons_head hicS).1
          rw [← this] at hprev
          exact hprev.1), ⟨hp1, hp2⟩, (hs.inv.shape.unit hKsz).1⟩
  have hrefuse : ∀ e, delete path repaired d = (.error e, d) →
      ∃ res d1 d4 v4, delete path repaired d = (res, d1) ∧ d1.flush = (.ok (), d4) ∧ SInv d4 ∧
        Read.ProdosT.read d4.raw = .ok v4 ∧
        stepOk { eofRule := id, keepsType := true, keepsAux := true, hasLock := true } v' (.delete (upper nm))
          (match res with | .ok _ => true | .error _ => false) v4 = true ∧ v4.label = v'.label := by
    intro e he
    obtain ⟨d4, hf4, hraw4, hs4⟩ := refused_same hs
    exact ⟨.error e, d, d4, v', he, hf4, hs4, by rw [hraw4]; exact hr, stepOk_refused_same hw _, rfl⟩
  by_cases hfc : le16 (unitAt d.raw (le16 (entryAt (unitAt d.raw B) k 39) 17)) 37 > 0
  · exact hrefuse _ (delete_dir_protected c path nm hnodes hnm hnv hv B k hB hk13 hkey hnofile hx _ rfl hK0 sch' sc hfc)
  · have hfc0 : le16 (unitAt d.raw (le16 (entryAt (unitAt d.raw B) k 39) 17)) 37 = 0 := by omega
    -- the directory is empty: its record is the only record of the slot
    have hfs0 : fs = [] := by
      rw [hfs, List.flatMap_eq_nil_iff]
      intro y hy
      unfold slotRecs
      have : isAct y = false := by
        cases ha : isAct y with
        | false => rfl
        | true =>
          have : y ∈ (dirSlots d.raw (le16 (entryAt (unitAt d.raw B) k 39) 17) sch').filter isAct := List.mem_filter.mpr ⟨hy, ha⟩
          have := List.length_pos_of_mem this
          rw [hcntsub, hfc0] at this; omega
      rw [this]; rfl
    have hgx : slotRecs 69 d.raw (hdrTotal d.raw) [] 0 (entryAt (unitAt d.raw B) k 39, B, k + 1) =
        [(dirRec (entryAt (unitAt d.raw B) k 39) [] sch', B, k + 1)] := by rw [hgx0, hzeq, hfs0]
    have hshapech : ∀ b ∈ ch', b < d.raw.units.size ∧ (unitAt d.raw b).length = 512 ∧ ∀ x ∈ unitAt d.raw b, x < 256 := by
      intro b hb
      have hbl : b < d.raw.units.size := by rw [← hsz]; exact (hchf b hb).1
      exact ⟨hbl, (hs.inv.shape.unit hbl).1, (hs.inv.shape.unit hbl).2⟩
    have hcount : le16 (unitAt d.raw 2) 37 ≠ 0 := by
      rw [← hcnt0]
      have : (entryAt (unitAt d.raw B) k 39, B, k + 1) ∈ (dirSlots d.raw 2 ch').filter isAct := List.mem_filter.mpr ⟨hxm, hact⟩
      have := List.length_pos_of_mem this
      omega
    obtain ⟨d3, hdel, n3⟩ := delete_dir_trace c path nm hnodes hnm hnv hv B k hB hk13 hkey hnofile hx _ rfl hK0 sch' sc hfc0
      (by rw [heff]; exact hbok) (fun b hb => by rw [heff, hbsz]; exact cover_of_lt (hchf b hb).1) hcount
      (fun b hb => (hshapech b hb).2.1)
    rw [heff] at n3
    -- the buffer
    have hKused : freeB (bufOf d.raw (hdrBm d.raw) (nbmOf (hdrTotal d.raw))) (le16 (entryAt (unitAt d.raw B) k 39) 17) = false := by
      cases hfb : freeB (bufOf d.raw (hdrBm d.raw) (nbmOf (hdrTotal d.raw))) (le16 (entryAt (unitAt d.raw B) k 39) 17) with
      | false => rfl
      | true =>
        exfalso
        apply w3 _ (hschown _ hKm)
        rw [hvv]; simp only [List.mem_filter, List.mem_range]
        exact ⟨hKt, hfb⟩
    have hcovK : le16 (entryAt (unitAt d.raw B) k 39) 17 / 8 < (bufOf d.raw (hdrBm d.raw) (nbmOf (hdrTotal d.raw))).size := by
      rw [hbsz]; exact cover_of_lt hKt
    have hf1 : ∀ j, freeB (setBits (clearBit (bufOf d.raw (hdrBm d.raw) (nbmOf (hdrTotal d.raw))) (le16 (entryAt (unitAt d.raw B) k 39) 17)) sch') j =
        ((dirRec (entryAt (unitAt d.raw B) k 39) [] sch').owned.contains j || freeB (bufOf d.raw (hdrBm d.raw) (nbmOf (hdrTotal d.raw))) j) := by
      intro j
      rw [freeB_setBits sch' _ (bytesOk_clearBit _ _ hbok) (fun y hy => by
        rw [size_clearBit, hbsz]; exact cover_of_lt (hschfacts y hy).1) j, freeB_clearBit_used _ _ hbok hcovK hKused j]
      rfl
    have hshape1 : ShapeOk (setUnit d.raw (le16 (entryAt (unitAt d.raw B) k 39) 17)
        (patched (unitAt d.raw (le16 (entryAt (unitAt d.raw B) k 39) 17)) 4 [0])) :=
      shape_setUnit hs.inv.shape _ _ (patched_length _ _ _)
        (patched_bytes _ _ _ (hs.inv.shape.unit hKsz).1 (by simp) (hs.inv.shape.unit hKsz).2 (by intro x hx; simp at hx; omega))
    obtain ⟨d4, v4, hfl4, hs4, hrd4, hstep, hlab⟩ := erase_reading hs v' fsL' ch' hr ht B k hB hk13 hkey hxm hact
      (dirRec (entryAt (unitAt d.raw B) k 39) [] sch') hgx rfl _ _ (by rw [setUnit_size])
      (fun j hj => setUnit_other _ _ _ _ (fun e => hj (by show j ∈ sch'; rw [← e]; exact hKm))) hshape1
      (by rw [setBits_size, size_clearBit]) (setBits_ok _ _ (bytesOk_clearBit _ _ hbok)) hf1 n3
    have hpath : (dirRec (entryAt (unitAt d.raw B) k 39) [] sch').path = upper nm := by
      show (baseRec _ []).path = _
      rw [baseRec_path_root, hname]
    rw [hpath] at hstep
    exact ⟨.ok (), d3, d4, v4, hdel, hfl4, hs4, hrd4, hstep, hlab⟩

/-- **`delete(path)` refines the abstract `delete`** for a path whose normal form is `[volume, name]` (a file or a
sub-directory of the volume directory): whatever the outcome — deleted, `PATH NOT FOUND`, `WRITE PROTECTED` (destroy bit
clear, or a directory that is not empty) — the state after `get_img()` satisfies `SInv` again, and the readings before and
after are related by the step the abstract specification allows for `delete NAME` with that result; a refusal changes nothing -/
theorem delete_refines {d : Disk} (hs : SInv d) (path nm : Bytes)
    (hnodes : normalizePath (volName (hdrOf d.raw)) path = .ok [volName (hdrOf d.raw), nm]) (hnm : nm ≠ [])
    (hnv : NotVol (volName (hdrOf d.raw)) path) :
    ∃ res d1 d4 v v4, delete path repaired d = (res, d1) ∧ d1.flush = (.ok (), d4) ∧ SInv d4 ∧
      Read.ProdosT.read d.raw = .ok v ∧ Read.ProdosT.read d4.raw = .ok v4 ∧
      stepOk { eofRule := id, keepsType := true, keepsAux := true, hasLock := true } v (.delete (upper nm))
        (match res with | .ok _ => true | .error _ => false) v4 = true ∧ v4.label = v.label := by
  obtain ⟨v, fsL, ch, hr, ht, c, hts, heff, hbsz, hbok⟩ := hs.ctx
  obtain ⟨hw, hn, hroot, hvv, hc, hic, hnd, hchf, h2, h6, h3, hbt, hstv⟩ := root_chain_facts hs.inv v fsL ch hr ht
  have hrefuse : ∀ e, delete path repaired d = (.error e, d) →
      ∃ res d1 d4 v v4, delete path repaired d = (res, d1) ∧ d1.flush = (.ok (), d4) ∧ SInv d4 ∧
        Read.ProdosT.read d.raw = .ok v ∧ Read.ProdosT.read d4.raw = .ok v4 ∧
        stepOk { eofRule := id, keepsType := true, keepsAux := true, hasLock := true } v (.delete (upper nm))
          (match res with | .ok _ => true | .error _ => false) v4 = true ∧ v4.label = v.label := by
    intro e he
    obtain ⟨d4, hf4, hraw4, hs4⟩ := refused_same hs
    exact ⟨.error e, d, d4, v, v, he, hf4, hs4, hr, by rw [hraw4]; exact hr, stepOk_refused_same hw _, rfl⟩
  by_cases hv : isNameValid nm = true
  · cases hx : (dirSlots d.raw 2 ch).find? (isHit fileTypes nm) with
    | some x =>
      by_cases hacc : Ent.access x.1 &&& 0x80 = 0
      · exact hrefuse _ (delete_protected c path nm hnodes hnm hv x hx hacc)
      · obtain ⟨d3, d4, v4, hdel, hf4, hs4, hr4, hstep, hlab⟩ := delete_ok hs path nm hnodes hnm hv x v fsL ch hr ht hx hacc
        exact ⟨.ok (), d3, d4, v, v4, hdel, hf4, hs4, hr, hr4, hstep, hlab⟩
    | none =>
      cases hxd : (dirSlots d.raw 2 ch).find? (isHit [stSubDirEntry] nm) with
      | some x =>
        obtain ⟨res, d1, d4, v4, h1, h2', h3', h4, h5, h6'⟩ := delete_dir_refines hs path nm hnodes hnm hnv hv v fsL ch hr ht hx x hxd
        exact ⟨res, d1, d4, v, v4, h1, h2', h3', hr, h4, h5, h6'⟩
      | none => exact hrefuse _ (delete_notfound c path nm hnodes hnm hnv (Or.inr hx) (fun _ => hxd))
  · have hv' : isNameValid nm = false := by simpa using hv
    exact hrefuse _ (delete_notfound c path nm hnodes hnm hnv (Or.inl hv') (fun h => by rw [hv'] at h; cases h))

end A2Verif.FsProdos
