import A2Verif.Lemmas.FsDosRefine
import A2Verif.Lemmas.FsDosDelete
/-!
# `get` / `read_file` and `catalog_to_vec` of the concrete DOS model are the reading

`read_file` walks the T/S list chain of the entry `get_tslist_sector` finds, exactly as the independent reader does
(`tsWalk`): under the invariant it returns the chunk map of the reader's file record, and the raw type byte.
`catalog_to_vec` lists exactly the live entries of the catalog chain, in chain order.  Neither changes the state.
Core Lean only.
-/
set_option linter.unusedSimpArgs false
namespace A2Verif.Fs.Dos3x
open A2Verif.FsDos A2Verif.Read.Dos3x

/-! ## `read_file` -/

/-- the pairs of one T/S list as `read_file` collects them -/
def hereGot (r : Raw) (c : Nat) (b : Bytes) (count : Nat) (ks : List Nat) : List (Nat × Bytes) :=
  ks.filterMap (fun k => if pairT b k = 0 then none else some (count + k, sec r (pairT b k * c + pairS b k)))

theorem hereOf_got (r : Raw) (c : Nat) (b : Bytes) (base : Nat) :
    (hereOf r c b base).map (fun x => (x.1, x.2.1)) = hereGot r c b base (List.range 122) := by
  unfold hereOf hereGot
  rw [List.map_filterMap]
  apply filterMap_congr'
  intro k _
  by_cases h : pairT b k = 0 <;> simp [h]

theorem readPairs_ok {b : Bytes} {count : Nat} : ∀ (ks : List Nat) {w : W}, WOk w → PairsOk w.img w.c b → (∀ k ∈ ks, k < 122) →
    readPairs b count ks w = (.ok (hereGot w.img w.c b count ks), w) := by
  intro ks
  induction ks with
  | nil => intro w _ _ _; rfl
  | cons k ks ih =>
    intro w h hp hk
    have hk1 := hk k List.mem_cons_self
    have ih' := ih h hp (fun x hx => hk x (List.mem_cons_of_mem _ hx))
    rw [readPairs]
    unfold hereGot at ih' ⊢
    rw [List.filterMap_cons]
    by_cases h0 : pairT b k = 0
    · have hcond : ¬ (Tsl.pairTrack b k > 0) := by show ¬ (pairT b k > 0); omega
      rw [if_neg hcond, ih']
      simp only [h0, if_true]
    · obtain ⟨h1, h2, _⟩ := hp k hk1 h0
      have hcond : Tsl.pairTrack b k > 0 := by show pairT b k > 0; omega
      have hrd : readSectorM (zeros 256) (Tsl.pairTrack b k) (Tsl.pairSector b k) w = (.ok (sec w.img (pairT b k * w.c + pairS b k)), w) :=
        readSectorM_ok h (t := pairT b k) (s := pairS b k) h1 h2 (by unfold zeros; exact List.length_replicate)
      rw [if_pos hcond]
      simp only [M.bind_apply, hrd, ih', M.pure_apply, h0, if_false]
      rfl

theorem readLoop_ok {w : W} (h : WOk w) : ∀ (tsl : List Nat) (fuel t s count : Nat) (buf : Bytes),
    TsChain w.img w.c t s tsl → tsl.length ≤ fuel → buf.length = 256 →
    readLoop 122 fuel t s count buf w = (.ok ((walkOf w.img w.c count tsl).map (fun x => (x.1, x.2.1))), w) := by
  intro tsl
  induction tsl with
  | nil => intro fuel t s count buf hc; exact absurd hc (by simp [TsChain])
  | cons u rest ih =>
    intro fuel t s count buf hc hf hb
    cases fuel with
    | zero => simp at hf
    | succ n =>
      have hnode : TsNode w.img w.c t s u := by
        cases rest with
        | nil => exact hc.1
        | cons u' rest' => exact hc.1
      obtain ⟨ht, hs, hu, hsz, hp⟩ := hnode
      rw [W.img_size] at hsz
      have hbl : (sec w.img u).length = 256 := sec_img_length h hsz
      have hfs : fullSector (sec w.img u) = .ok () := by unfold fullSector sectorSize; rw [if_neg (by omega)]
      rw [walkOf, List.map_append, hereOf_got, readLoop]
      simp only [M.bind_apply, M.lift_apply, readSectorM_ok h ht hs hb, ← hu, hfs,
        readPairs_ok (List.range 122) h hp (fun k hk => List.mem_range.1 hk)]
      cases rest with
      | nil =>
        obtain ⟨_, h1, _⟩ := hc
        have : Tsl.nextTrack (sec w.img u) = 0 := h1
        simp only [this, if_true, M.pure_apply, walkOf, List.map_nil, List.append_nil]
        rfl
      | cons u' rest' =>
        obtain ⟨_, h1, hrest⟩ := hc
        have hne : ¬ (Tsl.nextTrack (sec w.img u) = 0) := h1
        have ih' := ih n ((sec w.img u).getD 1 0) ((sec w.img u).getD 2 0) (count + 122) (sec w.img u) hrest (by simpa using hf) hbl
        have ih'' : readLoop 122 n (Tsl.nextTrack (sec w.img u)) (Tsl.nextSector (sec w.img u)) (count + 122) (sec w.img u) w = _ := ih'
        rw [if_neg hne]
        simp only [M.bind_apply, ih'']
        rfl

/-- `get_tslist_sector` under the invariant, with its value -/
theorem getTslistSector_val {w : W} {sb : List Nat} {L : Lay} (hi : WInv w sb L) {name fname : Bytes}
    (hfn : stringToFileName name = .ok fname) :
    getTslistSector name w = (.ok ((findIn w.img w.c fname L.cat).map
      (fun x => (Dir.tslTrack x.2.2.1 x.2.2.2, Dir.tslSector x.2.2.1 x.2.2.2, Dir.fileType x.2.2.1 x.2.2.2))), w) := by
  unfold getTslistSector
  simp only [M.bind_apply, M.lift_apply, hfn, findEntry_ok hi]
  cases hf : findIn w.img w.c fname L.cat with
  | none => rfl
  | some res => obtain ⟨dt, ds, dir, k⟩ := res; rfl

/-- a listed name is found by the directory walk -/
theorem findIn_of_listed {w : W} {sb : List Nat} {L : Lay} (hi : WInv w sb L) {fname : Bytes} (hl : fname.length = 30)
    (hb : ∀ x ∈ fname, 128 ≤ x ∧ x < 256) (hm : pathOfName fname ∈ (volOf w.img w.c sb L).paths) :
    ∃ x, findIn w.img w.c fname L.cat = some x := by
  cases hf : findIn w.img w.c fname L.cat with
  | some x => exact ⟨x, rfl⟩
  | none => exact absurd hm (not_listed_of_findIn_none hi hl hb hf)

/-- **`read_file` returns the reader's record**: for a valid name, what `getM` returns is the chunk map and the type
byte of the (unique) record the independent reader lists under that name; without such a record: FILE NOT FOUND -/
theorem getM_is_reading {w : W} {sb : List Nat} {L : Lay} (hi : WInv w sb L) {name fname : Bytes}
    (hv : isNameValid name = true) (hfn : stringToFileName name = .ok fname) :
    (∀ g, (volOf w.img w.c sb L).lookup (pathOfName fname) = some g →
      getM name w = (.ok { fsType := g.ftype + 128 * g.access, chunks := g.chunks }, w)) ∧
    ((volOf w.img w.c sb L).lookup (pathOfName fname) = none → getM name w = (.error .fileNotFound, w)) := by
  obtain ⟨fname', hfn', hfl, hfb⟩ := stringToFileName_ok hv
  rw [hfn] at hfn'; injection hfn' with hfn'; subst hfn'
  have hnd := wfB_paths_nodup hi.wf
  constructor
  · intro g hg
    obtain ⟨x, hf⟩ := findIn_of_listed hi hfl hfb (mem_paths_of_lookup hg)
    obtain ⟨dt, ds, dir, k⟩ := x
    obtain ⟨u, hu, _, _, hdir, hm⟩ := findIn_some hf
    obtain ⟨hk, hname, hlive⟩ := matchEntry_some hm
    subst hdir
    have hel : entryAt (sec w.img u) k ∈ liveOf w.img L.cat := mem_liveOf.2 ⟨u, hu, k, hk, rfl, hlive⟩
    obtain ⟨t0, hch0, hfm⟩ := filesOf_mem_left (r := w.img) (c := w.c) hi.desc.files hel
    have hfm' : recOf w.img w.c (entryAt (sec w.img u) k) t0 ∈ (volOf w.img w.c sb L).files := hfm
    have hp : (recOf w.img w.c (entryAt (sec w.img u) k) t0).path = pathOfName fname := by
      show pathOfName (slice (entryAt (sec w.img u) k) 3 30) = _; rw [hname]
    have hlk := find_path_of_mem hnd hfm'
    rw [hp] at hlk
    have hge : g = recOf w.img w.c (entryAt (sec w.img u) k) t0 := by
      have : (volOf w.img w.c sb L).lookup (pathOfName fname) = some (recOf w.img w.c (entryAt (sec w.img u) k) t0) := hlk
      rw [hg] at this; exact Option.some.inj this
    have hrl := readLoop_ok hi.ok t0 maxTslistReps (Dir.tslTrack (sec w.img u) k) (Dir.tslSector (sec w.img u) k) 0 (zeros 256)
      (by rw [dir_tslTrack_eq, dir_tslSector_eq]; exact hch0.1) hch0.2.1 (by unfold zeros; exact List.length_replicate)
    unfold getM
    simp only [M.bind_apply, M.getV_apply, getTslistSector_val hi hfn, hf, Option.map_some, hv, Bool.not_true, Bool.false_eq_true,
      if_false, M.pure_apply, hi.ok.vPairs, hrl]
    rw [hge]
    have hty : Dir.fileType (sec w.img u) k = (entryAt (sec w.img u) k).getD 2 0 := dir_fileType_eq _ _
    rw [hty]
    simp only [recOf, Nat.mod_add_div]
    rfl
  · intro hg
    have hnl : pathOfName fname ∉ (volOf w.img w.c sb L).paths := not_mem_paths_iff.2 hg
    have hf : findIn w.img w.c fname L.cat = none := by
      cases hf : findIn w.img w.c fname L.cat with
      | none => rfl
      | some x =>
        exfalso
        obtain ⟨dt, ds, dir, k⟩ := x
        obtain ⟨u, hu, _, _, hdir, hm⟩ := findIn_some hf
        obtain ⟨hk, hname, hlive⟩ := matchEntry_some hm
        apply hnl
        obtain ⟨t, _, hmem⟩ := filesOf_mem_left (r := w.img) (c := w.c) hi.desc.files (mem_liveOf.2 ⟨u, hu, k, hk, rfl, hlive⟩)
        unfold Vol.paths
        refine List.mem_map.2 ⟨_, hmem, ?_⟩
        show pathOfName (slice (entryAt (sec w.img u) k) 3 30) = _
        rw [hname]
    unfold getM
    simp only [M.bind_apply, M.getV_apply, getTslistSector_val hi hfn, hf, Option.map_none, M.fail_apply]

/-! ## `catalog_to_vec` -/

/-- the rows of one catalog sector -/
def rowsOfSec (b : Bytes) : List (Bytes × Nat × Nat) :=
  (List.range 7).filterMap (fun k =>
    if Dir.tslTrack b k > 0 ∧ Dir.tslTrack b k < 255 then
      some (fileNameToString (Dir.name b k), Dir.sectors b k, Dir.fileType b k)
    else none)

/-- the row `catalog_to_vec` prints for a catalog entry -/
def rowOf (e : Bytes) : Bytes × Nat × Nat := (fileNameToString (slice e 3 30), le16 e 33, e.getD 2 0)

theorem dir_sectors_eq (b : Bytes) (k : Nat) : Dir.sectors b k = le16 (entryAt b k) 33 := by
  unfold Dir.sectors entryAt entryOff
  rw [le16_slice (by omega)]

theorem filter_map_map {α β γ : Type} (f : α → β) (p : β → Bool) (g : β → γ) (l : List α) :
    ((l.map f).filter p).map g = l.filterMap (fun x => if p (f x) then some (g (f x)) else none) := by
  induction l with
  | nil => rfl
  | cons a l ih =>
    rw [List.map_cons, List.filter_cons, List.filterMap_cons]
    cases hp : p (f a) with
    | true => simp only [if_true, List.map_cons, ih]
    | false => simp only [Bool.false_eq_true, if_false, ih]

/-- the rows of a catalog sector are its live entries (every entry the reader calls live has a T/S pointer below 255) -/
theorem rowsOfSec_eq (b : Bytes) (hlt : ∀ k, k < 7 → isLive (entryAt b k) = true → (entryAt b k).getD 0 0 < 255) :
    rowsOfSec b = ((entsOfSec b).filter isLive).map rowOf := by
  unfold rowsOfSec
  rw [entsOfSec_eq, filter_map_map]
  apply filterMap_congr'
  intro k hk
  have hk7 := List.mem_range.1 hk
  rw [dir_tslTrack_eq, dir_name_eq, dir_sectors_eq, dir_fileType_eq]
  cases hl : isLive (entryAt b k) with
  | true =>
    have h1 := isLive_pos hl
    have h2 := hlt k hk7 hl
    rw [if_pos ⟨h1, h2⟩, if_pos rfl]; rfl
  | false =>
    have : ¬ ((entryAt b k).getD 0 0 > 0 ∧ (entryAt b k).getD 0 0 < 255) := by
      intro h
      rw [isLive_of h] at hl; cases hl
    rw [if_neg this, if_neg (by simp)]

theorem catalogLoop_ok {w : W} (h : WOk w) : ∀ (cat : List Nat) (fuel t s : Nat) (buf : Bytes),
    CatChain w.img w.c t s cat → cat ≠ [] → cat.length ≤ fuel → buf.length = 256 →
    catalogLoop fuel t s buf w = (.ok (cat.flatMap (fun u => rowsOfSec (sec w.img u))), w) := by
  intro cat
  induction cat with
  | nil => intro _ _ _ _ _ hne; exact absurd rfl hne
  | cons u rest ih =>
    intro fuel t s buf hch _ hf hb
    obtain ⟨_, ht, hs, hu, hsz, hrest⟩ := hch
    cases fuel with
    | zero => simp at hf
    | succ n =>
      rw [W.img_size] at hsz
      have hbl : (sec w.img u).length = 256 := sec_img_length h hsz
      have hfs : fullSector (sec w.img u) = .ok () := by unfold fullSector sectorSize; rw [if_neg (by omega)]
      rw [catalogLoop]
      simp only [M.bind_apply, M.getV_apply, M.lift_apply, verifyTs_ok h ht hs, readSectorM_ok h ht hs hb, ← hu, hfs]
      by_cases hz : (sec w.img u).getD 1 0 = 0 ∧ (sec w.img u).getD 2 0 = 0
      · have hz' : Dir.nextTrack (sec w.img u) = 0 ∧ Dir.nextSector (sec w.img u) = 0 := hz
        simp only [hz', and_self, if_true, M.pure_apply]
        rw [hz.1, hz.2] at hrest
        rw [catChain_zero hrest]
        simp only [List.flatMap_cons, List.flatMap_nil, List.append_nil, rowsOfSec]
        rfl
      · have hz' : ¬ (Dir.nextTrack (sec w.img u) = 0 ∧ Dir.nextSector (sec w.img u) = 0) := hz
        simp only [hz', if_false, M.bind_apply]
        have := ih n _ _ _ hrest (catChain_ne hrest hz) (by simpa using hf) hbl
        simp only [Dir.nextTrack, Dir.nextSector, this, M.pure_apply, List.flatMap_cons, rowsOfSec]
        rfl

theorem filter_flatMap {α β : Type} (p : β → Bool) (f : α → List β) (l : List α) :
    (l.flatMap f).filter p = l.flatMap (fun a => (f a).filter p) := by
  induction l with
  | nil => rfl
  | cons a l ih => simp only [List.flatMap_cons, List.filter_append, ih]

theorem map_flatMap' {α β γ : Type} (g : β → γ) (f : α → List β) (l : List α) :
    (l.flatMap f).map g = l.flatMap (fun a => (f a).map g) := by
  induction l with
  | nil => rfl
  | cons a l ih => simp only [List.flatMap_cons, List.map_append, ih]

theorem flatMap_congr' {α β : Type} {f g : α → List β} : ∀ {l : List α}, (∀ a ∈ l, f a = g a) → l.flatMap f = l.flatMap g := by
  intro l
  induction l with
  | nil => intro _; rfl
  | cons a l ih =>
    intro h
    rw [List.flatMap_cons, List.flatMap_cons, h a List.mem_cons_self, ih (fun x hx => h x (List.mem_cons_of_mem _ hx))]

/-- **`catalog_to_vec` lists exactly the live entries of the catalog**, in chain order: name as a2kit prints it,
sector count field, raw type byte -/
theorem catalogM_is_reading {w : W} {sb : List Nat} {L : Lay} (hi : WInv w sb L) :
    (do let v ← M.getV; catalogLoop maxDirectoryReps (Vtoc.track1 v) (Vtoc.sector1 v) (zeros 256)) w =
      (.ok ((liveOf w.img L.cat).map rowOf), w) := by
  simp only [M.bind_apply, M.getV_apply]
  have h1 : Vtoc.track1 w.v = (vtocOf w.img w.c).getD 1 0 := (getD_vtocOf hi.ok (by omega)).symm
  have h2 : Vtoc.sector1 w.v = (vtocOf w.img w.c).getD 2 0 := (getD_vtocOf hi.ok (by omega)).symm
  rw [h1, h2, catalogLoop_ok hi.ok L.cat maxDirectoryReps _ _ (zeros 256) hi.desc.cat hi.catNe
    (Nat.le_of_lt hi.desc.catLen) (by unfold zeros; exact List.length_replicate)]
  unfold liveOf entsOf
  rw [filter_flatMap, map_flatMap']
  congr 2
  apply flatMap_congr'
  intro u hu
  apply rowsOfSec_eq
  intro k hk hl
  obtain ⟨t0, hch0, _⟩ := filesOf_mem_left (r := w.img) (c := w.c) hi.desc.files (mem_liveOf.2 ⟨u, hu, k, hk, rfl, hl⟩)
  have := tsChain_first hch0.1
  omega

end A2Verif.Fs.Dos3x
