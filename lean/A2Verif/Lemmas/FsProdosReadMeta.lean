import A2Verif.Lemmas.FsProdosReadMod
/-!
# The located reading after the type / access / aux bytes of one entry have changed

The generalisation of `Lemmas/FsProdosReadMod.lean` (access byte only) needed for `retype`: bytes 16 (type), 30
(access), 31 and 32 (aux) of one 39-byte directory entry may change.
-/
namespace A2Verif.FsProdos
open A2Verif.Read.Prodos (entryAt dirChain idxPtr indexEntries readData trimName bitmapFree)
open A2Verif.Read.ProdosT

/-- the record with the type, aux and access fields of another entry -/
def updMeta (e' : Bytes) (f : FileRec) : FileRec :=
  { f with ftype := e'.getD 16 0, aux := le16 e' 31, access := e'.getD 30 0,
           locked := (e'.getD 30 0 / 2) % 2 = 0 ∨ (e'.getD 30 0 / 64) % 2 = 0 ∨ (e'.getD 30 0 / 128) % 2 = 0 }

/-- `e'` is `e` with other type (16), access (30) and aux (31, 32) bytes -/
structure MetaOnly (e e' : Bytes) : Prop where
  len : e'.length = e.length
  same : ∀ k, k ≠ 16 → k ≠ 30 → k ≠ 31 → k ≠ 32 → e'.getD k 0 = e.getD k 0

theorem baseRec_meta (e e' pfx : Bytes) (h : MetaOnly e e') : baseRec e' pfx = updMeta e' (baseRec e pfx) := by
  have h0 := h.same 0 (by omega) (by omega) (by omega) (by omega)
  have hname : trimName e' = trimName e := by
    unfold trimName; rw [h0]
    exact slice_congr e' e 1 _ h.len (fun k hk1 hk2 => by have := Nat.mod_lt (e.getD 0 0) (by decide : 16 > 0); exact h.same k (by omega) (by omega) (by omega) (by omega))
  unfold baseRec updMeta
  simp only [hname]
  have h24 : le24 e' 0x15 = le24 e 0x15 := by
    unfold le24; rw [le16_congr e' e 0x15 (h.same _ (by omega) (by omega) (by omega) (by omega)) (h.same _ (by omega) (by omega) (by omega) (by omega)),
      h.same _ (by omega) (by omega) (by omega) (by omega)]
  rw [h24]

theorem readFile_meta (x : Raw) (total : Nat) (e e' pfx : Bytes) (h : MetaOnly e e') :
    readFile x total e' pfx = (readFile x total e pfx).map (updMeta e') := by
  unfold readFile
  simp only
  rw [h.same 0 (by omega) (by omega) (by omega) (by omega), le16_congr e' e 0x11 (h.same _ (by omega) (by omega) (by omega) (by omega)) (h.same _ (by omega) (by omega) (by omega) (by omega)),
    le16_congr e' e 0x13 (h.same _ (by omega) (by omega) (by omega) (by omega)) (h.same _ (by omega) (by omega) (by omega) (by omega)), baseRec_meta e e' pfx h]
  split
  · cases x.unit (le16 e 0x11) "data-block" with
    | error y => rfl
    | ok d => simp only; split <;> rfl
  · split
    · cases x.unit (le16 e 0x11) "index-block" with
      | error y => rfl
      | ok ib =>
        simp only
        cases readData x total (indexEntries ib 0) with
        | error y => rfl
        | ok cs => simp only; split <;> rfl
    · cases x.unit (le16 e 0x11) "master-index-block" with
      | error y => rfl
      | ok mb =>
        simp only
        cases List.mapM (treeIndex x total)
            ((List.range 128).filterMap (fun k => if idxPtr mb k = 0 then none else some (k, idxPtr mb k))) with
        | error y => rfl
        | ok parts => simp only; split <;> rfl

/-! ## the image with the type / access / aux bytes of one entry changed -/


/-- `r'` is `r` with byte `entOff idx + 30` (the access byte of slot `idx`) of unit `B` replaced -/
structure MetaMod (r r' : Raw) (B idx : Nat) (blk nb : Bytes) : Prop where
  size : r'.units.size = r.units.size
  other : ∀ j, j ≠ B → r'.units[j]? = r.units[j]?
  old : r.units[B]? = some blk
  new : r'.units[B]? = some nb
  len : nb.length = blk.length
  blen : blk.length = 512
  same : ∀ k, k ≠ entOff idx + 16 → k ≠ entOff idx + 30 → k ≠ entOff idx + 31 → k ≠ entOff idx + 32 → nb.getD k 0 = blk.getD k 0
  idx : 1 ≤ idx ∧ idx ≤ 13

theorem MetaMod.agree {r r' : Raw} {B idx : Nat} {blk nb : Bytes} (h : MetaMod r r' B idx blk nb) (S : List Nat) (hS : B ∉ S) :
    Agree r r' S := fun j hj => h.other j (fun hjb => hS (hjb ▸ hj))

theorem unit_of_get' (r : Raw) (i : Nat) (who : String) (b : Bytes) (h : r.units[i]? = some b) : r.unit i who = .ok b := by
  unfold Raw.unit; rw [h]

theorem get_of_unit' (r : Raw) (i : Nat) (who : String) (b : Bytes) (h : r.unit i who = .ok b) : r.units[i]? = some b := by
  unfold Raw.unit at h
  cases hu : r.units[i]? with
  | none => rw [hu] at h; cases h
  | some c => rw [hu] at h; injection h with h; rw [h]

/-- the entries of the changed block: slot `idx` gets the new access byte, every other slot is as before -/
theorem entryAt_meta {blk nb : Bytes} {idx : Nat} (hlen : nb.length = blk.length)
    (hsame : ∀ k, k ≠ entOff idx + 16 → k ≠ entOff idx + 30 → k ≠ entOff idx + 31 → k ≠ entOff idx + 32 → nb.getD k 0 = blk.getD k 0) (hidx : 1 ≤ idx) (k : Nat) (hk : k + 1 ≠ idx) :
    entryAt nb k 39 = entryAt blk k 39 := by
  unfold entryAt
  apply slice_congr _ _ _ _ hlen
  intro j hj1 hj2
  have hout : j < entOff idx ∨ entOff idx + 39 ≤ j := by
    unfold entOff
    have : k = idx - 1 ∨ k < idx - 1 ∨ k > idx - 1 := by omega
    rcases this with h | h | h
    · omega
    · have : 39 * k + 39 ≤ 39 * (idx - 1) := by have := Nat.mul_le_mul_left 39 (show k + 1 ≤ idx - 1 by omega); omega
      omega
    · have : 39 * (idx - 1) + 39 ≤ 39 * k := by have := Nat.mul_le_mul_left 39 (show idx - 1 + 1 ≤ k by omega); omega
      omega
  exact hsame j (by omega) (by omega) (by omega) (by omega)

theorem entryAt_meta_self {blk nb : Bytes} {idx : Nat} (hlen : nb.length = blk.length) (hb : entOff idx + 39 ≤ blk.length)
    (hsame : ∀ k, k ≠ entOff idx + 16 → k ≠ entOff idx + 30 → k ≠ entOff idx + 31 → k ≠ entOff idx + 32 → nb.getD k 0 = blk.getD k 0) :
    MetaOnly (entryAt blk (idx - 1) 39) (entryAt nb (idx - 1) 39) ∧
      (entryAt nb (idx - 1) 39).getD 30 0 = nb.getD (entOff idx + 30) 0 := by
  have hoff : 4 + (idx - 1) * 39 = entOff idx := by unfold entOff; rw [Nat.mul_comm]
  unfold entryAt
  rw [hoff]
  have hg : ∀ (x : Bytes) (j : Nat), j < 39 → entOff idx + 39 ≤ x.length → (slice x (entOff idx) 39).getD j 0 = x.getD (entOff idx + j) 0 := by
    intro x j hj hx
    unfold slice
    simp only [List.getD_eq_getElem?_getD]
    rw [List.getElem?_take_of_lt hj, List.getElem?_drop]
  have hl : ∀ (x : Bytes), entOff idx + 39 ≤ x.length → (slice x (entOff idx) 39).length = 39 := by
    intro x hx; unfold slice; simp; omega
  refine ⟨⟨by rw [hl nb (by omega), hl blk hb], ?_⟩, hg nb 30 (by omega) (by omega)⟩
  intro k hk16 hk30 hk31 hk32
  by_cases hk39 : k < 39
  · rw [hg nb k hk39 (by omega), hg blk k hk39 hb]
    exact hsame _ (by omega) (by omega) (by omega) (by omega)
  · simp only [List.getD_eq_getElem?_getD]
    rw [List.getElem?_eq_none (by rw [hl nb (by omega)]; omega), List.getElem?_eq_none (by rw [hl blk hb]; omega)]

/-- a record at another location is left alone, the record(s) at `loc` get type, aux and access of the entry `e'` -/
def updAtM (loc : Nat × Nat) (e' : Bytes) (fl : LRec) : LRec := if fl.2 = loc then (updMeta e' fl.1, fl.2) else fl

theorem mapM_map_ok' {ε α β : Type} (f g : α → Except ε β) (φ : α → α) (ψ : β → β) (l : List α) (ys : List β)
    (h : l.mapM f = .ok ys) (hfg : ∀ x y, x ∈ l → y ∈ ys → f x = .ok y → g (φ x) = .ok (ψ y)) :
    (l.map φ).mapM g = .ok (ys.map ψ) := by
  rw [mapM_eq_ok] at h ⊢
  induction h with
  | nil => exact All2.nil
  | cons hy _ ih =>
    exact All2.cons (hfg _ _ List.mem_cons_self List.mem_cons_self hy)
      (ih (fun x y hx hyy => hfg x y (List.mem_cons_of_mem _ hx) (List.mem_cons_of_mem _ hyy)))

/-- what the change does to an entry with its location -/
def modEntM (B idx : Nat) (nb : Bytes) (x : Bytes × Nat × Nat) : Bytes × Nat × Nat :=
  if x.2 = (B, idx) then (entryAt nb (idx - 1) 39, x.2) else x

theorem updAtM_id_of_ne (loc : Nat × Nat) (a : Bytes) (l : List LRec) (h : ∀ fl ∈ l, fl.2 ≠ loc) : l.map (updAtM loc a) = l := by
  induction l with
  | nil => rfl
  | cons fl l ih =>
    rw [List.map_cons, ih (fun g hg => h g (List.mem_cons_of_mem _ hg))]
    unfold updAtM; rw [if_neg (h fl List.mem_cons_self)]

/-- **one entry after the change**: an entry at another location yields the same records; the entry at `(B, idx)` (a
file entry) yields its record with the new access byte -/
theorem readEntryWith_meta (sub sub' : Nat → Bytes → Except String (List LRec × List Nat)) (r r' : Raw) (total : Nat)
    (B idx : Nat) (blk nb : Bytes) (hmod : MetaMod r r' B idx blk nb)
    (pfx : Bytes) (x : Bytes × Nat × Nat) (y : List LRec)
    (h : readEntryWith sub r total pfx x = .ok y)
    (hB : B ∉ y.flatMap (·.1.owned))
    (hsub : ∀ k p res, k ≠ 0 → sub k p = .ok res → Agree r r' (res.2 ++ res.1.flatMap (·.1.owned)) → sub' k p = .ok res)
    (hlocs : ∀ k p res, sub k p = .ok res → LocsOk res.1 res.2)
    (hx : x.2 = (B, idx) → x.1 = entryAt blk (idx - 1) 39 ∧ x.1.getD 0 0 / 16 ≠ 0xD) :
    readEntryWith sub' r' total pfx (modEntM B idx nb x) = .ok (y.map (updAtM (B, idx) (entryAt nb (idx - 1) 39))) := by
  by_cases hloc : x.2 = (B, idx)
  · -- the changed entry
    obtain ⟨hx1, hx2⟩ := hx hloc
    have hoff : entOff idx + 39 ≤ blk.length := by rw [hmod.blen]; unfold entOff; have := hmod.idx; omega
    obtain ⟨hacc, ha⟩ := entryAt_meta_self hmod.len hoff hmod.same
    have hme : modEntM B idx nb x = (entryAt nb (idx - 1) 39, x.2) := by unfold modEntM; rw [if_pos hloc]
    rw [hme]
    unfold readEntryWith at h ⊢
    simp only at h ⊢
    rw [← hx1] at hacc
    rw [hacc.same 0 (by omega) (by omega) (by omega) (by omega), le16_congr _ x.1 0x11 (hacc.same _ (by omega) (by omega) (by omega) (by omega)) (hacc.same _ (by omega) (by omega) (by omega) (by omega))]
    split at h
    · cases h
    · next hkey =>
      rw [if_neg hkey]
      split at h
      · next hst =>
        rw [if_pos hst]
        cases hf : readFile r total x.1 pfx with
        | error e => rw [hf] at h; cases h
        | ok f =>
          rw [hf] at h
          have hy : y = [(f, x.2)] := by injection h with h; exact h.symm
          subst hy
          have hBf : B ∉ f.owned := fun hb => hB (by simp [List.flatMap]; exact hb)
          rw [readFile_meta r' total x.1 _ pfx hacc, readFile_congr r r' total _ _ f hf (hmod.agree _ hBf)]
          simp only [Except.map, List.map_cons, List.map_nil]
          unfold updAtM
          rw [if_pos hloc]
      · cases h
  · -- an entry elsewhere
    have hme : modEntM B idx nb x = x := by unfold modEntM; rw [if_neg hloc]
    rw [hme, readEntryWith_congr sub sub' r r' total pfx x y h (hmod.agree _ hB) hsub]
    rw [updAtM_id_of_ne]
    intro fl hfl hfl2
    rcases readEntryWith_locs sub r total pfx x y h hlocs fl hfl with hl | ho
    · exact hloc (hl ▸ hfl2)
    · rw [hfl2] at ho; exact hB ho

/-! ## the directory that holds the entry -/

theorem blockEntries_form' (r : Raw) (key epb elen b : Nat) (l : List (Bytes × Nat × Nat))
    (h : blockEntries r key epb elen b = .ok l) :
    ∃ blk, r.units[b]? = some blk ∧
      l = (if b = key then (List.range epb).drop 1 else List.range epb).map (fun k => (entryAt blk k elen, b, k + 1)) := by
  unfold blockEntries at h
  cases hu : r.unit b "directory-block" with
  | error e => rw [hu] at h; cases h
  | ok blk =>
    rw [hu] at h
    simp only at h
    exact ⟨blk, get_of_unit r b _ blk hu, by injection h with h; exact h.symm⟩

theorem blockEntries_meta (r r' : Raw) (B idx : Nat) (blk nb : Bytes) (hmod : MetaMod r r' B idx blk nb)
    (key epb b : Nat) (l : List (Bytes × Nat × Nat)) (h : blockEntries r key epb 39 b = .ok l) :
    blockEntries r' key epb 39 b = .ok (l.map (modEntM B idx nb)) ∧
      ∀ x ∈ l, x.2 = (B, idx) → x.1 = entryAt blk (idx - 1) 39 := by
  obtain ⟨bk, hbk, hl⟩ := blockEntries_form' r key epb 39 b l h
  by_cases hb : b = B
  · subst hb
    have hbb : bk = blk := by rw [hmod.old] at hbk; exact (Option.some.inj hbk).symm
    subst hbb
    constructor
    · unfold blockEntries
      rw [unit_of_get r' b _ nb hmod.new]
      simp only
      rw [hl, List.map_map]
      congr 1
      apply List.map_congr_left
      intro k _
      simp only [Function.comp, modEntM]
      by_cases hk : k + 1 = idx
      · have : k = idx - 1 := by omega
        subst this
        simp [hk]
      · have hne : (b, k + 1) ≠ (b, idx) := fun hh => hk (Prod.mk.inj hh).2
        rw [if_neg hne, entryAt_meta hmod.len hmod.same hmod.idx.1 k hk]
    · intro x hx hx2
      rw [hl, List.mem_map] at hx
      obtain ⟨k, _, rfl⟩ := hx
      have hk : k + 1 = idx := (Prod.mk.inj hx2).2
      have : k = idx - 1 := by omega
      subst this; rfl
  · constructor
    · unfold blockEntries
      rw [unit_congr r r' b _ (hmod.other b hb), unit_of_get r b _ bk hbk]
      simp only
      rw [hl, List.map_map]
      congr 1
      apply List.map_congr_left
      intro k _
      simp only [Function.comp, modEntM]
      have hne : (b, k + 1) ≠ (B, idx) := fun hh => hb (Prod.mk.inj hh).1
      rw [if_neg hne]
    · intro x hx hx2
      exact absurd ((blockEntries_loc r key epb 39 b l h x hx).symm.trans (congrArg Prod.fst hx2)) hb

/-- **the directory after the change.**  `key` is the key block of a directory with the standard geometry (entry
length 39, 13 entries per block); no record of its located reading owns block `B`; the entry in slot `idx` of `B` is not
a sub-directory entry.  Then the located reading of the changed image is the old one with the access byte of the
records at `(B, idx)` replaced. -/
theorem readDir_meta (r r' : Raw) (total B idx : Nat) (blk nb : Bytes) (hmod : MetaMod r r' B idx blk nb)
    (fuel key : Nat) (pfx : Bytes) (depth : Nat) (fs : List LRec) (ch : List Nat) (hk : key ≠ 0)
    (h : readDir (fuel + 1) r total key pfx depth = .ok (fs, ch))
    (hgeo : ∀ kb, r.units[key]? = some kb → kb.getD 35 0 = 39 ∧ kb.getD 36 0 = 13)
    (hkeyB : key = B → 2 ≤ idx)
    (hB : B ∉ fs.flatMap (·.1.owned))
    (hfile : (entryAt blk (idx - 1) 39).getD 0 0 / 16 ≠ 0xD) :
    readDir (fuel + 1) r' total key pfx depth = .ok (fs.map (updAtM (B, idx) (entryAt nb (idx - 1) 39)), ch) := by
  have hoffge : 34 ≤ entOff idx + 30 := by unfold entOff; omega
  unfold readDir at h ⊢
  split at h
  · cases h
  · next hdep =>
    rw [if_neg hdep]
    cases hc : dirChain r total 1000 key [] with
    | error x => rw [hc] at h; cases h
    | ok chain =>
      rw [hc] at h
      simp only at h
      cases hu : r.unit key "directory-key-block" with
      | error x => rw [hu] at h; cases h
      | ok keyBlk =>
        rw [hu] at h
        simp only at h
        obtain ⟨hg1, hg2⟩ := hgeo keyBlk (get_of_unit r key _ keyBlk hu)
        have e1 : keyBlk.getD (4 + 0x1F) 0 = 39 := hg1
        have e2 : keyBlk.getD (4 + 0x20) 0 = 13 := hg2
        rw [e1, e2] at h
        split at h
        · cases h
        · next hgeo' =>
          cases he : List.mapM (blockEntries r key 13 39) chain with
          | error x => rw [he] at h; cases h
          | ok ents =>
            rw [he] at h
            simp only at h
            split at h
            · cases h
            · next hcount =>
              cases hm : List.mapM (readEntryWith (fun k p => readDir fuel r total k p (depth + 1)) r total pfx)
                  (ents.flatten.filter (fun e => e.1.getD 0 0 / 16 ≠ 0)) with
              | error x => rw [hm] at h; cases h
              | ok recs =>
                rw [hm] at h
                have hres : fs = recs.flatten ∧ ch = chain := by
                  injection h with h; injection h with h1 h2; exact ⟨h1.symm, h2.symm⟩
                obtain ⟨hfs, hch⟩ := hres
                subst hfs; subst hch
                -- the chain
                have hc' : dirChain r' total 1000 key [] = .ok ch :=
                  dirChain_congr r r' total 1000 key [] ch hc (fun j _ bk hb => by
                    by_cases hjB : j = B
                    · subst hjB
                      have hbk : bk = blk := by
                        have := get_of_unit r j _ bk hb; rw [hmod.old] at this; exact (Option.some.inj this).symm
                      subst hbk
                      exact ⟨nb, unit_of_get r' j _ nb hmod.new,
                        le16_congr nb bk 2 (hmod.same 2 (by omega) (by omega) (by omega) (by omega)) (hmod.same 3 (by omega) (by omega) (by omega) (by omega))⟩
                    · exact ⟨bk, by rw [unit_congr r r' j _ (hmod.other j hjB)]; exact hb, rfl⟩)
                rw [hc']
                simp only
                -- the key block
                have hkey' : ∃ kb', r'.unit key "directory-key-block" = .ok kb' ∧ kb'.getD (4 + 0x1F) 0 = 39 ∧
                    kb'.getD (4 + 0x20) 0 = 13 ∧ le16 kb' (4 + 0x21) = le16 keyBlk (4 + 0x21) := by
                  by_cases hkB : key = B
                  · have hidx2 := hkeyB hkB
                    have hoff2 : 73 ≤ entOff idx + 30 := by unfold entOff; omega
                    subst hkB
                    have hbk : keyBlk = blk := by
                      have := get_of_unit r key _ keyBlk hu; rw [hmod.old] at this; exact (Option.some.inj this).symm
                    subst hbk
                    exact ⟨nb, unit_of_get r' key _ nb hmod.new, by rw [hmod.same _ (by omega) (by omega) (by omega) (by omega)]; exact e1,
                      by rw [hmod.same _ (by omega) (by omega) (by omega) (by omega)]; exact e2,
                      le16_congr nb keyBlk _ (hmod.same _ (by omega) (by omega) (by omega) (by omega)) (hmod.same _ (by omega) (by omega) (by omega) (by omega))⟩
                  · exact ⟨keyBlk, by rw [unit_congr r r' key _ (hmod.other key hkB)]; exact hu, e1, e2, rfl⟩
                obtain ⟨kb', hu', e1', e2', ecount⟩ := hkey'
                rw [hu']
                simp only
                rw [e1', e2', if_neg hgeo']
                -- the entries
                have he' := mapM_map_ok (blockEntries r key 13 39) (blockEntries r' key 13 39) id
                  (List.map (modEntM B idx nb)) ch ents he
                  (fun b l _ _ hbl => (blockEntries_meta r r' B idx blk nb hmod key 13 b l hbl).1)
                rw [List.map_id] at he'
                rw [he']
                simp only
                have hflat : (ents.map (List.map (modEntM B idx nb))).flatten = ents.flatten.map (modEntM B idx nb) := by
                  rw [List.map_flatten]
                have hbyte0 : ∀ x ∈ ents.flatten, (modEntM B idx nb x).1.getD 0 0 = x.1.getD 0 0 := by
                  intro x hx
                  unfold modEntM
                  by_cases hloc : x.2 = (B, idx)
                  · rw [if_pos hloc]
                    simp only
                    rw [List.mem_flatten] at hx
                    obtain ⟨l, hl, hxl⟩ := hx
                    obtain ⟨b, _, hbl⟩ := ((mapM_eq_ok _ _ _).mp he).mem_right hl
                    have hx1 := (blockEntries_meta r r' B idx blk nb hmod key 13 b l hbl).2 x hxl hloc
                    have hoff : entOff idx + 39 ≤ blk.length := by rw [hmod.blen]; unfold entOff; have := hmod.idx; omega
                    rw [hx1]
                    exact (entryAt_meta_self hmod.len hoff hmod.same).1.same 0 (by omega) (by omega) (by omega) (by omega)
                  · rw [if_neg hloc]
                have hfilt : (ents.flatten.map (modEntM B idx nb)).filter (fun e => e.1.getD 0 0 / 16 ≠ 0) =
                    (ents.flatten.filter (fun e => e.1.getD 0 0 / 16 ≠ 0)).map (modEntM B idx nb) := by
                  rw [List.filter_map]
                  congr 1
                  apply List.filter_congr
                  intro x hx
                  simp only [Function.comp, hbyte0 x hx]
                rw [hflat, hfilt, List.length_map, ecount, if_neg hcount]
                -- the records
                have hm' := mapM_map_ok _
                  (readEntryWith (fun k p => readDir fuel r' total k p (depth + 1)) r' total pfx)
                  (modEntM B idx nb) (List.map (updAtM (B, idx) (entryAt nb (idx - 1) 39))) _ recs hm
                  (fun x y hx hy hxy => readEntryWith_meta _ _ r r' total B idx blk nb hmod pfx x y hxy
                    (fun hb => hB (by
                      rw [List.mem_flatMap] at hb ⊢
                      obtain ⟨g, hg, hgo⟩ := hb
                      exact ⟨g, List.mem_flatten.mpr ⟨y, hy, hg⟩, hgo⟩))
                    (fun k p res hk0 hs hagr => readDir_congr r r' total fuel k p (depth + 1) res.1 res.2 hk0 hs hagr)
                    (fun k p res hs => readDir_locs r total fuel k p (depth + 1) res.1 res.2 hs)
                    (fun hloc => by
                      have hxf := (List.mem_filter.mp hx).1
                      rw [List.mem_flatten] at hxf
                      obtain ⟨l, hl, hxl⟩ := hxf
                      obtain ⟨b, _, hbl⟩ := ((mapM_eq_ok _ _ _).mp he).mem_right hl
                      have hx1 := (blockEntries_meta r r' B idx blk nb hmod key 13 b l hbl).2 x hxl hloc
                      exact ⟨hx1, by rw [hx1]; exact hfile⟩))
                rw [hm']
                simp only
                rw [List.map_flatten]

end A2Verif.FsProdos
