import A2Verif.Lemmas.FsCpmOps
/-!
# `delete` of the concrete CP/M model refines the abstract `delete`
-/
namespace A2Verif.FsCpm
open A2Verif.Fs.Cpm
open A2Verif.Read.Cpm (Dpb fileKey extNum entryPtrs pathOf)

/-- what `delete` does to a directory entry: the entries of the doomed file get the status byte 0xE5 -/
def killF (K0 : List Nat) (e : Bytes) : Bytes := if e.getD 0 0 < 16 ∧ fileKey e = K0 then splice e 0 [229] else e

theorem splice0_status (e : Bytes) (x : Nat) : (splice e 0 [x]).getD 0 0 = x := by
  unfold splice; simp

theorem fents_kill (K0 : List Nat) : ∀ (dir : Dir),
    fentsOf (dir.map (killF K0)) = (fentsOf dir).filter (fun e => fileKey e != K0)
  | [] => rfl
  | e :: dir => by
    have ih := fents_kill K0 dir
    unfold fentsOf at ih ⊢
    rw [List.map_cons]
    by_cases c1 : e.getD 0 0 < 16
    · by_cases c2 : fileKey e = K0
      · have hk : killF K0 e = splice e 0 [229] := by unfold killF; rw [if_pos ⟨c1, c2⟩]
        rw [hk, List.filter_cons_of_neg (by rw [splice0_status]; decide), List.filter_cons_of_pos (by simpa using c1),
          List.filter_cons_of_neg (by simp [c2]), ih]
      · have hk : killF K0 e = e := by unfold killF; rw [if_neg (fun h => c2 h.2)]
        rw [hk, List.filter_cons_of_pos (by simpa using c1), List.filter_cons_of_pos (by simpa using c1),
          List.filter_cons_of_pos (by simpa using c2), ih]
    · have hk : killF K0 e = e := by unfold killF; rw [if_neg (fun h => c1 h.1)]
      rw [hk, List.filter_cons_of_neg (by simpa using c1), List.filter_cons_of_neg (by simpa using c1), ih]

theorem sublist_flatMap {α β : Type} (f : α → List β) : ∀ {l1 l2 : List α}, l1.Sublist l2 → (l1.flatMap f).Sublist (l2.flatMap f)
  | _, _, .slnil => List.Sublist.refl _
  | _, _, .cons a h => by
    rw [List.flatMap_cons]
    exact (sublist_flatMap f h).trans (List.sublist_append_right _ _)
  | _, _, .cons₂ a h => by
    rw [List.flatMap_cons, List.flatMap_cons]
    exact List.Sublist.append (List.Sublist.refl _) (sublist_flatMap f h)

/-- the reading after the entries of one file have been struck out: the other files, unchanged -/
theorem kill_spec {d : Dpb} {r r' : Raw} (h : Inv d r) (K0 : List Nat) (hs' : Shape d r')
    (hfr : ∀ i, dirBlocks d ≤ i → r'.units[i]? = r.units[i]?) (hd' : dirOf d r' = (dirOf d r).map (killF K0)) :
    Inv d r' ∧ filesOf d r' = ((keys d r).filter (· != K0)).map (fun k => recOf r d (dirOf d r) (esOf d r k)) := by
  have hf : fents d r' = (fents d r).filter (fun e => fileKey e != K0) := by
    unfold fents; rw [hd', fents_kill]
  have hk : keys d r' = (keys d r).filter (· != K0) := by
    unfold keys keysOf
    rw [hf]
    have : ((fents d r).filter (fun e => fileKey e != K0)).map fileKey = ((fents d r).map fileKey).filter (· != K0) := by
      rw [List.filter_map]; rfl
    rw [this, eraseDups_filter _ _ _ (Nat.le_refl _)]
  have hes : ∀ k, k ≠ K0 → esOf d r' k = esOf d r k := by
    intro k hk0
    unfold esOf
    rw [hf, List.filter_filter]
    apply List.filter_congr
    intro e _
    by_cases c : fileKey e = k
    · simp [c, hk0]
    · simp [c]
  have hkm : ∀ k, k ∈ keys d r' → k ∈ keys d r ∧ k ≠ K0 := by
    intro k hk'
    rw [hk, List.mem_filter] at hk'
    exact ⟨hk'.1, by simpa using hk'.2⟩
  have hsub : (fents d r').Sublist (fents d r) := by rw [hf]; exact List.filter_sublist
  have hinv : Inv d r' := by
    refine ⟨h.dpb, hs', ?_, fun e he => h.clean e (hsub.subset he), ?_⟩
    · intro k hk'
      obtain ⟨a, b⟩ := hkm k hk'
      rw [hes k b]
      exact h.good k a
    · exact ((sublist_flatMap (ownedE d) hsub).append_right _).nodup h.noShare
  refine ⟨hinv, ?_⟩
  unfold filesOf
  rw [hk]
  apply List.map_congr_left
  intro k hk'
  rw [List.mem_filter] at hk'
  have hne : k ≠ K0 := by simpa using hk'.2
  rw [hes k hne]
  apply recOf_congr
  · intro e he p hp
    exact hfr p (owned_not_dir h (mem_esOf.1 he).1 hp)
  · rw [hd']
    apply pwOf_map
    · intro e _
      unfold killF
      by_cases c : e.getD 0 0 < 16 ∧ fileKey e = K0
      · rw [if_pos c]; exact Or.inr ⟨c.1, Or.inr (splice0_status e 229)⟩
      · rw [if_neg c]; exact Or.inl rfl
    · cases hh : esOf d r k with
      | nil => simp
      | cons e0 rest =>
        have : e0 ∈ esOf d r k := by rw [hh]; exact List.mem_cons_self
        exact (mem_fents.1 (mem_esOf.1 this).1).2

/-- what the loop of `delete` does to an entry it visits -/
def killE (e : Bytes) : Bytes := if isExtent e then splice e 0 [229] else e

theorem killE_not_extent (e : Bytes) : isExtent (killE e) = false ∨ killE e = e := by
  unfold killE
  by_cases c : isExtent e = true
  · rw [if_pos c]; left
    unfold isExtent status
    rw [splice0_status]; decide
  · rw [if_neg c]; right; rfl

theorem killE_idem (e : Bytes) : killE (killE e) = killE e := by
  rcases killE_not_extent e with h | h
  · show (if isExtent (killE e) then splice (killE e) 0 [229] else killE e) = killE e
    rw [if_neg (by rw [h]; simp)]
  · rw [h, h]

theorem deleteLoop_spec : ∀ (l : List (Nat × Nat)) (dir dir' : Dir), deleteLoop dir l = .ok dir' →
    (∀ j, dir'[j]? = if (∃ p ∈ l, p.2 = j) then (dir[j]?).map killE else dir[j]?) ∧
    (∀ p ∈ l, ∀ e, dir[p.2]? = some e → isExtent e = true → (Ext.flags e).getD 8 0 = 0) := by
  intro l
  induction l with
  | nil =>
    intro dir dir' h
    unfold deleteLoop at h
    cases h
    exact ⟨fun j => by simp, fun p hp => by cases hp⟩
  | cons q rest ih =>
    intro dir dir' h
    obtain ⟨dp, i⟩ := q
    unfold deleteLoop at h
    cases hfx : dir[i]? with
    | none => rw [hfx] at h; cases h
    | some fx =>
      rw [hfx] at h
      simp only [] at h
      by_cases cx : isExtent fx = true
      · rw [if_neg (by simp [cx])] at h
        by_cases cf : (Ext.flags fx).getD 8 0 > 0
        · rw [if_pos cf] at h; cases h
        · rw [if_neg cf] at h
          obtain ⟨a, b⟩ := ih _ _ h
          have hil : i < dir.length := (List.getElem?_eq_some_iff.1 hfx).1
          have hk : killE fx = splice fx 0 [DELETED] := by unfold killE; rw [if_pos cx]
          refine ⟨fun j => ?_, fun p hp e he hx => ?_⟩
          · rw [a j]
            by_cases cj : j = i
            · subst cj
              have hr : (∃ p ∈ (dp, j) :: rest, p.2 = j) := ⟨(dp, j), List.mem_cons_self, rfl⟩
              rw [List.getElem?_set_self hil, if_pos hr, hfx, ← hk]
              simp only [Option.map_some, killE_idem]
              split <;> rfl
            · rw [List.getElem?_set_ne (fun e => cj e.symm)]
              have : (∃ p ∈ (dp, i) :: rest, p.2 = j) ↔ (∃ p ∈ rest, p.2 = j) := by
                constructor
                · rintro ⟨p, hp, e⟩
                  rcases List.mem_cons.1 hp with rfl | hp
                  · exact absurd e.symm cj
                  · exact ⟨p, hp, e⟩
                · rintro ⟨p, hp, e⟩; exact ⟨p, List.mem_cons_of_mem _ hp, e⟩
              by_cases c : ∃ p ∈ rest, p.2 = j
              · rw [if_pos c, if_pos (this.2 c)]
              · rw [if_neg c, if_neg (fun x => c (this.1 x))]
          · rcases List.mem_cons.1 hp with rfl | hp
            · simp only at he
              rw [hfx] at he; cases he
              omega
            · by_cases cj : p.2 = i
              · rw [cj, hfx] at he; cases he; omega
              · apply b p hp e _ hx
                rw [List.getElem?_set_ne (fun e => cj e.symm)]; exact he
      · rw [if_pos (by simp [cx])] at h
        obtain ⟨a, b⟩ := ih _ _ h
        have hk : killE fx = fx := by unfold killE; rw [if_neg cx]
        refine ⟨fun j => ?_, fun p hp e he hx => ?_⟩
        · rw [a j]
          by_cases c : ∃ p ∈ rest, p.2 = j
          · obtain ⟨p, hp, e⟩ := c
            rw [if_pos ⟨p, hp, e⟩, if_pos ⟨p, List.mem_cons_of_mem _ hp, e⟩]
          · rw [if_neg c]
            by_cases cj : j = i
            · subst cj
              rw [if_pos ⟨(dp, j), List.mem_cons_self, rfl⟩, hfx, Option.map_some, hk]
            · rw [if_neg]
              rintro ⟨p, hp, e⟩
              rcases List.mem_cons.1 hp with rfl | hp
              · exact cj e.symm
              · exact c ⟨p, hp, e⟩
        · rcases List.mem_cons.1 hp with rfl | hp
          · simp only at he
            rw [hfx] at he; cases he
            exact absurd hx cx
          · exact b p hp e he hx

end A2Verif.FsCpm
