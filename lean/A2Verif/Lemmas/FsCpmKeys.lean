import A2Verif.Lemmas.FsCpmInv
/-!
# Keys: a2kit's map key `user:NAME.TYP` against the reader's key, and what `get_file` finds
-/
namespace A2Verif.FsCpm
open A2Verif.Fs.Cpm
open A2Verif.Read.Cpm (Dpb fileKey pathOf trimR)

/-- the key of `build_files`' map for a file entry -/
def modelKey (e : Bytes) : Bytes := decDigits (Ext.user e) ++ [58] ++ Ext.getString e

/-- the trimmed `NAME.TYP` of an entry -/
def nmOf (e : Bytes) : Bytes := trimR (name7 e) ++ [46] ++ trimR (typ7 e)

theorem okChar_lt : ∀ c : Nat, okChar c = true → c < 128 := by
  intro c h
  unfold okChar Fs.Cpm.charOk at h
  simp only [Bool.and_eq_true, decide_eq_true_eq] at h
  exact h.1.1.1

theorem okChar_fin : ∀ c : Fin 128, okChar c.val = true → isAsciiSpace c.val = false ∧ upperByte c.val = c.val := by decide

theorem okChar_facts {c : Nat} (h : okChar c = true) : isAsciiSpace c = false ∧ upperByte c = c :=
  okChar_fin ⟨c, okChar_lt c h⟩ h

theorem dropWhile_replicate_append {p : Nat → Bool} {a : Nat} (ha : p a = true) : ∀ (n : Nat) (l : Bytes),
    (List.replicate n a ++ l).dropWhile p = l.dropWhile p
  | 0, l => by simp
  | n + 1, l => by
    rw [List.replicate_succ, List.cons_append, List.dropWhile_cons_of_pos ha, dropWhile_replicate_append ha n l]

theorem dropWhile_head_neg {p : Nat → Bool} : ∀ (l : Bytes), (∀ x, l.head? = some x → p x = false) → l.dropWhile p = l
  | [], _ => rfl
  | x :: l, h => by
    rw [List.dropWhile_cons_of_neg (by rw [h x rfl]; simp)]

/-- on a clean field a2kit's `trim_end` and the reader's trimming agree -/
theorem trimEnd_clean {f : Bytes} (h : cleanField f = true) : trimEnd f = trimR f := by
  have he := clean_eq h
  unfold cleanField at h
  rw [Bool.and_eq_true, List.all_eq_true] at h
  have hall := h.1
  generalize trimR f = t at he hall
  unfold trimEnd
  rw [he, List.reverse_append, List.reverse_replicate, dropWhile_replicate_append (by decide)]
  rw [dropWhile_head_neg, List.reverse_reverse]
  intro x hx
  have : x ∈ t := by
    have := List.mem_of_mem_head? (Option.mem_def.2 hx)
    exact List.mem_reverse.1 this
  exact (okChar_facts (hall x this)).1

theorem ext_name7 (e : Bytes) : (Ext.name e).map lo = name7 e := rfl
theorem ext_typ7 (e : Bytes) : (Ext.typ e).map lo = typ7 e := rfl

theorem modelKey_eq {e : Bytes} (c : CleanEntry e) : modelKey e = decDigits (e.getD 0 0) ++ [58] ++ nmOf e := by
  unfold modelKey Ext.getString fileNameToString Ext.user nmOf
  rw [ext_name7, ext_typ7, trimEnd_clean c.name, trimEnd_clean c.typ]

theorem fields_len {e : Bytes} (he : e.length = 32) : (name7 e).length = 8 ∧ (typ7 e).length = 3 := by
  unfold name7 typ7
  rw [List.length_map, List.length_map, slice_length (by omega), slice_length (by omega)]
  exact ⟨rfl, rfl⟩

theorem nm_no58 {e : Bytes} (c : CleanEntry e) : 58 ∉ nmOf e := by
  obtain ⟨_, n1b⟩ := clean_trim_not_mem c.name
  obtain ⟨_, t1b⟩ := clean_trim_not_mem c.typ
  unfold nmOf
  simp only [List.mem_append, List.mem_singleton, not_or]; exact ⟨⟨n1b, by decide⟩, t1b⟩

/-- for clean entries the two notions of "same file" agree -/
theorem modelKey_iff {e1 e2 : Bytes} (h1 : e1.getD 0 0 < 16) (h2 : e2.getD 0 0 < 16) (l1 : e1.length = 32) (l2 : e2.length = 32)
    (c1 : CleanEntry e1) (c2 : CleanEntry e2) : modelKey e1 = modelKey e2 ↔ fileKey e1 = fileKey e2 := by
  rw [modelKey_eq c1, modelKey_eq c2]
  constructor
  · intro h
    obtain ⟨a, b⟩ := split_unique 58 (decDigits_no58 ⟨_, h1⟩) (decDigits_no58 ⟨_, h2⟩) h
    have hu := decDigits_inj ⟨_, h1⟩ ⟨_, h2⟩ a
    obtain ⟨n1a, _⟩ := clean_trim_not_mem c1.name
    obtain ⟨n2a, _⟩ := clean_trim_not_mem c2.name
    obtain ⟨x, y⟩ := split_unique 46 n1a n2a b
    rw [key_split, key_split, (by simpa using hu : e1.getD 0 0 = e2.getD 0 0),
      clean_inj c1.name c2.name (by rw [(fields_len l1).1, (fields_len l2).1]) x,
      clean_inj c1.typ c2.typ (by rw [(fields_len l1).2, (fields_len l2).2]) y]
  · intro h
    rw [key_split, key_split] at h
    simp only [List.cons.injEq] at h
    obtain ⟨hu, hnt⟩ := h
    obtain ⟨hn, ht⟩ := List.append_inj hnt (by rw [(fields_len l1).1, (fields_len l2).1])
    unfold nmOf
    rw [hu, hn, ht]

/-- the path a key stands for: the user prefix `0:` is not shown -/
def pathOfKeyStr (k : Bytes) : Bytes := if k.take 2 = [48, 58] then k.drop 2 else k

theorem decDigits_cases : ∀ u : Fin 16, (u.val = 0 ∧ decDigits u.val = [48]) ∨
    (u.val ≠ 0 ∧ (decDigits u.val ++ [58]).take 2 ≠ [48, 58] ∧ 2 ≤ (decDigits u.val ++ [58]).length) := by decide

theorem pathOf_modelKey {e : Bytes} (hu : e.getD 0 0 < 16) (c : CleanEntry e) : pathOf e = pathOfKeyStr (modelKey e) := by
  rw [pathOf_eq hu, modelKey_eq c]
  unfold pathOfKeyStr
  show _ = if (decDigits (e.getD 0 0) ++ [58] ++ nmOf e).take 2 = [48, 58] then _ else _
  rcases decDigits_cases ⟨_, hu⟩ with ⟨h0, hd⟩ | ⟨h0, hd⟩
  · simp only at h0 hd
    rw [if_pos h0, hd]
    simp [nmOf]
  · obtain ⟨hd, hl⟩ := hd
    simp only at h0 hd hl
    rw [if_neg h0, if_neg]
    · rfl
    · intro hc
      apply hd
      rw [List.take_append_of_le_length hl] at hc
      exact hc

end A2Verif.FsCpm
