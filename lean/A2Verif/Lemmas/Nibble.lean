import A2Verif.Model.Nibble
/-!
Lemmas for the nibble codecs: table facts (`decide +kernel` over the whole generated tables), the
XOR-chain round trip (list induction), per-byte bit identities (`decide +kernel` over small finite
domains) and list plumbing.  Core Lean only.
-/
namespace A2Verif.Model.Nibble
open A2Verif.Gen.Disk525

/-! ## list plumbing -/

theorem getD_of_lt {α} (l : List α) (i : Nat) (d : α) (h : i < l.length) : l.getD i d = l[i] := by
  simp [List.getD_eq_getElem?_getD, List.getElem?_eq_getElem h]

theorem getD_app_left {α} (as bs : List α) (i : Nat) (d : α) (h : i < as.length) :
    (as ++ bs).getD i d = as.getD i d := by
  simp [List.getD_eq_getElem?_getD, List.getElem?_append_left h]

theorem getD_app_right {α} (as bs : List α) (i : Nat) (d : α) (h : as.length ≤ i) :
    (as ++ bs).getD i d = bs.getD (i - as.length) d := by
  simp [List.getD_eq_getElem?_getD, List.getElem?_append_right h]

theorem getD_map_range {α} (f : Nat → α) (n i : Nat) (d : α) (h : i < n) :
    ((List.range n).map f).getD i d = f i := by
  simp [List.getD_eq_getElem?_getD, h]

theorem map_range_eq {α} (l : List α) (n : Nat) (f : Nat → α) (hl : l.length = n)
    (h : ∀ i (hi : i < l.length), f i = l[i]) : (List.range n).map f = l := by
  apply List.ext_getElem
  · simp [hl]
  · intro i h1 h2
    simp [h i h2]

/-! ## XOR chain -/

theorem length_chain (s : Nat) (l : List Nat) : (chain s l).length = l.length + 1 := by
  induction l generalizing s with
  | nil => rfl
  | cons x xs ih => simp [chain, ih]

theorem length_scanXor (c : Nat) (l : List Nat) : (scanXor c l).length = l.length := by
  induction l generalizing c with
  | nil => rfl
  | cons x xs ih => simp [scanXor, ih]

/-- the decoder's running XOR over what the encoder emitted gives back the values and closes to 0 -/
theorem scanXor_chain (s : Nat) (l : List Nat) : scanXor s (chain s l) = l ++ [0] := by
  induction l generalizing s with
  | nil => simp [chain, scanXor]
  | cons x xs ih =>
    have h : s ^^^ (x ^^^ s) = x := by
      rw [Nat.xor_comm x s, ← Nat.xor_assoc, Nat.xor_self, Nat.zero_xor]
    simp [chain, scanXor, h, ih]

theorem chain_lt (n : Nat) (s : Nat) (l : List Nat) (hs : s < 2 ^ n) (hl : ∀ x ∈ l, x < 2 ^ n) :
    ∀ y ∈ chain s l, y < 2 ^ n := by
  induction l generalizing s with
  | nil => intro y hy; simp [chain] at hy; omega
  | cons x xs ih =>
    intro y hy
    simp only [chain, List.mem_cons] at hy
    have hx : x < 2 ^ n := hl x (by simp)
    rcases hy with h | h
    · rw [h]; exact Nat.xor_lt_two_pow hx hs
    · exact ih x hx (fun z hz => hl z (by simp [hz])) y h

/-! ## table facts, over the complete generated tables -/

theorem tbl62_length : DISK_BYTES_62.length = 64 := by decide +kernel
theorem tbl53_length : DISK_BYTES_53.length = 32 := by decide +kernel

/-- every 6&2 disk byte is a byte ≥ 0x96 with the high bit set and is neither `D5` nor `AA`
(the reserved prolog/epilog bytes) -/
theorem tbl62_range : ∀ i : Fin 64, 0x96 ≤ DISK_BYTES_62.getD i.val 0 ∧ DISK_BYTES_62.getD i.val 0 < 256 ∧
    DISK_BYTES_62.getD i.val 0 &&& 0x80 = 0x80 ∧ DISK_BYTES_62.getD i.val 0 ≠ 0xD5 ∧
    DISK_BYTES_62.getD i.val 0 ≠ 0xAA := by decide +kernel

theorem tbl53_range : ∀ i : Fin 32, 0xAB ≤ DISK_BYTES_53.getD i.val 0 ∧ DISK_BYTES_53.getD i.val 0 < 256 ∧
    DISK_BYTES_53.getD i.val 0 &&& 0x80 = 0x80 ∧ DISK_BYTES_53.getD i.val 0 ≠ 0xD5 ∧
    DISK_BYTES_53.getD i.val 0 ≠ 0xAA := by decide +kernel

set_option maxRecDepth 100000 in
theorem tbl62_injective : ∀ i j : Fin 64, DISK_BYTES_62.getD i.val 0 = DISK_BYTES_62.getD j.val 0 → i = j := by
  decide +kernel

set_option maxRecDepth 100000 in
theorem tbl53_injective : ∀ i j : Fin 32, DISK_BYTES_53.getD i.val 0 = DISK_BYTES_53.getD j.val 0 → i = j := by
  decide +kernel

/-- closed form of the inverse table (first index of the byte, 255 if absent); proved equal to the
table `invert_62` builds, so that facts over all 256 rows are cheap to check -/
def invIdx (tbl : List Nat) (b : Nat) : Nat :=
  let i := tbl.idxOf b
  if i < tbl.length then i else INVALID_NIB_BYTE

theorem INV62_eq : INV62 = (List.range 256).map (invIdx DISK_BYTES_62) := by decide +kernel
theorem INV53_eq : INV53 = (List.range 256).map (invIdx DISK_BYTES_53) := by decide +kernel

theorem decByte62_eq (b : Nat) (h : b < 256) : decByte62 b = invIdx DISK_BYTES_62 b := by
  unfold decByte62; rw [INV62_eq, getD_map_range _ _ _ _ h]

theorem decByte53_eq (b : Nat) (h : b < 256) : decByte53 b = invIdx DISK_BYTES_53 b := by
  unfold decByte53; rw [INV53_eq, getD_map_range _ _ _ _ h]

theorem invIdx62_enc : ∀ i : Fin 64, invIdx DISK_BYTES_62 (encByte62 i.val) = i.val := by decide +kernel
theorem invIdx53_enc : ∀ i : Fin 32, invIdx DISK_BYTES_53 (encByte53 i.val) = i.val := by decide +kernel
theorem encByte62_lt : ∀ i : Fin 64, encByte62 i.val < 256 := by decide +kernel
theorem encByte53_lt : ∀ i : Fin 32, encByte53 i.val < 256 := by decide +kernel

/-- the inverse table inverts the 6&2 table: decoding an encoded six-bit value gives it back -/
theorem decByte62_encByte62 (n : Nat) (h : n < 64) : decByte62 (encByte62 n) = n := by
  rw [decByte62_eq _ (encByte62_lt ⟨n, h⟩)]; exact invIdx62_enc ⟨n, h⟩

theorem decByte53_encByte53 (n : Nat) (h : n < 32) : decByte53 (encByte53 n) = n := by
  rw [decByte53_eq _ (encByte53_lt ⟨n, h⟩)]; exact invIdx53_enc ⟨n, h⟩

set_option maxRecDepth 100000 in
theorem invIdx62_valid : ∀ b : Fin 256, invIdx DISK_BYTES_62 b.val ≠ INVALID_NIB_BYTE →
    invIdx DISK_BYTES_62 b.val < 64 ∧ encByte62 (invIdx DISK_BYTES_62 b.val) = b.val := by decide +kernel

set_option maxRecDepth 100000 in
theorem invIdx53_valid : ∀ b : Fin 256, invIdx DISK_BYTES_53 b.val ≠ INVALID_NIB_BYTE →
    invIdx DISK_BYTES_53 b.val < 32 ∧ encByte53 (invIdx DISK_BYTES_53 b.val) = b.val := by decide +kernel

/-- the other direction: a byte the decoder accepts is a table entry, and re-encoding gives the byte -/
theorem encByte62_decByte62 (b : Nat) (h : b < 256) (hv : decByte62 b ≠ INVALID_NIB_BYTE) :
    decByte62 b < 64 ∧ encByte62 (decByte62 b) = b := by
  rw [decByte62_eq b h] at hv ⊢; exact invIdx62_valid ⟨b, h⟩ hv

theorem encByte53_decByte53 (b : Nat) (h : b < 256) (hv : decByte53 b ≠ INVALID_NIB_BYTE) :
    decByte53 b < 32 ∧ encByte53 (decByte53 b) = b := by
  rw [decByte53_eq b h] at hv ⊢; exact invIdx53_valid ⟨b, h⟩ hv

/-! ## 4&4 -/

set_option maxRecDepth 100000 in
theorem decode44_encode44_fin : ∀ v : Fin 256,
    decode44 ((v.val >>> 1) ||| 0xAA) (v.val ||| 0xAA) = v.val := by decide +kernel

set_option maxRecDepth 100000 in
theorem encode44_range_fin : ∀ v : Fin 256, ((v.val >>> 1) ||| 0xAA) < 256 ∧ (v.val ||| 0xAA) < 256 ∧
    ((v.val >>> 1) ||| 0xAA) &&& 0x80 = 0x80 ∧ (v.val ||| 0xAA) &&& 0x80 = 0x80 ∧
    ((v.val >>> 1) ||| 0xAA) ≠ 0xD5 ∧ (v.val ||| 0xAA) ≠ 0xD5 := by decide +kernel

/-! ## 6&2 bit identities -/

set_option maxRecDepth 100000 in
theorem swap2_mod4 : ∀ a : Fin 256, swap2 a.val = swap2 (a.val % 4) ∧ swap2 a.val < 4 := by decide +kernel

set_option maxRecDepth 100000 in
theorem split62 : ∀ a : Fin 256, (((a.val >>> 2) <<< 2) % 256) ||| (a.val % 4) = a.val ∧ a.val >>> 2 < 64 := by
  decide +kernel

theorem decTwo_aux : ∀ p q r : Fin 4,
    decTwo (swap2 p.val ||| (swap2 q.val <<< 2) ||| (swap2 r.val <<< 4)) 0 = p.val ∧
    decTwo (swap2 p.val ||| (swap2 q.val <<< 2) ||| (swap2 r.val <<< 4)) 1 = q.val ∧
    decTwo (swap2 p.val ||| (swap2 q.val <<< 2) ||| (swap2 r.val <<< 4)) 2 = r.val ∧
    (swap2 p.val ||| (swap2 q.val <<< 2) ||| (swap2 r.val <<< 4)) < 64 := by decide +kernel

theorem mod4_lt (x : Nat) : x % 4 < 4 := Nat.mod_lt _ (by decide)

/-- the packed value of three bytes `a b c < 256` and what the decoder extracts from it -/
theorem decTwo_pack (a b c : Nat) (ha : a < 256) (hb : b < 256) (hc : c < 256) :
    decTwo (swap2 a ||| (swap2 b <<< 2) ||| (swap2 c <<< 4)) 0 = a % 4 ∧
    decTwo (swap2 a ||| (swap2 b <<< 2) ||| (swap2 c <<< 4)) 1 = b % 4 ∧
    decTwo (swap2 a ||| (swap2 b <<< 2) ||| (swap2 c <<< 4)) 2 = c % 4 ∧
    (swap2 a ||| (swap2 b <<< 2) ||| (swap2 c <<< 4)) < 64 := by
  rw [(swap2_mod4 ⟨a, ha⟩).1, (swap2_mod4 ⟨b, hb⟩).1, (swap2_mod4 ⟨c, hc⟩).1]
  exact decTwo_aux ⟨a % 4, mod4_lt a⟩ ⟨b % 4, mod4_lt b⟩ ⟨c % 4, mod4_lt c⟩

/-! ## 5&3 bit identities -/

/-- the three "threes" values as the encoder packs them from bytes `a` (its low 3 bits), `e`, `f` -/
def th1 (a e f : Nat) : Nat := ((a &&& 0x07) <<< 2) ||| ((e &&& 0x04) >>> 1) ||| ((f &&& 0x04) >>> 2)
def th2 (a e f : Nat) : Nat := ((a &&& 0x07) <<< 2) ||| (e &&& 0x02) ||| ((f &&& 0x02) >>> 1)
def th3 (a e f : Nat) : Nat := ((a &&& 0x07) <<< 2) ||| ((e &&& 0x01) <<< 1) ||| (f &&& 0x01)

set_option maxRecDepth 100000 in
theorem and_mod8 : ∀ x : Fin 256, ∀ m : Fin 8, x.val &&& m.val = (x.val % 8) &&& m.val := by decide +kernel

theorem mod8_lt (x : Nat) : x % 8 < 8 := Nat.mod_lt _ (by decide)

theorem th_mod8 (a e f : Nat) (ha : a < 256) (he : e < 256) (hf : f < 256) :
    th1 a e f = th1 (a % 8) (e % 8) (f % 8) ∧ th2 a e f = th2 (a % 8) (e % 8) (f % 8) ∧
    th3 a e f = th3 (a % 8) (e % 8) (f % 8) := by
  have h7 := and_mod8 ⟨a, ha⟩ ⟨7, by decide⟩
  have e4 := and_mod8 ⟨e, he⟩ ⟨4, by decide⟩
  have e2 := and_mod8 ⟨e, he⟩ ⟨2, by decide⟩
  have e1 := and_mod8 ⟨e, he⟩ ⟨1, by decide⟩
  have f4 := and_mod8 ⟨f, hf⟩ ⟨4, by decide⟩
  have f2 := and_mod8 ⟨f, hf⟩ ⟨2, by decide⟩
  have f1 := and_mod8 ⟨f, hf⟩ ⟨1, by decide⟩
  simp only at h7 e4 e2 e1 f4 f2 f1
  simp only [th1, th2, th3]
  rw [h7, e4, e2, e1, f4, f2, f1]
  simp

theorem th_fin : ∀ a e f : Fin 8,
    (th1 a.val e.val f.val >>> 2) &&& 0x07 = a.val ∧ (th2 a.val e.val f.val >>> 2) &&& 0x07 = a.val ∧
    (th3 a.val e.val f.val >>> 2) &&& 0x07 = a.val ∧
    th1 a.val e.val f.val &&& 0x02 = (e.val &&& 4) >>> 1 ∧ th2 a.val e.val f.val &&& 0x02 = e.val &&& 2 ∧
    th3 a.val e.val f.val &&& 0x02 = (e.val &&& 1) <<< 1 ∧
    th1 a.val e.val f.val &&& 0x01 = (f.val &&& 4) >>> 2 ∧ th2 a.val e.val f.val &&& 0x01 = (f.val &&& 2) >>> 1 ∧
    th3 a.val e.val f.val &&& 0x01 = f.val &&& 1 ∧
    th1 a.val e.val f.val < 32 ∧ th2 a.val e.val f.val < 32 ∧ th3 a.val e.val f.val < 32 := by decide +kernel

theorem reasm_fin : ∀ e : Fin 8,
    ((((e.val &&& 4) >>> 1) <<< 1) ||| (e.val &&& 2) ||| (((e.val &&& 1) <<< 1) >>> 1)) &&& 0x07 = e.val ∧
    ((((e.val &&& 4) >>> 2) <<< 2) ||| (((e.val &&& 2) >>> 1) <<< 1) ||| (e.val &&& 1)) &&& 0x07 = e.val := by
  decide +kernel

set_option maxRecDepth 100000 in
theorem split53 : ∀ a : Fin 256, (((a.val >>> 3) <<< 3) % 256) ||| (a.val % 8) = a.val ∧ a.val >>> 3 < 32 ∧
    (a.val &&& 0x07) &&& 0x07 = a.val % 8 ∧ a.val &&& 0x07 < 32 := by decide +kernel

/-- all five recombinations the 5&3 decoder performs, for arbitrary bytes -/
theorem th_bytes (a b c e f : Nat) (ha : a < 256) (hb : b < 256) (hc : c < 256) (he : e < 256) (hf : f < 256) :
    (th1 a e f >>> 2) &&& 0x07 = a % 8 ∧ (th2 b e f >>> 2) &&& 0x07 = b % 8 ∧ (th3 c e f >>> 2) &&& 0x07 = c % 8 ∧
    (((th1 a e f &&& 0x02) <<< 1) ||| (th2 b e f &&& 0x02) ||| ((th3 c e f &&& 0x02) >>> 1)) &&& 0x07 = e % 8 ∧
    (((th1 a e f &&& 0x01) <<< 2) ||| ((th2 b e f &&& 0x01) <<< 1) ||| (th3 c e f &&& 0x01)) &&& 0x07 = f % 8 ∧
    th1 a e f < 32 ∧ th2 b e f < 32 ∧ th3 c e f < 32 := by
  rw [(th_mod8 a e f ha he hf).1, (th_mod8 b e f hb he hf).2.1, (th_mod8 c e f hc he hf).2.2]
  have A := th_fin ⟨a % 8, mod8_lt a⟩ ⟨e % 8, mod8_lt e⟩ ⟨f % 8, mod8_lt f⟩
  have B := th_fin ⟨b % 8, mod8_lt b⟩ ⟨e % 8, mod8_lt e⟩ ⟨f % 8, mod8_lt f⟩
  have C := th_fin ⟨c % 8, mod8_lt c⟩ ⟨e % 8, mod8_lt e⟩ ⟨f % 8, mod8_lt f⟩
  have R := reasm_fin ⟨e % 8, mod8_lt e⟩
  have S := reasm_fin ⟨f % 8, mod8_lt f⟩
  simp only at A B C R S
  obtain ⟨a1, _, _, a4, _, _, a7, _, _, a10, _, _⟩ := A
  obtain ⟨_, b2, _, _, b5, _, _, b8, _, _, b11, _⟩ := B
  obtain ⟨_, _, c3, _, _, c6, _, _, c9, _, _, c12⟩ := C
  refine ⟨a1, b2, c3, ?_, ?_, a10, b11, c12⟩
  · rw [a4, b5, c6]; exact R.1
  · rw [a7, b8, c9]; exact S.2

end A2Verif.Model.Nibble
