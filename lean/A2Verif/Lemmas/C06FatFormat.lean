import A2Verif.Lemmas.C06FatDisk
import A2Verif.Lemmas.FsFatFormat
/-!
# C06, FAT: `format` (as of /repo 55a0597: the FAT buffer is discarded before it is re-opened)

`fat::Disk::format` overwrites every sector of the volume, writes the boot sector, drops `maybe_fat`
(`proposed_fixes/fat-format-stale-fat-buffer.diff`, found by the reload proof) and only then opens the buffer again.
`format_twin`: on twins (`DSim`) it gives **the same answer and the same object** — the fill loop overwrites the only
sectors in which the images of twins may differ, and the buffer, the only other difference, is dropped.
`format_coh`: it succeeds and re-establishes `Coh`.  Before the repair the theorem was false (design/C06.md §5.1).
-/
namespace A2Verif.Reload.Fat
open A2Verif.Fs.Fat A2Verif.FsFat

/-- what `format` needs of its arguments and of the BPB (beyond `Coh`): the boot sector it writes carries the object's
BPB, the root directory has a sector, the label is valid or absent (`FmtPre` of `Lemmas/FsFatFormat.lean`) -/
structure FmtArgs (d : Disk) (vol boot : Bytes) (now : Stamp) : Prop where
  lf : d.labelFiles = false
  bootLen : boot.length = 512
  bootBpb : Bpb.ofBoot boot = d.bpb
  rootSecs : 1 ≤ d.bpb.rootDirSecs
  rootEnts : 16 ≤ d.bpb.rootDirEntries
  label : isLabelValid vol = true ∨ vol = []
  stamp : StampOk now

theorem fmtPre_of {d : Disk} {vol boot : Bytes} {now : Stamp} (g : Geo d) (a : FmtArgs d vol boot now) : FmtPre d boot :=
  { lf := a.lf, bootLen := a.bootLen, bootBpb := a.bootBpb, ulen := g.ulen, usz := g.usz, bps := g.bps, spc := g.spc,
    nfat := g.nfat, fat16 := g.fat16, spt := g.spt, heads := g.heads, typ := g.typ, ftyp := g.ftyp, rsvd := g.rsvd, fits := g.fits,
    chs := g.chs, rootSecs := a.rootSecs, rootEnts := a.rootEnts }

/-- C06 (FAT), preservation for `format`: it succeeds and leaves a coherent object -/
theorem format_coh {d : Disk} {vol boot : Bytes} {now : Stamp} (h : Coh d) (a : FmtArgs d vol boot now) :
    (Fs.Fat.format vol boot now d).1 = .ok () ∧ Coh (Fs.Fat.format vol boot now d).2 := by
  obtain ⟨d5, f2, g5, hf5, hsz, hb2, _, hb5, _, _, _, hrun⟩ := format_pre_flush (fmtPre_of h.geo a) a.label a.stamp
  obtain ⟨r6, m1, g6, c6, _⟩ := flush_spec g5 hf5 (by rw [hsz, hb5]) hb2
  have e : Fs.Fat.format vol boot now d = (.ok (), { d5 with raw := r6 }) := by
    rw [hrun]
    exact m1
  rw [e]
  exact ⟨rfl, ⟨g6, ⟨f2, ⟨c6.size, c6.bytes⟩, Or.inl c6.isOpen⟩⟩⟩

/-- the part of `format` up to and including the drop of the buffer -/
def formatPrefix (b : Bpb) (boot : Bytes) : M Unit := do
  fillLoop b.firstDataSec b.secSize (List.range b.totSec)
  let d ← M.get
  let r ← M.lift (imgWriteSector d.raw 0 boot)
  M.setRaw r
  M.dropFat

/-- `format` = its argument check, `formatPrefix`, and a tail that sees the object only as `formatPrefix` leaves it -/
theorem format_split (vol boot : Bytes) (now : Stamp) : ∃ tail : Bpb → M Unit, ∀ d : Disk,
    Fs.Fat.format vol boot now d =
      if (!isLabelValid vol && decide (vol.length > 0)) = true then (.error .syntax, d)
      else match formatPrefix d.bpb boot d with
        | (.ok _, d1) => tail d.bpb d1
        | (.error e, d1) => (.error e, d1) := by
  refine ⟨fun b => do
      let f ← getFatBuffer
      let d ← M.get
      let f1 ← M.lift (setCluster d.typ f 0 (b.media + 0xf00))
      let f2 ← M.lift (markLast d.typ f1 1)
      M.setFat f2
      if d.typ = 32 then M.fail .unmodelled else
      (if vol.length > 0 then do
          let dir : Directory := List.replicate b.rootDirEntries (zeros entrySize)
          let label := Entry.setAttr (entryCreate (stringToLabelName vol) VOLUME_ID now) (VOLUME_ID ||| ARCHIVE)
          writebackDirectoryEntry none 0 dir label
        else pure ())
      writebackFatBuffer, ?_⟩
  intro d
  unfold Fs.Fat.format formatPrefix
  split
  · rfl
  · simp only [M_bind_apply, M.get, M.lift, M.setRaw, M.dropFat]
    rcases fillLoop d.bpb.firstDataSec d.bpb.secSize (List.range d.bpb.totSec) d with ⟨x, d1⟩
    cases x with
    | error e => rfl
    | ok u =>
      simp only
      cases imgWriteSector d1.raw 0 boot <;> rfl

/-- `formatPrefix` in closed form on an object with the static facts: every sector of the volume is filled, sector 0 is
the boot sector (or the write fails), the buffer is gone -/
theorem formatPrefix_eq {d : Disk} (g : Geo d) (boot : Bytes) :
    ∃ r1, (∀ s, s < d.bpb.totSec → r1.units[s]? = some (List.replicate 512 (if s < d.bpb.firstDataSec then 0 else 0xf6))) ∧
      (∀ u, d.bpb.totSec ≤ u → r1.units[u]? = d.raw.units[u]?) ∧ r1.units.size = d.raw.units.size ∧ r1.unitLen = 512 ∧
      formatPrefix d.bpb boot d = (match imgWriteSector r1 0 boot with
        | .ok r2 => (.ok (), { raw := r2, bpb := d.bpb, typ := d.typ, fat := none, labelFiles := d.labelFiles })
        | .error e => (.error e, { raw := r1, bpb := d.bpb, typ := d.typ, fat := d.fat, labelFiles := d.labelFiles })) := by
  have hss : d.bpb.secSize = 512 := g.bps
  obtain ⟨r1, e1, e2, e3, e4, e5⟩ := fillLoop_spec d.bpb.firstDataSec (List.range d.bpb.totSec) d g.spt g.heads g.ulen
    (fun s hs => by
      have hs' : s < d.bpb.totSec := List.mem_range.mp hs
      have := g.fits
      exact ⟨g.chs s hs', by omega⟩)
  refine ⟨r1, fun s hs => e5 s (List.mem_range.mpr hs), fun u hu => e4 u (by simp; omega), e2, e3, ?_⟩
  unfold formatPrefix
  rw [hss]
  simp only [M_bind_apply, e1, M.get, M.lift, M.setRaw, M.dropFat]
  cases imgWriteSector r1 0 boot <;> rfl

theorem disk_ext {d e : Disk} (h1 : e.raw = d.raw) (h2 : e.bpb = d.bpb) (h3 : e.typ = d.typ) (h4 : e.fat = d.fat)
    (h5 : e.labelFiles = d.labelFiles) : e = d := by
  cases d; cases e
  simp only at h1 h2 h3 h4 h5
  subst h1 h2 h3 h4 h5
  rfl

/-- C06 (FAT), continuation for `format`: on twins it gives the same answer and **the same object** (when the label is
acceptable; a refused `format` leaves the twins as they are) -/
theorem format_twin {d d' : Disk} (h : DSim d d') (vol boot : Bytes) (now : Stamp) (hl : isLabelValid vol = true ∨ vol = []) :
    Fs.Fat.format vol boot now d' = Fs.Fat.format vol boot now d := by
  obtain ⟨P, d0, h1, h2⟩ := h
  obtain ⟨tail, ht⟩ := format_split vol boot now
  rw [ht, ht]
  have hguard : ¬ ((!isLabelValid vol && decide (vol.length > 0)) = true) := by
    rcases hl with h | h
    · simp [h]
    · subst h; simp
  rw [if_neg hguard, if_neg hguard]
  have hb : d'.bpb = d.bpb := by rw [h2.bpb', h1.bpb']
  have ht' : d'.typ = d.typ := by rw [Par.typ_of h2.par', Par.typ_of h1.par']
  have hlf : d'.labelFiles = d.labelFiles := by rw [Par.lf_of h2.par', Par.lf_of h1.par']
  obtain ⟨r1, a1, a2, a3, a4, a5⟩ := formatPrefix_eq h1.geo' boot
  obtain ⟨r1', b1, b2, b3, b4, b5⟩ := formatPrefix_eq h2.geo' boot
  rw [hb] at b1 b2 b5
  -- the filled images are equal: inside the volume by the fill, beyond it the twins agree (it lies behind the root)
  have hroot : P.bpb.rootBeg ≤ d.bpb.totSec := by
    have := h1.geo'.fits.1
    rw [← h1.bpb']
    unfold Bpb.firstDataSec Bpb.rootBeg at *
    omega
  have hr : r1' = r1 := by
    apply raw_ext (by rw [a4, b4]) (by rw [a3, b3, h1.size, h2.size])
    intro i
    by_cases hi : i < d.bpb.totSec
    · rw [a1 i hi, b1 i hi]
    · rw [a2 i (by omega), b2 i (by omega), h1.off i (Or.inr (by omega)), h2.off i (Or.inr (by omega))]
  rw [hb, a5, b5, hr]
  have hpos : 0 < r1.units.size := by rw [a3]; have := h1.geo'.fits; omega
  cases hw : imgWriteSector r1 0 boot with
  | error e =>
    -- sector 0 exists under `Geo`
    unfold imgWriteSector at hw
    rw [if_pos hpos] at hw
    cases hw
  | ok r2 =>
    simp only [ht', hlf]

/-! ## operations including `format`, histories -/

/-- the operations of `Op`, and `format` -/
inductive OpF where
  | op (o : Op)
  | format (vol boot : Bytes) (now : Stamp)

def OpF.run (d : Disk) : OpF → Out × Disk
  | .op o => o.run d
  | .format vol boot now => let x := Fs.Fat.format vol boot now d; (.unit x.1, x.2)

/-- `format` is called with arguments that fit the object (`FmtArgs`); the other operations need nothing -/
def OpF.Ok (d : Disk) : OpF → Prop
  | .op _ => True
  | .format vol boot now => FmtArgs d vol boot now

theorem opf_sim {d d' : Disk} (h : DSim d d') (o : OpF) (hok : o.Ok d) :
    (o.run d').1 = (o.run d).1 ∧ DSim (o.run d).2 (o.run d').2 := by
  cases o with
  | op o => exact op_sim h o
  | format vol boot now =>
    have a : FmtArgs d vol boot now := hok
    have e := format_twin h vol boot now a.label
    show Out.unit (Fs.Fat.format vol boot now d').1 = Out.unit (Fs.Fat.format vol boot now d).1 ∧
      DSim (Fs.Fat.format vol boot now d).2 (Fs.Fat.format vol boot now d').2
    rw [e]
    exact ⟨rfl, dsim_refl (format_coh h.coh a).2⟩

inductive StepF where
  | op (o : OpF)
  | reload

def execF : Disk → List StepF → List Out × Disk
  | d, [] => ([], d)
  | d, .op o :: rest => let x := o.run d; let y := execF x.2 rest; (x.1 :: y.1, y.2)
  | d, .reload :: rest => execF (reload d) rest

def opsOfF : List StepF → List StepF
  | [] => []
  | .op o :: rest => .op o :: opsOfF rest
  | .reload :: rest => opsOfF rest

/-- every `format` of the history (run without the reloads) is called with fitting arguments -/
def ValidF : Disk → List StepF → Prop
  | _, [] => True
  | d, .op o :: rest => o.Ok d ∧ ValidF (o.run d).2 rest
  | d, .reload :: rest => ValidF d rest

theorem execF_sim : ∀ (steps : List StepF) {d d' : Disk}, DSim d d' → ValidF d (opsOfF steps) →
    (execF d' steps).1 = (execF d (opsOfF steps)).1 ∧ DSim (execF d (opsOfF steps)).2 (execF d' steps).2 := by
  intro steps
  induction steps with
  | nil => intro d d' h _; exact ⟨rfl, h⟩
  | cons s rest ih =>
    intro d d' h hv
    cases s with
    | op o =>
      obtain ⟨hok, hv'⟩ : o.Ok d ∧ ValidF (o.run d).2 (opsOfF rest) := hv
      obtain ⟨e, s⟩ := opf_sim h o hok
      obtain ⟨e2, s2⟩ := ih s hv'
      refine ⟨?_, s2⟩
      show (o.run d').1 :: (execF (o.run d').2 rest).1 = (o.run d).1 :: (execF (o.run d).2 (opsOfF rest)).1
      rw [e, e2]
    | reload => exact ih (dsim_reload h) hv

end A2Verif.Reload.Fat
