import A2Verif.Lemmas.C06DosOps
/-!
# C06, identification of DOS 3.x volumes: the VTOC header survives every operation

`dos3x::Disk::test_img` looks at seven constant fields of the VTOC (version, volume, catalog track and sector, bytes
per sector, sectors, tracks).  `Hdr c v`: the buffer `v` carries the values the test wants for a `c`-sector disk.
`Keeps m`: the computation `m` keeps them, the length of the buffer, the geometry and the size of the image — shown for
every operation of the model by the same structural walk as `Resp`.  `HdrD d`: the object's current VTOC (buffer if
open, else track 17 sector 0) satisfies `Hdr`; `init` establishes it, every other operation keeps it.
-/
namespace A2Verif.Reload.Dos
open A2Verif.Fs.Dos3x

/-- the VTOC fields `test_img_13` / `test_img_16` examine -/
structure Hdr (c : Nat) (v : Bytes) : Prop where
  track1 : v.getD 1 0 = 17
  sector1 : v.getD 2 0 = c - 1
  version : (c = 13 → v.getD 3 0 ≤ 2) ∧ (c = 16 → 3 ≤ v.getD 3 0)
  vol : 1 ≤ v.getD 6 0 ∧ v.getD 6 0 ≤ 254
  tracks : v.getD 0x34 0 = 35
  sectors : v.getD 0x35 0 = c
  bytes : v.getD 0x36 0 = 0 ∧ v.getD 0x37 0 = 1

/-- a buffer that agrees with `v` outside `last_track`/`last_direction` and the bitmap -/
theorem Hdr.of_keep {c : Nat} {v v' : Bytes} (h : Hdr c v)
    (hk : ∀ i, (i < 0x30 ∨ (0x32 ≤ i ∧ i < 0x38)) → v'.getD i 0 = v.getD i 0) : Hdr c v' :=
  ⟨by rw [hk 1 (by omega)]; exact h.track1, by rw [hk 2 (by omega)]; exact h.sector1,
   by rw [hk 3 (by omega)]; exact h.version, by rw [hk 6 (by omega)]; exact h.vol,
   by rw [hk 0x34 (by omega)]; exact h.tracks, by rw [hk 0x35 (by omega)]; exact h.sectors,
   by rw [hk 0x36 (by omega), hk 0x37 (by omega)]; exact h.bytes⟩

structure WHdr (w : W) : Prop where
  hdr : Hdr w.c w.v
  vlen : w.v.length = 196

/-- the computation keeps the header fields, the buffer length, the geometry and the image size -/
structure Keeps {α : Type} (m : M α) : Prop where
  out : ∀ w, WHdr w → WHdr (m w).2 ∧ (m w).2.c = w.c ∧ (m w).2.raw.units.size = w.raw.units.size

theorem Keeps.pure {α : Type} (a : α) : Keeps (pure a : M α) := ⟨fun _ h => ⟨h, rfl, rfl⟩⟩
theorem Keeps.pure' {α : Type} (a : α) : Keeps (M.pure a : M α) := ⟨fun _ h => ⟨h, rfl, rfl⟩⟩
theorem Keeps.fail {α : Type} (e : Err) : Keeps (M.fail e : M α) := ⟨fun _ h => ⟨h, rfl, rfl⟩⟩
theorem Keeps.lift {α : Type} (x : R α) : Keeps (M.lift x) := ⟨fun _ h => ⟨h, rfl, rfl⟩⟩
theorem Keeps.getV : Keeps M.getV := ⟨fun _ h => ⟨h, rfl, rfl⟩⟩
theorem Keeps.readSectorM (data : Bytes) (t s : Nat) : Keeps (readSectorM data t s) := ⟨fun _ h => ⟨h, rfl, rfl⟩⟩
theorem Keeps.nextFreeM (pj : Bool) : Keeps (nextFreeM pj) := ⟨fun _ h => ⟨h, rfl, rfl⟩⟩

theorem Keeps.bind {α β : Type} {m : M α} {f : α → M β} (hm : Keeps m) (hf : ∀ a, Keeps (f a)) : Keeps (m >>= f) := by
  constructor
  intro w h
  obtain ⟨h1, c1, s1⟩ := hm.out w h
  simp only [bind_apply]
  rcases hw : m w with ⟨x, w1⟩
  rw [hw] at h1 c1 s1
  simp only at h1 c1 s1
  cases x with
  | error e => exact ⟨h1, c1, s1⟩
  | ok a =>
    obtain ⟨h2, c2, s2⟩ := (hf a).out w1 h1
    exact ⟨h2, by rw [c2, c1], by rw [s2, s1]⟩

theorem Keeps.ite {α : Type} {c : Prop} [Decidable c] {a b : M α} (ha : Keeps a) (hb : Keeps b) : Keeps (if c then a else b) := by
  split <;> assumption

theorem imgWrite_size {c : Nat} {r r' : Raw} {t s : Nat} {x : Bytes} (h : imgWrite c r t s x = .ok r') : r'.units.size = r.units.size := by
  unfold imgWrite at h
  split at h
  · cases h
  · split at h
    · cases h; simp
    · cases h

theorem Keeps.zapM (data : Bytes) (t s bps : Nat) : Keeps (zapM data t s bps) := by
  constructor
  intro w h
  unfold Fs.Dos3x.zapM
  cases hw : imgWrite w.c w.raw t s (data.take (min data.length bps)) with
  | error e => exact ⟨h, rfl, rfl⟩
  | ok r => exact ⟨⟨h.hdr, h.vlen⟩, rfl, imgWrite_size hw⟩

/-- an update of the buffer that keeps its length and every byte outside `last_track`, `last_direction` and the bitmap -/
def VKeepH (f : Bytes → R Bytes) : Prop :=
  ∀ v v', v.length = 196 → f v = .ok v' → v'.length = 196 ∧ ∀ i, (i < 0x30 ∨ (0x32 ≤ i ∧ i < 0x38)) → v'.getD i 0 = v.getD i 0

theorem Keeps.modV {f : Bytes → R Bytes} (hf : VKeepH f) : Keeps (M.modV f) := by
  constructor
  intro w h
  unfold M.modV
  cases hv : f w.v with
  | error e => exact ⟨h, rfl, rfl⟩
  | ok v' =>
    obtain ⟨hl, hk⟩ := hf _ _ h.vlen hv
    exact ⟨⟨h.hdr.of_keep hk, hl⟩, rfl, rfl⟩

theorem saveTrackMap_keepH {v : Bytes} {t m : Nat} (hl : v.length = 196) (ht : t < 35) :
    (saveTrackMap v t m).length = 196 ∧ ∀ i, (i < 0x30 ∨ (0x32 ≤ i ∧ i < 0x38)) → (saveTrackMap v t m).getD i 0 = v.getD i 0 := by
  have hb : Vtoc.bitmapOff + 4 * t + (be32 m).length ≤ v.length := by
    rw [hl, be32_length]; unfold Vtoc.bitmapOff; omega
  unfold saveTrackMap
  refine ⟨by rw [splice_length hb, hl], ?_⟩
  intro i hi
  exact getD_splice_other hb (Or.inl (by unfold Vtoc.bitmapOff; omega))

theorem allocate_keepH (t s : Nat) : VKeepH (fun v => allocate v t s) := by
  intro v v' hl hv
  unfold allocate trackMap at hv
  by_cases ht : t ≥ 35
  · simp [if_pos ht] at hv
  · simp only [if_neg ht] at hv
    cases he : effSec v s with
    | error e => simp [he] at hv
    | ok e =>
      simp only [he] at hv
      cases hv
      exact saveTrackMap_keepH hl (by omega)

theorem deallocate_keepH (t s : Nat) : VKeepH (fun v => deallocate v t s) := by
  intro v v' hl hv
  unfold deallocate trackMap at hv
  by_cases ht : t ≥ 35
  · simp [if_pos ht] at hv
  · simp only [if_neg ht] at hv
    cases he : effSec v s with
    | error e => simp [he] at hv
    | ok e =>
      simp only [he] at hv
      cases hv
      exact saveTrackMap_keepH hl (by omega)

theorem updateLastTrack_keepH (t : Nat) : VKeepH (fun v => .ok (updateLastTrack v t)) := by
  intro v v' hl hv
  cases hv
  unfold updateLastTrack
  have hb : ∀ x : Nat, 0x30 + [t, x].length ≤ v.length := by intro x; rw [hl]; simp
  split
  · exact ⟨by rw [splice_length (hb 255), hl], fun i hi => getD_splice_other (hb 255) (by simp; omega)⟩
  · split
    · exact ⟨by rw [splice_length (hb 1), hl], fun i hi => getD_splice_other (hb 1) (by simp; omega)⟩
    · exact ⟨hl, fun _ _ => rfl⟩

theorem Keeps.allocM (t s : Nat) : Keeps (allocM t s) := Keeps.modV (allocate_keepH t s)
theorem Keeps.deallocM (t s : Nat) : Keeps (deallocM t s) := Keeps.modV (deallocate_keepH t s)
theorem Keeps.updateLastTrackM (t : Nat) : Keeps (updateLastTrackM t) := Keeps.modV (updateLastTrack_keepH t)

/-! ## the operations -/

syntax "keeps_step" : tactic
macro_rules | `(tactic| keeps_step) => `(tactic| first
  | exact Keeps.pure _ | exact Keeps.pure' _ | exact Keeps.fail _ | exact Keeps.lift _ | exact Keeps.getV
  | exact Keeps.readSectorM _ _ _ | exact Keeps.nextFreeM _ | exact Keeps.zapM _ _ _ _
  | exact Keeps.allocM _ _ | exact Keeps.deallocM _ _ | exact Keeps.updateLastTrackM _
  | apply Keeps.bind
  | apply Keeps.ite
  | intro _
  | split)
macro "keeps" : tactic => `(tactic| repeat' keeps_step)
macro "keeps_using " t:term : tactic => `(tactic| repeat' (first | exact $t | keeps_step))

theorem Keeps.writeSectorM (data : Bytes) (t s : Nat) : Keeps (writeSectorM data t s) := by
  unfold Fs.Dos3x.writeSectorM; keeps
macro_rules | `(tactic| keeps_step) => `(tactic| exact Keeps.writeSectorM _ _ _)

theorem Keeps.slotLoop : ∀ (fuel t s : Nat) (buf : Bytes), Keeps (slotLoop fuel t s buf) := by
  intro fuel
  induction fuel with
  | zero => intro t s buf; unfold Fs.Dos3x.slotLoop; keeps
  | succ n ih => intro t s buf; unfold Fs.Dos3x.slotLoop; keeps_using (ih _ _ _)
macro_rules | `(tactic| keeps_step) => `(tactic| exact Keeps.slotLoop _ _ _ _)

theorem Keeps.nextDirectorySlot : Keeps nextDirectorySlot := by
  unfold Fs.Dos3x.nextDirectorySlot; keeps
macro_rules | `(tactic| keeps_step) => `(tactic| exact Keeps.nextDirectorySlot)

theorem Keeps.findLoop (fname : Bytes) : ∀ (fuel t s : Nat) (buf : Bytes), Keeps (findLoop fname fuel t s buf) := by
  intro fuel
  induction fuel with
  | zero => intro t s buf; unfold Fs.Dos3x.findLoop; keeps
  | succ n ih => intro t s buf; unfold Fs.Dos3x.findLoop; keeps_using (ih _ _ _)
macro_rules | `(tactic| keeps_step) => `(tactic| exact Keeps.findLoop _ _ _ _ _)

theorem Keeps.findEntry (fname : Bytes) : Keeps (findEntry fname) := by
  unfold Fs.Dos3x.findEntry; keeps
macro_rules | `(tactic| keeps_step) => `(tactic| exact Keeps.findEntry _)

theorem Keeps.getTslistSector (name : Bytes) : Keeps (getTslistSector name) := by
  unfold Fs.Dos3x.getTslistSector; keeps
macro_rules | `(tactic| keeps_step) => `(tactic| exact Keeps.getTslistSector _)

theorem Keeps.putLoop (chunks : List (Nat × Bytes)) (maxPairs endIdx : Nat) :
    ∀ (l : List Nat) (st : LoopSt), Keeps (putLoop chunks maxPairs endIdx l st) := by
  intro l
  induction l with
  | nil => intro st; unfold Fs.Dos3x.putLoop; keeps
  | cons s rest ih => intro st; unfold Fs.Dos3x.putLoop; keeps_using (ih _)
macro_rules | `(tactic| keeps_step) => `(tactic| exact Keeps.putLoop _ _ _ _ _)

theorem Keeps.writeFile (f : FImg) (rp : Repairs := {}) : Keeps (writeFile f rp) := by
  unfold Fs.Dos3x.writeFile; keeps

theorem Keeps.modifyM (name : Bytes) (lock : Option Bool) (newName : Option Bytes) (ftype : Option (Option Nat)) :
    Keeps (modifyM name lock newName ftype) := by
  unfold Fs.Dos3x.modifyM; keeps

theorem Keeps.freePairs (tsl : Bytes) : ∀ (l : List Nat), Keeps (freePairs tsl l) := by
  intro l
  induction l with
  | nil => unfold Fs.Dos3x.freePairs; keeps
  | cons p ps ih => unfold Fs.Dos3x.freePairs; keeps_using ih
macro_rules | `(tactic| keeps_step) => `(tactic| exact Keeps.freePairs _ _)

theorem Keeps.freeLoop (maxPairs : Nat) : ∀ (fuel t s : Nat) (buf : Bytes), Keeps (freeLoop maxPairs fuel t s buf) := by
  intro fuel
  induction fuel with
  | zero => intro t s buf; unfold Fs.Dos3x.freeLoop; keeps
  | succ n ih => intro t s buf; unfold Fs.Dos3x.freeLoop; keeps_using (ih _ _ _)
macro_rules | `(tactic| keeps_step) => `(tactic| exact Keeps.freeLoop _ _ _ _ _)

theorem Keeps.deleteM (name : Bytes) : Keeps (deleteM name) := by
  unfold Fs.Dos3x.deleteM; keeps

theorem Keeps.readPairs (tsl : Bytes) (count : Nat) : ∀ (l : List Nat), Keeps (readPairs tsl count l) := by
  intro l
  induction l with
  | nil => unfold Fs.Dos3x.readPairs; keeps
  | cons p ps ih => unfold Fs.Dos3x.readPairs; keeps_using ih
macro_rules | `(tactic| keeps_step) => `(tactic| exact Keeps.readPairs _ _ _)

theorem Keeps.readLoop (maxPairs : Nat) : ∀ (fuel t s count : Nat) (buf : Bytes), Keeps (readLoop maxPairs fuel t s count buf) := by
  intro fuel
  induction fuel with
  | zero => intro t s count buf; unfold Fs.Dos3x.readLoop; keeps
  | succ n ih => intro t s count buf; unfold Fs.Dos3x.readLoop; keeps_using (ih _ _ _ _)
macro_rules | `(tactic| keeps_step) => `(tactic| exact Keeps.readLoop _ _ _ _ _ _)

theorem Keeps.getM (name : Bytes) : Keeps (getM name) := by
  unfold Fs.Dos3x.getM; keeps

theorem Keeps.catalogLoop : ∀ (fuel t s : Nat) (buf : Bytes), Keeps (catalogLoop fuel t s buf) := by
  intro fuel
  induction fuel with
  | zero => intro t s buf; unfold Fs.Dos3x.catalogLoop; keeps
  | succ n ih => intro t s buf; unfold Fs.Dos3x.catalogLoop; keeps_using (ih _ _ _)
macro_rules | `(tactic| keeps_step) => `(tactic| exact Keeps.catalogLoop _ _ _ _)

theorem Keeps.catalogM : Keeps (do let v ← M.getV; Fs.Dos3x.catalogLoop maxDirectoryReps (Vtoc.track1 v) (Vtoc.sector1 v) (zeros 256)) := by
  keeps

theorem Keeps.statFreeM : Keeps (do let v ← M.getV; M.lift (numFree v)) := by
  keeps

theorem Keeps.initDirs : ∀ (l : List Nat), Keeps (initDirs l) := by
  intro l
  induction l with
  | nil => unfold Fs.Dos3x.initDirs; keeps
  | cons p ps ih => unfold Fs.Dos3x.initDirs; keeps_using ih
macro_rules | `(tactic| keeps_step) => `(tactic| exact Keeps.initDirs _)

theorem Keeps.initM (sectors : Nat) : Keeps (do Fs.Dos3x.writeSectorM (zeros 256) vtocTrack 1; Fs.Dos3x.initDirs (rng 2 sectors)) := by
  keeps


/-! ## the object -/

/-- the object's current VTOC (the buffer if open, else track 17 sector 0) carries the header `test_img` wants, and the
image has 35 tracks of `c` sectors -/
structure HdrD (d : Disk) : Prop where
  c : d.c = 13 ∨ d.c = 16
  size : d.raw.units.size = 35 * d.c
  cur : match d.vtoc with
        | some v => Hdr d.c v ∧ v.length = 196
        | none => ∃ buf, d.raw.units[vtocTrack * d.c]? = some buf ∧ 196 ≤ buf.length ∧ Hdr d.c (buf.take 196)

theorem run_hdr {α : Type} {m : M α} (hm : Keeps m) {d : Disk} (h : HdrD d) : HdrD (d.run m).2 := by
  unfold Disk.run
  cases ho : openVtoc d with
  | error e => exact h
  | ok v =>
    simp only
    have hw : WHdr ⟨d.c, d.raw, v⟩ := by
      have hcur := h.cur
      unfold openVtoc at ho
      cases hv : d.vtoc with
      | some v0 =>
        rw [hv] at hcur ho
        simp only at hcur ho
        cases ho
        exact ⟨hcur.1, hcur.2⟩
      | none =>
        rw [hv] at hcur ho
        simp only at hcur ho
        obtain ⟨buf, hb, hl, hh⟩ := hcur
        have hr : imgRead d.c d.raw vtocTrack 0 = .ok buf := by
          unfold imgRead imgTracks
          rw [h.size]
          have : 35 * d.c / d.c = 35 := Nat.mul_div_cancel _ (by rcases h.c with e | e <;> omega)
          rw [this, if_neg (by unfold vtocTrack; rcases h.c with e | e <;> omega), Nat.add_zero, hb]
        rw [hr] at ho
        simp only at ho
        rw [if_neg (by unfold vtocLen; omega)] at ho
        split at ho
        · cases ho
        · cases ho
          exact ⟨hh, by unfold vtocLen; rw [List.length_take]; omega⟩
    obtain ⟨h1, c1, s1⟩ := hm.out _ hw
    rcases hmw : m ⟨d.c, d.raw, v⟩ with ⟨x, w1⟩
    rw [hmw] at h1 c1 s1
    simp only at h1 c1 s1 ⊢
    exact ⟨by show w1.c = 13 ∨ w1.c = 16; rw [c1]; exact h.c, by show w1.raw.units.size = 35 * w1.c; rw [s1, c1]; exact h.size,
      ⟨h1.hdr, h1.vlen⟩⟩

/-- no operation changes the container geometry -/
theorem run_c {α : Type} (m : M α) (hm : Keeps m) {d : Disk} (h : HdrD d) : (d.run m).2.c = d.c := by
  unfold Disk.run
  cases ho : openVtoc d with
  | error e => rfl
  | ok v =>
    simp only
    have hcur := h.cur
    have hw : WHdr ⟨d.c, d.raw, v⟩ := by
      have h1 := run_hdr (m := (pure () : M Unit)) (Keeps.pure _) h
      unfold Disk.run at h1
      rw [ho] at h1
      simp only at h1
      have := h1.cur
      exact ⟨this.1, this.2⟩
    exact (hm.out _ hw).2.1

theorem run_both {α : Type} {m : M α} (hm : Keeps m) {d : Disk} (h : HdrD d) : HdrD (d.run m).2 ∧ (d.run m).2.c = d.c :=
  ⟨run_hdr hm h, run_c m hm h⟩

theorem length_flatMap4 {f : Nat → Bytes} (hf : ∀ t, (f t).length = 4) : ∀ (l : List Nat), (l.flatMap f).length = 4 * l.length := by
  intro l
  induction l with
  | nil => rfl
  | cons x xs ih => rw [List.flatMap_cons, List.length_append, hf, ih, List.length_cons]; omega

theorem initVtoc_length (vol c : Nat) : (initVtoc vol c).length = 196 := by
  unfold initVtoc
  simp only [List.length_append, List.length_cons, List.length_nil, zeros, List.length_replicate]
  rw [length_flatMap4 (by intro t; split <;> (try rfl) <;> (split <;> (try rfl) <;> (split <;> rfl)))]
  simp

theorem initVtoc_hdr {vol c : Nat} (hv : 1 ≤ vol ∧ vol ≤ 254) (hc : c = 13 ∨ c = 16) :
    Hdr c ((quantize (initVtoc vol c)).take 196) ∧ 196 ≤ (quantize (initVtoc vol c)).length := by
  have e : (quantize (initVtoc vol c)).take 196 = initVtoc vol c := take_quantize (initVtoc_length vol c)
  rw [e]
  refine ⟨?_, by rw [quantize_length]; omega⟩
  rcases hc with rfl | rfl
  · exact ⟨rfl, rfl, ⟨fun _ => Nat.le_refl 2, fun h => absurd h (by decide)⟩, hv, rfl, rfl, rfl, rfl⟩
  · exact ⟨rfl, rfl, ⟨fun h => absurd h (by decide), fun _ => Nat.le_refl 3⟩, hv, rfl, rfl, rfl, rfl⟩

/-- `init33` / `init32` (with the sector count of the container) on a 35-track image establishes the header -/
theorem init_hdr {d : Disk} (hc : d.c = 13 ∨ d.c = 16) (hs : d.raw.units.size = 35 * d.c) (vol : Nat) :
    (init d vol d.c).1 = .error .panic ∨ (HdrD (init d vol d.c).2 ∧ (init d vol d.c).2.c = d.c) := by
  rw [init_eq]
  by_cases h1 : ¬ (vol > 0 ∧ vol < 255) ∨ ¬ (d.c = 13 ∨ d.c = 16 ∨ d.c = 32)
  · rw [if_pos h1]; exact Or.inl rfl
  · rw [if_neg h1]
    right
    have hv : 1 ≤ vol ∧ vol ≤ 254 := by omega
    unfold initTail
    have hi : vtocTrack * d.c < d.raw.units.size := by rw [hs]; unfold vtocTrack; rcases hc with e | e <;> omega
    have hw : imgWrite d.c d.raw vtocTrack 0 (initVtoc vol d.c) =
        .ok { d.raw with units := d.raw.units.setIfInBounds (vtocTrack * d.c) (quantize (initVtoc vol d.c)) } := by
      unfold imgWrite imgTracks
      rw [hs]
      have : 35 * d.c / d.c = 35 := Nat.mul_div_cancel _ (by rcases hc with e | e <;> omega)
      rw [this, if_neg (by unfold vtocTrack; rcases hc with e | e <;> omega), Nat.add_zero, if_pos (by rw [← hs]; exact hi)]
    rw [hw]
    simp only
    obtain ⟨hh, hl⟩ := initVtoc_hdr hv hc
    exact run_both (d := ⟨{ d.raw with units := d.raw.units.setIfInBounds (vtocTrack * d.c) (quantize (initVtoc vol d.c)) }, d.c, none⟩)
      (Keeps.initM d.c) ⟨hc, by simp [hs], ⟨_, by simp [hi], hl, hh⟩⟩

/-- every other operation keeps the header and the geometry -/
theorem op_hdr {d : Disk} (h : HdrD d) (o : Op) (hi : ∀ vol sectors, o ≠ .init vol sectors) (rp : Repairs := {}) :
    HdrD (o.run d rp).2 ∧ (o.run d rp).2.c = d.c := by
  have modify_case : ∀ {e : Disk}, HdrD e → ∀ n lk nn ft, HdrD (Fs.Dos3x.modify e n lk nn ft).2 ∧ (Fs.Dos3x.modify e n lk nn ft).2.c = e.c := by
    intro e he n lk nn ft
    unfold Fs.Dos3x.modify
    split
    · exact ⟨he, rfl⟩
    · exact run_both (Keeps.modifyM _ _ _ _) he
  cases o with
  | init vol sectors => exact absurd rfl (hi vol sectors)
  | put f =>
    show HdrD (Fs.Dos3x.put d f rp).2 ∧ (Fs.Dos3x.put d f rp).2.c = d.c
    unfold Fs.Dos3x.put
    repeat' split
    all_goals first | exact ⟨h, rfl⟩ | exact run_both (Keeps.writeFile f rp) h
  | delete n => exact run_both (Keeps.deleteM n) h
  | rename o n =>
    show HdrD (Fs.Dos3x.rename d o n).2 ∧ (Fs.Dos3x.rename d o n).2.c = d.c
    unfold Fs.Dos3x.rename
    split
    · exact ⟨h, rfl⟩
    · obtain ⟨h1, c1⟩ := run_both (Keeps.getTslistSector n) h
      rcases hr : d.run (getTslistSector n) with ⟨x, d1⟩
      rw [hr] at h1 c1
      simp only at h1 c1 ⊢
      rcases x with e | (_ | y)
      · exact ⟨h1, c1⟩
      · obtain ⟨h2, c2⟩ := modify_case h1 o none (some n) none
        exact ⟨h2, by rw [c2, c1]⟩
      · exact ⟨h1, c1⟩
  | lock n => exact modify_case h n (some true) none none
  | unlock n => exact modify_case h n (some false) none none
  | retype n t => exact modify_case h n none none (some t)
  | get n =>
    show HdrD (Fs.Dos3x.get d n).2 ∧ (Fs.Dos3x.get d n).2.c = d.c
    unfold Fs.Dos3x.get
    split
    · exact ⟨h, rfl⟩
    · exact run_both (Keeps.getM n) h
  | catalog => exact run_both Keeps.catalogM h
  | statFree => exact run_both Keeps.statFreeM h

end A2Verif.Reload.Dos
