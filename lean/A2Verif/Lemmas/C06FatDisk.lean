import A2Verif.Lemmas.C06FatOps
/-!
# C06, FAT: the object, its saved bytes, and histories with reloads

`Coh d`: the static facts `Geo` and a well-formed FAT — either the buffer is open and well-formed, or it is closed and
every FAT copy on the image holds one well-formed table (what `get_img()` leaves behind).  A coherent object is a twin
(`Sim`) of itself-with-the-buffer-open; `DSim d d'`: both are twins of one open object.  `reload` (= `load ∘ save`) of a
twin is a twin (`sim_reload`), twins are saved to the same bytes (`save_sim`), and every operation gives twins the
same answer (`op_sim`).
-/
namespace A2Verif.Reload.Fat
open A2Verif.Fs.Fat A2Verif.FsFat

/-- coherence of the FAT object -/
structure Coh (d : Disk) : Prop where
  geo : Geo d
  buf : ∃ f, BufOk d.bpb f ∧ (d.fat = some f ∨ (d.fat = none ∧ FatOn d f))

/-- the refinement invariant of the FAT model (`Lemmas/FsFatOps.lean`) implies coherence -/
theorem coh_of_inv {d : Disk} (i : A2Verif.FsFat.Inv d) : Coh d := by
  obtain ⟨f, c⟩ := i.coh
  exact ⟨i.geo, ⟨f, ⟨c.size, c.bytes⟩, Or.inl c.isOpen⟩⟩

theorem coh_sim {d : Disk} (h : Coh d) : ∃ d0, Sim (Par.of d) d0 d := by
  obtain ⟨f, hb, ht⟩ := h.buf
  refine ⟨{ d with fat := some f }, rfl, rfl, rfl, fun _ _ => rfl, geo_setFat h.geo _, h.geo, ⟨f, rfl, hb, ?_⟩⟩
  cases ht with
  | inl h1 => exact Or.inl h1
  | inr h1 => exact Or.inr h1

theorem Sim.coh' {P : Par} {d0 d' : Disk} (h : Sim P d0 d') : Coh d' := by
  obtain ⟨f, _, hb, ht⟩ := h.buf
  exact ⟨h.geo', ⟨f, by rw [h.bpb']; exact hb, ht⟩⟩

theorem Sim.refl_left {P : Par} {d0 d' : Disk} (h : Sim P d0 d') : Sim P d0 d0 := by
  obtain ⟨f, hf, hb, _⟩ := h.buf
  exact ⟨h.par, h.par, rfl, fun _ _ => rfl, h.geo, h.geo, ⟨f, hf, hb, Or.inl hf⟩⟩

/-! ## the flush of a twin -/

theorem flush_closed {d : Disk} (h : d.fat = none) : flush d = (.ok (), d) := by
  unfold flush writebackFatBuffer
  simp only [M_bind_apply, M.get, h]
  rfl

/-- what `get_img()` does to a twin: every FAT copy holds the buffer afterwards, nothing else changed -/
theorem flush_twin {P : Par} {d0 d' : Disk} (h : Sim P d0 d') :
    ∃ f r', d0.fat = some f ∧ BufOk P.bpb f ∧ flush d' = (.ok (), { d' with raw := r' }) ∧ Geo { d' with raw := r' } ∧
      FatOn { d' with raw := r' } f ∧ r'.units.size = d'.raw.units.size ∧
      (∀ u, (u < P.bpb.rsvd ∨ P.bpb.rootBeg ≤ u) → r'.units[u]? = d'.raw.units[u]?) := by
  obtain ⟨f, hf, hb, ht⟩ := h.buf
  cases ht with
  | inl h1 =>
    obtain ⟨r', e1, g1, c1, o1⟩ := flush_spec h.geo' h1 (by rw [h.bpb']; exact hb.1) hb.2
    refine ⟨f, r', hf, hb, e1, g1, c1.copies, ?_, by rw [← h.bpb']; exact o1⟩
    -- the size: both images extend beyond the root directory, where they agree
    have ht1 : d'.bpb.totSec ≤ r'.units.size := g1.fits.2
    have ht2 : d'.bpb.totSec ≤ d'.raw.units.size := h.geo'.fits.2
    have hroot : d'.bpb.rootBeg ≤ d'.bpb.totSec := by
      have := h.geo'.fits.1; unfold Bpb.firstDataSec Bpb.rootBeg at *; omega
    apply Nat.le_antisymm
    · apply Nat.le_of_not_lt
      intro hlt
      have := o1 d'.raw.units.size (Or.inr (by omega))
      rw [Array.getElem?_eq_getElem hlt, Array.getElem?_eq_none (Nat.le_refl _)] at this
      cases this
    · apply Nat.le_of_not_lt
      intro hlt
      have := o1 r'.units.size (Or.inr (by omega))
      rw [Array.getElem?_eq_getElem hlt, Array.getElem?_eq_none (Nat.le_refl _)] at this
      cases this
  | inr h1 =>
    exact ⟨f, d'.raw, hf, hb, flush_closed h1.1, h.geo', h1.2, rfl, fun _ _ => rfl⟩

theorem fat_index {b : Bpb} (hF : 0 < b.fatSecs) {u : Nat} (h1 : b.rsvd ≤ u) (h2 : u < b.rootBeg) :
    ∃ k j, k < b.nfat ∧ j < b.fatSecs ∧ u = b.rsvd + k * b.fatSecs + j := by
  refine ⟨(u - b.rsvd) / b.fatSecs, (u - b.rsvd) % b.fatSecs, ?_, Nat.mod_lt _ hF, ?_⟩
  · rw [Nat.div_lt_iff_lt_mul hF]
    unfold Bpb.rootBeg at h2
    omega
  · have := Nat.div_add_mod' (u - b.rsvd) b.fatSecs
    omega

theorem raw_ext {r r' : Raw} (hu : r'.unitLen = r.unitLen) (hs : r'.units.size = r.units.size)
    (he : ∀ i : Nat, r'.units[i]? = r.units[i]?) : r' = r := by
  cases r; cases r'
  simp only at hu hs he
  subst hu
  congr
  exact Array.ext_getElem? he

/-- twins are flushed to the same image -/
theorem flush_raw_eq {P : Par} {d0 d' : Disk} (h : Sim P d0 d') {r0 r' : Raw} {f : Array Nat}
    (g0 : Geo { d0 with raw := r0 }) (g' : Geo { d' with raw := r' })
    (on0 : FatOn { d0 with raw := r0 } f) (on' : FatOn { d' with raw := r' } f)
    (s0 : r0.units.size = d0.raw.units.size) (s' : r'.units.size = d'.raw.units.size)
    (o0 : ∀ u, (u < P.bpb.rsvd ∨ P.bpb.rootBeg ≤ u) → r0.units[u]? = d0.raw.units[u]?)
    (o' : ∀ u, (u < P.bpb.rsvd ∨ P.bpb.rootBeg ≤ u) → r'.units[u]? = d'.raw.units[u]?) : r' = r0 := by
  apply raw_ext
  · have a : r'.unitLen = 512 := g'.ulen
    have b : r0.unitLen = 512 := g0.ulen
    rw [a, b]
  · rw [s0, s', h.size]
  · intro i
    by_cases hi : i < P.bpb.rsvd ∨ P.bpb.rootBeg ≤ i
    · rw [o0 i hi, o' i hi, h.off i hi]
    · have hF : 0 < P.bpb.fatSecs := by
        have := h.geo.fat16; have := fatSecs_eq h.geo; rw [h.bpb] at *; omega
      have hi1 : P.bpb.rsvd ≤ i := by omega
      have hi2 : i < P.bpb.rootBeg := by omega
      obtain ⟨k, j, hk, hj, rfl⟩ := fat_index (b := P.bpb) hF hi1 hi2
      have a := on0 k j (by show k < d0.bpb.nfat; rw [h.bpb]; exact hk) (by show j < d0.bpb.fatSecs; rw [h.bpb]; exact hj)
      have b := on' k j (by show k < d'.bpb.nfat; rw [h.bpb']; exact hk) (by show j < d'.bpb.fatSecs; rw [h.bpb']; exact hj)
      simp only [h.bpb] at a
      simp only [h.bpb'] at b
      rw [a, b]

theorem save_of_flush {d : Disk} {r : Raw} (h : flush d = (.ok (), { d with raw := r })) : save d = .ok (toBytes r) := by
  unfold save; rw [h]

/-- twins are saved to the same bytes -/
theorem save_sim {P : Par} {d0 d' : Disk} (h : Sim P d0 d') : save d' = save d0 := by
  obtain ⟨f, r', hf, _, e', g', on', s', o'⟩ := flush_twin h
  obtain ⟨f0, r0, hf0, _, e0, g0, on0, s0, o0⟩ := flush_twin h.refl_left
  rw [hf] at hf0
  cases hf0
  rw [save_of_flush e', save_of_flush e0, flush_raw_eq h g0 g' on0 on' s0 s' o0 o']

/-! ## reload -/

/-- save and load, as one step on objects (`get_img` does not fail on a coherent object) -/
def reload (d : Disk) : Disk :=
  match save d with
  | .ok b => load d.raw.unitLen d.labelFiles b
  | .error _ => d

theorem shaped_of_geo {d : Disk} (g : Geo d) : Shaped 512 d.raw := by
  refine ⟨by decide, g.ulen, ?_⟩
  intro u hu
  obtain ⟨i, hi, rfl⟩ := List.getElem_of_mem hu
  have hi' : i < d.raw.units.size := by simpa using hi
  have := g.usz i hi'
  simpa using this

theorem reload_eq {d : Disk} {r : Raw} (hf : flush d = (.ok (), { d with raw := r })) (hu : d.raw.unitLen = 512)
    (g : Geo { d with raw := r }) :
    reload d = { raw := r, bpb := d.bpb, typ := d.typ, fat := none, labelFiles := d.labelFiles } := by
  unfold reload
  rw [save_of_flush hf]
  simp only
  unfold load
  simp only
  rw [hu, ofBytes_toBytes (shaped_of_geo g)]
  obtain ⟨s0, h0, hb⟩ := g.boot
  have h0' : r.units[0]? = some s0 := h0
  unfold Disk.ofImg
  simp only [h0', Option.getD_some, hb]
  have a : d.bpb.fatType = 12 := g.ftyp
  have b : d.typ = 12 := g.typ
  rw [a, b]

/-- a twin stays a twin when it is saved and loaded -/
theorem sim_reload {P : Par} {d0 d' : Disk} (h : Sim P d0 d') : Sim P d0 (reload d') := by
  obtain ⟨f, r', hf, hb, e', g', on', s', o'⟩ := flush_twin h
  rw [reload_eq e' h.geo'.ulen g']
  refine ⟨h.par, h.par', by show r'.units.size = _; rw [s', h.size], ?_, h.geo, ?_, ⟨f, hf, hb, Or.inr ⟨rfl, on'⟩⟩⟩
  · intro u hu
    show r'.units[u]? = _
    rw [o' u hu, h.off u hu]
  · exact { boot := g'.boot, ulen := g'.ulen, usz := g'.usz, bps := g'.bps, spc := g'.spc, nfat := g'.nfat, fat16 := g'.fat16,
            spt := g'.spt, heads := g'.heads, typ := g'.typ, ftyp := g'.ftyp, rsvd := g'.rsvd, fits := g'.fits, chs := g'.chs }

/-- `get_img()` succeeds on a coherent object -/
theorem save_ok {d : Disk} (h : Coh d) : ∃ b, save d = .ok b ∧ reload d = load d.raw.unitLen d.labelFiles b := by
  obtain ⟨d0, hs⟩ := coh_sim h
  obtain ⟨f, r', _, _, e', _, _, _, _⟩ := flush_twin hs
  refine ⟨toBytes r', save_of_flush e', ?_⟩
  unfold reload
  rw [save_of_flush e']

/-! ## twins of one open object -/

/-- both objects are twins of one object with open buffer -/
def DSim (d d' : Disk) : Prop := ∃ P d0, Sim P d0 d ∧ Sim P d0 d'

theorem DSim.coh {d d' : Disk} (h : DSim d d') : Coh d := by obtain ⟨_, _, h1, _⟩ := h; exact h1.coh'
theorem DSim.coh' {d d' : Disk} (h : DSim d d') : Coh d' := by obtain ⟨_, _, _, h2⟩ := h; exact h2.coh'

theorem dsim_refl {d : Disk} (h : Coh d) : DSim d d := by
  obtain ⟨d0, hs⟩ := coh_sim h
  exact ⟨_, d0, hs, hs⟩

theorem dsim_reload {d d' : Disk} (h : DSim d d') : DSim d (reload d') := by
  obtain ⟨P, d0, h1, h2⟩ := h
  exact ⟨P, d0, h1, sim_reload h2⟩

theorem reload_dsim {d : Disk} (h : Coh d) : DSim d (reload d) := dsim_reload (dsim_refl h)

theorem dsim_save {d d' : Disk} (h : DSim d d') : save d' = save d := by
  obtain ⟨P, d0, h1, h2⟩ := h
  rw [save_sim h1, save_sim h2]

theorem dsim_flush_raw {d d' : Disk} (h : DSim d d') : (flush d').2.raw = (flush d).2.raw := by
  obtain ⟨P, d0, h1, h2⟩ := h
  obtain ⟨f, r1, hf, _, e1, g1, on1, s1, o1⟩ := flush_twin h1
  obtain ⟨f2, r2, hf2, _, e2, g2, on2, s2, o2⟩ := flush_twin h2
  obtain ⟨f0, r0, hf0, _, e0, g0, on0, s0, o0⟩ := flush_twin h1.refl_left
  rw [hf] at hf2 hf0
  cases hf2; cases hf0
  rw [e1, e2]
  show r2 = r1
  rw [flush_raw_eq h1 g0 g1 on0 on1 s0 s1 o0 o1, flush_raw_eq h2 g0 g2 on0 on2 s0 s2 o0 o2]

/-- running a `Resp` computation on twins -/
theorem run_sim {α : Type} {m : M α} (hm : ∀ P, Resp P m) {d d' : Disk} (h : DSim d d') :
    (m d').1 = (m d).1 ∧ DSim (m d).2 (m d').2 := by
  obtain ⟨P, d0, h1, h2⟩ := h
  obtain ⟨e1, s1⟩ := (hm P).out d0 d h1
  obtain ⟨e2, s2⟩ := (hm P).out d0 d' h2
  exact ⟨by rw [e1, e2], ⟨P, _, s1, s2⟩⟩

/-! ## operations and histories -/

/-- the operations of the FAT model, queries included (`format` is treated apart: see `design/C06.md`) -/
inductive Op where
  | put (f : FImg) (now : Stamp)
  | delete (path : Bytes)
  | rename (path name : Bytes)
  | lock (path : Bytes)
  | unlock (path : Bytes)
  | retype (path : Bytes) (t : NewType)
  | mkdir (path : Bytes) (now : Stamp)
  | get (path : Bytes)
  | catalog (path : Bytes)
  | statFree

/-- what an operation answers -/
inductive Out where
  | unit (x : R Unit)
  | nat (x : R Nat)
  | got (x : R Got)
  | rows (x : R (List (Bytes × Nat × Bytes)))

/-- run one operation: answer and object afterwards -/
def Op.run (d : Disk) : Op → Out × Disk
  | .put f now => let x := Fs.Fat.put f now d; (.nat x.1, x.2)
  | .delete p => let x := Fs.Fat.delete p d; (.unit x.1, x.2)
  | .rename p n => let x := Fs.Fat.rename p n d; (.unit x.1, x.2)
  | .lock p => let x := Fs.Fat.lock p d; (.unit x.1, x.2)
  | .unlock p => let x := Fs.Fat.unlock p d; (.unit x.1, x.2)
  | .retype p t => let x := Fs.Fat.retype p t d; (.unit x.1, x.2)
  | .mkdir p now => let x := Fs.Fat.mkdir p now d; (.unit x.1, x.2)
  | .get p => let x := Fs.Fat.get p d; (.got x.1, x.2)
  | .catalog p => let x := Fs.Fat.catalog p d; (.rows x.1, x.2)
  | .statFree => let x := Fs.Fat.statFree d; (.nat x.1, x.2)

/-- C06 (FAT), continuation, one step: on twins every operation gives the same answer and leads to twins -/
theorem op_sim {d d' : Disk} (h : DSim d d') (o : Op) : (o.run d').1 = (o.run d).1 ∧ DSim (o.run d).2 (o.run d').2 := by
  cases o with
  | put f now => obtain ⟨e, s⟩ := run_sim (fun P => Resp.put (P := P) f now) h; exact ⟨congrArg Out.nat e, s⟩
  | delete p => obtain ⟨e, s⟩ := run_sim (fun P => Resp.delete (P := P) p) h; exact ⟨congrArg Out.unit e, s⟩
  | rename p n => obtain ⟨e, s⟩ := run_sim (fun P => Resp.rename (P := P) p n) h; exact ⟨congrArg Out.unit e, s⟩
  | lock p => obtain ⟨e, s⟩ := run_sim (fun P => Resp.lock (P := P) p) h; exact ⟨congrArg Out.unit e, s⟩
  | unlock p => obtain ⟨e, s⟩ := run_sim (fun P => Resp.unlock (P := P) p) h; exact ⟨congrArg Out.unit e, s⟩
  | retype p t => obtain ⟨e, s⟩ := run_sim (fun P => Resp.retype (P := P) p t) h; exact ⟨congrArg Out.unit e, s⟩
  | mkdir p now => obtain ⟨e, s⟩ := run_sim (fun P => Resp.mkdir (P := P) p now) h; exact ⟨congrArg Out.unit e, s⟩
  | get p => obtain ⟨e, s⟩ := run_sim (fun P => Resp.get (P := P) p) h; exact ⟨congrArg Out.got e, s⟩
  | catalog p => obtain ⟨e, s⟩ := run_sim (fun P => Resp.catalog (P := P) p) h; exact ⟨congrArg Out.rows e, s⟩
  | statFree => obtain ⟨e, s⟩ := run_sim (fun P => Resp.statFree (P := P)) h; exact ⟨congrArg Out.nat e, s⟩

/-- a history in which the image may be saved and loaded again between any two operations -/
inductive Step where
  | op (o : Op)
  | reload

/-- run a history; `reload` replaces the object by `load (save ·)` -/
def exec : Disk → List Step → List Out × Disk
  | d, [] => ([], d)
  | d, .op o :: rest => let x := o.run d; let y := exec x.2 rest; (x.1 :: y.1, y.2)
  | d, .reload :: rest => exec (reload d) rest

/-- the same history without the reloads -/
def opsOf : List Step → List Step
  | [] => []
  | .op o :: rest => .op o :: opsOf rest
  | .reload :: rest => opsOf rest

theorem exec_sim : ∀ (steps : List Step) {d d' : Disk}, DSim d d' →
    (exec d' steps).1 = (exec d (opsOf steps)).1 ∧ DSim (exec d (opsOf steps)).2 (exec d' steps).2 := by
  intro steps
  induction steps with
  | nil => intro d d' h; exact ⟨rfl, h⟩
  | cons s rest ih =>
    intro d d' h
    cases s with
    | op o =>
      obtain ⟨e, s⟩ := op_sim h o
      obtain ⟨e2, s2⟩ := ih s
      refine ⟨?_, s2⟩
      show (o.run d').1 :: (exec (o.run d').2 rest).1 = (o.run d).1 :: (exec (o.run d).2 (opsOf rest)).1
      rw [e, e2]
    | reload => exact ih (dsim_reload h)

end A2Verif.Reload.Fat
