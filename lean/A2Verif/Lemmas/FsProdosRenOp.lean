import A2Verif.Lemmas.FsProdosModOp
/-!
# `rename` of a file of the volume directory refines the abstract `rename`

The converse correspondence between the model's search and the reader's listing (`path_not_listed`: a name `search_entries`
does not find among all storage types is a name the reader does not list), the refusals of `ok_to_rename` (invalid new name,
duplicate), of the search (`PATH NOT FOUND`) and of `modify` (rename bit clear), and the successful case
(`modify_found` with the entry `Ent.rename e0 newName`).
-/
namespace A2Verif.FsProdos
open A2Verif.Fs.Prodos
open A2Verif.Read.Prodos (entryAt dirChain idxPtr indexEntries readData trimName bitmapFree)
open A2Verif.Read.ProdosT

theorem isNameValid_no_slash (nn : Bytes) (h : isNameValid nn = true) : 47 ∉ upper nn := by
  unfold isNameValid at h
  cases hu : upper nn with
  | nil => simp
  | cons c rest =>
    rw [hu] at h
    simp only [Bool.and_eq_true, List.all_eq_true, decide_eq_true_eq] at h
    intro hx
    rcases List.mem_cons.mp hx with e | hx'
    · have := h.1.1; rw [← e] at this; revert this; decide
    · have := h.1.2 47 hx'; revert this; decide

/-- every record of the reading of an `Inv` image comes from a slot of the volume directory: the record of a file slot, or —
for the slot of a sub-directory — the directory's record (whose path is the entry's name) or a record of a file in it (whose
path contains a `/`) -/
theorem rec_of_slot {r : Raw} (hinv : Inv r) (v : Vol) (fsL : List LRec) (ch : List Nat)
    (hread : Read.ProdosT.read r = .ok v) (htree : readTree r (hdrTotal r) = .ok (fsL, ch)) (f : FileRec) (hf : f ∈ v.files) :
    ∃ y ∈ dirSlots r 2 ch,
      ((y.1.getD 0 0 / 16 = 1 ∨ y.1.getD 0 0 / 16 = 2 ∨ y.1.getD 0 0 / 16 = 3) ∧
        Read.ProdosT.readFile r (hdrTotal r) y.1 [] = .ok f) ∨
      (y.1.getD 0 0 / 16 = 0xD ∧ (f.path = trimName y.1 ∨ 47 ∈ f.path)) := by
  obtain ⟨hw, hn, hroot, hv, hc, hic, hnd, hchf, h2, h6, h3, hbt, hstv⟩ := root_chain_facts hinv v fsL ch hread htree
  have htree' : readDir (69 + 1) r (hdrTotal r) 2 [] 0 = .ok (fsL, ch) := htree
  obtain ⟨hfs, hall, hcnt⟩ := readDir_slots r (hdrTotal r) 69 2 [] 0 fsL ch (by omega) hroot.geo htree'
  rw [hv] at hf
  simp only [List.mem_map] at hf
  obtain ⟨fl, hfl, rfl⟩ := hf
  rw [hfs, List.mem_flatMap] at hfl
  obtain ⟨y, hy, hfy⟩ := hfl
  have hact : isAct y = true := by
    unfold slotRecs at hfy
    by_cases ha : isAct y = true
    · exact ha
    · rw [if_neg ha] at hfy; cases hfy
  refine ⟨y, hy, ?_⟩
  rcases hroot.slots y hy with (h0 | ⟨hst, _⟩) | ⟨hd, hsub⟩
  · unfold isAct at hact; rw [h0] at hact; simp at hact
  · left
    obtain ⟨f, hrf, hgy, _, _⟩ := slot_file_rec hinv v fsL ch hread htree y hy hst
    rw [hgy, List.mem_singleton] at hfy
    subst hfy
    exact ⟨hst, hrf⟩
  · right
    refine ⟨hd, ?_⟩
    obtain ⟨z, hz⟩ := hall y hy hact
    obtain ⟨sch, hc', hnl, hgeo, _, _, _, _, _, hslots⟩ := hsub.chain
    obtain ⟨fs, sch', hzeq, _, _, _, _, _, hfsub, hallsub, _⟩ := dir_slot_facts hd hz hgeo
    have hgy : slotRecs 69 r (hdrTotal r) [] 0 y = z := by unfold slotRecs; rw [if_pos hact, hz]; rfl
    rw [hgy, hzeq] at hfy
    rcases List.mem_cons.mp hfy with e | hfy'
    · left; rw [e]; show (baseRec y.1 []).path = _; exact baseRec_path_root _
    · right
      have hse : sch' = sch := by
        have := dir_slot_facts hd hz hgeo
        obtain ⟨_, s2, he2, hc2, _⟩ := this
        rw [hzeq] at he2
        injection he2 with h1 h2
        have : dirRec y.1 [] sch' = dirRec y.1 [] s2 := (Prod.mk.inj h1).1
        have hs2 : sch' = s2 := by
          have := congrArg FileRec.owned this
          exact this
        rw [hs2]; rw [hc'] at hc2; injection hc2 with e; exact e.symm
      subst hse
      rw [hfsub, List.mem_flatMap] at hfy'
      obtain ⟨y', hy', hfy''⟩ := hfy'
      have hact' : isAct y' = true := by
        unfold slotRecs at hfy''
        by_cases ha : isAct y' = true
        · exact ha
        · rw [if_neg ha] at hfy''; cases hfy''
      have hst' : y'.1.getD 0 0 / 16 = 1 ∨ y'.1.getD 0 0 / 16 = 2 ∨ y'.1.getD 0 0 / 16 = 3 := by
        rcases hslots y' hy' with h0 | ⟨h, _⟩
        · unfold isAct at hact'; rw [h0] at hact'; simp at hact'
        · exact h
      obtain ⟨zy, hzy⟩ := hallsub y' hy' hact'
      obtain ⟨g, hzg, hrg, _⟩ := RE_file 68 r (hdrTotal r) _ 1 y' zy hst' hzy
      unfold slotRecs at hfy''
      rw [if_pos hact', hzy, hzg] at hfy''
      simp only [okD, List.mem_singleton] at hfy''
      rw [hfy'']
      show 47 ∈ g.path
      obtain ⟨hp, _⟩ := readFile_rec_fields r (hdrTotal r) y'.1 _ g hrg
      rw [hp]
      have hbp : ∀ pfx : Bytes, pfx.isEmpty = false → (baseRec y'.1 pfx).path = pfx ++ [47] ++ trimName y'.1 := by
        intro pfx h; unfold baseRec; simp [h]
      -- the prefix is the directory's name, which is not empty
      obtain ⟨b, hb, k, hk13, hkey, rfl⟩ := mem_dirSlots.mp hy
      have hbl : b < r.units.size := by rw [← hinv.size]; exact (hchf b hb).1
      have hl : (entryAt (unitAt r b) k 39).length = 39 := entryAt_length _ _ (by rw [(hinv.shape.unit hbl).1]; omega)
      have hne : ((baseRec (entryAt (unitAt r b) k 39) []).path).isEmpty = false := by
        rw [baseRec_path_root]
        unfold trimName slice
        have hm := Nat.mod_lt ((entryAt (unitAt r b) k 39).getD 0 0) (by decide : 16 > 0)
        cases hcs : List.take ((entryAt (unitAt r b) k 39).getD 0 0 % 16) (List.drop 1 (entryAt (unitAt r b) k 39)) with
        | nil =>
          have := congrArg List.length hcs
          rw [List.length_take, List.length_drop, hl] at this
          simp only [List.length_nil] at this
          simp only at hnl
          omega
        | cons a l => rfl
      rw [hbp _ hne]
      simp

/-- **what the search does not find, the reader does not list**: if no slot of the volume directory holds an active entry
matching the valid name `nn` among all storage types, the reading has no record with the path `upper nn` -/
theorem path_not_listed {r : Raw} (hinv : Inv r) (v : Vol) (fsL : List LRec) (ch : List Nat)
    (hread : Read.ProdosT.read r = .ok v) (htree : readTree r (hdrTotal r) = .ok (fsL, ch)) (nn : Bytes)
    (hv : isNameValid nn = true) (hnone : (dirSlots r 2 ch).find? (isHit allTypes nn) = none) : upper nn ∉ v.paths := by
  intro hp
  unfold Vol.paths at hp
  rw [List.mem_map] at hp
  obtain ⟨f, hf, hfp⟩ := hp
  obtain ⟨y, hy, hcase⟩ := rec_of_slot hinv v fsL ch hread htree f hf
  obtain ⟨_, _, _, _, _, _, _, hchf, _, _, _, _, _⟩ := root_chain_facts hinv v fsL ch hread htree
  obtain ⟨b, hb, k, hk13, hkey, rfl⟩ := mem_dirSlots.mp hy
  have hbl : b < r.units.size := by rw [← hinv.size]; exact (hchf b hb).1
  have hsh := hinv.shape.unit hbl
  have hl : (entryAt (unitAt r b) k 39).length = 39 := entryAt_length _ _ (by rw [hsh.1]; omega)
  have h256 : (entryAt (unitAt r b) k 39).getD 0 0 < 256 := getD_lt_of_bytes _ _ (entryAt_bytes _ _ hsh.2)
  have hcontra : trimName (entryAt (unitAt r b) k 39) = upper nn → (entryAt (unitAt r b) k 39).getD 0 0 / 16 ∈ allTypes →
      0 < (entryAt (unitAt r b) k 39).getD 0 0 → False := by
    intro hname hty hpos
    have hm := isFileMatch_of_trim allTypes nn _ hl hv hty h256 hname
    have hact : Ent.isActive (entryAt (unitAt r b) k 39) = true := by
      unfold Ent.isActive Ent.storLen
      simp only [gt_iff_lt, decide_eq_true_eq]
      exact hpos
    have := List.find?_eq_none.mp hnone _ hy
    unfold isHit at this
    simp only [hact, hm, Bool.and_self, not_true_eq_false] at this
  rcases hcase with ⟨hst, hrf⟩ | ⟨hd, hpath⟩
  · apply hcontra
    · rw [← hfp, (old_fields r (hdrTotal r) _ f hrf).1]
    · unfold allTypes stSeedling stSapling stTree stSubDirEntry
      simp only at hst
      rcases hst with h | h | h <;> rw [h] <;> simp
    · simp only at hst; omega
  · rcases hpath with hp | hp
    · apply hcontra
      · rw [← hfp, hp]
      · unfold allTypes stSeedling stSapling stTree stSubDirEntry
        simp only at hd
        rw [hd]; simp
      · simp only at hd; omega
    · rw [hfp] at hp
      exact isNameValid_no_slash nn hv hp

/-- the first part of `rename`: `ok_to_rename` on a path into the volume directory -/
theorem okToRename_root {d : Disk} {bm cnt : Nat} {ch : List Nat} (c : RootCtx d bm cnt ch) (path nm newName : Bytes)
    (hnodes : normalizePath (volName (hdrOf d.raw)) path = .ok [volName (hdrOf d.raw), nm]) (hnm : nm ≠ []) :
    okToRename path newName d =
      (if !isNameValid newName then .error .syntax
       else match (dirSlots d.raw 2 ch).find? (isHit allTypes newName) with
         | some _ => .error .duplicateFilename
         | none => .ok (), d) := by
  unfold okToRename
  by_cases hv : isNameValid newName = true
  · simp only [hv, Bool.not_true, Bool.false_eq_true, ↓reduceIte, bind_def]
    rw [bind_ok _ _ d d _ (getVolHeader_root c)]
    have hlift : M.lift (splitPath (volName (hdrOf d.raw)) path) d = (.ok (47 :: volName (hdrOf d.raw), nm), d) := by
      unfold M.lift; rw [splitPath_root _ path nm hnodes hnm]
    rw [bind_ok _ _ d d _ hlift]
    simp only []
    rw [bind_ok _ _ d d _ (attempt_ok _ d d _ (findDirKeyBlock_vol c))]
    simp only []
    unfold M.bind
    rw [show volKeyBlock = 2 from rfl, searchEntries_root c allTypes newName]
    simp only [hv, Bool.not_true, Bool.false_eq_true, ↓reduceIte]
    cases (dirSlots d.raw 2 ch).find? (isHit allTypes newName) with
    | some x => rfl
    | none => rfl
  · have hv' : isNameValid newName = false := by simpa using hv
    simp [hv', M.fail]

/-- `modify` with a new name on an entry whose rename bit is clear: `WRITE PROTECTED`, nothing written -/
theorem modify_protected {d : Disk} {bm cnt : Nat} {ch : List Nat} (c : RootCtx d bm cnt ch)
    (B k : Nat) (hB : B ∈ ch) (hk13 : k < 13) (hkey : B = 2 → 1 ≤ k) (newName : Bytes)
    (hbit : Ent.access (entryAt (unitAt d.raw B) k 39) &&& 0x40 = 0) :
    Fs.Prodos.modify { block := B, idx := k + 1 } none (some newName) none none d = (.error .writeProtected, d) := by
  have hBsz : B < d.raw.units.size := c.chain.exists B hB
  unfold Fs.Prodos.modify
  simp only [bind_def]
  rw [bind_ok _ _ d d _ (getDirectory_st c.st B (unitAt d.raw B) (c.nb B hB) (units_get_unitAt _ _ hBsz))]
  show M.bind (M.ofOption (Dir.getEntry _ (k + 1))) _ d = _
  rw [getEntry_slot c.kinds B k hB hk13 hkey, bind_ok _ _ d d _ (ofOption_some _ d)]
  rw [if_pos ⟨hbit, rfl⟩]
  rfl

/-- **`rename(path, newName)` refines the abstract `rename`** (files of the volume directory) -/
theorem rename_refines' {d : Disk} (hs : SInv d) (path nm newName : Bytes)
    (hnodes : normalizePath (volName (hdrOf d.raw)) path = .ok [volName (hdrOf d.raw), nm]) (hnm : nm ≠ [])
    (hnv : NotVol (volName (hdrOf d.raw)) path)
    (hnodir : ∀ ch, IsChain d.raw 2 ch → isNameValid nm = true → (dirSlots d.raw 2 ch).find? (isHit [stSubDirEntry] nm) = none) :
    Refines d (Fs.Prodos.rename path newName d) (.rename (upper nm) (upper newName)) := by
  obtain ⟨v, fsL, ch, hr, ht, c, hts, heff, hbsz, hbok⟩ := hs.ctx
  obtain ⟨hw, hn, hroot, hvv, hc, hic, hnd, hchf, h2, h6, h3, hbt, hstv⟩ := root_chain_facts hs.inv v fsL ch hr ht
  have hok := okToRename_root c path nm newName hnodes hnm
  -- refusals of `ok_to_rename`
  by_cases hvn : isNameValid newName = true
  case neg =>
    have hvn' : isNameValid newName = false := by simpa using hvn
    have hrun : Fs.Prodos.rename path newName d = (.error .syntax, d) := by
      unfold Fs.Prodos.rename; simp only [bind_def]; unfold M.bind; rw [hok, hvn']; rfl
    rw [hrun]; exact refines_refused hs _ _
  simp only [hvn, Bool.not_true, Bool.false_eq_true, ↓reduceIte] at hok
  cases hdup : (dirSlots d.raw 2 ch).find? (isHit allTypes newName) with
  | some y =>
    rw [hdup] at hok
    have hrun : Fs.Prodos.rename path newName d = (.error .duplicateFilename, d) := by
      unfold Fs.Prodos.rename; simp only [bind_def]; unfold M.bind; rw [hok]
    rw [hrun]; exact refines_refused hs _ _
  | none =>
  rw [hdup] at hok
  have hnotfound : (isNameValid nm = false ∨ (dirSlots d.raw 2 ch).find? (isHit fileTypes nm) = none) →
      Refines d (Fs.Prodos.rename path newName d) (.rename (upper nm) (upper newName)) := by
    intro hnone
    obtain ⟨e, he⟩ := findFile_fail c path nm hnodes hnm hnone
    have hep : e ≠ .panic := by
      rw [findFile_root' c path nm hnodes hnm] at he
      unfold rootSearch at he
      intro hp; subst hp
      split at he
      · cases he
      · split at he <;> cases he
    have hdk : findDirKeyBlock path d = (.error .pathNotFound, d) := findDirKeyBlock_nodir c path nm hnodes hnm hnv (hnodir ch hic)
    have hrun : Fs.Prodos.rename path newName d = (.error .pathNotFound, d) := by
      unfold Fs.Prodos.rename; simp only [bind_def]
      rw [bind_ok _ _ d d _ hok, bind_ok _ _ d d _ (attempt_err _ d d e he hep)]
      simp only []
      rw [bind_ok _ _ d d _ (attempt_err _ d d _ hdk (by decide))]
      rfl
    rw [hrun]; exact refines_refused hs _ _
  by_cases hv : isNameValid nm = true
  case neg =>
    have hv' : isNameValid nm = false := by simpa using hv
    exact hnotfound (Or.inl hv')
  cases hx : (dirSlots d.raw 2 ch).find? (isHit fileTypes nm) with
  | none => exact hnotfound (Or.inr hx)
  | some x =>
  obtain ⟨B, k, hB, hk13, hkey, hxe, hst, hname, hl0, hb0, hua0, _⟩ := found_slot hs v fsL ch hr ht nm hv x hx
  subst hxe
  have hprefix : ∀ (res : R Unit) (d1 : Disk),
      Fs.Prodos.modify { block := B, idx := k + 1 } none (some newName) none none d = (res, d1) →
      Fs.Prodos.rename path newName d = (res, d1) := by
    intro res d1 hm
    unfold Fs.Prodos.rename; simp only [bind_def]
    rw [bind_ok _ _ d d _ hok, bind_ok _ _ d d _ (attempt_ok _ d d _ (findFile_found c path nm hnodes hnm hv _ hx))]
    exact hm
  by_cases hbit : Ent.access (entryAt (unitAt d.raw B) k 39) &&& 0x40 = 0
  · rw [hprefix _ _ (modify_protected c B k hB hk13 hkey newName hbit)]
    exact refines_refused hs _ _
  · -- the successful case
    obtain ⟨hn1, hn15⟩ := isNameValid_len newName hvn
    have hgd := fun j => renameEntry_getD (entryAt (unitAt d.raw B) k 39) newName j hl0 hn15
    have hlen' := renameEntry_length (entryAt (unitAt d.raw B) k 39) newName hl0 hn15
    obtain ⟨htrim', hst', h256'⟩ := renameEntry_trim (entryAt (unitAt d.raw B) k 39) newName hl0 hvn hst
    have hbytes' : ∀ y ∈ Ent.rename (entryAt (unitAt d.raw B) k 39) newName, y < 256 := by
      intro y hy
      obtain ⟨j, hj, rfl⟩ := List.getElem_of_mem hy
      have hg : (Ent.rename (entryAt (unitAt d.raw B) k 39) newName).getD j 0 = (Ent.rename (entryAt (unitAt d.raw B) k 39) newName)[j] := by
        simp only [List.getD_eq_getElem?_getD]; rw [List.getElem?_eq_getElem hj]; rfl
      rw [← hg]
      by_cases hj0 : j = 0
      · subst hj0; exact h256'
      · rw [hgd j, if_neg hj0]
        split
        · exact getD_lt_of_bytes _ _ (nameField_bytes newName hvn)
        · exact getD_lt_of_bytes _ _ hb0
    have hfresh := path_not_listed hs.inv v fsL ch hr ht newName hvn hdup
    obtain ⟨d1, d4, v4, f, FA, FB, hmod, hfl, hs4, hr4, hrf, hf1, hf4, hw4, hw', hlab⟩ :=
      modify_found hs v fsL ch hr ht B k hB hk13 hkey hst none (some newName) none none (by simp)
        (by intro h; exact hbit h.1)
        (Ent.rename (entryAt (unitAt d.raw B) k 39) newName) rfl hlen' hbytes'
        (sameBlocks_of_bytes _ _ hst' (fun j h1 h2 => by rw [hgd j, if_neg (by omega), if_neg (by omega)]))
        (by rw [hgd 30, if_neg (by omega), if_neg (by omega)]; exact hua0)
        (by rw [htrim']; exact isNameValid_no_slash newName hvn)
        (fun f' _ => Or.inr (by rw [baseRec_path_root, htrim']; exact hfresh))
    rw [hprefix _ _ hmod]
    refine ⟨d4, v, v4, hfl, hs4, hr, hr4, ?_, hlab⟩
    obtain ⟨o1, o2, o3, o4, o5, o6⟩ := old_fields _ _ _ f hrf
    obtain ⟨n1, n2, n3, n4, n5, n6, n7, n8⟩ := reRec_fields (Ent.rename (entryAt (unitAt d.raw B) k 39) newName) f
    have hi : FA.length < v.files.length := by rw [hf1]; simp
    have hget : v.files[FA.length] = f := by simp only [hf1]; exact getElem_mid FA FB f (by simp)
    have ha : (entryAt (unitAt d.raw B) k 39).getD 30 0 < 256 := getD_lt_of_bytes _ _ hb0
    have hunlocked : readerLocked ((entryAt (unitAt d.raw B) k 39).getD 30 0) = false :=
      ((uniform_locked ⟨_, ha⟩ hua0).2).mpr hbit
    apply stepOk_rename_of hw hw4 hi (by rw [hget, o1, hname]) (by rw [hget, o4]; exact hunlocked) hfresh
      (by rw [hf4, hf1, set_mid]) (by rw [n1, htrim'])
    rw [hget]
    refine ⟨n6, ?_, n7, ?_, by rw [n8, o6]⟩
    · rw [n5, o5]; unfold le24 le16
      rw [hgd 21, hgd 22, hgd 23, if_neg (by omega), if_neg (by omega), if_neg (by omega), if_neg (by omega),
        if_neg (by omega), if_neg (by omega)]
    · rw [n4, o4, hgd 30, if_neg (by omega), if_neg (by omega)]

end A2Verif.FsProdos
