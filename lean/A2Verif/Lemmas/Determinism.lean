import A2Verif.Model.Determinism
/-!
Helper lemmas for C20: sorting removes the dependence on the iteration order of a hash container, and a fold
over at most two claimants does not depend on their order if the two orders agree.  Core Lean only.
-/
namespace A2Verif.Lemmas.Determinism
open A2Verif.Model.Determinism

/-- **The general lemma.**  Sorting two permutations of one list with a transitive, total comparison that is
antisymmetric *on the elements of the list* gives the same list.  (For map entries compared by key the last
condition is "keys are distinct".) -/
theorem mergeSort_eq_of_perm {α : Type} (le : α → α → Bool) {l₁ l₂ : List α}
    (trans : ∀ a b c : α, le a b → le b c → le a c)
    (total : ∀ a b : α, le a b || le b a)
    (antisymm : ∀ a b : α, a ∈ l₁ → b ∈ l₁ → le a b → le b a → a = b)
    (h : l₁.Perm l₂) : l₁.mergeSort le = l₂.mergeSort le := by
  have p₁ := List.mergeSort_perm l₁ le
  have p₂ := List.mergeSort_perm l₂ le
  apply List.Perm.eq_of_pairwise (le := fun a b => le a b = true)
  · intro a b ha hb hab hba
    have ha' : a ∈ l₁ := (List.mergeSort_perm l₁ le).mem_iff.mp ha
    have hb' : b ∈ l₁ := h.mem_iff.mpr ((List.mergeSort_perm l₂ le).mem_iff.mp hb)
    exact antisymm a b ha' hb' hab hba
  · exact List.pairwise_mergeSort trans total l₁
  · exact List.pairwise_mergeSort trans total l₂
  · exact p₁.trans (h.trans p₂.symm)

/-- plain version for keys: sorting two permutations of a list of naturals gives equal lists -/
theorem sortNat_eq_of_perm {l₁ l₂ : List Nat} (h : l₁.Perm l₂) :
    l₁.mergeSort (fun a b => decide (a ≤ b)) = l₂.mergeSort (fun a b => decide (a ≤ b)) := by
  apply mergeSort_eq_of_perm _ _ _ _ h
  · intro a b c hab hbc; simp at *; omega
  · intro a b; simp; omega
  · intro a b _ _ hab hba; simp at *; omega

/-! ### the model's insertion sort is a sorting function -/

theorem insertBy_perm {α : Type} (le : α → α → Bool) (a : α) (l : List α) : (insertBy le a l).Perm (a :: l) := by
  induction l with
  | nil => exact List.Perm.refl _
  | cons b bs ih =>
    simp only [insertBy]
    split
    · exact List.Perm.refl _
    · exact (List.Perm.cons b ih).trans (List.Perm.swap a b bs)

theorem isort_perm {α : Type} (le : α → α → Bool) (l : List α) : (isort le l).Perm l := by
  induction l with
  | nil => exact List.Perm.refl _
  | cons a as ih => exact (insertBy_perm le a _).trans (List.Perm.cons a ih)

theorem pairwise_insertBy {α : Type} (le : α → α → Bool)
    (trans : ∀ a b c : α, le a b → le b c → le a c) (total : ∀ a b : α, le a b || le b a)
    (a : α) (l : List α) (h : l.Pairwise (fun x y => le x y = true)) :
    (insertBy le a l).Pairwise (fun x y => le x y = true) := by
  induction l with
  | nil => simp [insertBy]
  | cons b bs ih =>
    simp only [insertBy]
    have hb := List.pairwise_cons.mp h
    split
    · rename_i hab
      apply List.pairwise_cons.mpr
      refine ⟨?_, h⟩
      intro x hx
      rcases List.mem_cons.mp hx with rfl | hx'
      · exact hab
      · exact trans a b x hab (hb.1 x hx')
    · rename_i hab
      have hba : le b a = true := by
        have := total a b
        simp only [Bool.or_eq_true] at this
        rcases this with h1 | h1
        · exact absurd h1 hab
        · exact h1
      apply List.pairwise_cons.mpr
      refine ⟨?_, ih hb.2⟩
      intro x hx
      have : x ∈ a :: bs := (insertBy_perm le a bs).mem_iff.mp hx
      rcases List.mem_cons.mp this with rfl | hx'
      · exact hba
      · exact hb.1 x hx'

theorem pairwise_isort {α : Type} (le : α → α → Bool)
    (trans : ∀ a b c : α, le a b → le b c → le a c) (total : ∀ a b : α, le a b || le b a)
    (l : List α) : (isort le l).Pairwise (fun x y => le x y = true) := by
  induction l with
  | nil => simp [isort]
  | cons a as ih => exact pairwise_insertBy le trans total a _ ih

/-- the general lemma for the model's sort, and: it computes what `List.mergeSort` computes -/
theorem isort_eq_of_perm {α : Type} (le : α → α → Bool) {l₁ l₂ : List α}
    (trans : ∀ a b c : α, le a b → le b c → le a c)
    (total : ∀ a b : α, le a b || le b a)
    (antisymm : ∀ a b : α, a ∈ l₁ → b ∈ l₁ → le a b → le b a → a = b)
    (h : l₁.Perm l₂) : isort le l₁ = isort le l₂ := by
  apply List.Perm.eq_of_pairwise (le := fun a b => le a b = true)
  · intro a b ha hb hab hba
    exact antisymm a b ((isort_perm le l₁).mem_iff.mp ha) (h.mem_iff.mpr ((isort_perm le l₂).mem_iff.mp hb)) hab hba
  · exact pairwise_isort le trans total l₁
  · exact pairwise_isort le trans total l₂
  · exact (isort_perm le l₁).trans (h.trans (isort_perm le l₂).symm)

theorem isort_eq_mergeSort {α : Type} (le : α → α → Bool) (l : List α)
    (trans : ∀ a b c : α, le a b → le b c → le a c)
    (total : ∀ a b : α, le a b || le b a)
    (antisymm : ∀ a b : α, a ∈ l → b ∈ l → le a b → le b a → a = b) : isort le l = l.mergeSort le := by
  apply List.Perm.eq_of_pairwise (le := fun a b => le a b = true)
  · intro a b ha hb hab hba
    exact antisymm a b ((isort_perm le l).mem_iff.mp ha) ((List.mergeSort_perm l le).mem_iff.mp hb) hab hba
  · exact pairwise_isort le trans total l
  · exact List.pairwise_mergeSort trans total l
  · exact (isort_perm le l).trans (List.mergeSort_perm l le).symm

theorem sortKeys_eq_of_perm {l₁ l₂ : List Nat} (h : l₁.Perm l₂) : sortKeys l₁ = sortKeys l₂ := by
  unfold sortKeys
  apply isort_eq_of_perm natLe _ _ _ h
  · intro a b c hab hbc; simp [natLe] at *; omega
  · intro a b; simp [natLe]; omega
  · intro a b _ _ hab hba; simp [natLe] at *; omega

/-- entries of a map (distinct keys) with the same key are the same entry -/
theorem entry_eq_of_key_eq {l : List (Nat × List Nat)} (nd : (l.map (·.1)).Nodup) :
    ∀ a b, a ∈ l → b ∈ l → a.1 = b.1 → a = b := by
  induction l with
  | nil => intro a b ha; cases ha
  | cons x xs ih =>
    intro a b ha hb hk
    simp only [List.map_cons, List.nodup_cons] at nd
    have hx : ∀ y, y ∈ xs → y.1 ≠ x.1 := by
      intro y hy heq
      exact nd.1 (heq ▸ List.mem_map_of_mem hy)
    rcases List.mem_cons.mp ha with rfl | ha' <;> rcases List.mem_cons.mp hb with rfl | hb'
    · rfl
    · exact absurd hk.symm (hx _ hb')
    · exact absurd hk (hx _ ha')
    · exact ih nd.2 a b ha' hb' hk

/-- two iteration sequences of one map (permutations of each other, keys distinct) have the same ascending
order -/
theorem sortEntries_eq_of_perm {π₁ π₂ : List (Nat × List Nat)} (nd : (π₁.map (·.1)).Nodup) (h : π₁.Perm π₂) :
    sortEntries π₁ = sortEntries π₂ := by
  unfold sortEntries
  apply isort_eq_of_perm keyLe _ _ _ h
  · intro a b c hab hbc; simp [keyLe] at *; omega
  · intro a b; simp [keyLe]; omega
  · intro a b ha hb hab hba
    apply entry_eq_of_key_eq nd a b ha hb
    simp [keyLe] at hab hba; omega

/-- a permutation of a two-element list is that list or its swap -/
theorem perm_pair {α : Type} {a b : α} {l : List α} (h : l.Perm [a, b]) : l = [a, b] ∨ l = [b, a] := by
  have hl := h.length_eq
  match l, hl with
  | [p, q], _ =>
    have hp : p ∈ [a, b] := h.mem_iff.mp (by simp)
    simp only [List.mem_cons, List.not_mem_nil, or_false] at hp
    rcases hp with rfl | rfl
    · have := List.Perm.cons_inv h
      simp at this
      left; rw [this]
    · have h2 : [p, q].Perm [p, a] := h.trans (List.Perm.swap p a [])
      have := List.Perm.cons_inv h2
      simp at this
      right; rw [this]

/-- if the claimants of an opcode satisfy `okClaimants`, every visiting order of them gives the same winner -/
theorem dasmWinner_eq_of_perm (prefer : List (Nat × Nat)) {l m : List (Nat × Nat)} (ok : okClaimants prefer m = true)
    (h : l.Perm m) : dasmWinner prefer l = dasmWinner prefer m := by
  match m, ok with
  | [], _ => simp at h; rw [h]
  | [x], _ => simp at h; rw [h]
  | [a, b], ok =>
    rcases perm_pair h with rfl | rfl
    · rfl
    · simp only [okClaimants, beq_iff_eq] at ok
      exact ok.symm

/-- the claims met for one opcode under two visiting orders of the mnemonics are permutations of each other -/
theorem proposalsFor_perm (claims : List (Nat × Nat)) {π₁ π₂ : List Nat} (h : π₁.Perm π₂) (code : Nat) :
    (proposalsFor claims π₁ code).Perm (proposalsFor claims π₂ code) := by
  unfold proposalsFor
  exact (List.Perm.flatMap_right _ h).filter _

/-- order independence of the whole map from the table condition -/
theorem dasmMapWith_eq_of_perm (claims prefer : List (Nat × Nat)) (n : Nat) (ok : tableOk claims prefer n = true)
    {π : List Nat} (h : π.Perm (List.range n)) (code : Nat) (hc : code < 256) :
    dasmMapWith claims prefer π code = dasmMapWith claims prefer (List.range n) code := by
  unfold dasmMapWith
  apply dasmWinner_eq_of_perm prefer _ (proposalsFor_perm claims h code)
  simp only [tableOk, List.all_eq_true, List.mem_range] at ok
  exact ok code hc

end A2Verif.Lemmas.Determinism
