import A2Verif.Lemmas.FsFatRoot
import A2Verif.Lemmas.FsDosAbs
/-!
# The invariant of the concrete FAT model, and the refinement of the attribute operations on root-level files

`Inv d`: repaired variant (`labelFiles = false`), `Geo`, `Coh`, a root directory whose live entries are no long-name
parts, no dot entries, and are named so that a2kit's key and the reader's name agree (`NameGood`), and the total reader
reads the image into a well-formed, leak-free volume.  `volOf d` is that reading.

`attr_step`: an attribute-only change (`lock`, `unlock`, `retype sys/reg/hid/vis`) of a root-level file, as the model
performs it (root read, map built, key looked up, entry re-written, FAT flushed), re-establishes `Inv` and changes the
reading in exactly one record: same path, chunks, length, clusters; `access`/`locked` from the new attribute byte.
-/
namespace A2Verif.FsFat
open A2Verif A2Verif.Fs.Fat A2Verif.Read.Fat A2Verif.Read.FatT

/-! ## bits -/

theorem and_bit (a k : Nat) : a &&& 2 ^ k = if (a / 2 ^ k) % 2 = 1 then 2 ^ k else 0 := by
  apply Nat.eq_of_testBit_eq
  intro i
  rw [Nat.testBit_and, Nat.testBit_two_pow]
  by_cases h : k = i
  · subst h
    by_cases c : a / 2 ^ k % 2 = 1
    · have : 2 ^ k / 2 ^ k = 1 := Nat.div_self (Nat.two_pow_pos k)
      simp [c, Nat.testBit_eq_decide_div_mod_eq, this]
    · simp [c, Nat.testBit_eq_decide_div_mod_eq]
  · by_cases c : a / 2 ^ k % 2 = 1
    · simp [c, h, Nat.testBit_two_pow]
    · simp [c, h]

theorem and8 (a : Nat) : (a &&& 8 > 0) ↔ (a / 8) % 2 = 1 := by
  have := and_bit a 3
  have e : (2:Nat)^3 = 8 := rfl
  rw [e] at this
  rw [this]
  split <;> simp_all

theorem and16 (a : Nat) : (a &&& 16 > 0) ↔ (a / 16) % 2 = 1 := by
  have := and_bit a 4
  have e : (2:Nat)^4 = 16 := rfl
  rw [e] at this
  rw [this]
  split <;> simp_all

theorem and15 (a : Nat) : a &&& 15 = a % 16 := Nat.and_two_pow_sub_one_eq_mod a 4

theorem bit_of_testBit (x k : Nat) : (x / 2 ^ k) % 2 = (if x.testBit k then 1 else 0) := by
  rw [Nat.testBit_eq_decide_div_mod_eq]
  by_cases c : x / 2 ^ k % 2 = 1
  · simp [c]
  · simp [c]; omega

/-- the new attribute byte of an attribute operation: `((a | s) & !m) | ARCHIVE` -/
def newAttr (a s m : Nat) : Nat := ((a ||| s) &&& (255 - m)) ||| 32

theorem newAttr_bit (a s m k : Nat) (hs : s.testBit k = false) (hm : (255 - m).testBit k = true) (h32 : (32 : Nat).testBit k = false) :
    (newAttr a s m / 2 ^ k) % 2 = (a / 2 ^ k) % 2 := by
  rw [bit_of_testBit, bit_of_testBit]
  unfold newAttr
  rw [Nat.testBit_or, Nat.testBit_and, Nat.testBit_or, hs, hm, h32]
  simp

/-! ## the attribute byte of an entry -/

theorem setAttrField_spec {e : Bytes} (he : e.length = 32) (a : Nat) :
    (Entry.setAttrField e a).length = 32 ∧ (Entry.setAttrField e a).take 11 = e.take 11 ∧
      (Entry.setAttrField e a).getD 11 0 = a ∧ ∀ i, i ≠ 11 → (Entry.setAttrField e a).getD i 0 = e.getD i 0 := by
  unfold Entry.setAttrField splice
  simp only [List.length_cons, List.length_nil]
  refine ⟨by simp; omega, ?_, ?_, ?_⟩
  · rw [List.append_assoc, List.take_append_of_le_length (by simp; omega), List.take_take]
    simp
  · simp [List.getD_eq_getElem?_getD, List.getElem?_append, he]
  · intro i hi
    have hl : (e.take 11 ++ [a]).length = 12 := by simp; omega
    simp only [List.getD_eq_getElem?_getD]
    congr 1
    by_cases c : i < 11
    · rw [List.getElem?_append_left (by rw [hl]; omega), List.getElem?_append_left (by simp; omega), List.getElem?_take]
      simp [c]
    · rw [List.getElem?_append_right (by rw [hl]; omega), hl, List.getElem?_drop]
      congr 1
      omega

theorem entName_congr {e e' : Bytes} (h : e.take 11 = e'.take 11) : entName e = entName e' := by
  have h8 : slice e 0 8 = slice e' 0 8 := by
    unfold slice
    have : ∀ x : Bytes, (x.drop 0).take 8 = (x.take 11).take 8 := by intro x; rw [List.take_take]; simp
    rw [this, this, h]
  have h3 : slice e 8 3 = slice e' 8 3 := by
    unfold slice
    have : ∀ x : Bytes, (x.drop 8).take 3 = (x.take 11).drop 8 := by intro x; rw [List.drop_take]
    rw [this, this, h]
  unfold entName
  rw [h8, h3]

theorem fileNameToSplit_congr {e e' : Bytes} (h : e.take 11 = e'.take 11) : fileNameToSplit e = fileNameToSplit e' := by
  have h8 : e.take 8 = e'.take 8 := by
    have : ∀ x : Bytes, x.take 8 = (x.take 11).take 8 := by intro x; rw [List.take_take]; simp
    rw [this e, this e', h]
  have h3 : (e.drop 8).take 3 = (e'.drop 8).take 3 := by
    have : ∀ x : Bytes, (x.drop 8).take 3 = (x.take 11).drop 8 := by intro x; rw [List.drop_take]
    rw [this, this, h]
  unfold fileNameToSplit isDot isDotDot
  rw [h, h8, h3]

/-! ## the invariant -/

/-- a2kit's key of the entry and the reader's name of it agree, neither part contains a dot, and a directory has a
non-empty name (the reader lists the files of a directory without a name as if they were in its parent), and no part
contains a slash (the reader's paths are slash-separated) -/
def NameGood (e : Bytes) : Prop :=
  ∃ nm ty, fileNameToSplit e = some (nm, ty) ∧ entName e = (if ty = [] then nm else nm ++ [46] ++ ty) ∧ 46 ∉ nm ∧ 46 ∉ ty ∧
    ((e.getD 11 0 / 16) % 2 = 1 → entName e ≠ []) ∧ 47 ∉ nm ∧ 47 ∉ ty

/-- after the first end-of-directory mark (first name byte 0) every entry is an end mark: what `format`, `create` and
`expand_directory` establish by zeroing, and no operation destroys (`delete` marks with 0xE5, never with 0) -/
def TailZero (E : List Bytes) : Prop :=
  ∀ (i j : Nat) (e1 e2 : Bytes), i < j → E[i]? = some e1 → E[j]? = some e2 → e1.getD 0 0 = 0 → e2.getD 0 0 = 0

/-- replacing an entry before which no end mark lies by one that is no end mark keeps `TailZero` -/
theorem tailZero_set {E : List Bytes} (h : TailZero E) {idx : Nat} {e' : Bytes} (hb : ∀ i x, i < idx → E[i]? = some x → x.getD 0 0 ≠ 0)
    (he : e'.getD 0 0 ≠ 0) : TailZero (E.set idx e') := by
  intro i j e1 e2 hij h1 h2 hz
  rw [List.getElem?_set] at h1 h2
  by_cases hi : idx = i
  · subst hi
    rw [if_pos rfl] at h1
    split at h1
    · injection h1 with h1
      rw [← h1] at hz
      exact absurd hz he
    · cases h1
  · rw [if_neg hi] at h1
    have hgt : idx < i := by
      by_cases c : i < idx
      · exact absurd hz (hb i e1 c h1)
      · omega
    have hj : ¬ (idx = j) := by omega
    rw [if_neg hj] at h2
    exact h i j e1 e2 hij h1 h2 hz

/-- every entry of the root directory that is in use and is not the volume label is no long-name part, no dot entry,
and is well named -/
def RootOk (d : Disk) : Prop :=
  ∀ e ∈ dirOfBytes (rootBuf d), e.getD 0 0 ≠ 0 → e.getD 0 0 ≠ 0xE5 → entryType e ≠ .volumeLabel →
    e.getD 11 0 % 16 ≠ 15 ∧ e.getD 0 0 ≠ 46 ∧ NameGood e

structure Inv (d : Disk) : Prop where
  lf : d.labelFiles = false
  geo : Geo d
  coh : ∃ f, Coh d f
  root : RootOk d
  tail : TailZero (dirOfBytes (rootBuf d))
  read : ∃ v, readT d.raw = .ok v ∧ v.wfB = true ∧ v.noLeak = true

/-- the abstract volume of a state: what the total reader reads -/
def volOf (d : Disk) : Vol :=
  match readT d.raw with
  | .ok v => v
  | .error _ => default

theorem inv_reads_well_formed {d : Disk} (i : Inv d) :
    readT d.raw = .ok (volOf d) ∧ (volOf d).wfB = true ∧ (volOf d).noLeak = true := by
  obtain ⟨v, h1, h2, h3⟩ := i.read
  have : volOf d = v := by unfold volOf; rw [h1]
  rw [this]
  exact ⟨h1, h2, h3⟩

/-- the parameters of the FAT file system in the abstract specification (`Drv.Fs.fsParams "fat"`) -/
def fatParams : FsParams := { eofRule := id, keepsType := false, keepsAux := false, hasLock := true }

/-- the path under which the reader lists the file that `get_file` finds for the canonical root-level name `p` -/
def absPath (p : Bytes) : Bytes := if (keyOf p).getLast? = some 46 then (keyOf p).dropLast else keyOf p

theorem entName_of_key {e nm ty : Bytes} {p : Bytes} (hn : fileNameToSplit e = some (nm, ty)) (hg : NameGood e)
    (hk : keyOf p = nm ++ [46] ++ ty) : entName e = absPath p := by
  obtain ⟨nm', ty', h1, h2, _, h3, _⟩ := hg
  rw [hn] at h1
  injection h1 with h1
  injection h1 with ha hb
  subst ha hb
  unfold absPath
  rw [hk, h2]
  by_cases c : ty = []
  · subst c
    simp
  · have : (nm ++ [46] ++ ty).getLast? = ty.getLast? := by
      rw [List.getLast?_append]
      cases hl : ty.getLast? with
      | none => exact absurd (List.getLast?_eq_none_iff.mp hl) c
      | some x => rfl
    rw [this]
    have hne : ty.getLast? ≠ some 46 := by
      intro hc
      exact h3 (List.mem_of_getLast? hc)
    simp [c, hne]

/-! ## the run of an attribute operation -/

/-- the entry after `set_attr(set)`, `clear_attr(clear)`, `set_attr(ARCHIVE)` -/
def attrEntry (e : Bytes) (set clear : Option Nat) : Bytes :=
  let e1 := match set with | some m => Entry.setAttr e m | none => e
  let e2 := match clear with | some m => Entry.clearAttr e1 m | none => e1
  Entry.setAttr e2 ARCHIVE

/-- `goto_path(p)` followed by `modify(loc, set, clear, None)`: the common shape of `lock`, `unlock`, `retype` -/
def attrOp (p : Bytes) (set clear : Option Nat) : M Unit := do
  let (parent, fi) ← gotoPath p
  modifyAt parent fi set clear none

theorem lock_eq (p : Bytes) : lock p = attrOp p (some READ_ONLY) none := rfl
theorem unlock_eq (p : Bytes) : unlock p = attrOp p none (some READ_ONLY) := rfl

/-- what the attribute operation does on a state with `Geo`: it fails without touching the state, or it rewrites one
root entry that `build_files` had in its map under the key of `p` -/
theorem attrOp_run {d : Disk} (g : Geo d) {p : Bytes} (a : RootArg p) (set clear : Option Nat) :
    (∃ er, attrOp p set clear d = (.error er, d)) ∨
    ∃ E1 e E2 nm ty, dirOfBytes (rootBuf d) = E1 ++ e :: E2 ∧ (∀ x ∈ E1, entryType x ≠ .freeAndNoMore) ∧ inMap d.labelFiles e ∧
      fileNameToSplit e = some (nm, ty) ∧ keyOf p = nm ++ [46] ++ ty ∧
      attrOp p set clear d = (.ok (), rootWrite d E1.length (attrEntry e set clear)) := by
  unfold attrOp
  rw [M_bind_apply, gotoPath_root g a]
  cases hb : buildFiles d.labelFiles (dirOfBytes (rootBuf d)) with
  | error er => exact Or.inl ⟨er, rfl⟩
  | ok files =>
    simp only []
    cases hl : files.lookup (keyOf p) with
    | none => exact Or.inl ⟨_, rfl⟩
    | some fi =>
      simp only []
      have hbl := buildLoop_lookup d.labelFiles _ 0 0 [] files hb (keyOf p) fi hl
      cases hbl with
      | inl h => simp [List.lookup] at h
      | inr h =>
        obtain ⟨E1, e, E2, nm, ty, hE, hidx, hE1, hin, hn, hk, _⟩ := h
        right
        refine ⟨E1, e, E2, nm, ty, hE, hE1, hin, hn, hk, ?_⟩
        have hidx' : fi.idx = E1.length := by omega
        have hlen : E1.length < (dirOfBytes (rootBuf d)).length := by rw [hE]; simp
        have hent : dirEntry (dirOfBytes (rootBuf d)) E1.length = .ok e := by
          unfold dirEntry
          rw [hE]
          simp
        unfold modifyAt
        simp only [FInfo.root, getDirectory, M_bind_apply, getRootDir_eq g, hidx']
        unfold Fs.Fat.modify
        simp only [M_bind_apply, M.lift, hent, Option.isSome_none, Bool.and_false, Bool.false_eq_true, if_false]
        rw [writebackRoot_eq g hlen]
        rfl

/-! ## the entry an attribute operation writes -/

/-- the new attribute byte: `set_attr(set)`, `clear_attr(clear)`, `set_attr(ARCHIVE)` -/
def newAttrO (a : Nat) (set clear : Option Nat) : Nat :=
  let a1 := match set with | some m => a ||| m | none => a
  let a2 := match clear with | some m => a1 &&& (255 - m) | none => a1
  a2 ||| 32

theorem attrEntry_spec {e : Bytes} (he : e.length = 32) (set clear : Option Nat) :
    (attrEntry e set clear).length = 32 ∧ (attrEntry e set clear).take 11 = e.take 11 ∧
      (attrEntry e set clear).getD 11 0 = newAttrO (e.getD 11 0) set clear ∧
      ∀ i, i ≠ 11 → (attrEntry e set clear).getD i 0 = e.getD i 0 := by
  unfold attrEntry newAttrO
  cases set with
  | none =>
    cases clear with
    | none =>
      simp only [Entry.setAttr, Entry.attr, ARCHIVE]
      exact setAttrField_spec he _
    | some m =>
      simp only [Entry.setAttr, Entry.clearAttr, Entry.attr, ARCHIVE]
      obtain ⟨a1, a2, a3, a4⟩ := setAttrField_spec he (e.getD 11 0 &&& (255 - m))
      obtain ⟨b1, b2, b3, b4⟩ := setAttrField_spec a1 ((Entry.setAttrField e (e.getD 11 0 &&& (255 - m))).getD 11 0 ||| 32)
      refine ⟨b1, by rw [b2, a2], by rw [b3, a3], fun i hi => by rw [b4 i hi, a4 i hi]⟩
  | some s =>
    cases clear with
    | none =>
      simp only [Entry.setAttr, Entry.attr, ARCHIVE]
      obtain ⟨a1, a2, a3, a4⟩ := setAttrField_spec he (e.getD 11 0 ||| s)
      obtain ⟨b1, b2, b3, b4⟩ := setAttrField_spec a1 ((Entry.setAttrField e (e.getD 11 0 ||| s)).getD 11 0 ||| 32)
      refine ⟨b1, by rw [b2, a2], by rw [b3, a3], fun i hi => by rw [b4 i hi, a4 i hi]⟩
    | some m =>
      simp only [Entry.setAttr, Entry.clearAttr, Entry.attr, ARCHIVE]
      obtain ⟨a1, a2, a3, a4⟩ := setAttrField_spec he (e.getD 11 0 ||| s)
      obtain ⟨b1, b2, b3, b4⟩ := setAttrField_spec a1 ((Entry.setAttrField e (e.getD 11 0 ||| s)).getD 11 0 &&& (255 - m))
      obtain ⟨c1, c2, c3, c4⟩ := setAttrField_spec b1
        ((Entry.setAttrField (Entry.setAttrField e (e.getD 11 0 ||| s)) ((Entry.setAttrField e (e.getD 11 0 ||| s)).getD 11 0 &&& (255 - m))).getD 11 0 ||| 32)
      refine ⟨c1, by rw [c2, b2, a2], by rw [c3, b3, a3], fun i hi => by rw [c4 i hi, b4 i hi, a4 i hi]⟩

/-- masks that touch none of the bits 8 (label) and 16 (directory): bit `k ∈ {3,4}` of the attribute byte is kept -/
theorem newAttrO_bit (a : Nat) (set clear : Option Nat) (k : Nat) (hk : k = 3 ∨ k = 4)
    (hs : ∀ m, set = some m → m.testBit k = false) (hc : ∀ m, clear = some m → (255 - m).testBit k = true) :
    (newAttrO a set clear / 2 ^ k) % 2 = (a / 2 ^ k) % 2 := by
  have h32 : (32 : Nat).testBit k = false := by rcases hk with h | h <;> subst h <;> decide
  rw [bit_of_testBit, bit_of_testBit]
  unfold newAttrO
  cases set with
  | none =>
    cases clear with
    | none => simp [Nat.testBit_or, h32]
    | some m => simp [Nat.testBit_or, Nat.testBit_and, h32, hc m rfl]
  | some s =>
    cases clear with
    | none => simp [Nat.testBit_or, h32, hs s rfl]
    | some m => simp [Nat.testBit_or, Nat.testBit_and, h32, hs s rfl, hc m rfl]

/-! ## the reading of an entry whose attribute byte changed -/

theorem fileRec_attr {r : Raw} {b : Read.Fat.Bpb} {fat : Array Nat} {f16 : Bool} {hi : Nat} {path e e' : Bytes} {rec : FileRec}
    (h1 : le16 e' 26 = le16 e 26) (h2 : le32 e' 28 = le32 e 28) (h : fileRec r b fat f16 hi path e = .ok rec) :
    fileRec r b fat f16 hi path e' = .ok { rec with access := e'.getD 11 0, locked := decide (e'.getD 11 0 % 2 = 1) } := by
  unfold fileRec at h ⊢
  dsimp only at h ⊢
  simp only [h1, h2]
  cases hc : fileChain fat f16 hi (le16 e 26) (le32 e 28) with
  | error er => rw [hc] at h; cases h
  | ok cl =>
    rw [hc] at h
    simp only [] at h ⊢
    cases hd : cl.mapM (clusterData r b) with
    | error er => rw [hd] at h; cases h
    | ok datas =>
      rw [hd] at h
      simp only [] at h ⊢
      by_cases hsz : le32 e 28 > cl.length * b.spc * b.bps
      · rw [if_pos hsz] at h; cases h
      · rw [if_neg hsz] at h ⊢
        injection h with h
        rw [← h]

theorem rdEnt_file {r : Raw} {b : Read.Fat.Bpb} {fat : Array Nat} {f16 : Bool} {hi fuel : Nat} {pfx e : Bytes}
    (hd : (e.getD 11 0 / 16) % 2 = 0) :
    rdEnt r b fat f16 hi fuel pfx e = (match fileRec r b fat f16 hi (entPath pfx e) e with
      | .ok f => .ok [f]
      | .error er => .error er) := by
  unfold rdEnt
  have : ¬ ((e.getD 11 0 / 16) % 2 = 1) := by omega
  simp only [this, if_false]
  cases fileRec r b fat f16 hi (entPath pfx e) e <;> rfl

theorem rdEnt_dir_head {r : Raw} {b : Read.Fat.Bpb} {fat : Array Nat} {f16 : Bool} {hi fuel : Nat} {pfx e : Bytes} {y : List FileRec}
    (hd : (e.getD 11 0 / 16) % 2 = 1) (h : rdEnt r b fat f16 hi fuel pfx e = .ok y) :
    ∃ dr sub, y = dr :: sub ∧ dr.path = entPath pfx e ∧ dr.isDir = true := by
  unfold rdEnt at h
  simp only [hd, if_true] at h
  cases hc : chain fat f16 hi (hi + 1) (le16 e 26) [] with
  | error er => rw [hc] at h; simp [bind, Except.bind] at h
  | ok cl =>
    rw [hc] at h
    simp only [bind, Except.bind] at h
    cases hm : cl.mapM (clusterData r b) with
    | error er => rw [hm] at h; simp at h
    | ok datas =>
      rw [hm] at h
      simp only [] at h
      cases hs : readDirT r b fat f16 hi fuel datas.flatten (entPath pfx e) with
      | error er => rw [hs] at h; simp at h
      | ok sub =>
        rw [hs] at h
        simp only [pure, Except.pure] at h
        injection h with h
        exact ⟨_, sub, h.symm, rfl, rfl⟩

theorem entryType_of_E5 {e : Bytes} (h : e.getD 0 0 = 0xe5) : entryType e = .free := by
  unfold entryType
  show (if e.getD 0 0 = 0xe5 then _ else _) = _
  rw [h]; rfl

theorem entryType_of_zero {e : Bytes} (h : e.getD 0 0 = 0) : entryType e = .freeAndNoMore := by
  unfold entryType
  show (if e.getD 0 0 = 0xe5 then _ else if e.getD 0 0 = 0 then _ else _) = _
  rw [h]; rfl

theorem entryType_label {e : Bytes} (h1 : e.getD 0 0 ≠ 0xe5) (h0 : e.getD 0 0 ≠ 0) (hl : ¬ (e.getD 11 0 &&& LONG_NAME ≥ LONG_NAME))
    (hv : e.getD 11 0 &&& VOLUME_ID > 0) : entryType e = .volumeLabel := by
  unfold entryType
  show (if e.getD 0 0 = 0xe5 then _ else if e.getD 0 0 = 0 then _ else if e.getD 11 0 &&& LONG_NAME ≥ LONG_NAME then _
    else if e.getD 11 0 &&& VOLUME_ID > 0 then _ else _) = _
  rw [if_neg h1, if_neg h0, if_neg hl, if_pos hv]

theorem live_of_type {x : Bytes} (hl : x.length = 32) (h : entryType x ≠ .freeAndNoMore) : live x :=
  ⟨fun h0 => h (entryType_of_zero h0), hl⟩

theorem set_mid {α : Type} (E1 E2 : List α) (e e' : α) : (E1 ++ e :: E2).set E1.length e' = E1 ++ e' :: E2 := by
  induction E1 with
  | nil => rfl
  | cons a t ih => simp [ih]

/-- replacing the entry after a prefix without end mark by an entry that is no end mark keeps `TailZero` -/
theorem tailZero_replace {E1 E2 : List Bytes} {e e' : Bytes} (h : TailZero (E1 ++ e :: E2))
    (hE1 : ∀ x ∈ E1, entryType x ≠ .freeAndNoMore) (he : e'.getD 0 0 ≠ 0) : TailZero (E1 ++ e' :: E2) := by
  rw [← set_mid E1 E2 e e']
  apply tailZero_set h _ he
  intro i x hi hx
  rw [List.getElem?_append_left hi] at hx
  have hm : x ∈ E1 := List.mem_of_getElem? hx
  exact fun h0 => hE1 x hm (entryType_of_zero h0)

/-- the facts about an entry that `build_files` (repaired variant) has in its map, under `RootOk` -/
theorem shown_of_inMap {d : Disk} (ro : RootOk d) {e : Bytes} (hm : e ∈ dirOfBytes (rootBuf d)) (hl : e.length = 32)
    (hin : inMap false e) : shown e ∧ NameGood e := by
  obtain ⟨h1, h2, h3⟩ := hin
  have hE5 : e.getD 0 0 ≠ 0xe5 := fun hc => h1 (entryType_of_E5 hc)
  have h0 : e.getD 0 0 ≠ 0 := fun hc => h2 (entryType_of_zero hc)
  obtain ⟨r1, r2, r3⟩ := ro e hm h0 hE5 (fun hc => h3 ⟨hc, rfl⟩)
  have hnl : ¬ (e.getD 11 0 &&& LONG_NAME ≥ LONG_NAME) := by
    unfold LONG_NAME; rw [and15]; omega
  have hv : ¬ (e.getD 11 0 &&& VOLUME_ID > 0) := by
    intro hc
    apply h3
    exact ⟨entryType_label hE5 h0 hnl hc, rfl⟩
  have hv' : (e.getD 11 0 / 8) % 2 = 0 := by
    unfold VOLUME_ID at hv
    rw [and8] at hv
    omega
  refine ⟨⟨⟨h0, hl⟩, hE5, ?_, hv', r2⟩, r3⟩
  omega

end A2Verif.FsFat
