import A2Verif.Lemmas.FsDosPutS
/-!
# `put`, part T: the spill to a new T/S list, the whole loop of `write_file`, what it has built

`spill_step`: when the current T/S list is full and chunks remain, `write_file` reserves a free sector for the next
list (`get_next_free_sector(false)` + `allocate_sector`), links it from the full list, rewrites that list and starts
an empty one with the next `sector_base`; the finished list joins `Pre`.  `loop_all`: the loop over all chunk
indices, across any number of T/S lists.  `Built`: the state after the loop as the refinement proof needs it.
Core Lean only.
-/
set_option linter.unusedSimpArgs false
namespace A2Verif.Fs.Dos3x
open A2Verif.FsDos A2Verif.Read.Dos3x

/-- the contexts of two T/S lists of the same `write_file` run -/
structure SameRun (K K' : PCtx) : Prop where
  c : K'.c = K.c
  ud : K'.ud = K.ud
  dir3 : K'.dir3 = K.dir3
  chunks : K'.chunks = K.chunks
  endIdx : K'.endIdx = K.endIdx

theorem SameRun.refl (K : PCtx) : SameRun K K := ⟨rfl, rfl, rfl, rfl, rfl⟩
theorem SameRun.trans {K K' K'' : PCtx} (h1 : SameRun K K') (h2 : SameRun K' K'') : SameRun K K'' :=
  ⟨h2.c.trans h1.c, h2.ud.trans h1.ud, h2.dir3.trans h1.dir3, h2.chunks.trans h1.chunks, h2.endIdx.trans h1.endIdx⟩

theorem pair_splice_link {b : Bytes} {a a' k : Nat} (hb : b.length = 256) :
    pairT (splice b 1 [a, a']) k = pairT b k ∧ pairS (splice b 1 [a, a']) k = pairS b k := by
  have hl : 1 + [a, a'].length ≤ b.length := by rw [hb]; simp
  unfold pairT pairS
  exact ⟨getD_splice_other hl (by simp; omega), getD_splice_other hl (by simp; omega)⟩

theorem fresh_list (sb : Nat) : (splice (zeros 256) 5 (u16le sb)).length = 256 ∧
    (splice (zeros 256) 5 (u16le sb)).getD 1 0 = 0 ∧ (splice (zeros 256) 5 (u16le sb)).getD 2 0 = 0 ∧
    ∀ k, pairT (splice (zeros 256) 5 (u16le sb)) k = 0 := by
  have hl : 5 + (u16le sb).length ≤ (zeros 256).length := by rw [zeros_length']; simp [u16le]
  refine ⟨by rw [splice_length hl, zeros_length'], ?_, ?_, ?_⟩
  · rw [getD_splice_other hl (by simp [u16le]), getD_zeros']
  · rw [getD_splice_other hl (by simp [u16le]), getD_zeros']
  · intro k
    unfold pairT
    rw [getD_splice_other hl (by simp [u16le]; omega), getD_zeros']

/-- **the spill**: the current T/S list is full and chunks remain -/
theorem spill_step {w0 : W} {tt0 tsec0 : Nat} {D : List Nat} {K : PCtx} (hpre : Pre w0 tt0 tsec0 D K) (hk : PCtxOk K)
    {st : LoopSt} {tsl1 : Bytes} {w1 : W} (hli : LI K 122 { st with tsl := tsl1, p := st.p + 1 } w1)
    (hmore : K.base + 122 < K.endIdx) {s : Nat} (hs : s + 1 = K.base + 122) (rest : List Nat) :
    ∃ K' st' w', bodyB K.chunks 122 K.endIdx s rest st tsl1 w1 = putLoop K.chunks 122 K.endIdx rest st' w' ∧
      PCtxOk K' ∧ Pre w0 tt0 tsec0 (D ++ [K.uT]) K' ∧ LI K' 0 st' w' ∧ SameRun K K' ∧ K'.base = K.base + 122 := by
  have hstt : st.tt = K.tt := hli.hst.1
  have hstsec : st.tsec = K.tsec := hli.hst.2.1
  have hstp : st.p + 1 = 122 := hli.hst.2.2
  have htl1 : tsl1.length = 256 := hli.tlen
  have hlater : 1 ≤ K.later := by have := hpre.later; have := hpre.base; omega
  have hpos : 0 < nfree w1.v K.c := by have := hli.need; omega
  obtain ⟨nt, ns, hnf, hn1, hn35, hnsc, hxf⟩ := alloc_step hli.aok hpos false
  have hcw : w1.c = K.c := hli.hc
  have hx35 : nt * K.c + ns < 35 * K.c := unit_lt hn35 hnsc
  obtain ⟨hu1, hu2, hu3, hu4, hused⟩ := uT_facts hk hli
  -- reserve the new list
  have hal := allocM_apply hli.wok hn35 (by rw [hcw]; exact hnsc)
  rw [hcw] at hal
  have htk1 := alloc_taken hli.aok.ok hn35 hnsc
  generalize hvA : alloc' w1.v K.c nt ns = vA at hal htk1
  have hokA : WOk (w1.withV vA) := hli.wok.setV (by rw [hcw]; exact htk1.ok)
  have hcA : (w1.withV vA).c = K.c := hcw
  -- rewrite the full list with its link
  have hl2 : (splice tsl1 1 [nt, ns]).length = 256 := by rw [splice_length (by rw [htl1]; simp), htl1]
  have husedA : bitFree (w1.withV vA).v (w1.withV vA).c K.tt K.tsec = false := by
    show bitFree vA w1.c K.tt K.tsec = false
    rw [hcw, htk1.bits _ _ hk.htt hk.htsec, ← hcw, hused]; rfl
  have hwr := writeSectorM_used hokA (t := K.tt) (s := K.tsec) (data := splice tsl1 1 [nt, ns]) hk.htt
    (by rw [hcA]; exact hk.htsec) hu4 hl2 husedA
  rw [show (w1.withV vA).v = vA from rfl] at hwr
  generalize hwB : (w1.withV vA).wrote K.tt K.tsec (splice tsl1 1 [nt, ns]) vA = wB at hwr
  have hokB : WOk wB := by rw [← hwB]; exact wrote_ok' hokA hk.htt (by rw [hcA]; exact hk.htsec) hl2 (by rw [hcA]; exact htk1.ok)
  have hcB : wB.c = K.c := by rw [← hwB]; exact hcw
  have hvB : wB.v = vA := by rw [← hwB]; rfl
  have htk2 := updateLastTrack_taken htk1.ok hk.htt
  have hlt1 : Vtoc.lastTrack vA = Vtoc.lastTrack w1.v := by
    rw [← hvA]; exact getD_saveTrackMap_low hli.aok.ok.vlen hn35 (by decide)
  have hlast := updateLastTrack_last htk1.ok hk.htt1 (by rw [hlt1]; exact hli.aok.lastTrack)
  have hup := updateLastTrackM_apply K.tt wB
  rw [hvB] at hup
  generalize hwC : wB.withV (updateLastTrack vA K.tt) = wC at hup
  have hokC : WOk wC := by rw [← hwC]; exact hokB.setV (by rw [hcB]; exact htk2.ok)
  have hcC : wC.c = K.c := by rw [← hwC]; exact hcB
  have hvC : wC.v = updateLastTrack vA K.tt := by rw [← hwC]; rfl
  have htkC : Taken w1.v wC.v K.c [nt * K.c + ns] := by
    rw [hvC]; exact (htk1.trans htk2).congr (fun y => by simp)
  -- the image after the spill
  have hsecC : ∀ y, y ≠ vtocTrack * K.c → sec wC.img y = if y = K.uT then splice tsl1 1 [nt, ns] else sec w1.img y := by
    intro y hy
    rw [← hwC, withV_sec _ (by rw [hcB]; exact hy), ← hwB, sec_wrote' hokA hk.htt (by rw [hcA]; exact hk.htsec) _ _ (by rw [hcA]; exact hy),
      hcA, ← hk.huT]
    by_cases hyu : y = K.uT
    · rw [if_pos hyu, if_pos hyu]
    · rw [if_neg hyu, if_neg hyu, withV_sec vA (by rw [hcw]; exact hy)]
  have hsecT : sec wC.img K.uT = splice tsl1 1 [nt, ns] := by rw [hsecC _ hu2, if_pos rfl]
  have hszC : wC.img.units.size = 35 * K.c := by rw [W.img_size, hokC.size, hcC]
  -- the finished lists
  obtain ⟨hacc, hseg, hnode⟩ := acc_extend hpre hk hli (Nat.le_refl _) (by decide) (r' := wC.img) hszC
    (fun x hx1 hx2 => by rw [hsecC x hx2, if_neg hx1])
    (fun k => by rw [hsecT]; exact (pair_splice_link htl1).1)
    (fun k => by rw [hsecT]; exact (pair_splice_link htl1).2)
  have hlink1 : (sec wC.img K.uT).getD 1 0 = nt := by
    rw [hsecT]
    have := getD_splice_in (e := tsl1) (new := [nt, ns]) (off := 1) (j := 0) (by rw [htl1]; simp) (by simp)
    simpa using this
  have hlink2 : (sec wC.img K.uT).getD 2 0 = ns := by
    rw [hsecT]
    have := getD_splice_in (e := tsl1) (new := [nt, ns]) (off := 1) (j := 1) (by rw [htl1]; simp) (by simp)
    simpa using this
  have hseg' := Seg.snoc hseg hnode (by rw [hlink1]; omega)
  rw [hlink1, hlink2] at hseg'
  -- the new list
  obtain ⟨f1, f2, f3, f4⟩ := fresh_list ((st.secBase + 122) % 65536)
  have hpuz : pairUnits K.c (splice (zeros 256) 5 (u16le ((st.secBase + 122) % 65536))) (List.range 122) = [] := by
    unfold pairUnits
    rw [List.filterMap_eq_nil_iff]
    intro k _; simp [f4 k]
  let K' : PCtx := { K with img0 := wC.img, v0 := w1.v, uT := nt * K.c + ns, tt := nt, tsec := ns, base := K.base + 122, later := K.later - 1 }
  have hvt17 : vtocTrack * K.c < 35 * K.c := by unfold vtocTrack; have := hk.hc; omega
  have hk' : PCtxOk K' := by
    refine ⟨hk.hc, rfl, hn1, hn35, hnsc, hxf, ?_, ?_, hk.udNe, hk.dlen⟩
    · show isFreeU w1.v K.c K.ud = false
      rw [isFreeU_taken hli.taken hpre.udLt, hk.udUsed]; rfl
    · show isFreeU w1.v K.c (vtocTrack * K.c) = false
      rw [isFreeU_taken hli.taken hvt17, hk.vtUsed]; rfl
  refine ⟨K', { tsl := splice (zeros 256) 5 (u16le ((st.secBase + 122) % 65536)), tt := nt, tsec := ns, p := 0, secBase := st.secBase + 122 },
    wC, ?_, hk', ?_, ?_, ⟨rfl, rfl, rfl, rfl, rfl⟩, rfl⟩
  · unfold bodyB
    have hcond : st.p + 1 = 122 ∧ s + 1 ≠ K.endIdx := ⟨hstp, by omega⟩
    rw [if_pos hcond]
    simp only [M.bind_apply, nextFreeM_apply, hnf, hal, hstt, hstsec, hwr, hup]
  · refine ⟨hpre.hc, ?_, ?_, hpre.udUsed0, hpre.vtUsed0, hpre.udLt, hseg', hacc⟩
    · show K.base + 122 = 122 * (D ++ [K.uT]).length
      rw [List.length_append, List.length_singleton, hpre.base]; omega
    · show K.later - 1 + (D ++ [K.uT]).length = (K.endIdx - 1) / 122
      rw [List.length_append, List.length_singleton]; have := hpre.later; omega
  · refine ⟨hokC, hcC, aok_taken hli.aok htkC (by rw [hvC]; exact hlast), ⟨rfl, rfl, rfl⟩, f1, ?_, ⟨f2, f3⟩,
      fun k d hk0 _ => absurd hk0 (Nat.not_lt_zero _), fun k _ _ => f4 k, fun k _ h0 => absurd (f4 k) h0,
      fun k k' _ _ h0 => absurd (f4 k) h0, fun x _ _ _ _ => rfl, ?_, fun h => absurd h (Nat.lt_irrefl _), ?_⟩
    · show Taken w1.v wC.v K.c ((nt * K.c + ns) :: pairUnits K.c _ (List.range 122))
      rw [hpuz]; exact htkC
    · show sec wC.img K.ud = K.dir3
      rw [hsecC _ hk.udNe, if_neg (Ne.symm hu3)]; exact hli.hud
    · show K.todo (K.base + 122) + (K.later - 1) ≤ nfree wC.v K.c
      have h1 := nfree_taken htk1 hx35 hxf
      have h2 := nfree_taken_nil htk2
      have h3 := hli.need
      rw [hvC, h2]
      omega

/-- **the whole loop** of `write_file`, across any number of T/S lists -/
theorem loop_all {w0 : W} {tt0 tsec0 : Nat} : ∀ (n s : Nat) (D : List Nat) (K : PCtx) (p : Nat) (st : LoopSt) (w : W),
    K.endIdx - s = n → s = K.base + p → s ≤ K.endIdx → (p < 122 ∨ s = K.endIdx) → p ≤ 122 → PCtxOk K → Pre w0 tt0 tsec0 D K → LI K p st w →
    ∃ D' K' p' st' w', putLoop K.chunks 122 K.endIdx (List.range' s n) st w = (.ok (), w') ∧ PCtxOk K' ∧ Pre w0 tt0 tsec0 D' K' ∧
      LI K' p' st' w' ∧ SameRun K K' ∧ K'.base + p' = K.endIdx ∧ p' ≤ 122 ∧ ((0 < n ∨ 0 < p) → 0 < p') := by
  intro n
  induction n with
  | zero =>
    intro s D K p st w hn hsp hs _ hp hk hpre hli
    have : s = K.endIdx := by omega
    exact ⟨D, K, p, st, w, rfl, hk, hpre, hli, SameRun.refl K, by omega, hp, fun h => by omega⟩
  | succ n ih =>
    intro s D K p st w hn hsp hs hor hp hk hpre hli
    have hlt : s < K.endIdx := by omega
    have hp122 : p < 122 := by omega
    rw [List.range'_succ]
    subst hsp
    by_cases hspill : p + 1 = 122 ∧ K.base + p + 1 ≠ K.endIdx
    · obtain ⟨tsl1, w1, hb, hli1⟩ := body_step hk hli hp122 hlt
      have hli1' : LI K 122 { st with tsl := tsl1, p := st.p + 1 } w1 := by rw [← hspill.1]; exact hli1
      obtain ⟨K', st', w', he, hk', hpre', hli', hsr, hbase'⟩ := spill_step hpre hk hli1' (by omega) (s := K.base + p) (by omega)
        (List.range' (K.base + p + 1) n)
      obtain ⟨D2, K2, p2, st2, w2, he2, hk2, hpre2, hli2, hsr2, hb2, hp2, hpos2⟩ :=
        ih (K.base + p + 1) _ K' 0 st' w' (by rw [hsr.endIdx]; omega) (by rw [hbase']; omega) (by rw [hsr.endIdx]; omega)
          (Or.inl (by decide)) (by decide) hk' hpre' hli'
      refine ⟨D2, K2, p2, st2, w2, ?_, hk2, hpre2, hli2, hsr.trans hsr2, by rw [hb2, hsr.endIdx], hp2, fun _ => hpos2 (Or.inl (by omega))⟩
      rw [putLoop_cons]
      simp only [M.bind_apply, hb]
      rw [he]
      rw [hsr.chunks, hsr.endIdx] at he2
      exact he2
    · obtain ⟨st1, w1, he, hli1⟩ := loop_step_stay hk hli hp122 hlt hspill (List.range' (K.base + p + 1) n)
      obtain ⟨D2, K2, p2, st2, w2, he2, hk2, hpre2, hli2, hsr2, hb2, hp2, hpos2⟩ :=
        ih (K.base + p + 1) D K (p + 1) st1 w1 (by omega) rfl (by omega) (by omega) (by omega) hk hpre hli1
      exact ⟨D2, K2, p2, st2, w2, by rw [he]; exact he2, hk2, hpre2, hli2, hsr2, hb2, hp2, fun _ => hpos2 (Or.inr (by omega))⟩

/-! ## what `write_file` has built -/

/-- the state after the loop of `write_file` that started from `w0`: the T/S list chain `U` from `(tt,tsec)` holds
exactly the stored chunks; its units were free, are pairwise different and are exactly what is marked used in
addition; the catalog sector `ud` holds `dir3`; nothing else changed -/
structure Built (w0 wf : W) (ud : Nat) (dir3 : Bytes) (chunks : List (Nat × Bytes)) (endIdx tt tsec : Nat) (U : List Nat) : Prop where
  wok : WOk wf
  hc : wf.c = w0.c
  aok : AOk wf.v w0.c
  chain : TsChain wf.img w0.c tt tsec U
  acc : Acc w0 w0.c ud chunks wf.img wf.v U endIdx
  hud : sec wf.img ud = dir3

theorem built_of {w0 : W} {tt0 tsec0 : Nat} {D : List Nat} {K : PCtx} {p : Nat} {st : LoopSt} {wf : W}
    (hpre : Pre w0 tt0 tsec0 D K) (hk : PCtxOk K) (hli : LI K p st wf) (hp : p ≤ 122) (hp0 : 0 < p) (hend : K.base + p = K.endIdx) :
    Built w0 wf K.ud K.dir3 K.chunks K.endIdx tt0 tsec0 (D ++ [K.uT]) := by
  have hsz : wf.img.units.size = 35 * K.c := by rw [W.img_size, hli.wok.size, hli.hc]
  have hT := hli.hT hp0
  obtain ⟨hacc, hseg, hnode⟩ := acc_extend hpre hk hli hp hp0 (r' := wf.img) hsz (fun _ _ _ => rfl)
    (fun k => by rw [hT]) (fun k => by rw [hT])
  rw [hend, hpre.hc] at hacc
  refine ⟨hli.wok, by rw [hli.hc, hpre.hc], by rw [← hpre.hc]; exact hli.aok, ?_, hacc, hli.hud⟩
  rw [← hpre.hc]
  exact Seg.close hseg hnode (by rw [hT]; exact hli.next0.1) (by rw [hT]; exact hli.next0.2)

end A2Verif.Fs.Dos3x
