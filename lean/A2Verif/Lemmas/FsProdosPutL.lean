import A2Verif.Lemmas.FsProdosPutK
/-!
# `put` of a file into the volume directory: the reading afterwards

`put_ok`: from a state between two calls, with a valid fresh name, a free slot in the volume directory and
`blocks_needed ≤ free blocks`, `put` succeeds; after `get_img()` the state satisfies `SInv`, the reading is the old one with
the record of the new file inserted, the step is the abstract `put`, the free list shrinks by exactly `blocks_needed`.
-/
namespace A2Verif.FsProdos
open A2Verif.Fs.Prodos
open A2Verif.Read.Prodos (entryAt dirChain idxPtr indexEntries readData trimName bitmapFree)
open A2Verif.Read.ProdosT

theorem take_quantize (x : Bytes) (h : x.length ≤ 512) : (quantize (x.take blockSize)).take x.length = x := by
  unfold quantize
  rw [List.take_of_length_le (show x.length ≤ blockSize by unfold blockSize; exact h)]
  rw [List.take_of_length_le (show x.length ≤ blockSize by unfold blockSize; exact h)]
  rw [List.take_append_of_le_length (Nat.le_refl _), List.take_length]

theorem chunksMatch_map : ∀ (l : List (Nat × Bytes)), (∀ c ∈ l, c.2.length ≤ 512) →
    chunksMatch l (l.map (fun c => (c.1, quantize (c.2.take blockSize)))) = true
  | [], _ => rfl
  | c :: l, h => by
    have ih := chunksMatch_map l (fun x hx => h x (List.mem_cons_of_mem _ hx))
    unfold chunksMatch at ih ⊢
    simp only [Bool.and_eq_true, beq_iff_eq, List.all_eq_true] at ih ⊢
    refine ⟨by simp [List.map_map, Function.comp_def], ?_⟩
    intro x hx
    rw [List.map_cons, List.zip_cons_cons] at hx
    rcases List.mem_cons.mp hx with rfl | hx'
    · simp only
      rw [take_quantize _ (h c List.mem_cons_self)]
    · exact ih.2 x hx'

theorem dirSlots_length_le (r : Raw) (key : Nat) : ∀ (ch : List Nat), (dirSlots r key ch).length ≤ 13 * ch.length
  | [] => by simp [dirSlots]
  | b :: ch => by
    have ih := dirSlots_length_le r key ch
    unfold dirSlots at ih ⊢
    rw [List.flatMap_cons, List.length_append, List.length_cons]
    have : (blockSlots r key b).length ≤ 13 := by
      unfold blockSlots slotIdxs
      rw [List.length_map]
      split <;> simp
    omega

/-- **`put(fimg)` succeeds and refines the abstract `put`** (file of the volume directory: seedling, sapling or tree, holes included) -/
theorem put_ok {d : Disk} (hs : SInv d) (v : Vol) (fsL : List LRec) (ch : List Nat)
    (hr : Read.ProdosT.read d.raw = .ok v) (ht : readTree d.raw (hdrTotal d.raw) = .ok (fsL, ch))
    (f : FImg) (time nm : Bytes) (pk : PutOk f time)
    (hnodes : normalizePath (volName (hdrOf d.raw)) f.fullPath = .ok [volName (hdrOf d.raw), nm]) (hnm : nm ≠ [])
    (hv : isNameValid nm = true)
    (hnone : (dirSlots d.raw 2 ch).find? (isHit allTypes nm) = none)
    (x : Bytes × Nat × Nat) (hslot : (dirSlots d.raw 2 ch).find? isFreeSlot = some x)
    (hfit : blocksNeeded f ≤ v.freeUnits.length) :
    ∃ d3 d4 v4, put f time repaired d = (.ok f.eof, d3) ∧ d3.flush = (.ok (), d4) ∧ SInv d4 ∧
      Read.ProdosT.read d4.raw = .ok v4 ∧
      stepOk pdParams v (.put (upper nm) f.chunks f.eof (f.fsType.getD 0 0) (f.aux.getD 0 0 + 256 * f.aux.getD 1 0)) true v4 = true ∧
      v4.label = v.label ∧ v4.freeUnits.length + blocksNeeded f = v.freeUnits.length := by
  obtain ⟨v', fsL', ch', hr', ht', c, hts, heff, hbsz, hbok⟩ := hs.ctx
  have e1 : v' = v := by rw [hr] at hr'; injection hr' with h; exact h.symm
  subst e1
  have e2 : fsL' = fsL ∧ ch' = ch := by
    rw [ht] at ht'; injection ht' with h; injection h with h1 h2; exact ⟨h1.symm, h2.symm⟩
  obtain ⟨rfl, rfl⟩ := e2
  obtain ⟨hw, hn, hroot, hvv, hc, hic, hnd, hchf, h2, h6, h3, hbt, hstv⟩ := root_chain_facts hs.inv v' fsL' ch' hr ht
  obtain ⟨w1, w2, w3, w4, w5, w6, w7⟩ := wfB_iff.1 hw
  have hsz := hs.inv.size
  have hshape := hs.inv.shape
  -- the free list
  have hfreeU : v'.freeUnits = (List.range d.total).filter (freeB (effBuf d (hdrBm d.raw) (nbmOf (hdrTotal d.raw)))) := by
    rw [hvv, heff, hts]
  have hfree_iff : ∀ u, u ∈ v'.freeUnits ↔ u < d.total ∧ freeB (effBuf d (hdrBm d.raw) (nbmOf (hdrTotal d.raw))) u = true := by
    intro u; rw [hfreeU, List.mem_filter, List.mem_range]
  have hsys_ch : ∀ b ∈ ch', b ∈ v'.sys := fun b hb => (hchf b hb).2.2.2
  have hsys_bm : ∀ b ∈ bmRange (hdrBm d.raw) (nbmOf (hdrTotal d.raw)), b ∈ v'.sys := by
    intro b hb
    rw [hvv]; simp only
    rw [mem_bmRange] at hb
    apply List.mem_append_right
    rw [List.mem_map]; exact ⟨b - hdrBm d.raw, List.mem_range.mpr (by omega), by omega⟩
  have hsys0 : 0 ∈ v'.sys := by rw [hvv]; simp
  have hfreeOrd : ∀ b, b < d.total → freeB (effBuf d (hdrBm d.raw) (nbmOf (hdrTotal d.raw))) b = true →
      b ∉ bmRange (hdrBm d.raw) (nbmOf (hdrTotal d.raw)) ∧ b ∉ ch' := by
    intro b hb hf
    have hbf : b ∈ v'.freeUnits := (hfree_iff b).mpr ⟨hb, hf⟩
    exact ⟨fun h => w4 b (hsys_bm b h) hbf, fun h => w4 b (hsys_ch b h) hbf⟩
  have hzero : freeB (effBuf d (hdrBm d.raw) (nbmOf (hdrTotal d.raw))) 0 = false := by
    cases h0 : freeB (effBuf d (hdrBm d.raw) (nbmOf (hdrTotal d.raw))) 0 with
    | false => rfl
    | true => exact absurd ((hfree_iff 0).mpr ⟨by rw [← hts]; omega, h0⟩) (w4 0 hsys0)
  have htot16 : d.total ≤ 65535 := by
    rw [← hts]; unfold hdrTotal
    have := le16_lt (unitAt d.raw 2) 41 (hshape.unit c.two_lt).2
    omega
  -- the slot
  obtain ⟨hxm, hxfree⟩ := mem_find hslot
  obtain ⟨B, hB, k, hk13, hkey, rfl⟩ := mem_dirSlots.mp hxm
  have hx0 : (entryAt (unitAt d.raw B) k 39).getD 0 0 = 0 := by
    unfold isFreeSlot Ent.isActive Ent.storLen at hxfree
    simpa using hxfree
  have hinact : isAct (entryAt (unitAt d.raw B) k 39, B, k + 1) = false := by
    unfold isAct; simp only [hx0]; decide
  obtain ⟨hsplit, hs1, hs2, hfs2, hfiles, hdisj, hxnd, hxown, hall, hcnt0⟩ :=
    slot_split_facts hs.inv v' fsL' ch' hr ht _ hxm
  simp only at hsplit hs1 hs2 hfs2 hfiles hdisj hxnd hxown
  have hgx : slotRecs 69 d.raw (hdrTotal d.raw) [] 0 (entryAt (unitAt d.raw B) k 39, B, k + 1) = [] := by
    unfold slotRecs; rw [hinact]; rfl
  rw [hgx] at hfiles
  simp only [List.map_nil, List.append_nil] at hfiles
  -- the count of files
  have hcount : le16 (unitAt d.raw 2) 37 + 1 ≤ 65535 := by
    rw [← hcnt0]
    have h1 := List.length_filter_le isAct (dirSlots d.raw 2 ch')
    have h2' := dirSlots_length_le d.raw 2 ch'
    have := hroot.len
    omega
  -- a free block exists
  have hbn1 : 1 ≤ blocksNeeded f := by
    rw [blocksNeeded_eq f pk.keys]
    have h1 := pk.end_pos
    by_cases he : f.end_ = 1
    · have : dataCount f 1 = 1 := by rw [dataCount_succ, dataCount_zero, pk.first he]; rfl
      rw [he, allocCount_small f 1 (by omega), this]; omega
    · have := allocCount_mono f (show 2 ≤ f.end_ by omega)
      rw [allocCount_small f 2 (by omega), if_pos (by omega)] at this
      omega
  have hfitF : blocksNeeded f ≤ (freeBlocks (effBuf d (hdrBm d.raw) (nbmOf (hdrTotal d.raw))) d.total).length := by
    unfold freeBlocks; rw [← hfreeU]; exact hfit
  obtain ⟨nb, hfind⟩ : ∃ nb, (List.range d.total).find? (freeB (effBuf d (hdrBm d.raw) (nbmOf (hdrTotal d.raw)))) = some nb := by
    cases hf : (List.range d.total).find? (freeB (effBuf d (hdrBm d.raw) (nbmOf (hdrTotal d.raw)))) with
    | some nb => exact ⟨nb, rfl⟩
    | none =>
      exfalso
      have : freeBlocks (effBuf d (hdrBm d.raw) (nbmOf (hdrTotal d.raw))) d.total = [] := by
        unfold freeBlocks
        rw [List.filter_eq_nil_iff]
        intro a ha; exact List.find?_eq_none.mp hf a ha
      rw [this] at hfitF; simp at hfitF; omega
  obtain ⟨acc, hacc, hacc256, hua⟩ := pk.access
  -- the model
  obtain ⟨d2, e0, s, dc, Al, d3, hput, ctx, hraw2, hf2, ne, hres, ha, hBAl, n3⟩ :=
    put_trace c hs.src (by rw [← hts]; omega) htot16 hs.total (by rw [heff]; exact hbsz)
      (by rw [heff, hbsz, ← hts]; unfold nbmOf blockSize; omega) (by rw [heff]; exact hbok) hshape hfreeOrd hzero
      f time nm pk hnodes hnm hv hnone B k hB hk13 hkey hslot nb hfind hfitF hcount acc hacc hacc256
  have htot2 : d2.total = d.total := by
    have := ctx.totsz; rw [hraw2, setUnit_size, setUnit_size, ← hs.total] at this; exact this
  -- the blocks taken were free, hence ordinary blocks outside the directory and outside every file
  have hAlfree : ∀ u ∈ Al, u ∈ v'.freeUnits := by
    intro u hu
    obtain ⟨h1, h2'⟩ := ha.alfree u hu
    rw [hf2] at h1; rw [htot2] at h2'
    exact (hfree_iff u).mpr ⟨h2', h1⟩
  have hAlch : ∀ b ∈ ch', b ∉ Al := fun b hb hm => w4 b (hsys_ch b hb) (hAlfree b hm)
  have hu2B : unitAt d2.raw B = patched (if B = 2 then patched (unitAt d.raw 2) 37 (u16le (le16 (unitAt d.raw 2) 37 + 1))
      else unitAt d.raw B) (4 + k * 39) e0 := by
    rw [hraw2]; unfold unitAt
    rw [setUnit_self _ _ _ (by rw [setUnit_size, ← hsz]; exact (hchf B hB).1)]; rfl
  rw [hu2B] at n3
  -- the record
  obtain ⟨g, st, fe, hst12, hrf, hgch, hgnd, hgown, hAllen, hkeyok, hclean, hkeyAl⟩ :=
    put_file_rec ctx pk ne hres acc hacc256
      (setUnit dc.raw B (patched (patched (if B = 2 then patched (unitAt d.raw 2) 37 (u16le (le16 (unitAt d.raw 2) 37 + 1))
        else unitAt d.raw B) (4 + k * 39) e0) (4 + k * 39) (Ent.setAccess (Ent.setEof s.entry f.eof) acc)))
      (fun j hj => setUnit_other _ _ _ _ (fun e => hBAl (e ▸ hj)))
  rw [htot2, ← hts] at hrf hkeyok
  -- the image
  obtain ⟨hpatch, hout, hshape3, hcnt3, he3, _, hsz3⟩ :=
    put_image (r := d.raw) (dcr := dc.raw) (ch := ch') (Al := Al) (B := B) (k := k) e0 (Ent.setAccess (Ent.setEof s.entry f.eof) acc)
      hshape (fun b hb => by rw [← hsz]; exact (hchf b hb).1) hB h2 hk13 hkey ne.len fe.len fe.bytes (by omega)
      (by rw [ha.rawsz, hraw2, setUnit_size, setUnit_size]) ha.shape hAlch
      (fun j hj => by rw [ha.rawoth j hj, hraw2])
  have hst' : (Ent.setAccess (Ent.setEof s.entry f.eof) acc).getD 0 0 / 16 = 1 ∨
      (Ent.setAccess (Ent.setEof s.entry f.eof) acc).getD 0 0 / 16 = 2 ∨
      (Ent.setAccess (Ent.setEof s.entry f.eof) acc).getD 0 0 / 16 = 3 := by
    rw [fe.st]; exact hst12
  have hact' : isAct (Ent.setAccess (Ent.setEof s.entry f.eof) acc, B, k + 1) = true := by
    unfold isAct; simp only [ne_eq, decide_eq_true_eq]; rw [fe.st]; rcases hst12 with h | h | h <;> omega
  have hRE3 := RE_file_of 69 _ (hdrTotal d.raw) [] 0 (Ent.setAccess (Ent.setEof s.entry f.eof) acc, B, k + 1) g hst' hkeyok hrf
  have hsr3 : slotRecs 69 (setUnit dc.raw B (patched (patched (if B = 2 then patched (unitAt d.raw 2) 37 (u16le (le16 (unitAt d.raw 2) 37 + 1))
        else unitAt d.raw B) (4 + k * 39) e0) (4 + k * 39) (Ent.setAccess (Ent.setEof s.entry f.eof) acc))) (hdrTotal d.raw) [] 0
        (Ent.setAccess (Ent.setEof s.entry f.eof) acc, B, k + 1) = [(g, B, k + 1)] := by
    unfold slotRecs; rw [if_pos hact', hRE3]; rfl
  have hcnt3' : le16 (unitAt (setUnit dc.raw B (patched (patched (if B = 2 then patched (unitAt d.raw 2) 37 (u16le (le16 (unitAt d.raw 2) 37 + 1))
        else unitAt d.raw B) (4 + k * 39) e0) (4 + k * 39) (Ent.setAccess (Ent.setEof s.entry f.eof) acc))) 2) 37 =
      ((sBefore (dirSlots d.raw 2 ch') (B, k + 1) ++ (Ent.setAccess (Ent.setEof s.entry f.eof) acc, B, k + 1) ::
        sAfter (dirSlots d.raw 2 ch') (B, k + 1)).filter isAct).length := by
    rw [hcnt3, ← hcnt0]
    conv => lhs; rw [hsplit]
    rw [filter_length_mid, filter_length_mid, hinact, hact']
    simp
    omega
  -- the buffer
  have hBused : freeB (effBuf dc (hdrBm d.raw) (nbmOf (hdrTotal d.raw))) B = false := by
    rw [ha.bufeq B, hf2]
    cases hfb : freeB (effBuf d (hdrBm d.raw) (nbmOf (hdrTotal d.raw))) B with
    | false => rfl
    | true => exact absurd hB (hfreeOrd B (by rw [← hts]; exact (hchf B hB).1) hfb).2
  have hcovB : B / 8 < (effBuf dc (hdrBm d.raw) (nbmOf (hdrTotal d.raw))).size := by
    rw [ha.bufsz, ctx.bsz]; exact cover_of_lt (hchf B hB).1
  have hf3 : ∀ j, freeB (clearBit (effBuf dc (hdrBm d.raw) (nbmOf (hdrTotal d.raw))) B) j =
      (freeB (effBuf d (hdrBm d.raw) (nbmOf (hdrTotal d.raw))) j && !Al.contains j) := by
    intro j; rw [freeB_clearBit_used _ B ha.bufok hcovB hBused j, ha.bufeq j, hf2 j]
  have hbs3 : (clearBit (effBuf dc (hdrBm d.raw) (nbmOf (hdrTotal d.raw))) B).size = blockSize * nbmOf (hdrTotal d.raw) := by
    rw [size_clearBit, ha.bufsz, ctx.bsz]
  have hbok3 := bytesOk_clearBit _ B ha.bufok
  -- the reading
  obtain ⟨hrd4, htree4, htot4, hbm4, hsz4, hshape4, hgeo4, hprev4, hslots4, hslotok4, hsame4⟩ :=
    patched_reading hs.inv v' fsL' ch' hr ht (entryAt (unitAt d.raw B) k 39) B k hxm Al hpatch hout
      (fun u hu => Or.inl (fun h => w3 u h (hAlfree u hu))) hshape3 _ _ rfl rfl _ he3.symm hcnt3' (fun _ => ⟨_, hRE3⟩)
      (fun j hj => by
        rw [hsr3]
        simp only [List.map_cons, List.map_nil, List.flatMap_cons, List.flatMap_nil, List.append_nil]
        intro hjo
        exact w4 j (hsys_bm j hj) (hAlfree j ((hgown j).mp hjo)))
      _ hbs3 hbok3 _ rfl _ rfl
  rw [hsr3] at hrd4 htree4
  -- well-formedness of the new volume
  have hfree4 : ∀ u, u ∈ (List.range (hdrTotal d.raw)).filter (freeB (clearBit (effBuf dc (hdrBm d.raw) (nbmOf (hdrTotal d.raw))) B)) ↔
      (u ∈ v'.freeUnits ∧ u ∉ g.owned) := by
    intro u
    rw [List.mem_filter, List.mem_range, hf3 u, hfree_iff u, hts, hgown u]
    simp only [Bool.and_eq_true, Bool.not_eq_true', List.contains_eq_mem, decide_eq_false_iff_not]
    constructor
    · rintro ⟨a, b, c⟩; exact ⟨⟨a, b⟩, c⟩
    · rintro ⟨⟨a, b⟩, c⟩; exact ⟨a, b, c⟩
  have hgpath : g.path = upper nm := by
    obtain ⟨hp, _⟩ := readFile_rec_fields _ _ _ _ _ hrf
    rw [hp, baseRec_path_root, fe.name]
  obtain ⟨v4, hv4⟩ : ∃ v4 : Vol, v4 = nextVol v' (hdrTotal d.raw)
      (((sBefore (dirSlots d.raw 2 ch') (B, k + 1)).flatMap (slotRecs 69 d.raw (hdrTotal d.raw) [] 0) ++ [(g, B, k + 1)] ++
        (sAfter (dirSlots d.raw 2 ch') (B, k + 1)).flatMap (slotRecs 69 d.raw (hdrTotal d.raw) [] 0)).map (·.1))
      ((List.range (hdrTotal d.raw)).filter (freeB (clearBit (effBuf dc (hdrBm d.raw) (nbmOf (hdrTotal d.raw))) B))) := ⟨_, rfl⟩
  have hrd4' : Read.ProdosT.read (wbRaw (setUnit dc.raw B (patched (patched (if B = 2 then patched (unitAt d.raw 2) 37 (u16le (le16 (unitAt d.raw 2) 37 + 1))
        else unitAt d.raw B) (4 + k * 39) e0) (4 + k * 39) (Ent.setAccess (Ent.setEof s.entry f.eof) acc))) (hdrBm d.raw) (nbmOf (hdrTotal d.raw))
      (clearBit (effBuf dc (hdrBm d.raw) (nbmOf (hdrTotal d.raw))) B)) = .ok v4 := by rw [hv4]; exact hrd4
  have hfiles4 : v4.files = ((sBefore (dirSlots d.raw 2 ch') (B, k + 1)).flatMap (slotRecs 69 d.raw (hdrTotal d.raw) [] 0)).map (·.1) ++
      g :: ((sAfter (dirSlots d.raw 2 ch') (B, k + 1)).flatMap (slotRecs 69 d.raw (hdrTotal d.raw) [] 0)).map (·.1) := by
    rw [hv4]; show List.map _ _ = _; rw [List.map_append, List.map_append, List.append_assoc]; rfl
  have hfree4' : v4.freeUnits = (List.range (hdrTotal d.raw)).filter (freeB (clearBit (effBuf dc (hdrBm d.raw) (nbmOf (hdrTotal d.raw))) B)) := by
    rw [hv4]; rfl
  obtain ⟨hw4, hn4⟩ := vol_insert (v := v') (v' := v4) (g := g) hw hn hfiles hfiles4
    (by rw [hv4, hvv]; rfl) (by rw [hv4, hvv]; rfl) (by rw [hv4]; rfl)
    (by rw [hfree4']; exact List.Nodup.sublist List.filter_sublist List.nodup_range) (by rw [hfree4']; exact hfree4)
    (fun u hu => hAlfree u ((hgown u).mp hu)) hgnd
    (by rw [hgpath]; exact path_not_listed hs.inv v' fsL' ch' hr ht nm hv hnone)
    (by rw [hgch]; unfold chunksQ; rw [List.map_map]; exact pk.keys)
  -- the invariant
  have hinv4 : Inv (wbRaw (setUnit dc.raw B (patched (patched (if B = 2 then patched (unitAt d.raw 2) 37 (u16le (le16 (unitAt d.raw 2) 37 + 1))
        else unitAt d.raw B) (4 + k * 39) e0) (4 + k * 39) (Ent.setAccess (Ent.setEof s.entry f.eof) acc))) (hdrBm d.raw) (nbmOf (hdrTotal d.raw))
      (clearBit (effBuf dc (hdrBm d.raw) (nbmOf (hdrTotal d.raw))) B)) := by
    refine ⟨hshape4, by rw [htot4, hsz4]; exact hsz, v4, _, ch', hrd4', by rw [htot4]; exact htree4, hw4, hn4, hgeo4, hprev4, hroot.len, ?_,
      names_after hroot hsplit hslots4 (fun _ => by rw [fe.name]; exact isNameValid_no_slash nm hv)⟩
    intro y hy
    rw [hslots4] at hy
    rcases List.mem_append.mp hy with a | a
    · exact hslotok4 y (List.mem_append_left _ a)
    · rcases List.mem_cons.mp a with rfl | a'
      · refine Or.inl (Or.inr ⟨hst', by rw [fe.access]; exact hua, ?_⟩)
        intro h3'
        simp only at h3' ⊢
        rw [fe.st] at h3'
        have hcl := hclean h3'
        have hkb : le16 (Ent.setAccess (Ent.setEof s.entry f.eof) acc) 0x11 ∉ bmRange (hdrBm d.raw) (nbmOf (hdrTotal d.raw)) := by
          intro hm
          exact w4 _ (hsys_bm _ hm) (hAlfree _ hkeyAl)
        rw [unitAt_congr (hsame4 _ hkb)]
        exact hcl
      · exact hslotok4 y (List.mem_append_right _ a')
  have hlen3 : ∀ i ∈ bmRange (hdrBm d.raw) (nbmOf (hdrTotal d.raw)),
      (unitAt (setUnit dc.raw B (patched (patched (if B = 2 then patched (unitAt d.raw 2) 37 (u16le (le16 (unitAt d.raw 2) 37 + 1))
        else unitAt d.raw B) (4 + k * 39) e0) (4 + k * 39) (Ent.setAccess (Ent.setEof s.entry f.eof) acc))) i).length = blockSize := by
    intro i hi
    exact (hshape3.unit (by rw [hsz3]; exact c.st.exist i hi)).1
  obtain ⟨d4, hfl4, hraw4, hs4⟩ := close_op hs _ _ n3 hbs3 hlen3 hinv4 hbm4 hsz4
  refine ⟨d3, d4, v4, hput, hfl4, hs4, by rw [hraw4]; exact hrd4', ?_, by rw [hv4]; rfl, ?_⟩
  · obtain ⟨_, hgd, _, _, hgft, hgaux, hgeof⟩ := readFile_rec_fields _ _ _ _ _ hrf
    apply stepOk_put_mid (P := pdParams) (g := g)
      hw hw4 (path_not_listed hs.inv v' fsL' ch' hr ht nm hv hnone) hfiles hfiles4 hgpath
      (by rw [hgch]; exact chunksMatch_map f.chunks pk.clen) hgd (by rw [hgeof, fe.eof]; rfl)
      (fun _ => by rw [hgft, fe.ftype]) (fun _ => by rw [hgaux, fe.aux])
      (fun u hu => hAlfree u ((hgown u).mp hu))
  · -- the free list shrinks by the blocks taken
    rw [hfree4']
    have hfun : (List.range (hdrTotal d.raw)).filter (freeB (clearBit (effBuf dc (hdrBm d.raw) (nbmOf (hdrTotal d.raw))) B)) =
        (List.range (hdrTotal d.raw)).filter (fun j => freeB (effBuf d (hdrBm d.raw) (nbmOf (hdrTotal d.raw))) j && !Al.contains j) := by
      apply List.filter_congr; intro j _; exact hf3 j
    have hfreeU' : v'.freeUnits = (List.range (hdrTotal d.raw)).filter (freeB (effBuf d (hdrBm d.raw) (nbmOf (hdrTotal d.raw)))) := by
      rw [hvv, heff]
    rw [hfun, ← hAllen, hfreeU']
    exact filter_sub_length _ _ Al ha.alnd (fun b hb => by
      obtain ⟨h1, h2'⟩ := ha.alfree b hb
      rw [hf2] at h1; rw [htot2, ← hts] at h2'
      exact ⟨h1, h2'⟩)

end A2Verif.FsProdos
