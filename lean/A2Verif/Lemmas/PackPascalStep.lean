import A2Verif.Lemmas.PackPascalEnc
/-! Pascal text: one step of the encoder loop, the whole loop, and `from_utf8`. -/
namespace A2Verif.Packing

/-- bookkeeping invariant: the counted bytes are a lower bound on the real length -/
def PJ (s : PState) : Prop := s.page * 1024 + s.count ≤ s.ans.length

theorem replicate_snoc (n : Nat) (a : Nat) : List.replicate (n+1) a = List.replicate n a ++ [a] :=
  List.replicate_succ'

theorem getLast?_snoc (a : Bytes) (x : Nat) : (a ++ [x]).getLast? = some x := by simp

/-- result of one loop body (before pagination) on an allowed character -/
structure StepOk (first : Bool) (b : Nat) (s : PState) (o : Bytes) (s1 : PState) (o1 : Bytes) : Prop where
  core : Core s1.ans o1
  sl : s1.startingLine = true → s1.indenting = 0
  pj : PJ s1
  out : o1 ++ List.replicate s1.indenting 0x20 = o ++ List.replicate s.indenting 0x20 ++ [b]
  nl : b = 0x0a → s1.startingLine = true ∧ s1.ans.getLast? = some 0x0d

set_option maxRecDepth 10000 in
theorem pasStep_ok (first : Bool) (b : Nat) (s : PState) (o : Bytes) (hb : b = 0x0a ∨ Printable b)
    (hc : Core s.ans o) (hsl : s.startingLine = true → s.indenting = 0) (hj : PJ s) :
    ∃ s1 o1, pasStep first b s = some s1 ∧ StepOk first b s o s1 o1 := by
  obtain ⟨ans, sl, ind, page, cnt⟩ := s
  simp only [PJ] at hj
  simp only at hc hsl
  rcases hb with hb | hb
  · -- newline
    subst hb
    have he : isEol 0x0a = true := by decide
    cases sl with
    | true =>
      have hi : ind = 0 := hsl rfl
      subst hi
      cases first with
      | true =>
        refine ⟨{ ans := ans ++ [0x0d], startingLine := true, indenting := 0, page := page, count := cnt + 1 }, o ++ [0x0a], ?_, ?_⟩
        · simp [pasStep, he]
        · refine ⟨hc.append core_cr, fun _ => rfl, ?_, by simp, fun _ => ⟨rfl, getLast?_snoc _ _⟩⟩
          simp only [PJ, List.length_append, List.length_cons, List.length_nil]; omega
      | false =>
        refine ⟨{ ans := ans ++ [0x10, 0x20] ++ [0x0d], startingLine := true, indenting := 0, page := page, count := cnt + 2 + 1 }, o ++ [] ++ [0x0a], ?_, ?_⟩
        · simp [pasStep, he]
        · refine ⟨(hc.append (core_ind 0)).append core_cr, fun _ => rfl, ?_, by simp, fun _ => ⟨rfl, getLast?_snoc _ _⟩⟩
          simp only [PJ, List.length_append, List.length_cons, List.length_nil]; omega
    | false =>
      by_cases hi : ind > 0
      · refine ⟨{ ans := ans ++ [0x10, 0x20 + ind] ++ [0x0d], startingLine := true, indenting := 0, page := page, count := cnt + 3 }, o ++ List.replicate ind 0x20 ++ [0x0a], ?_, ?_⟩
        · simp [pasStep, he, hi]
        · refine ⟨(hc.append (core_ind ind)).append core_cr, fun _ => rfl, ?_, by simp, fun _ => ⟨rfl, getLast?_snoc _ _⟩⟩
          simp only [PJ, List.length_append, List.length_cons, List.length_nil]; omega
      · have hi0 : ind = 0 := by omega
        subst hi0
        refine ⟨{ ans := ans ++ [0x0d], startingLine := true, indenting := 0, page := page, count := cnt + 1 }, o ++ [0x0a], ?_, ?_⟩
        · simp [pasStep, he]
        · refine ⟨hc.append core_cr, fun _ => rfl, ?_, by simp, fun _ => ⟨rfl, getLast?_snoc _ _⟩⟩
          simp only [PJ, List.length_append, List.length_cons, List.length_nil]; omega
  · -- printable character
    have hp := hb
    obtain ⟨h1, h2⟩ := hb
    have he : isEol b = false := by simp [isEol]; omega
    have hnl : b ≠ 0x0a := by omega
    have h128 : b < 128 := by omega
    cases sl with
    | true =>
      have hi : ind = 0 := hsl rfl
      subst hi
      cases first with
      | true =>
        refine ⟨{ ans := ans ++ [b], startingLine := false, indenting := 0, page := page, count := cnt + 1 }, o ++ [b], ?_, ?_⟩
        · simp [pasStep, he]
        · refine ⟨hc.append (core_lit b hp), (fun h => by cases h), ?_, by simp, fun h => absurd h hnl⟩
          simp only [PJ, List.length_append, List.length_cons, List.length_nil]; omega
      | false =>
        by_cases hsp : b = 0x20
        · subst hsp
          refine ⟨{ ans := ans, startingLine := false, indenting := 0 + 1, page := page, count := cnt }, o, ?_, ?_⟩
          · simp [pasStep]
          · exact ⟨hc, (fun h => by cases h), hj, by simp, fun h => absurd h hnl⟩
        · refine ⟨{ ans := ans ++ [0x10, 0x20] ++ [b], startingLine := false, indenting := 0, page := page, count := cnt + 2 + 1 }, o ++ [] ++ [b], ?_, ?_⟩
          · simp [pasStep, he, hsp]
          · refine ⟨(hc.append (core_ind 0)).append (core_lit b hp), (fun h => by cases h), ?_, by simp, fun h => absurd h hnl⟩
            simp only [PJ, List.length_append, List.length_cons, List.length_nil]; omega
    | false =>
      by_cases hi : ind > 0
      · by_cases hsp : b = 0x20 ∧ ind + 0x20 < 0xff
        · obtain ⟨hsp1, hsp2⟩ := hsp
          subst hsp1
          refine ⟨{ ans := ans, startingLine := false, indenting := ind + 1, page := page, count := cnt }, o, ?_, ?_⟩
          · simp [pasStep, hi, hsp2]
          · refine ⟨hc, (fun h => by cases h), hj, ?_, fun h => absurd h hnl⟩
            simp only [replicate_snoc, List.append_assoc]
        · refine ⟨{ ans := ans ++ [0x10, 0x20 + ind] ++ [b], startingLine := false, indenting := 0, page := page, count := cnt + 3 }, o ++ List.replicate ind 0x20 ++ [b], ?_, ?_⟩
          · simp only [pasStep, Bool.false_eq_true, if_false, hi, if_true, hsp, he, Bool.not_false]
          · refine ⟨(hc.append (core_ind ind)).append (core_lit b hp), (fun h => by cases h), ?_, by simp, fun h => absurd h hnl⟩
            simp only [PJ, List.length_append, List.length_cons, List.length_nil]; omega
      · have hi0 : ind = 0 := by omega
        subst hi0
        refine ⟨{ ans := ans ++ [b], startingLine := false, indenting := 0, page := page, count := cnt + 1 }, o ++ [b], ?_, ?_⟩
        · simp [pasStep, he, h128]
        · refine ⟨hc.append (core_lit b hp), (fun h => by cases h), ?_, by simp, fun h => absurd h hnl⟩
          simp only [PJ, List.length_append, List.length_cons, List.length_nil]; omega

/-- what the loop guarantees when started in a good state on a text of allowed characters -/
structure LoopOk (rest : Bytes) (s : PState) (o : Bytes) (s' : PState) (o' : Bytes) : Prop where
  core : Core s'.ans o'
  sl : s'.startingLine = true → s'.indenting = 0
  pj : PJ s'
  out : o' ++ List.replicate s'.indenting 0x20 = o ++ List.replicate s.indenting 0x20 ++ rest
  nl : rest ≠ [] → rest.getLast? = some 0x0a → s'.startingLine = true ∧ s'.ans.getLast? = some 0x0d

theorem pasLoop_ok : ∀ (rest : Bytes) (first : Bool) (s : PState) (o : Bytes), TextOk rest →
    Core s.ans o → (s.startingLine = true → s.indenting = 0) → PJ s →
    pasLoop first rest s ≠ .panic ∧ ∀ s', pasLoop first rest s = .ok s' → ∃ o', LoopOk rest s o s' o' := by
  intro rest
  induction rest with
  | nil =>
    intro first s o _ hc hsl hj
    refine ⟨by simp [pasLoop], ?_⟩
    intro s' h
    simp only [pasLoop, Res.ok.injEq] at h
    subst h
    exact ⟨o, hc, hsl, hj, by simp, fun h => absurd rfl h⟩
  | cons b r ih =>
    intro first s o ht hc hsl hj
    obtain ⟨hb, hr⟩ := ht.cons
    have hcr : ¬ (b = 0x0d ∧ r.head? = some 0x0a) := by
      rintro ⟨h, _⟩
      rcases hb with h' | ⟨h1, h2⟩ <;> omega
    obtain ⟨s1, o1, hs1, st⟩ := pasStep_ok first b s o hb hc hsl hj
    have hnp := paginate_no_panic s1.ans s1.page s1.count st.pj
    simp only [pasLoop, hcr, if_false, hs1]
    cases hpg : paginate s1.ans s1.page s1.count with
    | panic => exact absurd hpg hnp
    | err => exact ⟨by simp, by intro s' h; cases h⟩
    | ok pr =>
      obtain ⟨a2, p2⟩ := pr
      obtain ⟨c2, j2, l2⟩ := paginate_ok s1.ans o1 s1.page s1.count a2 p2 st.core st.pj hpg
      simp only []
      have := ih false { s1 with ans := a2, page := p2, count := s1.count % textPage } o1 hr c2 st.sl
        (by simpa [PJ, textPage] using j2)
      refine ⟨this.1, ?_⟩
      intro s' h
      obtain ⟨o', lo⟩ := this.2 s' h
      refine ⟨o', lo.core, lo.sl, lo.pj, ?_, ?_⟩
      · rw [lo.out]
        simp only []
        rw [st.out]; simp
      · intro _ hl
        cases r with
        | nil =>
          simp only [pasLoop, Res.ok.injEq] at h
          subst h
          have hb' : b = 0x0a := by simpa using hl
          obtain ⟨n1, n2⟩ := st.nl hb'
          exact ⟨n1, by simp only []; rw [l2]; exact n2⟩
        | cons c r' =>
          have : (b :: c :: r').getLast? = (c :: r').getLast? := List.getLast?_cons_cons
          rw [this] at hl
          exact lo.nl (by simp) hl

/-- **Pascal `from_utf8`** on a text of printable lines ending in a newline: never panics, and if
it succeeds the result is a token sequence that decodes to the text -/
theorem pasFromUtf8_ok (t' : Bytes) (ht : TextOk (t' ++ [0x0a])) :
    pasFromUtf8 [0x0d] (t' ++ [0x0a]) ≠ .panic ∧
    ∀ text, pasFromUtf8 [0x0d] (t' ++ [0x0a]) = .ok text → Core text (t' ++ [0x0a]) := by
  have h0 := pasLoop_ok (t' ++ [0x0a]) true
    { ans := [], startingLine := true, indenting := 0, page := 0, count := 0 } [] ht core_nil (fun _ => rfl)
    (by simp [PJ])
  unfold pasFromUtf8
  cases hl : pasLoop true (t' ++ [0x0a]) { ans := [], startingLine := true, indenting := 0, page := 0, count := 0 } with
  | panic => exact absurd hl h0.1
  | err => exact ⟨by simp, by intro _ h; cases h⟩
  | ok s =>
    obtain ⟨o', lo⟩ := h0.2 s hl
    obtain ⟨hsl, hlast⟩ := lo.nl (by simp) (by simp)
    have hind := lo.sl hsl
    have ho : o' = t' ++ [0x0a] := by
      have := lo.out
      rw [hind] at this
      simpa using this
    obtain ⟨pre, hpre⟩ := List.getLast?_eq_some_iff.mp hlast
    have hterm : isTerminated s.ans [0x0d] = true := by rw [hpre]; exact isTerminated_snoc pre 0x0d
    simp only [hterm, Bool.not_true, Bool.false_eq_true, false_and, if_false]
    have hnp := paginate_no_panic s.ans s.page s.count lo.pj
    cases hpg : paginate s.ans s.page s.count with
    | panic => exact absurd hpg hnp
    | err => exact ⟨by simp, by intro _ h; cases h⟩
    | ok pr =>
      obtain ⟨a2, p2⟩ := pr
      obtain ⟨c2, _, _⟩ := paginate_ok s.ans o' s.page s.count a2 p2 lo.core lo.pj hpg
      refine ⟨by simp, ?_⟩
      intro text h
      simp only [Res.ok.injEq] at h
      subst h
      unfold padToPage
      have := c2.append (core_zeros ((textPage - a2.length % textPage) % textPage))
      rw [ho] at this
      simpa using this

end A2Verif.Packing
