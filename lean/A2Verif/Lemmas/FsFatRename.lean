import A2Verif.Lemmas.FsFatPutStep
/-!
# Refinement of `rename` of a root-level file in the concrete FAT model

`rename_run`: `rename(p, q)` is refused without any change of the state (invalid new name, source not found or directory
unreadable, new name in use, source read-only), or rewrites the name field of the one root entry found under the key of
`p`.  `rename_step_core`: as observed (run, then flush) it is refused without a change or it re-establishes the invariant
and replaces the path of exactly one record of the reading (the archive bit of its attribute byte is set as well).
-/
namespace A2Verif.FsFat
open A2Verif A2Verif.Fs.Fat A2Verif.Read.Fat A2Verif.Read.FatT
open A2Verif.FsDos (replaced wfB_replace allOwned_replace)

/-- `goto_path` of a root-level name: an error without a change, or the `FileInfo` the map holds under the key -/
theorem gotoPath_root_cases {d : Disk} (g : Geo d) {p : Bytes} (a : RootArg p) :
    (∃ er, gotoPath p d = (.error er, d)) ∨
    ∃ files fi, buildFiles d.labelFiles (dirOfBytes (rootBuf d)) = .ok files ∧ files.lookup (keyOf p) = some fi ∧
      gotoPath p d = (.ok (some FInfo.root, fi), d) := by
  rw [gotoPath_root g a]
  cases hb : buildFiles d.labelFiles (dirOfBytes (rootBuf d)) with
  | error er => exact Or.inl ⟨er, rfl⟩
  | ok files =>
    simp only []
    cases hl : files.lookup (keyOf p) with
    | none => exact Or.inl ⟨_, rfl⟩
    | some fi => exact Or.inr ⟨files, fi, rfl, hl, rfl⟩

/-- the entry after `rename(new_name)` and `set_attr(ARCHIVE)` -/
def renEntry (e q : Bytes) : Bytes := Entry.setAttr (Entry.rename e q) ARCHIVE

theorem renEntry_spec {e q : Bytes} (he : e.length = 32) (hq : (stringToFileName q).length = 11) :
    (renEntry e q).length = 32 ∧ (renEntry e q).take 11 = stringToFileName q ∧ (renEntry e q).getD 11 0 = (e.getD 11 0 ||| 32) ∧
      ∀ i, 12 ≤ i → (renEntry e q).getD i 0 = e.getD i 0 := by
  have l1 : (Entry.rename e q).length = 32 := by
    unfold Entry.rename
    rw [splice_length (by omega)]
    exact he
  have t1 : (Entry.rename e q).take 11 = stringToFileName q := by
    unfold Entry.rename splice
    simp only [List.take_zero, List.nil_append]
    rw [List.take_append_of_le_length (by omega), List.take_of_length_le (by omega)]
  have o1 : ∀ i, 11 ≤ i → (Entry.rename e q).getD i 0 = e.getD i 0 := by
    intro i hi
    unfold Entry.rename
    exact splice_out (by omega) (Or.inr (by omega))
  unfold renEntry Entry.setAttr Entry.attr ARCHIVE
  obtain ⟨a1, a2, a3, a4⟩ := setAttrField_spec l1 ((Entry.rename e q).getD 11 0 ||| 32)
  refine ⟨a1, by rw [a2, t1], by rw [a3, o1 11 (by omega)], ?_⟩
  intro i hi
  rw [a4 i (by omega), o1 i (by omega)]

/-- **the run of `rename` of a root-level name** -/
theorem rename_run {d : Disk} (g : Geo d) {p q : Bytes} (a : RootArg p) :
    (∃ er, rename p q d = (.error er, d)) ∨
    ∃ E1 e E2 nm ty files, dirOfBytes (rootBuf d) = E1 ++ e :: E2 ∧ (∀ x ∈ E1, entryType x ≠ .freeAndNoMore) ∧ inMap d.labelFiles e ∧
      fileNameToSplit e = some (nm, ty) ∧ keyOf p = nm ++ [46] ++ ty ∧ isNameValid q = true ∧
      buildFiles d.labelFiles (dirOfBytes (rootBuf d)) = .ok files ∧ files.lookup (keyOf q) = none ∧ e.getD 11 0 % 2 = 0 ∧
      rename p q d = (.ok (), rootWrite d E1.length (renEntry e q)) := by
  unfold rename okToRename
  by_cases hv0 : ¬ (isNameValid q = true)
  · left
    have : isNameValid q = false := by simpa using hv0
    simp only [this, Bool.not_false, if_true, M_bind_apply, M_fail_apply]
    exact ⟨_, rfl⟩
  have hv : isNameValid q = true := Classical.not_not.mp hv0
  simp only [hv, Bool.not_true, Bool.false_eq_true, if_false, M_bind_apply, tryM]
  rcases gotoPath_root_cases g a with ⟨er, hgo⟩ | ⟨files, fi, hb, hl, hgo⟩
  · left
    simp only [hgo, M_fail_apply]
    exact ⟨_, rfl⟩
  simp only [hgo, FInfo.root, getDirectory, M_bind_apply, getRootDir_eq g, buildFilesM, hb]
  cases hgf : getFile q files with
  | some x => exact Or.inl ⟨_, rfl⟩
  | none =>
    simp only [M_pure_apply]
    have hbl := buildLoop_lookup d.labelFiles _ 0 0 [] files hb (keyOf p) fi hl
    cases hbl with
    | inl h => simp [List.lookup] at h
    | inr h =>
      obtain ⟨E1, e, E2, nm, ty, hE, hidx, hE1, hin, hn, hk, hfi⟩ := h
      have hidx' : fi.idx = E1.length := by omega
      have hlen : E1.length < (dirOfBytes (rootBuf d)).length := by rw [hE]; simp
      have hent : dirEntry (dirOfBytes (rootBuf d)) E1.length = .ok e := by
        unfold dirEntry
        rw [hE]
        simp
      have hq2 : files.lookup (keyOf q) = none := by
        unfold getFile at hgf
        dsimp only at hgf
        cases h1 : files.lookup (lookupKey q) with
        | some x => rw [h1] at hgf; cases hgf
        | none =>
          rw [h1] at hgf
          simp only [] at hgf
          rw [← lookupKey_upper] at hgf
          exact hgf
      unfold modifyAt
      simp only [hgo, FInfo.root, getDirectory, M_bind_apply, getRootDir_eq g, hidx']
      unfold Fs.Fat.modify
      simp only [M_bind_apply, M.lift, hent, Option.isSome_some, Bool.and_true]
      by_cases hro : Entry.getAttr e READ_ONLY = true
      · left
        simp only [hro, if_true, M_fail_apply]
        exact ⟨_, rfl⟩
      · right
        have hro' : e.getD 11 0 % 2 = 0 := by
          have : ¬ (Entry.attr e &&& READ_ONLY > 0) := by simpa [Entry.getAttr] using hro
          unfold READ_ONLY Entry.attr at this
          rw [and1] at this
          omega
        refine ⟨E1, e, E2, nm, ty, files, hE, hE1, hin, hn, hk, trivial, rfl, hq2, hro', ?_⟩
        simp only [hro, Bool.false_eq_true, if_false, hv, if_true]
        rw [writebackRoot_eq g hlen]
        rfl

theorem fileRec_path {r : Raw} {b : Read.Fat.Bpb} {fat : Array Nat} {f16 : Bool} {hi : Nat} {path path' e : Bytes} {rec : FileRec}
    (h : fileRec r b fat f16 hi path e = .ok rec) : fileRec r b fat f16 hi path' e = .ok { rec with path := path' } := by
  unfold fileRec at h ⊢
  dsimp only at h ⊢
  cases hc : fileChain fat f16 hi (le16 e 26) (le32 e 28) with
  | error er => rw [hc] at h; cases h
  | ok cl =>
    rw [hc] at h
    simp only [] at h ⊢
    cases hd : cl.mapM (clusterData r b) with
    | error er => rw [hd] at h; cases h
    | ok datas =>
      rw [hd] at h
      simp only [] at h ⊢
      by_cases hsz : le32 e 28 > cl.length * b.spc * b.bps
      · rw [if_pos hsz] at h; cases h
      · rw [if_neg hsz] at h ⊢
        injection h with h
        rw [← h]

/-- the record of a renamed file -/
def recRen (rec : FileRec) (path : Bytes) (a : Nat) : FileRec := { rec with path := path, access := a, locked := decide (a % 2 = 1) }

theorem or32_bit (a k : Nat) (hk : k ≠ 5) : ((a ||| 32) / 2 ^ k) % 2 = (a / 2 ^ k) % 2 := by
  rw [bit_of_testBit, bit_of_testBit, Nat.testBit_or]
  have e : (32 : Nat) = 2 ^ 5 := rfl
  have : (32 : Nat).testBit k = false := by
    rw [e, Nat.testBit_two_pow]
    simp
    omega
  rw [this, Bool.or_false]

theorem fileRec_fields {r : Raw} {b : Read.Fat.Bpb} {fat : Array Nat} {f16 : Bool} {hi : Nat} {path e : Bytes} {rec : FileRec}
    (h : fileRec r b fat f16 hi path e = .ok rec) :
    rec.path = path ∧ rec.access = e.getD 11 0 ∧ rec.locked = decide (e.getD 11 0 % 2 = 1) ∧ rec.isDir = false ∧ rec.eof = le32 e 28 := by
  unfold fileRec at h
  dsimp only at h
  split at h
  · cases h
  · split at h
    · cases h
    · split at h
      · cases h
      · injection h with h
        rw [← h]
        exact ⟨rfl, rfl, rfl, rfl, rfl⟩

/-- **`rename` of a root-level file as observed (run, then flush)**: refused without a change, or the invariant is
re-established and exactly one record of the reading changes: its path becomes `absPath q` (and the archive bit of its
attribute byte is set); content, length, clusters, protection are kept -/
theorem rename_step_core {d : Disk} (inv : Inv d) {p q : Bytes} (a : RootArg p)
    (hfile : ∀ rec, (volOf d).lookup (absPath p) = some rec → rec.isDir = false)
    {res : R Unit} {d' : Disk} (h : runFlush (rename p q) d = (res, d')) :
    (∃ er, res = .error er ∧ d' = d) ∨
    (res = .ok () ∧ Inv d' ∧ ∃ F1 F2 rec, (volOf d).files = F1 ++ rec :: F2 ∧ rec.path = absPath p ∧ rec.isDir = false ∧
      rec.locked = false ∧ rec.access % 2 = 0 ∧ absPath q ∉ (volOf d).paths ∧
      volOf d' = replaced (volOf d) F1 F2 (recRen rec (absPath q) (rec.access ||| 32))) := by
  obtain ⟨f, c⟩ := inv.coh
  have g := inv.geo
  obtain ⟨hread, hwf, hnl⟩ := inv_reads_well_formed inv
  unfold runFlush at h
  rcases rename_run (q := q) g a with ⟨er, hrun⟩ | ⟨E1, e, E2, nm, ty, files, hE, hE1, hin, hn, hk, hvq, hb, hlq, hro, hrun⟩
  · rw [hrun] at h
    simp only [flush_noop g c] at h
    injection h with h1 h2
    exact Or.inl ⟨er, h1.symm, h2.symm⟩
  · right
    rw [inv.lf] at hin hb
    obtain ⟨hA, hlen, _⟩ := rootEntries_spec g
    have hmem : e ∈ dirOfBytes (rootBuf d) := by rw [hE]; simp
    have hel : e.length = 32 := hA e hmem
    have hidx : E1.length < (dirOfBytes (rootBuf d)).length := by rw [hE]; simp
    obtain ⟨hshown, hgood⟩ := shown_of_inMap inv.root hmem hel hin
    have hE1live : ∀ x ∈ E1, live x := fun x hx => live_of_type (hA x (by rw [hE]; simp [hx])) (hE1 x hx)
    -- the new name
    obtain ⟨B, X, np⟩ := nameParts_of_valid hvq
    have aq := rootArg_of_parts np
    have hq11 : (stringToFileName q).length = 11 := by
      rw [stringToFileName_parts np]
      simp [padTo_length]
    obtain ⟨q1, q2, q3, q4⟩ := renEntry_spec hel hq11
    obtain ⟨n1, n2, n3, n4, n5, n6, n7, n8⟩ := fresh_name np q2
    have hkq : keyOf q = trimEnd B ++ [46] ++ trimEnd X := n3
    have hnotlisted := not_listed inv aq hkq n4 n5 hb hlq
    -- the state after the operation
    have g' := rootWrite_geo g hidx q1
    have c' := rootWrite_coh c E1.length (renEntry e q)
    rw [hrun] at h
    simp only [flush_noop g' c'] at h
    injection h with h1 h2
    subst h2
    have hE' : dirOfBytes (rootBuf (rootWrite d E1.length (renEntry e q))) = E1 ++ renEntry e q :: E2 := by
      rw [rootWrite_entries g hidx q1, hE]
      simp
    -- the reading before
    rw [readT_eq g c] at hread
    obtain ⟨R1, y, R2, hy, hfiles, hlo, hhi, hsys, hfree, hrep, _⟩ := readFrom_split hE hE1live hshown hread
    have hpath : entPath [] e = absPath p := by
      unfold entPath
      simp only [List.isEmpty_nil, if_true]
      exact entName_of_key hn hgood hk
    have nd := wfB_paths_nodup hwf
    have hbit4 : (e.getD 11 0 / 16) % 2 = 0 := by
      by_cases hd : (e.getD 11 0 / 16) % 2 = 1
      · obtain ⟨dr, sub, hy', hp', hdir⟩ := rdEnt_dir_head hd hy
        have hmemv : dr ∈ (volOf d).files := by rw [hfiles, hy']; simp
        have hl : (volOf d).lookup (absPath p) = some dr := by
          rw [← hpath, ← hp']
          exact find_path_of_mem nd hmemv
        have := hfile dr hl
        rw [hdir] at this
        cases this
      · omega
    rw [rdEnt_file hbit4] at hy
    cases hfr : fileRec d.raw (rbpb d.bpb) f false (hiOf d.bpb) (entPath [] e) e with
    | error er => rw [hfr] at hy; cases hy
    | ok rec =>
      rw [hfr] at hy
      injection hy with hy
      subst hy
      obtain ⟨k1, k2, k3, k4, _⟩ := fileRec_fields hfr
      -- the entry after
      have b0 := or32_bit (e.getD 11 0) 0 (by omega)
      have b3 := or32_bit (e.getD 11 0) 3 (by omega)
      have b4 := or32_bit (e.getD 11 0) 4 (by omega)
      simp only [Nat.pow_zero, Nat.div_one] at b0
      have e8 : (2 : Nat) ^ 3 = 8 := rfl
      have e16 : (2 : Nat) ^ 4 = 16 := rfl
      rw [e8] at b3
      rw [e16] at b4
      have hbit3' : ((renEntry e q).getD 11 0 / 8) % 2 = 0 := by rw [q3, b3]; exact hshown.2.2.2.1
      have hbit4' : ((renEntry e q).getD 11 0 / 16) % 2 = 0 := by rw [q3, b4]; exact hbit4
      have hshown' : shown (renEntry e q) := ⟨⟨n6, q1⟩, n7, by omega, hbit3', n8⟩
      have hgood' : NameGood (renEntry e q) :=
        ⟨trimEnd B, trimEnd X, n1, n2, n4, n5, (fun hd => by rw [hbit4'] at hd; cases hd), (fresh_noSlash np).1, (fresh_noSlash np).2⟩
      have hpath' : entPath [] (renEntry e q) = absPath q := by
        unfold entPath
        simp only [List.isEmpty_nil, if_true]
        exact entName_of_key n1 hgood' hkq
      have hle16 : le16 (renEntry e q) 26 = le16 e 26 := by
        unfold le16; rw [q4 26 (by omega), q4 (26 + 1) (by omega)]
      have hle32 : le32 (renEntry e q) 28 = le32 e 28 := by
        unfold le32 le16; rw [q4 28 (by omega), q4 (28 + 1) (by omega), q4 (28 + 2) (by omega), q4 (28 + 2 + 1) (by omega)]
      have hy' : rdEnt d.raw (rbpb d.bpb) f false (hiOf d.bpb) 32 [] (renEntry e q) =
          .ok [recRen rec (absPath q) (rec.access ||| 32)] := by
        rw [rdEnt_file hbit4', hpath', fileRec_path (path' := absPath q) (fileRec_attr hle16 hle32 hfr), q3, k2]
        rfl
      have hnew := hrep _ _ _ hE' hshown' hy'
      have hread' : readT (rootWrite d E1.length (renEntry e q)).raw =
          .ok (replaced (volOf d) R1.flatten R2.flatten (recRen rec (absPath q) (rec.access ||| 32))) := by
        rw [readT_eq g' c', rootWrite_readFrom g hidx, hnew]
        unfold replaced
        simp
      have hvol' := volOf_of_read hread'
      have hv : (volOf d).files = R1.flatten ++ rec :: R2.flatten := by rw [hfiles]; simp
      have hpn : absPath q ∉ (volOf d).paths := not_mem_paths_iff.2 hnotlisted
      have hwf' : (replaced (volOf d) R1.flatten R2.flatten (recRen rec (absPath q) (rec.access ||| 32))).wfB = true :=
        wfB_replace hv hwf rfl rfl (Or.inr hpn)
      have hnl' : (replaced (volOf d) R1.flatten R2.flatten (recRen rec (absPath q) (rec.access ||| 32))).noLeak = true := by
        have hao : (replaced (volOf d) R1.flatten R2.flatten (recRen rec (absPath q) (rec.access ||| 32))).allOwned = (volOf d).allOwned := by
          unfold Vol.allOwned replaced
          rw [hv]
          exact allOwned_replace rfl
        unfold Vol.noLeak at hnl ⊢
        rw [hao]
        exact hnl
      have hlocked : rec.locked = false := by rw [k3]; exact decide_eq_false (by omega)
      refine ⟨h1.symm, ?_, R1.flatten, R2.flatten, rec, hv, by rw [k1]; exact hpath, k4, hlocked, by rw [k2]; exact hro, hpn, hvol'⟩
      have htail : TailZero (dirOfBytes (rootBuf (rootWrite d E1.length (renEntry e q)))) := by
        rw [hE']
        have := inv.tail
        rw [hE] at this
        exact tailZero_replace this hE1 n6
      refine { lf := inv.lf, geo := g', coh := ⟨f, c'⟩, root := ?_, tail := htail, read := ⟨_, hread', hwf', hnl'⟩ }
      intro x hx hx0 hx5 hxl
      rw [hE'] at hx
      have hxo : x ∈ dirOfBytes (rootBuf d) ∨ x = renEntry e q := by
        rw [hE]
        simp only [List.mem_append, List.mem_cons] at hx ⊢
        rcases hx with h | h | h
        · exact Or.inl (Or.inl h)
        · exact Or.inr h
        · exact Or.inl (Or.inr (Or.inr h))
      cases hxo with
      | inl hx' => exact inv.root x hx' hx0 hx5 hxl
      | inr hx' =>
        subst hx'
        exact ⟨by omega, n8, hgood'⟩

end A2Verif.FsFat
