import A2Verif.Lemmas.FsProdosPutD
import A2Verif.Lemmas.FsProdosModM
/-!
# What the reader finds under the entry `write_file` built

`lookup_enum`: an association list with ascending keys is the enumeration of its `lookup`.  `seed_read`, `sap_read`: on any
image that agrees with the final one on the blocks taken, an entry with the storage type, key pointer and block count of the
entry under construction reads as the record with the chunks of the file image (each padded to a block) and exactly the
blocks taken as owned blocks.
-/
namespace A2Verif.FsProdos
open A2Verif.Fs.Prodos
open A2Verif.Read.Prodos (entryAt dirChain idxPtr indexEntries readData trimName)
open A2Verif.Read.ProdosT

theorem mapM_ok_map {α β : Type} (g : α → Except String β) (h : α → β) : ∀ (l : List α), (∀ x ∈ l, g x = .ok (h x)) →
    l.mapM g = .ok (l.map h)
  | [], _ => rfl
  | a :: l, hx => by
    rw [List.mapM_cons, hx a List.mem_cons_self, mapM_ok_map g h l (fun x hm => hx x (List.mem_cons_of_mem _ hm))]
    rfl

/-- `readData` of pointers that lead to existing blocks -/
theorem readData_ok (r : Raw) (total : Nat) (ps : List (Nat × Nat)) (h : ∀ x ∈ ps, x.2 < total ∧ x.2 < r.units.size) :
    readData r total ps = .ok (ps.map (fun x => (x.1, unitAt r x.2))) := by
  unfold readData
  apply mapM_ok_map
  intro x hx
  obtain ⟨h1, h2⟩ := h x hx
  obtain ⟨i, b⟩ := x
  simp only
  rw [if_neg (by simp only at h1; omega), raw_unit_ok r b _ h2]; rfl

theorem lookup_none_of_ne {β : Type} (a : Nat) : ∀ (l : List (Nat × β)), (∀ x ∈ l, x.1 ≠ a) → l.lookup a = none
  | [], _ => rfl
  | (k, v) :: l, h => by
    have hk : k ≠ a := h (k, v) List.mem_cons_self
    rw [List.lookup_cons]
    have : (a == k) = false := by simpa using fun e => hk e.symm
    rw [this]
    exact lookup_none_of_ne a l (fun x hx => h x (List.mem_cons_of_mem _ hx))

/-- **an association list with ascending keys is the enumeration of its `lookup`** -/
theorem lookup_enum {β : Type} : ∀ (n a : Nat) (l : List (Nat × β)), (l.map (·.1)).Pairwise (· < ·) →
    (∀ x ∈ l, a ≤ x.1 ∧ x.1 < a + n) →
    (List.range' a n).filterMap (fun k => (l.lookup k).map (fun v => (k, v))) = l
  | 0, a, l, _, hb => by
    cases l with
    | nil => rfl
    | cons x l => have := hb x List.mem_cons_self; omega
  | n + 1, a, [], _, _ => by
    rw [List.filterMap_eq_nil_iff]; intro k _; rfl
  | n + 1, a, (k0, v0) :: l', hp, hb => by
    rw [List.map_cons, List.pairwise_cons] at hp
    have hgt : ∀ x ∈ l', k0 < x.1 := fun x hx => hp.1 x.1 (List.mem_map_of_mem hx)
    have hk0 := hb (k0, v0) List.mem_cons_self
    simp only at hk0
    rw [List.range'_succ, List.filterMap_cons]
    by_cases hka : k0 = a
    · subst hka
      have : ((k0, v0) :: l').lookup k0 = some v0 := by rw [List.lookup_cons]; simp
      rw [this]
      simp only [Option.map_some]
      congr 1
      have hcongr : (List.range' (k0 + 1) n).filterMap (fun k => (((k0, v0) :: l').lookup k).map (fun v => (k, v))) =
          (List.range' (k0 + 1) n).filterMap (fun k => (l'.lookup k).map (fun v => (k, v))) := by
        apply filterMap_congr_mem
        intro k hk
        rw [List.mem_range'_1] at hk
        rw [List.lookup_cons]
        have : (k == k0) = false := by simpa using (show k ≠ k0 by omega)
        rw [this]
      rw [hcongr]
      exact lookup_enum n (k0 + 1) l' hp.2 (fun x hx => by
        have := hgt x hx; have := hb x (List.mem_cons_of_mem _ hx); omega)
    · have hnone : ((k0, v0) :: l').lookup a = none :=
        lookup_none_of_ne a _ (fun x hx => by
          rcases List.mem_cons.mp hx with rfl | hx'
          · exact hka
          · have := hgt x hx'; omega)
      rw [hnone]
      simp only [Option.map_none]
      exact lookup_enum n (a + 1) ((k0, v0) :: l') (by rw [List.map_cons, List.pairwise_cons]; exact hp) (fun x hx => by
        rcases List.mem_cons.mp hx with rfl | hx'
        · simp only; omega
        · have := hgt x hx'; have := hb x hx; omega)

/-- the blocks taken exist, and an image that agrees on them has them -/
theorem unit_of_al {d2 dc : Disk} {bm cnt : Nat} {Al : List Nat} (ctx : LoopCtx d2 bm cnt) (a : AState d2 bm cnt dc Al)
    (r : Raw) (hr : ∀ j ∈ Al, r.units[j]? = dc.raw.units[j]?) (j : Nat) (hj : j ∈ Al) :
    j < d2.total ∧ j < r.units.size ∧ unitAt r j = unitAt dc.raw j ∧ ∀ who, r.unit j who = .ok (unitAt dc.raw j) := by
  have hjt := (a.alfree j hj).2
  have hjs : j < dc.raw.units.size := by rw [a.rawsz, ← ctx.totsz]; exact hjt
  have hget : r.units[j]? = some (unitAt dc.raw j) := by rw [hr j hj]; exact units_get_unitAt _ _ hjs
  have hrs : j < r.units.size := by
    rcases Nat.lt_or_ge j r.units.size with h | h
    · exact h
    · rw [Array.getElem?_eq_none h] at hget; cases hget
  refine ⟨hjt, hrs, unitAt_of_get hget, ?_⟩
  intro who
  unfold Raw.unit; rw [hget]

/-- the chunks of the file image as the reader returns them: each padded to a block -/
def chunksQ (f : FImg) : List (Nat × Bytes) := f.chunks.map (fun c => (c.1, quantize (c.2.take blockSize)))

/-- **the reader on a seedling** -/
theorem seed_read {f : FImg} {d2 : Disk} {bm cnt : Nat} {e0 : Bytes} {nb : Nat} {s : WS} {dc : Disk} {Al : List Nat}
    (ctx : LoopCtx d2 bm cnt) (inv : SeedInv f d2 bm cnt e0 nb s dc Al) (data : Bytes) (hl : f.chunks.lookup 0 = some data)
    (r : Raw) (hr : ∀ j ∈ Al, r.units[j]? = dc.raw.units[j]?) (e : Bytes) (hsame : SameBlocks s.entry e) (total : Nat) (pfx : Bytes) :
    Read.ProdosT.readFile r total e pfx =
      .ok { baseRec e pfx with chunks := [(0, quantize (data.take blockSize))], owned := [nb] } := by
  obtain ⟨hal, hu⟩ := inv.dat data hl
  have hst : e.getD 0 0 / 16 = 1 := by
    rw [hsame.st, inv.ent.b0]; have := Nat.mod_lt (e0.getD 0 0) (by decide : 16 > 0); omega
  have hkey : le16 e 0x11 = nb := by rw [hsame.key]; exact inv.ent.key
  have hused : le16 e 0x13 = 1 := by rw [hsame.used, inv.ent.used, hal]; rfl
  obtain ⟨_, _, _, hunit⟩ := unit_of_al ctx inv.a r hr nb (by rw [hal]; exact List.mem_singleton.mpr rfl)
  unfold Read.ProdosT.readFile
  simp only [hst, hkey, hused, ↓reduceIte, hunit, hu, ne_eq, not_true_eq_false]

/-- **the reader on a sapling** -/
theorem sap_read {f : FImg} {d2 : Disk} {bm cnt : Nat} {e0 : Bytes} {c : Nat} {s : WS} {dc : Disk} {Al P : List Nat}
    (ctx : LoopCtx d2 bm cnt) (inv : SapInv f d2 bm cnt e0 c s dc Al P) (hc : c ≤ 256)
    (r : Raw) (hr : ∀ j ∈ Al, r.units[j]? = dc.raw.units[j]?) (e : Bytes) (hsame : SameBlocks s.entry e) (pfx : Bytes) :
    Read.ProdosT.readFile r d2.total e pfx =
      .ok { baseRec e pfx with
        chunks := (List.range c).filterMap (fun k => (f.chunks.lookup k).map (fun data => (k, quantize (data.take blockSize)))),
        owned := s.indexPtr :: P.filter (· ≠ 0) } := by
  have core := inv.core
  have hst : e.getD 0 0 / 16 = 2 := by
    rw [hsame.st, core.ent.b0]; have := Nat.mod_lt (e0.getD 0 0) (by decide : 16 > 0); omega
  have hkey : le16 e 0x11 = s.indexPtr := by rw [hsame.key]; exact core.ent.key
  have hused : le16 e 0x13 = Al.length := by rw [hsame.used]; exact core.ent.used
  obtain ⟨_, _, _, hunit⟩ := unit_of_al ctx core.a r hr s.indexPtr core.ip
  have hps : indexEntries s.indexBuf 0 = entriesOf 0 P := indexEntries_is _ _ 0 core.ibuf (by rw [core.plen]; exact hc)
  have hmem : ∀ x ∈ entriesOf 0 P, x.2 ∈ Al := by
    intro x hx
    have : x.2 ∈ (entriesOf 0 P).map (·.2) := List.mem_map_of_mem hx
    rw [entriesOf_snd] at this
    obtain ⟨hxP, hx0⟩ := List.mem_filter.mp this
    exact (core.pal x.2 hxP (by simpa using hx0)).1
  have hrd : readData r d2.total (entriesOf 0 P) = .ok ((entriesOf 0 P).map (fun x => (x.1, unitAt r x.2))) :=
    readData_ok r d2.total _ (fun x hx => by
      obtain ⟨a, b, _, _⟩ := unit_of_al ctx core.a r hr x.2 (hmem x hx); exact ⟨a, b⟩)
  have hlen : (entriesOf 0 P).length = dataCount f c := by
    rw [← core.pcnt, ← entriesOf_snd 0 P, List.length_map]
  have hchunks : (entriesOf 0 P).map (fun x => (x.1, unitAt r x.2)) =
      (List.range c).filterMap (fun k => (f.chunks.lookup k).map (fun data => (k, quantize (data.take blockSize)))) := by
    unfold entriesOf
    rw [List.map_filterMap, core.plen]
    apply filterMap_congr_mem
    intro k hk
    have hkc := List.mem_range.mp hk
    cases hl : f.chunks.lookup k with
    | none => rw [core.hole k hkc hl]; rfl
    | some data =>
      obtain ⟨h0, hu⟩ := core.dat k hkc data hl
      rw [if_neg h0]
      have hm : P.getD k 0 ∈ P := by
        simp only [List.getD_eq_getElem?_getD]
        rw [List.getElem?_eq_getElem (by rw [core.plen]; exact hkc)]
        exact List.getElem_mem _
      obtain ⟨_, _, hur, _⟩ := unit_of_al ctx core.a r hr _ (core.pal _ hm h0).1
      simp only [Option.map_some, Nat.zero_add, hur, hu]
  unfold Read.ProdosT.readFile
  simp only [hst, hkey, hused, ↓reduceIte, hunit, inv.iblk, hps, hrd, hchunks, hlen, core.acnt, entriesOf_snd]
  rw [if_neg (by omega)]
  simp [Nat.add_comm]

end A2Verif.FsProdos
