import A2Verif.Lemmas.FsFatAlloc
/-!
# The de-allocation walk of `delete` in the concrete FAT model

`deallocateChain_only_frees`: whatever the chain looks like and however the walk ends (`Ok`, `BadFAT`,
`FirstClusterInvalid`, a panic on an entry outside the buffer), the image is not touched and every FAT entry either
keeps its value or becomes 0 — the walk never links or re-links a cluster, so it cannot hand a cluster of
another file to anybody; and the free count never decreases.
-/
namespace A2Verif.FsFat
open A2Verif A2Verif.Fs.Fat

/-- the buffer `f'` arises from `f` by zeroing some entries -/
def OnlyFreed (f f' : Array Nat) : Prop :=
  f'.size = f.size ∧ BytesOk f' ∧ ∀ m, rd12 (fn f') m = rd12 (fn f) m ∨ rd12 (fn f') m = 0

theorem OnlyFreed.refl {f : Array Nat} (hb : BytesOk f) : OnlyFreed f f := ⟨rfl, hb, fun _ => Or.inl rfl⟩

theorem OnlyFreed.trans {f g h : Array Nat} (a : OnlyFreed f g) (b : OnlyFreed g h) : OnlyFreed f h := by
  refine ⟨by rw [b.1, a.1], b.2.1, fun m => ?_⟩
  cases b.2.2 m with
  | inl e => rw [e]; exact a.2.2 m
  | inr e => exact Or.inr e

theorem deallocate_onlyFreed {f f' : Array Nat} {n : Nat} (hb : BytesOk f) (h : deallocate 12 f n = .ok f') : OnlyFreed f f' := by
  unfold deallocate at h
  obtain ⟨_, hs, hf⟩ := setCluster12_ok h
  refine ⟨hs, bytesOk_setCluster hb h, fun m => ?_⟩
  by_cases e : m = n
  · subst e; right; rw [hf, rd_wr_same _ _ _ (hb _) (hb _)]
  · left; rw [hf, rd_wr_other _ _ _ _ e hb]

/-- one `deallocate_block`: the state keeps its image, the buffer only loses entries -/
theorem deallocateBlock_spec {d : Disk} {f : Array Nat} (hf : d.fat = some f) (ht : d.typ = 12) (hb : BytesOk f) (n : Nat) :
    ∃ res f', deallocateBlock n d = (res, { d with fat := some f' }) ∧ OnlyFreed f f' := by
  cases d with
  | mk raw bpb typ fat lf =>
  simp only at hf ht
  subst hf ht
  unfold deallocateBlock
  rw [M_bind_apply, getFatBuffer_open rfl]
  by_cases hi : InBuf f n
  · obtain ⟨f', e, _, _⟩ := setCluster12_spec (v := 0) hi
    have hd : deallocate 12 f n = .ok f' := e
    have hof := deallocate_onlyFreed hb hd
    by_cases hl : decide (eocMin 12 ≤ rd12 (fn f) n) = true
    · refine ⟨.ok none, f', ?_, hof⟩
      simp only [isLast, getCluster12_eq hi, Except.map, hd, M_bind_apply, M.get, M.lift, M.setFat, M_pure_apply, hl, if_true]
    · refine ⟨.ok (some (rd12 (fn f) n)), f', ?_, hof⟩
      simp only [isLast, getCluster12_eq hi, Except.map, hd, M_bind_apply, M.get, M.lift, M.setFat, M_pure_apply, hl,
        Bool.false_eq_true, if_false]
  · refine ⟨.error .panic, f, ?_, OnlyFreed.refl hb⟩
    simp only [isLast, getCluster12_err hi, Except.map, M_bind_apply, M.get, M.lift]

theorem deallocLoop_spec : ∀ (fuel : Nat) (d : Disk) (f : Array Nat) (curr : Nat), d.fat = some f → d.typ = 12 → BytesOk f →
    ∃ res f', deallocLoop fuel curr d = (res, { d with fat := some f' }) ∧ OnlyFreed f f' := by
  intro fuel
  induction fuel with
  | zero =>
    intro d f curr hf _ hb
    have hd : ({ d with fat := some f } : Disk) = d := by cases d; simp_all
    exact ⟨.error .badFAT, f, by rw [hd]; rfl, OnlyFreed.refl hb⟩
  | succ n ih =>
    intro d f curr hf ht hb
    obtain ⟨res, f1, h1, o1⟩ := deallocateBlock_spec hf ht hb curr
    unfold deallocLoop
    rw [M_bind_apply, h1]
    cases res with
    | error e => exact ⟨.error e, f1, rfl, o1⟩
    | ok r =>
      cases r with
      | none => exact ⟨.ok (), f1, rfl, o1⟩
      | some nx =>
        simp only []
        obtain ⟨res2, f2, h2, o2⟩ := ih { d with fat := some f1 } f1 nx rfl ht o1.2.1
        exact ⟨res2, f2, h2, o1.trans o2⟩

/-- **`deallocate_cluster_chain_data` only frees**: the image is untouched, no entry is linked or re-linked -/
theorem deallocateChain_only_frees {d : Disk} {f : Array Nat} (hf : d.fat = some f) (ht : d.typ = 12) (hb : BytesOk f) (initial : Nat) :
    ∃ res f', deallocateChain initial d = (res, { d with fat := some f' }) ∧ OnlyFreed f f' := by
  have hd : ({ d with fat := some f } : Disk) = d := by cases d; simp_all
  unfold deallocateChain
  by_cases h0 : initial = 0
  · simp only [h0, if_true, M_pure_apply]
    exact ⟨.ok (), f, by rw [hd], OnlyFreed.refl hb⟩
  · simp only [h0, if_false, M_bind_apply, M.get]
    by_cases hr : clusInRng d.bpb initial = true
    · simp only [hr, Bool.not_true, Bool.false_eq_true, if_false]
      exact deallocLoop_spec _ d f initial hf ht hb
    · simp only [hr, Bool.not_false, if_true, M.fail]
      exact ⟨.error .firstClusterInvalid, f, by rw [hd], OnlyFreed.refl hb⟩

/-- zeroing entries never lowers the free count -/
theorem freeCount_mono {b : Bpb} {f f' : Array Nat} (h : OnlyFreed f f') : freeCount b f ≤ freeCount b f' := by
  unfold freeCount
  apply List.countP_mono_left
  intro m _ hm
  unfold isFree12 at *
  cases h.2.2 m with
  | inl e => rw [e]; exact hm
  | inr e => rw [e]; rfl

end A2Verif.FsFat
