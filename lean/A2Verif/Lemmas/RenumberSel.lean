import A2Verif.Lemmas.Renumber
namespace A2Verif.Lemmas.Renumber
open A2Verif.Model.Renumber

/-! Part 7: which rows `renumber` selects -/

theorem selRows_spec {beg end_ : Nat} {xs : List (Nat × List Label)} {a b l0 ln : Nat}
    (h : selRows beg end_ xs a b = some (l0, ln)) :
    l0 ≤ a ∧ b ≤ ln ∧
    (∀ num lab, (num, [lab]) ∈ xs → beg ≤ num → l0 ≤ lab.rng.s.line) ∧
    (∀ num lab, (num, [lab]) ∈ xs → num < end_ → lab.rng.s.line ≤ ln) ∧
    (l0 = a ∨ ∃ num lab, (num, [lab]) ∈ xs ∧ beg ≤ num ∧ lab.rng.s.line = l0) ∧
    (ln = b ∨ ∃ num lab, (num, [lab]) ∈ xs ∧ num < end_ ∧ lab.rng.s.line = ln) := by
  induction xs generalizing a b with
  | nil =>
    simp only [selRows, Option.some.injEq, Prod.mk.injEq] at h
    obtain ⟨rfl, rfl⟩ := h
    simp
  | cons y ys ih =>
    obtain ⟨num, label⟩ := y
    unfold selRows at h
    split at h
    · rename_i lab
      dsimp only at h
      obtain ⟨h1, h2, h3, h4, h5, h6⟩ := ih h
      refine ⟨?_, ?_, ?_, ?_, ?_, ?_⟩
      · split at h1 <;> rename_i hc
        · simp only [Bool.and_eq_true, decide_eq_true_eq] at hc; omega
        · exact h1
      · split at h2 <;> rename_i hc
        · simp only [Bool.and_eq_true, decide_eq_true_eq] at hc; omega
        · exact h2
      · intro n l hm hb
        rcases List.mem_cons.mp hm with heq | hm
        · injection heq with hn hl
          injection hl with hl _
          subst hn hl
          split at h1 <;> rename_i hc
          · exact h1
          · simp only [Bool.and_eq_true, decide_eq_true_eq, not_and, Nat.not_lt] at hc
            have := hc hb
            omega
        · exact h3 n l hm hb
      · intro n l hm hb
        rcases List.mem_cons.mp hm with heq | hm
        · injection heq with hn hl
          injection hl with hl _
          subst hn hl
          split at h2 <;> rename_i hc
          · exact h2
          · simp only [Bool.and_eq_true, decide_eq_true_eq, not_and, Nat.not_lt] at hc
            have := hc hb
            omega
        · exact h4 n l hm hb
      · rcases h5 with h5 | ⟨n, l, hm, hb, hl⟩
        · split at h5 <;> rename_i hc
          · right
            simp only [Bool.and_eq_true, decide_eq_true_eq] at hc
            exact ⟨num, lab, by simp, hc.1, h5.symm⟩
          · left; exact h5
        · right; exact ⟨n, l, List.mem_cons_of_mem _ hm, hb, hl⟩
      · rcases h6 with h6 | ⟨n, l, hm, hb, hl⟩
        · split at h6 <;> rename_i hc
          · right
            simp only [Bool.and_eq_true, decide_eq_true_eq] at hc
            exact ⟨num, lab, by simp, hc.1, h6.symm⟩
          · left; exact h6
        · right; exact ⟨n, l, List.mem_cons_of_mem _ hm, hb, hl⟩
    · cases h

/-- For a program whose numbers ascend with the rows (and fewer than 65536 rows), when some number lies in
`[beg,end)` the rows `renumber` hands to `build_edits` are exactly the rows whose number lies in `[beg,end)`. -/
theorem extSelOf_spec (defs : List (Nat × Label)) (beg end_ : Nat) (ext : Option Range)
    (hext : extSelOf defs beg end_ = some ext)
    (hany : anySelected defs beg end_ = true)
    (hmono : ∀ d1 ∈ defs, ∀ d2 ∈ defs, d1.2.rng.s.line ≤ d2.2.rng.s.line → d1.1 ≤ d2.1)
    (hrows : ∀ d ∈ defs, d.2.rng.s.line < 0x10000) :
    ∃ l0 ln, ext = some ⟨⟨l0, 0⟩, ⟨ln + 1, 0⟩⟩ ∧ l0 ≤ ln ∧
      ∀ d ∈ defs, (l0 ≤ d.2.rng.s.line ∧ d.2.rng.s.line ≤ ln) ↔ (beg ≤ d.1 ∧ d.1 < end_) := by
  unfold extSelOf at hext
  cases hs : selRows beg end_ (group defs) 0x10000 0 with
  | none => simp [hs] at hext
  | some r =>
    obtain ⟨l0, ln⟩ := r
    have hsing := selRows_some hs
    obtain ⟨_, _, h3, h4, h5, h6⟩ := selRows_spec hs
    -- membership in the grouped map
    have hmem : ∀ d ∈ defs, (d.1, [d.2]) ∈ group defs := by
      intro d hd
      obtain ⟨vs, hvs, hl⟩ := (memG_group defs d.1 d.2).mpr hd
      obtain ⟨lab, hlab⟩ := hsing _ hvs
      dsimp only at hlab
      subst hlab
      simp only [List.mem_singleton] at hl
      subst hl
      exact hvs
    have hback : ∀ num lab, (num, [lab]) ∈ group defs → (num, lab) ∈ defs := by
      intro num lab hm
      exact (memG_group defs num lab).mp ⟨[lab], hm, by simp⟩
    -- a selected line exists
    unfold anySelected at hany
    obtain ⟨ds, hds, hsel⟩ := List.any_eq_true.mp hany
    simp only [Bool.and_eq_true, decide_eq_true_eq] at hsel
    have hs0 := h3 _ _ (hmem ds hds) hsel.1
    have hs1 := h4 _ _ (hmem ds hds) hsel.2
    have hle : l0 ≤ ln := by omega
    refine ⟨l0, ln, ?_, hle, ?_⟩
    · simp only [hs, Option.map_some, hle, ↓reduceIte, Option.some.injEq] at hext
      exact hext.symm
    · intro d hd
      constructor
      · rintro ⟨hd0, hd1⟩
        constructor
        · rcases h5 with h5 | ⟨n, l, hm, hb, hl⟩
          · have := hrows d hd; omega
          · have := hmono (n, l) (hback n l hm) d hd (by dsimp only; omega)
            dsimp only at this; omega
        · rcases h6 with h6 | ⟨n, l, hm, hb, hl⟩
          · have := hmono d hd ds hds (by omega)
            omega
          · have := hmono d hd (n, l) (hback n l hm) (by dsimp only; omega)
            dsimp only at this; omega
      · rintro ⟨hb, he⟩
        exact ⟨h3 _ _ (hmem d hd) hb, h4 _ _ (hmem d hd) he⟩

end A2Verif.Lemmas.Renumber
