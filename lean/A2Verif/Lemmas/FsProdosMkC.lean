import A2Verif.Lemmas.FsProdosMkB
/-!
# `create(path)` in the volume directory refines the abstract `mkdir`

`new_dir_read`: the reader on the key block of a fresh directory — one block, no files.  `mkdir_ok`: from a state between two
calls, with a valid unlisted name, a free slot in the volume directory and a free block, `create` succeeds; after `get_img()`
the state satisfies `SInv`, the reading is the old one with the record of the new directory inserted, the step is the abstract
`mkdir`, exactly one block leaves the free list.  `mkdir_refines'`: every outcome.
-/
namespace A2Verif.FsProdos
open A2Verif.Fs.Prodos
open A2Verif.Read.Prodos (entryAt dirChain idxPtr indexEntries readData trimName bitmapFree)
open A2Verif.Read.ProdosT

/-- the reader on the key block of a fresh directory -/
theorem new_dir_read {r : Raw} {total nb B idx : Nat} {kb : Bytes} (nk : NewKey kb B idx) (hu : unitAt r nb = kb)
    (hnb0 : nb ≠ 0) (hnbt : nb < total) (hnbsz : nb < r.units.size) (pfx : Bytes) (fuel : Nat) :
    readDir (fuel + 1) r total nb pfx 1 = .ok ([], [nb]) ∧ dirChain r total 1000 nb [] = .ok [nb] ∧
    (∀ y ∈ dirSlots r nb [nb], y.1.getD 0 0 = 0) := by
  have hgeo : StdGeo r nb := by unfold StdGeo; rw [hu]; exact nk.geo
  have hic : IsChain r nb [nb] := by
    refine IsChain.cons hnb0 (units_get_unitAt _ _ hnbsz) ?_
    rw [hu, nk.next]; exact IsChain.nil
  have hchain : dirChain r total 1000 nb [] = .ok [nb] := by
    have := dirChain_of_isChain r total [nb] 1000 nb [] hic (fun x hx => by
      rw [List.mem_singleton] at hx; subst hx; exact ⟨hnbt, by simp⟩) (by simp) (by simp)
    simpa using this
  have hempty : ∀ y ∈ dirSlots r nb [nb], y.1.getD 0 0 = 0 := by
    intro y hy
    obtain ⟨b, hb, k, hk13, hkey, rfl⟩ := mem_dirSlots.mp hy
    rw [List.mem_singleton] at hb; subst hb
    simp only
    rw [hu]
    exact nk.empty k (hkey rfl) hk13
  have hfilter : (dirSlots r nb [nb]).filter isAct = [] := by
    rw [List.filter_eq_nil_iff]
    intro y hy
    unfold isAct
    rw [hempty y hy]; decide
  refine ⟨?_, hchain, hempty⟩
  rw [readDir_iff r total fuel nb pfx 1 [] [nb] hnb0 hgeo]
  refine ⟨by omega, hchain, (by rw [hfilter, hu, nk.count]; rfl), (by rw [hfilter]; intro x hx; cases hx), (by rw [hfilter]; rfl)⟩

/-- **`create(path)` succeeds and refines the abstract `mkdir`** (directory in the volume directory) -/
theorem mkdir_ok {d : Disk} (hs : SInv d) (v : Vol) (fsL : List LRec) (ch : List Nat)
    (hr : Read.ProdosT.read d.raw = .ok v) (ht : readTree d.raw (hdrTotal d.raw) = .ok (fsL, ch))
    (path time nm : Bytes) (htime : time.length = 4 ∧ ∀ x ∈ time, x < 256)
    (hnodes : normalizePath (volName (hdrOf d.raw)) path = .ok [volName (hdrOf d.raw), nm]) (hnm : nm ≠ [])
    (hv : isNameValid nm = true)
    (hnone : (dirSlots d.raw 2 ch).find? (isHit allTypes nm) = none)
    (x : Bytes × Nat × Nat) (hslot : (dirSlots d.raw 2 ch).find? isFreeSlot = some x)
    (nb : Nat) (hfind : (List.range d.total).find? (freeB (effBuf d (hdrBm d.raw) (nbmOf (hdrTotal d.raw)))) = some nb) :
    ∃ d3 d4 v4, mkdir path time d = (.ok (), d3) ∧ d3.flush = (.ok (), d4) ∧ SInv d4 ∧
      Read.ProdosT.read d4.raw = .ok v4 ∧ stepOk pdParams v (.mkdir (upper nm)) true v4 = true ∧
      v4.label = v.label ∧ v4.freeUnits.length + 1 = v.freeUnits.length := by
  obtain ⟨v', fsL', ch', hr', ht', c, hts, heff, hbsz, hbok⟩ := hs.ctx
  have e1 : v' = v := by rw [hr] at hr'; injection hr' with h; exact h.symm
  subst e1
  have e2 : fsL' = fsL ∧ ch' = ch := by
    rw [ht] at ht'; injection ht' with h; injection h with h1 h2; exact ⟨h1.symm, h2.symm⟩
  obtain ⟨rfl, rfl⟩ := e2
  obtain ⟨hw, hn, hroot, hvv, hc, hic, hnd, hchf, h2, h6, h3, hbt, hstv⟩ := root_chain_facts hs.inv v' fsL' ch' hr ht
  obtain ⟨w1, w2, w3, w4, w5, w6, w7⟩ := wfB_iff.1 hw
  have hsz := hs.inv.size
  have hshape := hs.inv.shape
  have hfreeU : v'.freeUnits = (List.range d.total).filter (freeB (effBuf d (hdrBm d.raw) (nbmOf (hdrTotal d.raw)))) := by
    rw [hvv, heff, hts]
  have hfree_iff : ∀ u, u ∈ v'.freeUnits ↔ u < d.total ∧ freeB (effBuf d (hdrBm d.raw) (nbmOf (hdrTotal d.raw))) u = true := by
    intro u; rw [hfreeU, List.mem_filter, List.mem_range]
  have hsys_ch : ∀ b ∈ ch', b ∈ v'.sys := fun b hb => (hchf b hb).2.2.2
  have hsys_bm : ∀ b ∈ bmRange (hdrBm d.raw) (nbmOf (hdrTotal d.raw)), b ∈ v'.sys := by
    intro b hb
    rw [hvv]; simp only
    rw [mem_bmRange] at hb
    apply List.mem_append_right
    rw [List.mem_map]; exact ⟨b - hdrBm d.raw, List.mem_range.mpr (by omega), by omega⟩
  have hsys0 : 0 ∈ v'.sys := by rw [hvv]; simp
  have hfreeOrd : ∀ b, b < d.total → freeB (effBuf d (hdrBm d.raw) (nbmOf (hdrTotal d.raw))) b = true →
      b ∉ bmRange (hdrBm d.raw) (nbmOf (hdrTotal d.raw)) ∧ b ∉ ch' := by
    intro b hb hf
    have hbf : b ∈ v'.freeUnits := (hfree_iff b).mpr ⟨hb, hf⟩
    exact ⟨fun h => w4 b (hsys_bm b h) hbf, fun h => w4 b (hsys_ch b h) hbf⟩
  have htot16 : d.total ≤ 65535 := by
    rw [← hts]; unfold hdrTotal
    have := le16_lt (unitAt d.raw 2) 41 (hshape.unit c.two_lt).2
    omega
  -- the slot
  obtain ⟨hxm, hxfree⟩ := mem_find hslot
  obtain ⟨B, hB, k, hk13, hkey, rfl⟩ := mem_dirSlots.mp hxm
  have hx0 : (entryAt (unitAt d.raw B) k 39).getD 0 0 = 0 := by
    unfold isFreeSlot Ent.isActive Ent.storLen at hxfree
    simpa using hxfree
  have hinact : isAct (entryAt (unitAt d.raw B) k 39, B, k + 1) = false := by
    unfold isAct; simp only [hx0]; decide
  obtain ⟨hsplit, hs1, hs2, hfs2, hfiles, hdisj, hxnd, hxown, hall, hcnt0⟩ :=
    slot_split_facts hs.inv v' fsL' ch' hr ht _ hxm
  simp only at hsplit hs1 hs2 hfs2 hfiles hdisj hxnd hxown
  have hgx : slotRecs 69 d.raw (hdrTotal d.raw) [] 0 (entryAt (unitAt d.raw B) k 39, B, k + 1) = [] := by
    unfold slotRecs; rw [hinact]; rfl
  rw [hgx] at hfiles
  simp only [List.map_nil, List.append_nil] at hfiles
  have hcount : le16 (unitAt d.raw 2) 37 + 1 ≤ 65535 := by
    rw [← hcnt0]
    have h1 := List.length_filter_le isAct (dirSlots d.raw 2 ch')
    have h2' := dirSlots_length_le d.raw 2 ch'
    have := hroot.len
    omega
  -- the new block
  have hnbl : nb < d.total := List.mem_range.mp (List.mem_of_find?_eq_some hfind)
  have hnbf : freeB (effBuf d (hdrBm d.raw) (nbmOf (hdrTotal d.raw))) nb = true := List.find?_some hfind
  have hnbfree : nb ∈ v'.freeUnits := (hfree_iff nb).mpr ⟨hnbl, hnbf⟩
  obtain ⟨hnbnb, hnbch⟩ := hfreeOrd nb hnbl hnbf
  have hnb0 : nb ≠ 0 := fun e => w4 0 hsys0 (e ▸ hnbfree)
  have hBt : B < d.total := by rw [← hts]; exact (hchf B hB).1
  -- the model
  obtain ⟨d3, hmk, n3⟩ := mkdir_trace c (by rw [← hts]; omega) htot16 hs.total
    (by rw [heff, hbsz, ← hts]; unfold nbmOf blockSize; omega) hshape hfreeOrd path time nm hnodes hnm hv hnone B k hB hk13 hkey hslot
    nb hfind hcount
  have se := createSubdir_facts nm nb 2 time hv htime.1 htime.2 (by omega)
  have nk := newKey_facts nm B (k + 1) time hv htime.1 htime.2 (by omega) (by omega)
  rw [take_full _ se.len] at n3
  -- the image
  have himg := mkdir_image (r := d.raw) (ch := ch') (B := B) (k := k) (nb := nb) (createSubdir nm nb 2 time)
      (quantize ((u16le 0 ++ u16le 0 ++ subDirHeader nm B (k + 1) time ++ zeros (12 * entryLen)).take blockSize))
      hshape (fun b hb => by rw [← hsz]; exact (hchf b hb).1) hB h2 hk13 hkey se.len se.bytes (by omega)
      (by rw [← hs.total]; exact hnbl) hnbch nk.len nk.bytes
  simp only [] at himg
  obtain ⟨r3, hr3⟩ : ∃ r3 : Raw, r3 = setUnit (setUnit (setUnit d.raw 2 (patched (unitAt d.raw 2) 37 (u16le (le16 (unitAt d.raw 2) 37 + 1)))) B
      (patched (if B = 2 then patched (unitAt d.raw 2) 37 (u16le (le16 (unitAt d.raw 2) 37 + 1)) else unitAt d.raw B)
        (4 + k * 39) (createSubdir nm nb 2 time))) nb
      (quantize ((u16le 0 ++ u16le 0 ++ subDirHeader nm B (k + 1) time ++ zeros (12 * entryLen)).take blockSize)) := ⟨_, rfl⟩
  rw [← hr3] at himg n3
  obtain ⟨hpatch, hout, hshape3, hcnt3, he3, hunb, hsz3⟩ := himg
  -- the record of the new directory
  have hst' : (createSubdir nm nb 2 time).getD 0 0 / 16 = 0xD := by rw [se.b0]; have := se.nlen; omega
  have hkeyok : ¬ (le16 (createSubdir nm nb 2 time) 0x11 = 0 ∨ le16 (createSubdir nm nb 2 time) 0x11 ≥ hdrTotal d.raw) := by
    rw [se.key, hts]; omega
  obtain ⟨hrd3, _, _⟩ := new_dir_read (total := hdrTotal d.raw) nk hunb hnb0 (by rw [hts]; exact hnbl)
    (by rw [hsz3, ← hs.total]; exact hnbl) (baseRec (createSubdir nm nb 2 time) []).path 68
  have hRE3 := RE_dir_of 69 r3 (hdrTotal d.raw) [] 0 (createSubdir nm nb 2 time, B, k + 1) [] [nb] hst' hkeyok
    (by simp only; rw [se.key]; exact hrd3) (by simp only; rw [se.used]; rfl)
  have hact' : isAct (createSubdir nm nb 2 time, B, k + 1) = true := by
    unfold isAct; simp only [ne_eq, decide_eq_true_eq]; rw [hst']; decide
  have hsr3 : slotRecs 69 r3
      (hdrTotal d.raw) [] 0 (createSubdir nm nb 2 time, B, k + 1) =
      [(dirRec (createSubdir nm nb 2 time) [] [nb], B, k + 1)] := by
    unfold slotRecs; rw [if_pos hact', hRE3]; rfl
  have hcnt3' : le16 (unitAt r3 2) 37 =
      ((sBefore (dirSlots d.raw 2 ch') (B, k + 1) ++ (createSubdir nm nb 2 time, B, k + 1) ::
        sAfter (dirSlots d.raw 2 ch') (B, k + 1)).filter isAct).length := by
    rw [hcnt3, ← hcnt0]
    conv => lhs; rw [hsplit]
    rw [filter_length_mid, filter_length_mid, hinact, hact']
    simp
    omega
  -- the buffer
  have hused : ∀ b ∈ ch', freeB (effBuf d (hdrBm d.raw) (nbmOf (hdrTotal d.raw))) b = false := by
    intro b hb
    cases hfb : freeB (effBuf d (hdrBm d.raw) (nbmOf (hdrTotal d.raw))) b with
    | false => rfl
    | true => exact absurd hb (hfreeOrd b (by rw [← hts]; exact (hchf b hb).1) hfb).2
  have hbok0 : BytesOk (effBuf d (hdrBm d.raw) (nbmOf (hdrTotal d.raw))) := by rw [heff]; exact hbok
  have hcovt : ∀ y, y < d.total → y / 8 < (effBuf d (hdrBm d.raw) (nbmOf (hdrTotal d.raw))).size := by
    intro y hy; rw [heff, hbsz]; exact cover_of_lt (by rw [hts]; exact hy)
  have hf3 : ∀ j, freeB (clearBit (clearBit (clearBit (effBuf d (hdrBm d.raw) (nbmOf (hdrTotal d.raw))) 2) B) nb) j =
      (freeB (effBuf d (hdrBm d.raw) (nbmOf (hdrTotal d.raw))) j && ![nb].contains j) := by
    intro j
    have h2t : 2 < d.total := by rw [← hts]; omega
    rw [freeB_clearBit _ nb j (bytesOk_clearBit _ _ (bytesOk_clearBit _ _ hbok0)) (by rw [size_clearBit, size_clearBit]; exact hcovt nb hnbl),
      freeB_clearBit_used _ B (bytesOk_clearBit _ _ hbok0) (by rw [size_clearBit]; exact hcovt B hBt)
        (by rw [freeB_clearBit_used _ 2 hbok0 (hcovt 2 h2t) (hused 2 h2)]; exact hused B hB) j,
      freeB_clearBit_used _ 2 hbok0 (hcovt 2 h2t) (hused 2 h2) j]
    by_cases hj : j = nb
    · subst hj; simp
    · simp [hj]
  have hbs3 : (clearBit (clearBit (clearBit (effBuf d (hdrBm d.raw) (nbmOf (hdrTotal d.raw))) 2) B) nb).size =
      blockSize * nbmOf (hdrTotal d.raw) := by
    rw [size_clearBit, size_clearBit, size_clearBit, heff, hbsz]
  have hbok3 := bytesOk_clearBit _ nb (bytesOk_clearBit _ B (bytesOk_clearBit _ 2 hbok0))
  -- the reading
  obtain ⟨hrd4, htree4, htot4, hbm4, hsz4, hshape4, hgeo4, hprev4, hslots4, hslotok4, hsame4⟩ :=
    patched_reading hs.inv v' fsL' ch' hr ht (entryAt (unitAt d.raw B) k 39) B k hxm [nb] hpatch
      (fun j hjc hjn => hout j hjc (fun e => hjn (by rw [e]; exact List.mem_singleton.mpr rfl)))
      (fun u hu => Or.inl (fun h => w3 u h (by rw [List.mem_singleton.mp hu]; exact hnbfree))) hshape3 _ _ rfl rfl _ he3.symm hcnt3'
      (fun _ => ⟨_, hRE3⟩)
      (fun j hj => by
        rw [hsr3]
        simp only [List.map_cons, List.map_nil, List.flatMap_cons, List.flatMap_nil, List.append_nil]
        show j ∉ [nb]
        intro hjo
        rw [List.mem_singleton] at hjo
        exact hnbnb (hjo ▸ hj))
      _ hbs3 hbok3 _ rfl _ rfl
  rw [hsr3] at hrd4 htree4
  obtain ⟨v4, hv4⟩ : ∃ v4 : Vol, v4 = nextVol v' (hdrTotal d.raw)
      (((sBefore (dirSlots d.raw 2 ch') (B, k + 1)).flatMap (slotRecs 69 d.raw (hdrTotal d.raw) [] 0) ++
        [(dirRec (createSubdir nm nb 2 time) [] [nb], B, k + 1)] ++
        (sAfter (dirSlots d.raw 2 ch') (B, k + 1)).flatMap (slotRecs 69 d.raw (hdrTotal d.raw) [] 0)).map (·.1))
      ((List.range (hdrTotal d.raw)).filter
        (freeB (clearBit (clearBit (clearBit (effBuf d (hdrBm d.raw) (nbmOf (hdrTotal d.raw))) 2) B) nb))) := ⟨_, rfl⟩
  have hrd4' : Read.ProdosT.read (wbRaw r3 (hdrBm d.raw) (nbmOf (hdrTotal d.raw))
      (clearBit (clearBit (clearBit (effBuf d (hdrBm d.raw) (nbmOf (hdrTotal d.raw))) 2) B) nb)) = .ok v4 := by rw [hv4]; exact hrd4
  have hfiles4 : v4.files = ((sBefore (dirSlots d.raw 2 ch') (B, k + 1)).flatMap (slotRecs 69 d.raw (hdrTotal d.raw) [] 0)).map (·.1) ++
      dirRec (createSubdir nm nb 2 time) [] [nb] ::
        ((sAfter (dirSlots d.raw 2 ch') (B, k + 1)).flatMap (slotRecs 69 d.raw (hdrTotal d.raw) [] 0)).map (·.1) := by
    rw [hv4]; show List.map _ _ = _; rw [List.map_append, List.map_append, List.append_assoc]; rfl
  have hfree4' : v4.freeUnits = (List.range (hdrTotal d.raw)).filter
      (freeB (clearBit (clearBit (clearBit (effBuf d (hdrBm d.raw) (nbmOf (hdrTotal d.raw))) 2) B) nb)) := by
    rw [hv4]; rfl
  have hfree4 : ∀ u, u ∈ v4.freeUnits ↔ (u ∈ v'.freeUnits ∧ u ∉ (dirRec (createSubdir nm nb 2 time) [] [nb]).owned) := by
    intro u
    rw [hfree4', List.mem_filter, List.mem_range, hf3 u, hfree_iff u, hts]
    show _ ↔ _ ∧ u ∉ [nb]
    simp only [Bool.and_eq_true, Bool.not_eq_true', List.contains_eq_mem, decide_eq_false_iff_not]
    constructor
    · rintro ⟨a, b, c⟩; exact ⟨⟨a, b⟩, c⟩
    · rintro ⟨⟨a, b⟩, c⟩; exact ⟨a, b, c⟩
  have hgpath : (dirRec (createSubdir nm nb 2 time) [] [nb]).path = upper nm := by
    show (baseRec _ []).path = _
    rw [baseRec_path_root, se.name]
  have hpfresh := path_not_listed hs.inv v' fsL' ch' hr ht nm hv hnone
  obtain ⟨hw4, hn4⟩ := vol_insert (v := v') (v' := v4) (g := dirRec (createSubdir nm nb 2 time) [] [nb]) hw hn hfiles hfiles4
    (by rw [hv4, hvv]; rfl) (by rw [hv4, hvv]; rfl) (by rw [hv4]; rfl)
    (by rw [hfree4']; exact List.Nodup.sublist List.filter_sublist List.nodup_range) hfree4
    (fun u hu => by rw [List.mem_singleton.mp hu]; exact hnbfree) (by show [nb].Nodup; simp)
    (by rw [hgpath]; exact hpfresh) (by show ([] : List Nat).Pairwise _; exact List.Pairwise.nil)
  -- the invariant
  have hu4nb : unitAt (wbRaw r3 (hdrBm d.raw) (nbmOf (hdrTotal d.raw))
      (clearBit (clearBit (clearBit (effBuf d (hdrBm d.raw) (nbmOf (hdrTotal d.raw))) 2) B) nb)) nb =
      quantize ((u16le 0 ++ u16le 0 ++ subDirHeader nm B (k + 1) time ++ zeros (12 * entryLen)).take blockSize) := by
    rw [unitAt_congr (hsame4 nb hnbnb)]; exact hunb
  obtain ⟨r4, hr4⟩ : ∃ r4 : Raw, r4 = wbRaw r3 (hdrBm d.raw) (nbmOf (hdrTotal d.raw))
      (clearBit (clearBit (clearBit (effBuf d (hdrBm d.raw) (nbmOf (hdrTotal d.raw))) 2) B) nb) := ⟨_, rfl⟩
  rw [← hr4] at hrd4' htree4 htot4 hbm4 hsz4 hshape4 hgeo4 hprev4 hslots4 hslotok4 hsame4 hu4nb
  obtain ⟨e', he'⟩ : ∃ e' : Bytes, e' = createSubdir nm nb 2 time := ⟨_, rfl⟩
  obtain ⟨KB, hKB⟩ : ∃ KB : Bytes, KB = quantize ((u16le 0 ++ u16le 0 ++ subDirHeader nm B (k + 1) time ++ zeros (12 * entryLen)).take blockSize) := ⟨_, rfl⟩
  rw [← he'] at se hst' hslots4
  rw [← hKB] at nk hu4nb
  have hsub : SubOk r4 (hdrTotal r4) (e', B, k + 1) := by
    obtain ⟨_, hch4, hemp4⟩ := new_dir_read (total := hdrTotal d.raw) nk hu4nb hnb0 (by rw [hts]; exact hnbl)
      (by rw [hsz4, ← hs.total]; exact hnbl) [] 0
    rw [htot4]
    have hk17 : le16 (e', B, k + 1).1 0x11 = nb := se.key
    apply SubOk.of (sch := [nb]) (by rw [hk17]; exact hch4)
    unfold SubTail
    rw [hk17, hu4nb]
    refine ⟨?_, ?_, ⟨?_, trivial⟩, by simp, nk.hdr, nk.parent.1, nk.parent.2, ?_⟩
    · show e'.getD 0 0 % 16 ≠ 0
      rw [se.b0]; have := se.nlen; omega
    · unfold StdGeo; rw [hu4nb]; exact nk.geo
    · rw [hu4nb]; exact nk.prev
    · intro y hy
      exact Or.inl (hemp4 y hy)
  have hinv4 : Inv r4 := by
    refine ⟨hshape4, by rw [htot4, hsz4]; exact hsz, v4, _, ch', hrd4', by rw [htot4]; exact htree4, hw4, hn4, hgeo4, hprev4, hroot.len, ?_,
      names_after hroot hsplit hslots4 (fun _ => by rw [se.name]; exact isNameValid_no_slash nm hv)⟩
    intro y hy
    rw [hslots4] at hy
    rcases List.mem_append.mp hy with a | a
    · exact hslotok4 y (List.mem_append_left _ a)
    · rcases List.mem_cons.mp a with e | a'
      · rw [e]; exact Or.inr ⟨hst', hsub⟩
      · exact hslotok4 y (List.mem_append_right _ a')
  rw [hr4] at hinv4 hbm4 hsz4
  have hlen3 : ∀ i ∈ bmRange (hdrBm d.raw) (nbmOf (hdrTotal d.raw)),
      (unitAt r3 i).length = blockSize := by
    intro i hi
    exact (hshape3.unit (by rw [hsz3]; exact c.st.exist i hi)).1
  obtain ⟨d4, hfl4, hraw4, hs4⟩ := close_op hs _ _ n3 hbs3 hlen3 hinv4 hbm4 hsz4
  refine ⟨d3, d4, v4, hmk, hfl4, hs4, by rw [hraw4, ← hr4]; exact hrd4', ?_, by rw [hv4]; rfl, ?_⟩
  · exact stepOk_mkdir_mid (P := pdParams) hw hw4 hpfresh hfiles hfiles4 hgpath rfl
      (fun u hu => by rw [List.mem_singleton.mp hu]; exact hnbfree)
  · rw [hfree4']
    have hfun : (List.range (hdrTotal d.raw)).filter
        (freeB (clearBit (clearBit (clearBit (effBuf d (hdrBm d.raw) (nbmOf (hdrTotal d.raw))) 2) B) nb)) =
        (List.range (hdrTotal d.raw)).filter (fun j => freeB (effBuf d (hdrBm d.raw) (nbmOf (hdrTotal d.raw))) j && ![nb].contains j) := by
      apply List.filter_congr; intro j _; exact hf3 j
    have hfreeU' : v'.freeUnits = (List.range (hdrTotal d.raw)).filter (freeB (effBuf d (hdrBm d.raw) (nbmOf (hdrTotal d.raw)))) := by
      rw [hvv, heff]
    rw [hfun, hfreeU']
    exact filter_sub_length _ _ [nb] (by simp) (fun b hb => by
      rw [List.mem_singleton.mp hb]; exact ⟨hnbf, by rw [hts]; exact hnbl⟩)

theorem mkdir_prep_fail (path time : Bytes) (d d' : Disk) (e : Err) (hp : prepareToWrite path d = (.error e, d')) :
    mkdir path time d = (.error e, d') := by
  unfold mkdir
  simp only [bind_def]
  exact bind_err _ _ d d' e hp

/-- **`create(path)` refines the abstract `mkdir`** (directory in the volume directory): every outcome — `SYNTAX`, `DUPLICATE
FILENAME`, `DIRECTORY FULL`, `DISK FULL`, or carried out -/
theorem mkdir_refines' {d : Disk} (hs : SInv d) (path time nm : Bytes) (htime : time.length = 4 ∧ ∀ x ∈ time, x < 256)
    (hnodes : normalizePath (volName (hdrOf d.raw)) path = .ok [volName (hdrOf d.raw), nm]) (hnm : nm ≠ []) :
    Refines d (mkdir path time d) (.mkdir (upper nm)) := by
  obtain ⟨v, fsL, ch, hr, ht, c, hts, heff, hbsz, hbok⟩ := hs.ctx
  obtain ⟨hw, hn, hroot, hvv, hc, hic, hnd, hchf, h2, h6, h3, hbt, hstv⟩ := root_chain_facts hs.inv v fsL ch hr ht
  have ht0 : d.total ≠ 0 := by rw [← hts]; omega
  have hcov : d.total ≤ 8 * (effBuf d (hdrBm d.raw) (nbmOf (hdrTotal d.raw))).size := by
    rw [heff, hbsz, ← hts]; unfold nbmOf blockSize; omega
  have hprep := prepare_root c path nm hnodes hnm ht0 hcov
  by_cases hv : isNameValid nm = true
  case neg =>
    have hv' : isNameValid nm = false := by simpa using hv
    simp only [hv', Bool.not_false, ↓reduceIte] at hprep
    rw [mkdir_prep_fail path time d d _ hprep]; exact refines_refused hs _ _
  simp only [hv, Bool.not_true, Bool.false_eq_true, ↓reduceIte] at hprep
  cases hdup : (dirSlots d.raw 2 ch).find? (isHit allTypes nm) with
  | some y =>
    rw [hdup] at hprep
    rw [mkdir_prep_fail path time d d _ hprep]; exact refines_refused hs _ _
  | none =>
    rw [hdup] at hprep
    simp only [] at hprep
    cases hslot : (dirSlots d.raw 2 ch).find? isFreeSlot with
    | none =>
      rw [hslot] at hprep
      rw [mkdir_prep_fail path time d d _ hprep]; exact refines_refused hs _ _
    | some x =>
      rw [hslot] at hprep
      simp only [] at hprep
      cases hfind : (List.range d.total).find? (freeB (effBuf d (hdrBm d.raw) (nbmOf (hdrTotal d.raw)))) with
      | none =>
        rw [hfind] at hprep
        rw [mkdir_prep_fail path time d _ _ hprep]; exact refines_refused_open hs _ _
      | some nb =>
        obtain ⟨d3, d4, v4, hmk, hfl, hs4, hr4, hstep, hlab, _⟩ :=
          mkdir_ok hs v fsL ch hr ht path time nm htime hnodes hnm hv hdup x hslot nb hfind
        rw [hmk]
        exact ⟨d4, v, v4, hfl, hs4, hr, hr4, hstep, hlab⟩

end A2Verif.FsProdos
