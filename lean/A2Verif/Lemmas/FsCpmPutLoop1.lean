import A2Verif.Lemmas.FsCpmPutSpec
/-!
# Successful `put`, byte level: what `open_extent`, `set_block_ptr`, `close_extent` do to the 32 bytes of an entry
-/
namespace A2Verif.FsCpm
open A2Verif.Fs.Cpm
open A2Verif.Read.Cpm (Dpb fileKey extNum entryPtrs pathOf slots)

theorem entryPtrs_getD (d : Dpb) (e : Bytes) {k : Nat} (hk : k < slots d) :
    (entryPtrs d e).getD k 0 = if d.dsm ≥ 256 then le16 e (16 + 2 * k) else e.getD (16 + k) 0 := by
  unfold Read.Cpm.entryPtrs
  unfold Read.Cpm.slots at hk
  by_cases c : Read.Cpm.ptr16 d = true
  · rw [if_pos c] at hk ⊢
    have c' : d.dsm ≥ 256 := by unfold Read.Cpm.ptr16 at c; simpa using c
    rw [if_pos c']
    simp only [List.getD_eq_getElem?_getD, List.getElem?_map, List.getElem?_range hk, Option.map_some, Option.getD_some]
  · rw [if_neg c] at hk ⊢
    have c' : ¬ d.dsm ≥ 256 := by unfold Read.Cpm.ptr16 at c; simpa using c
    rw [if_neg c']
    simp only [List.getD_eq_getElem?_getD, List.getElem?_map, List.getElem?_range hk, Option.map_some, Option.getD_some]

theorem entryPtrs_getElem? (d : Dpb) (e : Bytes) {k p : Nat} (h : (entryPtrs d e)[k]? = some p) :
    k < slots d ∧ (entryPtrs d e).getD k 0 = p := by
  have hk : k < (entryPtrs d e).length := (List.getElem?_eq_some_iff.1 h).1
  rw [entryPtrs_length] at hk
  exact ⟨hk, by rw [List.getD_eq_getElem?_getD, h]; rfl⟩

theorem entryPtrs_getElem?_of (d : Dpb) (e : Bytes) {k : Nat} (hk : k < slots d) :
    (entryPtrs d e)[k]? = some ((entryPtrs d e).getD k 0) := by
  have : k < (entryPtrs d e).length := by rw [entryPtrs_length]; exact hk
  rw [List.getD_eq_getElem?_getD, List.getElem?_eq_getElem this]; rfl

/-- entries that agree from byte 16 on have the same pointers -/
theorem entryPtrs_congr {d : Dpb} {e e' : Bytes} (h : ∀ i, 16 ≤ i → e'.getD i 0 = e.getD i 0) : entryPtrs d e' = entryPtrs d e := by
  unfold Read.Cpm.entryPtrs
  split
  · apply List.map_congr_left
    intro k _
    exact le16_congr (h _ (by omega)) (h _ (by omega))
  · apply List.map_congr_left
    intro k _
    exact h _ (by omega)

theorem dpbPut_mul {d : Dpb} (hd : DpbPut d) : (d.exm + 1) * putSpl d = slots d := by
  obtain ⟨h1, h2, _⟩ := hd
  rw [← h2]
  unfold putSpe extentCapacity
  have hp := blockSize_pos d
  show _ = (d.exm + 1) * 16384 / blockSize d
  rw [← h1, ← Nat.mul_assoc, Nat.mul_div_cancel _ hp]

theorem putSpl_pos {d : Dpb} (hd : DpbPut d) : 0 < putSpl d := by
  have := hd.1
  rcases Nat.eq_zero_or_pos (putSpl d) with h | h
  · rw [h] at this; simp at this
  · exact h

theorem mul_div_of_eq {L S n : Nat} (hL : 0 < L) (h : L * S = n) (lx : Nat) : lx * n / L = lx * S := by
  rw [← h, ← Nat.mul_assoc, Nat.mul_comm lx L, Nat.mul_assoc, Nat.mul_div_cancel_left _ hL]

/-- `set_block_ptr` at slot `lx·spl + loc`: that pointer becomes `b`, the others and the first 16 bytes stay -/
theorem setBlockPtr_spec {d : Dpb} (hd : DpbPut d) {e e' : Bytes} {loc lx b : Nat} (he : e.length = 32)
    (hb : b < d.dsm + 1) (h : Ext.setBlockPtr d e loc lx b = .ok e') :
    e'.length = 32 ∧ (∀ i, i < 16 → e'.getD i 0 = e.getD i 0) ∧
    ∀ k, k < slots d → (entryPtrs d e').getD k 0 = if k = lx * putSpl d + loc then b else (entryPtrs d e).getD k 0 := by
  have hm := dpbPut_mul hd
  have hl' := setBlockPtr_length he h
  unfold Ext.setBlockPtr at h
  simp only [] at h
  unfold ptrSize at h
  by_cases c : d.dsm < 256
  · rw [if_pos c, if_pos rfl] at h
    have hs : slots d = 16 := by unfold Read.Cpm.slots Read.Cpm.ptr16; rw [if_neg (by simp; omega)]
    rw [hs] at hm
    rw [mul_div_of_eq (by omega) hm lx] at h
    split at h
    next hk =>
      cases h
      refine ⟨hl', ?_, ?_⟩
      · intro i hi
        rw [getD_splice (by omega), if_pos (by omega)]
      · intro k hk'
        rw [entryPtrs_getD d _ hk', entryPtrs_getD d e hk', if_neg (show ¬ d.dsm ≥ 256 by omega), if_neg (show ¬ d.dsm ≥ 256 by omega), getD_splice (by omega)]
        by_cases ck : k = lx * putSpl d + loc
        · rw [if_pos ck, if_neg (by omega), if_pos (by simp; omega)]
          have : 16 + k - (16 + (lx * putSpl d + loc)) = 0 := by omega
          rw [this]
          show b % 256 = b
          omega
        · rw [if_neg ck]
          by_cases c2 : 16 + k < 16 + (lx * putSpl d + loc)
          · rw [if_pos c2]
          · rw [if_neg c2, if_neg (by simp; omega)]
    · cases h
  · rw [if_neg c, if_neg (by decide)] at h
    have hs : slots d = 8 := by unfold Read.Cpm.slots Read.Cpm.ptr16; rw [if_pos (by simp; omega)]
    rw [hs] at hm
    rw [mul_div_of_eq (by omega) hm lx] at h
    have hdsm := hd.2.2
    split at h
    next hk =>
      cases h
      refine ⟨hl', ?_, ?_⟩
      · intro i hi
        rw [getD_splice (by omega), if_pos (by omega)]
      · intro k hk'
        rw [entryPtrs_getD d _ hk', entryPtrs_getD d e hk', if_pos (show d.dsm ≥ 256 by omega), if_pos (show d.dsm ≥ 256 by omega)]
        unfold le16
        rw [getD_splice (by omega), getD_splice (by omega)]
        have hul : (u16le b).length = 2 := rfl
        rw [hul]
        by_cases ck : k = lx * putSpl d + loc
        · rw [if_pos ck, if_neg (by omega), if_pos (by omega), if_neg (by omega), if_pos (by omega)]
          have e0 : 16 + 2 * k - (16 + 2 * (lx * putSpl d + loc)) = 0 := by omega
          have e1 : 16 + 2 * k + 1 - (16 + 2 * (lx * putSpl d + loc)) = 1 := by omega
          rw [e0, e1]
          show b % 256 + 256 * (b / 256 % 256) = b
          omega
        · rw [if_neg ck]
          by_cases c2 : k < lx * putSpl d + loc
          · rw [if_pos (by omega), if_pos (by omega)]
          · rw [if_neg (by omega), if_neg (by omega), if_neg (by omega), if_neg (by omega)]
    · cases h

/-- `set_block_ptr` succeeds for a slot inside the entry -/
theorem setBlockPtr_ok {d : Dpb} (hd : DpbPut d) (e : Bytes) {loc lx : Nat} (b : Nat) (hk : lx * putSpl d + loc < slots d) :
    ∃ e', Ext.setBlockPtr d e loc lx b = .ok e' := by
  have hm := dpbPut_mul hd
  unfold Ext.setBlockPtr ptrSize
  simp only []
  by_cases c : d.dsm < 256
  · rw [if_pos c, if_pos rfl]
    have hs : slots d = 16 := by unfold Read.Cpm.slots Read.Cpm.ptr16; rw [if_neg (by simp; omega)]
    rw [hs] at hm hk
    rw [mul_div_of_eq (by omega) hm lx, if_pos hk]
    exact ⟨_, rfl⟩
  · rw [if_neg c, if_neg (by decide)]
    have hs : slots d = 8 := by unfold Read.Cpm.slots Read.Cpm.ptr16; rw [if_pos (by simp; omega)]
    rw [hs] at hm hk
    rw [mul_div_of_eq (by omega) hm lx, if_pos (by omega)]
    exact ⟨_, rfl⟩

/-! ## `open_extent` -/

theorem zeros_getD (n i : Nat) : (List.replicate n 0 : Bytes).getD i 0 = 0 := by
  rw [List.getD_eq_getElem?_getD, List.getElem?_replicate]
  split <;> rfl

/-- the bytes of the entry `open_extent` makes -/
theorem openFx_getD (base typ f1 f2 : Bytes) (user i : Nat) :
    (splice (Ext.setFlags (Ext.setName Ext.new base typ) f1 f2) 0 [user]).getD i 0 =
      if i = 0 then user
      else if i < 9 then hi (f1.getD (i - 1) 0) + lo (lo (base.getD (i - 1) 0) + hi 0)
      else if i < 12 then hi (f2.getD (i - 9) 0) + lo (lo (typ.getD (i - 9) 0) + hi 0)
      else 0 := by
  have hn := ext_new_length
  have h1 := setName_length (nm := base) (ty := typ) hn
  have h2 := setFlags_length (f1 := f1) (f2 := f2) h1
  have hz : ∀ j, Ext.new.getD j 0 = 0 := fun j => zeros_getD 32 j
  rw [getD_splice (by omega)]
  by_cases c0 : i = 0
  · subst c0; simp
  · rw [if_neg (show ¬ i < 0 by omega), if_neg (show ¬ i < 0 + [user].length by simp; omega), if_neg c0, setFlags_getD h1,
      setName_getD hn, hz]
    by_cases c1 : i < 9
    · have a : 1 ≤ i ∧ i < 9 := ⟨by omega, c1⟩
      rw [if_pos a, if_pos a, if_pos c1]
    · have a : ¬ (1 ≤ i ∧ i < 9) := by omega
      rw [if_neg a, if_neg a, if_neg c1]
      by_cases c2 : i < 12
      · have b : 9 ≤ i ∧ i < 12 := ⟨by omega, c2⟩
        rw [if_pos b, if_pos b, if_pos c2]
      · have b : ¬ (9 ≤ i ∧ i < 12) := by omega
        rw [if_neg b, if_neg b, if_neg c2]

theorem openFx_hdr (base typ f1 f2 : Bytes) (user : Nat) (hb : base.length = 8) (ht : typ.length = 3) :
    Hdr user base typ (splice (Ext.setFlags (Ext.setName Ext.new base typ) f1 f2) 0 [user]) := by
  have hn := ext_new_length
  have hl : (splice (Ext.setFlags (Ext.setName Ext.new base typ) f1 f2) 0 [user]).length = 32 :=
    splice0_length (setFlags_length (setName_length hn))
  have hr := renF_length (u := user) (base := base) (typ := typ) hn
  have hz : ∀ j, Ext.new.getD j 0 = 0 := fun j => zeros_getD 32 j
  refine ⟨hl, by rw [openFx_getD, if_pos rfl], ?_, ?_, ?_⟩
  · rw [← renF_name7 (u := user) (typ := typ) hn hb]
    unfold name7
    apply slice_map_congr hr hl (by decide)
    intro i h1 h2
    rw [openFx_getD, renF_getD hn, if_neg (show ¬ i = 0 by omega), if_neg (show ¬ i = 0 by omega), if_pos (show i < 9 by omega),
      if_pos (show i < 9 by omega), hz]
    unfold hi lo; omega
  · rw [← renF_typ7 (u := user) (base := base) hn ht]
    unfold typ7
    apply slice_map_congr hr hl (by decide)
    intro i h1 h2
    rw [openFx_getD, renF_getD hn, if_neg (show ¬ i = 0 by omega), if_neg (show ¬ i = 0 by omega), if_neg (show ¬ i < 9 by omega),
      if_neg (show ¬ i < 9 by omega), if_pos (show i < 12 by omega), if_pos (show i < 12 by omega), hz]
    unfold hi lo; omega
  · rw [openFx_getD, if_neg (show ¬ (9 = 0) by omega), if_neg (show ¬ 9 < 9 by omega), if_pos (show 9 < 12 by omega)]
    unfold hi lo; omega

/-- everything `open_extent` gives -/
theorem openExtent_full {d : Dpb} {name : Bytes} {user : Nat} {f : FImg} {sdir : Dir} {idx : Nat} {fx : Bytes}
    (h : openExtent d name user f sdir = .ok (idx, fx)) :
    Hdr user (stringToFileName name).1 (stringToFileName name).2 fx ∧ (∀ i, 12 ≤ i → fx.getD i 0 = 0) ∧
    ∃ e, sdir[idx]? = some e ∧ isExtentFree e = true := by
  obtain ⟨hb, ht⟩ := s2fn_lengths name
  unfold openExtent at h
  simp only [] at h
  split at h
  · cases h
  · cases hg : getAvailableExtent d sdir with
    | none => rw [hg] at h; cases h
    | some i =>
      rw [hg] at h
      cases h
      refine ⟨?_, ?_, ?_⟩
      · split
        · exact openFx_hdr _ _ _ _ _ hb ht
        · exact openFx_hdr _ _ _ _ _ hb ht
      · intro i hi
        split
        · rw [openFx_getD, if_neg (show ¬ i = 0 by omega), if_neg (show ¬ i < 9 by omega), if_neg (show ¬ i < 12 by omega)]
        · rw [openFx_getD, if_neg (show ¬ i = 0 by omega), if_neg (show ¬ i < 9 by omega), if_neg (show ¬ i < 12 by omega)]
      · unfold getAvailableExtent at hg
        have := List.find?_some hg
        cases he : sdir[idx]? with
        | none => rw [he] at this; cases this
        | some e => rw [he] at this; exact ⟨e, rfl, this⟩

theorem free_status {e : Bytes} (h : isExtentFree e = true) : 34 ≤ status e := by
  unfold isExtentFree getType typeOfStatus at h
  by_cases c1 : status e < USER_END
  · rw [if_pos c1] at h; cases h
  · rw [if_neg c1] at h
    by_cases c2 : status e < USER_END * 2
    · rw [if_pos c2] at h; cases h
    · rw [if_neg c2] at h
      by_cases c3 : status e = LABEL
      · rw [if_pos c3] at h; cases h
      · rw [if_neg c3] at h
        by_cases c4 : status e = TIMESTAMP
        · rw [if_pos c4] at h; cases h
        · simp only [USER_END, LABEL, TIMESTAMP] at c1 c2 c3 c4
          omega

/-- an entry whose bytes from 12 on are zero has no pointers -/
theorem zero_tail_ptrs {d : Dpb} {e : Bytes} (h : ∀ i, 12 ≤ i → e.getD i 0 = 0) {k : Nat} (hk : k < slots d) :
    (entryPtrs d e).getD k 0 = 0 := by
  rw [entryPtrs_getD d e hk]
  split
  · unfold le16; rw [h _ (by omega), h _ (by omega)]
  · exact h _ (by omega)

/-! ## `close_extent` -/

theorem setDataPtr_getD {e : Bytes} (he : e.length = 32) (n i : Nat) :
    (Ext.setDataPtr e n).getD i 0 = if i = 12 then n % 32 else if i = 14 then n / 32 % 64 else e.getD i 0 := by
  unfold Ext.setDataPtr
  have l1 : (splice e 12 [n % 32]).length = 32 := by rw [splice_length (by rw [he]; simp), he]
  rw [getD_splice (by omega), getD_splice (by omega)]
  simp only [List.length_singleton]
  by_cases c1 : i = 12
  · subst c1; simp
  · by_cases c2 : i = 14
    · subst c2; simp
    · rw [if_neg c1, if_neg c2]
      by_cases c3 : i < 14
      · rw [if_pos c3]
        by_cases c4 : i < 12
        · rw [if_pos c4]
        · rw [if_neg c4, if_neg (by omega)]
      · rw [if_neg c3, if_neg (by omega), if_neg (by omega), if_neg (by omega)]

theorem setEof_getD {e : Bytes} (he : e.length = 32) (xb : Nat) (v3 : Bool) (i : Nat) :
    (Ext.setEof e xb v3).getD i 0 =
      if i = 13 then (if v3 then xb % 128 else 0)
      else if i = 15 then (let total := xb / 128 + (if xb % 128 > 0 then 1 else 0)
                           (if total % 128 = 0 ∧ total > 0 then 128 else total % 128) % 256)
      else e.getD i 0 := by
  unfold Ext.setEof
  simp only []
  have l1 : (splice e 13 [if v3 = true then xb % recordSize else 0]).length = 32 := by rw [splice_length (by rw [he]; simp), he]
  rw [getD_splice (by omega), getD_splice (by omega)]
  simp only [List.length_singleton]
  by_cases c1 : i = 13
  · subst c1; simp [recordSize]
  · by_cases c2 : i = 15
    · subst c2; simp [recordSize, logicalExtentSize]
    · rw [if_neg c1, if_neg c2]
      by_cases c3 : i < 15
      · rw [if_pos c3]
        by_cases c4 : i < 13
        · rw [if_pos c4]
        · rw [if_neg c4, if_neg (by omega)]
      · rw [if_neg c3, if_neg (by omega), if_neg (by omega), if_neg (by omega)]

/-- the closed entry: header and pointers as before, extent number `n`, record count and byte count of `xb` -/
theorem closed_spec {e : Bytes} (he : e.length = 32) (n xb : Nat) (v3 : Bool) (hn : n < 2048) :
    let c := Ext.setEof (Ext.setDataPtr e n) xb v3
    c.length = 32 ∧ (∀ i, i < 12 → c.getD i 0 = e.getD i 0) ∧ (∀ i, 16 ≤ i → c.getD i 0 = e.getD i 0) ∧
    c.getD 12 0 < 32 ∧ c.getD 14 0 < 64 ∧ extNum c = n := by
  intro c
  have l1 := setDataPtr_length (i := n) he
  have hg : ∀ i, c.getD i 0 = _ := fun i => setEof_getD l1 xb v3 i
  refine ⟨setEof_length l1, ?_, ?_, ?_, ?_, ?_⟩
  · intro i hi
    rw [hg, if_neg (by omega), if_neg (by omega), setDataPtr_getD he, if_neg (by omega), if_neg (by omega)]
  · intro i hi
    rw [hg, if_neg (by omega), if_neg (by omega), setDataPtr_getD he, if_neg (by omega), if_neg (by omega)]
  · rw [hg, if_neg (by omega), if_neg (by omega), setDataPtr_getD he, if_pos rfl]; omega
  · rw [hg, if_neg (by omega), if_neg (by omega), setDataPtr_getD he, if_neg (by omega), if_pos rfl]; omega
  · unfold Read.Cpm.extNum
    rw [hg 14, hg 12, if_neg (by omega), if_neg (by omega), if_neg (by omega), if_neg (by omega), setDataPtr_getD he, setDataPtr_getD he,
      if_neg (by omega), if_pos rfl, if_pos rfl]
    omega

theorem rc_arith (xb : Nat) :
    (let total := xb / 128 + (if xb % 128 > 0 then 1 else 0)
     (if total % 128 = 0 ∧ total > 0 then 128 else total % 128) % 256) =
    if xb % 16384 = 0 then (if xb = 0 then 0 else 128) else (xb % 16384 + 127) / 128 := by
  simp only []
  have h1 : xb / 128 = 128 * (xb / 16384) + xb % 16384 / 128 := by omega
  have h2 : xb % 128 = xb % 16384 % 128 := by omega
  have h3 : xb % 16384 < 16384 := Nat.mod_lt _ (by decide)
  have h4 : xb = 16384 * (xb / 16384) + xb % 16384 := by omega
  rw [h1, h2]
  generalize xb / 16384 = q at *
  generalize xb % 16384 = t at *
  subst h4
  by_cases c : t % 128 > 0
  · rw [if_pos c]
    by_cases c2 : (128 * q + t / 128 + 1) % 128 = 0 ∧ 128 * q + t / 128 + 1 > 0
    · rw [if_pos c2, if_neg (show ¬ t = 0 by omega)]; omega
    · rw [if_neg c2, if_neg (show ¬ t = 0 by omega)]; omega
  · rw [if_neg c]
    by_cases c2 : (128 * q + t / 128 + 0) % 128 = 0 ∧ 128 * q + t / 128 + 0 > 0
    · rw [if_pos c2]; split <;> (try split) <;> omega
    · rw [if_neg c2]; split <;> (try split) <;> omega

/-- the end of file the reader computes from the last entry `put` closes -/
theorem closed_eof {e : Bytes} (he : e.length = 32) (n xb eof : Nat) (v3 : Bool) (hn : n < 2048)
    (he1 : n * 16384 < eof) (he2 : eof ≤ (n + 1) * 16384) (hx : xb % 16384 = eof % 16384) (hx0 : 0 < xb) :
    eofOf (Ext.setEof (Ext.setDataPtr e n) xb v3) = (if v3 then id else fun m => (m + 127) / 128 * 128) eof := by
  obtain ⟨_, _, _, _, _, hnum⟩ := closed_spec he n xb v3 hn
  have l1 := setDataPtr_length (i := n) he
  have hrc := rc_arith xb
  simp only [] at hrc
  unfold eofOf
  rw [hnum, setEof_getD l1 xb v3 15, setEof_getD l1 xb v3 13, if_neg (show ¬ 15 = 13 by omega), if_pos rfl, if_pos rfl]
  simp only []
  rw [hrc, hx]
  have h2 : xb % 128 = eof % 128 := by omega
  rw [h2]
  by_cases ct : eof % 16384 = 0
  · rw [if_pos ct, if_neg (show ¬ xb = 0 by omega), if_neg (show ¬ (128 : Nat) = 0 by omega)]
    clear hrc
    have e : (min 128 128 - 1) * 128 = 16256 := rfl
    have e0 : eof % 128 = 0 := by omega
    rw [e, e0]
    cases v3 with
    | true => simp only [↓reduceIte, id]; omega
    | false => simp only [Bool.false_eq_true, ↓reduceIte]; omega
  · rw [if_neg ct]
    clear hrc
    have h5 : eof % 16384 = eof - n * 16384 := by omega
    cases v3 with
    | true =>
      simp only [↓reduceIte, id]
      rw [if_neg (show ¬ (eof % 16384 + 127) / 128 = 0 by omega)]
      split <;> omega
    | false =>
      simp only [Bool.false_eq_true, ↓reduceIte]
      rw [if_neg (show ¬ (eof % 16384 + 127) / 128 = 0 by omega)]
      omega

end A2Verif.FsCpm
