import A2Verif.Lemmas.FsProdosDelR
/-!
# Sub-directory entries of the volume directory under the reader

`RE_dir`: what the reader makes of a directory entry — the record of the directory (its blocks are its chain) followed by the
records of the files in it.  `dir_slot_facts`: the sub-directory's chain and slots.  `subOk_congr`: the description `SubOk` of a
sub-directory depends only on the blocks its records own.
-/
namespace A2Verif.FsProdos
open A2Verif.Fs.Prodos
open A2Verif.Read.Prodos (entryAt dirChain idxPtr indexEntries readData trimName bitmapFree)
open A2Verif.Read.ProdosT

theorem unitAt_congr {r r' : Raw} {j : Nat} (h : r'.units[j]? = r.units[j]?) : unitAt r' j = unitAt r j := by
  unfold unitAt; rw [h]

theorem shape_setUnit {r : Raw} (hs : ShapeOk r) (i : Nat) (b : Bytes) (hl : b.length = 512) (hb : ∀ x ∈ b, x < 256) :
    ShapeOk (setUnit r i b) := by
  apply shapeOk_of_units
  intro j hj
  rw [setUnit_size] at hj
  by_cases hji : i = j
  · subst hji
    unfold unitAt; rw [setUnit_self _ _ _ hj]; exact ⟨hl, hb⟩
  · rw [unitAt_setUnit_other _ _ _ _ hji]; exact hs.unit hj

/-- the record the reader makes of a directory entry -/
def dirRec (e pfx : Bytes) (sch : List Nat) : FileRec :=
  { baseRec e pfx with isDir := true, owned := sch, eof := 0, locked := false }

theorem RE_dir (fuel : Nat) (r : Raw) (total : Nat) (pfx : Bytes) (depth : Nat) (x : Bytes × Nat × Nat) (z : List LRec)
    (hst : x.1.getD 0 0 / 16 = 0xD) (h : RE fuel r total pfx depth x = .ok z) :
    ∃ fs sch, readDir fuel r total (le16 x.1 0x11) (baseRec x.1 pfx).path (depth + 1) = .ok (fs, sch) ∧
      z = (dirRec x.1 pfx sch, x.2) :: fs ∧ le16 x.1 0x13 = sch.length ∧
      ¬ (le16 x.1 0x11 = 0 ∨ le16 x.1 0x11 ≥ total) := by
  unfold RE readEntryWith at h
  simp only at h
  split at h
  · cases h
  · next hkey =>
    simp only [hst, show ((13 : Nat) = 1 ∨ (13 : Nat) = 2 ∨ (13 : Nat) = 3) = False from eq_false (by decide), ↓reduceIte] at h
    unfold subRd at h
    cases hs : readDir fuel r total (le16 x.1 0x11) (baseRec x.1 pfx).path (depth + 1) with
    | error e => rw [hs] at h; cases h
    | ok res =>
      obtain ⟨fs, sch⟩ := res
      rw [hs] at h
      simp only at h
      split at h
      · cases h
      · next hlen =>
        injection h with h
        exact ⟨fs, sch, rfl, h.symm, by omega, hkey⟩

theorem RE_dir_of (fuel : Nat) (r : Raw) (total : Nat) (pfx : Bytes) (depth : Nat) (x : Bytes × Nat × Nat)
    (fs : List LRec) (sch : List Nat) (hst : x.1.getD 0 0 / 16 = 0xD)
    (hkey : ¬ (le16 x.1 0x11 = 0 ∨ le16 x.1 0x11 ≥ total))
    (hs : readDir fuel r total (le16 x.1 0x11) (baseRec x.1 pfx).path (depth + 1) = .ok (fs, sch))
    (hlen : le16 x.1 0x13 = sch.length) :
    RE fuel r total pfx depth x = .ok ((dirRec x.1 pfx sch, x.2) :: fs) := by
  unfold RE readEntryWith
  simp only
  rw [if_neg hkey, if_neg (by omega), if_pos hst]
  unfold subRd
  rw [hs]
  simp only
  rw [if_neg (by omega)]
  rfl

/-- the key pointer of a file entry is a block of its record -/
theorem readFile_key_mem (r : Raw) (total : Nat) (e pfx : Bytes) (f : FileRec) (h : Read.ProdosT.readFile r total e pfx = .ok f) :
    le16 e 0x11 ∈ f.owned := by
  unfold Read.ProdosT.readFile at h
  simp only at h
  split at h
  · split at h
    · cases h
    · split at h
      · cases h
      · injection h with h; rw [← h]; exact List.mem_singleton.mpr rfl
  · split at h
    · split at h
      · cases h
      · split at h
        · cases h
        · split at h
          · cases h
          · injection h with h; rw [← h]; exact List.mem_cons_self
    · split at h
      · cases h
      · split at h
        · cases h
        · split at h
          · cases h
          · injection h with h; rw [← h]; exact List.mem_cons_self

/-- the slots of a directory depend only on the blocks of its chain -/
theorem dirSlots_congr_units (r r' : Raw) (key : Nat) (ch : List Nat) (h : ∀ b ∈ ch, unitAt r' b = unitAt r b) :
    dirSlots r' key ch = dirSlots r key ch := by
  unfold dirSlots
  apply List.flatMap_congr'
  intro b hb
  unfold blockSlots
  rw [h b hb]
where
  List.flatMap_congr' {α β : Type} {f g : α → List β} {l : List α} (h : ∀ x ∈ l, f x = g x) : l.flatMap f = l.flatMap g := by
    induction l with
    | nil => rfl
    | cons a l ih =>
      rw [List.flatMap_cons, List.flatMap_cons, h a List.mem_cons_self, ih (fun x hx => h x (List.mem_cons_of_mem _ hx))]

/-- what the reader's success on a directory slot says about the sub-directory -/
theorem dir_slot_facts {r : Raw} {total : Nat} {x : Bytes × Nat × Nat} {z : List LRec} (hst : x.1.getD 0 0 / 16 = 0xD)
    (hz : RE 69 r total [] 0 x = .ok z) (hgeo : StdGeo r (le16 x.1 0x11)) :
    ∃ fs sch, z = (dirRec x.1 [] sch, x.2) :: fs ∧ dirChain r total 1000 (le16 x.1 0x11) [] = .ok sch ∧
      le16 x.1 0x11 ≠ 0 ∧ le16 x.1 0x11 < total ∧ le16 x.1 0x13 = sch.length ∧
      readDir 69 r total (le16 x.1 0x11) (baseRec x.1 []).path 1 = .ok (fs, sch) ∧
      fs = (dirSlots r (le16 x.1 0x11) sch).flatMap (slotRecs 68 r total (baseRec x.1 []).path 1) ∧
      (∀ y ∈ dirSlots r (le16 x.1 0x11) sch, isAct y = true → ∃ zy, RE 68 r total (baseRec x.1 []).path 1 y = .ok zy) ∧
      ((dirSlots r (le16 x.1 0x11) sch).filter isAct).length = le16 (unitAt r (le16 x.1 0x11)) 37 := by
  obtain ⟨fs, sch, hrd, hzeq, hlen, hkey⟩ := RE_dir 69 r total [] 0 x z hst hz
  have hk0 : le16 x.1 0x11 ≠ 0 := fun e => hkey (Or.inl e)
  have hrd' : readDir (68 + 1) r total (le16 x.1 0x11) (baseRec x.1 []).path (0 + 1) = .ok (fs, sch) := hrd
  obtain ⟨hfs, hall, hcnt⟩ := readDir_slots r total 68 (le16 x.1 0x11) (baseRec x.1 []).path 1 fs sch hk0 hgeo hrd'
  exact ⟨fs, sch, hzeq, readDir_chain r total 68 _ _ _ fs sch hrd', hk0, by omega, hlen, hrd, hfs, hall, hcnt⟩

/-- **the description of a sub-directory depends only on the blocks its records own** -/
theorem subOk_congr {r r' : Raw} {total : Nat} {x : Bytes × Nat × Nat} {z : List LRec} (hst : x.1.getD 0 0 / 16 = 0xD)
    (hz : RE 69 r total [] 0 x = .ok z) (h : SubOk r total x)
    (hag : ∀ j ∈ z.flatMap (·.1.owned), r'.units[j]? = r.units[j]?) : SubOk r' total x := by
  obtain ⟨sch, hc, hnl, hgeo, hprev, hlen, hhdr, hp1, hp2, hslots⟩ := h.chain
  obtain ⟨fs, sch', hzeq, hc', hk0, hkt, _, hrd, hfs, hall, _⟩ := dir_slot_facts hst hz hgeo
  have hse : sch' = sch := by rw [hc] at hc'; injection hc' with e; exact e.symm
  subst hse
  have hschag : ∀ b ∈ sch', r'.units[b]? = r.units[b]? := by
    intro b hb
    apply hag
    rw [hzeq, List.flatMap_cons]
    exact List.mem_append_left _ hb
  have hu : ∀ b ∈ sch', unitAt r' b = unitAt r b := fun b hb => unitAt_congr (hschag b hb)
  have hK : le16 x.1 0x11 ∈ sch' := dirChain_start_mem r total 1000 _ sch' hk0 hc
  have hc2 : dirChain r' total 1000 (le16 x.1 0x11) [] = .ok sch' := by
    apply dirChain_congr r r' total 1000 _ [] sch' hc
    intro j hj blk hb
    refine ⟨blk, ?_, rfl⟩
    unfold Raw.unit at hb ⊢
    rw [hschag j hj]; exact hb
  apply SubOk.of hc2
  refine ⟨hnl, ?_, prevOk_congr r r' sch' 0 (fun b hb => by rw [hu b hb]) hprev, hlen, by rw [hu _ hK]; exact hhdr,
    by rw [hu _ hK]; exact hp1, by rw [hu _ hK]; exact hp2, ?_⟩
  · unfold StdGeo at hgeo ⊢; rw [hu _ hK]; exact hgeo
  · rw [dirSlots_congr_units r r' _ sch' hu]
    intro y hy
    rcases hslots y hy with h0 | ⟨hstf, hua, hcl⟩
    · exact Or.inl h0
    · refine Or.inr ⟨hstf, hua, ?_⟩
      intro h3
      have hact : isAct y = true := by unfold isAct; simp only [ne_eq, decide_eq_true_eq]; omega
      obtain ⟨zy, hzy⟩ := hall y hy hact
      obtain ⟨f, hzf, hrf, _⟩ := RE_file 68 r total _ 1 y zy hstf hzy
      have hkm := readFile_key_mem r total y.1 _ f hrf
      have hmem : le16 y.1 0x11 ∈ z.flatMap (·.1.owned) := by
        rw [hzeq, List.flatMap_cons]
        apply List.mem_append_right
        rw [hfs, List.flatMap_assoc, List.mem_flatMap]
        refine ⟨y, hy, ?_⟩
        unfold slotRecs; rw [if_pos hact, hzy, hzf]
        simp only [okD, List.flatMap_cons, List.flatMap_nil, List.append_nil]
        exact hkm
      rw [unitAt_congr (hag _ hmem)]
      exact hcl h3

end A2Verif.FsProdos
