import A2Verif.Lemmas.TrackGFmt
import A2Verif.Model.TrackImg
/-!
Rotation algebra (`rot`), `pack`/`unpack`, `splice`, and the *canonical* description of a track buffer:
`Canon n A o C` — the first `n` bits `A` of the buffer hold the cell list `C` starting at absolute bit `o`.
It does not mention the head, so it is untouched by operations on other tracks; `load`/`unload` connect it
with the head-relative states of `Lemmas/TrackGFmt.lean`.
-/
namespace A2Verif.Model.TrackImg
open A2Verif.Model.Track

/-! ## rot -/

theorem rot_length (k : Nat) (l : List Bool) : (rot k l).length = l.length := by
  simp [rot]; omega

theorem rot_zero (l : List Bool) : rot 0 l = l := by simp [rot]

theorem rot_getElem? (l : List Bool) (k i : Nat) (hk : k ≤ l.length) (hi : i < l.length) :
    (rot k l)[i]? = l[(k + i) % l.length]? := by
  unfold rot
  rw [List.getElem?_append]
  have hd : (l.drop k).length = l.length - k := by simp
  rw [hd]
  split
  · rename_i h
    rw [List.getElem?_drop, Nat.mod_eq_of_lt (by omega)]
  · rename_i h
    rw [List.getElem?_take, if_pos (by omega)]
    have : (k + i) % l.length = i - (l.length - k) := by
      rw [Nat.mod_eq_sub_mod (by omega), Nat.mod_eq_of_lt (by omega)]; omega
    rw [this]

theorem rot_rot (l : List Bool) (a b : Nat) (ha : a ≤ l.length) (hb : b ≤ l.length) (hn : 0 < l.length) :
    rot a (rot b l) = rot ((a + b) % l.length) l := by
  apply List.ext_getElem?
  intro i
  by_cases hi : i < l.length
  · rw [rot_getElem? _ a i (by rw [rot_length]; exact ha) (by rw [rot_length]; exact hi), rot_length,
      rot_getElem? l b _ hb (Nat.mod_lt _ hn),
      rot_getElem? l _ i (Nat.le_of_lt (Nat.mod_lt _ hn)) hi]
    congr 1
    rw [Nat.add_mod b, Nat.mod_mod, ← Nat.add_mod, Nat.mod_add_mod]
    congr 1; omega
  · rw [List.getElem?_eq_none (by rw [rot_length, rot_length]; omega), List.getElem?_eq_none (by rw [rot_length]; omega)]

theorem rot_mod_le (l : List Bool) (k : Nat) (hk : k ≤ l.length) (hn : 0 < l.length) : rot (k % l.length) l = rot k l := by
  by_cases h : k < l.length
  · rw [Nat.mod_eq_of_lt h]
  · have : k = l.length := by omega
    subst this
    simp [rot]

theorem rot_stream_append (P R : List Cell) : rot (blen P) (stream (P ++ R)) = stream (R ++ P) := by
  unfold rot blen
  rw [stream_append, List.drop_left, List.take_left, stream_append]

/-! ## pack / unpack -/

theorem pack_unpack_bits : ∀ b0 b1 b2 b3 b4 b5 b6 b7 : Bool,
    bitsOf ([b0, b1, b2, b3, b4, b5, b6, b7].foldl (fun v b => v * 2 + (if b then 1 else 0)) 0) 8 =
      [b0, b1, b2, b3, b4, b5, b6, b7] := by decide

/-- bits written into whole bytes are the bits read back -/
theorem unpack_pack : ∀ (k : Nat) (l : List Bool), l.length = 8 * k → unpack (pack l) = l := by
  intro k
  induction k with
  | zero => intro l h; have : l = [] := List.eq_nil_of_length_eq_zero (by simpa using h); subst this; rfl
  | succ k ih =>
    intro l h
    match l, h with
    | b0 :: b1 :: b2 :: b3 :: b4 :: b5 :: b6 :: b7 :: rest, h =>
      have hr : rest.length = 8 * k := by simp at h; omega
      simp only [pack, unpack, List.map_cons, List.flatten_cons]
      rw [pack_unpack_bits]
      have := ih rest hr
      unfold unpack at this
      rw [this]; rfl

theorem pack_length : ∀ (k : Nat) (l : List Bool), l.length = 8 * k → (pack l).length = k := by
  intro k
  induction k with
  | zero => intro l h; have : l = [] := List.eq_nil_of_length_eq_zero (by simpa using h); subst this; rfl
  | succ k ih =>
    intro l h
    match l, h with
    | b0 :: b1 :: b2 :: b3 :: b4 :: b5 :: b6 :: b7 :: rest, h =>
      have hr : rest.length = 8 * k := by simp at h; omega
      simp only [pack, List.length_cons, ih rest hr]

theorem unpack_length (bs : List Nat) : (unpack bs).length = 8 * bs.length := by
  induction bs with
  | nil => rfl
  | cons b bs ih =>
    simp only [unpack, List.map_cons, List.flatten_cons, List.length_append, bitsOf_length, List.length_cons] at ih ⊢
    omega

/-! ## splice -/

theorem getElem?_splice (data src : List Nat) (o i : Nat) (h : o + src.length ≤ data.length) :
    (splice data o src)[i]? = if i < o then data[i]? else if i < o + src.length then src[i - o]? else data[i]? := by
  unfold splice
  have h1 : (List.take o data).length = o := by simp; omega
  rw [List.append_assoc, List.getElem?_append]
  rw [h1]
  split
  · rename_i hi; simp [hi]
  · rename_i hi
    rw [List.getElem?_append]
    split
    · rename_i h2; rw [if_pos (by omega)]
    · rename_i h2
      rw [if_neg (by omega), List.getElem?_drop]
      congr 1; omega

theorem length_splice (data src : List Nat) (o : Nat) (h : o + src.length ≤ data.length) :
    (splice data o src).length = data.length := by
  simp [splice]; omega

theorem getElem?_slice (data : List Nat) (o n i : Nat) :
    ((data.drop o).take n)[i]? = if i < n then data[o + i]? else none := by
  rw [List.getElem?_take]
  split
  · rw [List.getElem?_drop]
  · rfl

/-- the spliced range reads back as what was put there -/
theorem slice_splice_same (data src : List Nat) (o : Nat) (h : o + src.length ≤ data.length) :
    ((splice data o src).drop o).take src.length = src := by
  apply List.ext_getElem?
  intro i
  rw [getElem?_slice, getElem?_splice _ _ _ _ h]
  by_cases hi : i < src.length
  · rw [if_pos hi, if_neg (by omega), if_pos (by omega)]; congr 1; omega
  · rw [if_neg hi]; exact (List.getElem?_eq_none (by omega)).symm

/-- a range disjoint from the spliced one is unchanged -/
theorem slice_splice_disj (data src : List Nat) (o o' n : Nat) (h : o + src.length ≤ data.length)
    (hd : o + src.length ≤ o' ∨ o' + n ≤ o) : ((splice data o src).drop o').take n = (data.drop o').take n := by
  apply List.ext_getElem?
  intro i
  rw [getElem?_slice, getElem?_slice]
  split
  · rw [getElem?_splice _ _ _ _ h]
    rcases hd with hd | hd
    · rw [if_neg (by omega), if_neg (by omega)]
    · rw [if_pos (by omega)]
  · rfl

/-! ## canonical description of a track buffer -/

def Canon (n : Nat) (A : List Bool) (o : Nat) (C : List Cell) : Prop :=
  A.length = n ∧ 0 < n ∧ blen C = n ∧ rot (o % n) A = stream C

theorem canon_rotate {n : Nat} {A : List Bool} {o : Nat} (P R : List Cell) (h : Canon n A o (P ++ R)) :
    Canon n A (o + blen P) (R ++ P) := by
  obtain ⟨h1, h2, h3, h4⟩ := h
  have hP : blen P ≤ n := by rw [← h3, blen_append]; omega
  have hSl : (stream (P ++ R)).length = n := h3
  refine ⟨h1, h2, by rw [blen_append] at h3 ⊢; omega, ?_⟩
  have e : rot ((o + blen P) % n) A = rot (blen P % n) (rot (o % n) A) := by
    have := rot_rot A (blen P % n) (o % n) (by rw [h1]; exact Nat.le_of_lt (Nat.mod_lt _ h2))
      (by rw [h1]; exact Nat.le_of_lt (Nat.mod_lt _ h2)) (by rw [h1]; exact h2)
    rw [this, h1]
    congr 1
    rw [Nat.add_comm, ← Nat.add_mod]
  rw [e, h4]
  have := rot_mod_le (stream (P ++ R)) (blen P) (by rw [hSl]; exact hP) (by rw [hSl]; exact h2)
  rw [hSl] at this
  rw [this, rot_stream_append]

theorem canon_add_n {n : Nat} {A : List Bool} {o : Nat} {C : List Cell} (h : Canon n A (o + n) C) : Canon n A o C := by
  obtain ⟨h1, h2, h3, h4⟩ := h
  exact ⟨h1, h2, h3, by rw [Nat.add_mod_right] at h4; exact h4⟩

theorem canon_congr {n : Nat} {A : List Bool} {o o' : Nat} {C C' : List Cell} (h : Canon n A o C) (hc : C = C')
    (ho : o % n = o' % n) : Canon n A o' C' := by
  subst hc
  obtain ⟨h1, h2, h3, h4⟩ := h
  exact ⟨h1, h2, h3, by rw [← ho]; exact h4⟩

/-- the buffer a head-relative state stands for -/
theorem canon_of_st {n : Nat} {t : Trk} {X : List Cell} {q : Nat} (h : St n t X q) :
    Canon n (TrackRep.unload t) q X := by
  have hb := h.bits
  obtain ⟨_, h2, h3, h4⟩ := h
  have hl : t.bits.length = n := by rw [hb]; exact h2
  have hpos : t.pos = q % n := by simpa using h4
  show Canon n (rot (t.bits.length - t.pos) t.bits) q X
  refine ⟨by rw [rot_length]; exact hl, h3, h2, ?_⟩
  rw [rot_rot t.bits (q % n) (t.bits.length - t.pos) (by rw [hl]; exact Nat.le_of_lt (Nat.mod_lt _ h3)) (by omega) (by omega),
    hl, hpos]
  have : (q % n + (n - q % n)) % n = 0 := by
    have := Nat.mod_lt q h3
    rw [show q % n + (n - q % n) = n by omega, Nat.mod_self]
  rw [this, rot_zero, hb]

/-- the head-relative state of a buffer seen from pointer `(b + k) % n` -/
theorem stk_of_canon {n : Nat} {A : List Bool} {b : Nat} {X : List Cell} (h : Canon n A b X) (k : Nat) (hk : k ≤ n) :
    StK n (TrackRep.load A ((b + k) % n) : Trk) X b k := by
  obtain ⟨h1, h2, h3, h4⟩ := h
  refine ⟨?_, h3, h2, rfl⟩
  show rot ((b + k) % n) A = _
  have e : rot ((b + k) % n) A = rot (k % n) (rot (b % n) A) := by
    have := rot_rot A (k % n) (b % n) (by rw [h1]; exact Nat.le_of_lt (Nat.mod_lt _ h2))
      (by rw [h1]; exact Nat.le_of_lt (Nat.mod_lt _ h2)) (by rw [h1]; exact h2)
    rw [this, h1]
    congr 1
    rw [Nat.add_comm, ← Nat.add_mod]
  have hSl : (stream X).length = n := h3
  rw [e, h4]
  have := rot_mod_le (stream X) k (by rw [hSl]; exact hk) (by rw [hSl]; exact h2)
  rw [hSl] at this
  rw [this]; rfl

/-- loading what was unloaded at the pointer it was unloaded with gives the same track back -/
theorem load_unload (t : Trk) (hp : t.pos < t.bits.length) :
    (TrackRep.load (TrackRep.unload t) (TrackRep.ptr t) : Trk) = t := by
  show (⟨rot t.pos (rot (t.bits.length - t.pos) t.bits), t.pos⟩ : Trk) = t
  have : rot t.pos (rot (t.bits.length - t.pos) t.bits) = t.bits := by
    rw [rot_rot t.bits t.pos (t.bits.length - t.pos) (by omega) (by omega) (by omega)]
    rw [show t.pos + (t.bits.length - t.pos) = t.bits.length by omega, Nat.mod_self, rot_zero]
  rw [this]

end A2Verif.Model.TrackImg
