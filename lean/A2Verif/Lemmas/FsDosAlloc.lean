import A2Verif.Lemmas.FsDosDelete
/-!
# Free-sector accounting and the free-sector search of the concrete DOS model

`nfree` counts the bits the buffer marks free; `num_free_sectors` computes exactly that; `allocate_sector` of a free
sector lowers it by one (`Taken`); `get_next_free_sector` succeeds whenever a free sector exists outside track 0
and the catalog track, and returns a free sector in range.  Core Lean only.
-/
set_option linter.unusedSimpArgs false
namespace A2Verif.Fs.Dos3x
open A2Verif.FsDos A2Verif.Read.Dos3x

def isFreeU (v : Bytes) (c u : Nat) : Bool := bitFree v c (u / c) (u % c)
def freeList (v : Bytes) (c : Nat) : List Nat := (List.range (35 * c)).filter (isFreeU v c)
def nfree (v : Bytes) (c : Nat) : Nat := (freeList v c).length

theorem isFreeU_unit {v : Bytes} {c t s : Nat} (hs : s < c) : isFreeU v c (t * c + s) = bitFree v c t s := by
  unfold isFreeU; rw [(div_mod_unit hs).1, (div_mod_unit hs).2]

theorem freeOf_eq {w : W} (h : WOk w) : freeOf w.img w.c = freeList w.v w.c := by
  unfold freeOf freeList
  apply List.filter_congr
  intro x hx
  have hx' := List.mem_range.1 hx
  have hc0 : 0 < w.c := by rcases h.hc with e | e <;> omega
  have hxt : x / w.c < 35 := (Nat.div_lt_iff_lt_mul hc0).2 hx'
  rw [vtocOf_img h, sectorFree_eq, mapVal_quantize h.vlen hxt]
  rfl

/-! ## `num_free_sectors` -/

theorem countTrack_eq {v : Bytes} {c t : Nat} (h : VOk v c) (ht : t < 35) : ∀ (ss : List Nat), (∀ s ∈ ss, s < c) →
    countTrack v t ss = .ok (ss.filter (bitFree v c t)).length := by
  intro ss
  induction ss with
  | nil => intro _; rfl
  | cons s ss ih =>
    intro hs
    rw [countTrack, isFree_eq h.vSpt h.hc ht (hs s List.mem_cons_self), ih (fun x hx => hs x (List.mem_cons_of_mem _ hx))]
    simp only [List.filter_cons]
    cases bitFree v c t s <;> simp

def trackFree (v : Bytes) (c t : Nat) : Nat := ((List.range c).filter (bitFree v c t)).length

theorem rng_zero (n : Nat) : rng 0 n = List.range n := by unfold rng; rw [Nat.sub_zero, List.range_eq_range']

theorem countTracks_cons (v : Bytes) (t : Nat) (ts : List Nat) :
    countTracks v (t :: ts) = (match countTrack v t (rng 0 (Vtoc.sectors v)) with
      | Except.error e => Except.error e
      | Except.ok a => match countTracks v ts with
        | Except.error e => Except.error e
        | Except.ok n => Except.ok (a + n)) := rfl

theorem countTracks_eq {v : Bytes} {c : Nat} (h : VOk v c) : ∀ (ts : List Nat), (∀ t ∈ ts, t < 35) →
    countTracks v ts = .ok (ts.map (trackFree v c)).sum := by
  intro ts
  induction ts with
  | nil => intro _; rfl
  | cons t ts ih =>
    intro ht
    have h1 : countTrack v t (rng 0 (Vtoc.sectors v)) = .ok (trackFree v c t) := by
      rw [h.vSpt, rng_zero]
      exact countTrack_eq h (ht t List.mem_cons_self) _ (fun s hs => List.mem_range.1 hs)
    have h2 := ih (fun x hx => ht x (List.mem_cons_of_mem _ hx))
    rw [countTracks_cons, h1, h2, List.map_cons, List.sum_cons]

theorem filter_range_mul_gen (p : Nat → Bool) (g : Nat → Nat) (c : Nat)
    (hg : ∀ t, g t = ((List.range c).filter (fun s => p (t * c + s))).length) : ∀ n,
    ((List.range (n * c)).filter p).length = ((List.range n).map g).sum := by
  intro n
  induction n with
  | zero => simp
  | succ n ih =>
    rw [Nat.succ_mul]
    rw [List.range_add]
    rw [List.filter_append, List.length_append, ih]
    rw [List.range_succ, List.map_append, List.sum_append]
    congr 1
    rw [List.filter_map, List.length_map]
    simp only [List.map_cons, List.map_nil, List.sum_cons, List.sum_nil, Nat.add_zero, hg]
    rfl

theorem filter_range_mul (v : Bytes) (c n : Nat) :
    ((List.range (n * c)).filter (isFreeU v c)).length = ((List.range n).map (trackFree v c)).sum := by
  apply filter_range_mul_gen
  intro t
  have : List.filter (bitFree v c t) (List.range c) = List.filter (fun s => isFreeU v c (t * c + s)) (List.range c) :=
    List.filter_congr (fun s hs => (isFreeU_unit (List.mem_range.1 hs)).symm)
  unfold trackFree
  rw [this]

/-- `num_free_sectors` is the number of bits the buffer marks free -/
theorem numFree_eq {v : Bytes} {c : Nat} (h : VOk v c) : numFree v = .ok (nfree v c) := by
  unfold numFree
  rw [h.vTracks, rng_zero, countTracks_eq h _ (fun t ht => List.mem_range.1 ht)]
  unfold nfree freeList
  rw [filter_range_mul]

/-! ## marking sectors used -/

/-- `v'` is `v` with exactly the sectors of `S` marked used; below the bitmap only `last_track`/`last_direction`
may differ -/
structure Taken (v v' : Bytes) (c : Nat) (S : List Nat) : Prop where
  ok : VOk v' c
  low : ∀ i, i < 0x38 → i ≠ 0x30 → i ≠ 0x31 → v'.getD i 0 = v.getD i 0
  bits : ∀ t s, t < 35 → s < c → bitFree v' c t s = (bitFree v c t s && !decide (t * c + s ∈ S))

theorem Taken.refl {v : Bytes} {c : Nat} (h : VOk v c) : Taken v v c [] :=
  ⟨h, fun _ _ _ _ => rfl, fun _ _ _ _ => by simp⟩

theorem Taken.trans {v v1 v2 : Bytes} {c : Nat} {S1 S2 : List Nat} (h1 : Taken v v1 c S1) (h2 : Taken v1 v2 c S2) :
    Taken v v2 c (S1 ++ S2) :=
  ⟨h2.ok, fun i hi a b => by rw [h2.low i hi a b, h1.low i hi a b], fun t s ht hs => by
    rw [h2.bits t s ht hs, h1.bits t s ht hs, Bool.and_assoc]
    congr 1
    simp [List.mem_append]⟩

theorem Taken.congr {v v' : Bytes} {c : Nat} {S S' : List Nat} (h : Taken v v' c S) (hs : ∀ x, x ∈ S ↔ x ∈ S') : Taken v v' c S' :=
  ⟨h.ok, h.low, fun t s ht hs' => by rw [h.bits t s ht hs']; simp [hs]⟩

/-- the buffer after `allocate_sector(t, s)` -/
def alloc' (v : Bytes) (c t s : Nat) : Bytes := saveTrackMap v t (mapVal v t &&& ((1 <<< (s + 32 - c)) ^^^ u32Max))

theorem alloc_taken {v : Bytes} {c t s : Nat} (h : VOk v c) (ht : t < 35) (hs : s < c) : Taken v (alloc' v c t s) c [t * c + s] := by
  have hc32 : c ≤ 16 := by rcases h.hc with e | e <;> omega
  have hm := mapVal_lt h.vlt t
  have hlow : ∀ i, i < 0x38 → (alloc' v c t s).getD i 0 = v.getD i 0 :=
    fun i hi => getD_saveTrackMap_low h.vlen ht hi
  refine ⟨⟨h.hc, saveTrackMap_length h.vlen ht, saveTrackMap_lt h.vlt, ?_, ?_, ?_, ?_⟩, fun i hi _ _ => hlow i hi, ?_⟩
  · unfold Vtoc.tracks; rw [hlow _ (by decide)]; exact h.vTracks
  · unfold Vtoc.sectors; rw [hlow _ (by decide)]; exact h.vSpt
  · unfold Vtoc.bytesPerSector le16; rw [hlow _ (by decide), hlow _ (by decide)]; exact h.vBps
  · unfold Vtoc.maxPairs; rw [hlow _ (by decide)]; exact h.vPairs
  · intro t' s' ht' hs'
    unfold bitFree alloc'
    by_cases hte : t' = t
    · subst hte
      rw [mapVal_save_same h.vlen ht' (clear_lt hm), testBit_clear (by omega)]
      congr 1
      by_cases hse : s' = s
      · subst hse; simp
      · have : (s' + 32 - c ≠ s + 32 - c) := by omega
        have h2 : ¬ (t' * c + s' = t' * c + s) := by omega
        simp [this, h2, hse]
    · rw [mapVal_save_other h.vlen ht hte]
      have : ¬ (t' * c + s' = t * c + s) := fun e => hte (unit_inj hs hs' e).1
      simp [this]

theorem allocate_eq' {v : Bytes} {c t s : Nat} (h : VOk v c) (ht : t < 35) (hs : s < c) : allocate v t s = .ok (alloc' v c t s) :=
  allocate_eq h.vSpt h.hc ht hs

theorem updateLastTrack_taken {v : Bytes} {c t : Nat} (h : VOk v c) (ht : t < 35) : Taken v (updateLastTrack v t) c [] := by
  unfold updateLastTrack
  split
  · rename_i h1
    have hb : 0x30 + [t, 255].length ≤ v.length := by rw [h.vlen]; simp
    have hg : ∀ i, i ≠ 0x30 → i ≠ 0x31 → (splice v 0x30 [t, 255]).getD i 0 = v.getD i 0 :=
      fun i a b => getD_splice_other hb (by simp; omega)
    refine ⟨⟨h.hc, by rw [splice_length hb]; exact h.vlen, all_lt_splice h.vlt (by intro x hx; simp at hx; rcases hx with rfl | rfl <;> omega),
      ?_, ?_, ?_, ?_⟩, fun i _ a b => hg i a b, ?_⟩
    · unfold Vtoc.tracks; rw [hg _ (by decide) (by decide)]; exact h.vTracks
    · unfold Vtoc.sectors; rw [hg _ (by decide) (by decide)]; exact h.vSpt
    · unfold Vtoc.bytesPerSector le16; rw [hg _ (by decide) (by decide), hg _ (by decide) (by decide)]; exact h.vBps
    · unfold Vtoc.maxPairs; rw [hg _ (by decide) (by decide)]; exact h.vPairs
    · intro t' s' ht' _
      unfold bitFree mapVal
      rw [hg _ (by omega) (by omega), hg _ (by omega) (by omega), hg _ (by omega) (by omega), hg _ (by omega) (by omega)]
      simp
  · split
    · have hb : 0x30 + [t, 1].length ≤ v.length := by rw [h.vlen]; simp
      have hg : ∀ i, i ≠ 0x30 → i ≠ 0x31 → (splice v 0x30 [t, 1]).getD i 0 = v.getD i 0 :=
        fun i a b => getD_splice_other hb (by simp; omega)
      refine ⟨⟨h.hc, by rw [splice_length hb]; exact h.vlen, all_lt_splice h.vlt (by intro x hx; simp at hx; rcases hx with rfl | rfl <;> omega),
        ?_, ?_, ?_, ?_⟩, fun i _ a b => hg i a b, ?_⟩
      · unfold Vtoc.tracks; rw [hg _ (by decide) (by decide)]; exact h.vTracks
      · unfold Vtoc.sectors; rw [hg _ (by decide) (by decide)]; exact h.vSpt
      · unfold Vtoc.bytesPerSector le16; rw [hg _ (by decide) (by decide), hg _ (by decide) (by decide)]; exact h.vBps
      · unfold Vtoc.maxPairs; rw [hg _ (by decide) (by decide)]; exact h.vPairs
      · intro t' s' ht' _
        unfold bitFree mapVal
        rw [hg _ (by omega) (by omega), hg _ (by omega) (by omega), hg _ (by omega) (by omega), hg _ (by omega) (by omega)]
        simp
    · exact Taken.refl h

theorem updateLastTrack_last {v : Bytes} {c t : Nat} (h : VOk v c) (ht : 1 ≤ t) (hl : 1 ≤ Vtoc.lastTrack v) :
    1 ≤ Vtoc.lastTrack (updateLastTrack v t) := by
  unfold updateLastTrack
  split
  · unfold Vtoc.lastTrack
    have := getD_splice_in (e := v) (new := [t, 255]) (off := 0x30) (j := 0) (by rw [h.vlen]; simp) (by simp)
    simp only [Nat.add_zero] at this
    rw [this]; simpa using ht
  · split
    · unfold Vtoc.lastTrack
      have := getD_splice_in (e := v) (new := [t, 1]) (off := 0x30) (j := 0) (by rw [h.vlen]; simp) (by simp)
      simp only [Nat.add_zero] at this
      rw [this]; simpa using ht
    · exact hl


/-! ## counting -/

theorem isFreeU_taken {v v' : Bytes} {c : Nat} {S : List Nat} (h : Taken v v' c S) {x : Nat} (hx : x < 35 * c) :
    isFreeU v' c x = (isFreeU v c x && !decide (x ∈ S)) := by
  have hc0 : 0 < c := by rcases h.ok.hc with e | e <;> omega
  unfold isFreeU
  rw [h.bits _ _ ((Nat.div_lt_iff_lt_mul hc0).2 hx) (Nat.mod_lt _ hc0)]
  have hxe : x / c * c + x % c = x := by rw [Nat.mul_comm]; exact Nat.div_add_mod x c
  rw [hxe]

theorem filter_remove_length {l : List Nat} {a : Nat} (nd : l.Nodup) (ha : a ∈ l) :
    (l.filter (fun x => !decide (x = a))).length + 1 = l.length := by
  induction l with
  | nil => cases ha
  | cons x xs ih =>
    have hn := List.nodup_cons.1 nd
    rw [List.filter_cons]
    by_cases hx : x = a
    · subst hx
      simp only [decide_true, Bool.not_true, Bool.false_eq_true, if_false, List.length_cons]
      have : xs.filter (fun y => !decide (y = x)) = xs := by
        rw [List.filter_eq_self]
        intro y hy
        have : y ≠ x := fun e => hn.1 (e ▸ hy)
        simpa using this
      rw [this]
    · have hax : a ∈ xs := by
        rcases List.mem_cons.1 ha with e | e
        · exact absurd e.symm hx
        · exact e
      simp only [hx, decide_false, Bool.not_false, if_true, List.length_cons]
      rw [ih hn.2 hax]

theorem mem_freeList {v : Bytes} {c x : Nat} : x ∈ freeList v c ↔ x < 35 * c ∧ isFreeU v c x = true := by
  unfold freeList; rw [List.mem_filter, List.mem_range]

theorem freeList_nodup (v : Bytes) (c : Nat) : (freeList v c).Nodup :=
  (List.filter_sublist (l := List.range (35 * c))).nodup List.nodup_range

/-- marking one free sector used lowers the free count by one -/
theorem nfree_taken {v v' : Bytes} {c u : Nat} (h : Taken v v' c [u]) (hu : u < 35 * c) (hf : isFreeU v c u = true) :
    nfree v' c + 1 = nfree v c := by
  unfold nfree
  have : freeList v' c = (freeList v c).filter (fun x => !decide (x = u)) := by
    unfold freeList
    rw [List.filter_filter]
    apply List.filter_congr
    intro x hx
    rw [isFreeU_taken h (List.mem_range.1 hx)]
    simp [Bool.and_comm]
  rw [this]
  exact filter_remove_length (freeList_nodup v c) (mem_freeList.2 ⟨hu, hf⟩)

theorem nfree_taken_nil {v v' : Bytes} {c : Nat} (h : Taken v v' c []) : nfree v' c = nfree v c := by
  have : freeList v' c = freeList v c := by
    unfold freeList
    apply List.filter_congr
    intro x hx
    rw [isFreeU_taken h (List.mem_range.1 hx)]
    simp
  unfold nfree
  rw [this]

/-! ## `get_next_free_sector` -/

theorem firstFreeInTrack_spec {v : Bytes} {c t : Nat} (h : VOk v c) (ht : t < 35) : ∀ (ss : List Nat), (∀ s ∈ ss, s < c) →
    ∃ r, firstFreeInTrack v t ss = .ok r ∧ (r = none → ∀ s ∈ ss, bitFree v c t s = false) ∧
      (∀ s, r = some s → s ∈ ss ∧ bitFree v c t s = true) := by
  intro ss
  induction ss with
  | nil => intro _; exact ⟨none, rfl, fun _ s hs => (by cases hs), fun s e => (by cases e)⟩
  | cons s ss ih =>
    intro hs
    rw [firstFreeInTrack, isFree_eq h.vSpt h.hc ht (hs s List.mem_cons_self)]
    cases hb : bitFree v c t s with
    | true => exact ⟨some s, rfl, fun e => (by cases e), fun s' e => (by cases e; exact ⟨List.mem_cons_self, hb⟩)⟩
    | false =>
      obtain ⟨r, hr, h1, h2⟩ := ih (fun x hx => hs x (List.mem_cons_of_mem _ hx))
      refine ⟨r, hr, ?_, ?_⟩
      · intro e x hx
        rcases List.mem_cons.1 hx with rfl | hx
        · exact hb
        · exact h1 e x hx
      · intro s' e; exact ⟨List.mem_cons_of_mem _ (h2 s' e).1, (h2 s' e).2⟩

theorem firstFree_spec {v : Bytes} {c : Nat} (h : VOk v c) : ∀ (ts : List Nat), (∀ t ∈ ts, t < 35) →
    ∃ r, firstFree v ts = .ok r ∧ (r = none → ∀ t ∈ ts, ∀ s, s < c → bitFree v c t s = false) ∧
      (∀ t s, r = some (t, s) → t ∈ ts ∧ s < c ∧ bitFree v c t s = true) := by
  intro ts
  induction ts with
  | nil => intro _; exact ⟨none, rfl, fun _ t ht => (by cases ht), fun t s e => (by cases e)⟩
  | cons t ts ih =>
    intro ht
    have hmem : ∀ s, s ∈ (rng 0 (Vtoc.sectors v)).reverse ↔ s < c := by
      intro s; rw [h.vSpt, rng_zero, List.mem_reverse, List.mem_range]
    obtain ⟨r1, hr1, ha, hb⟩ := firstFreeInTrack_spec h (ht t List.mem_cons_self) (rng 0 (Vtoc.sectors v)).reverse
      (fun s hs => (hmem s).1 hs)
    rw [firstFree, hr1]
    cases r1 with
    | some s =>
      refine ⟨some (t, s), rfl, fun e => (by cases e), ?_⟩
      intro t' s' e
      cases e
      exact ⟨List.mem_cons_self, (hmem s).1 (hb s rfl).1, (hb s rfl).2⟩
    | none =>
      obtain ⟨r, hr, h1, h2⟩ := ih (fun x hx => ht x (List.mem_cons_of_mem _ hx))
      refine ⟨r, hr, ?_, ?_⟩
      · intro e x hx s hs
        rcases List.mem_cons.1 hx with rfl | hx
        · exact ha rfl s ((hmem s).2 hs)
        · exact h1 e x hx s hs
      · intro t' s' e
        obtain ⟨a, b, c'⟩ := h2 t' s' e
        exact ⟨List.mem_cons_of_mem _ a, b, c'⟩

theorem mem_rng {a b x : Nat} : x ∈ rng a b ↔ a ≤ x ∧ x < b := by
  unfold rng
  rw [List.mem_range']
  constructor
  · rintro ⟨i, hi, rfl⟩; omega
  · rintro ⟨h1, h2⟩; exact ⟨x - a, by omega, by omega⟩

/-- the search order stays within tracks 1 … 34 and covers all of them other than the catalog track -/
theorem searchTracks_spec {v : Bytes} {c : Nat} (h : VOk v c) (h1 : Vtoc.track1 v = vtocTrack) (hl : 1 ≤ Vtoc.lastTrack v) (pj : Bool) :
    ∃ ts, searchTracks v pj = .ok ts ∧ (∀ t, t ∈ ts → 1 ≤ t ∧ t < 35) ∧ (∀ t, 1 ≤ t → t < 35 → t ≠ vtocTrack → t ∈ ts) := by
  unfold searchTracks
  simp only [h1, h.vTracks]
  have e17 : vtocTrack = 17 := rfl
  simp only [e17]
  by_cases ha : Vtoc.lastTrack v ≥ 35
  · simp only [ha, if_true]
    refine ⟨_, rfl, fun t => ?_, fun t => ?_⟩ <;> simp only [List.mem_append, List.mem_reverse, mem_rng] <;> omega
  · simp only [ha, if_false]
    by_cases hb : Vtoc.lastTrack v > 17 ∧ pj = true
    · simp only [hb, and_self, if_true]
      have : ¬ (Vtoc.lastTrack v + 1 < 17) := by omega
      simp only [this, if_false]
      refine ⟨_, rfl, fun t => ?_, fun t => ?_⟩ <;> simp only [List.mem_append, List.mem_reverse, mem_rng] <;> omega
    · simp only [hb, if_false]
      by_cases hc' : Vtoc.lastTrack v < 17 ∧ pj = true
      · have h0 : ¬ Vtoc.lastTrack v = 0 := by omega
        simp only [hc', and_self, if_true, h0, if_false]
        have : Vtoc.lastTrack v - 1 < 17 := by omega
        simp only [this, if_true]
        refine ⟨_, rfl, fun t => ?_, fun t => ?_⟩ <;> simp only [List.mem_append, List.mem_reverse, mem_rng] <;> omega
      · simp only [hc', if_false]
        by_cases hd : Vtoc.lastTrack v < 17
        · simp only [hd, if_true]
          refine ⟨_, rfl, fun t => ?_, fun t => ?_⟩ <;> simp only [List.mem_append, List.mem_reverse, mem_rng] <;> omega
        · simp only [hd, if_false]
          refine ⟨_, rfl, fun t => ?_, fun t => ?_⟩ <;> simp only [List.mem_append, List.mem_reverse, mem_rng] <;> omega

/-- `get_next_free_sector`: succeeds with a free sector in range whenever a free sector exists outside track 0
and the catalog track -/
theorem nextFree_spec {v : Bytes} {c : Nat} (h : VOk v c) (h1 : Vtoc.track1 v = vtocTrack) (hl : 1 ≤ Vtoc.lastTrack v) (pj : Bool)
    (hex : ∃ t s, 1 ≤ t ∧ t < 35 ∧ t ≠ vtocTrack ∧ s < c ∧ bitFree v c t s = true) :
    ∃ t s, nextFree v pj = .ok (t, s) ∧ 1 ≤ t ∧ t < 35 ∧ s < c ∧ bitFree v c t s = true := by
  obtain ⟨ts, hts, hin, hcov⟩ := searchTracks_spec h h1 hl pj
  obtain ⟨r, hr, hn, hs⟩ := firstFree_spec h ts (fun t ht => (hin t ht).2)
  unfold nextFree
  rw [hts]
  simp only [hr]
  cases r with
  | none =>
    obtain ⟨t, s, a, b, c', d, e⟩ := hex
    have := hn rfl t (hcov t a b c') s d
    rw [this] at e; cases e
  | some p =>
    obtain ⟨t, s⟩ := p
    obtain ⟨a, b, c'⟩ := hs t s rfl
    obtain ⟨x, y⟩ := hin t a
    exact ⟨t, s, rfl, x, y, b, c'⟩

end A2Verif.Fs.Dos3x
