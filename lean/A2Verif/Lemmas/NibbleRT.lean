import A2Verif.Lemmas.Nibble
/-!
Round trips of the sector codecs for every sector content (unbounded: all lists of 256 bytes).
-/
namespace A2Verif.Model.Nibble
open A2Verif.Gen.Disk525

/-- common skeleton of both decoders applied to an encoder output `(chain 0 L).map enc` -/
theorem vals_roundtrip (n : Nat) (enc dec : Nat → Nat) (L : List Nat)
    (hinv : ∀ v, v < 2 ^ n → dec (enc v) = v) (hL : ∀ x ∈ L, x < 2 ^ n) (hn : 2 ^ n ≤ 255) :
    ((chain 0 L).map enc).map dec = chain 0 L ∧
    (((chain 0 L).map enc).map dec).any (· == INVALID_NIB_BYTE) = false ∧
    scanXor 0 (((chain 0 L).map enc).map dec) = L ++ [0] := by
  have hc := chain_lt n 0 L (Nat.two_pow_pos n) hL
  have h1 : ((chain 0 L).map enc).map dec = chain 0 L := by
    rw [List.map_map]
    conv => rhs; rw [← List.map_id (chain 0 L)]
    apply List.map_congr_left
    intro a ha
    simp [hinv a (hc a ha)]
  refine ⟨h1, ?_, ?_⟩
  · rw [h1, List.any_eq_false]
    intro x hx
    have := hc x hx
    simp [INVALID_NIB_BYTE]
    omega
  · rw [h1, scanXor_chain]

theorem dec62_enc62 (d : List Nat) (hlen : d.length = 256) (hb : ∀ x ∈ d, x < 256) :
    dec62 (enc62 d) = .ok d := by
  -- the list of six-bit values the encoder chains
  let A := (List.range 86).map (aux62 d)
  let T := (List.range 256).map (fun i => d.getD i 0 >>> 2)
  have hA : A.length = 86 := by simp [A]
  have hT : T.length = 256 := by simp [T]
  have hget : ∀ i, i < 256 → d.getD i 0 < 256 := by
    intro i hi
    rw [getD_of_lt d i 0 (by omega)]
    exact hb _ (List.getElem_mem _)
  have hget' : ∀ i, d.getD i 0 < 256 := by
    intro i
    by_cases hi : i < 256
    · exact hget i hi
    · simp [List.getD_eq_getElem?_getD, List.getElem?_eq_none (by omega : d.length ≤ i)]
  have hL : ∀ x ∈ A ++ T, x < 2 ^ 6 := by
    intro x hx
    rcases List.mem_append.1 hx with h | h
    · obtain ⟨i, _, rfl⟩ := List.mem_map.1 h
      unfold aux62
      split
      · exact (decTwo_pack _ _ _ (hget' i) (hget' (i + 86)) (hget' (i + 172))).2.2.2
      · have := (decTwo_pack _ _ 0 (hget' i) (hget' (i + 86)) (by decide)).2.2.2
        simpa [swap2] using this
    · obtain ⟨i, _, rfl⟩ := List.mem_map.1 h
      exact (split62 ⟨_, hget' i⟩).2
  obtain ⟨_, hany, hscan⟩ := vals_roundtrip 6 encByte62 decByte62 (A ++ T)
    (fun v hv => decByte62_encByte62 v hv) hL (by decide)
  have hlen343 : (enc62 d).length = 343 := by
    simp [enc62, pre62, length_chain]
  unfold dec62
  rw [if_neg (by simp [hlen343])]
  have hpre : enc62 d = (chain 0 (A ++ T)).map encByte62 := rfl
  simp only [hpre, hany, hscan]
  have h342 : (A ++ T ++ [0]).getD 342 0 = 0 := by
    rw [getD_app_right _ _ _ _ (by simp [hA, hT])]
    simp [hA, hT]
  rw [if_neg (by simp), if_neg (by rw [h342]; simp)]
  congr 1
  apply map_range_eq d 256 _ hlen
  intro i hi
  have hi' : i < 256 := by omega
  have hTop : (A ++ T ++ [0]).getD (86 + i) 0 = d.getD i 0 >>> 2 := by
    rw [getD_app_left _ _ _ _ (by simp [hA, hT]; omega), getD_app_right _ _ _ _ (by simp [hA])]
    simp only [hA, Nat.add_sub_cancel_left, T]
    exact getD_map_range _ _ _ _ hi'
  have hAux : (A ++ T ++ [0]).getD (i % 86) 0 = aux62 d (i % 86) := by
    have : i % 86 < 86 := Nat.mod_lt _ (by decide)
    rw [getD_app_left _ _ _ _ (by simp [hA, hT]; omega), getD_app_left _ _ _ _ (by simp [hA]; omega)]
    exact getD_map_range _ _ _ _ this
  rw [hTop, hAux, ← getD_of_lt d i 0 hi]
  have hsplit := (split62 ⟨d.getD i 0, hget i hi'⟩).1
  simp only at hsplit
  -- which of the three passes of the packing loop byte `i` went through
  have hcase : i / 86 = 0 ∨ i / 86 = 1 ∨ i / 86 = 2 := by omega
  unfold aux62
  rcases hcase with h | h | h
  · have hm : i % 86 = i := by omega
    rw [h, hm]
    split
    · rw [(decTwo_pack _ _ _ (hget' i) (hget' (i + 86)) (hget' (i + 172))).1]; exact hsplit
    · have := (decTwo_pack _ _ 0 (hget' i) (hget' (i + 86)) (by decide)).1
      simp only [swap2] at this ⊢
      simp only [Nat.zero_and, Nat.zero_shiftLeft, Nat.zero_shiftRight, Nat.or_zero] at this ⊢
      rw [this]; exact hsplit
  · have hm : i % 86 + 86 = i := by omega
    rw [h, hm]
    split
    · rw [(decTwo_pack _ _ _ (hget' (i % 86)) (hget' i) (hget' (i % 86 + 172))).2.1]; exact hsplit
    · have := (decTwo_pack _ _ 0 (hget' (i % 86)) (hget' i) (by decide)).2.1
      simp only [swap2] at this ⊢
      simp only [Nat.zero_and, Nat.zero_shiftLeft, Nat.zero_shiftRight, Nat.or_zero] at this ⊢
      rw [this]; exact hsplit
  · have hm : i % 86 + 172 = i := by omega
    rw [h, hm, if_pos hi']
    rw [(decTwo_pack _ _ _ (hget' (i % 86)) (hget' (i % 86 + 86)) (hget' i)).2.2.1]; exact hsplit


/-! ### 5&3 -/

theorem threes53_bank1 (d : List Nat) (q : Nat) (hq : q ≤ 50) :
    threes53 d (50 - q) = th1 (d.getD (5 * q) 0) (d.getD (5 * q + 3) 0) (d.getD (5 * q + 4) 0) := by
  have h1 : (50 - q) % 51 = 50 - q := by omega
  have h2 : 50 - (50 - q) = q := by omega
  have h3 : 50 - q < 51 := by omega
  simp only [threes53, h1, h2, if_pos h3, th1]

theorem threes53_bank2 (d : List Nat) (q : Nat) (hq : q ≤ 50) :
    threes53 d (51 + (50 - q)) = th2 (d.getD (5 * q + 1) 0) (d.getD (5 * q + 3) 0) (d.getD (5 * q + 4) 0) := by
  have h1 : (51 + (50 - q)) % 51 = 50 - q := by omega
  have h2 : 50 - (50 - q) = q := by omega
  have h3 : ¬ (51 + (50 - q) < 51) := by omega
  have h4 : 51 + (50 - q) < 102 := by omega
  simp only [threes53, h1, h2, if_neg h3, if_pos h4, th2]

theorem threes53_bank3 (d : List Nat) (q : Nat) (hq : q ≤ 50) :
    threes53 d (102 + (50 - q)) = th3 (d.getD (5 * q + 2) 0) (d.getD (5 * q + 3) 0) (d.getD (5 * q + 4) 0) := by
  have h1 : (102 + (50 - q)) % 51 = 50 - q := by omega
  have h2 : 50 - (50 - q) = q := by omega
  have h3 : ¬ (102 + (50 - q) < 51) := by omega
  have h4 : ¬ (102 + (50 - q) < 102) := by omega
  have h5 : 102 + (50 - q) < 153 := by omega
  simp only [threes53, h1, h2, if_neg h3, if_neg h4, if_pos h5, th3]

theorem top53_at (d : List Nat) (q k : Nat) (hq : q ≤ 50) (hk : k ≤ 4) :
    top53 d (51 * k + (50 - q)) = d.getD (5 * q + k) 0 >>> 3 := by
  have h1 : (51 * k + (50 - q)) % 51 = 50 - q := by omega
  have h2 : (51 * k + (50 - q)) / 51 = k := by omega
  have h3 : 50 - (50 - q) = q := by omega
  have h4 : 51 * k + (50 - q) < 255 := by omega
  simp only [top53, if_pos h4, h1, h2, h3]

theorem threes53_lt (d : List Nat) (hb : ∀ i, d.getD i 0 < 256) (j : Nat) : threes53 d j < 2 ^ 5 := by
  have T := fun a b c e f => th_bytes (d.getD a 0) (d.getD b 0) (d.getD c 0) (d.getD e 0) (d.getD f 0)
    (hb a) (hb b) (hb c) (hb e) (hb f)
  unfold threes53
  simp only
  split
  · exact (T _ 0 0 _ _).2.2.2.2.2.1
  · split
    · exact (T 0 _ 0 _ _).2.2.2.2.2.2.1
    · split
      · exact (T 0 0 _ _ _).2.2.2.2.2.2.2
      · exact (split53 ⟨_, hb 255⟩).2.2.2

theorem top53_lt (d : List Nat) (hb : ∀ i, d.getD i 0 < 256) (j : Nat) : top53 d j < 2 ^ 5 := by
  unfold top53
  split
  · exact (split53 ⟨_, hb _⟩).2.1
  · exact (split53 ⟨_, hb _⟩).2.1

theorem dec53_enc53 (d : List Nat) (hlen : d.length = 256) (hb : ∀ x ∈ d, x < 256) :
    dec53 (enc53 d) = .ok d := by
  let A := (List.range 154).map (fun k => threes53 d (153 - k))
  let T := (List.range 256).map (top53 d)
  have hA : A.length = 154 := by simp [A]
  have hT : T.length = 256 := by simp [T]
  have hget' : ∀ i, d.getD i 0 < 256 := by
    intro i
    by_cases hi : i < 256
    · rw [getD_of_lt d i 0 (by omega)]
      exact hb _ (List.getElem_mem _)
    · simp [List.getD_eq_getElem?_getD, List.getElem?_eq_none (by omega : d.length ≤ i)]
  have hL : ∀ x ∈ A ++ T, x < 2 ^ 5 := by
    intro x hx
    rcases List.mem_append.1 hx with h | h
    · obtain ⟨i, _, rfl⟩ := List.mem_map.1 h
      exact threes53_lt d hget' _
    · obtain ⟨i, _, rfl⟩ := List.mem_map.1 h
      exact top53_lt d hget' _
  obtain ⟨_, hany, hscan⟩ := vals_roundtrip 5 encByte53 decByte53 (A ++ T)
    (fun v hv => decByte53_encByte53 v hv) hL (by decide)
  have hlen411 : (enc53 d).length = 411 := by
    simp [enc53, pre53, length_chain]
  unfold dec53
  rw [if_neg (by simp [hlen411])]
  have hpre : enc53 d = (chain 0 (A ++ T)).map encByte53 := rfl
  simp only [hpre, hany, hscan]
  have h410 : (A ++ T ++ [0]).getD 410 0 = 0 := by
    rw [getD_app_right _ _ _ _ (by simp [hA, hT])]
    simp [hA, hT]
  rw [if_neg (by simp), if_neg (by rw [h410]; simp)]
  congr 1
  -- what the decoder's `threes[j]` and `base[j]` hold
  have hTh : ∀ j, j ≤ 153 → (A ++ T ++ [0]).getD (153 - j) 0 = threes53 d j := by
    intro j hj
    rw [getD_app_left _ _ _ _ (by simp [hA, hT]; omega), getD_app_left _ _ _ _ (by simp [hA]; omega)]
    rw [getD_map_range _ _ _ _ (by omega)]
    congr 1; omega
  have hBs : ∀ j, j < 256 → (A ++ T ++ [0]).getD (154 + j) 0 = top53 d j := by
    intro j hj
    rw [getD_app_left _ _ _ _ (by simp [hA, hT]; omega), getD_app_right _ _ _ _ (by simp [hA])]
    simp only [hA, Nat.add_sub_cancel_left, T]
    exact getD_map_range _ _ _ _ hj
  apply map_range_eq d 256 _ hlen
  intro j hj
  have hj' : j < 256 := by omega
  rw [← getD_of_lt d j 0 hj]
  unfold out53
  by_cases h255 : j < 255
  · rw [if_pos h255]
    have hq : j / 5 ≤ 50 := by omega
    simp only
    rw [hTh (50 - j / 5) (by omega), hTh (51 + (50 - j / 5)) (by omega), hTh (102 + (50 - j / 5)) (by omega)]
    rw [threes53_bank1 d _ hq, threes53_bank2 d _ hq, threes53_bank3 d _ hq]
    have TB := th_bytes (d.getD (5 * (j / 5)) 0) (d.getD (5 * (j / 5) + 1) 0) (d.getD (5 * (j / 5) + 2) 0)
      (d.getD (5 * (j / 5) + 3) 0) (d.getD (5 * (j / 5) + 4) 0) (hget' _) (hget' _) (hget' _) (hget' _) (hget' _)
    obtain ⟨t0, t1, t2, t3, t4, _⟩ := TB
    have hk : j % 5 = 0 ∨ j % 5 = 1 ∨ j % 5 = 2 ∨ j % 5 = 3 ∨ j % 5 = 4 := by omega
    rcases hk with h | h | h | h | h
    · have hj0 : 5 * (j / 5) = j := by omega
      have := top53_at d (j / 5) 0 hq (by omega)
      simp only [Nat.mul_zero, Nat.zero_add] at this
      simp only [h]
      rw [hBs _ (by omega), this, t0, hj0]
      exact (split53 ⟨_, hget' j⟩).1
    · have hj0 : 5 * (j / 5) + 1 = j := by omega
      have := top53_at d (j / 5) 1 hq (by omega)
      simp only [Nat.mul_one] at this
      simp only [h]
      rw [hBs _ (by omega), this, t1, hj0]
      exact (split53 ⟨_, hget' j⟩).1
    · have hj0 : 5 * (j / 5) + 2 = j := by omega
      have := top53_at d (j / 5) 2 hq (by omega)
      simp only [show 51 * 2 = 102 from rfl] at this
      simp only [h]
      rw [hBs _ (by omega), this, t2, hj0]
      exact (split53 ⟨_, hget' j⟩).1
    · have hj0 : 5 * (j / 5) + 3 = j := by omega
      have := top53_at d (j / 5) 3 hq (by omega)
      simp only [show 51 * 3 = 153 from rfl] at this
      simp only [h]
      rw [hBs _ (by omega), this, t3, hj0]
      exact (split53 ⟨_, hget' j⟩).1
    · have hj0 : 5 * (j / 5) + 4 = j := by omega
      have := top53_at d (j / 5) 4 hq (by omega)
      simp only [show 51 * 4 = 204 from rfl] at this
      simp only [h]
      rw [hBs _ (by omega), this, t4, hj0]
      exact (split53 ⟨_, hget' j⟩).1
  · have hj255 : j = 255 := by omega
    rw [if_neg h255]
    simp only
    rw [hTh 153 (by omega), hBs 255 (by omega), hj255]
    have h1 : threes53 d 153 = d.getD 255 0 &&& 0x07 := by simp [threes53]
    have h2 : top53 d 255 = d.getD 255 0 >>> 3 := by simp [top53]
    rw [h1, h2, (split53 ⟨_, hget' 255⟩).2.2.1]
    exact (split53 ⟨_, hget' 255⟩).1

end A2Verif.Model.Nibble
