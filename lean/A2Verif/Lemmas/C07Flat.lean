import A2Verif.Lemmas.C07Store
import A2Verif.Lemmas.C07Apple
/-!
# C07: the flat containers DO and PO as concrete stores (store laws proved, not assumed)

A flat image is seen as an array of 128-byte units (unit `i` = bytes `128·i .. 128·i+128` of `data`).
The unit of normal-form address `(t, p, h)` is the one `read_sector(t,0,p)` shows at half `h` in a DO
image (`doOffsetOf`), resp. the ProDOS interleave in a PO image (`poOffsetOf`).  The store laws
(`get_put_same`, `get_put_other`) follow from the index maps being total and injective on valid
addresses, which is what `do_offset_norm_inverse` / `po_offset_norm_inverse` give.
-/
namespace A2Verif.C07
open A2Verif.Gen A2Verif.Model.AddrMap
open A2Verif.Model.AddrMap.Out (ok err panic)

/-- an injective, total (on valid addresses) map from normal-form addresses to unit indices `< N` -/
structure UnitIndex where
  idx : NAddr → Option Nat
  N : Nat
  bound : ∀ a i, idx a = some i → i < N
  inj : ∀ a b i, idx a = some i → idx b = some i → a = b
  total : ∀ a, Valid525 a → ∃ i, idx a = some i

/-- flat image of `N` units with address map `locate` -/
def unitStore (U : UnitIndex) (locate : Block → Option (List NAddr))
    (hl : ∀ r as, locate r = some as → ∀ a ∈ as, Valid525 a) : Container NAddr Block where
  St := { s : List (List Nat) // s.length = U.N }
  valid := Valid525
  get := fun s a => match U.idx a with
    | some i => (s.val[i]?).getD []
    | none => []
  put := fun s a v => match U.idx a with
    | some i => ⟨s.val.set i v, by simp [s.property]⟩
    | none => s
  locate := locate
  get_put_same := by
    intro s a v ha
    obtain ⟨i, hi⟩ := U.total a ha
    have hb : i < s.val.length := by rw [s.property]; exact U.bound a i hi
    simp [hi, hb]
  get_put_other := by
    intro s a b v ha hab
    obtain ⟨i, hi⟩ := U.total a ha
    cases hj : U.idx b with
    | none => simp
    | some j =>
      have hne : i ≠ j := by
        intro e
        subst e
        exact hab (U.inj a b i hi hj)
      simp [hi, List.getElem?_set_ne hne]
  locate_valid := hl

/-- unit index from a flat byte offset function (only valid addresses have a unit) -/
def unitIdxOf (offsetOf : NAddr → Out Nat) (a : NAddr) : Option Nat :=
  if validB a then
    match offsetOf a with
    | ok o => if o % 128 = 0 ∧ o / 128 < 4480 then some (o / 128) else none
    | _ => none
  else none

/-- every valid address has an aligned, in-range flat offset in DO and in PO -/
theorem flat_offsets_aligned :
    ∀ t : Fin 35, ∀ p : Fin 16, ∀ h : Fin 2,
      (unitIdxOf doOffsetOf (t.val, p.val, h.val)).isSome = true ∧
      (unitIdxOf poOffsetOf (t.val, p.val, h.val)).isSome = true := by
  decide +kernel

theorem validB_iff (a : NAddr) : validB a = true ↔ Valid525 a := by
  simp [validB, Valid525]

theorem unitIdxOf_spec (offsetOf : NAddr → Out Nat) (a : NAddr) (i : Nat) (h : unitIdxOf offsetOf a = some i) :
    Valid525 a ∧ offsetOf a = ok (128 * i) ∧ i < 4480 := by
  unfold unitIdxOf at h
  by_cases hv : validB a = true
  · rw [if_pos hv] at h
    cases ho : offsetOf a with
    | ok o =>
      rw [ho] at h
      simp only [] at h
      by_cases hc : o % 128 = 0 ∧ o / 128 < 4480
      · rw [if_pos hc] at h
        injection h with h
        refine ⟨(validB_iff a).mp hv, ?_, by omega⟩
        congr 1
        omega
      · rw [if_neg hc] at h
        cases h
    | err => rw [ho] at h; cases h
    | panic => rw [ho] at h; cases h
  · rw [if_neg hv] at h
    cases h

/-- build a `UnitIndex` from an offset function with a left inverse on valid addresses -/
def mkUnitIndex (offsetOf : NAddr → Out Nat) (normOf : Nat → Out NAddr)
    (hinv : ∀ a, Valid525 a → (offsetOf a >>= normOf) = ok a)
    (htot : ∀ a, Valid525 a → (unitIdxOf offsetOf a).isSome = true) : UnitIndex where
  idx := unitIdxOf offsetOf
  N := 4480
  bound := fun a i h => (unitIdxOf_spec offsetOf a i h).2.2
  inj := by
    intro a b i ha hb
    obtain ⟨va, oa, _⟩ := unitIdxOf_spec offsetOf a i ha
    obtain ⟨vb, ob, _⟩ := unitIdxOf_spec offsetOf b i hb
    have h1 := hinv a va
    have h2 := hinv b vb
    rw [oa] at h1
    rw [ob] at h2
    simp only [bind, Out.bind] at h1 h2
    rw [h1] at h2
    injection h2
  total := by
    intro a ha
    have := htot a ha
    cases h : unitIdxOf offsetOf a with
    | some i => exact ⟨i, rfl⟩
    | none => rw [h] at this; cases this

theorem lift525 (P : NAddr → Prop) (h : ∀ t : Fin 35, ∀ p : Fin 16, ∀ k : Fin 2, P (t.val, p.val, k.val))
    (a : NAddr) (ha : Valid525 a) : P a := by
  obtain ⟨t, p, k⟩ := a
  exact h ⟨t, ha.1⟩ ⟨p, ha.2.1⟩ ⟨k, ha.2.2⟩

/-- the DO image as an array of 4480 units, indexed through `DO::read_sector`'s offset -/
def doUnitIndex : UnitIndex :=
  mkUnitIndex doOffsetOf doNormOfFlat
    (lift525 _ (fun t p k => do_offset_norm_inverse.2 t p k))
    (lift525 _ (fun t p k => (flat_offsets_aligned t p k).1))

/-- the PO image as an array of 4480 units, indexed through the ProDOS interleave -/
def poUnitIndex : UnitIndex :=
  mkUnitIndex poOffsetOf poNormOfFlat
    (lift525 _ (fun t p k => po_offset_norm_inverse.2 t p k))
    (lift525 _ (fun t p k => (flat_offsets_aligned t p k).2))

end A2Verif.C07
