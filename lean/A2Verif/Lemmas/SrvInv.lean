import A2Verif.Lemmas.Srv
/-!
Invariants of the server protocol model, each proved over the transition classification
`step_trans` and lifted to whole runs by induction over the event list.
-/
namespace A2Verif.Srv

variable (an : Nat → Text → Option Diags)

/-! ### runs -/

theorem run_append (s : State) (a b : List Event) :
    run an s (a ++ b) = (run an s a).bind (fun s' => run an s' b) := by
  induction a generalizing s with
  | nil => simp [run]
  | cons e a ih =>
    simp only [List.cons_append, run]
    cases step an s e with
    | none => simp
    | some s1 => simp [ih]

/-- an invariant of single steps is an invariant of runs -/
theorem run_induct {P : State → Prop} {ok : Event → Prop}
    (hstep : ∀ s s' e, ok e → P s → step an s e = some s' → P s')
    {s s' : State} {evs : List Event} (hok : ∀ e ∈ evs, ok e) (h0 : P s) (hr : run an s evs = some s') : P s' := by
  induction evs generalizing s with
  | nil => simp [run] at hr; subst hr; exact h0
  | cons e evs ih =>
    simp only [run] at hr
    cases hs : step an s e with
    | none => simp [hs] at hr
    | some s1 =>
      simp only [hs] at hr
      exact ih (fun e' he' => hok e' (List.mem_cons_of_mem _ he')) (hstep s s1 e (hok e (by simp)) h0 hs) hr

/-! ### (i) what is published is a subsequence of what was launched -/

/-- `pre` = jobs already harvested.  Everything published comes, in order, from harvested jobs and
is exactly what that job's own document yields. -/
structure Inv (s : State) : Prop where
  split : ∃ pre, s.launched = pre ++ qdocs s.queue ∧ s.published.Sublist (pre.filterMap (pubOf an))
  res : ∀ j ∈ s.queue, ∀ d, j.st = .done (some d) → an j.id j.doc.text = some d

theorem Inv.init : Inv an init :=
  { split := ⟨[], by simp [Srv.init, qdocs], by simp [Srv.init]⟩, res := by simp [Srv.init] }

theorem pubsOf_cases (j : Job) (h : ∀ d, j.st = .done (some d) → an j.id j.doc.text = some d) :
    (pubsOf j = [] ) ∨ (∃ p, pubsOf j = [p] ∧ pubOf an (j.id, j.doc) = some p) := by
  unfold pubsOf
  split
  · rename_i d hst
    right
    refine ⟨_, rfl, ?_⟩
    simp [pubOf, h d hst]
  · left; rfl

theorem Inv.step {s s' : State} {e : Event} (hi : Inv an s) (hs : step an s e = some s') : Inv an s' := by
  obtain ⟨⟨pre, hl, hp⟩, hres⟩ := hi
  have upd : ∀ id f, Upd s s' id f → (∀ j d, f j = .done (some d) → an j.id j.doc.text = some d) → Inv an s' := by
    intro id f hu hf
    refine ⟨⟨pre, ?_, ?_⟩, ?_⟩
    · rw [hu.launched, hu.queue, qdocs_updSt]; exact hl
    · rw [hu.published]; exact hp
    · intro j' hj' d hd
      rw [hu.queue] at hj'
      obtain ⟨j, hj, hid, hdoc, _, hcase⟩ := mem_updSt hj'
      rw [hdoc, hid]
      rcases hcase with ⟨_, hst⟩ | ⟨_, hst⟩
      · exact hf j d (hst ▸ hd)
      · exact hres j hj d (hst ▸ hd)
  cases step_trans an hs with
  | ext new h _ _ =>
    refine ⟨⟨pre, ?_, ?_⟩, ?_⟩
    · rw [h.launched, h.queue, qdocs_append, hl, List.append_assoc]
    · rw [h.published]; exact hp
    · intro j hj d hd
      rw [h.queue] at hj
      rcases List.mem_append.mp hj with hj | hj
      · exact hres j hj d hd
      · have := (h.fresh j hj).1
        rw [this] at hd
        cases hd
  | acq id j he hj hst hu hl' => exact upd id _ hu (by intro j d h; cases h)
  | acqPoisoned id j he hj hst hp' hu hl' => exact upd id _ hu (by intro j d h; cases h)
  | fin id j he hj hst hu hl' =>
    exact upd id _ hu (by intro j d h; simp only [JobSt.done.injEq] at h; exact h)
  | die id j he hj hst hu hl' => exact upd id _ hu (by intro j d h; cases h)
  | harvest j he h =>
    have hj : j ∈ s.queue := by rw [h.queue]; simp
    refine ⟨⟨pre ++ [(j.id, j.doc)], ?_, ?_⟩, ?_⟩
    · rw [h.launched, hl, h.queue]; simp [qdocs]
    · rw [h.published, List.filterMap_append]
      rcases pubsOf_cases an j (hres j hj) with h0 | ⟨p, h1, h2⟩
      · rw [h0, List.append_nil]
        exact hp.trans (List.sublist_append_left _ _)
      · rw [h1]
        simp only [List.filterMap_cons, h2, List.filterMap_nil]
        exact List.Sublist.append hp (List.Sublist.refl _)
    · intro j' hj' d hd
      exact hres j' (by rw [h.queue]; exact List.mem_cons_of_mem _ hj') d hd

theorem Inv.run {s s' : State} {evs : List Event} (hi : Inv an s) (hr : run an s evs = some s') : Inv an s' :=
  run_induct an (ok := fun _ => True) (fun _ _ _ _ h hs => Inv.step an h hs) (fun _ _ => trivial) hi hr

/-! ### (ii) without a dying thread the published list is exact -/

structure Clean (s : State) : Prop where
  split : ∃ pre, s.launched = pre ++ qdocs s.queue ∧ s.published = pre.filterMap (pubOf an)
  lock : s.lock ≠ .poisoned
  res : ∀ j ∈ s.queue, j.st ≠ .dead ∧ ∀ r, j.st = .done r → r = an j.id j.doc.text

theorem Clean.init : Clean an init :=
  { split := ⟨[], by simp [Srv.init, qdocs], by simp [Srv.init]⟩, lock := by simp [Srv.init],
    res := by simp [Srv.init] }

def notDie : Event → Prop
  | .die _ => False
  | _ => True

instance : DecidablePred notDie := fun e => by
  cases e <;> simp only [notDie] <;> infer_instance

theorem Clean.step {s s' : State} {e : Event} (hnd : notDie e) (hi : Clean an s)
    (hs : step an s e = some s') : Clean an s' := by
  obtain ⟨⟨pre, hl, hp⟩, hlock, hres⟩ := hi
  have upd : ∀ id f, Upd s s' id f → s'.lock ≠ .poisoned →
      (∀ j, f j ≠ .dead ∧ ∀ r, f j = .done r → r = an j.id j.doc.text) → Clean an s' := by
    intro id f hu hk hf
    refine ⟨⟨pre, ?_, ?_⟩, hk, ?_⟩
    · rw [hu.launched, hu.queue, qdocs_updSt]; exact hl
    · rw [hu.published]; exact hp
    · intro j' hj'
      rw [hu.queue] at hj'
      obtain ⟨j, hj, hid, hdoc, _, hcase⟩ := mem_updSt hj'
      rw [hdoc, hid]
      rcases hcase with ⟨_, hst⟩ | ⟨_, hst⟩
      · rw [hst]; exact hf j
      · rw [hst]; exact hres j hj
  cases step_trans an hs with
  | ext new h _ _ =>
    refine ⟨⟨pre, ?_, ?_⟩, ?_, ?_⟩
    · rw [h.launched, h.queue, qdocs_append, hl, List.append_assoc]
    · rw [h.published]; exact hp
    · rw [h.lock]; exact hlock
    · intro j hj
      rw [h.queue] at hj
      rcases List.mem_append.mp hj with hj | hj
      · exact hres j hj
      · have := (h.fresh j hj).1
        rw [this]
        exact ⟨by simp, by intro r h; cases h⟩
  | acq id j he hj hst hu hl' =>
    refine upd id _ hu ?_ (fun j => ⟨by simp, by intro r h; cases h⟩)
    rcases hl' with ⟨_, h⟩ | ⟨_, _, h⟩
    · rw [h]; exact hlock
    · rw [h]; simp
  | acqPoisoned id j he hj hst hp' hu hl' => exact absurd hl'.1 hlock
  | fin id j he hj hst hu hl' =>
    refine upd id _ hu ?_ (fun j => ⟨by simp, by intro r h; simp only [JobSt.done.injEq] at h; exact h.symm⟩)
    rcases hl' with ⟨_, h⟩ | ⟨_, h⟩
    · rw [h]; exact hlock
    · rw [h]; simp
  | die id j he hj hst hu hl' => subst he; exact absurd hnd (by simp [notDie])
  | harvest j he h =>
    have hj : j ∈ s.queue := by rw [h.queue]; simp
    refine ⟨⟨pre ++ [(j.id, j.doc)], ?_, ?_⟩, ?_, ?_⟩
    · rw [h.launched, hl, h.queue]; simp [qdocs]
    · rw [h.published, List.filterMap_append, hp]
      congr 1
      have hr := hres j hj
      unfold pubsOf
      split
      · rename_i d hst
        have := hr.2 _ hst
        simp [pubOf, ← this]
      · rename_i hne
        cases hst : j.st with
        | done r =>
          have := hr.2 _ hst
          cases r with
          | some d => exact absurd hst (hne d)
          | none => simp [pubOf, ← this]
        | dead => exact absurd hst hr.1
        | spawned => have := h.fin; simp [hst, JobSt.finished] at this
        | holding => have := h.fin; simp [hst, JobSt.finished] at this
    · rw [h.lock]; exact hlock
    · intro j' hj'
      exact hres j' (by rw [h.queue]; exact List.mem_cons_of_mem _ hj')

theorem Clean.run {s s' : State} {evs : List Event} (hnd : ∀ e ∈ evs, notDie e) (hi : Clean an s)
    (hr : run an s evs = some s') : Clean an s' :=
  run_induct an (ok := notDie) (fun _ _ _ hok h hs => Clean.step an hok h hs) hnd hi hr

theorem Clean.exact {s : State} (h : Clean an s) (hq : s.queue = []) :
    s.published = s.launched.filterMap (pubOf an) := by
  obtain ⟨⟨pre, hl, hp⟩, _, _⟩ := h
  rw [hq] at hl
  simp [qdocs] at hl
  rw [hp, hl]

/-! ### ids -/

structure IdsOk (s : State) : Prop where
  sorted : (s.queue.map (·.id)).Pairwise (· < ·)
  bound : ∀ j ∈ s.queue, j.id < s.nextId

theorem IdsOk.init : IdsOk init := { sorted := by simp [Srv.init], bound := by simp [Srv.init] }

theorem IdsOk.step {s s' : State} {e : Event} (hi : IdsOk s) (hs : step an s e = some s') : IdsOk s' := by
  have upd : ∀ id f, Upd s s' id f → IdsOk s' := by
    intro id f hu
    refine ⟨?_, ?_⟩
    · rw [hu.queue, ids_updSt]; exact hi.sorted
    · intro j' hj'
      rw [hu.queue] at hj'
      obtain ⟨j, hj, hid, _⟩ := mem_updSt hj'
      rw [hid, hu.nextId]
      exact hi.bound j hj
  cases step_trans an hs with
  | ext new h _ _ =>
    refine ⟨?_, ?_⟩
    · rw [h.queue, List.map_append, List.pairwise_append]
      refine ⟨hi.sorted, h.sorted, ?_⟩
      intro a ha b hb
      simp only [List.mem_map] at ha hb
      obtain ⟨ja, hja, rfl⟩ := ha
      obtain ⟨jb, hjb, rfl⟩ := hb
      have := hi.bound ja hja
      have := (h.fresh jb hjb).2
      omega
    · intro j hj
      rw [h.queue] at hj
      rw [h.nextId]
      rcases List.mem_append.mp hj with hj | hj
      · have := hi.bound j hj; omega
      · exact h.bound j hj
  | acq id j he hj hst hu hl' => exact upd id _ hu
  | acqPoisoned id j he hj hst hp' hu hl' => exact upd id _ hu
  | fin id j he hj hst hu hl' => exact upd id _ hu
  | die id j he hj hst hu hl' => exact upd id _ hu
  | harvest j he h =>
    refine ⟨?_, ?_⟩
    · have := hi.sorted
      rw [h.queue, List.map_cons, List.pairwise_cons] at this
      exact this.2
    · intro j' hj'
      rw [h.nextId]
      exact hi.bound j' (by rw [h.queue]; exact List.mem_cons_of_mem _ hj')

/-! ### fairness: a job whose `finish` event occurred stays finished -/

/-- job `id` exists already and is not running any more (finished, possibly harvested) -/
def Settled (id : Nat) (s : State) : Prop :=
  id < s.nextId ∧ ∀ j ∈ s.queue, j.id = id → j.st.finished = true

theorem Settled.step {id : Nat} {s s' : State} {e : Event} (hi : Settled id s)
    (hs : step an s e = some s') : Settled id s' := by
  obtain ⟨hb, hf⟩ := hi
  have upd : ∀ id' (j : Job) f, findJob s.queue id' = some j → j.st.finished = false → Upd s s' id' f →
      Settled id s' := by
    intro id' j f hj hnf hu
    have ⟨hjm, hjid⟩ := findJob_some hj
    have hne : id' ≠ id := by
      intro h
      have := hf j hjm (hjid.trans h)
      rw [this] at hnf
      cases hnf
    refine ⟨by rw [hu.nextId]; exact hb, ?_⟩
    intro j' hj' hid'
    rw [hu.queue] at hj'
    obtain ⟨j0, hj0, hid0, _, _, hcase⟩ := mem_updSt hj'
    rcases hcase with ⟨h1, _⟩ | ⟨_, hst⟩
    · exact absurd (h1.symm.trans (hid0.symm.trans hid')) hne
    · rw [hst]; exact hf j0 hj0 (hid0.symm.trans hid')
  cases step_trans an hs with
  | ext new h _ _ =>
    refine ⟨by rw [h.nextId]; omega, ?_⟩
    intro j hj hid
    rw [h.queue] at hj
    rcases List.mem_append.mp hj with hj | hj
    · exact hf j hj hid
    · have := (h.fresh j hj).2
      omega
  | acq id' j he hj hst hu hl' => exact upd id' j _ hj (by simp [hst, JobSt.finished]) hu
  | acqPoisoned id' j he hj hst hp' hu hl' => exact upd id' j _ hj (by simp [hst, JobSt.finished]) hu
  | fin id' j he hj hst hu hl' => exact upd id' j _ hj (by simp [hst, JobSt.finished]) hu
  | die id' j he hj hst hu hl' => exact upd id' j _ hj (by simp [hst, JobSt.finished]) hu
  | harvest j he h =>
    refine ⟨by rw [h.nextId]; exact hb, ?_⟩
    intro j' hj' hid
    exact hf j' (by rw [h.queue]; exact List.mem_cons_of_mem _ hj') hid

theorem settled_of_finish {id : Nat} {s s' : State} (hi : IdsOk s)
    (hs : step an s (.finish id) = some s') : Settled id s' := by
  cases step_trans an hs with
  | ext new h hne _ => exact absurd rfl (hne id).2.1
  | acq id' j he => cases he
  | acqPoisoned id' j he => cases he
  | die id' j he => cases he
  | harvest j he => cases he
  | fin id' j he hj hst hu hl' =>
    cases he
    have ⟨hjm, hjid⟩ := findJob_some hj
    refine ⟨by rw [hu.nextId, ← hjid]; exact hi.bound j hjm, ?_⟩
    intro j' hj' hid'
    rw [hu.queue] at hj'
    obtain ⟨j0, hj0, hid0, _, _, hcase⟩ := mem_updSt hj'
    rcases hcase with ⟨_, hst'⟩ | ⟨h1, _⟩
    · rw [hst']; rfl
    · exact absurd (hid0.symm.trans hid') h1

theorem settled_of_run {id : Nat} {s s' : State} {evs : List Event} (hi : IdsOk s)
    (hr : run an s evs = some s') (hmem : Event.finish id ∈ evs) : Settled id s' := by
  induction evs generalizing s with
  | nil => cases hmem
  | cons e evs ih =>
    simp only [run] at hr
    cases hs : step an s e with
    | none => simp [hs] at hr
    | some s1 =>
      simp only [hs] at hr
      rcases List.mem_cons.mp hmem with h | h
      · subst h
        have h1 := settled_of_finish an hi hs
        exact run_induct an (ok := fun _ => True) (fun _ _ _ _ h hs => Settled.step an h hs)
          (fun _ _ => trivial) h1 hr
      · exact ih (IdsOk.step an hi hs) hr h

/-! ### draining the queue -/

theorem tick_pops {s : State} {j : Job} {rest : List Job} (hq : s.queue = j :: rest)
    (hf : j.st.finished = true) :
    ∃ s', step an s .tick = some s' ∧ s'.queue = rest ∧ s'.launched = s.launched := by
  simp only [step, hq]
  cases hst : j.st with
  | done r => cases r <;> simp
  | dead => simp
  | spawned => simp [hst, JobSt.finished] at hf
  | holding => simp [hst, JobSt.finished] at hf

theorem drain (n : Nat) : ∀ s : State, s.queue.length = n → (∀ j ∈ s.queue, j.st.finished = true) →
    ∃ s', run an s (List.replicate n .tick) = some s' ∧ s'.queue = [] ∧ s'.launched = s.launched := by
  induction n with
  | zero =>
    intro s hn _
    exact ⟨s, by simp [run], List.eq_nil_of_length_eq_zero hn, rfl⟩
  | succ n ih =>
    intro s hn hf
    match hq : s.queue with
    | [] => rw [hq] at hn; simp at hn
    | j :: rest =>
      obtain ⟨s1, h1, h2, h3⟩ := tick_pops an hq (hf j (by rw [hq]; simp))
      have hlen : s1.queue.length = n := by rw [h2]; rw [hq] at hn; simpa using hn
      obtain ⟨s2, h4, h5, h6⟩ := ih s1 hlen (by
        intro j' hj'
        exact hf j' (by rw [hq]; rw [h2] at hj'; exact List.mem_cons_of_mem _ hj'))
      exact ⟨s2, by simp [List.replicate_succ, run, h1, h4], h5, h6.trans h3⟩

end A2Verif.Srv
