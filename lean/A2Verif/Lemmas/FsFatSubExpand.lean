import A2Verif.Lemmas.FsFatSInv
import A2Verif.Lemmas.FsFatGrowAbs
/-!
# `expand_directory` keeps the invariant between steps

`expand_sinv`: when a well-formed first-level directory without a free slot grows by a cluster, the state after
`expand_directory` — before any flush — satisfies `SInv` for the volume in which the record of the directory owns the new
cluster and nothing else changed, and the directory is well formed along the extended chain.
-/
namespace A2Verif.FsFat
open A2Verif A2Verif.Fs.Fat A2Verif.Read.Fat A2Verif.Read.FatT

theorem firstFreeEntry_none : ∀ (E : List Bytes) (i : Nat), firstFreeEntry E i = none →
    ∀ x ∈ E, entryType x ≠ .free ∧ entryType x ≠ .freeAndNoMore := by
  intro E
  induction E with
  | nil => intro _ _ x hx; cases hx
  | cons a t ih =>
    intro i h x hx
    rw [firstFreeEntry] at h
    cases ht : entryType a with
    | free => simp only [ht] at h; cases h
    | freeAndNoMore => simp only [ht] at h; cases h
    | file | directory | volumeLabel | longName =>
      simp only [ht] at h
      rcases List.mem_cons.mp hx with h' | h'
      · rw [h', ht]; simp
      · exact ih _ h x h'

/-- what the reading of a well-formed volume with the first-level directory `D` looks like -/
structure SubReading (d : Disk) (f : Array Nat) (v : Vol) (E1 : List Bytes) (eD : Bytes) (E2 : List Bytes) (cl : List Nat)
    (R1 R2 Q : List (List FileRec)) : Prop where
  r1 : (preEnts E1).mapM (rd d f) = .ok R1
  r2 : (postEnts E2).mapM (rd d f) = .ok R2
  q : (dirEnts (chainData d cl)).mapM (rdS d f (entPath [] eD)) = .ok Q
  vol : v = mkVol d.bpb f (R1.flatten ++ (dirRecOf eD cl :: Q.flatten) ++ R2.flatten)

theorem subReading_of {d : Disk} {f : Array Nat} {v : Vol} (s : SInv d f v) {D : Bytes} {E1 E2 : List Bytes} {eD : Bytes} {cl : List Nat}
    (sd : SubDirOk d D f E1 eD E2 cl) :
    shown eD ∧ NameGood eD ∧ (∀ y ∈ E1, live y) ∧ ∃ R1 R2 Q, SubReading d f v E1 eD E2 cl R1 R2 Q := by
  have g := s.geo
  obtain ⟨hA, _, _⟩ := rootEntries_spec g
  have hmemD : eD ∈ dirOfBytes (rootBuf d) := by rw [sd.hE]; simp
  have hDl : eD.length = 32 := hA eD hmemD
  obtain ⟨hshownD, hgoodD⟩ := shown_of_inMap s.root hmemD hDl sd.inmap
  have hE1live : ∀ y ∈ E1, live y := fun y hy => live_of_type (hA y (by rw [sd.hE]; simp [hy])) (sd.hE1 y hy)
  obtain ⟨R1, y, R2, r1, ry, r2, hv⟩ := root_split sd.hE hE1live hshownD s.read
  rw [rd_dir g sd.isdir sd.chain sd.nodup] at ry
  cases hsub : readDirT d.raw (rbpb d.bpb) f false (hiOf d.bpb) 32 (chainData d cl) (entPath [] eD) with
  | error er => rw [hsub] at ry; cases ry
  | ok sub =>
    rw [hsub] at ry
    injection ry with ry
    obtain ⟨Q, hQ, hsubQ⟩ := sub_iff.mp hsub
    exact ⟨hshownD, hgoodD, hE1live, R1, R2, Q, { r1 := r1, r2 := r2, q := hQ, vol := by rw [hv, ← ry, hsubQ] }⟩

/-- the reading assembled from the per-entry readings -/
theorem subReading_read {d : Disk} {f : Array Nat} (g : Geo d) {D : Bytes} {E1 E2 : List Bytes} {eD : Bytes} {cl : List Nat}
    (sd : SubDirOk d D f E1 eD E2 cl) (hsh : shown eD) (hl : ∀ y ∈ E1, live y) {R1 R2 Q : List (List FileRec)}
    (r1 : (preEnts E1).mapM (rd d f) = .ok R1) (r2 : (postEnts E2).mapM (rd d f) = .ok R2)
    (q : (dirEnts (chainData d cl)).mapM (rdS d f (entPath [] eD)) = .ok Q) :
    readFrom d f (rootBuf d) = .ok (mkVol d.bpb f (R1.flatten ++ (dirRecOf eD cl :: Q.flatten) ++ R2.flatten)) := by
  have hsub : readDirT d.raw (rbpb d.bpb) f false (hiOf d.bpb) 32 (chainData d cl) (entPath [] eD) = .ok Q.flatten :=
    sub_iff.mpr ⟨Q, q, rfl⟩
  have hrd : rd d f eD = .ok (dirRecOf eD cl :: Q.flatten) := by rw [rd_dir g sd.isdir sd.chain sd.nodup, hsub]
  exact root_join sd.hE hl hsh r1 hrd r2

theorem keep_readings {d d' : Disk} {f f' : Array Nat} (hb : d'.bpb = d.bpb) {fuel : Nat} {pfx : Bytes} {L : List Bytes}
    {RR : List (List FileRec)} (h : L.mapM (rdEnt d.raw (rbpb d.bpb) f false (hiOf d.bpb) fuel pfx) = .ok RR)
    (hz : ∀ y ∈ RR, ∀ z ∈ y.flatMap (·.owned), nxt f' z = nxt f z ∧
      clusterData d'.raw (rbpb d.bpb) z = clusterData d.raw (rbpb d.bpb) z) :
    L.mapM (rdEnt d'.raw (rbpb d'.bpb) f' false (hiOf d'.bpb) fuel pfx) = .ok RR := by
  rw [hb]
  apply mapM_congr_ok _ _ _ _ h
  intro e y _ hy hye
  exact rdEnt_congr_owned hye (hz y hy)

/-- the clusters of the records other than the directory's own: data clusters, in use, none of them a cluster of the
directory; the clusters of the directory are in use as well -/
theorem sub_others {b : Fs.Fat.Bpb} {f : Array Nat} {eD : Bytes} {cl : List Nat} {R1 R2 Q : List (List FileRec)}
    (hw : (mkVol b f (R1.flatten ++ (dirRecOf eD cl :: Q.flatten) ++ R2.flatten)).wfB = true) :
    (∀ rec ∈ R1.flatten ++ (Q.flatten ++ R2.flatten), ∀ z ∈ rec.owned, 2 ≤ z ∧ isFree12 f z = false ∧ z ∉ cl) ∧
    (∀ z ∈ cl, isFree12 f z = false) := by
  have hw' : (mkVol b f (R1.flatten ++ dirRecOf eD cl :: (Q.flatten ++ R2.flatten))).wfB = true := by
    have : R1.flatten ++ (dirRecOf eD cl :: Q.flatten) ++ R2.flatten = R1.flatten ++ dirRecOf eD cl :: (Q.flatten ++ R2.flatten) := by simp
    rw [this] at hw; exact hw
  have hdis := others_disjoint hw'
  constructor
  · intro rec hrec z hz
    have hzo : z ∈ (R1.flatten ++ dirRecOf eD cl :: (Q.flatten ++ R2.flatten)).flatMap (·.owned) := by
      apply List.mem_flatMap.mpr
      refine ⟨rec, ?_, hz⟩
      rcases List.mem_append.1 hrec with h | h
      · exact List.mem_append_left _ h
      · exact List.mem_append_right _ (List.mem_cons_of_mem _ h)
    obtain ⟨h2, _, hnf⟩ := owned_nonfree hw' hzo
    exact ⟨h2, hnf, hdis z (List.mem_flatMap.mpr ⟨rec, hrec, hz⟩)⟩
  · intro z hz
    have hzo : z ∈ (R1.flatten ++ dirRecOf eD cl :: (Q.flatten ++ R2.flatten)).flatMap (·.owned) := by
      apply List.mem_flatMap.mpr
      exact ⟨dirRecOf eD cl, by simp, hz⟩
    exact (owned_nonfree hw' hzo).2.2

/-- **`expand_directory` keeps the invariant between steps** -/
theorem expand_sinv {d : Disk} {f : Array Nat} {v : Vol} (s : SInv d f v) {D : Bytes} {E1 E2 : List Bytes} {eD : Bytes} {cl : List Nat}
    (sd : SubDirOk d D f E1 eD E2 cl) (hfull : firstFreeEntry (subEntries d cl) 0 = none) (dir : Directory) :
    (expandDirectory dir (le16 eD 26) d = (.error .diskFull, d)) ∨
    ∃ nc dg f2 F1 F2, expandDirectory dir (le16 eD 26) d = (.ok (dir ++ List.replicate (epcOf d.bpb) (zeros 32)), dg) ∧
      dg.bpb = d.bpb ∧ v.files = F1 ++ dirRecOf eD cl :: F2 ∧ nc ∈ v.freeUnits ∧
      (∀ x, x ∈ freeUnitsOf d.bpb f2 ↔ x ∈ v.freeUnits ∧ x ≠ nc) ∧
      SInv dg f2 (grown v F1 F2 (dirRecOf eD cl) nc (freeUnitsOf d.bpb f2)) ∧ SubDirOk dg D f2 E1 eD E2 (cl ++ [nc]) ∧
      subEntries dg (cl ++ [nc]) = subEntries d cl ++ List.replicate (epcOf d.bpb) (zeros 32) := by
  have g := s.geo
  have w := s.wok
  rcases expand_run g w sd.chain sd.nodup dir with hfail | ⟨nc, r', f2, hcr, hcf, hrun, gdg, wdg, hsz2, hchain2, hnd2, hoth, hlastnc, hfr, hsub2⟩
  · exact Or.inl hfail
  right
  have ⟨hc2, hcu⟩ := clusInRng_bounds hcr
  obtain ⟨hshD, hgoodD, hE1live, R1, R2, Q, sr⟩ := subReading_of s sd
  have hwv := s.wf
  rw [sr.vol] at hwv
  obtain ⟨hoth1, hclnf⟩ := sub_others hwv
  have hncl : nc ∉ cl := fun h => by have := hclnf nc h; rw [hcf] at this; cases this
  -- the root directory is untouched
  have hlow : ∀ u, u < d.bpb.firstDataSec → r'.units[u]? = d.raw.units[u]? := by
    intro u hu
    apply hfr
    rw [List.mem_range'_1]
    unfold Bpb.firstClusterSec
    omega
  have hroot : rootBuf ({ d with raw := r', fat := some f2 } : Disk) = rootBuf d := rootBuf_congr_lt rfl (fun u _ hu => hlow u hu)
  have hdata : ∀ u, d.bpb.firstDataSec ≤ u → u ∉ List.range' (d.bpb.firstClusterSec nc) d.bpb.spc →
      ({ d with raw := r', fat := some f2 } : Disk).raw.units[u]? = d.raw.units[u]? := fun u _ hn => hfr u hn
  -- the other entries keep their readings
  have hzkeep : ∀ z, 2 ≤ z → isFree12 f z = false → z ∉ cl →
      nxt f2 z = nxt f z ∧ clusterData ({ d with raw := r', fat := some f2 } : Disk).raw (rbpb d.bpb) z = clusterData d.raw (rbpb d.bpb) z := by
    intro z hz2 hznf hzcl
    have hzne : z ≠ nc := fun e => by rw [e, hcf] at hznf; cases hznf
    refine ⟨hoth z hzne (fun e => hzcl (List.mem_of_getLast? e)), clusterData_same g hz2 hc2 hzne hdata⟩
  have hkeepL : ∀ (fuel : Nat) (pfx : Bytes) (L : List Bytes) (RR : List (List FileRec)),
      L.mapM (rdEnt d.raw (rbpb d.bpb) f false (hiOf d.bpb) fuel pfx) = .ok RR →
      (∀ y ∈ RR, ∀ r0 ∈ y, r0 ∈ R1.flatten ++ (Q.flatten ++ R2.flatten)) →
      L.mapM (rdEnt ({ d with raw := r', fat := some f2 } : Disk).raw (rbpb d.bpb) f2 false (hiOf d.bpb) fuel pfx) = .ok RR := by
    intro fuel pfx L RR hL hmem
    apply keep_readings (d := d) (d' := ({ d with raw := r', fat := some f2 } : Disk)) (f := f) (f' := f2) rfl hL
    intro y hy z hz
    obtain ⟨r0, hr0, hzr0⟩ := List.mem_flatMap.mp hz
    obtain ⟨h2, hnf, hncl'⟩ := hoth1 r0 (hmem y hy r0 hr0) z hzr0
    exact hzkeep z h2 hnf hncl'
  have hR1' := hkeepL 32 [] _ _ sr.r1 (fun y hy r0 hr0 => List.mem_append_left _ (List.mem_flatten.mpr ⟨y, hy, hr0⟩))
  have hR2' := hkeepL 32 [] _ _ sr.r2 (fun y hy r0 hr0 =>
    List.mem_append_right _ (List.mem_append_right _ (List.mem_flatten.mpr ⟨y, hy, hr0⟩)))
  have hQ' := hkeepL 31 (entPath [] eD) _ _ sr.q (fun y hy r0 hr0 =>
    List.mem_append_right _ (List.mem_append_left _ (List.mem_flatten.mpr ⟨y, hy, hr0⟩)))
  -- the reader's entries of the grown directory are those of the old one
  obtain ⟨hAS, hlenS⟩ := subEntries_spec g sd.chain
  have hSlive : ∀ x ∈ subEntries d cl, live x := fun x hx => live_of_type (hAS x hx) (firstFreeEntry_none _ _ hfull x hx).2
  have hZ0 : ∀ x ∈ List.replicate (epcOf d.bpb) (zeros 32), x.getD 0 0 = 0 := by
    intro x hx; rw [(List.mem_replicate.mp hx).2]; rfl
  have hents : dirEnts (chainData ({ d with raw := r', fat := some f2 } : Disk) (cl ++ [nc])) = dirEnts (chainData d cl) := by
    rw [dirEnts_eq, dirEnts_eq]
    have e1 : dirOfBytes (chainData ({ d with raw := r', fat := some f2 } : Disk) (cl ++ [nc])) =
        subEntries d cl ++ List.replicate (epcOf d.bpb) (zeros 32) := hsub2
    have e2 : dirOfBytes (chainData d cl) = subEntries d cl ++ [] := by simp [subEntries]
    rw [e1, e2, act_append _ _ hSlive, act_append _ _ hSlive, act_zero_tail hZ0]
    rfl
  -- the volume afterwards
  have sd2 : SubDirOk ({ d with raw := r', fat := some f2 } : Disk) D f2 E1 eD E2 (cl ++ [nc]) := by
    refine { wok := wdg, hE := by rw [hroot]; exact sd.hE, hE1 := sd.hE1, inmap := sd.inmap, key := sd.key, isdir := sd.isdir,
             chain := hchain2, nodup := hnd2, ents := ?_ }
    have hse : dirOfBytes (chainData ({ d with raw := r', fat := some f2 } : Disk) (cl ++ [nc])) =
        subEntries d cl ++ List.replicate (epcOf d.bpb) (zeros 32) := hsub2
    rw [hse]
    refine { ents := ?_, tail := ?_ }
    · intro e he h0 h5 hl h46
      rcases List.mem_append.1 he with h | h
      · exact sd.ents.ents e h h0 h5 hl h46
      · exact absurd (hZ0 e h) h0
    · intro i j e1 e2 hij h1 h2 hz
      by_cases hi : i < (subEntries d cl).length
      · rw [List.getElem?_append_left hi] at h1
        exact absurd hz (hSlive e1 (List.mem_of_getElem? h1)).1
      · rw [List.getElem?_append_right (by omega)] at h2
        exact hZ0 e2 (List.mem_of_getElem? h2)
  have hread2 : readFrom ({ d with raw := r', fat := some f2 } : Disk) f2 (rootBuf ({ d with raw := r', fat := some f2 } : Disk)) =
      .ok (mkVol d.bpb f2 (R1.flatten ++ (dirRecOf eD (cl ++ [nc]) :: Q.flatten) ++ R2.flatten)) := by
    apply subReading_read gdg sd2 hshD hE1live hR1' hR2'
    rw [hents]
    exact hQ'
  have hfilesv : v.files = R1.flatten ++ dirRecOf eD cl :: (Q.flatten ++ R2.flatten) := by rw [sr.vol]; simp [mkVol]
  have hfreeU : v.freeUnits = freeUnitsOf d.bpb f := by rw [sr.vol]; rfl
  have hncfree : nc ∈ v.freeUnits := by
    rw [hfreeU, mem_freeUnitsOf]
    unfold firstDataCluster at hcu
    exact ⟨⟨hc2, hcu⟩, (isFree12_iff f nc).mp hcf⟩
  have hfree' : ∀ x, x ∈ freeUnitsOf d.bpb f2 ↔ x ∈ v.freeUnits ∧ x ≠ nc := by
    intro x
    rw [hfreeU, mem_freeUnitsOf, mem_freeUnitsOf]
    constructor
    · rintro ⟨hr, h0⟩
      have hx : x ≠ nc := fun e => by rw [e, hlastnc] at h0; cases h0
      by_cases hxl : cl.getLast? = some x
      · -- the last cluster of the directory now links to `nc`: not free
        exfalso
        have hxm := List.mem_of_getLast? hxl
        have : IsChain f2 (hiOf d.bpb) (le16 eD 26) (cl ++ [nc]) := hchain2
        exact this.nonzero x (List.mem_append_left _ hxm) h0
      · exact ⟨⟨hr, by rw [← hoth x hx hxl]; exact h0⟩, hx⟩
    · rintro ⟨⟨hr, h0⟩, hx⟩
      have hxl : cl.getLast? ≠ some x := by
        intro e
        have := hclnf x (List.mem_of_getLast? e)
        rw [(isFree12_iff f x).mpr h0] at this
        cases this
      exact ⟨hr, by rw [hoth x hx hxl]; exact h0⟩
  have hvol2 : mkVol d.bpb f2 (R1.flatten ++ (dirRecOf eD (cl ++ [nc]) :: Q.flatten) ++ R2.flatten) =
      grown v R1.flatten (Q.flatten ++ R2.flatten) (dirRecOf eD cl) nc (freeUnitsOf d.bpb f2) := by
    rw [sr.vol]
    unfold grown growRec mkVol dirRecOf
    simp
  refine ⟨nc, { d with raw := r', fat := some f2 }, f2, R1.flatten, Q.flatten ++ R2.flatten, hrun, rfl, hfilesv, hncfree, hfree', ?_, sd2, hsub2⟩
  rw [← hvol2]
  have hwf2 : (grown v R1.flatten (Q.flatten ++ R2.flatten) (dirRecOf eD cl) nc (freeUnitsOf d.bpb f2)).wfB = true :=
    wfB_grown hfilesv s.wf hncfree (freeUnitsOf_nodup d.bpb f2) hfree'
  have hnl2 : (grown v R1.flatten (Q.flatten ++ R2.flatten) (dirRecOf eD cl) nc (freeUnitsOf d.bpb f2)).noLeak = true :=
    noLeak_grown hfilesv s.nl hfree'
  exact { lf := s.lf, geo := gdg, wok := wdg, size := by rw [hsz2]; exact s.size, root := by rw [RootOk, hroot]; exact s.root,
          tail := by rw [hroot]; exact s.tail, read := hread2, wf := by rw [hvol2]; exact hwf2, nl := by rw [hvol2]; exact hnl2 }

end A2Verif.FsFat
