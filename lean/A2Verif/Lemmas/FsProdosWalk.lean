import A2Verif.Lemmas.FsProdosInv
/-!
# The model's directory walks along a chain, as functions of the slots the reader lists

`search_entries` returns the first slot (in the reader's order: `dirSlots`) that holds an active entry matching the name and
the storage types; `get_available_entry` the first slot whose first byte is zero; `get_key_directory` walks the back
links to the key block.  Stated for either buffer state (`St`): none of the walks touches the bitmap.
-/
namespace A2Verif.FsProdos
open A2Verif.Fs.Prodos
open A2Verif.Read.Prodos (entryAt dirChain trimName)
open A2Verif.Read.ProdosT

/-- the location of a slot as the model names it -/
def slotLoc (x : Bytes × Nat × Nat) : Loc := { block := x.2.1, idx := x.2.2 }

/-- the slot holds an active entry that matches `(types, nm)` (the test of `search_entries`) -/
def isHit (types : List Nat) (nm : Bytes) (x : Bytes × Nat × Nat) : Bool := Ent.isActive x.1 && isFileMatch types nm x.1

/-- the kinds `get_directory` assigns along the chain of the directory with key block `key`: key block for `key`, entry
block for the others -/
def KindsOk (r : Raw) (key : Nat) (ch : List Nat) : Prop :=
  ∀ b ∈ ch, (b = key → kindOf b (unitAt r b) ≠ DKind.entry) ∧ (b ≠ key → kindOf b (unitAt r b) = DKind.entry)

theorem entryIdxs_eq (kind : DKind) (bytes : Bytes) :
    Dir.entryIdxs { kind := kind, bytes := bytes } =
      (if kind = DKind.entry then List.range 13 else (List.range 13).drop 1).map (· + 1) := by
  cases kind <;> rfl

theorem getEntry_std (kind : DKind) (blk : Bytes) (k : Nat) (hk : k < 13) (hkind : kind ≠ DKind.entry → 1 ≤ k) :
    Dir.getEntry { kind := kind, bytes := blk.take dirLen } (k + 1) = some (entryAt blk k 39) := by
  unfold Dir.getEntry
  have hok : Dir.idxOk { kind := kind, bytes := blk.take dirLen } (k + 1) = true := by
    unfold Dir.idxOk
    cases kind
    · have := hkind (by decide); simp; omega
    · have := hkind (by decide); simp; omega
    · simp; omega
  rw [if_pos hok]
  have := getEntry_eq_entryAt blk (k + 1) (by omega)
  simp only [Nat.add_sub_cancel] at this
  rw [this]

/-- `first match in one block` is `find?` on the block's slots -/
theorem firstMatch_eq (types : List Nat) (nm : Bytes) (b : Nat) (blk : Bytes) (kind : DKind) : ∀ (ks : List Nat),
    (∀ k ∈ ks, k < 13 ∧ (kind ≠ DKind.entry → 1 ≤ k)) →
    firstMatch types nm { kind := kind, bytes := blk.take dirLen } (ks.map (· + 1)) =
      ((ks.map (fun k => (entryAt blk k 39, b, k + 1))).find? (isHit types nm)).map (·.2.2)
  | [], _ => rfl
  | k :: ks, h => by
    obtain ⟨hk, hkind⟩ := h k List.mem_cons_self
    rw [List.map_cons, List.map_cons, firstMatch, getEntry_std kind blk k hk hkind, List.find?_cons]
    simp only
    by_cases hhit : isHit types nm (entryAt blk k 39, b, k + 1) = true
    · have : (Ent.isActive (entryAt blk k 39) && isFileMatch types nm (entryAt blk k 39)) = true := hhit
      rw [if_pos this, hhit]
      rfl
    · have hf : isHit types nm (entryAt blk k 39, b, k + 1) = false := by simpa using hhit
      have : ¬ ((Ent.isActive (entryAt blk k 39) && isFileMatch types nm (entryAt blk k 39)) = true) := hhit
      rw [if_neg this, hf]
      exact firstMatch_eq types nm b blk kind ks (fun j hj => h j (List.mem_cons_of_mem _ hj))

theorem firstMatch_block (types : List Nat) (nm : Bytes) (r : Raw) (key b : Nat)
    (hkind : (b = key → kindOf b (unitAt r b) ≠ DKind.entry) ∧ (b ≠ key → kindOf b (unitAt r b) = DKind.entry)) :
    firstMatch types nm { kind := kindOf b (unitAt r b), bytes := (unitAt r b).take dirLen }
        (Dir.entryIdxs { kind := kindOf b (unitAt r b), bytes := (unitAt r b).take dirLen }) =
      ((blockSlots r key b).find? (isHit types nm)).map (·.2.2) := by
  rw [entryIdxs_eq]
  unfold blockSlots slotIdxs
  by_cases hb : b = key
  · have hk := hkind.1 hb
    rw [if_neg hk, if_pos hb]
    apply firstMatch_eq
    intro k hk'
    rw [List.mem_drop_iff_getElem] at hk'
    obtain ⟨i, hi, rfl⟩ := hk'
    simp at hi ⊢
    omega
  · have hk := hkind.2 hb
    rw [if_pos hk, if_neg hb]
    apply firstMatch_eq
    intro k hk'
    exact ⟨List.mem_range.mp hk', fun h => absurd hk h⟩

theorem next_eq (kind : DKind) (blk : Bytes) : Dir.next { kind := kind, bytes := blk.take dirLen } = le16 blk 2 := by
  unfold Dir.next; exact le16_take blk dirLen 2 (by unfold dirLen; omega)

theorem prev_eq (kind : DKind) (blk : Bytes) : Dir.prev { kind := kind, bytes := blk.take dirLen } = le16 blk 0 := by
  unfold Dir.prev; exact le16_take blk dirLen 0 (by unfold dirLen; omega)

theorem isChain_zero {r : Raw} {ch : List Nat} (h : IsChain r 0 ch) : ch = [] := by
  cases h with
  | nil => rfl
  | cons hb _ _ => exact absurd rfl hb

theorem unitAt_of_get {r : Raw} {i : Nat} {blk : Bytes} (h : r.units[i]? = some blk) : unitAt r i = blk := by
  unfold unitAt; rw [h]; rfl

/-- **`search_entries` along a chain** is `find?` on the directory's slots; the disk is left alone -/
theorem searchLoop_chain (d : Disk) (bm cnt : Nat) (hst : St d bm cnt) (types : List Nat) (nm : Bytes) (key : Nat) :
    ∀ (ch : List Nat) (fuel b : Nat), IsChain d.raw b ch → b ≠ 0 → (∀ x ∈ ch, x ∉ bmRange bm cnt) → KindsOk d.raw key ch →
      ch.length ≤ fuel →
      searchLoop types nm fuel b d = (.ok (((dirSlots d.raw key ch).find? (isHit types nm)).map slotLoc), d)
  | [], _, _, h, hb, _, _, _ => by cases h; exact absurd rfl hb
  | c :: rest, fuel, b, h, hb, hnb, hkinds, hf => by
    obtain ⟨f, rfl⟩ : ∃ f, fuel = f + 1 := ⟨fuel - 1, by simp at hf; omega⟩
    cases h with
    | @cons _ blk _ _ hblk hrest =>
      have hu := unitAt_of_get hblk
      unfold searchLoop
      simp only [bind_def]
      rw [bind_ok _ _ d d _ (getDirectory_st hst c blk (hnb c List.mem_cons_self) hblk)]
      have hfm := firstMatch_block types nm d.raw key c (hkinds c List.mem_cons_self)
      rw [hu] at hfm
      rw [hfm]
      unfold dirSlots
      rw [List.flatMap_cons, List.find?_append]
      cases hfind : (blockSlots d.raw key c).find? (isHit types nm) with
      | some x =>
        simp only [Option.map_some, Option.or_some, pure_def, M.pure]
        have hxm := List.mem_of_find?_eq_some hfind
        obtain ⟨k, _, _, rfl⟩ := mem_blockSlots.mp hxm
        rfl
      | none =>
        simp only [Option.map_none, Option.none_or]
        rw [next_eq]
        by_cases hn : le16 blk 2 = 0
        · rw [hn] at hrest
          have := isChain_zero hrest
          subst this
          simp [hn, pure_def, M.pure]
        · simp only [hn, ↓reduceIte]
          exact searchLoop_chain d bm cnt hst types nm key rest f (le16 blk 2) hrest hn
            (fun x hx => hnb x (List.mem_cons_of_mem _ hx)) (fun x hx => hkinds x (List.mem_cons_of_mem _ hx))
            (by simp at hf; omega)

/-- back links that are not zero make the blocks after the key block entry blocks -/
theorem kindsOk_tail (r : Raw) (key : Nat) :
    ∀ (ch : List Nat) (p : Nat), p ≠ 0 → PrevOk r p ch → key ∉ ch → (∀ x ∈ ch, x ≠ 0 ∧ x ≠ volKeyBlock) → KindsOk r key ch
  | [], _, _, _, _, _ => fun _ hb => by cases hb
  | c :: rest, p, hp, hprev, hk, hnz => by
    intro b hb
    rcases List.mem_cons.mp hb with rfl | hb'
    · refine ⟨fun h => absurd (h ▸ List.mem_cons_self) hk, fun _ => ?_⟩
      have h0 : le16 (unitAt r b) 0 = p := hprev.1
      unfold kindOf
      rw [if_neg (hnz b List.mem_cons_self).2]
      have : ¬ ((unitAt r b).getD 0 0 == 0 && (unitAt r b).getD 1 0 == 0) = true := by
        intro hz
        simp only [Bool.and_eq_true, beq_iff_eq] at hz
        unfold le16 at h0
        rw [hz.1, hz.2] at h0
        exact hp h0.symm
      rw [if_neg this]
    · exact kindsOk_tail r key rest c (hnz c List.mem_cons_self).1 hprev.2
        (fun h => hk (List.mem_cons_of_mem _ h)) (fun x hx => hnz x (List.mem_cons_of_mem _ hx)) b hb'

/-- the kinds along the chain of the volume directory -/
theorem kindsOk_root (r : Raw) (rest : List Nat) (hprev : PrevOk r 0 (2 :: rest)) (hnd : (2 :: rest).Nodup)
    (hnz : ∀ x ∈ rest, x ≠ 0) : KindsOk r 2 (2 :: rest) := by
  rw [List.nodup_cons] at hnd
  intro b hb
  rcases List.mem_cons.mp hb with rfl | hb'
  · refine ⟨fun _ => ?_, fun h => absurd rfl h⟩
    unfold kindOf; simp [volKeyBlock]
  · exact kindsOk_tail r 2 rest 2 (by omega) hprev.2 hnd.1
      (fun x hx => ⟨hnz x hx, fun h => hnd.1 (by rw [show volKeyBlock = 2 from rfl] at h; exact h ▸ hx)⟩) b hb'

/-! ## `get_key_directory`: the back links -/

theorem prevOk_get (r : Raw) : ∀ (ch : List Nat) (p i : Nat) (h : i < ch.length), PrevOk r p ch →
    le16 (unitAt r ch[i]) 0 = if i = 0 then p else ch[i - 1]'(by omega)
  | [], _, _, h, _ => by cases h
  | c :: rest, p, 0, _, hp => hp.1
  | c :: rest, p, i + 1, h, hp => by
    have := prevOk_get r rest c i (by simpa using h) hp.2
    simp only [List.getElem_cons_succ, Nat.add_sub_cancel]
    rw [this]
    cases i with
    | zero => simp
    | succ j => simp

/-- **`get_key_directory(b)`** for a block of a chain with consistent back links: the first block of the chain -/
theorem keyDirLoop_chain (d : Disk) (bm cnt : Nat) (hst : St d bm cnt) (ch : List Nat) (hne : ch ≠ [])
    (hprev : PrevOk d.raw 0 ch) (hex : ∀ x ∈ ch, x < d.raw.units.size) (hnz : ∀ x ∈ ch, x ≠ 0) (hnb : ∀ x ∈ ch, x ∉ bmRange bm cnt) :
    ∀ (i fuel : Nat) (h : i < ch.length), i < fuel →
      keyDirLoop fuel ch[i] d =
        (.ok (ch.head hne, { kind := kindOf (ch.head hne) (unitAt d.raw (ch.head hne)), bytes := (unitAt d.raw (ch.head hne)).take dirLen }), d)
  | i, 0, _, hf => by omega
  | i, fuel + 1, h, hf => by
    have hmem : ch[i] ∈ ch := List.getElem_mem h
    unfold keyDirLoop
    simp only [bind_def]
    rw [bind_ok _ _ d d _ (getDirectory_st hst ch[i] (unitAt d.raw ch[i]) (hnb _ hmem) (units_get_unitAt _ _ (hex _ hmem)))]
    rw [prev_eq, prevOk_get d.raw ch 0 i h hprev]
    cases i with
    | zero =>
      simp only [↓reduceIte, pure_def, M.pure]
      have : ch[0] = ch.head hne := by
        cases ch with
        | nil => exact absurd rfl hne
        | cons c rest => rfl
      rw [this]
    | succ j =>
      have hj : j < ch.length := by omega
      have hnzj : ch[j] ≠ 0 := hnz _ (List.getElem_mem hj)
      simp only [Nat.add_one_ne_zero, ↓reduceIte, Nat.add_sub_cancel, hnzj]
      exact keyDirLoop_chain d bm cnt hst ch hne hprev hex hnz hnb j fuel hj (by omega)

/-! ## `get_available_entry`: the first empty slot -/

/-- the slot is empty for the model: its first byte is zero -/
def isFreeSlot (x : Bytes × Nat × Nat) : Bool := !Ent.isActive x.1

theorem firstInactive_eq (b : Nat) (blk : Bytes) (kind : DKind) : ∀ (ks : List Nat),
    (∀ k ∈ ks, k < 13 ∧ (kind ≠ DKind.entry → 1 ≤ k)) →
    firstInactive { kind := kind, bytes := blk.take dirLen } (ks.map (· + 1)) =
      ((ks.map (fun k => (entryAt blk k 39, b, k + 1))).find? isFreeSlot).map (·.2.2)
  | [], _ => rfl
  | k :: ks, h => by
    obtain ⟨hk, hkind⟩ := h k List.mem_cons_self
    rw [List.map_cons, List.map_cons, firstInactive, getEntry_std kind blk k hk hkind, List.find?_cons]
    simp only
    by_cases hhit : isFreeSlot (entryAt blk k 39, b, k + 1) = true
    · have : (!Ent.isActive (entryAt blk k 39)) = true := hhit
      rw [if_pos this, hhit]
      rfl
    · have hf : isFreeSlot (entryAt blk k 39, b, k + 1) = false := by simpa using hhit
      have : ¬ ((!Ent.isActive (entryAt blk k 39)) = true) := hhit
      rw [if_neg this, hf]
      exact firstInactive_eq b blk kind ks (fun j hj => h j (List.mem_cons_of_mem _ hj))

theorem firstInactive_block (r : Raw) (key b : Nat)
    (hkind : (b = key → kindOf b (unitAt r b) ≠ DKind.entry) ∧ (b ≠ key → kindOf b (unitAt r b) = DKind.entry)) :
    firstInactive { kind := kindOf b (unitAt r b), bytes := (unitAt r b).take dirLen }
        (Dir.entryIdxs { kind := kindOf b (unitAt r b), bytes := (unitAt r b).take dirLen }) =
      ((blockSlots r key b).find? isFreeSlot).map (·.2.2) := by
  rw [entryIdxs_eq]
  unfold blockSlots slotIdxs
  by_cases hb : b = key
  · have hk := hkind.1 hb
    rw [if_neg hk, if_pos hb]
    apply firstInactive_eq
    intro k hk'
    rw [List.mem_drop_iff_getElem] at hk'
    obtain ⟨i, hi, rfl⟩ := hk'
    simp at hi ⊢
    omega
  · have hk := hkind.2 hb
    rw [if_pos hk, if_neg hb]
    apply firstInactive_eq
    intro k hk'
    exact ⟨List.mem_range.mp hk', fun h => absurd hk h⟩

/-- **`get_available_entry` in the volume directory**: the first empty slot, `DIRECTORY FULL` if there is none (the
volume directory does not grow); the disk is left alone -/
theorem availEntryLoop_root (d : Disk) (bm cnt : Nat) (hst : St d bm cnt) (h2 : 2 ∉ bmRange bm cnt)
    (hkb : 2 < d.raw.units.size) :
    ∀ (ch : List Nat) (fuel b : Nat), IsChain d.raw b ch → b ≠ 0 → (∀ x ∈ ch, x ∉ bmRange bm cnt) → KindsOk d.raw 2 ch →
      ch.length ≤ fuel →
      availEntryLoop 2 fuel b d =
        (match (dirSlots d.raw 2 ch).find? isFreeSlot with
         | some x => .ok (slotLoc x)
         | none => .error .directoryFull, d)
  | [], _, _, h, hb, _, _, _ => by cases h; exact absurd rfl hb
  | c :: rest, fuel, b, h, hb, hnb, hkinds, hf => by
    obtain ⟨f, rfl⟩ : ∃ f, fuel = f + 1 := ⟨fuel - 1, by simp at hf; omega⟩
    cases h with
    | @cons _ blk _ _ hblk hrest =>
      have hu := unitAt_of_get hblk
      unfold availEntryLoop
      simp only [bind_def]
      rw [bind_ok _ _ d d _ (getDirectory_st hst c blk (hnb c List.mem_cons_self) hblk)]
      have hfm := firstInactive_block d.raw 2 c (hkinds c List.mem_cons_self)
      rw [hu] at hfm
      rw [hfm]
      unfold dirSlots
      rw [List.flatMap_cons, List.find?_append]
      cases hfind : (blockSlots d.raw 2 c).find? isFreeSlot with
      | some x =>
        simp only [Option.map_some, Option.or_some, pure_def, M.pure]
        have hxm := List.mem_of_find?_eq_some hfind
        obtain ⟨k, _, _, rfl⟩ := mem_blockSlots.mp hxm
        rfl
      | none =>
        simp only [Option.map_none, Option.none_or]
        rw [next_eq]
        by_cases hn : le16 blk 2 = 0
        · rw [hn] at hrest
          have := isChain_zero hrest
          subst this
          simp only [hn, ↓reduceIte, List.flatMap_nil, List.find?_nil]
          rw [bind_ok _ _ d d _ (getDirectory_st hst 2 (unitAt d.raw 2) h2 (units_get_unitAt _ _ hkb))]
          have hk2 : kindOf 2 (unitAt d.raw 2) = DKind.volKey := by unfold kindOf; simp [volKeyBlock]
          simp only [Dir.parentEntryLoc, hk2, bind_ok _ _ d d _ (ofOption_some _ d), M.fail]
        · simp only [hn, ↓reduceIte]
          exact availEntryLoop_root d bm cnt hst h2 hkb rest f (le16 blk 2) hrest hn
            (fun x hx => hnb x (List.mem_cons_of_mem _ hx)) (fun x hx => hkinds x (List.mem_cons_of_mem _ hx))
            (by simp at hf; omega)

end A2Verif.FsProdos
