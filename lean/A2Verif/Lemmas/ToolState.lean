import A2Verif.Model.ToolState
/-!
Lemmas about the tool-object state machines (`Model/ToolState.lean`).
-/
namespace A2Verif.ToolState
open A2Verif.Detok

/-! ## generic: induction over the call history -/

/-- fields that no entry point of the tool writes survive every history -/
theorem runHist_frame {I O : Type} (tool : List (Entry I O))
    (hresp : ∀ e, e ∈ tool → e.Respects) (f : Nat)
    (hf : ∀ e, e ∈ tool → f ∉ e.sig.writes) :
    ∀ (h : Hist I) (s : St), runHist tool s h f = s f := by
  intro h
  induction h with
  | nil => intro s; rfl
  | cons c h ih =>
    intro s
    obtain ⟨k, i⟩ := c
    unfold runHist
    cases hk : tool[k]? with
    | none => simpa using ih s
    | some e =>
      have he : e ∈ tool := List.mem_of_getElem? hk
      simp only
      rw [ih]
      exact (hresp e he).frame s i f (hf e he)

/-- **history independence** (generic): if every field an entry point may read from an earlier call is a
configuration field (written by no entry point of the tool), then after EVERY history of calls — whatever their
inputs, whether they succeeded or failed — the entry point answers what it answers on the initial object. -/
theorem history_independent {I O : Type} (tool : List (Entry I O)) (cfg : List Nat)
    (hresp : ∀ e, e ∈ tool → e.Respects)
    (hcfg : ∀ e, e ∈ tool → ∀ f, f ∈ cfg → f ∉ e.sig.writes)
    (e : Entry I O) (he : e ∈ tool) (hcar : ∀ f, f ∈ e.sig.carried → f ∈ cfg)
    (s0 : St) (h : Hist I) (i : I) :
    (e.run (runHist tool s0 h) i).2 = (e.run s0 i).2 := by
  apply (hresp e he).out_dep
  intro f hf
  exact runHist_frame tool hresp f (fun e' he' => hcfg e' he' f (hcar f hf)) h s0

/-! ## Integer BASIC tokenizer -/

theorem loopI_line_irrel (p l1 l2 : List Nat) (ls : List LineIn) :
    (loopI ⟨p, l1⟩ ls).2 = (loopI ⟨p, l2⟩ ls).2 ∧ (loopI ⟨p, l1⟩ ls).1.prog = (loopI ⟨p, l2⟩ ls).1.prog := by
  cases ls with
  | nil => simp [loopI]
  | cons l ls =>
    unfold loopI
    cases lineI l <;> simp

/-- with the reset at the head of `tokenize`, the answer does not depend on the state the object is in -/
theorem tokenizeI_reset_independent (v : IVariant) (hv : v.resetAtTop = true) (s t : TokSt) (ls : List LineIn) :
    (tokenizeI v s ls).2 = (tokenizeI v t ls).2 := by
  have h := loopI_line_irrel [] s.line t.line ls
  unfold tokenizeI
  simp only [hv, if_true]
  rw [h.1]
  cases hb : (loopI ⟨[], t.line⟩ ls).2 <;> simp [h.2]

/-- the loop appends exactly the framing `assembleI` describes -/
theorem loopI_assemble (ls : List LineIn) : ∀ (lines : List Line) (p l : List Nat), allOk ls = some lines →
    match assembleI lines with
    | .ok x => loopI ⟨p, l⟩ ls = (⟨p ++ x, if ls = [] then l else []⟩, true)
    | _ => (loopI ⟨p, l⟩ ls).2 = false := by
  induction ls with
  | nil =>
    intro lines p l h
    simp [allOk] at h
    subst h
    simp [assembleI, loopI]
  | cons a ls ih =>
    intro lines p l h
    cases a with
    | rej => simp [allOk] at h
    | ok x =>
      simp only [allOk, Option.map_eq_some_iff] at h
      obtain ⟨tl, htl, rfl⟩ := h
      unfold assembleI
      by_cases hlen : 126 < 2 + x.body.length
      · simp [hlen, loopI, lineI]
      · simp only [hlen, if_false]
        have := ih tl (p ++ ([2 + x.body.length + 2, x.num % 256, x.num / 256] ++ x.body ++ [1])) [] htl
        cases hasm : assembleI tl with
        | ok y =>
          simp only [hasm] at this
          simp only [Outcome.map, loopI, lineI, hlen, if_false]
          rw [this]
          simp [List.append_assoc]
        | err =>
          simp only [hasm] at this
          simp only [Outcome.map, loopI, lineI, hlen, if_false]
          exact this
        | panic =>
          simp only [hasm] at this
          simp only [Outcome.map, loopI, lineI, hlen, if_false]
          exact this

/-- on a fresh object (or with the reset) `tokenize` of an accepted program is the pure framing `assembleI` -/
theorem tokenizeI_fresh_eq_assembleI (v : IVariant) (ls : List LineIn) (lines : List Line)
    (h : allOk ls = some lines) (hne : assembleI lines ≠ .panic) :
    (tokenizeI v TokSt.fresh ls).2 = assembleI lines := by
  have := loopI_assemble ls lines [] [] h
  unfold tokenizeI TokSt.fresh
  have e0 : (if v.resetAtTop = true then ({ prog := [], line := [] } : TokSt) else { prog := [], line := [] }) = ⟨[], []⟩ := by
    cases v.resetAtTop <;> rfl
  simp only [e0]
  cases hasm : assembleI lines with
  | ok x =>
    simp only [hasm] at this
    rw [this]
    simp
  | err =>
    simp only [hasm] at this
    simp [this]
  | panic => exact absurd hasm hne

/-- the "take, no reset" form: the buffer is empty after every SUCCESSFUL call -/
theorem tokenizeI_take_ok_prog_nil (s : TokSt) (ls : List LineIn) (x : List Nat)
    (hok : (tokenizeI IVariant.takeNoReset s ls).2 = .ok x) :
    (tokenizeI IVariant.takeNoReset s ls).1.prog = [] := by
  unfold tokenizeI IVariant.takeNoReset at *
  simp only [Bool.false_eq_true, if_false] at *
  cases hb : (loopI s ls).2 <;> simp [hb] at hok ⊢

/-- a buffer that is empty is as good as reset -/
theorem tokenizeI_nil_prog (v : IVariant) (s : TokSt) (hs : s.prog = []) (ls : List LineIn) :
    (tokenizeI v s ls).2 = (tokenizeI v TokSt.fresh ls).2 := by
  have h := loopI_line_irrel [] s.line [] ls
  unfold tokenizeI TokSt.fresh
  have e1 : (if v.resetAtTop = true then ({ prog := [], line := s.line } : TokSt) else s) = ⟨[], s.line⟩ := by
    cases v.resetAtTop
    · cases s; simp at hs; simp [hs]
    · rfl
  have e0 : (if v.resetAtTop = true then ({ prog := [], line := [] } : TokSt) else { prog := [], line := [] }) = ⟨[], []⟩ := by
    cases v.resetAtTop <;> rfl
  simp only [e0, e1]
  rw [h.1]
  cases hb : (loopI ⟨[], []⟩ ls).2 <;> simp [h.2]

/-- every output of the session is `ok` -/
def allCallsOk : List (Outcome (List Nat)) → Bool
  | [] => true
  | .ok _ :: r => allCallsOk r
  | _ :: _ => false

/-- induction over the history: while every call succeeds, the "take, no reset" object stays clean -/
theorem sessionI_take_clean : ∀ (cs : List (List LineIn)) (s : TokSt), s.prog = [] →
    allCallsOk (sessionOutI IVariant.takeNoReset s cs) = true →
    (sessionI IVariant.takeNoReset s cs).prog = [] := by
  intro cs
  induction cs with
  | nil => intro s hs _; simpa [sessionI] using hs
  | cons c cs ih =>
    intro s hs hall
    simp only [sessionOutI] at hall
    simp only [sessionI]
    cases hc : (tokenizeI IVariant.takeNoReset s c).2 with
    | ok x =>
      simp only [hc, allCallsOk] at hall
      exact ih _ (tokenizeI_take_ok_prog_nil s c x hc) hall
    | err => simp [hc, allCallsOk] at hall
    | panic => simp [hc, allCallsOk] at hall

/-! ## Applesoft tokenizer -/

theorem tokenizeA_reset_independent (v : AVariant) (hp : v.resetProg = true) (ha : v.resetAddr = true)
    (s t : ATokSt) (addr : Nat) (ls : List LineIn) :
    (tokenizeA v s addr ls).2 = (tokenizeA v t addr ls).2 := by
  unfold tokenizeA
  simp [hp, ha]

theorem loopA_assemble (ls : List LineIn) : ∀ (lines : List Line) (p : List Nat) (a : Nat), allOk ls = some lines →
    match assembleA a lines with
    | .ok x => (loopA ⟨p, a⟩ ls).2 = .ok () ∧ (loopA ⟨p, a⟩ ls).1.prog ++ [0, 0] = p ++ x
    | .panic => (loopA ⟨p, a⟩ ls).2 = .panic
    | .err => False := by
  induction ls with
  | nil =>
    intro lines p a h
    simp [allOk] at h
    subst h
    simp [assembleA, loopA]
  | cons c ls ih =>
    intro lines p a h
    cases c with
    | rej => simp [allOk] at h
    | ok x =>
      simp only [allOk, Option.map_eq_some_iff] at h
      obtain ⟨tl, htl, rfl⟩ := h
      unfold assembleA
      by_cases hov : 65535 < a + (2 + x.body.length) + 3
      · simp [hov, loopA]
      · simp only [hov, if_false]
        have := ih tl (p ++ [(a + (2 + x.body.length) + 3) % 256, (a + (2 + x.body.length) + 3) / 256, x.num % 256, x.num / 256] ++ x.body ++ [0])
          (a + (2 + x.body.length) + 3) htl
        cases hasm : assembleA (a + (2 + x.body.length) + 3) tl with
        | ok y =>
          simp only [hasm] at this
          simp only [Outcome.map, loopA, hov, if_false]
          refine ⟨this.1, ?_⟩
          rw [this.2]
          simp [List.append_assoc]
        | err => simp only [hasm] at this
        | panic =>
          simp only [hasm] at this
          simp only [Outcome.map, loopA, hov, if_false]
          exact this

/-- with both resets, `tokenize` of an accepted program is the pure framing `assembleA`, whatever the state -/
theorem tokenizeA_eq_assembleA (v : AVariant) (hp : v.resetProg = true) (ha : v.resetAddr = true)
    (s : ATokSt) (addr : Nat) (ls : List LineIn) (lines : List Line) (h : allOk ls = some lines) :
    (tokenizeA v s addr ls).2 = assembleA addr lines := by
  have := loopA_assemble ls lines [] addr h
  unfold tokenizeA
  simp only [hp, ha, if_true]
  cases hasm : assembleA addr lines with
  | ok x =>
    simp only [hasm] at this
    simp only [this.1]
    rw [this.2]
    simp
  | err => simp only [hasm] at this
  | panic =>
    simp only [hasm] at this
    simp [this]

end A2Verif.ToolState
