import A2Verif.Lemmas.FsProdosPutL
/-!
# `put(fimg)` into the volume directory refines the abstract `put`

`PutArgs`: what is asked of the arguments beyond what `put` itself checks.  `put_refines'`: every outcome — refused before
anything is read (wrong file system, chunk length, no chunks, field lengths, limits), refused by `prepare_to_write` (name
syntax, duplicate, directory full, no free block), refused for lack of space, or carried out — is a step of the abstract
specification; after `get_img()` the state is a state between two calls again.
-/
namespace A2Verif.FsProdos
open A2Verif.Fs.Prodos
open A2Verif.Read.Prodos (entryAt dirChain idxPtr indexEntries readData trimName bitmapFree)
open A2Verif.Read.ProdosT

/-- what is asked of the arguments of `put` beyond what `put` itself checks -/
structure PutArgs (f : FImg) (time : Bytes) : Prop where
  /-- the map of chunks, written with ascending indices -/
  keys : (f.chunks.map (·.1)).Pairwise (· < ·)
  clen : ∀ c ∈ f.chunks, c.2.length ≤ 512
  cbytes : ∀ c ∈ f.chunks, ∀ x ∈ c.2, x < 256
  eofpos : 0 < f.eof
  fsType : f.fsType.getD 0 0 < 256
  aux : f.aux.getD 0 0 < 256 ∧ f.aux.getD 1 0 < 256
  version : f.version.getD 0 0 < 256
  minVersion : f.minVersion.getD 0 0 < 256
  access : ∀ a, f.access[0]? = some a → a < 256 ∧ UniformAcc a
  time : time.length = 4 ∧ ∀ x ∈ time, x < 256

theorem bind_err {α β : Type} (m : M α) (g : α → M β) (d d' : Disk) (e : Err) (h : m d = (.error e, d')) :
    M.bind m g d = (.error e, d') := by
  unfold M.bind; rw [h]

/-- the checks `put` makes before it reads anything -/
def EarlyOk (f : FImg) : Prop :=
  f.fsOk = true ∧ f.chunkLen = blockSize ∧ f.chunks.length ≠ 0 ∧
  ¬ (f.fsType.length < 1 ∨ f.version.length < 1 ∨ f.minVersion.length < 1 ∨ f.aux.length < 2 ∨ f.access.length < 1) ∧
  ¬ (f.end_ > 128 * 256 ∨ f.eof > 0xffffff)

instance (f : FImg) : Decidable (EarlyOk f) := by unfold EarlyOk; infer_instance

/-- a failed early check: refused, nothing read, nothing written -/
theorem put_early {f : FImg} (time : Bytes) (d : Disk) (h : ¬ EarlyOk f) : ∃ e, put f time repaired d = (.error e, d) := by
  unfold put
  simp only [bind_def]
  split
  · exact ⟨_, rfl⟩
  · next h1 =>
    split
    · exact ⟨_, rfl⟩
    · next h2 =>
      split
      · exact ⟨_, rfl⟩
      · next h3 =>
        split
        · exact ⟨_, rfl⟩
        · next h4 =>
          split
          · exact ⟨_, rfl⟩
          · next h5 =>
            exfalso
            apply h
            refine ⟨by simpa using h1, by simpa using h2, h3, fun hh => h4 ⟨rfl, hh⟩, fun hh => h5 ⟨rfl, hh⟩⟩

/-- past the early checks `put` is `prepare_to_write` followed by the rest -/
theorem put_prep_fail {f : FImg} (time : Bytes) (d d' : Disk) (e : Err) (h : EarlyOk f)
    (hp : prepareToWrite f.fullPath d = (.error e, d')) : put f time repaired d = (.error e, d') := by
  obtain ⟨h1, h2, h3, h4, h5⟩ := h
  unfold put
  simp only [bind_def]
  rw [if_neg (by rw [h1]; simp), if_neg (by rw [h2]; simp), if_neg h3, if_neg (fun hh => h4 hh.2), if_neg (fun hh => h5 hh.2)]
  exact bind_err _ _ d d' e hp

theorem PutArgs.toOk {f : FImg} {time : Bytes} (pa : PutArgs f time) (h : EarlyOk f) : PutOk f time := by
  obtain ⟨h1, h2, h3, h4, h5⟩ := h
  have hal : 1 ≤ f.access.length := by omega
  have hacc : f.access[0]? = some (f.access[0]'(by omega)) := List.getElem?_eq_getElem (by omega)
  exact ⟨h1, h2, pa.keys, fun hn => h3 (by rw [hn]; rfl), pa.clen, pa.cbytes, ⟨pa.eofpos, by omega⟩, by omega, ⟨by omega, pa.fsType⟩,
    ⟨by omega, pa.aux.1, pa.aux.2⟩, ⟨by omega, pa.version⟩, ⟨by omega, pa.minVersion⟩,
    ⟨_, hacc, (pa.access _ hacc).1, (pa.access _ hacc).2⟩, pa.time⟩

/-- the state with the bitmap buffer opened is a state between two calls as well -/
theorem SInv.opened {d : Disk} (hs : SInv d) : SInv (openD d (hdrBm d.raw) (nbmOf (hdrTotal d.raw))) := by
  obtain ⟨v, fsL, ch, hr, ht, c, hts, heff, hbsz, hbok⟩ := hs.ctx
  refine ⟨hs.inv, hs.total, hs.src, Or.inr ⟨?_, ?_⟩⟩
  · show some (effBuf d (hdrBm d.raw) (nbmOf (hdrTotal d.raw))) = some (bufOf d.raw (hdrBm d.raw) (nbmOf d.total))
    rw [heff, hts]
  · show bmRange (hdrBm d.raw) (nbmOf (hdrTotal d.raw)) = bmRange (hdrBm d.raw) (nbmOf d.total)
    rw [hts]

/-- a refused operation that only opened the bitmap buffer -/
theorem refines_refused_open {d : Disk} (hs : SInv d) {α : Type} (e : Err) (op : FsOp) :
    Refines d ((.error e, openD d (hdrBm d.raw) (nbmOf (hdrTotal d.raw))) : R α × Disk) op := by
  obtain ⟨v, fsL, ch, hr, ht, _⟩ := hs.ctx
  obtain ⟨hw, _⟩ := root_chain_facts hs.inv v fsL ch hr ht
  obtain ⟨d4, hf4, hraw4, hs4⟩ := refused_same hs.opened
  exact ⟨d4, v, v, hf4, hs4, hr, by rw [hraw4]; exact hr, stepOk_refused_same hw _, rfl⟩

/-- `blocks_needed` exceeds the free blocks: `DISK FULL` after `prepare_to_write` opened the buffer, nothing written -/
theorem put_nofit {f : FImg} (time : Bytes) {d : Disk} {bm cnt : Nat} (st : St d bm cnt) (h : EarlyOk f)
    (ht : d.total ≠ 0) (hcov : d.total ≤ 8 * (effBuf d bm cnt).size)
    (r : Bytes × Nat × Loc × Nat) (hp : prepareToWrite f.fullPath d = (.ok r, openD d bm cnt))
    (hfit : blocksNeeded f > (freeBlocks (effBuf d bm cnt) d.total).length) :
    put f time repaired d = (.error .diskFull, openD d bm cnt) := by
  obtain ⟨h1, h2, h3, h4, h5⟩ := h
  have stp : St (openD d bm cnt) bm cnt := st.toOpen _
  have hnum : numFreeBlocks (openD d bm cnt) = (.ok (freeBlocks (effBuf d bm cnt) d.total).length, openD d bm cnt) := by
    have := numFreeBlocks_st stp ht hcov
    rw [this]
    rfl
  unfold put
  simp only [bind_def]
  rw [if_neg (by rw [h1]; simp), if_neg (by rw [h2]; simp), if_neg h3, if_neg (fun hh => h4 hh.2), if_neg (fun hh => h5 hh.2)]
  rw [bind_ok _ _ d _ _ hp]
  obtain ⟨a, b, c, e⟩ := r
  simp only []
  rw [bind_ok _ _ _ _ _ hnum, if_pos hfit]
  rfl

/-- **`put(fimg)` refines the abstract `put`** (file of the volume directory: seedling, sapling, tree, holes included) -/
theorem put_refines' {d : Disk} (hs : SInv d) (f : FImg) (time nm : Bytes) (pa : PutArgs f time)
    (hnodes : normalizePath (volName (hdrOf d.raw)) f.fullPath = .ok [volName (hdrOf d.raw), nm]) (hnm : nm ≠ []) :
    Refines d (put f time repaired d)
      (.put (upper nm) f.chunks f.eof (f.fsType.getD 0 0) (f.aux.getD 0 0 + 256 * f.aux.getD 1 0)) := by
  by_cases hearly : EarlyOk f
  case neg =>
    obtain ⟨e, he⟩ := put_early time d hearly
    rw [he]; exact refines_refused hs e _
  have pk := pa.toOk hearly
  obtain ⟨v, fsL, ch, hr, ht, c, hts, heff, hbsz, hbok⟩ := hs.ctx
  obtain ⟨hw, hn, hroot, hvv, hc, hic, hnd, hchf, h2, h6, h3, hbt, hstv⟩ := root_chain_facts hs.inv v fsL ch hr ht
  have ht0 : d.total ≠ 0 := by rw [← hts]; omega
  have hcov : d.total ≤ 8 * (effBuf d (hdrBm d.raw) (nbmOf (hdrTotal d.raw))).size := by
    rw [heff, hbsz, ← hts]; unfold nbmOf blockSize; omega
  have hprep := prepare_root c f.fullPath nm hnodes hnm ht0 hcov
  by_cases hv : isNameValid nm = true
  case neg =>
    have hv' : isNameValid nm = false := by simpa using hv
    simp only [hv', Bool.not_false, ↓reduceIte] at hprep
    rw [put_prep_fail time d d _ hearly hprep]; exact refines_refused hs _ _
  simp only [hv, Bool.not_true, Bool.false_eq_true, ↓reduceIte] at hprep
  cases hdup : (dirSlots d.raw 2 ch).find? (isHit allTypes nm) with
  | some y =>
    rw [hdup] at hprep
    rw [put_prep_fail time d d _ hearly hprep]; exact refines_refused hs _ _
  | none =>
    rw [hdup] at hprep
    simp only [] at hprep
    cases hslot : (dirSlots d.raw 2 ch).find? isFreeSlot with
    | none =>
      rw [hslot] at hprep
      rw [put_prep_fail time d d _ hearly hprep]; exact refines_refused hs _ _
    | some x =>
      rw [hslot] at hprep
      simp only [] at hprep
      cases hfind : (List.range d.total).find? (freeB (effBuf d (hdrBm d.raw) (nbmOf (hdrTotal d.raw)))) with
      | none =>
        rw [hfind] at hprep
        rw [put_prep_fail time d _ _ hearly hprep]; exact refines_refused_open hs _ _
      | some nb =>
        rw [hfind] at hprep
        have hfreeU : v.freeUnits.length = (freeBlocks (effBuf d (hdrBm d.raw) (nbmOf (hdrTotal d.raw))) d.total).length := by
          unfold freeBlocks; rw [hvv, heff, hts]
        by_cases hfit : blocksNeeded f ≤ v.freeUnits.length
        · obtain ⟨d3, d4, v4, hput, hfl, hs4, hr4, hstep, hlab, _⟩ :=
            put_ok hs v fsL ch hr ht f time nm pk hnodes hnm hv hdup x hslot hfit
          rw [hput]
          exact ⟨d4, v, v4, hfl, hs4, hr, hr4, hstep, hlab⟩
        · rw [put_nofit time c.st hearly ht0 hcov _ hprep (by rw [← hfreeU]; omega)]
          exact refines_refused_open hs _ _

end A2Verif.FsProdos
