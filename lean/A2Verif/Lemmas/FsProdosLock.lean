import A2Verif.Lemmas.FsProdosReadMod
import A2Verif.Lemmas.FsPascalAbs
/-!
# `lock` / `unlock` at the level of readings (files of the volume directory)

The image changes in the access byte of one entry of the volume directory (what `modify_spec` / `lock_spec` say the
model writes).  Then the total reader reads the new image, and the reading is the old one with the access / locked
fields of the record made from that entry replaced — which is a transition the abstract specification allows for
`lock` / `unlock` of that record's path.
-/
namespace A2Verif.FsProdos
open A2Verif.Read.Prodos (entryAt dirChain idxPtr indexEntries readData trimName bitmapFree)
open A2Verif.Read.ProdosT

/-- what a successful `read` consists of -/
theorem read_inv (r : Raw) (v : Vol) (h : Read.ProdosT.read r = .ok v) :
    ∃ keyBlk fsL ch freeU, r.units[2]? = some keyBlk ∧ keyBlk.getD 4 0 / 16 = 0xF ∧
      ¬ (le16 keyBlk 41 > r.count ∨ le16 keyBlk 41 < 6) ∧
      ¬ (le16 keyBlk 39 < 3 ∨ le16 keyBlk 39 + (le16 keyBlk 41 + 4095) / 4096 > le16 keyBlk 41) ∧
      readTree r (le16 keyBlk 41) = .ok (fsL, ch) ∧ bitmapFree r (le16 keyBlk 39) (le16 keyBlk 41) = .ok freeU ∧
      v = { lo := 0, hi := le16 keyBlk 41, sys := [0, 1] ++ ch ++ (List.range ((le16 keyBlk 41 + 4095) / 4096)).map (· + le16 keyBlk 39),
            files := fsL.map (·.1), freeUnits := freeU, label := slice keyBlk 5 (keyBlk.getD 4 0 % 16) } := by
  unfold Read.ProdosT.read at h
  cases hu : r.unit 2 "volume-key-block" with
  | error x => rw [hu] at h; cases h
  | ok keyBlk =>
    rw [hu] at h
    simp only at h
    split at h
    · cases h
    · next h1 =>
      split at h
      · cases h
      · next h2 =>
        split at h
        · cases h
        · next h3 =>
          cases ht : readTree r (le16 keyBlk (4 + 0x25)) with
          | error x => rw [ht] at h; cases h
          | ok res =>
            rw [ht] at h
            obtain ⟨fsL, ch⟩ := res
            simp only at h
            cases hb : bitmapFree r (le16 keyBlk (4 + 0x23)) (le16 keyBlk (4 + 0x25)) with
            | error x => rw [hb] at h; cases h
            | ok freeU =>
              rw [hb] at h
              refine ⟨keyBlk, fsL, ch, freeU, get_of_unit r 2 _ keyBlk hu, by simpa using h1, h2, h3, ht, hb, ?_⟩
              injection h with h; exact h.symm

theorem bitmapFree_congr (r r' : Raw) (bm total : Nat)
    (h : ∀ k, k < (total + 4095) / 4096 → r'.units[bm + k]? = r.units[bm + k]?) :
    bitmapFree r' bm total = bitmapFree r bm total := by
  unfold bitmapFree
  simp only
  rw [mapM_congr_mem (fun k => r'.unit (bm + k) "bitmap-block") (fun k => r.unit (bm + k) "bitmap-block") _
    (fun k hk => unit_congr r r' (bm + k) _ (h k (List.mem_range.mp hk)))]

/-- **the reading after the access byte of one volume-directory entry has changed** -/
theorem read_mod (r r' : Raw) (B idx : Nat) (blk nb : Bytes) (hmod : AccMod r r' B idx blk nb) (v : Vol)
    (hread : Read.ProdosT.read r = .ok v)
    (hgeo : ∀ kb, r.units[2]? = some kb → kb.getD 35 0 = 39 ∧ kb.getD 36 0 = 13)
    (hB2 : 2 = B → 2 ≤ idx) (hBown : B ∉ v.allOwned)
    (hfile : (entryAt blk (idx - 1) 39).getD 0 0 / 16 ≠ 0xD)
    (hbm : ∀ kb, r.units[2]? = some kb → B < le16 kb 39 ∨ le16 kb 39 + (le16 kb 41 + 4095) / 4096 ≤ B) :
    ∃ fsL ch, readTree r v.hi = .ok (fsL, ch) ∧ v.files = fsL.map (·.1) ∧
      Read.ProdosT.read r' = .ok { v with files := (fsL.map (updAt (B, idx) (nb.getD (entOff idx + 30) 0))).map (·.1) } := by
  obtain ⟨keyBlk, fsL, ch, freeU, hk2, hst, htot, hbmr, htree, hfree, hv⟩ := read_inv r v hread
  subst hv
  refine ⟨fsL, ch, htree, rfl, ?_⟩
  -- the volume key block of the new image carries the same header fields
  have hkey' : ∃ kb', r'.units[2]? = some kb' ∧ kb'.getD 4 0 = keyBlk.getD 4 0 ∧ le16 kb' 39 = le16 keyBlk 39 ∧
      le16 kb' 41 = le16 keyBlk 41 ∧ slice kb' 5 (keyBlk.getD 4 0 % 16) = slice keyBlk 5 (keyBlk.getD 4 0 % 16) := by
    by_cases h2 : 2 = B
    · have hidx2 := hB2 h2
      have hoff2 : 73 ≤ entOff idx + 30 := by unfold entOff; omega
      subst h2
      have hbk : keyBlk = blk := by rw [hmod.old] at hk2; exact (Option.some.inj hk2).symm
      subst hbk
      refine ⟨nb, hmod.new, hmod.same _ (by omega), le16_congr nb keyBlk _ (hmod.same _ (by omega)) (hmod.same _ (by omega)),
        le16_congr nb keyBlk _ (hmod.same _ (by omega)) (hmod.same _ (by omega)), ?_⟩
      apply slice_congr _ _ _ _ hmod.len
      intro k _ hk
      have := Nat.mod_lt (keyBlk.getD 4 0) (by decide : 16 > 0)
      exact hmod.same k (by omega)
    · exact ⟨keyBlk, by rw [hmod.other 2 (fun hh => h2 hh)]; exact hk2, rfl, rfl, rfl, rfl⟩
  obtain ⟨kb', hk2', e4, e39, e41, elbl⟩ := hkey'
  have htree' : readTree r' (le16 keyBlk 41) = .ok (fsL.map (updAt (B, idx) (nb.getD (entOff idx + 30) 0)), ch) :=
    readDir_mod r r' (le16 keyBlk 41) B idx blk nb hmod 69 2 [] 0 fsL ch (by omega) htree hgeo hB2
      (by unfold Vol.allOwned at hBown; simpa [List.flatMap_map] using hBown) hfile
  have hfree' : bitmapFree r' (le16 keyBlk 39) (le16 keyBlk 41) = .ok freeU := by
    rw [bitmapFree_congr r r' _ _ (fun k hk => hmod.other _ (by have := hbm keyBlk hk2; omega)), hfree]
  unfold Read.ProdosT.read
  rw [unit_of_get r' 2 _ kb' hk2']
  simp only
  have hcount : r'.count = r.count := by unfold Raw.count; exact hmod.size
  rw [e4, e39, e41, hcount, if_neg (by simpa using hst), if_neg htot, if_neg hbmr, htree']
  simp only
  rw [hfree', elbl]

/-! ## the abstract step -/

/-- replacing a record by one with the same path, chunks and owned blocks keeps well-formedness -/
theorem wfB_set_same (v : Vol) (i : Nat) (g : FileRec) (hi : i < v.files.length)
    (hp : g.path = v.files[i].path) (ho : g.owned = v.files[i].owned) (hc : g.chunks = v.files[i].chunks) :
    ({ v with files := v.files.set i g } : Vol).wfB = v.wfB := by
  have hmapo : (v.files.set i g).flatMap (·.owned) = v.files.flatMap (·.owned) := by
    rw [List.flatMap_def, List.flatMap_def, List.map_set, ho]
    congr 1
    apply List.ext_getElem
    · simp
    · intro n h1 h2
      by_cases hn : i = n
      · subst hn; simp
      · simp [List.getElem_set, hn]
  have hmapp : (v.files.set i g).map (·.path) = v.files.map (·.path) := by
    rw [List.map_set, hp]
    apply List.ext_getElem
    · simp
    · intro n h1 h2
      by_cases hn : i = n
      · subst hn; simp
      · simp [List.getElem_set, hn]
  have hall : (v.files.set i g).all (fun f => decide ((f.chunks.map (·.1)).Pairwise (· < ·))) =
      v.files.all (fun f => decide ((f.chunks.map (·.1)).Pairwise (· < ·))) := by
    rw [Bool.eq_iff_iff, List.all_eq_true, List.all_eq_true]
    constructor
    · intro h f hf
      obtain ⟨n, hn, rfl⟩ := List.getElem_of_mem hf
      by_cases hni : i = n
      · subst hni
        have := h g (by rw [List.mem_iff_getElem]; exact ⟨i, by simpa using hi, by simp⟩)
        rw [hc] at this; exact this
      · exact h _ (by rw [List.mem_iff_getElem]; exact ⟨n, by simpa using hn, by simp [List.getElem_set, hni]⟩)
    · intro h f hf
      obtain ⟨n, hn, rfl⟩ := List.getElem_of_mem hf
      have hn' : n < v.files.length := by simpa using hn
      by_cases hni : i = n
      · subst hni
        simp only [List.getElem_set_self]
        rw [hc]; exact h _ (List.getElem_mem hi)
      · simp only [List.getElem_set, hni, ↓reduceIte]
        exact h _ (List.getElem_mem hn')
  unfold Vol.wfB Vol.wfConds Vol.allOwned
  simp only [hmapo, hmapp, hall]

/-- the bystander condition when record `idx` (path `p`) is replaced by a record of the same path -/
theorem bystanders_set {pre post : Vol} {p : Bytes} {idx : Nat} {g : FileRec}
    (hwpre : pre.wfB = true) (hw : post.wfB = true) (hi : idx < pre.files.length) (hp : pre.files[idx].path = p)
    (hpost : post.files = pre.files.set idx g) (hgp : g.path = p) :
    pre.lookup p = some pre.files[idx] ∧ post.lookup p = some g ∧
      sameFiles (without pre.files [p]) (without post.files [p]) = true := by
  have nd := wfB_paths_nodup hwpre
  have ndpost := wfB_paths_nodup hw
  have hlook : pre.lookup p = some pre.files[idx] := by rw [← hp]; exact lookup_of_getElem nd hi
  have hi' : idx < post.files.length := by rw [hpost]; simpa using hi
  have hpi : post.files[idx] = g := by simp [hpost]
  have hlookq : post.lookup p = some g := by
    have := lookup_of_getElem ndpost hi'
    rw [hpi, hgp] at this
    exact this
  have hwo : without pre.files [p] = pre.files.eraseIdx idx := by
    apply without_eq_eraseIdx hi (by simp [hp])
    intro j hj hne
    have h1 := getElem_path_ne nd hj hi hne
    rw [hp] at h1
    simp [h1]
  have hwo' : without post.files [p] = pre.files.eraseIdx idx := by
    have : without post.files [p] = post.files.eraseIdx idx := by
      apply without_eq_eraseIdx hi' (by rw [hpi, hgp]; simp)
      intro j hj hne
      have hj0 : j < pre.files.length := by rw [hpost] at hj; simpa using hj
      have hjj : post.files[j] = pre.files[j] := by simp [hpost, List.getElem_set, Ne.symm hne]
      rw [hjj]
      have h1 := getElem_path_ne nd hj0 hi hne
      rw [hp] at h1
      simp [h1]
    rw [this, hpost, List.eraseIdx_set_eq]
  refine ⟨hlook, hlookq, ?_⟩
  rw [hwo, hwo']
  have : ((pre.files.eraseIdx idx).map (·.path)).Nodup := by
    unfold Vol.paths at nd
    exact nd.sublist ((List.eraseIdx_sublist _ _).map _)
  exact sameFiles_self this

/-- lock: record `idx` (path `p`) becomes protected and keeps everything else -/
theorem stepOk_lock_of {P : FsParams} {pre post : Vol} {p : Bytes} {idx : Nat} {g : FileRec}
    (hwpre : pre.wfB = true) (hw : post.wfB = true) (hi : idx < pre.files.length) (hp : pre.files[idx].path = p)
    (hpost : post.files = pre.files.set idx g) (hgp : g.path = p)
    (hg : g.locked = true ∧ g.chunks = pre.files[idx].chunks ∧ g.eof = pre.files[idx].eof ∧ g.owned = pre.files[idx].owned ∧
      g.ftype = pre.files[idx].ftype ∧ g.aux = pre.files[idx].aux ∧ g.isDir = pre.files[idx].isDir) :
    stepOk P pre (.lock p) true post = true := by
  obtain ⟨hlook, hlookq, hby⟩ := bystanders_set hwpre hw hi hp hpost hgp
  simp only [stepOk, stepConds, List.all_cons, List.all_nil, Bool.and_true, Bool.and_eq_true]
  refine ⟨hw, by rw [hlook]; rfl, ?_, hby⟩
  rw [hlook, hlookq]
  simp [hg.1, hg.2.1, hg.2.2.1, hg.2.2.2.1, hg.2.2.2.2.1, hg.2.2.2.2.2.1, hg.2.2.2.2.2.2]

/-- unlock: record `idx` (path `p`) becomes unprotected and keeps everything else -/
theorem stepOk_unlock_of {P : FsParams} {pre post : Vol} {p : Bytes} {idx : Nat} {g : FileRec}
    (hwpre : pre.wfB = true) (hw : post.wfB = true) (hi : idx < pre.files.length) (hp : pre.files[idx].path = p)
    (hpost : post.files = pre.files.set idx g) (hgp : g.path = p)
    (hg : g.locked = false ∧ g.chunks = pre.files[idx].chunks ∧ g.eof = pre.files[idx].eof ∧ g.owned = pre.files[idx].owned ∧
      g.ftype = pre.files[idx].ftype ∧ g.aux = pre.files[idx].aux ∧ g.isDir = pre.files[idx].isDir) :
    stepOk P pre (.unlock p) true post = true := by
  obtain ⟨hlook, hlookq, hby⟩ := bystanders_set hwpre hw hi hp hpost hgp
  simp only [stepOk, stepConds, List.all_cons, List.all_nil, Bool.and_true, Bool.and_eq_true]
  refine ⟨hw, by rw [hlook]; rfl, ?_, hby⟩
  rw [hlook, hlookq]
  simp [hg.1, hg.2.1, hg.2.2.1, hg.2.2.2.1, hg.2.2.2.2.1, hg.2.2.2.2.2.1, hg.2.2.2.2.2.2]

/-! ## which record sits at the changed entry -/

theorem readFile_base (r : Raw) (total : Nat) (e pfx : Bytes) (f : FileRec) (h : readFile r total e pfx = .ok f) :
    f.path = (baseRec e pfx).path ∧ f.isDir = false := by
  unfold readFile at h
  simp only at h
  split at h
  · cases hu : r.unit (le16 e 0x11) "data-block" with
    | error x => rw [hu] at h; cases h
    | ok d =>
      rw [hu] at h; simp only at h
      split at h
      · cases h
      · injection h with h; subst h; exact ⟨rfl, rfl⟩
  · split at h
    · cases hu : r.unit (le16 e 0x11) "index-block" with
      | error x => rw [hu] at h; cases h
      | ok ib =>
        rw [hu] at h; simp only at h
        cases hd : readData r total (indexEntries ib 0) with
        | error x => rw [hd] at h; cases h
        | ok cs =>
          rw [hd] at h; simp only at h
          split at h
          · cases h
          · injection h with h; subst h; exact ⟨rfl, rfl⟩
    · cases hu : r.unit (le16 e 0x11) "master-index-block" with
      | error x => rw [hu] at h; cases h
      | ok mb =>
        rw [hu] at h; simp only at h
        cases hm : List.mapM (treeIndex r total)
            ((List.range 128).filterMap (fun k => if idxPtr mb k = 0 then none else some (k, idxPtr mb k))) with
        | error x => rw [hm] at h; cases h
        | ok parts =>
          rw [hm] at h; simp only at h
          split at h
          · cases h
          · injection h with h; subst h; exact ⟨rfl, rfl⟩

/-- in a directory with the standard geometry none of whose records owns block `B`, every record located at slot `idx`
of `B` is the file record of that slot's entry -/
theorem readDir_loc_path (r : Raw) (total B idx : Nat) (blk : Bytes) (hblk : r.units[B]? = some blk)
    (fuel key : Nat) (pfx : Bytes) (depth : Nat) (fs : List LRec) (ch : List Nat)
    (h : readDir (fuel + 1) r total key pfx depth = .ok (fs, ch))
    (hgeo : ∀ kb, r.units[key]? = some kb → kb.getD 35 0 = 39 ∧ kb.getD 36 0 = 13)
    (hB : B ∉ fs.flatMap (·.1.owned))
    (hfile : (entryAt blk (idx - 1) 39).getD 0 0 / 16 ≠ 0xD) :
    ∀ fl ∈ fs, fl.2 = (B, idx) → fl.1.path = (baseRec (entryAt blk (idx - 1) 39) pfx).path ∧ fl.1.isDir = false := by
  unfold readDir at h
  split at h
  · cases h
  · cases hc : dirChain r total 1000 key [] with
    | error x => rw [hc] at h; cases h
    | ok chain =>
      rw [hc] at h
      simp only at h
      cases hu : r.unit key "directory-key-block" with
      | error x => rw [hu] at h; cases h
      | ok keyBlk =>
        rw [hu] at h
        simp only at h
        obtain ⟨hg1, hg2⟩ := hgeo keyBlk (get_of_unit r key _ keyBlk hu)
        have e1 : keyBlk.getD (4 + 0x1F) 0 = 39 := hg1
        have e2 : keyBlk.getD (4 + 0x20) 0 = 13 := hg2
        rw [e1, e2] at h
        split at h
        · cases h
        · cases he : List.mapM (blockEntries r key 13 39) chain with
          | error x => rw [he] at h; cases h
          | ok ents =>
            rw [he] at h
            simp only at h
            split at h
            · cases h
            · cases hm : List.mapM (readEntryWith (fun k p => readDir fuel r total k p (depth + 1)) r total pfx)
                  (ents.flatten.filter (fun e => e.1.getD 0 0 / 16 ≠ 0)) with
              | error x => rw [hm] at h; cases h
              | ok recs =>
                rw [hm] at h
                have hfs : fs = recs.flatten := by injection h with h; injection h with h1 _; exact h1.symm
                subst hfs
                intro fl hfl hloc
                rw [List.mem_flatten] at hfl
                obtain ⟨y, hy, hfly⟩ := hfl
                obtain ⟨x, hx, hrun⟩ := ((mapM_eq_ok _ _ _).mp hm).mem_right hy
                have hBy : B ∉ y.flatMap (·.1.owned) := fun hb => hB (by
                  rw [List.mem_flatMap] at hb ⊢
                  obtain ⟨g, hg, hgo⟩ := hb
                  exact ⟨g, List.mem_flatten.mpr ⟨y, hy, hg⟩, hgo⟩)
                have hxloc : x.2 = (B, idx) := by
                  rcases readEntryWith_locs _ r total pfx x y hrun
                      (fun k p res hs => readDir_locs r total fuel k p (depth + 1) res.1 res.2 hs) fl hfly with hl | ho
                  · rw [← hl]; exact hloc
                  · rw [hloc] at ho; exact absurd ho hBy
                -- the entry is slot `idx` of block `B`
                have hxf := (List.mem_filter.mp hx).1
                rw [List.mem_flatten] at hxf
                obtain ⟨l, hl, hxl⟩ := hxf
                obtain ⟨b, _, hbl⟩ := ((mapM_eq_ok _ _ _).mp he).mem_right hl
                obtain ⟨bk, hbk, hlform⟩ := blockEntries_form r key 13 39 b l hbl
                have hbB : b = B := (blockEntries_loc r key 13 39 b l hbl x hxl).symm.trans (congrArg Prod.fst hxloc)
                subst hbB
                have hbkb : bk = blk := by rw [hblk] at hbk; exact (Option.some.inj hbk).symm
                subst hbkb
                rw [hlform, List.mem_map] at hxl
                obtain ⟨k, _, hxk⟩ := hxl
                have hk : k + 1 = idx := by rw [← hxk] at hxloc; exact (Prod.mk.inj hxloc).2
                have hk' : k = idx - 1 := by omega
                subst hk'
                have hx1 : x.1 = entryAt bk (idx - 1) 39 := by rw [← hxk]
                -- its record
                unfold readEntryWith at hrun
                simp only at hrun
                split at hrun
                · cases hrun
                · split at hrun
                  · cases hf : readFile r total x.1 pfx with
                    | error e => rw [hf] at hrun; cases hrun
                    | ok f =>
                      rw [hf] at hrun
                      have hyy : y = [(f, x.2)] := by injection hrun with hrun; exact hrun.symm
                      subst hyy
                      rw [List.mem_singleton] at hfly
                      subst hfly
                      rw [← hx1]
                      exact readFile_base r total x.1 pfx f hf
                  · rw [hx1] at hrun
                    rw [if_neg hfile] at hrun
                    cases hrun

/-- with distinct paths, the records of a located reading that sit at `loc` (all of path `p`) are one record: updating
"at `loc`" is updating one position -/
theorem map_updAt_eq_set (fsL : List LRec) (loc : Nat × Nat) (a : Nat) (p : Bytes) (i : Nat) (hi : i < fsL.length)
    (hnd : ((fsL.map (·.1)).map (·.path)).Nodup) (hiloc : fsL[i].2 = loc)
    (hpath : ∀ fl ∈ fsL, fl.2 = loc → fl.1.path = p) :
    (fsL.map (updAt loc a)).map (·.1) = (fsL.map (·.1)).set i (updAcc a fsL[i].1) := by
  apply List.ext_getElem
  · simp
  · intro j h1 h2
    have hj : j < fsL.length := by simpa using h1
    simp only [List.getElem_map, List.getElem_set]
    by_cases hij : i = j
    · subst hij
      simp only [↓reduceIte]
      unfold updAt; rw [if_pos hiloc]
    · simp only [hij, ↓reduceIte]
      have hne : fsL[j].2 ≠ loc := by
        intro hjl
        have hpi := hpath _ (List.getElem_mem hi) hiloc
        have hpj := hpath _ (List.getElem_mem hj) hjl
        have := getElem_path_ne hnd (by simpa using hi) (by simpa using hj) hij
        simp only [List.getElem_map] at this
        exact this (hpi.trans hpj.symm)
      unfold updAt; rw [if_neg hne]

/-- **`lock` / `unlock` of a file of the volume directory, at the level of readings.**
`r'` is `r` with the access byte of slot `idx` of block `B` replaced (`AccMod`: what `lock_spec` / `unlock_spec` say the
model writes).  `r` reads as the well-formed volume `v`; the volume directory has the standard geometry; `B` is not a
bitmap block and no record owns it (it is a block of the volume directory itself); the entry is not a sub-directory
entry; the reader reaches the entry.  Then `r'` reads as `v'`, and `v → v'` is a transition the abstract specification
allows for `lock p` (if the new access byte reads as locked) resp. `unlock p` (if it reads as unlocked), where `p` is
the path the reader gives the entry. -/
theorem access_change_refines (r r' : Raw) (B idx : Nat) (blk nb : Bytes) (hmod : AccMod r r' B idx blk nb) (v : Vol)
    (hread : Read.ProdosT.read r = .ok v) (hwf : v.wfB = true)
    (hgeo : ∀ kb, r.units[2]? = some kb → kb.getD 35 0 = 39 ∧ kb.getD 36 0 = 13)
    (hB2 : 2 = B → 2 ≤ idx) (hBown : B ∉ v.allOwned)
    (hfile : (entryAt blk (idx - 1) 39).getD 0 0 / 16 ≠ 0xD)
    (hbm : ∀ kb, r.units[2]? = some kb → B < le16 kb 39 ∨ le16 kb 39 + (le16 kb 41 + 4095) / 4096 ≤ B)
    (hreach : ∀ fsL ch, readTree r v.hi = .ok (fsL, ch) → ∃ fl ∈ fsL, fl.2 = (B, idx)) :
    ∃ v', Read.ProdosT.read r' = .ok v' ∧ v'.wfB = true ∧
      ((decide ((nb.getD (entOff idx + 30) 0 / 2) % 2 = 0 ∨ (nb.getD (entOff idx + 30) 0 / 64) % 2 = 0 ∨
          (nb.getD (entOff idx + 30) 0 / 128) % 2 = 0) = true →
        stepOk { eofRule := id, keepsType := true, keepsAux := true, hasLock := true } v
          (.lock (baseRec (entryAt blk (idx - 1) 39) []).path) true v' = true) ∧
       (decide ((nb.getD (entOff idx + 30) 0 / 2) % 2 = 0 ∨ (nb.getD (entOff idx + 30) 0 / 64) % 2 = 0 ∨
          (nb.getD (entOff idx + 30) 0 / 128) % 2 = 0) = false →
        stepOk { eofRule := id, keepsType := true, keepsAux := true, hasLock := true } v
          (.unlock (baseRec (entryAt blk (idx - 1) 39) []).path) true v' = true)) := by
  obtain ⟨fsL, ch, htree, hfiles, hread'⟩ := read_mod r r' B idx blk nb hmod v hread hgeo hB2 hBown hfile hbm
  obtain ⟨fl, hfl, hflloc⟩ := hreach fsL ch htree
  obtain ⟨i, hi, hfi⟩ := List.getElem_of_mem hfl
  have hBown' : B ∉ fsL.flatMap (·.1.owned) := by
    unfold Vol.allOwned at hBown; rw [hfiles] at hBown; simpa [List.flatMap_map] using hBown
  have hpath := readDir_loc_path r v.hi B idx blk hmod.old 69 2 [] 0 fsL ch htree hgeo hBown' hfile
  have hnd : ((fsL.map (·.1)).map (·.path)).Nodup := by rw [← hfiles]; exact wfB_paths_nodup hwf
  have hiloc : fsL[i].2 = (B, idx) := by rw [hfi]; exact hflloc
  have hset := map_updAt_eq_set fsL (B, idx) (nb.getD (entOff idx + 30) 0) _ i hi hnd hiloc (fun g hg hgl => (hpath g hg hgl).1)
  rw [hset, ← hfiles] at hread'
  have hiv : i < v.files.length := by rw [hfiles]; simpa using hi
  have hfiv : v.files[i] = fsL[i].1 := by simp [hfiles]
  have hp : v.files[i].path = (baseRec (entryAt blk (idx - 1) 39) []).path := by
    rw [hfiv]; exact (hpath _ (List.getElem_mem hi) hiloc).1
  have hwf' : ({ v with files := v.files.set i (updAcc (nb.getD (entOff idx + 30) 0) fsL[i].1) } : Vol).wfB = true := by
    rw [wfB_set_same v i _ hiv (by rw [hfiv]; rfl) (by rw [hfiv]; rfl) (by rw [hfiv]; rfl)]; exact hwf
  refine ⟨_, hread', hwf', ?_, ?_⟩
  · intro hl
    apply stepOk_lock_of hwf hwf' hiv hp rfl (by show (updAcc _ fsL[i].1).path = _; rw [← hp, hfiv]; rfl)
    rw [hfiv]
    exact ⟨hl, rfl, rfl, rfl, rfl, rfl, rfl⟩
  · intro hl
    apply stepOk_unlock_of hwf hwf' hiv hp rfl (by show (updAcc _ fsL[i].1).path = _; rw [← hp, hfiv]; rfl)
    rw [hfiv]
    exact ⟨hl, rfl, rfl, rfl, rfl, rfl, rfl⟩

end A2Verif.FsProdos
