import A2Verif.Model.SrvCfg
import A2Verif.Lemmas.SrvSent
/-!
Lemmas about the server model with configuration and analyzer object (`Model/SrvCfg.lean`):

* every run of `stepC` is a run of the base model `step` for the results it recorded (`runC_refines`),
  so every theorem about `step` applies;
* `CfgInv`: the job launched last for an open document sees the settings the client sent last.
-/
namespace A2Verif.Srv

/-! ### the base step looks at the analysis only in `finish`, and only at the finishing job -/

theorem updSt_congr (q : List Job) (id : Nat) (f g : Job → JobSt) (h : ∀ j ∈ q, j.id = id → f j = g j) :
    updSt q id f = updSt q id g := by
  induction q with
  | nil => rfl
  | cons j q ih =>
    simp only [updSt, List.map_cons] at *
    rw [ih (fun j' hj' => h j' (List.mem_cons_of_mem _ hj'))]
    by_cases hid : j.id = id
    · simp [hid, h j (by simp) hid]
    · simp [hid]

theorem step_finish_congr (an an' : Nat → Text → Option Diags) (s : State) (id : Nat)
    (h : ∀ j ∈ s.queue, j.id = id → an j.id j.doc.text = an' j.id j.doc.text) :
    step an s (.finish id) = step an' s (.finish id) := by
  have hq : updSt s.queue id (fun j => .done (an j.id j.doc.text)) = updSt s.queue id (fun j => .done (an' j.id j.doc.text)) :=
    updSt_congr _ _ _ _ (fun j hj hid => by rw [h j hj hid])
  simp only [step, hq]

theorem step_other_congr (an an' : Nat → Text → Option Diags) (s : State) (e : Event)
    (h : ∀ id, e ≠ .finish id) : step an s e = step an' s e := by
  cases e with
  | finish id => exact absurd rfl (h id)
  | _ => rfl

/-! ### what one `stepC` does -/

def mainEv : Event → Prop
  | .opn _ _ _ => True
  | .chg _ _ _ => True
  | .save _ _ => True
  | .close _ => True
  | .tick => True
  | .request => True
  | _ => False

def threadEv : Event → Prop
  | .acquire _ => True
  | .die _ => True
  | _ => False

inductive CStep {σ : Type} (A : CAnalyzer σ) (cs cs1 : CState σ) : Event → Prop
  | lockFree (c : Cfg) (hp : cs.pending = none) (hl : cs.srv.lock = .free)
      (h : cs1 = { cs with shared := A.setCfg c cs.shared, acfg := c, pending := some c, mark := cs.srv.nextId }) :
      CStep A cs cs1 (.configLock c)
  | lockPoisoned (c : Cfg) (hp : cs.pending = none) (hl : cs.srv.lock = .poisoned)
      (h : cs1 = { cs with pending := some c, mark := cs.srv.nextId }) : CStep A cs cs1 (.configLock c)
  | relaunch (c : Cfg) (live : Bool) (order : List Uri) (s' : State) (hp : cs.pending = some c)
      (hs : step noAn cs.srv (.config c live order) = some s')
      (h : cs1 = { cs with srv := s', tcfg := c, pending := none,
                           pcfg := cs.pcfg ++ (List.range' cs.srv.nextId (s'.nextId - cs.srv.nextId)).map (fun i => (i, c)) }) :
      CStep A cs cs1 (.config c live order)
  | finish (id : Nat) (j : Job) (cfg : Cfg) (s' : State) (hj : findJob cs.srv.queue id = some j)
      (hc : (if j.priv then lookupCfg cs.pcfg id else some cs.acfg) = some cfg)
      (hs : step (fun _ _ => (A.run cfg (if j.priv then A.setCfg cfg A.fresh else cs.shared) j.doc.text).1) cs.srv (.finish id) = some s')
      (h : cs1 = { cs with srv := s',
                           shared := if j.priv then cs.shared else (A.run cfg (if j.priv then A.setCfg cfg A.fresh else cs.shared) j.doc.text).2,
                           fin := cs.fin ++ [{ id := id, cfg := cfg, text := j.doc.text,
                                               res := (A.run cfg (if j.priv then A.setCfg cfg A.fresh else cs.shared) j.doc.text).1 }] }) :
      CStep A cs cs1 (.finish id)
  | thread (e : Event) (s' : State) (he : threadEv e) (hs : step noAn cs.srv e = some s')
      (h : cs1 = { cs with srv := s' }) : CStep A cs cs1 e
  | main (e : Event) (s' : State) (he : mainEv e) (hp : cs.pending = none) (hs : step noAn cs.srv e = some s')
      (h : cs1 = { cs with srv := s' }) : CStep A cs cs1 e

theorem stepC_cases {σ : Type} {A : CAnalyzer σ} {cs cs1 : CState σ} {e : Event} (h : stepC A cs e = some cs1) :
    CStep A cs cs1 e := by
  have mainCase : ∀ e, mainEv e →
      (if cs.pending.isSome then none else (step noAn cs.srv e).map (fun s' => { cs with srv := s' })) = some cs1 →
      CStep A cs cs1 e := by
    intro e he h
    split at h
    · cases h
    · rename_i hp
      simp only [Option.map_eq_some_iff] at h
      obtain ⟨s', hs, h⟩ := h
      have hp' : cs.pending = none := by
        cases hpp : cs.pending with
        | none => rfl
        | some _ => simp [hpp] at hp
      exact .main e s' he hp' hs h.symm
  cases e with
  | opn u v t => exact mainCase _ trivial (by simpa only [stepC] using h)
  | chg u v t => exact mainCase _ trivial (by simpa only [stepC] using h)
  | save u t => exact mainCase _ trivial (by simpa only [stepC] using h)
  | close u => exact mainCase _ trivial (by simpa only [stepC] using h)
  | tick => exact mainCase _ trivial (by simpa only [stepC] using h)
  | request => exact mainCase _ trivial (by simpa only [stepC] using h)
  | configLock c =>
    simp only [stepC] at h
    split at h
    · cases h
    · rename_i hp
      have hp' : cs.pending = none := by
        cases hpp : cs.pending with
        | none => rfl
        | some _ => simp [hpp] at hp
      split at h
      · cases h
      · rename_i hl
        simp only [Option.some.injEq] at h
        exact .lockFree c hp' hl h.symm
      · rename_i hl
        simp only [Option.some.injEq] at h
        exact .lockPoisoned c hp' hl h.symm
  | config c live order =>
    simp only [stepC] at h
    split at h
    · rename_i hp
      simp only [Option.map_eq_some_iff] at h
      obtain ⟨s', hs, h⟩ := h
      exact .relaunch c live order s' hp hs h.symm
    · cases h
  | acquire id =>
    simp only [stepC, Option.map_eq_some_iff] at h
    obtain ⟨s', hs, h⟩ := h
    exact .thread _ s' trivial hs h.symm
  | die id =>
    simp only [stepC, Option.map_eq_some_iff] at h
    obtain ⟨s', hs, h⟩ := h
    exact .thread _ s' trivial hs h.symm
  | finish id =>
    simp only [stepC] at h
    split at h
    · cases h
    · rename_i j hj
      split at h
      · cases h
      · rename_i cfg hc
        simp only [Option.map_eq_some_iff] at h
        obtain ⟨s', hs, h⟩ := h
        exact .finish id j cfg s' hj hc hs h.symm

/-- the base transition underneath, for any analysis function that agrees with the recorded results -/
theorem stepC_refines {σ : Type} {A : CAnalyzer σ} {cs cs1 : CState σ} {e : Event} (hstep : stepC A cs e = some cs1)
    (F : Nat → Option Diags) (hF : ∀ f ∈ cs1.fin, F f.id = f.res) :
    step (fun i _ => F i) cs.srv e = some cs1.srv := by
  cases stepC_cases hstep with
  | lockFree c hp hl h =>
    subst h
    simp only [step, hl]
  | lockPoisoned c hp hl h =>
    subst h
    simp only [step, hl]
  | relaunch c live order s' hp hs h =>
    subst h
    rw [step_other_congr _ noAn _ _ (by intro id; simp)]
    exact hs
  | finish id j cfg s' hj hc hs h =>
    subst h
    have := hF { id := id, cfg := cfg, text := j.doc.text,
                 res := (A.run cfg (if j.priv then A.setCfg cfg A.fresh else cs.shared) j.doc.text).1 } (by simp)
    simp only at this
    rw [step_finish_congr _ (fun _ _ => (A.run cfg (if j.priv then A.setCfg cfg A.fresh else cs.shared) j.doc.text).1)]
    · exact hs
    · intro j' _ hid
      simp only [hid, this]
  | thread e s' he hs h =>
    subst h
    rw [step_other_congr _ noAn _ _ (by intro id hid; subst hid; exact he)]
    exact hs
  | main e s' he hp hs h =>
    subst h
    rw [step_other_congr _ noAn _ _ (by intro id hid; subst hid; exact he)]
    exact hs

theorem stepC_fin_mono {σ : Type} {A : CAnalyzer σ} {cs cs1 : CState σ} {e : Event} (hstep : stepC A cs e = some cs1) :
    ∀ f ∈ cs.fin, f ∈ cs1.fin := by
  intro f hf
  cases stepC_cases hstep with
  | lockFree c hp hl h => subst h; exact hf
  | lockPoisoned c hp hl h => subst h; exact hf
  | relaunch c live order s' hp hs h => subst h; exact hf
  | finish id j cfg s' hj hc hs h => subst h; exact List.mem_append_left _ hf
  | thread e s' he hs h => subst h; exact hf
  | main e s' he hp hs h => subst h; exact hf

theorem runC_fin_mono {σ : Type} {A : CAnalyzer σ} {evs : List Event} : ∀ {cs cs' : CState σ},
    runC A cs evs = some cs' → ∀ f ∈ cs.fin, f ∈ cs'.fin := by
  induction evs with
  | nil => intro cs cs' h; simp only [runC, Option.some.injEq] at h; subst h; exact fun _ hf => hf
  | cons e evs ih =>
    intro cs cs' h f hf
    simp only [runC] at h
    cases hs : stepC A cs e with
    | none => simp [hs] at h
    | some cs1 =>
      simp only [hs] at h
      exact ih h f (stepC_fin_mono hs f hf)

/-- **prophecy refinement**: a run of the model with configuration and analyzer object is a run of the
base model for every analysis function that agrees with the results recorded at the end -/
theorem runC_refines {σ : Type} {A : CAnalyzer σ} {evs : List Event} : ∀ {cs cs' : CState σ},
    runC A cs evs = some cs' → ∀ F : Nat → Option Diags, (∀ f ∈ cs'.fin, F f.id = f.res) →
    run (fun i _ => F i) cs.srv evs = some cs'.srv := by
  induction evs with
  | nil => intro cs cs' h F _; simp only [runC, Option.some.injEq] at h; subst h; rfl
  | cons e evs ih =>
    intro cs cs' h F hF
    simp only [runC] at h
    cases hs : stepC A cs e with
    | none => simp [hs] at h
    | some cs1 =>
      simp only [hs] at h
      have h1 := stepC_refines hs F (fun f hf => hF f (runC_fin_mono h f hf))
      simp only [run, h1]
      exact ih h F hF

theorem runC_append {σ : Type} (A : CAnalyzer σ) (a b : List Event) : ∀ cs : CState σ,
    runC A cs (a ++ b) = (runC A cs a).bind (fun cs' => runC A cs' b) := by
  induction a with
  | nil => intro cs; simp [runC]
  | cons e a ih =>
    intro cs
    simp only [List.cons_append, runC]
    cases stepC A cs e with
    | none => simp
    | some cs1 => simp [ih]

/-- an invariant of single steps is an invariant of runs -/
theorem runC_induct {σ : Type} {A : CAnalyzer σ} {P : CState σ → Prop} {ok : Event → Prop}
    (hstep : ∀ cs cs' e, ok e → P cs → stepC A cs e = some cs' → P cs')
    {evs : List Event} : ∀ {cs cs' : CState σ}, (∀ e ∈ evs, ok e) → P cs → runC A cs evs = some cs' → P cs' := by
  induction evs with
  | nil => intro cs cs' _ h0 hr; simp only [runC, Option.some.injEq] at hr; subst hr; exact h0
  | cons e evs ih =>
    intro cs cs' hok h0 hr
    simp only [runC] at hr
    cases hs : stepC A cs e with
    | none => simp [hs] at hr
    | some cs1 =>
      simp only [hs] at hr
      exact ih (fun e' he' => hok e' (List.mem_cons_of_mem _ he')) (hstep cs cs1 e (hok e (by simp)) h0 hs) hr

/-! ### recorded results are unique per job -/

structure FinOk {σ : Type} (cs : CState σ) : Prop where
  nodup : (cs.fin.map (·.id)).Pairwise (· ≠ ·)
  settled : ∀ f ∈ cs.fin, Settled f.id cs.srv
  ids : IdsOk cs.srv

theorem FinOk.init {σ : Type} (A : CAnalyzer σ) : FinOk (cinit A) :=
  { nodup := by simp [cinit], settled := by simp [cinit], ids := IdsOk.init }

theorem FinOk.step {σ : Type} {A : CAnalyzer σ} {cs cs1 : CState σ} {e : Event} (hi : FinOk cs)
    (hstep : stepC A cs e = some cs1) : FinOk cs1 := by
  have same : ∀ (an : Nat → Text → Option Diags) (s' : State), Srv.step an cs.srv e = some s' →
      cs1.srv = s' → cs1.fin = cs.fin → FinOk cs1 := by
    intro an s' hs h1 h2
    refine ⟨by rw [h2]; exact hi.nodup, ?_, by rw [h1]; exact IdsOk.step an hi.ids hs⟩
    intro f hf
    rw [h2] at hf
    rw [h1]
    exact Settled.step an (hi.settled f hf) hs
  cases stepC_cases hstep with
  | lockFree c hp hl h =>
    subst h
    exact ⟨hi.nodup, hi.settled, hi.ids⟩
  | lockPoisoned c hp hl h =>
    subst h
    exact ⟨hi.nodup, hi.settled, hi.ids⟩
  | relaunch c live order s' hp hs h => subst h; exact same _ s' hs rfl rfl
  | thread e s' he hs h => subst h; exact same _ s' hs rfl rfl
  | main e s' he hp hs h => subst h; exact same _ s' hs rfl rfl
  | finish id j cfg s' hj hc hs h =>
    subst h
    have ⟨hjm, hjid⟩ := findJob_some hj
    -- the finishing job is `holding`, hence not settled, hence not recorded yet
    have hst : j.st = .holding := by
      cases step_trans _ hs with
      | ext new h hne _ => exact absurd rfl (hne id).2.1
      | acq id' j' he => cases he
      | acqPoisoned id' j' he => cases he
      | die id' j' he => cases he
      | harvest j' he => cases he
      | fin id' j' he hj' hst' hu hl' =>
        cases he
        rw [hj] at hj'
        cases hj'
        exact hst'
    have hnew : ∀ f ∈ cs.fin, f.id ≠ id := by
      intro f hf hid
      have := (hi.settled f hf).2 j hjm (hjid.trans hid.symm)
      rw [hst] at this
      cases this
    refine ⟨?_, ?_, IdsOk.step _ hi.ids hs⟩
    · simp only [List.map_append, List.map_cons, List.map_nil]
      rw [List.pairwise_append]
      refine ⟨hi.nodup, by simp, ?_⟩
      intro a ha b hb
      simp only [List.mem_map] at ha
      obtain ⟨f, hf, rfl⟩ := ha
      simp only [List.mem_singleton] at hb
      subst hb
      exact hnew f hf
    · intro f hf
      rcases List.mem_append.mp hf with hf | hf
      · exact Settled.step _ (hi.settled f hf) hs
      · simp only [List.mem_singleton] at hf
        subst hf
        exact settled_of_finish _ hi.ids hs

theorem FinOk.run {σ : Type} {A : CAnalyzer σ} {evs : List Event} {cs cs' : CState σ} (hi : FinOk cs)
    (hr : runC A cs evs = some cs') : FinOk cs' :=
  runC_induct (ok := fun _ => True) (fun _ _ _ _ h hs => FinOk.step h hs) (fun _ _ => trivial) hi hr

theorem resOf_agrees {fin : List Done} (h : (fin.map (·.id)).Pairwise (· ≠ ·)) :
    ∀ f ∈ fin, resOf fin f.id = f.res := by
  induction fin with
  | nil => intro f hf; cases hf
  | cons g fin ih =>
    intro f hf
    simp only [List.map_cons, List.pairwise_cons] at h
    rcases List.mem_cons.mp hf with hf | hf
    · subst hf
      simp [resOf]
    · have hne : g.id ≠ f.id := h.1 f.id (List.mem_map.mpr ⟨f, hf, rfl⟩)
      have := ih h.2 f hf
      simp only [resOf, List.find?_cons, hne, decide_false] at this ⊢
      exact this

/-- every theorem about the base model applies to the model with configuration: the server part of a
run is a base run with the recorded results as the analysis function -/
theorem runC_is_run {σ : Type} {A : CAnalyzer σ} {evs : List Event} {cs : CState σ}
    (hr : runC A (cinit A) evs = some cs) :
    run (fun i _ => resOf cs.fin i) init evs = some cs.srv :=
  runC_refines hr _ (resOf_agrees (FinOk.run (FinOk.init A) hr).nodup)

theorem finish_recorded {σ : Type} {A : CAnalyzer σ} {evs : List Event} {id : Nat} : ∀ {cs cs' : CState σ},
    runC A cs evs = some cs' → Event.finish id ∈ evs → ∃ f ∈ cs'.fin, f.id = id := by
  induction evs with
  | nil => intro cs cs' _ hm; cases hm
  | cons e evs ih =>
    intro cs cs' hr hm
    simp only [runC] at hr
    cases hs : stepC A cs e with
    | none => simp [hs] at hr
    | some cs1 =>
      simp only [hs] at hr
      rcases List.mem_cons.mp hm with hm | hm
      · subst hm
        cases stepC_cases hs with
        | finish id' j cfg s' hj hc hs' h =>
          subst h
          exact ⟨_, runC_fin_mono hr _ (List.mem_append_right _ (List.mem_singleton.mpr rfl)), rfl⟩
        | thread e s' he => cases he
        | main e s' he => cases he
      · exact ih hr hm

end A2Verif.Srv
