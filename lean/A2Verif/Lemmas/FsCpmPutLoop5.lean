import A2Verif.Lemmas.FsCpmPutLoop4
/-!
# Successful `put`: closing an extent, the outer loop (`extLoop`)
-/
namespace A2Verif.FsCpm
open A2Verif.Fs.Cpm
open A2Verif.Read.Cpm (Dpb fileKey extNum entryPtrs pathOf slots)

/-! ## the finitely many shapes of a consistent disk parameter block -/

def dpbTable : List (Nat × Nat × Nat × Nat) :=
  [(1, 16, 1024, 16), (2, 8, 2048, 16), (4, 4, 4096, 16), (8, 2, 8192, 16), (16, 1, 16384, 16),
   (1, 8, 2048, 8), (2, 4, 4096, 8), (4, 2, 8192, 8), (8, 1, 16384, 8)]

theorem fact16 : ∀ a b : Fin 17, a.val * b.val = 16 → (a.val, b.val) ∈ [(1, 16), (2, 8), (4, 4), (8, 2), (16, 1)] := by decide
theorem fact8 : ∀ a b : Fin 9, a.val * b.val = 8 → (a.val, b.val) ∈ [(1, 8), (2, 4), (4, 2), (8, 1)] := by decide

theorem dpb_cases {d : Dpb} (hd : DpbPut d) : (d.exm + 1, putSpl d, blockSize d, slots d) ∈ dpbTable := by
  have hm := dpbPut_mul hd
  have hb := hd.1
  have hp := putSpl_pos hd
  have h1 : d.exm + 1 ≤ slots d := by rw [← hm]; exact Nat.le_mul_of_pos_right _ hp
  have h2 : putSpl d ≤ slots d := by rw [← hm]; exact Nat.le_mul_of_pos_left _ (by omega)
  generalize d.exm + 1 = L at *
  generalize putSpl d = spl at *
  generalize blockSize d = bs at *
  rcases slots_cases d with hs | hs
  · rw [hs] at hm h1 h2 ⊢
    have := fact8 ⟨L, by omega⟩ ⟨spl, by omega⟩ hm
    simp only [List.mem_cons, Prod.mk.injEq, List.mem_nil_iff, or_false] at this
    unfold dpbTable
    simp only [List.mem_cons, Prod.mk.injEq, List.mem_nil_iff, or_false]
    rcases this with ⟨rfl, rfl⟩ | ⟨rfl, rfl⟩ | ⟨rfl, rfl⟩ | ⟨rfl, rfl⟩ <;> (simp; omega)
  · rw [hs] at hm h1 h2 ⊢
    have := fact16 ⟨L, by omega⟩ ⟨spl, by omega⟩ hm
    simp only [List.mem_cons, Prod.mk.injEq, List.mem_nil_iff, or_false] at this
    unfold dpbTable
    simp only [List.mem_cons, Prod.mk.injEq, List.mem_nil_iff, or_false]
    rcases this with ⟨rfl, rfl⟩ | ⟨rfl, rfl⟩ | ⟨rfl, rfl⟩ | ⟨rfl, rfl⟩ | ⟨rfl, rfl⟩ <;> (simp; omega)

/-- arithmetic of the last physical extent -/
theorem ar_last {L spl bs S en eof maxX x k1 : Nat} (ht : (L, spl, bs, S) ∈ dpbTable) (hen : 0 < en)
    (hmax : maxX = en / S + (if en % S > 0 then 1 else 0)) (h1 : (en - 1) * bs < eof) (h2 : eof ≤ en * bs) (h3 : en ≤ 2048 * spl)
    (hx : x + 1 = maxX) (hk : k1 < S) (hM : x * S + k1 = en - 1) :
    x * L + (k1 / spl + 1) ≠ 0 ∧ x * L + (k1 / spl + 1) - 1 < 2048 ∧ (x * L + (k1 / spl + 1) - 1) / L = x ∧
    (x * L + (k1 / spl + 1) - 1) * 16384 < eof ∧ eof ≤ (x * L + (k1 / spl + 1) - 1 + 1) * 16384 ∧
    (eof % (L * 16384)) % 16384 = eof % 16384 ∧ (L * 16384) % 16384 = 0 ∧ (eof % (L * 16384) = 0 → eof % 16384 = 0) := by
  unfold dpbTable at ht
  simp only [List.mem_cons, Prod.mk.injEq, List.mem_nil_iff, or_false] at ht
  rcases ht with ⟨rfl, rfl, rfl, rfl⟩ | ⟨rfl, rfl, rfl, rfl⟩ | ⟨rfl, rfl, rfl, rfl⟩ | ⟨rfl, rfl, rfl, rfl⟩ | ⟨rfl, rfl, rfl, rfl⟩ |
    ⟨rfl, rfl, rfl, rfl⟩ | ⟨rfl, rfl, rfl, rfl⟩ | ⟨rfl, rfl, rfl, rfl⟩ | ⟨rfl, rfl, rfl, rfl⟩ <;> (split at hmax <;> omega)

/-- arithmetic of a physical extent that is not the last -/
theorem ar_mid {L spl bs S en maxX x : Nat} (ht : (L, spl, bs, S) ∈ dpbTable)
    (hmax : maxX = en / S + (if en % S > 0 then 1 else 0)) (h3 : en ≤ 2048 * spl) (hx : x + 1 < maxX) :
    x * L + L ≠ 0 ∧ x * L + L - 1 < 2048 ∧ (x * L + L - 1) / L = x := by
  unfold dpbTable at ht
  simp only [List.mem_cons, Prod.mk.injEq, List.mem_nil_iff, or_false] at ht
  rcases ht with ⟨rfl, rfl, rfl, rfl⟩ | ⟨rfl, rfl, rfl, rfl⟩ | ⟨rfl, rfl, rfl, rfl⟩ | ⟨rfl, rfl, rfl, rfl⟩ | ⟨rfl, rfl, rfl, rfl⟩ |
    ⟨rfl, rfl, rfl, rfl⟩ | ⟨rfl, rfl, rfl, rfl⟩ | ⟨rfl, rfl, rfl, rfl⟩ | ⟨rfl, rfl, rfl, rfl⟩ <;> (split at hmax <;> omega)

/-- where the last chunk lies -/
theorem ar_max {L spl bs S en maxX : Nat} (ht : (L, spl, bs, S) ∈ dpbTable) (hen : 0 < en)
    (hmax : maxX = en / S + (if en % S > 0 then 1 else 0)) :
    (en - 1) / S + 1 = maxX ∧ ((en - 1) / S) * S + (en - 1) % S = en - 1 ∧ (en - 1) % S < S ∧
    (∀ g, g < en → g / S < maxX) ∧ (∀ g, g / S < maxX - 1 → g < en - 1) := by
  unfold dpbTable at ht
  simp only [List.mem_cons, Prod.mk.injEq, List.mem_nil_iff, or_false] at ht
  rcases ht with ⟨rfl, rfl, rfl, rfl⟩ | ⟨rfl, rfl, rfl, rfl⟩ | ⟨rfl, rfl, rfl, rfl⟩ | ⟨rfl, rfl, rfl, rfl⟩ | ⟨rfl, rfl, rfl, rfl⟩ |
    ⟨rfl, rfl, rfl, rfl⟩ | ⟨rfl, rfl, rfl, rfl⟩ | ⟨rfl, rfl, rfl, rfl⟩ | ⟨rfl, rfl, rfl, rfl⟩ <;>
    (split at hmax <;> refine ⟨by omega, by omega, by omega, fun g hg => by omega, fun g hg => by omega⟩)

/-! ## `FileImage::end()` -/

theorem foldl_end (l : List (Nat × Bytes)) : ∀ m : Nat,
    (∀ c ∈ l, c.1 < l.foldl (fun m c => max m (c.1 + 1)) m) ∧ m ≤ l.foldl (fun m c => max m (c.1 + 1)) m ∧
    (l.foldl (fun m c => max m (c.1 + 1)) m = m ∨ ∃ c ∈ l, l.foldl (fun m c => max m (c.1 + 1)) m = c.1 + 1) := by
  induction l with
  | nil => intro m; simp
  | cons a l ih =>
    intro m
    obtain ⟨i1, i2, i3⟩ := ih (max m (a.1 + 1))
    rw [List.foldl_cons]
    refine ⟨?_, by omega, ?_⟩
    · intro c hc
      rcases List.mem_cons.1 hc with rfl | hc
      · omega
      · exact i1 c hc
    · rcases i3 with h | ⟨c, hc, h⟩
      · by_cases hm : m ≤ a.1 + 1
        · right; exact ⟨a, List.mem_cons_self, by rw [h]; omega⟩
        · left; rw [h]; omega
      · right; exact ⟨c, List.mem_cons_of_mem _ hc, h⟩

theorem mem_lookup {α : Type} : ∀ {l : List (Nat × α)} {k : Nat} {v : α}, (k, v) ∈ l → ∃ v', l.lookup k = some v'
  | [], _, _, h => by cases h
  | (k', v') :: l, k, v, h => by
    rw [List.lookup_cons]
    by_cases c : k = k'
    · have : (k == k') = true := by simpa using c
      rw [this]; exact ⟨v', rfl⟩
    · have : (k == k') = false := by simpa using c
      rw [this]
      rcases List.mem_cons.1 h with h | h
      · cases h; exact absurd rfl c
      · exact mem_lookup h

theorem end_spec {f : FImg} (hne : f.chunks ≠ []) :
    0 < f.end_ ∧ (∃ c, f.chunks.lookup (f.end_ - 1) = some c) ∧ ∀ g c, f.chunks.lookup g = some c → g < f.end_ := by
  obtain ⟨h1, _, h3⟩ := foldl_end f.chunks 0
  have hpos : 0 < f.end_ := by
    cases hc : f.chunks with
    | nil => exact absurd hc hne
    | cons a l =>
      have := h1 a (by rw [hc]; exact List.mem_cons_self)
      unfold FImg.end_; omega
  refine ⟨hpos, ?_, ?_⟩
  · rcases h3 with h | ⟨c, hc, h⟩
    · unfold FImg.end_ at hpos; omega
    · have : f.end_ - 1 = c.1 := by unfold FImg.end_; omega
      rw [this]
      exact mem_lookup (v := c.2) hc
  · intro g c hg
    exact h1 _ (lookup_mem hg)

/-! ## between two physical extents -/

/-- the state of the outer loop before physical extent `x`: no extent is open -/
def EInv (d : Dpb) (r : Raw) (f : FImg) (user : Nat) (base typ : Bytes) (x : Nat) (s : WState) : Prop :=
  SInv d r f user base typ x 0 s ∧ s.fx = none

theorem closeExtent_eq {d : Dpb} {ptr : Nat} {fx : Bytes} {sdir dir' : Dir} {lxCount : Nat} {isLast : Bool} {f : FImg}
    (h : closeExtent d ptr fx sdir lxCount isLast f = .ok dir') :
    lxCount ≠ 0 ∧ ptr < sdir.length ∧ dir' = sdir.set ptr (Ext.setEof (Ext.setDataPtr fx (lxCount - 1))
      (if (!isLast && decide (f.eof > 0)) || (decide (f.eof % extentCapacity d = 0) && decide (f.eof > 0)) then extentCapacity d
        else f.eof % extentCapacity d) d.v3) := by
  unfold closeExtent at h
  split at h
  · cases h
  next hne =>
    simp only [] at h
    split at h
    next hp => cases h; exact ⟨hne, hp, rfl⟩
    · cases h

/-- the slots of extent `x` held no chunk: on to the next extent -/
theorem einv_next {d : Dpb} {r : Raw} {f : FImg} {user : Nat} {base typ : Bytes} {x : Nat} {s : WState}
    (hd : DpbPut d) (hs : SInv d r f user base typ x (slots d) s) (hfx : s.fx = none) : EInv d r f user base typ (x + 1) s := by
  have hS : 0 < slots d := by rcases slots_cases d with h | h <;> omega
  have hnone : ∀ g c, f.chunks.lookup g = some c → g / slots d ≠ x := by
    intro g c hg hx
    have := hs.nopn hfx (g % slots d) (Nat.mod_lt _ hS)
    rw [← hx, Nat.div_add_mod'] at this
    rw [this] at hg; cases hg
  refine ⟨⟨hs.w, hs.same, ?_, hs.xinj, ?_, fun _ k hk => by omega, hs.dist, ?_, ?_⟩, hfx⟩
  · intro j e0 e a1 a2 a3 a4
    rcases hs.closed j e0 e a1 a2 a3 a4 with h | ⟨h1, h2, x', h3, h4⟩
    · rw [hfx] at h; cases h.1
    · exact Or.inr ⟨h1, h2, x', by omega, h4⟩
  · intro fx h; rw [hfx] at h; cases h
  · intro g c hg hlt
    have := hnone g c hg
    exact hs.cover g c hg (by omega)
  · intro hc g c hg hlt
    have := hnone g c hg
    exact hs.crt hc g c hg (by omega)

/-- closing the open extent of physical extent `x` -/
theorem einv_close {d : Dpb} {r : Raw} {f : FImg} {user : Nat} {base typ : Bytes} {x : Nat} {s : WState} {fx : Bytes} {dir' : Dir}
    (hd : DpbPut d) (hu : user < 16) (ha : PutArgsOk d f) (hxm : x < putMaxX d f)
    (hs : SInv d r f user base typ x (slots d) s) (hfx : s.fx = some fx)
    (hce : closeExtent d s.ptr fx s.dir (x * (d.exm + 1) + (if x + 1 < putMaxX d f then d.exm + 1 else s.lxUsed))
      (x + 1 == putMaxX d f) f = .ok dir') :
    EInv d r f user base typ (x + 1) { s with dir := dir', fx := none, created := s.created + 1 } := by
  obtain ⟨hne, hpl, rfl⟩ := closeExtent_eq hce
  obtain ⟨o1, ⟨e0, o2, o3, o4⟩, oH, oS, _, k1, ok1, ok2, ok3, ok4⟩ := hs.opn fx hfx
  have hS : 0 < slots d := by rcases slots_cases d with h | h <;> omega
  have ht := dpb_cases hd
  obtain ⟨a1, a2, a3, a4, a5, a6⟩ := ha
  obtain ⟨hen, ⟨cM, hcM⟩, hub⟩ := end_spec a1
  have hmaxdef : putMaxX d f = f.end_ / slots d + (if f.end_ % slots d > 0 then 1 else 0) := by
    unfold putMaxX; rw [hd.2.1]
  obtain ⟨m1, m2, m3, m4, m5⟩ := ar_max ht hen hmaxdef
  generalize hrem : (if (!(x + 1 == putMaxX d f) && decide (f.eof > 0)) ||
      (decide (f.eof % extentCapacity d = 0) && decide (f.eof > 0)) then extentCapacity d else f.eof % extentCapacity d) = rem at *
  generalize hn : x * (d.exm + 1) + (if x + 1 < putMaxX d f then d.exm + 1 else s.lxUsed) - 1 = n at *
  -- the extent number
  have hnum : n < 2048 ∧ n / (d.exm + 1) = x ∧
      (x + 1 = putMaxX d f → eofOf (Ext.setEof (Ext.setDataPtr fx n) rem d.v3) = (cpmParams d).eofRule f.eof) ∧
      (x + 1 < putMaxX d f → n = x * (d.exm + 1) + d.exm) := by
    by_cases hl : x + 1 < putMaxX d f
    · rw [if_pos hl] at hn
      obtain ⟨_, q2, q3⟩ := ar_mid ht hmaxdef a6 hl
      rw [hn] at q2 q3
      exact ⟨q2, q3, fun h => by omega, fun _ => by omega⟩
    · rw [if_neg hl, ok3] at hn
      have hx1 : x + 1 = putMaxX d f := by omega
      -- the last chunk is the last chunk of this extent
      have hM : x * slots d + k1 = f.end_ - 1 := by
        have hxM : (f.end_ - 1) / slots d = x := by omega
        have le1 : x * slots d + k1 ≤ f.end_ - 1 := by
          cases hlk : f.chunks.lookup (x * slots d + k1) with
          | none => exact absurd hlk ok2
          | some c => have := hub _ c hlk; omega
        have le2 : (f.end_ - 1) % slots d ≤ k1 := by
          by_cases c : (f.end_ - 1) % slots d ≤ k1
          · exact c
          · have := ok4 ((f.end_ - 1) % slots d) (by omega) m3
            rw [← hxM, m2, hcM] at this; cases this
        rw [← hxM] at le1 ⊢
        omega
      obtain ⟨_, q2, q3, q4, q5, q6, q7, q8⟩ := ar_last ht hen hmaxdef a4 a5 a6 hx1 ok1 hM
      rw [hn] at q2 q3 q4 q5
      refine ⟨q2, q3, fun _ => ?_, fun h => absurd h hl⟩
      unfold cpmParams
      simp only []
      apply closed_eof oH.len n rem f.eof d.v3 q2 q4 q5
      · rw [← hrem]
        have hcap : extentCapacity d = (d.exm + 1) * 16384 := rfl
        rw [hcap]
        split
        · next hc =>
          have : f.eof % ((d.exm + 1) * 16384) = 0 := by
            simp only [Bool.or_eq_true, Bool.and_eq_true, Bool.not_eq_true', beq_eq_false_iff_ne, decide_eq_true_eq] at hc
            rcases hc with ⟨hc, _⟩ | ⟨hc, _⟩
            · exact absurd hx1 hc
            · exact hc
          rw [q7, q8 this]
        · exact q6
      · rw [← hrem]
        have hpos : 0 < f.eof := by omega
        split
        · unfold extentCapacity logicalExtentSize; omega
        · next hc =>
          simp only [Bool.or_eq_true, Bool.and_eq_true, Bool.not_eq_true', decide_eq_true_eq, not_or, not_and] at hc
          have := hc.2
          omega
  obtain ⟨hn1, hn2, hn3, hn4⟩ := hnum
  obtain ⟨c1, c2, c3, c4, c5, c6⟩ := closed_spec oH.len n rem d.v3 hn1
  generalize hc : Ext.setEof (Ext.setDataPtr fx n) rem d.v3 = c at *
  have hcH : Hdr user base typ c := hdr_congr c1 c2 oH
  have hcX : isExtent c = true := hdr_isExtent hu hcH
  have hcP : entryPtrs d c = entryPtrs d fx := entryPtrs_congr c3
  have hp0 : ∀ e, (dirOf d r)[s.ptr]? = some e → isExtent e = false := by
    intro e he; rw [o2] at he; cases he; exact o3
  have hcXE : XEnt d (dirOf d r) s.r f x c := by
    refine ⟨c4, c5, by rw [c6]; exact hn2, hxm, ?_, hn3, fun hl => by rw [c6]; exact hn4 hl⟩
    intro k hk
    have := oS k hk hk
    unfold SlotOk at this
    rw [hcP]; exact this
  refine ⟨⟨?_, ?_, ?_, ?_, ?_, fun _ k hk => by omega, ?_, ?_, ?_⟩, rfl⟩
  · exact ⟨hs.w.frame, keeps_set hs.w.keeps hp0, len_set hs.w.len c1, fun fy hfy => by cases hfy⟩
  · intro j e0' e h0 hj hx
    by_cases cj : j = s.ptr
    · exfalso
      rw [cj] at hj
      simp only [List.getElem?_set_self hpl, Option.some.injEq] at hj
      rw [← hj, hcX] at hx; cases hx
    · simp only [List.getElem?_set_ne (fun e' => cj e'.symm)] at hj
      exact hs.same j e0' e h0 hj hx
  · intro j e0' e h0 hn' hj hx
    right
    by_cases cj : j = s.ptr
    · rw [cj] at hj h0
      simp only [List.getElem?_set_self hpl, Option.some.injEq] at hj
      rw [o2] at h0; cases h0
      rw [← hj]
      exact ⟨o4, hcH, x, by omega, hcXE⟩
    · simp only [List.getElem?_set_ne (fun e' => cj e'.symm)] at hj
      rcases hs.closed j e0' e h0 hn' hj hx with h | ⟨h1, h2, x', h3, h4⟩
      · exact absurd h.2 cj
      · exact ⟨h1, h2, x', by omega, h4⟩
  · intro i j e0i e0j ei ej b1 b2 b3 b4 hi hj xi xj _ _ hph
    -- the physical extent of a closed entry other than the one just closed is smaller than `x`
    have small : ∀ m e0m em, (dirOf d r)[m]? = some e0m → isExtent e0m = false → m ≠ s.ptr → s.dir[m]? = some em →
        isExtent em = true → extNum em / (d.exm + 1) < x := by
      intro m e0m em q1 q2 q3 q4 q5
      rcases hs.closed m e0m em q1 q2 q4 q5 with h | ⟨_, _, x', h3, h4⟩
      · exact absurd h.2 q3
      · rw [h4.phys]; exact h3
    by_cases ci : i = s.ptr
    · by_cases cj : j = s.ptr
      · rw [ci, cj]
      · exfalso
        rw [ci] at hi
        simp only [List.getElem?_set_self hpl, Option.some.injEq] at hi
        simp only [List.getElem?_set_ne (fun e' => cj e'.symm)] at hj
        have := small j e0j ej b3 b4 cj hj xj
        rw [← hph, ← hi, c6, hn2] at this
        omega
    · by_cases cj : j = s.ptr
      · exfalso
        rw [cj] at hj
        simp only [List.getElem?_set_self hpl, Option.some.injEq] at hj
        simp only [List.getElem?_set_ne (fun e' => ci e'.symm)] at hi
        have := small i e0i ei b1 b2 ci hi xi
        rw [hph, ← hj, c6, hn2] at this
        omega
      · simp only [List.getElem?_set_ne (fun e' => ci e'.symm)] at hi
        simp only [List.getElem?_set_ne (fun e' => cj e'.symm)] at hj
        exact hs.xinj i j e0i e0j ei ej b1 b2 b3 b4 hi hj xi xj (fun h => ci h.2) (fun h => cj h.2) hph
  · intro fy hfy; cases hfy
  · apply dist_set_same hs.dist
    intro k hk
    right
    exact ⟨fx, o1, hdr_isExtent hu oH, by rw [hcP]⟩
  · intro g cg hg hlt
    by_cases cx : g / slots d < x
    · obtain ⟨j, e0', e, q1, q2, q3, q4, q5, q6⟩ := hs.cover g cg hg cx
      have cj : j ≠ s.ptr := fun h => q5 ⟨by rw [hfx]; rfl, h⟩
      refine ⟨j, e0', e, q1, q2, ?_, q4, ?_, q6⟩
      · simp only [List.getElem?_set_ne (fun e' => cj e'.symm)]; exact q3
      · intro h; have h1 := h.1; simp at h1
    · have : g / slots d = x := by omega
      refine ⟨s.ptr, e0, c, o2, o3, ?_, hcX, ?_, by rw [c6, hn2, this]⟩
      · simp only [List.getElem?_set_self hpl]
      · intro h; have h1 := h.1; simp at h1
  · intro hc0; exact absurd hc0 (Nat.succ_ne_zero _)

end A2Verif.FsCpm
