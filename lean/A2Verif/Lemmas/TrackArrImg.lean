import A2Verif.Lemmas.TrackArr
import A2Verif.Lemmas.TrackImgInv
/-!
The image operations run with the array track representation (`ATrk`, what the driver runs and what the
Rust does) equal the image operations run with the list representation (`Trk`, what the theorems are about).
-/
namespace A2Verif.Model.TrackImg
open A2Verif.Model.Track A2Verif.Model.Nibble Head

theorem load_view (A : List Bool) (p : Nat) : (TrackRep.load A p : ATrk).view = (TrackRep.load A p : Trk) := by
  show (⟨rot p (A.toArray).toList, p⟩ : Trk) = ⟨rot p A, p⟩
  simp

theorem load_awf (A : List Bool) (p : Nat) (hp : p < A.length) : AWF (TrackRep.load A p : ATrk) := by
  show p < A.toArray.size
  simpa using hp

theorem unload_view (a : ATrk) (h : AWF a) : (TrackRep.unload a.view : List Bool) = TrackRep.unload a := by
  have hL : a.pos < a.buf.toList.length := by have := h; unfold AWF at this; simpa using this
  show rot ((rot a.pos a.buf.toList).length - a.pos) (rot a.pos a.buf.toList) = a.buf.toList
  rw [rot_length, rot_rot _ _ _ (by omega) (by omega) (by omega),
    show a.buf.toList.length - a.pos + a.pos = a.buf.toList.length by omega, Nat.mod_self, rot_zero]

theorem startPtr_lt (img : TrackImg) (n : Nat) (hn : 0 < n) : startPtr img n < n := by
  unfold startPtr
  split
  · split <;> omega
  · exact hn

/-- the track an access `(cyl, head)` resolves to is usable: at least one bit, all bits inside the buffer -/
def LocOk (img : TrackImg) (cyl head : Nat) : Prop :=
  ∀ trk off blen n, cylHeadToTrack img cyl head = .ok trk → locate img (trk % 256) = .ok (off, blen, n) →
    0 < n ∧ n ≤ (unpack ((img.bytes.drop off).take blen)).length

theorem readSector_refine (img : TrackImg) (cyl head sec : Nat) (hl : LocOk img cyl head) :
    readSector ATrk img cyl head sec = readSector Trk img cyl head sec := by
  unfold readSector
  split
  · rfl
  · rfl
  · rfl
  · rename_i trk hcyl
    split
    · rfl
    · dsimp only
      split
      · rfl
      · rfl
      · rfl
      · rename_i off blen n hloc
        obtain ⟨hn, hle⟩ := hl _ _ _ _ hcyl hloc
        have hlen : ((unpack ((img.bytes.drop off).take blen)).take n).length = n := by
          rw [List.length_take]; omega
        have hw := load_awf ((unpack ((img.bytes.drop off).take blen)).take n) (startPtr img n)
          (by rw [hlen]; exact startPtr_lt img n hn)
        obtain ⟨r1, r2⟩ := readSector_view (fmtOf img blen) (trk % 256) sec _ hw
        rw [load_view] at r1
        simp only [r1]
        generalize Track.readSector (fmtOf img blen) (trk % 256) sec
          (TrackRep.load ((unpack ((img.bytes.drop off).take blen)).take n) (startPtr img n) : ATrk) = R
        rcases R with ⟨r | r, a'⟩ <;> rfl

theorem writeSector_refine (img : TrackImg) (cyl head sec : Nat) (dat : List Nat) (hl : LocOk img cyl head) :
    writeSector ATrk img cyl head sec dat = writeSector Trk img cyl head sec dat := by
  unfold writeSector
  split
  · rfl
  · rfl
  · rfl
  · rename_i trk hcyl
    split
    · rfl
    · dsimp only
      split
      · rfl
      · rfl
      · rfl
      · rename_i off blen n hloc
        obtain ⟨hn, hle⟩ := hl _ _ _ _ hcyl hloc
        have hlen : ((unpack ((img.bytes.drop off).take blen)).take n).length = n := by
          rw [List.length_take]; omega
        have hw := load_awf ((unpack ((img.bytes.drop off).take blen)).take n) (startPtr img n)
          (by rw [hlen]; exact startPtr_lt img n hn)
        obtain ⟨r1, r2⟩ := writeSector_view (fmtOf img blen) (quant dat) (trk % 256) sec _ hw
        rw [load_view] at r1
        have hu := unload_view _ r2
        simp only [r1, hu]
        generalize Track.writeSector (fmtOf img blen) (quant dat) (trk % 256) sec
          (TrackRep.load ((unpack ((img.bytes.drop off).take blen)).take n) (startPtr img n) : ATrk) = R
        rcases R with ⟨r | r, a'⟩ <;> rfl

/-- the formatter run on the array representation produces the same buffer -/
theorem formatBuf_refine (f : Fmt) (vol trk bufBits : Nat) (hn : 0 < f.bitCount (secIds f.six).length) :
    formatBuf ATrk f vol trk bufBits = formatBuf Trk f vol trk bufBits := by
  unfold formatBuf
  have hw := load_awf (List.replicate (f.bitCount (secIds f.six).length) (decide (f.syncBits ≤ 8))) 0 (by simpa using hn)
  obtain ⟨v1, v2⟩ := formatTrack_view f vol trk (secIds f.six) _ hw
  rw [load_view] at v1
  simp only [v1, unload_view _ v2]

theorem layout_locOk {img : TrackImg} {offs : Nat → Nat} {cap n : Nat} (lay : Layout img offs cap n) (cyl head : Nat) :
    LocOk img cyl head := by
  intro trk off blen m hcyl hloc
  have ht : trk < 35 := by
    unfold cylHeadToTrack at hcyl
    rw [lay.tracks] at hcyl
    split at hcyl
    · cases hcyl
    · simp only at hcyl
      split at hcyl
      · cases hcyl
      · simp only [IRes.ok.injEq] at hcyl; omega
  rw [Nat.mod_eq_of_lt (by omega), lay.loc trk ht] at hloc
  simp only [IRes.ok.injEq, Prod.mk.injEq] at hloc
  obtain ⟨rfl, rfl, rfl⟩ := hloc
  refine ⟨lay.npos, ?_⟩
  rw [unpack_length]
  have := lay.inb trk ht
  have := lay.nle
  simp only [List.length_take, List.length_drop]
  omega

end A2Verif.Model.TrackImg
