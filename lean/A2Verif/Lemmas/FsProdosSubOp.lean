import A2Verif.Lemmas.FsProdosSubM
import A2Verif.Lemmas.FsProdosModOp
import A2Verif.Lemmas.FsProdosDelDir
/-!
# `lock`, `unlock`, `retype` of a file of a first-level sub-directory refine the abstract operations

`ModSite d v pfx B k`: slot `(B, k + 1)` holds a file entry of the directory with path `pfx`, and `modify` on it does what
`modify_found` says.  `lock_site`, `unlock_site`, `retype_site`: the three operations on a site, given that `find_file` leads
there.  `sub_findFile`: for a path whose normal form is `[volume, dir, name]`, `find_file` fails and leaves the disk alone, or
it leads to a site of the sub-directory.  The three refinement theorems follow.
-/
namespace A2Verif.FsProdos
open A2Verif.Fs.Prodos
open A2Verif.Read.Prodos (entryAt dirChain idxPtr indexEntries readData trimName bitmapFree)
open A2Verif.Read.ProdosT

/-- a file slot on which `modify` works; `pfx` is the path of its directory (empty for the volume directory) -/
structure ModSite (d : Disk) (v : Vol) (pfx : Bytes) (B k : Nat) : Prop where
  st : (entryAt (unitAt d.raw B) k 39).getD 0 0 / 16 = 1 ∨ (entryAt (unitAt d.raw B) k 39).getD 0 0 / 16 = 2 ∨
    (entryAt (unitAt d.raw B) k 39).getD 0 0 / 16 = 3
  len : (entryAt (unitAt d.raw B) k 39).length = 39
  bytes : ∀ y ∈ entryAt (unitAt d.raw B) k 39, y < 256
  ua : UniformAcc ((entryAt (unitAt d.raw B) k 39).getD 30 0)
  gd : getDirectory B d = (.ok { kind := kindOf B (unitAt d.raw B), bytes := (unitAt d.raw B).take dirLen }, d)
  ge : Dir.getEntry { kind := kindOf B (unitAt d.raw B), bytes := (unitAt d.raw B).take dirLen } (k + 1) =
    some (entryAt (unitAt d.raw B) k 39)
  found : ∀ (lock : Option Bool) (newName : Option Bytes) (newType : Option (Option Nat)) (newAux : Option Nat),
    newType ≠ some none → ¬ (Ent.access (entryAt (unitAt d.raw B) k 39) &&& 0x40 = 0 ∧ newName.isSome = true) →
    ∀ e', modEntry lock newName newType newAux (entryAt (unitAt d.raw B) k 39) = e' → e'.length = 39 → (∀ x ∈ e', x < 256) →
    SameBlocks (entryAt (unitAt d.raw B) k 39) e' → UniformAcc (e'.getD 30 0) →
    (∀ f, Read.ProdosT.readFile d.raw (hdrTotal d.raw) (entryAt (unitAt d.raw B) k 39) pfx = .ok f →
      (baseRec e' pfx).path = f.path ∨ (baseRec e' pfx).path ∉ v.paths) →
    ∃ d1 d4 v4 f FA FB, Fs.Prodos.modify { block := B, idx := k + 1 } lock newName newType newAux d = (.ok (), d1) ∧
      d1.flush = (.ok (), d4) ∧ SInv d4 ∧ Read.ProdosT.read d4.raw = .ok v4 ∧
      Read.ProdosT.readFile d.raw (hdrTotal d.raw) (entryAt (unitAt d.raw B) k 39) pfx = .ok f ∧
      v.files = FA ++ f :: FB ∧ v4.files = FA ++ reRec e' pfx f :: FB ∧ v4.wfB = true ∧ v.wfB = true ∧ v4.label = v.label

theorem baseRec_path_congr (e e' pfx : Bytes) (h : trimName e' = trimName e) : (baseRec e' pfx).path = (baseRec e pfx).path := by
  unfold baseRec; simp only [h]

/-- the fields of the new record -/
theorem reRec_fields' (e' pfx : Bytes) (f : FileRec) :
    (reRec e' pfx f).path = (baseRec e' pfx).path ∧ (reRec e' pfx f).ftype = e'.getD 16 0 ∧ (reRec e' pfx f).aux = le16 e' 31 ∧
    (reRec e' pfx f).locked = readerLocked (e'.getD 30 0) ∧ (reRec e' pfx f).eof = le24 e' 21 ∧
    (reRec e' pfx f).chunks = f.chunks ∧ (reRec e' pfx f).owned = f.owned ∧ (reRec e' pfx f).isDir = false := by
  unfold reRec baseRec readerLocked
  simp

theorem old_fields' (r : Raw) (total : Nat) (e pfx : Bytes) (f : FileRec) (h : Read.ProdosT.readFile r total e pfx = .ok f) :
    f.path = (baseRec e pfx).path ∧ f.ftype = e.getD 16 0 ∧ f.aux = le16 e 31 ∧ f.locked = readerLocked (e.getD 30 0) ∧
    f.eof = le24 e 21 ∧ f.isDir = false := by
  obtain ⟨h1, h2, h3, _, h5, h6, h7⟩ := readFile_rec_fields r total e pfx f h
  refine ⟨h1, h5, h6, ?_, h7, h2⟩
  rw [h3]; unfold baseRec readerLocked; simp

/-- **`lock` on a site** -/
theorem lock_site {d : Disk} (hs : SInv d) (v : Vol) (hr : Read.ProdosT.read d.raw = .ok v) (pfx : Bytes) (B k : Nat)
    (site : ModSite d v pfx B k) (path : Bytes) (hfind : findFile path d = (.ok { block := B, idx := k + 1 }, d)) :
    Refines d (Fs.Prodos.lock path d) (.lock (baseRec (entryAt (unitAt d.raw B) k 39) pfx).path) := by
  have hl0 := site.len
  have hb0 := site.bytes
  have ha : (entryAt (unitAt d.raw B) k 39).getD 30 0 < 256 := getD_lt_of_bytes _ _ hb0
  obtain ⟨hu', hlt', hlk'⟩ := lockAcc_uniform ⟨_, ha⟩
  have hgd := fun j => setAccess_getD (entryAt (unitAt d.raw B) k 39) (lockAcc ((entryAt (unitAt d.raw B) k 39).getD 30 0)) j hl0
  have htrim : trimName (Ent.setAccess (entryAt (unitAt d.raw B) k 39) (lockAcc ((entryAt (unitAt d.raw B) k 39).getD 30 0))) =
      trimName (entryAt (unitAt d.raw B) k 39) :=
    trimName_congr _ _ (by rw [setAccess_length _ _ hl0, hl0]) (fun j hj => by rw [hgd j, if_neg (by omega)])
  obtain ⟨d1, d4, v4, f, FA, FB, hmod, hfl, hs4, hr4, hrf, hf1, hf4, hw4, hw, hlab⟩ :=
    site.found (some true) none none none (by simp) (by simp)
      (Ent.setAccess (entryAt (unitAt d.raw B) k 39) (lockAcc ((entryAt (unitAt d.raw B) k 39).getD 30 0)))
      (modEntry_lock _) (setAccess_length _ _ hl0)
      (splice_bytes _ _ _ hb0 (by intro y hy; simp at hy; rw [hy]; exact hlt'))
      (sameBlocks_of_bytes _ _ (by rw [hgd 0, if_neg (by omega)]) (fun j h1 h2 => by rw [hgd j, if_neg (by omega)]))
      (by rw [hgd 30, if_pos rfl]; exact hu')
      (fun f' hf' => Or.inl (by rw [(old_fields' _ _ _ _ f' hf').1]; exact baseRec_path_congr _ _ _ htrim))
  have hrun : Fs.Prodos.lock path d = (.ok (), d1) := by
    unfold Fs.Prodos.lock; simp only [bind_def]
    rw [bind_ok _ _ d d _ hfind]
    exact hmod
  rw [hrun]
  refine ⟨d4, v, v4, hfl, hs4, hr, hr4, ?_, hlab⟩
  obtain ⟨o1, o2, o3, o4, o5, o6⟩ := old_fields' _ _ _ _ f hrf
  obtain ⟨n1, n2, n3, n4, n5, n6, n7, n8⟩ := reRec_fields' (Ent.setAccess (entryAt (unitAt d.raw B) k 39)
    (lockAcc ((entryAt (unitAt d.raw B) k 39).getD 30 0))) pfx f
  have hi : FA.length < v.files.length := by rw [hf1]; simp
  have hget : v.files[FA.length] = f := by simp only [hf1]; exact getElem_mid FA FB f (by simp)
  apply stepOk_lock_of hw hw4 hi (by rw [hget, o1]) (by rw [hf4, hf1, set_mid]) (by rw [n1]; exact baseRec_path_congr _ _ _ htrim)
  rw [hget]
  refine ⟨by rw [n4, hgd 30, if_pos rfl]; exact hlk', n6, ?_, n7, ?_, ?_, by rw [n8, o6]⟩
  · rw [n5, o5]; unfold le24 le16; rw [hgd 21, hgd 22, hgd 23, if_neg (by omega), if_neg (by omega), if_neg (by omega)]
  · rw [n2, o2, hgd 16, if_neg (by omega)]
  · rw [n3, o3]; unfold le16; rw [hgd 31, hgd 32, if_neg (by omega), if_neg (by omega)]

/-- **`unlock` on a site** -/
theorem unlock_site {d : Disk} (hs : SInv d) (v : Vol) (hr : Read.ProdosT.read d.raw = .ok v) (pfx : Bytes) (B k : Nat)
    (site : ModSite d v pfx B k) (path : Bytes) (hfind : findFile path d = (.ok { block := B, idx := k + 1 }, d)) :
    Refines d (Fs.Prodos.unlock path d) (.unlock (baseRec (entryAt (unitAt d.raw B) k 39) pfx).path) := by
  have hl0 := site.len
  have hb0 := site.bytes
  have ha : (entryAt (unitAt d.raw B) k 39).getD 30 0 < 256 := getD_lt_of_bytes _ _ hb0
  obtain ⟨hu', hlt', hlk'⟩ := unlockAcc_uniform ⟨_, ha⟩
  have hgd := fun j => setAccess_getD (entryAt (unitAt d.raw B) k 39) (unlockAcc ((entryAt (unitAt d.raw B) k 39).getD 30 0)) j hl0
  have htrim : trimName (Ent.setAccess (entryAt (unitAt d.raw B) k 39) (unlockAcc ((entryAt (unitAt d.raw B) k 39).getD 30 0))) =
      trimName (entryAt (unitAt d.raw B) k 39) :=
    trimName_congr _ _ (by rw [setAccess_length _ _ hl0, hl0]) (fun j hj => by rw [hgd j, if_neg (by omega)])
  obtain ⟨d1, d4, v4, f, FA, FB, hmod, hfl, hs4, hr4, hrf, hf1, hf4, hw4, hw, hlab⟩ :=
    site.found (some false) none none none (by simp) (by simp)
      (Ent.setAccess (entryAt (unitAt d.raw B) k 39) (unlockAcc ((entryAt (unitAt d.raw B) k 39).getD 30 0)))
      (modEntry_unlock _) (setAccess_length _ _ hl0)
      (splice_bytes _ _ _ hb0 (by intro y hy; simp at hy; rw [hy]; exact hlt'))
      (sameBlocks_of_bytes _ _ (by rw [hgd 0, if_neg (by omega)]) (fun j h1 h2 => by rw [hgd j, if_neg (by omega)]))
      (by rw [hgd 30, if_pos rfl]; exact hu')
      (fun f' hf' => Or.inl (by rw [(old_fields' _ _ _ _ f' hf').1]; exact baseRec_path_congr _ _ _ htrim))
  have hrun : Fs.Prodos.unlock path d = (.ok (), d1) := by
    unfold Fs.Prodos.unlock; simp only [bind_def]
    rw [bind_ok _ _ d d _ hfind]
    exact hmod
  rw [hrun]
  refine ⟨d4, v, v4, hfl, hs4, hr, hr4, ?_, hlab⟩
  obtain ⟨o1, o2, o3, o4, o5, o6⟩ := old_fields' _ _ _ _ f hrf
  obtain ⟨n1, n2, n3, n4, n5, n6, n7, n8⟩ := reRec_fields' (Ent.setAccess (entryAt (unitAt d.raw B) k 39)
    (unlockAcc ((entryAt (unitAt d.raw B) k 39).getD 30 0))) pfx f
  have hi : FA.length < v.files.length := by rw [hf1]; simp
  have hget : v.files[FA.length] = f := by simp only [hf1]; exact getElem_mid FA FB f (by simp)
  apply stepOk_unlock_of hw hw4 hi (by rw [hget, o1]) (by rw [hf4, hf1, set_mid]) (by rw [n1]; exact baseRec_path_congr _ _ _ htrim)
  rw [hget]
  refine ⟨by rw [n4, hgd 30, if_pos rfl]; exact hlk', n6, ?_, n7, ?_, ?_, by rw [n8, o6]⟩
  · rw [n5, o5]; unfold le24 le16; rw [hgd 21, hgd 22, hgd 23, if_neg (by omega), if_neg (by omega), if_neg (by omega)]
  · rw [n2, o2, hgd 16, if_neg (by omega)]
  · rw [n3, o3]; unfold le16; rw [hgd 31, hgd 32, if_neg (by omega), if_neg (by omega)]

/-- **`retype` on a site** -/
theorem retype_site {d : Disk} (hs : SInv d) (v : Vol) (hr : Read.ProdosT.read d.raw = .ok v) (pfx : Bytes) (B k : Nat)
    (site : ModSite d v pfx B k) (path : Bytes) (hfind : findFile path d = (.ok { block := B, idx := k + 1 }, d))
    (newType : Option Nat) (a : Nat) (htb : ∀ t, newType = some t → t < 256) :
    Refines d (Fs.Prodos.retype path newType (some a) d) (.retype (baseRec (entryAt (unitAt d.raw B) k 39) pfx).path) := by
  have hl0 := site.len
  have hb0 := site.bytes
  cases newType with
  | none =>
    have hrun : Fs.Prodos.retype path none (some a) d = (.error .fileTypeMismatch, d) := by
      unfold Fs.Prodos.retype; simp only [bind_def]
      rw [bind_ok _ _ d d _ hfind]
      show Fs.Prodos.modify { block := B, idx := k + 1 } none none (some none) (some a) d = _
      unfold Fs.Prodos.modify
      simp only [bind_def]
      rw [bind_ok _ _ d d _ site.gd]
      show M.bind (M.ofOption (Dir.getEntry _ (k + 1))) _ d = _
      rw [site.ge, bind_ok _ _ d d _ (ofOption_some _ d)]
      simp only [Option.isSome_none, Bool.false_eq_true, and_false, ↓reduceIte]
      rfl
    rw [hrun]; exact refines_refused hs _ _
  | some t =>
  have ht256 := htb t rfl
  have hgd := fun j => retypeEntry_getD (entryAt (unitAt d.raw B) k 39) t a j hl0
  have hlen' := retypeEntry_length (entryAt (unitAt d.raw B) k 39) t a hl0
  have hbytes' : ∀ y ∈ Ent.setAux (Ent.setFtype (entryAt (unitAt d.raw B) k 39) t) a, y < 256 := by
    unfold Ent.setAux Ent.setFtype
    apply splice_bytes _ _ _ (splice_bytes _ _ _ hb0 (by intro y hy; simp at hy; rw [hy]; exact ht256)) (u16le_bytes a)
  have htrim : trimName (Ent.setAux (Ent.setFtype (entryAt (unitAt d.raw B) k 39) t) a) = trimName (entryAt (unitAt d.raw B) k 39) :=
    trimName_congr _ _ (by rw [hlen', hl0]) (fun j hj => by
      rw [hgd j, if_neg (by omega), if_neg (by omega), if_neg (by omega)])
  obtain ⟨d1, d4, v4, f, FA, FB, hmod, hfl, hs4, hr4, hrf, hf1, hf4, hw4, hw, hlab⟩ :=
    site.found none none (some (some t)) (some a) (by simp) (by simp)
      (Ent.setAux (Ent.setFtype (entryAt (unitAt d.raw B) k 39) t) a)
      (modEntry_retype _ t a) hlen' hbytes'
      (sameBlocks_of_bytes _ _ (by rw [hgd 0, if_neg (by omega), if_neg (by omega), if_neg (by omega)])
        (fun j h1 h2 => by rw [hgd j, if_neg (by omega), if_neg (by omega), if_neg (by omega)]))
      (by rw [hgd 30, if_neg (by omega), if_neg (by omega), if_neg (by omega)]; exact site.ua)
      (fun f' hf' => Or.inl (by rw [(old_fields' _ _ _ _ f' hf').1]; exact baseRec_path_congr _ _ _ htrim))
  have hrun : Fs.Prodos.retype path (some t) (some a) d = (.ok (), d1) := by
    unfold Fs.Prodos.retype; simp only [bind_def]
    rw [bind_ok _ _ d d _ hfind]
    exact hmod
  rw [hrun]
  refine ⟨d4, v, v4, hfl, hs4, hr, hr4, ?_, hlab⟩
  obtain ⟨o1, o2, o3, o4, o5, o6⟩ := old_fields' _ _ _ _ f hrf
  obtain ⟨n1, n2, n3, n4, n5, n6, n7, n8⟩ := reRec_fields' (Ent.setAux (Ent.setFtype (entryAt (unitAt d.raw B) k 39) t) a) pfx f
  have hi : FA.length < v.files.length := by rw [hf1]; simp
  have hget : v.files[FA.length] = f := by simp only [hf1]; exact getElem_mid FA FB f (by simp)
  apply stepOk_retype_of hw hw4 hi (by rw [hget, o1]) (by rw [hf4, hf1, set_mid]) (by rw [n1]; exact baseRec_path_congr _ _ _ htrim)
  rw [hget]
  refine ⟨n6, ?_, n7, by rw [n8, o6]⟩
  rw [n5, o5]; unfold le24 le16
  rw [hgd 21, hgd 22, hgd 23, if_neg (by omega), if_neg (by omega), if_neg (by omega), if_neg (by omega), if_neg (by omega),
    if_neg (by omega), if_neg (by omega), if_neg (by omega), if_neg (by omega)]

/-- **a file slot of a first-level sub-directory is a site** -/
theorem sub_site {d : Disk} (hs : SInv d) (v : Vol) (fsL : List LRec) (ch : List Nat)
    (hr : Read.ProdosT.read d.raw = .ok v) (ht : readTree d.raw (hdrTotal d.raw) = .ok (fsL, ch))
    (B k : Nat) (hB : B ∈ ch) (hk13 : k < 13) (hkey : B = 2 → 1 ≤ k)
    (hd : (entryAt (unitAt d.raw B) k 39).getD 0 0 / 16 = 0xD)
    (sch : List Nat) (hc : dirChain d.raw (hdrTotal d.raw) 1000 (le16 (entryAt (unitAt d.raw B) k 39) 0x11) [] = .ok sch)
    (B' k' : Nat) (hB' : B' ∈ sch) (hk13' : k' < 13) (hkey' : B' = le16 (entryAt (unitAt d.raw B) k 39) 0x11 → 1 ≤ k')
    (hst : (entryAt (unitAt d.raw B') k' 39).getD 0 0 / 16 = 1 ∨ (entryAt (unitAt d.raw B') k' 39).getD 0 0 / 16 = 2 ∨
      (entryAt (unitAt d.raw B') k' 39).getD 0 0 / 16 = 3) :
    ModSite d v (baseRec (entryAt (unitAt d.raw B) k 39) []).path B' k' := by
  obtain ⟨v', fsL', ch', hr', ht', c, hts, heff, hbsz, hbok⟩ := hs.ctx
  have e1 : v' = v := by rw [hr] at hr'; injection hr' with h; exact h.symm
  subst e1
  have e2 : fsL' = fsL ∧ ch' = ch := by
    rw [ht] at ht'; injection ht' with h; injection h with h1 h2; exact ⟨h1.symm, h2.symm⟩
  obtain ⟨rfl, rfl⟩ := e2
  obtain ⟨_, _, _, _, _, _, _, _, h2, _, _, _, _⟩ := root_chain_facts hs.inv v' fsL' ch' hr ht
  have hxm : (entryAt (unitAt d.raw B) k 39, B, k + 1) ∈ dirSlots d.raw 2 ch' := mem_dirSlots.mpr ⟨B, hB, k, hk13, hkey, rfl⟩
  obtain ⟨sch0, hc0, htail, sc, hschf, hK2⟩ := hs.subctx v' fsL' ch' hr ht _ hxm hd
  simp only at hc0 htail sc hK2
  have hse : sch0 = sch := by rw [hc] at hc0; injection hc0 with e; exact e.symm
  subst hse
  have hym : (entryAt (unitAt d.raw B') k' 39, B', k' + 1) ∈ dirSlots d.raw (le16 (entryAt (unitAt d.raw B) k 39) 0x11) sch0 :=
    mem_dirSlots.mpr ⟨B', hB', k', hk13', hkey', rfl⟩
  obtain ⟨f, _, _, _, _, hua, _⟩ := sub_file_rec hs.inv v' fsL' ch' hr ht _ hxm hd sch0 hc _ hym hst
  have hsh := hschf B' hB'
  have h2s : 2 ∉ sch0 := fun h => (hschf 2 h).2.1 h2
  have hge : Dir.getEntry { kind := kindOf B' (unitAt d.raw B'), bytes := (unitAt d.raw B').take dirLen } (k' + 1) =
      some (entryAt (unitAt d.raw B') k' 39) := by
    apply getEntry_std _ _ k' hk13'
    intro hne
    by_cases hb : B' = le16 (entryAt (unitAt d.raw B) k 39) 0x11
    · exact hkey' hb
    · exact absurd ((sc.kinds B' hB').2 hb) hne
  refine ⟨hst, entryAt_length _ _ (by rw [hsh.2.2.2.2.1]; omega), entryAt_bytes _ _ hsh.2.2.2.2.2.1, hua,
    getDirectory_st sc.st B' (unitAt d.raw B') (sc.nb B' hB') (units_get_unitAt _ _ hsh.2.2.2.1), hge, ?_⟩
  intro lock newName newType newAux hty hren e' he' hl hb hsb hua' hpath
  obtain ⟨d1, hd1, n1⟩ := modify_trace_key sc h2s B' k' hB' hk13' hkey' lock newName newType newAux hty hren
    (by rw [heff]; exact hsh.2.2.2.2.2.2.1)
  rw [he', take_full e' hl] at n1
  obtain ⟨d4, v4, f, FA, FB, hfl, hs4, hr4, hrf, hf1, hf4, hw4, hw, hlab⟩ :=
    sub_replace_reading hs v' fsL' ch' hr ht B k hB hk13 hkey _ rfl hd sch0 hc B' k' hB' hk13' hkey' _ rfl hst e' hl hb hsb hua' n1 hpath
  exact ⟨d1, d4, v4, f, FA, FB, hd1, hfl, hs4, hr4, hrf, hf1, hf4, hw4, hw, hlab⟩

/-- the directory entry `dn` of the volume directory, found in slot `(B, k + 1)`, and the sub-directory (chain `sch`) it
leads to -/
structure SubDir (d : Disk) (v : Vol) (fsL : List LRec) (ch : List Nat) (dn : Bytes) (B k : Nat) (sch : List Nat) : Prop where
  hB : B ∈ ch
  hk13 : k < 13
  hkey : B = 2 → 1 ≤ k
  hx : (dirSlots d.raw 2 ch).find? (isHit [stSubDirEntry] dn) = some (entryAt (unitAt d.raw B) k 39, B, k + 1)
  hd : (entryAt (unitAt d.raw B) k 39).getD 0 0 / 16 = 0xD
  name : trimName (entryAt (unitAt d.raw B) k 39) = upper dn
  hc : dirChain d.raw (hdrTotal d.raw) 1000 (le16 (entryAt (unitAt d.raw B) k 39) 0x11) [] = .ok sch
  tail : SubTail d.raw (entryAt (unitAt d.raw B) k 39, B, k + 1) sch
  sc : KeyCtx d (hdrBm d.raw) (nbmOf (hdrTotal d.raw)) (le16 (entryAt (unitAt d.raw B) k 39) 0x11) sch
  facts : ∀ b ∈ sch, b ∈ v.allOwned ∧ b ∉ ch ∧ b < hdrTotal d.raw ∧ b < d.raw.units.size ∧
    (unitAt d.raw b).length = 512 ∧ (∀ y ∈ unitAt d.raw b, y < 256) ∧
    b / 8 < (bufOf d.raw (hdrBm d.raw) (nbmOf (hdrTotal d.raw))).size ∧
    freeB (bufOf d.raw (hdrBm d.raw) (nbmOf (hdrTotal d.raw))) b = false
  K2 : le16 (entryAt (unitAt d.raw B) k 39) 0x11 ≠ 2

theorem SubDir.xm {d : Disk} {v : Vol} {fsL : List LRec} {ch : List Nat} {dn : Bytes} {B k : Nat} {sch : List Nat}
    (s : SubDir d v fsL ch dn B k sch) : (entryAt (unitAt d.raw B) k 39, B, k + 1) ∈ dirSlots d.raw 2 ch :=
  mem_dirSlots.mpr ⟨B, s.hB, k, s.hk13, s.hkey, rfl⟩

theorem SubDir.pfx {d : Disk} {v : Vol} {fsL : List LRec} {ch : List Nat} {dn : Bytes} {B k : Nat} {sch : List Nat}
    (s : SubDir d v fsL ch dn B k sch) : (baseRec (entryAt (unitAt d.raw B) k 39) []).path = upper dn := by
  rw [baseRec_path_root, s.name]

theorem upper_ne_nil {dn : Bytes} (hv : isNameValid dn = true) : (upper dn).isEmpty = false := by
  have := (isNameValid_len dn hv).1
  cases hdn : upper dn with
  | nil => unfold upper at hdn; rw [List.map_eq_nil_iff] at hdn; rw [hdn] at this; simp at this
  | cons a l => rfl

/-- a sub-directory of an `Inv` image holds no directory entries: a search for one finds nothing -/
theorem SubDir.no_dirs {d : Disk} {v : Vol} {fsL : List LRec} {ch : List Nat} {dn : Bytes} {B k : Nat} {sch : List Nat}
    (s : SubDir d v fsL ch dn B k sch) (nm : Bytes) (hv : isNameValid nm = true) :
    (dirSlots d.raw (le16 (entryAt (unitAt d.raw B) k 39) 17) sch).find? (isHit [stSubDirEntry] nm) = none := by
  rw [List.find?_eq_none]
  intro y hy hhit
  obtain ⟨hdy, _⟩ := dir_hit_is_dir (r := d.raw) (ch := sch) nm (isNameValid_len nm hv).2 y hhit
  obtain ⟨_, _, _, _, _, _, _, hslots⟩ := s.tail
  rcases hslots y hy with h0 | ⟨hst, _⟩
  · rw [h0] at hdy; simp at hdy
  · omega

/-- **resolving the directory of a path whose normal form is `[volume, dir, name]`**: `search_volume` fails and leaves the
disk object alone, or the directory entry is found and the search continues in the sub-directory -/
theorem sub_resolve {d : Disk} (hs : SInv d) (v : Vol) (fsL : List LRec) (ch : List Nat)
    (hr : Read.ProdosT.read d.raw = .ok v) (ht : readTree d.raw (hdrTotal d.raw) = .ok (fsL, ch)) (path dn nm : Bytes)
    (hnodes : normalizePath (volName (hdrOf d.raw)) path = .ok [volName (hdrOf d.raw), dn, nm]) (hnm : nm ≠ []) :
    ((isNameValid dn = false ∨ (dirSlots d.raw 2 ch).find? (isHit [stSubDirEntry] dn) = none) ∧
      ∀ types, ∃ e, searchVolume types path d = (.error e, d) ∧ e ≠ .panic) ∨
    (isNameValid dn = true ∧ ∃ B k sch, SubDir d v fsL ch dn B k sch ∧
      ∀ types, searchVolume types path d =
        (rootSearch types nm (dirSlots d.raw (le16 (entryAt (unitAt d.raw B) k 39) 17) sch), d)) := by
  obtain ⟨v', fsL', ch', hr', ht', c, hts, heff, hbsz, hbok⟩ := hs.ctx
  have e1 : v' = v := by rw [hr] at hr'; injection hr' with h; exact h.symm
  subst e1
  have e2 : fsL' = fsL ∧ ch' = ch := by
    rw [ht] at ht'; injection ht' with h; injection h with h1 h2; exact ⟨h1.symm, h2.symm⟩
  obtain ⟨rfl, rfl⟩ := e2
  by_cases hv : isNameValid dn = true
  · obtain ⟨o, hx⟩ : ∃ o, (dirSlots d.raw 2 ch').find? (isHit [stSubDirEntry] dn) = o := ⟨_, rfl⟩
    cases o with
    | none => exact Or.inl ⟨Or.inr hx, fun types => searchVolume_sub_nodir c types path dn nm hnodes (Or.inr hx)⟩
    | some x =>
      obtain ⟨hxm, hxhit⟩ := mem_find hx
      obtain ⟨B, hB, k, hk13, hkey, hxe⟩ := mem_dirSlots.mp hxm
      subst hxe
      have hmatchd : isFileMatch [stSubDirEntry] dn (entryAt (unitAt d.raw B) k 39) = true := by
        unfold isHit at hxhit; simp only [Bool.and_eq_true] at hxhit; exact hxhit.2
      obtain ⟨hd, hdname⟩ := isFileMatch_dir dn _ hv hmatchd
      obtain ⟨sch, hc, htail, sc, hschf, hK2⟩ := hs.subctx v' fsL' ch' hr ht _ hxm hd
      exact Or.inr ⟨hv, B, k, sch, ⟨hB, hk13, hkey, hx, hd, hdname, hc, htail, sc, hschf, hK2⟩,
        fun types => searchVolume_sub c types path dn nm hnodes hnm hv B k hB hk13 hkey hx sch sc⟩
  · have hv' : isNameValid dn = false := by simpa using hv
    exact Or.inl ⟨Or.inl hv', fun types => searchVolume_sub_nodir c types path dn nm hnodes (Or.inl hv')⟩

/-- what `find_file` does with a path whose normal form is `[volume, dir, name]`: it fails and leaves the disk object alone,
or it finds the directory entry in slot `(B, k + 1)` of the volume directory and the file in slot `(B', k' + 1)` of the
sub-directory, which is a `ModSite` -/
theorem sub_findFile {d : Disk} (hs : SInv d) (v : Vol) (hr : Read.ProdosT.read d.raw = .ok v) (path dn nm : Bytes)
    (hnodes : normalizePath (volName (hdrOf d.raw)) path = .ok [volName (hdrOf d.raw), dn, nm]) (hnm : nm ≠ []) :
    (∃ e, findFile path d = (.error e, d)) ∨
    (∃ B' k', findFile path d = (.ok { block := B', idx := k' + 1 }, d) ∧ ModSite d v (upper dn) B' k' ∧
      (baseRec (entryAt (unitAt d.raw B') k' 39) (upper dn)).path = upper dn ++ [47] ++ upper nm) := by
  obtain ⟨v', fsL, ch, hr', ht, c, hts, heff, hbsz, hbok⟩ := hs.ctx
  have e1 : v' = v := by rw [hr] at hr'; injection hr' with h; exact h.symm
  subst e1
  rcases sub_resolve hs v' fsL ch hr ht path dn nm hnodes hnm with ⟨_, hfail⟩ | ⟨hv, B, k, sch, sd, hsearch⟩
  · obtain ⟨e, he, _⟩ := hfail fileTypes; exact Or.inl ⟨e, he⟩
  · have hfind : findFile path d = _ := hsearch fileTypes
    unfold rootSearch at hfind
    by_cases hvn : isNameValid nm = true
    · simp only [hvn, Bool.not_true, Bool.false_eq_true, ↓reduceIte] at hfind
      cases hy : (dirSlots d.raw (le16 (entryAt (unitAt d.raw B) k 39) 17) sch).find? (isHit fileTypes nm) with
      | none => rw [hy] at hfind; exact Or.inl ⟨_, hfind⟩
      | some y =>
        rw [hy] at hfind
        obtain ⟨hym, hyhit⟩ := mem_find hy
        obtain ⟨B', hB', k', hk13', hkey', hye⟩ := mem_dirSlots.mp hym
        subst hye
        have hmatch : isFileMatch fileTypes nm (entryAt (unitAt d.raw B') k' 39) = true := by
          unfold isHit at hyhit; simp only [Bool.and_eq_true] at hyhit; exact hyhit.2
        obtain ⟨hst, hname⟩ := isFileMatch_file nm _ hvn hmatch
        have site := sub_site hs v' fsL ch hr ht B k sd.hB sd.hk13 sd.hkey sd.hd sch sd.hc B' k' hB' hk13' hkey' hst
        rw [sd.pfx] at site
        refine Or.inr ⟨B', k', hfind, site, ?_⟩
        unfold baseRec; simp only [upper_ne_nil hv, Bool.false_eq_true, ↓reduceIte, hname]
    · have hv' : isNameValid nm = false := by simpa using hvn
      simp only [hv', Bool.not_false, ↓reduceIte] at hfind
      exact Or.inl ⟨_, hfind⟩

/-- **`lock(path)` refines the abstract `lock`** (files of a first-level sub-directory) -/
theorem lock_sub_refines' {d : Disk} (hs : SInv d) (path dn nm : Bytes)
    (hnodes : normalizePath (volName (hdrOf d.raw)) path = .ok [volName (hdrOf d.raw), dn, nm]) (hnm : nm ≠ []) :
    Refines d (Fs.Prodos.lock path d) (.lock (upper dn ++ [47] ++ upper nm)) := by
  obtain ⟨v, fsL, ch, hr, ht, c, hts, heff, hbsz, hbok⟩ := hs.ctx
  rcases sub_findFile hs v hr path dn nm hnodes hnm with ⟨e, he⟩ | ⟨B', k', hfind, site, hp⟩
  · have : Fs.Prodos.lock path d = (.error e, d) := by
      unfold Fs.Prodos.lock; simp only [bind_def]; unfold M.bind; rw [he]
    rw [this]; exact refines_refused hs e _
  · rw [← hp]; exact lock_site hs v hr _ B' k' site path hfind

/-- **`unlock(path)` refines the abstract `unlock`** (files of a first-level sub-directory) -/
theorem unlock_sub_refines' {d : Disk} (hs : SInv d) (path dn nm : Bytes)
    (hnodes : normalizePath (volName (hdrOf d.raw)) path = .ok [volName (hdrOf d.raw), dn, nm]) (hnm : nm ≠ []) :
    Refines d (Fs.Prodos.unlock path d) (.unlock (upper dn ++ [47] ++ upper nm)) := by
  obtain ⟨v, fsL, ch, hr, ht, c, hts, heff, hbsz, hbok⟩ := hs.ctx
  rcases sub_findFile hs v hr path dn nm hnodes hnm with ⟨e, he⟩ | ⟨B', k', hfind, site, hp⟩
  · have : Fs.Prodos.unlock path d = (.error e, d) := by
      unfold Fs.Prodos.unlock; simp only [bind_def]; unfold M.bind; rw [he]
    rw [this]; exact refines_refused hs e _
  · rw [← hp]; exact unlock_site hs v hr _ B' k' site path hfind

/-- **`retype(path, type, aux)` refines the abstract `retype`** (files of a first-level sub-directory) -/
theorem retype_sub_refines' {d : Disk} (hs : SInv d) (path dn nm : Bytes) (newType aux : Option Nat)
    (hnodes : normalizePath (volName (hdrOf d.raw)) path = .ok [volName (hdrOf d.raw), dn, nm]) (hnm : nm ≠ [])
    (htb : ∀ t, newType = some t → t < 256) :
    Refines d (Fs.Prodos.retype path newType aux d) (.retype (upper dn ++ [47] ++ upper nm)) := by
  obtain ⟨v, fsL, ch, hr, ht, c, hts, heff, hbsz, hbok⟩ := hs.ctx
  cases aux with
  | none => exact refines_refused hs .parseInt _
  | some a =>
  rcases sub_findFile hs v hr path dn nm hnodes hnm with ⟨e, he⟩ | ⟨B', k', hfind, site, hp⟩
  · have : Fs.Prodos.retype path newType (some a) d = (.error e, d) := by
      unfold Fs.Prodos.retype; simp only [bind_def]; unfold M.bind; rw [he]
    rw [this]; exact refines_refused hs e _
  · rw [← hp]; exact retype_site hs v hr _ B' k' site path hfind newType a htb

end A2Verif.FsProdos
