import A2Verif.Lemmas.C15T0
import A2Verif.Lemmas.C15T1
import A2Verif.Lemmas.C15T2
import A2Verif.Lemmas.C15T3
/-!
Lemmas for C15: arithmetic of little endian operands and of the relative branch conversion, and the lift
of the finite table check to every operand value.
-/
namespace A2Verif.C15
open A2Verif.Gen.Opcodes A2Verif.Dasm A2Verif.Asm

/-- the table check holds for every processor, every assembler variant that can declare it, every opcode -/
theorem table_all (proc : Proc) (ver : Ver) (hc : compat proc ver = true) (op : Nat) (hop : op < 256)
    (m8 x8 brk b1nz small : Bool) :
    rowCheck Quirks.fixed proc (ver == .m8) m8 x8 brk op b1nz small true = true := by
  cases proc
  · exact table_0 ⟨op, hop⟩ _ m8 x8 brk b1nz small rfl
  · exact table_1 ⟨op, hop⟩ _ m8 x8 brk b1nz small rfl
  · exact table_2 ⟨op, hop⟩ _ m8 x8 brk b1nz small (by cases ver <;> simp_all [compat])
  · exact table_3 ⟨op, hop⟩ _ m8 x8 brk b1nz small (by cases ver <;> simp_all [compat])

theorem take_cases (tl : List Nat) (n : Nat) (h3 : n ≤ 3) (hl : n ≤ tl.length) :
    (n = 0 ∧ tl.take n = []) ∨ (∃ a, n = 1 ∧ tl.take n = [a]) ∨
    (∃ a b, n = 2 ∧ tl.take n = [a, b]) ∨ (∃ a b c, n = 3 ∧ tl.take n = [a, b, c]) := by
  rcases n with _ | _ | _ | _ | n
  · simp
  · rcases tl with _ | ⟨a, tl⟩
    · simp at hl
    · right; left; exact ⟨a, rfl, by simp⟩
  · rcases tl with _ | ⟨a, _ | ⟨b, tl⟩⟩
    · simp at hl
    · simp at hl
    · right; right; left; exact ⟨a, b, rfl, by simp⟩
  · rcases tl with _ | ⟨a, _ | ⟨b, _ | ⟨c, tl⟩⟩⟩
    · simp at hl
    · simp at hl
    · simp at hl
    · right; right; right; exact ⟨a, b, c, rfl, by simp⟩
  · omega

/-- `abs_to_rel` undoes `rel_to_abs` (branches at every origin and range limit) -/
theorem rel_roundtrip (n pc v d : Nat) (hn : n = 1 ∨ n = 2) (hv : v < 256 ^ n)
    (h : relToAbs pc v n = some d) : absToRel pc d n = some v ∧ d ≤ 0xffff := by
  rcases hn with rfl | rfl <;>
  · have hv' : v < 65536 := by
      have : (256:Nat) ^ 1 = 256 := by decide
      have : (256:Nat) ^ 2 = 65536 := by decide
      omega
    clear hv
    simp only [relToAbs] at h
    simp only [absToRel]
    repeat' (split at h)
    all_goals (first | (simp at h; done) | skip)
    all_goals (simp at h; subst h; refine ⟨?_, by first | omega | simp_all⟩)
    all_goals (repeat' split)
    all_goals (first | (exfalso; omega) | (rw [Option.some.injEq]; omega) | (simp_all; done) | (simp_all; omega))

theorem isInstruction_some {cfg : Cfg} {op : Nat} {tl : List Nat} {i : Info}
    (h : isInstruction cfg (op :: tl) = some i) : instrInfo cfg op = some i ∧ i.n ≤ tl.length := by
  simp only [isInstruction] at h
  split at h
  · split at h
    · simp at h; subst h; simp_all
    · simp at h
  · simp at h

theorem absAddr_eq (d k : Nat) (h : d ≤ 0xffff) :
    d % 256 + 0x100 * ((d / 256) % 256) + k * 0x10000 * ((d / 65536) % 256) = d := by
  have h0 : d / 65536 = 0 := by omega
  rw [h0]; simp; omega

theorem le4_take (xs : List Nat) (h3 : xs.length ≤ 3) (hb : ∀ x ∈ xs, x < 256) :
    (le4 (leVal xs)).take xs.length = xs ∧ leVal xs < 256 ^ xs.length := by
  rcases xs with _ | ⟨a, _ | ⟨b, _ | ⟨c, _ | ⟨d, xs⟩⟩⟩⟩
  · simp [leVal, le4]
  · have := hb a (by simp)
    simp [leVal, le4]; omega
  · have := hb a (by simp); have := hb b (by simp)
    simp [leVal, le4]; omega
  · have := hb a (by simp); have := hb b (by simp); have := hb c (by simp)
    simp [leVal, le4]; omega
  · simp at h3

/-- Round trip of one instruction, every operand value: what the assembler model emits for the line the
disassembler model produces is the opcode followed by the operand bytes. -/
theorem instr_roundtrip (cfg : Cfg) (ver : Ver) (addr op : Nat) (tl : List Nat) (i : Info)
    (hc : compat cfg.proc ver = true) (hop : op < 256) (hb : ∀ x ∈ tl, x < 256)
    (hi : isInstruction cfg (op :: tl) = some i) :
    lineBytes Quirks.fixed ⟨cfg.proc, ver, cfg.m8, cfg.x8⟩ addr (pushInstruction Quirks.fixed addr op tl i).1
        = .ok (op :: tl.take i.n)
      ∧ (pushInstruction Quirks.fixed addr op tl i).2 = 1 + i.n := by
  obtain ⟨proc, m8, x8, brk⟩ := cfg
  obtain ⟨hinfo, hlen⟩ := isInstruction_some hi
  have T := fun b1nz small => table_all proc ver hc op hop m8 x8 brk b1nz small
  simp only [rowCheck, hinfo, Bool.and_eq_true, decide_eq_true_eq] at T
  have hn3 : i.n ≤ 3 := (T false true).1
  by_cases hmov : i.mov = true
  · -- block move
    have T0 := (T false true).2
    simp only [hmov, if_true, Bool.and_eq_true, beq_iff_eq] at T0
    obtain ⟨hn2, hcode⟩ := T0
    rcases tl with _ | ⟨a, _ | ⟨b, tl⟩⟩
    · simp [hn2] at hlen
    · simp [hn2] at hlen
    · have ha : a < 256 := hb a (by simp)
      have hb' : b < 256 := hb b (by simp)
      simp only [pushInstruction, hmov, if_true, lineBytes]
      split at hcode
      · rename_i r rs hr
        simp only [hr, hn2]
        simp at hcode
        simp [hcode, Nat.mod_eq_of_lt ha, Nat.mod_eq_of_lt hb']
      · simp at hcode
  · have hmov' : i.mov = false := by simpa using hmov
    by_cases hn0 : i.n = 0
    · -- no operand
      have T0 := (T false true).2
      simp only [hmov', hn0, Bool.false_eq_true, if_false, beq_self_eq_true, if_true] at T0
      simp only [pushInstruction, hmov', hn0, Bool.false_eq_true, if_false, Nat.lt_irrefl, lineBytes, List.take_zero]
      split at T0
      · rename_i r hr
        simp at T0
        simp [hr, T0]
      · simp at T0
    · have hnpos : i.n > 0 := Nat.pos_of_ne_zero hn0
      have hbeq : (i.n == 0) = false := by simpa using hn0
      have hlt : (tl.take i.n).length = i.n := by simp [List.length_take]; omega
      have hbt : ∀ x ∈ tl.take i.n, x < 256 := fun x hx => hb x (List.mem_of_mem_take hx)
      obtain ⟨hle4, hvlt⟩ := le4_take (tl.take i.n) (by omega) hbt
      rw [hlt] at hle4 hvlt
      by_cases hrel : modeIsRel i.row.mode = true
      · -- relative branch
        have Tr := fun b1nz => (T b1nz true).2
        simp only [hmov', hbeq, hrel, if_true, if_false, Bool.false_eq_true, Bool.and_eq_true,
          beq_iff_eq, Bool.not_eq_true'] at Tr
        simp only [pushInstruction, hmov', hnpos, hrel, if_true, if_false, Bool.false_eq_true]
        cases hra : relToAbs addr (leVal (tl.take i.n)) i.n with
        | none => simp [lineBytes]
        | some d =>
          simp only [lineBytes, asmInstr, asmShape]
          obtain ⟨⟨hnn, hw⟩, hS⟩ := Tr (decide ((d / 256) % 256 ≠ 0))
          split at hS
          · rename_i r beg end_ hshape
            simp only [Bool.and_eq_true, beq_iff_eq] at hS
            obtain ⟨hcode, hmode⟩ := hS
            have hn12 : i.n = 1 ∨ i.n = 2 := by
              rw [hnn]; split <;> simp
            obtain ⟨hab, hd⟩ := rel_roundtrip i.n addr _ d hn12 hvlt hra
            simp only [hshape]
            have hmr : (r.mode == Mode.rel || r.mode == Mode.rell) = true := by
              rw [hmode]; simpa [modeIsRel] using hrel
            simp only [hmr, if_true]
            have hn' : (if (r.mode == Mode.rel) = true then 1 else 2) = i.n := by
              rw [hmode, hnn]; simp
            rw [hn', absAddr_eq d _ hd, hab]
            simp [hcode, hle4]
          · simp at hS
      · -- operand value
        have hrel' : modeIsRel i.row.mode = false := by simpa using hrel
        generalize hv : leVal (tl.take i.n) = v at *
        have hn123 : i.n = 1 ∨ i.n = 2 ∨ i.n = 3 := by omega
        have hex : ((i.n == 1 && (decide ((v / 256) % 256 ≠ 0) || !decide (v < 0x100))) ||
            (i.n == 2 && (decide (v < 0x100) == decide ((v / 256) % 256 ≠ 0)))) = false := by
          rcases hn123 with h | h | h
          · rw [h] at hvlt; simp [h]; omega
          · rw [h] at hvlt; simp [h]; omega
          · simp [h]
        have Tv := (T (decide ((v / 256) % 256 ≠ 0)) (decide (v < 0x100))).2
        simp only [hmov', hbeq, hrel', hex, if_false, Bool.false_eq_true] at Tv
        have hsfx : sfxFor Quirks.fixed i.row.mnem i.n (decide (v < 0x100)) (decide (v < 0x10000))
            = sfxFor Quirks.fixed i.row.mnem i.n (decide (v < 0x100)) true := by
          simp [sfxFor, Quirks.fixed]
        simp only [pushInstruction, hmov', hnpos, hrel', if_true, if_false, Bool.false_eq_true, hv,
          lineBytes, asmInstr, asmShape, hsfx]
        split at Tv
        · rename_i r beg end_ hshape
          simp only [Bool.and_eq_true, beq_iff_eq, Bool.not_eq_true', Bool.or_eq_false_iff] at Tv
          obtain ⟨⟨⟨hcode, hbeg⟩, hend⟩, hnr⟩ := Tv
          have hp : (if snippetIsImm i.row.mode i.wide = true then Pfx.hash
              else if (decide (i.n = 3) && abslPrefixable i.row.mnem) = true then Pfx.gt else Pfx.none) = pfxFor i := by
            simp [pfxFor]
          simp only [hp, hshape]
          simp [hnr.1, hnr.2, hcode, hbeg, hend, hle4]
        · simp at Tv

/-- the line of an instruction starts at the instruction and claims exactly the bytes consumed -/
theorem instr_span (cfg : Cfg) (q : Quirks) (addr op : Nat) (tl : List Nat) (i : Info) (hop : op < 256)
    (hi : isInstruction cfg (op :: tl) = some i) :
    (pushInstruction q addr op tl i).1.addr = addr ∧ (pushInstruction q addr op tl i).1.len = 1 + i.n
      ∧ (pushInstruction q addr op tl i).2 = 1 + i.n := by
  obtain ⟨proc, m8, x8, brk⟩ := cfg
  obtain ⟨hinfo, hlen⟩ := isInstruction_some hi
  have hc : compat proc (if proc = .p65816 then .m16 else .m8) = true := by cases proc <;> simp [compat]
  have T := fun b1nz small => table_all proc _ hc op hop m8 x8 brk b1nz small
  simp only [rowCheck, hinfo, Bool.and_eq_true, decide_eq_true_eq] at T
  have hn3 : i.n ≤ 3 := (T false true).1
  by_cases hmov : i.mov = true
  · have T0 := (T false true).2
    simp only [hmov, if_true, Bool.and_eq_true, beq_iff_eq] at T0
    obtain ⟨hn2, _⟩ := T0
    rcases tl with _ | ⟨a, _ | ⟨b, tl⟩⟩
    · simp [hn2] at hlen
    · simp [hn2] at hlen
    · simp [pushInstruction, hmov, Line.addr, Line.len, Opnd.len, hn2]
  · have hmov' : i.mov = false := by simpa using hmov
    by_cases hn0 : i.n = 0
    · simp [pushInstruction, hmov', hn0, Line.addr, Line.len, Opnd.len]
    · have hnpos : i.n > 0 := Nat.pos_of_ne_zero hn0
      have hbeq : (i.n == 0) = false := by simpa using hn0
      have hlt : (tl.take i.n).length = i.n := by simp [List.length_take]; omega
      by_cases hrel : modeIsRel i.row.mode = true
      · have Tr := (T false true).2
        simp only [hmov', hbeq, hrel, if_true, if_false, Bool.false_eq_true, Bool.and_eq_true,
          beq_iff_eq, Bool.not_eq_true'] at Tr
        obtain ⟨⟨hnn, _⟩, _⟩ := Tr
        simp only [pushInstruction, hmov', hnpos, hrel, if_true, if_false, Bool.false_eq_true]
        cases hra : relToAbs addr (leVal (tl.take i.n)) i.n with
        | none => simp [Line.addr, Line.len, hlt]; omega
        | some d =>
          simp only [Line.addr, Line.len, true_and, and_true]
          have : i.row.mode = .rel ∨ i.row.mode = .rell := by simpa [modeIsRel] using hrel
          rcases this with h | h <;> simp [h] at hnn ⊢ <;> omega
      · have hrel' : modeIsRel i.row.mode = false := by simpa using hrel
        simp [pushInstruction, hmov', hnpos, hrel', Line.addr, Line.len, Opnd.len]

/-- the lines tile `[a, b)`: each starts where the previous one ended and covers at least one byte -/
def Contig : Nat → List Line → Nat → Prop
  | a, [], b => a = b
  | a, l :: ls, b => l.addr = a ∧ 1 ≤ l.len ∧ Contig (a + l.len) ls b

theorem pure_go (cfg : Cfg) (ver : Ver) (hc : compat cfg.proc ver = true) :
    ∀ (fuel addr : Nat) (rest : List Nat), rest.length ≤ fuel → (∀ x ∈ rest, x < 256) →
      pureCode cfg fuel rest = true →
      asmAll Quirks.fixed ⟨cfg.proc, ver, cfg.m8, cfg.x8⟩ addr (go Quirks.fixed cfg fuel addr rest) = .ok rest
      ∧ Contig addr (go Quirks.fixed cfg fuel addr rest) (addr + rest.length) := by
  intro fuel
  induction fuel with
  | zero =>
    intro addr rest hl _ _
    have : rest = [] := List.eq_nil_of_length_eq_zero (by omega)
    subst this
    simp [go, asmAll, Contig]
  | succ fuel ih =>
    intro addr rest hl hb hp
    rcases rest with _ | ⟨op, tl⟩
    · simp [go, asmAll, Contig]
    · simp only [pureCode] at hp
      cases hi : isInstruction cfg (op :: tl) with
      | none => simp [hi] at hp
      | some i =>
        simp only [hi] at hp
        have hop : op < 256 := hb op (by simp)
        have hbt : ∀ x ∈ tl, x < 256 := fun x hx => hb x (by simp [hx])
        obtain ⟨hrt, hk⟩ := instr_roundtrip cfg ver addr op tl i hc hop hbt hi
        obtain ⟨ha, hlen, _⟩ := instr_span cfg Quirks.fixed addr op tl i hop hi
        obtain ⟨_, hnl⟩ := isInstruction_some hi
        have hdrop : (op :: tl).drop (1 + i.n) = tl.drop i.n := by
          rw [Nat.add_comm]; rfl
        rw [hdrop] at hp
        have hl' : (tl.drop i.n).length ≤ fuel := by simp at hl ⊢; omega
        have hb' : ∀ x ∈ tl.drop i.n, x < 256 := fun x hx => hbt x (List.mem_of_mem_drop hx)
        obtain ⟨ih1, ih2⟩ := ih (addr + (1 + i.n)) (tl.drop i.n) hl' hb' hp
        have hstep : step Quirks.fixed cfg addr (op :: tl) = pushInstruction Quirks.fixed addr op tl i := by
          simp [step, hi]
        have hlt : (tl.take i.n).length = i.n := by simp [List.length_take]; omega
        constructor
        · simp only [go, hstep, hk, hdrop, asmAll, hrt]
          simp only [Quirks.fixed, Bool.false_and, Bool.false_eq_true, if_false, Nat.add_zero, List.length_cons, hlt]
          rw [show i.n + 1 = 1 + i.n by omega]
          simp only [Quirks.fixed] at ih1
          rw [ih1]
          simp
        · simp only [go, hstep, hk, hdrop, Contig, ha, hlen, true_and]
          refine ⟨by omega, ?_⟩
          have : addr + (op :: tl).length = addr + (1 + i.n) + (tl.drop i.n).length := by
            simp; omega
          rw [this]; exact ih2

structure ScanInv (len i : Nat) (s : Scan) : Prop where
  hi : i ≤ len
  pos : s.pos ≤ i
  neg : s.neg ≤ i
  uni : s.uni = 0 ∨ s.uni + 1 ≤ i
  p2 : s.p2 = 0 ∨ s.p2 + 2 ≤ i
  p4 : s.p4 = 0 ∨ s.p4 + 4 ≤ i

theorem scanStep_inv (rest : List Nat) (i : Nat) (s : Scan) (h : ScanInv rest.length i s) (hi : i < rest.length) :
    ScanInv rest.length (i + 1) (scanStep rest i s) := by
  obtain ⟨h1, h2, h3, h4, h5, h6⟩ := h
  refine ⟨by omega, ?_, ?_, ?_, ?_, ?_⟩
  all_goals (simp only [scanStep]; split)
  all_goals (first | omega | (simp_all; omega))

theorem scan_inv (rest : List Nat) : ∀ (fuel i : Nat) (s : Scan), ScanInv rest.length i s →
    ∃ j, ScanInv rest.length j (scan rest fuel i s) := by
  intro fuel
  induction fuel with
  | zero => intro i s h; exact ⟨i, h⟩
  | succ fuel ih =>
    intro i s h
    simp only [scan]
    split
    · rename_i hc
      simp only [Bool.and_eq_true, decide_eq_true_eq] at hc
      exact ih (i + 1) _ (scanStep_inv rest i s h hc.1)
    · exact ⟨i, h⟩

/-- what one turn of the disassembly loop must satisfy for the lines to tile the range -/
def StepOk (r : Line × Nat) (addr : Nat) (rest : List Nat) : Prop :=
  r.1.addr = addr ∧ r.1.len = r.2 ∧ 1 ≤ r.2 ∧ r.2 ≤ rest.length

theorem pushString_ok (addr : Nat) (neg : Bool) (chars : List Nat) (la : Option Nat) :
    (pushString addr neg chars la).1.addr = addr ∧
    (pushString addr neg chars la).1.len = (pushString addr neg chars la).2 ∧
    chars.length ≤ (pushString addr neg chars la).2 ∧
    (pushString addr neg chars la).2 ≤ chars.length + (if la.isSome then 1 else 0) := by
  unfold pushString
  cases la with
  | none => simp [Line.addr, Line.len]
  | some x =>
    by_cases h0 : (x == 0) = true
    · simp [h0, Line.addr, Line.len]
    · by_cases h1 : probablyString x (if neg = true then 0 else 128) = true
      · simp [h0, h1, Line.addr, Line.len]
      · simp [h0, h1, Line.addr, Line.len]

theorem tryDataRun_ok (addr : Nat) (rest : List Nat) (r : Line × Nat)
    (h : tryDataRun addr rest = some r) : StepOk r addr rest := by
  obtain ⟨j, hinv⟩ := scan_inv rest rest.length 0 {} ⟨by omega, by simp, by simp, by simp, by simp, by simp⟩
  obtain ⟨h1, h2, h3, h4, h5, h6⟩ := hinv
  simp only [tryDataRun] at h
  generalize scan rest rest.length 0 {} = s at *
  have huni : (if s.uni > 0 then s.uni + 1 else 0) ≤ j := by split <;> omega
  have hp2 : (if s.p2 > 0 then (s.p2 + 2) - (s.p2 + 2) % 2 else 0) ≤ j ∧
      (if s.p2 > 0 then (s.p2 + 2) - (s.p2 + 2) % 2 else 0) % 2 = 0 := by split <;> omega
  have hp4 : (if s.p4 > 0 then (s.p4 + 4) - (s.p4 + 4) % 4 else 0) ≤ j ∧
      (if s.p4 > 0 then (s.p4 + 4) - (s.p4 + 4) % 4 else 0) % 4 = 0 := by split <;> omega
  generalize (if s.uni > 0 then s.uni + 1 else 0) = uni at *
  generalize (if s.p2 > 0 then (s.p2 + 2) - (s.p2 + 2) % 2 else 0) = p2 at *
  generalize (if s.p4 > 0 then (s.p4 + 4) - (s.p4 + 4) % 4 else 0) = p4 at *
  split at h
  · rename_i hc
    obtain rfl := Option.some.inj h
    simp at hc
    simp only [StepOk, Line.addr, Line.len, true_and]
    omega
  · split at h
    · rename_i _ hc
      obtain rfl := Option.some.inj h
      simp at hc
      have hl2 : (rest.take 2).length = 2 := by simp [List.length_take]; omega
      simp only [StepOk, Line.addr, Line.len, true_and, hl2]
      omega
    · split at h
      · rename_i _ _ hc
        obtain rfl := Option.some.inj h
        simp at hc
        have hl4 : (rest.take 4).length = 4 := by simp [List.length_take]; omega
        simp only [StepOk, Line.addr, Line.len, true_and, hl4]
        omega
      · split at h
        · rename_i _ _ _ hc
          obtain rfl := Option.some.inj h
          obtain ⟨a1, a2, a3, a4⟩ := pushString_ok addr false (rest.take s.pos) (rest[s.pos]?)
          have hl : (rest.take s.pos).length = s.pos := by simp [List.length_take]; omega
          rw [hl] at a3 a4
          refine ⟨a1, a2, by omega, ?_⟩
          cases hla : rest[s.pos]? with
          | none => simp [hla] at a4; omega
          | some x =>
            have : s.pos < rest.length := by
              rcases List.getElem?_eq_some_iff.mp hla with ⟨hh, _⟩; exact hh
            simp [hla] at a4; omega
        · split at h
          · rename_i _ _ _ _ hc
            obtain rfl := Option.some.inj h
            have hl : ((rest.take s.neg).map (· - 128)).length = s.neg := by simp [List.length_take]; omega
            generalize (rest.take s.neg).map (· - 128) = chars at *
            obtain ⟨a1, a2, a3, a4⟩ := pushString_ok addr true chars (rest[s.neg]?)
            rw [hl] at a3 a4
            refine ⟨a1, a2, by omega, ?_⟩
            cases hla : rest[s.neg]? with
            | none => simp [hla] at a4; omega
            | some x =>
              have : s.neg < rest.length := by
                rcases List.getElem?_eq_some_iff.mp hla with ⟨hh, _⟩; exact hh
              simp [hla] at a4; omega
          · simp at h

theorem step_ok (q : Quirks) (cfg : Cfg) (addr : Nat) (rest : List Nat) (hne : rest ≠ [])
    (hb : ∀ x ∈ rest, x < 256) : StepOk (step q cfg addr rest) addr rest := by
  rcases rest with _ | ⟨op, tl⟩
  · exact absurd rfl hne
  · simp only [step]
    cases hi : isInstruction cfg (op :: tl) with
    | some i =>
      obtain ⟨a1, a2, a3⟩ := instr_span cfg q addr op tl i (hb op (by simp)) hi
      obtain ⟨_, hl⟩ := isInstruction_some hi
      refine ⟨a1, by rw [a2, a3], by rw [a3]; omega, ?_⟩
      rw [a3]; simp; omega
    | none =>
      simp only []
      cases hd : tryDataRun addr (op :: tl) with
      | some r => exact tryDataRun_ok addr (op :: tl) r hd
      | none => simp [StepOk, Line.addr, Line.len]

theorem go_contig (q : Quirks) (cfg : Cfg) :
    ∀ (fuel addr : Nat) (rest : List Nat), rest.length ≤ fuel → (∀ x ∈ rest, x < 256) →
      Contig addr (go q cfg fuel addr rest) (addr + rest.length) := by
  intro fuel
  induction fuel with
  | zero =>
    intro addr rest hl _
    have : rest = [] := List.eq_nil_of_length_eq_zero (by omega)
    subst this
    simp [go, Contig]
  | succ fuel ih =>
    intro addr rest hl hb
    rcases rest with _ | ⟨op, tl⟩
    · simp [go, Contig]
    · obtain ⟨s1, s2, s3, s4⟩ := step_ok q cfg addr (op :: tl) (by simp) hb
      simp only [go, Contig]
      refine ⟨s1, by omega, ?_⟩
      have hl' : ((op :: tl).drop (step q cfg addr (op :: tl)).2).length ≤ fuel := by
        simp only [List.length_drop]; simp at hl ⊢; omega
      have hb' : ∀ x ∈ (op :: tl).drop (step q cfg addr (op :: tl)).2, x < 256 :=
        fun x hx => hb x (List.mem_of_mem_drop hx)
      have := ih (addr + (step q cfg addr (op :: tl)).2) _ hl' hb'
      rw [s2]
      have e : addr + (step q cfg addr (op :: tl)).2 + ((op :: tl).drop (step q cfg addr (op :: tl)).2).length
          = addr + (op :: tl).length := by
        simp only [List.length_drop]; omega
      rw [e] at this; exact this

end A2Verif.C15
