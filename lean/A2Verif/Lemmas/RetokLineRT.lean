import A2Verif.Lemmas.RetokLine
/-! C14 round 4: the whole-line round trip (induction over the items of a line) -/
namespace A2Verif.Detok
open A2Verif.Gen.Tokens

theorem len255 : aMaxLineLength = 255 := rfl

/-- **One line.**  For every body in the class (`classBody 0`), in front of any rest of the image:
the detokenizer's line loop consumes exactly the body and stops at its `00`, printing some text `txt`;
and the reference tokenizer reads `txt` + end of line back as `stripBody 0 body`. -/
theorem line_roundtrip : ∀ (k : Nat) (body : List Nat), body.length ≤ k → classBody 0 body = true →
    ∀ (tl : List Nat) (n fuel : Nat), body.length < fuel → n + body.length < 255 →
    ∃ txt, lineA fuel (body ++ 0 :: tl) n = .ok (txt, 0 :: tl) ∧
      (∀ (w : List Nat) (fuel2 : Nat), txt.length < fuel2 →
        codeA fuel2 (txt ++ 10 :: w) = .ok (stripBody 0 body, w)) ∧
      (body = [] → txt = []) ∧ (∀ z, body = 58 :: z → ∃ t', txt = 58 :: t') := by
  intro k
  induction k with
  | zero =>
    intro body hk _ tl n fuel hf _
    have : body = [] := by cases body with
      | nil => rfl
      | cons _ _ => simp at hk
    subst this
    obtain ⟨f, rfl⟩ : ∃ f, fuel = f + 1 := ⟨fuel - 1, by simp at hf; omega⟩
    refine ⟨[], by simp [lineA_end], ?_, fun _ => rfl, by intro z hz; simp at hz⟩
    intro w fuel2 h2
    obtain ⟨g, rfl⟩ : ∃ g, fuel2 = g + 1 := ⟨fuel2 - 1, by simp at h2; omega⟩
    simp [codeA_nl, stripBody]
  | succ k ih =>
    intro body hk hc tl n fuel hf hn
    cases body with
    | nil => exact ih [] (by simp) hc tl n fuel hf hn
    | cons b rest =>
      obtain ⟨f, rfl⟩ : ∃ f, fuel = f + 1 := ⟨fuel - 1, by simp at hf; omega⟩
      have hbytes := classBody_bytes _ _ hc
      have hb := hbytes b (by simp)
      have hrestb : ∀ x ∈ rest, x < 256 ∧ x ≠ 0 := fun x hx => hbytes x (by simp [hx])
      have hrest0 : ∀ x ∈ rest, x ≠ 0 := fun x hx => (hrestb x hx).2
      have hrest256 : ∀ x ∈ rest, x < 256 := fun x hx => (hrestb x hx).1
      simp only [List.length_cons] at hk hf hn
      have hn255 : n < 255 := by omega
      rw [classBody] at hc
      simp only [Bool.and_eq_true, decide_eq_true_eq, bne_iff_ne, ne_eq] at hc
      obtain ⟨_, hc⟩ := hc
      by_cases hq : b = 34
      · ------------------------------------------------------------------ string
        subst hq
        simp [aQuote] at hc
        have hsplit := (spanA_split .str (termOf .str) rest 1).1
        have hesc := escA_spanA .str tl rest 1 hrest0
        have hstrip := stripBody_str rest 1 hrest0
        rcases classBody_str rest 1 hc with hr2 | ⟨z, hr2, hz⟩
        · -- unterminated string: runs to the end of the line
          rw [hr2] at hesc hstrip hsplit
          simp only [List.append_nil] at hsplit
          obtain ⟨f', rfl⟩ : ∃ f', f = f' + 1 := ⟨f - 1, by omega⟩
          refine ⟨[34] ++ escP (spanA .str (termOf .str) 1 rest).1, ?_, ?_, by intro h; simp at h,
            by intro z hz; simp at hz⟩
          · exact lineA_str_open f' n _ _ tl hn255 hesc
          · intro w fuel2 h2
            obtain ⟨g, rfl⟩ : ∃ g, fuel2 = g + 1 + 1 := ⟨fuel2 - 2, by simp at h2; omega⟩
            have hsp := spanT_escP .str rest 1 (10 :: w) hrest256 (fun _ => ⟨w, rfl⟩)
              (by intro c z hcz; rw [hr2] at hcz; simp at hcz)
            simp only [List.cons_append, List.nil_append]
            rw [codeA_str_open g _ _ _ hsp, unescA_escP _ (by rw [hsplit]; exact hrest256)]
            simp [stripBody, aQuote, hstrip]
        · -- closed string, then code again
          rw [hr2] at hesc hstrip hsplit
          have hlen : rest.length = (spanA .str (termOf .str) 1 rest).1.length + 1 + z.length := by
            conv => lhs; rw [← hsplit]
            simp; omega
          have hp256 : ∀ x ∈ (spanA .str (termOf .str) 1 rest).1, x < 256 := by
            intro x hx; exact hrest256 x (by rw [← hsplit]; simp [hx])
          obtain ⟨txt', i1, i2, _, _⟩ := ih z (by omega) hz tl
            (n + ((34 :: (rest ++ 0 :: tl)).length - (z ++ 0 :: tl).length)) f (by omega)
            (by simp; omega)
          refine ⟨[34] ++ escP (spanA .str (termOf .str) 1 rest).1 ++ [34] ++ txt', ?_, ?_,
            by intro h; simp at h, by intro z hz; simp at hz⟩
          · have := lineA_str_closed f n (rest ++ 0 :: tl) _ (z ++ 0 :: tl) hn255
              hesc
            simp only [List.cons_append] at this ⊢
            rw [this, i1]; simp [Outcome.map]
          · intro w fuel2 h2
            obtain ⟨g, rfl⟩ : ∃ g, fuel2 = g + 1 := ⟨fuel2 - 1, by simp at h2; omega⟩
            have hsp := spanT_escP .str rest 1 (34 :: (txt' ++ 10 :: w)) hrest256
              (by intro h; rw [hr2] at h; simp at h)
              (by intro c z' hcz; rw [hr2] at hcz; simp at hcz; exact ⟨Or.inl hcz.1.symm, _, by rw [hcz.1]⟩)
            simp only [List.cons_append, List.nil_append, List.append_assoc]
            rw [codeA_str_closed g _ _ _ hsp, i2 w g (by simp at h2; omega), unescA_escP _ hp256]
            simp [Outcome.map, stripBody, aQuote, hstrip]
      · by_cases hrem : b = 178
        · ---------------------------------------------------------------- REM
          subst hrem
          simp [aQuote, aRemTok] at hc
          have hspan := spanA_rem_all rest 0 hrest0
          have hesc := escA_spanA .rem tl rest 0 hrest0
          rw [hspan] at hesc
          simp only [List.nil_append] at hesc
          obtain ⟨f', rfl⟩ : ∃ f', f = f' + 1 := ⟨f - 1, by omega⟩
          refine ⟨[32, 82, 69, 77, 32] ++ escP rest, ?_, ?_, by intro h; simp at h,
            by intro z hz; simp at hz⟩
          · have := lineA_rem (f' + 1) n (rest ++ 0 :: tl) _ _ hn255 hesc
            simp only [List.cons_append] at this ⊢
            rw [this, lineA_end]; simp [Outcome.map]
          · intro w fuel2 h2
            obtain ⟨g, rfl⟩ : ∃ g, fuel2 = g + 1 + 1 := ⟨fuel2 - 2, by simp at h2; omega⟩
            have hdrop : ∀ x ∈ dropBlanks rest, x < 256 ∧ x ≠ 0 :=
              fun x hx => hrestb x (dropBlanks_subset rest x hx)
            have hsp := spanT_escP .rem (dropBlanks rest) 0 (10 :: w) (fun x hx => (hdrop x hx).1)
              (fun _ => ⟨w, rfl⟩)
              (by intro c z hcz; rw [spanA_rem_all _ _ (fun x hx => (hdrop x hx).2)] at hcz; simp at hcz)
            rw [spanA_rem_all _ _ (fun x hx => (hdrop x hx).2)] at hsp
            simp only [List.cons_append, List.nil_append]
            rw [codeA_rem, dropBlanks_escP rest 10 w (by decide), hsp]
            simp only []
            rw [codeA_nl, unescA_escP _ (fun x hx => (hdrop x hx).1)]
            simp [Outcome.map, stripBody, aQuote, aRemTok, stripBody_rem_head]
        · by_cases hdata : b = 131
          · -------------------------------------------------------------- DATA
            subst hdata
            simp [aQuote, aRemTok, aDataTok] at hc
            have hsplit := (spanA_split .data (termOf .data) rest 0).1
            have hesc := escA_spanA .data tl rest 0 hrest0
            have hstrip := stripBody_data_head rest hrest0
            have hdropspan := spanA_dropBlanks .data rest 0
            have hdrop256 : ∀ x ∈ dropBlanks rest, x < 256 :=
              fun x hx => hrest256 x (dropBlanks_subset rest x hx)
            have hlen : rest.length = (spanA .data (termOf .data) 0 rest).1.length +
                (spanA .data (termOf .data) 0 rest).2.length := by
              conv => lhs; rw [← hsplit]
              simp
            have hp256 : ∀ x ∈ dropBlanks (spanA .data (termOf .data) 0 rest).1, x < 256 := by
              intro x hx
              exact hrest256 x (by rw [← hsplit]; simp [dropBlanks_subset _ x hx])
            have hr2c : classBody 0 (spanA .data (termOf .data) 0 rest).2 = true := by
              rcases classBody_data rest 0 (by simpa using hc) with h | ⟨z, h, hz⟩
              · rw [h]; simp [classBody]
              · rw [h]; exact classBody_colon z hz
            obtain ⟨txt', i1, i2, i3, i4⟩ := ih _ (by omega) hr2c tl
              (n + ((131 :: (rest ++ 0 :: tl)).length - ((spanA .data (termOf .data) 0 rest).2 ++ 0 :: tl).length))
              f (by omega) (by simp; omega)
            refine ⟨[32, 68, 65, 84, 65, 32] ++ escP (spanA .data (termOf .data) 0 rest).1 ++ txt', ?_, ?_,
              by intro h; simp at h, by intro z hz; simp at hz⟩
            · have := lineA_data f n (rest ++ 0 :: tl) _ _ hn255 hesc
              simp only [List.cons_append] at this ⊢
              rw [this, i1]; simp [Outcome.map]
            · intro w fuel2 h2
              obtain ⟨g, rfl⟩ : ∃ g, fuel2 = g + 1 := ⟨fuel2 - 1, by simp at h2; omega⟩
              have hg : txt'.length < g := by simp at h2; omega
              have key : ∀ c W', txt' ++ 10 :: w = c :: W' → c ≠ 32 →
                  ((spanA .data (termOf .data) 0 rest).2 = [] → c = 10) →
                  (∀ c' z', (spanA .data (termOf .data) 0 rest).2 = c' :: z' → c' = 58 ∧ c = 58) →
                  codeA (g + 1) (([32, 68, 65, 84, 65, 32] ++ escP (spanA .data (termOf .data) 0 rest).1 ++ txt') ++ 10 :: w)
                    = .ok (stripBody 0 (131 :: rest), w) := by
                intro c W' hW hc32 hnil hcons
                have hsp := spanT_escP .data (dropBlanks rest) 0 (c :: W') hdrop256
                  (by rw [hdropspan]; intro h; exact ⟨W', by rw [hnil h]⟩)
                  (by
                    rw [hdropspan]; intro c' z' h
                    obtain ⟨a, b⟩ := hcons c' z' h
                    exact ⟨Or.inr a, W', by rw [a, b]⟩)
                rw [hdropspan] at hsp
                simp only [List.cons_append, List.nil_append, List.append_assoc]
                rw [codeA_data, hW, dropBlanks_escP _ c W' hc32, hsp]
                simp only []
                rw [← hW, i2 w g hg, unescA_escP _ hp256]
                simp [Outcome.map, stripBody, aQuote, aRemTok, aDataTok, hstrip]
              rcases classBody_data rest 0 (by simpa using hc) with h | ⟨z, h, hz⟩
              · have ht := i3 h
                subst ht
                exact key 10 w rfl (by decide) (fun _ => rfl) (by intro c' z' h'; rw [h] at h'; simp at h')
              · obtain ⟨t', ht⟩ := i4 z h
                subst ht
                exact key 58 (t' ++ 10 :: w) rfl (by decide) (by intro h'; rw [h] at h'; simp at h')
                  (by intro c' z' h'; rw [h] at h'; simp at h'; exact ⟨h'.1.symm, rfl⟩)
          · by_cases htok : b > 127
            · ------------------------------------------------------------ keyword token
              have hex : ∃ tok, applesoftDetok.lookup b = some tok := by
                cases htk : applesoftDetok.lookup b with
                | none => simp [aQuote, aRemTok, aDataTok, hq, hrem, hdata, htok, htk] at hc
                | some tok => exact ⟨tok, rfl⟩
              obtain ⟨tok, htk⟩ := hex
              simp [aQuote, aRemTok, aDataTok, hq, hrem, hdata, htok, htk] at hc
              have hcr := hc
              obtain ⟨kl, kb⟩ := kw_entry b tok htk
              obtain ⟨txt', i1, i2, _, _⟩ := ih rest (by omega) hcr tl (n + 1) f (by omega) (by omega)
              refine ⟨[32] ++ upper tok ++ [32] ++ txt', ?_, ?_, by intro h; simp at h,
                by intro z hz; simp at hz; omega⟩
              · simp only [List.cons_append]
                rw [lineA_tok f b n _ tok hn255 htok hrem hdata htk, i1]; simp [Outcome.map]
              · intro w fuel2 h2
                obtain ⟨g, rfl⟩ : ∃ g, fuel2 = g + 1 := ⟨fuel2 - 1, by simp at h2; omega⟩
                simp only [List.cons_append, List.nil_append, List.append_assoc]
                rw [codeA_kw g b (upper tok) _ kb kl hrem hdata, i2 w g (by simp at h2; omega)]
                simp [Outcome.map, stripBody, aQuote, aRemTok, aDataTok, hq, hrem, hdata]
            · ------------------------------------------------------------ code character
              simp [aQuote, aRemTok, aDataTok, hq, hrem, hdata, htok] at hc
              obtain ⟨hcc, hcr⟩ := hc
              obtain ⟨txt', i1, i2, _, _⟩ := ih rest (by omega) hcr tl (n + 1) f (by omega) (by omega)
              refine ⟨b :: txt', ?_, ?_, by intro h; simp at h, ?_⟩
              · simp only [List.cons_append]
                rw [lineA_char f b n _ hb.2 hn255 hq (by omega), i1]; simp [Outcome.map]
              · intro w fuel2 h2
                obtain ⟨g, rfl⟩ : ∃ g, fuel2 = g + 1 := ⟨fuel2 - 1, by simp at h2; omega⟩
                simp only [List.cons_append]
                rw [codeA_char g b _ hcc, i2 w g (by simp at h2; omega)]
                simp [Outcome.map, stripBody, aQuote, aRemTok, aDataTok, hq, hrem, hdata]
              · intro z hz
                simp at hz
                exact ⟨txt', by rw [hz.1]⟩

end A2Verif.Detok
