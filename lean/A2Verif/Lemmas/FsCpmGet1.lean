import A2Verif.Lemmas.FsCpmBuild
/-!
# `build_files`: the `entries` map of every record is in ascending order of the data pointer (a `BTreeMap`)
-/
namespace A2Verif.FsCpm
open A2Verif.Fs.Cpm
open A2Verif.Read.Cpm (Dpb fileKey extNum)

/-- ascending data pointers, pairwise different -/
def EntSorted (l : List (Nat × Nat)) : Prop := l.Pairwise (fun a b => a.1 < b.1)

theorem insertEntry_sorted (k v : Nat) : ∀ {l : List (Nat × Nat)}, EntSorted l → EntSorted (insertEntry k v l)
  | [], _ => by unfold insertEntry EntSorted; simp
  | (k', v') :: rest, h => by
    unfold EntSorted at h ⊢
    rw [List.pairwise_cons] at h
    unfold insertEntry
    by_cases c1 : k < k'
    · rw [if_pos c1, List.pairwise_cons]
      refine ⟨fun p hp => ?_, List.pairwise_cons.2 h⟩
      rcases List.mem_cons.1 hp with rfl | hp
      · exact c1
      · have := h.1 p hp; simp only at this ⊢; omega
    · rw [if_neg c1]
      by_cases c2 : k = k'
      · rw [if_pos c2, List.pairwise_cons]
        exact ⟨fun p hp => by have := h.1 p hp; simp only at this ⊢; omega, h.2⟩
      · rw [if_neg c2, List.pairwise_cons]
        refine ⟨fun p hp => ?_, insertEntry_sorted k v h.2⟩
        rcases mem_insertEntry_sub hp with rfl | hp
        · simp only; omega
        · exact h.1 p hp

theorem upsert_sorted {key : Bytes} {mk : Unit → FileInfo} {step : FileInfo → R FileInfo} {ins : List (Nat × Nat) → List (Nat × Nat)}
    (hmk : (mk ()).entries = []) (hstep : ∀ fi fi', step fi = .ok fi' → fi'.entries = ins fi.entries)
    (hins : ∀ l, EntSorted l → EntSorted (ins l)) :
    ∀ {ans ans1 : List FileInfo}, (∀ fi ∈ ans, EntSorted fi.entries) → upsert key mk step ans = .ok ans1 → ∀ fi ∈ ans1, EntSorted fi.entries
  | [], ans1, _, h => by
    unfold upsert at h
    cases hs : step (mk ()) with
    | error e => rw [hs] at h; cases h
    | ok fi' =>
      rw [hs] at h
      cases h
      intro fi hfi
      rw [List.mem_singleton.1 hfi, hstep _ _ hs, hmk]
      exact hins _ List.Pairwise.nil
  | fi :: rest, ans1, hs0, h => by
    unfold upsert at h
    by_cases c0 : fi.key = key
    · rw [if_pos c0] at h
      cases hs : step fi with
      | error e => rw [hs] at h; cases h
      | ok fi' =>
        rw [hs] at h
        cases h
        intro g hg
        rcases List.mem_cons.1 hg with rfl | hg
        · rw [hstep _ _ hs]; exact hins _ (hs0 fi List.mem_cons_self)
        · exact hs0 g (List.mem_cons_of_mem _ hg)
    · rw [if_neg c0] at h
      cases hu : upsert key mk step rest with
      | error e => rw [hu] at h; cases h
      | ok rest1 =>
        rw [hu] at h
        cases h
        intro g hg
        rcases List.mem_cons.1 hg with rfl | hg
        · exact hs0 g List.mem_cons_self
        · exact upsert_sorted hmk hstep hins (fun x hx => hs0 x (List.mem_cons_of_mem _ hx)) hu g hg

theorem buildLoop_sorted (d : Dpb) (v3 : Bool) (dir : Dir) (lab : Option Bytes) : ∀ (es : List Bytes) (i bad : Nat) (ans ans' : List FileInfo),
    (∀ fi ∈ ans, EntSorted fi.entries) → buildLoop d v3 dir lab es i bad ans = .ok ans' → ∀ fi ∈ ans', EntSorted fi.entries := by
  intro es
  induction es with
  | nil =>
    intro i bad ans ans' hs h
    unfold buildLoop at h
    cases h
    exact hs
  | cons e rest ih =>
    intro i bad ans ans' hs h
    unfold buildLoop at h
    simp only [] at h
    generalize (if (!isNameValid (Ext.getString e)) = true then bad + 1 else bad) = bad' at h
    split at h
    · cases h
    · split at h
      · cases h
      · split at h
        next hext =>
          split at h
          · cases h
          · split at h
            · cases h
            · split at h
              · cases h
              next ans1 hup =>
                refine ih (i + 1) _ ans1 ans' ?_ h
                exact upsert_sorted (ins := insertEntry (Ext.dataPtr e) i) rfl (by
                  intro fi fi' hs'
                  split at hs'
                  · split at hs'
                    · split at hs'
                      · exact (tsGet_fields hs').2
                      · cases hs'; rfl
                    · cases hs'; rfl
                  · cases hs'; rfl) (fun l hl => insertEntry_sorted _ _ hl) hs hup
        next hext => exact ih (i + 1) _ ans ans' hs h

theorem buildFiles_sorted {d : Dpb} {v3 : Bool} {dir : Dir} {files : List FileInfo} (h : buildFiles d v3 dir = .ok files) :
    ∀ fi ∈ files, EntSorted fi.entries := by
  unfold buildFiles at h
  exact buildLoop_sorted d v3 dir (findLabel dir) dir 0 0 [] files (fun fi hfi => by cases hfi) h

end A2Verif.FsCpm
