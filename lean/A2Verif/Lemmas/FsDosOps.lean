import A2Verif.Lemmas.FsDosBytes
import A2Verif.Lemmas.FsDosRead
/-!
# The concrete DOS 3.x operations on a well-formed working state

`W.img` is the image a working state stands for (the raw image with the VTOC buffer written back — what
`get_img()` hands out).  Under `WOk` (geometry and VTOC sanity) sector reads return the sector of `W.img`,
sector writes replace one unit and clear one bitmap bit, and the directory walks of the Rust find exactly the
first matching entry of the catalog chain.  Core Lean only.
-/
set_option linter.unusedSimpArgs false
namespace A2Verif.Fs.Dos3x
open A2Verif.FsDos

/-! ## evaluating the monad -/

/-- did the operation report success -/
def isOk {α : Type} (r : R α) : Bool := match r with | .ok _ => true | .error _ => false

@[simp] theorem isOk_ok {α : Type} (a : α) : isOk (.ok a : R α) = true := rfl
@[simp] theorem isOk_error {α : Type} (e : Err) : isOk (.error e : R α) = false := rfl

@[simp] theorem M.bind_apply {α β : Type} (m : M α) (f : α → M β) (w : W) :
    (m >>= f) w = match m w with
      | (.ok a, w') => f a w'
      | (.error e, w') => (.error e, w') := rfl

@[simp] theorem M.pure_apply {α : Type} (a : α) (w : W) : (pure a : M α) w = (.ok a, w) := rfl
@[simp] theorem M.fail_apply {α : Type} (e : Err) (w : W) : (M.fail e : M α) w = (.error e, w) := rfl
@[simp] theorem M.lift_apply {α : Type} (x : R α) (w : W) : (M.lift x : M α) w = (x, w) := rfl
@[simp] theorem M.getV_apply (w : W) : M.getV w = (.ok w.v, w) := rfl

/-! ## well-formed working states -/

/-- the image a working state stands for -/
def W.img (w : W) : Raw := { w.raw with units := w.raw.units.setIfInBounds (vtocTrack * w.c) (quantize w.v) }

structure WOk (w : W) : Prop where
  hc : w.c = 13 ∨ w.c = 16
  size : w.raw.units.size = 35 * w.c
  vlen : w.v.length = 196
  vlt : ∀ x ∈ w.v, x < 256
  vTracks : Vtoc.tracks w.v = 35
  vSpt : Vtoc.sectors w.v = w.c
  vBps : Vtoc.bytesPerSector w.v = 256
  vPairs : Vtoc.maxPairs w.v = 122
  ulen : ∀ u, u < w.raw.units.size → (sec w.raw u).length = 256

theorem W.img_size (w : W) : w.img.units.size = w.raw.units.size := by simp [W.img]

theorem W.sec_img (w : W) (u : Nat) :
    sec w.img u = if u = vtocTrack * w.c ∧ u < w.raw.units.size then quantize w.v else sec w.raw u := by
  unfold sec W.img
  simp only [Array.getElem?_setIfInBounds]
  by_cases h : vtocTrack * w.c = u
  · subst h
    by_cases h2 : vtocTrack * w.c < w.raw.units.size
    · simp [h2]
    · simp [h2, Array.getElem?_eq_none (Nat.le_of_not_lt h2)]
  · have : ¬ (u = vtocTrack * w.c ∧ u < w.raw.units.size) := fun hh => h hh.1.symm
    simp [h, this]

theorem unit_idx {c t s : Nat} (hs : s < c) : (t * c + s = vtocTrack * c) ↔ (t = vtocTrack ∧ s = 0) := by
  constructor
  · intro h
    have h1 : (t * c + s) / c = t := by
      rw [Nat.mul_comm, Nat.mul_add_div (by omega), Nat.div_eq_of_lt hs, Nat.add_zero]
    have h2 : (vtocTrack * c) / c = vtocTrack := Nat.mul_div_cancel _ (by omega)
    have ht : t = vtocTrack := by rw [← h1, h, h2]
    subst ht
    exact ⟨rfl, by omega⟩
  · rintro ⟨rfl, rfl⟩; rfl

theorem unit_lt {c t s : Nat} (ht : t < 35) (hs : s < c) : t * c + s < 35 * c := by
  have : (t + 1) * c ≤ 35 * c := Nat.mul_le_mul_right c (by omega)
  rw [Nat.add_mul] at this
  omega

theorem imgTracks_eq {w : W} (h : WOk w) : imgTracks w.c w.raw = 35 := by
  unfold imgTracks
  rw [h.size]
  exact Nat.mul_div_cancel _ (by rcases h.hc with e | e <;> omega)

theorem imgRead_ok {w : W} (h : WOk w) {t s : Nat} (ht : t < 35) (hs : s < w.c) :
    imgRead w.c w.raw t s = .ok (sec w.raw (t * w.c + s)) := by
  unfold imgRead
  rw [imgTracks_eq h, if_neg (by omega)]
  have hu : t * w.c + s < w.raw.units.size := by rw [h.size]; exact unit_lt ht hs
  unfold sec
  rw [Array.getElem?_eq_getElem hu]
  rfl

theorem readSector_ok {w : W} (h : WOk w) {t s : Nat} {data : Bytes} (ht : t < 35) (hs : s < w.c) (hd : data.length = 256) :
    readSector w data t s = .ok (sec w.img (t * w.c + s)) := by
  have hu : t * w.c + s < w.raw.units.size := by rw [h.size]; exact unit_lt ht hs
  unfold readSector
  rw [h.vBps, hd, Nat.min_self, W.sec_img]
  by_cases hv : t = vtocTrack ∧ s = 0
  · rw [if_pos hv, if_pos ⟨(unit_idx hs).2 hv, hu⟩]
    simp only
    rw [if_neg (by rw [quantize_length]; omega), List.take_of_length_le (by rw [quantize_length]; omega),
      List.drop_of_length_le (by omega), List.append_nil]
  · rw [if_neg hv, if_neg (fun hh => hv ((unit_idx hs).1 hh.1)), imgRead_ok h ht hs]
    have hl := h.ulen _ hu
    simp only
    rw [if_neg (by omega), List.take_of_length_le (by omega), List.drop_of_length_le (by omega), List.append_nil]

theorem readSectorM_ok {w : W} (h : WOk w) {t s : Nat} {data : Bytes} (ht : t < 35) (hs : s < w.c) (hd : data.length = 256) :
    readSectorM data t s w = (.ok (sec w.img (t * w.c + s)), w) := by
  unfold readSectorM
  rw [readSector_ok h ht hs hd]

theorem sec_img_length {w : W} (h : WOk w) {u : Nat} (hu : u < w.raw.units.size) : (sec w.img u).length = 256 := by
  rw [W.sec_img]
  split
  · exact quantize_length _
  · exact h.ulen u hu


/-! ## the bitmap on a sane VTOC -/

/-- bit of sector `(t,s)` in the buffer: set = free -/
def bitFree (v : Bytes) (c t s : Nat) : Bool := (mapVal v t).testBit (s + 32 - c)

theorem effSec_eq {v : Bytes} {c s : Nat} (hv : Vtoc.sectors v = c) (hc : c = 13 ∨ c = 16) (hs : s < c) :
    effSec v s = .ok (s + 32 - c) := by
  unfold effSec
  rw [hv, if_neg (by rcases hc with rfl | rfl <;> omega)]

theorem allocate_eq {v : Bytes} {c t s : Nat} (hv : Vtoc.sectors v = c) (hc : c = 13 ∨ c = 16) (ht : t < 35) (hs : s < c) :
    allocate v t s = .ok (saveTrackMap v t (mapVal v t &&& ((1 <<< (s + 32 - c)) ^^^ u32Max))) := by
  unfold allocate
  rw [trackMap_eq ht, effSec_eq hv hc hs]

theorem deallocate_eq {v : Bytes} {c t s : Nat} (hv : Vtoc.sectors v = c) (hc : c = 13 ∨ c = 16) (ht : t < 35) (hs : s < c) :
    deallocate v t s = .ok (saveTrackMap v t (mapVal v t ||| (1 <<< (s + 32 - c)))) := by
  unfold deallocate
  rw [trackMap_eq ht, effSec_eq hv hc hs]

theorem isFree_eq {v : Bytes} {c t s : Nat} (hv : Vtoc.sectors v = c) (hc : c = 13 ∨ c = 16) (ht : t < 35) (hs : s < c) :
    isFree v t s = .ok (bitFree v c t s) := by
  unfold isFree bitFree
  rw [trackMap_eq ht, effSec_eq hv hc hs]
  simp only [and_bit_pos]

theorem testBit_high {m j : Nat} (hm : m < 4294967296) (hj : 32 ≤ j) : m.testBit j = false :=
  Nat.testBit_lt_two_pow (Nat.lt_of_lt_of_le hm (Nat.pow_le_pow_right (n := 2) (by decide) hj))

/-- marking a sector used that is already marked used leaves the buffer as it is -/
theorem allocate_same {v : Bytes} {c t s : Nat} (hl : v.length = 196) (hlt : ∀ x ∈ v, x < 256) (hv : Vtoc.sectors v = c)
    (hc : c = 13 ∨ c = 16) (ht : t < 35) (hs : s < c) (hb : bitFree v c t s = false) : allocate v t s = .ok v := by
  rw [allocate_eq hv hc ht hs]
  have hm := mapVal_lt hlt t
  have : mapVal v t &&& ((1 <<< (s + 32 - c)) ^^^ u32Max) = mapVal v t := by
    apply Nat.eq_of_testBit_eq
    intro j
    by_cases hj : j < 32
    · rw [testBit_clear hj]
      by_cases he : j = s + 32 - c
      · subst he; unfold bitFree at hb; rw [hb]; rfl
      · simp [he]
    · rw [testBit_high (clear_lt hm) (by omega), testBit_high hm (by omega)]
  rw [this, saveTrackMap_self hl hlt ht]

/-! ## sector writes -/

theorem imgWrite_ok {w : W} (h : WOk w) {t s : Nat} (ht : t < 35) (hs : s < w.c) (d : Bytes) :
    imgWrite w.c w.raw t s d = .ok { w.raw with units := w.raw.units.setIfInBounds (t * w.c + s) (quantize d) } := by
  unfold imgWrite
  have hu : t * w.c + s < w.raw.units.size := by rw [h.size]; exact unit_lt ht hs
  rw [imgTracks_eq h, if_neg (by omega), if_pos hu]

/-- the working state after `write_sector(data, [t,s], 0)` of a full sector that is not the VTOC -/
def W.wrote (w : W) (t s : Nat) (data v' : Bytes) : W :=
  { w with raw := { w.raw with units := w.raw.units.setIfInBounds (t * w.c + s) data }, v := v' }

theorem writeSectorM_ok {w : W} (h : WOk w) {t s : Nat} {data : Bytes} (ht : t < 35) (hs : s < w.c)
    (hne : ¬ (t = vtocTrack ∧ s = 0)) (hd : data.length = 256) :
    writeSectorM data t s w = (.ok (), w.wrote t s data
      (saveTrackMap w.v t (mapVal w.v t &&& ((1 <<< (s + 32 - w.c)) ^^^ u32Max)))) := by
  unfold writeSectorM
  simp only [M.bind_apply, if_neg hne, M.pure_apply, M.getV_apply]
  unfold zapM
  rw [imgWrite_ok h ht hs, h.vBps, hd, Nat.min_self, List.take_of_length_le (by omega), quantize_full hd]
  simp only
  unfold allocM M.modV
  simp only
  rw [allocate_eq h.vSpt h.hc ht hs]
  rfl

/-- … when the sector is already marked used (catalog sectors): only the image changes -/
theorem writeSectorM_used {w : W} (h : WOk w) {t s : Nat} {data : Bytes} (ht : t < 35) (hs : s < w.c)
    (hne : ¬ (t = vtocTrack ∧ s = 0)) (hd : data.length = 256) (hb : bitFree w.v w.c t s = false) :
    writeSectorM data t s w = (.ok (), w.wrote t s data w.v) := by
  rw [writeSectorM_ok h ht hs hne hd]
  have := allocate_same h.vlen h.vlt h.vSpt h.hc ht hs hb
  rw [allocate_eq h.vSpt h.hc ht hs] at this
  injection this with this
  rw [this]


/-! ## the directory walk -/

/-- first sector of the chain holding a live entry of that name: (track, sector, content, entry index) -/
def findIn (r : Raw) (c : Nat) (fname : Bytes) : List Nat → Option (Nat × Nat × Bytes × Nat)
  | [] => none
  | u :: rest =>
    match matchEntry (sec r u) fname with
    | some k => some (u / c, u % c, sec r u, k)
    | none => findIn r c fname rest

theorem verifyTs_ok {w : W} (h : WOk w) {t s : Nat} (ht : t < 35) (hs : s < w.c) : verifyTs w.v t s = .ok () := by
  unfold verifyTs
  rw [h.vTracks, h.vSpt, if_neg (by omega)]

theorem catChain_zero {r : Raw} {c : Nat} {cat : List Nat} (h : CatChain r c 0 0 cat) : cat = [] := by
  cases cat with
  | nil => rfl
  | cons u rest => exact absurd ⟨rfl, rfl⟩ h.1

theorem catChain_ne {r : Raw} {c t s : Nat} {cat : List Nat} (h : CatChain r c t s cat) (hne : ¬ (t = 0 ∧ s = 0)) : cat ≠ [] := by
  intro e; subst e; exact hne h

theorem div_mod_unit {c t s : Nat} (hs : s < c) : (t * c + s) / c = t ∧ (t * c + s) % c = s := by
  constructor
  · rw [Nat.mul_comm, Nat.mul_add_div (by omega), Nat.div_eq_of_lt hs, Nat.add_zero]
  · rw [Nat.mul_comm, Nat.mul_add_mod, Nat.mod_eq_of_lt hs]

theorem findLoop_ok {w : W} (h : WOk w) (fname : Bytes) : ∀ (cat : List Nat) (fuel t s : Nat) (buf : Bytes),
    CatChain w.img w.c t s cat → cat ≠ [] → cat.length ≤ fuel → buf.length = 256 →
    findLoop fname fuel t s buf w = (.ok (findIn w.img w.c fname cat), w) := by
  intro cat
  induction cat with
  | nil => intro _ _ _ _ _ hne; exact absurd rfl hne
  | cons u rest ih =>
    intro fuel t s buf hch _ hf hb
    obtain ⟨_, ht, hs, hu, hsz, hrest⟩ := hch
    cases fuel with
    | zero => simp at hf
    | succ n =>
      rw [W.img_size] at hsz
      have hbl : (sec w.img u).length = 256 := sec_img_length h hsz
      rw [findLoop]
      simp only [M.bind_apply, M.getV_apply, M.lift_apply, verifyTs_ok h ht hs, readSectorM_ok h ht hs hb, ← hu]
      have hfs : fullSector (sec w.img u) = .ok () := by unfold fullSector sectorSize; rw [if_neg (by omega)]
      simp only [hfs, findIn]
      cases hm : matchEntry (sec w.img u) fname with
      | some k =>
        rw [hu, (div_mod_unit hs).1, (div_mod_unit hs).2]
        rfl
      | none =>
        simp only [Dir.nextTrack, Dir.nextSector]
        by_cases hz : (sec w.img u).getD 1 0 = 0 ∧ (sec w.img u).getD 2 0 = 0
        · simp only [hz, and_self, ↓reduceIte]
          rw [hz.1, hz.2] at hrest
          rw [catChain_zero hrest]
          rfl
        · simp only [hz, ↓reduceIte]
          exact ih n _ _ _ hrest (catChain_ne hrest hz) (by simpa using hf) hbl

end A2Verif.Fs.Dos3x
