import A2Verif.Lemmas.C07Ibm
/-!
# C07, part 4b: physical sector lookup agrees between IMG and IMD/TD0 on every cylinder

`geomSector` searches the track records for (cylinder, head) and then the sector id list; on a
"regular" geometry (record `t` is cylinder `t / H`, head `t % H`, ids `1..=n`) this is the flat
IMG arithmetic.  Regularity of the generated geometries is `img_imd_same_layout` (by evaluation);
the lemma below is the general (all cylinders, all sector ids) part.
-/
namespace A2Verif.C07
open A2Verif.Gen A2Verif.Model.AddrMap
open A2Verif.Gen.C07 (LayoutName)
open A2Verif.Model.AddrMap.Out (ok err panic)

/-- a geometry in which track record `t` is cylinder `t / H`, head `t % H` and holds sector ids `1..=n` of `sz` bytes -/
def Regular (g : List TrackRec) (H n sz : Nat) : Prop :=
  ∀ t (ht : t < g.length), g[t].cyl = t / H ∧ g[t].head = t % H ∧
    g[t].ids = (List.range n).map (· + 1) ∧ 128 * 2 ^ g[t].shift = sz

theorem mem_ids_iff (n s : Nat) : ((List.range n).map (· + 1)).contains s = true ↔ 1 ≤ s ∧ s ≤ n := by
  rw [List.contains_iff_mem, List.mem_map]
  constructor
  · rintro ⟨a, ha, rfl⟩
    have := List.mem_range.mp ha
    omega
  · intro ⟨h1, h2⟩
    exact ⟨s - 1, List.mem_range.mpr (by omega), by omega⟩

theorem geomSector_regular (g : List TrackRec) (H n sz : Nat) (hH : 0 < H) (hreg : Regular g H n sz)
    (c h s : Nat) (hh : h < H) :
    geomSector g c h s = if c * H + h < g.length ∧ 1 ≤ s ∧ s ≤ n then ok sz else err := by
  unfold geomSector
  by_cases hlt : c * H + h < g.length
  · -- the record at index c*H+h is found
    have hidx := hreg (c * H + h) hlt
    have hdiv : (c * H + h) / H = c := by
      rw [Nat.mul_comm, Nat.mul_add_div hH, Nat.div_eq_of_lt hh, Nat.add_zero]
    have hmod : (c * H + h) % H = h := by
      rw [Nat.mul_comm, Nat.mul_add_mod, Nat.mod_eq_of_lt hh]
    have hfind : g.find? (fun t => decide (t.cyl = c ∧ t.head = h)) = some g[c * H + h] := by
      rw [List.find?_eq_some_iff_getElem]
      refine ⟨by simp [hidx.1, hidx.2.1, hdiv, hmod], c * H + h, hlt, rfl, ?_⟩
      intro j hj
      have hjl : j < g.length := Nat.lt_trans hj hlt
      have hr := hreg j hjl
      simp only [hr.1, hr.2.1, Bool.not_eq_true', decide_eq_false_iff_not, not_and]
      intro hc hm
      have : j = c * H + h := by
        have := Nat.div_add_mod j H
        rw [hc, hm] at this
        rw [← this, Nat.mul_comm]
      omega
    simp only [hfind, hidx.2.2.1, hidx.2.2.2, mem_ids_iff]
    by_cases hs : 1 ≤ s ∧ s ≤ n
    · simp [hs, hlt]
    · simp [hs]
  · -- no record has that cylinder and head
    have hnone : g.find? (fun t => decide (t.cyl = c ∧ t.head = h)) = none := by
      rw [List.find?_eq_none]
      intro x hx
      obtain ⟨i, hi, rfl⟩ := List.getElem_of_mem hx
      have hr := hreg i hi
      simp only [hr.1, hr.2.1, decide_eq_true_eq, not_and]
      intro hc hm
      have : i = c * H + h := by
        have := Nat.div_add_mod i H
        rw [hc, hm] at this
        rw [← this, Nat.mul_comm]
      omega
    rw [hnone]
    simp [hlt]

/-- `Img::read_sector` on a single-zone layout, in closed form (for a head the disk has; any other head is refused) -/
theorem imgSector_closed (ln : LayoutName) (c h s : Nat) (hh : h < ln.layout.sidesMax)
    (hz : ln.layout.trackCount = lat ln.layout.cylinders 0 * ln.layout.sidesMax) :
    (do let p ← imgSector ln c h s; pure p.2 : Out Nat) =
      if c * ln.layout.sidesMax + h < lat ln.layout.cylinders 0 * ln.layout.sidesMax ∧ 1 ≤ s ∧ s ≤ lat ln.layout.sectors 0
      then ok (lat ln.layout.sectorSize 0) else err := by
  unfold imgSector
  simp only []
  by_cases hcond : c * ln.layout.sidesMax + h < lat ln.layout.cylinders 0 * ln.layout.sidesMax ∧ 1 ≤ s ∧ s ≤ lat ln.layout.sectors 0
  · obtain ⟨h1, h2, h3⟩ := hcond
    have hno : ¬ (h ≥ ln.layout.sidesMax ∨ c * ln.layout.sidesMax + h ≥ lat ln.layout.cylinders 0 * ln.layout.sidesMax ∨ s < 1 ∨ s > lat ln.layout.sectors 0) := by omega
    rw [if_neg hno, if_pos ⟨h1, h2, h3⟩]
    unfold slice
    have hb : ((c * ln.layout.sidesMax + h) * lat ln.layout.sectors 0 + s - 1) * lat ln.layout.sectorSize 0 + lat ln.layout.sectorSize 0
        ≤ ln.layout.trackCount * lat ln.layout.sectors 0 * lat ln.layout.sectorSize 0 := by
      rw [hz]
      have h4 : (c * ln.layout.sidesMax + h) * lat ln.layout.sectors 0 + s - 1 + 1
          ≤ lat ln.layout.cylinders 0 * ln.layout.sidesMax * lat ln.layout.sectors 0 := by
        have h5 : (c * ln.layout.sidesMax + h + 1) * lat ln.layout.sectors 0
            ≤ lat ln.layout.cylinders 0 * ln.layout.sidesMax * lat ln.layout.sectors 0 :=
          Nat.mul_le_mul_right _ h1
        rw [Nat.add_mul, Nat.one_mul] at h5
        omega
      calc _ = ((c * ln.layout.sidesMax + h) * lat ln.layout.sectors 0 + s - 1 + 1) * lat ln.layout.sectorSize 0 :=
            (Nat.succ_mul _ _).symm
        _ ≤ _ := Nat.mul_le_mul_right _ h4
    rw [if_pos hb]
    rfl
  · have hyes : (h ≥ ln.layout.sidesMax ∨ c * ln.layout.sidesMax + h ≥ lat ln.layout.cylinders 0 * ln.layout.sidesMax ∨ s < 1 ∨ s > lat ln.layout.sectors 0) := by omega
    rw [if_pos hyes, if_neg hcond]
    rfl

/-- regularity of the generated IMD geometry, from the evaluated per-track facts -/
theorem imd_geometry_regular (ln : LayoutName) (hln : ln ∈ C07.ibmPatterns) :
    Regular (geom .imd ln) ln.layout.sidesMax (lat ln.layout.sectors 0) (lat ln.layout.sectorSize 0) := by
  have hall := (img_imd_same_layout ln hln).2.2.2
  intro t ht
  have := (List.all_eq_true.mp hall) t (List.mem_range.mpr ht)
  rw [List.getElem?_eq_getElem ht] at this
  simpa using this

/-- **IMG and IMD resolve every physical sector address alike** (every cylinder, every sector id, every
head the disk has): same sector size or both refuse.  With `imd_td0_same_sectors` this covers all three. -/
theorem img_imd_same_sectors :
    ∀ ln ∈ C07.ibmPatterns, 0 < ln.layout.sidesMax ∧
      ∀ c h s : Nat, h < ln.layout.sidesMax →
        ibmSector .img ln c h s = ibmSector .imd ln c h s := by
  intro ln hln
  have hH : 0 < ln.layout.sidesMax ∧ ln.layout.trackCount = lat ln.layout.cylinders 0 * ln.layout.sidesMax := by
    revert ln
    decide +kernel
  refine ⟨hH.1, ?_⟩
  intro c h s hh
  have hlen := (img_imd_same_layout ln hln).2.2.1
  simp only [ibmSector]
  rw [imgSector_closed ln c h s hh hH.2, geomSector_regular _ _ _ _ hH.1 (imd_geometry_regular ln hln) c h s hh, hlen]


open A2Verif.Gen A2Verif.Model.AddrMap
open A2Verif.Gen.C07 (LayoutName)
open A2Verif.Model.AddrMap.Out (ok err panic)

/-- every track record of the IMD geometry of an `ibm_patterns` layout has the same sector count and size shift -/
theorem imd_geometry_uniform :
    ∀ ln ∈ C07.ibmPatterns, 0 < (geom .imd ln).length ∧
      ((geom .imd ln).all fun r => r.nsec = lat ln.layout.sectors 0 ∧ r.shift = shiftOf (lat ln.layout.sectorSize 0)) = true := by
  decide +kernel

theorem checkUserArea_uniform (g : List TrackRec) (N S : Nat) (hpos : 0 < g.length)
    (hu : ∀ t (ht : t < g.length), g[t].nsec = N ∧ g[t].shift = S) (heads cyl : Nat) :
    checkUserArea g heads cyl 0 = if cyl * heads ≥ g.length then err else ok () := by
  unfold checkUserArea
  rw [List.getElem?_eq_getElem hpos]
  simp only []
  by_cases hge : cyl * heads ≥ g.length
  · simp [hge]
  · rw [if_neg hge, if_neg hge]
    split
    · rfl
    · rename_i hc
      exfalso
      apply hc
      rw [List.all_eq_true]
      intro k hk
      have hk' : k < g.length := by
        have := List.mem_range.mp hk
        omega
      rw [Nat.zero_add, List.getElem?_eq_getElem hk']
      simp [(hu k hk').1, (hu k hk').2, (hu 0 hpos).1, (hu 0 hpos).2]

theorem mapM'_congr {α β : Type} (f g : α → Out β) (xs : List α) (h : ∀ x ∈ xs, f x = g x) :
    Out.mapM' f xs = Out.mapM' g xs := by
  induction xs with
  | nil => rfl
  | cons a as ih =>
    simp only [Out.mapM']
    rw [h a (List.mem_cons_self ..), ih (fun x hx => h x (List.mem_cons_of_mem _ hx))]

theorem fatBlocking_heads (ts : List (Nat × Nat)) (heads : Nat) (chs : List (Nat × Nat × Nat))
    (h : fatBlocking ts heads = ok chs) : ∀ x ∈ chs, x.2.1 < heads := by
  unfold fatBlocking at h
  by_cases hh : heads < 1
  · simp [hh] at h
  · rw [if_neg hh] at h
    injection h with h
    subst h
    intro x hx
    obtain ⟨⟨t, l⟩, _, rfl⟩ := List.mem_map.mp hx
    by_cases h1 : heads = 1
    · simp [h1]
    · simp only [h1, if_false]
      exact Nat.mod_lt _ (by omega)

/-- **C07 for IMG vs IMD, every FAT cluster address** (in range or not): the same (cylinder, head,
sector id, length) list or refused alike.  With `imd_td0_same_pieces`, IMG, IMD and TD0 agree. -/
theorem img_imd_same_fat_pieces :
    ∀ ln ∈ C07.ibmPatterns, ∀ s n : Nat, ibmPieces .img ln (.fat s n) = ibmPieces .imd ln (.fat s n) := by
  intro ln hln s n
  have hlay := img_imd_same_layout ln hln
  have hsec := img_imd_same_sectors ln hln
  have huni := imd_geometry_uniform ln hln
  have hu : ∀ t (ht : t < (geom .imd ln).length), (geom .imd ln)[t].nsec = lat ln.layout.sectors 0 ∧
      (geom .imd ln)[t].shift = shiftOf (lat ln.layout.sectorSize 0) := by
    intro t ht
    have := (List.all_eq_true.mp huni.2) _ (List.getElem_mem ht)
    simpa using this
  simp only [ibmPieces, geomPieces]
  rw [List.getElem?_eq_getElem huni.1]
  simp only [(hu 0 huni.1).1]
  cases hts : getLsecs (.fat s n) (lat ln.layout.sectors 0) with
  | err => rfl
  | panic => rfl
  | ok ts =>
    simp only [bind, Out.bind]
    cases hchs : fatBlocking ts ln.layout.sidesMax with
    | err => rfl
    | panic => rfl
    | ok chs =>
      simp only []
      apply mapM'_congr
      intro x hx
      obtain ⟨c, h, l⟩ := x
      have hh : h < ln.layout.sidesMax := fatBlocking_heads ts _ chs hchs _ hx
      have e1 := hsec.2 c h l hh
      simp only [ibmSector] at e1
      rw [checkUserArea_uniform _ _ _ huni.1 hu]
      -- closed forms of both lookups
      have hH : ln.layout.trackCount = lat ln.layout.cylinders 0 * ln.layout.sidesMax := by
        have : ∀ ln ∈ C07.ibmPatterns, ln.layout.trackCount = lat ln.layout.cylinders 0 * ln.layout.sidesMax := by decide +kernel
        exact this ln hln
      have e2 := geomSector_regular _ _ _ _ hsec.1 (imd_geometry_regular ln hln) c h l hh
      have e3 := imgSector_closed ln c h l hh hH
      rw [hlay.2.2.1] at e2 ⊢
      by_cases hge : c * ln.layout.sidesMax ≥ lat ln.layout.cylinders 0 * ln.layout.sidesMax
      · have hno : ¬ (c * ln.layout.sidesMax + h < lat ln.layout.cylinders 0 * ln.layout.sidesMax ∧ 1 ≤ l ∧ l ≤ lat ln.layout.sectors 0) := by omega
        rw [if_neg hno] at e3
        rw [if_pos hge]
        cases hi : imgSector ln c h l with
        | ok p => rw [hi] at e3; simp [bind, Out.bind, pure] at e3
        | err => rfl
        | panic => rw [hi] at e3; simp [bind, Out.bind] at e3
      · rw [if_neg hge]
        rw [← e1] at e2
        cases hi : imgSector ln c h l with
        | ok p =>
          rw [hi] at e1
          simp only [bind, Out.bind, pure] at e1 ⊢
          rw [← e1]
        | err =>
          rw [hi] at e1
          simp only [bind, Out.bind] at e1 ⊢
          rw [← e1]
        | panic =>
          rw [hi] at e1
          simp only [bind, Out.bind] at e1 ⊢
          rw [← e1]

end A2Verif.C07
