import A2Verif.Lemmas.FsProdosBytes
/-!
# The on-disk invariant of the concrete ProDOS model

`Inv r` (decidable): every unit is a block of 512 bytes; the volume header's block count is the size of the image; the
total reader reads the image as a well-formed (C03), leak-free (C04) volume; the volume directory has the standard
geometry, consistent back links, at most 100 blocks, and its slots are as a2kit leaves them (an empty slot has a zero
first byte; an entry is a file entry, or the entry of a sub-directory that holds file entries only — *one level of
sub-directories*, the scope of the refinement proved so far; the master index block of a tree file uses only the 128 slots
the format has).

`SInv d`: the file-system object between two calls of the API — `Inv` of its image, the buffer closed (as after
`from_img` or `get_img()`) or open and equal to what the image holds (as after `stat()`).

`read_wbRaw`: the reading of an image whose bitmap blocks hold a given buffer, from the reading of its directory
tree; `mem_free_iff`: the reader's free list is the set of blocks the buffer marks free.
-/
namespace A2Verif.FsProdos
open A2Verif.Fs.Prodos
open A2Verif.Read.Prodos (entryAt dirChain idxPtr indexEntries readData trimName bitmapFree)
open A2Verif.Read.ProdosT

/-- the source with the five repairs the model carries (`Repairs`): the tree after `prodos-delete-grown-directory`,
`prodos-put-size-limits`, `prodos-bitmap-block-count`, `prodos-put-first-chunk-hole` and `prodos-put-field-lengths` -/
def repaired : Repairs := { dirDelete := true, putLimits := true, bitmapCeil := true, firstHole := true, fieldsFirst := true }

/-- header fields of the volume key block -/
def hdrTotal (r : Raw) : Nat := le16 (unitAt r 2) 41
def hdrBm (r : Raw) : Nat := le16 (unitAt r 2) 39
/-- number of bitmap blocks the format has -/
def nbmOf (total : Nat) : Nat := (total + 4095) / 4096

/-- every unit is a block of 512 bytes -/
def ShapeOk (r : Raw) : Prop := ∀ u ∈ r.units.toList, u.length = 512 ∧ ∀ x ∈ u, x < 256

instance (r : Raw) : Decidable (ShapeOk r) := by unfold ShapeOk; infer_instance

theorem ShapeOk.unit {r : Raw} (h : ShapeOk r) {i : Nat} (hi : i < r.units.size) :
    (unitAt r i).length = 512 ∧ ∀ x ∈ unitAt r i, x < 256 := by
  have hm : unitAt r i ∈ r.units.toList := by
    unfold unitAt
    rw [Array.getElem?_eq_getElem hi]
    simp
  exact h _ hm

/-- back links: the `prev` field of every block of the chain names the block before it (`p` before the first) -/
def PrevOk (r : Raw) : Nat → List Nat → Prop
  | _, [] => True
  | p, b :: rest => le16 (unitAt r b) 0 = p ∧ PrevOk r b rest

instance (r : Raw) : ∀ (p : Nat) (ch : List Nat), Decidable (PrevOk r p ch)
  | _, [] => isTrue trivial
  | p, b :: rest =>
    have := instDecidablePrevOk r b rest
    by unfold PrevOk; infer_instance

/-- the master index block of a tree file names index blocks only in the 128 slots the format has -/
def MasterClean (mb : Bytes) : Prop := ∀ k ∈ List.range 128, mb.getD (128 + k) 0 = 0 ∧ mb.getD (384 + k) 0 = 0

instance (mb : Bytes) : Decidable (MasterClean mb) := by unfold MasterClean; infer_instance

/-- the access byte protects uniformly: destroy (0x80), rename (0x40) and write (0x02) are all enabled or all disabled — what
`lock`, `unlock` and a `put` with the usual access bytes leave.  (The abstract specification knows one protection flag per
file, the reader calls an entry locked when *any* of the three is disabled; a2kit's `delete` tests the destroy bit,
`rename` the rename bit: with mixed bits the specification is stricter than ProDOS.) -/
def UniformAcc (a : Nat) : Prop :=
  (a &&& 0x80 ≠ 0 ↔ a &&& 0x40 ≠ 0) ∧ (a &&& 0x80 ≠ 0 ↔ a &&& 0x02 ≠ 0)

instance (a : Nat) : Decidable (UniformAcc a) := by unfold UniformAcc; infer_instance

/-- a slot of a directory that holds nothing (zero first byte) or a file entry (seedling, sapling, tree) with a uniform access
byte whose master index block, if any, is clean -/
def FileSlotOk (r : Raw) (x : Bytes × Nat × Nat) : Prop :=
  x.1.getD 0 0 = 0 ∨
    ((x.1.getD 0 0 / 16 = 1 ∨ x.1.getD 0 0 / 16 = 2 ∨ x.1.getD 0 0 / 16 = 3) ∧ UniformAcc (x.1.getD 30 0) ∧
     (x.1.getD 0 0 / 16 = 3 → MasterClean (unitAt r (le16 x.1 0x11))))

instance (r : Raw) (x : Bytes × Nat × Nat) : Decidable (FileSlotOk r x) := by unfold FileSlotOk; infer_instance

/-- the sub-directory with chain `sch` that the directory entry in slot `x` of the volume directory leads to: standard
geometry, consistent back links, at most 100 blocks, a sub-directory header that names slot `x` as its parent entry, and file
entries only (*one level of sub-directories*); the entry has a name -/
def SubTail (r : Raw) (x : Bytes × Nat × Nat) (sch : List Nat) : Prop :=
  x.1.getD 0 0 % 16 ≠ 0 ∧
  StdGeo r (le16 x.1 0x11) ∧ PrevOk r 0 sch ∧ sch.length ≤ 100 ∧ (unitAt r (le16 x.1 0x11)).getD 4 0 / 16 = 0xE ∧
  le16 (unitAt r (le16 x.1 0x11)) 39 = x.2.1 ∧ (unitAt r (le16 x.1 0x11)).getD 41 0 = x.2.2 ∧
  ∀ y ∈ dirSlots r (le16 x.1 0x11) sch, FileSlotOk r y

instance (r : Raw) (x : Bytes × Nat × Nat) (sch : List Nat) : Decidable (SubTail r x sch) := by
  unfold SubTail StdGeo; infer_instance

def SubOk (r : Raw) (total : Nat) (x : Bytes × Nat × Nat) : Prop :=
  match dirChain r total 1000 (le16 x.1 0x11) [] with
  | .ok sch => SubTail r x sch
  | .error _ => False

instance (r : Raw) (total : Nat) (x : Bytes × Nat × Nat) : Decidable (SubOk r total x) := by
  unfold SubOk
  cases dirChain r total 1000 (le16 x.1 0x11) [] with
  | ok sch => exact inferInstanceAs (Decidable (SubTail r x sch))
  | error e => exact isFalse id

theorem SubOk.chain {r : Raw} {total : Nat} {x : Bytes × Nat × Nat} (h : SubOk r total x) :
    ∃ sch, dirChain r total 1000 (le16 x.1 0x11) [] = .ok sch ∧ SubTail r x sch := by
  unfold SubOk at h
  cases hc : dirChain r total 1000 (le16 x.1 0x11) [] with
  | ok sch => rw [hc] at h; exact ⟨sch, rfl, h⟩
  | error e => rw [hc] at h; exact absurd h id

theorem SubOk.of {r : Raw} {total : Nat} {x : Bytes × Nat × Nat} {sch : List Nat}
    (hc : dirChain r total 1000 (le16 x.1 0x11) [] = .ok sch) (h : SubTail r x sch) : SubOk r total x := by
  unfold SubOk; rw [hc]; exact h

/-- a slot of the volume directory as a2kit leaves it: empty, a file entry, or the entry of a sub-directory of files -/
def SlotOk (r : Raw) (total : Nat) (x : Bytes × Nat × Nat) : Prop :=
  FileSlotOk r x ∨ (x.1.getD 0 0 / 16 = 0xD ∧ SubOk r total x)

instance (r : Raw) (total : Nat) (x : Bytes × Nat × Nat) : Decidable (SlotOk r total x) := by unfold SlotOk; infer_instance

/-- a slot that does not hold a directory entry -/
theorem SlotOk.file {r : Raw} {total : Nat} {x : Bytes × Nat × Nat} (h : SlotOk r total x) (hst : x.1.getD 0 0 / 16 ≠ 0xD) :
    FileSlotOk r x := by
  rcases h with h | ⟨hd, _⟩
  · exact h
  · exact absurd hd hst

/-- the volume directory with chain `ch` -/
structure Root (r : Raw) (ch : List Nat) : Prop where
  geo : StdGeo r 2
  prev : PrevOk r 0 ch
  len : ch.length ≤ 100
  slots : ∀ x ∈ dirSlots r 2 ch, SlotOk r (hdrTotal r) x
  /-- no name of the volume directory contains a `/` (a2kit validates names; the paths of the files of a sub-directory,
  `DIR/NAME`, are then different from every name of the volume directory) -/
  names : ∀ x ∈ dirSlots r 2 ch, isAct x = true → 47 ∉ trimName x.1

instance (r : Raw) (ch : List Nat) : Decidable (Root r ch) :=
  haveI : Decidable ((StdGeo r 2 ∧ PrevOk r 0 ch) ∧ (ch.length ≤ 100 ∧ (∀ x ∈ dirSlots r 2 ch, SlotOk r (hdrTotal r) x) ∧
      ∀ x ∈ dirSlots r 2 ch, isAct x = true → 47 ∉ trimName x.1)) := by
    unfold StdGeo; infer_instance
  decidable_of_iff ((StdGeo r 2 ∧ PrevOk r 0 ch) ∧ (ch.length ≤ 100 ∧ (∀ x ∈ dirSlots r 2 ch, SlotOk r (hdrTotal r) x) ∧
      ∀ x ∈ dirSlots r 2 ch, isAct x = true → 47 ∉ trimName x.1))
    ⟨fun h => ⟨h.1.1, h.1.2, h.2.1, h.2.2.1, h.2.2.2⟩, fun h => ⟨⟨h.geo, h.prev⟩, h.len, h.slots, h.names⟩⟩

/-- **the on-disk invariant** -/
structure Inv (r : Raw) : Prop where
  shape : ShapeOk r
  size : hdrTotal r = r.units.size
  ex : ∃ v fsL ch, Read.ProdosT.read r = .ok v ∧ readTree r (hdrTotal r) = .ok (fsL, ch) ∧
    v.wfB = true ∧ v.noLeak = true ∧ Root r ch

/-- the invariant as a check -/
def invB (r : Raw) : Bool :=
  decide (ShapeOk r) && decide (hdrTotal r = r.units.size) &&
  (match Read.ProdosT.read r, readTree r (hdrTotal r) with
   | .ok v, .ok (_, ch) => v.wfB && v.noLeak && decide (Root r ch)
   | _, _ => false)

theorem invB_iff (r : Raw) : invB r = true ↔ Inv r := by
  unfold invB
  constructor
  · intro h
    simp only [Bool.and_eq_true, decide_eq_true_eq] at h
    obtain ⟨⟨h1, h2⟩, h3⟩ := h
    cases hr : Read.ProdosT.read r with
    | error e => rw [hr] at h3; simp at h3
    | ok v =>
      cases ht : readTree r (hdrTotal r) with
      | error e => rw [hr, ht] at h3; simp at h3
      | ok res =>
        obtain ⟨fsL, ch⟩ := res
        rw [hr, ht] at h3
        simp only [Bool.and_eq_true, decide_eq_true_eq] at h3
        exact ⟨h1, h2, v, fsL, ch, hr, ht, h3.1.1, h3.1.2, h3.2⟩
  · rintro ⟨h1, h2, v, fsL, ch, hr, ht, hw, hn, hroot⟩
    rw [hr, ht]
    simp [h1, h2, hw, hn, hroot]

instance (r : Raw) : Decidable (Inv r) := decidable_of_iff _ (invB_iff r)

/-- **under the invariant the total reader succeeds, and what it reads is well formed (C03) and leak free (C04)** -/
theorem inv_reading {r : Raw} (h : Inv r) : ∃ v, Read.ProdosT.read r = .ok v ∧ v.wfB = true ∧ v.noLeak = true := by
  obtain ⟨v, _, _, hr, _, hw, hn, _⟩ := h.ex
  exact ⟨v, hr, hw, hn⟩

/-! ## the reader on the whole volume -/

/-- **how a volume is read**: header checks, the directory tree, the bitmap -/
theorem read_ok_of (r : Raw) (kb : Bytes) (fsL : List LRec) (ch fr : List Nat)
    (hkb : r.units[2]? = some kb) (hst : kb.getD 4 0 / 16 = 0xF)
    (htot : ¬ (le16 kb 41 > r.count ∨ le16 kb 41 < 6))
    (hbm : ¬ (le16 kb 39 < 3 ∨ le16 kb 39 + (le16 kb 41 + 4095) / 4096 > le16 kb 41))
    (htree : readTree r (le16 kb 41) = .ok (fsL, ch)) (hfree : bitmapFree r (le16 kb 39) (le16 kb 41) = .ok fr) :
    Read.ProdosT.read r = .ok {
      lo := 0, hi := le16 kb 41,
      sys := [0, 1] ++ ch ++ (List.range ((le16 kb 41 + 4095) / 4096)).map (· + le16 kb 39),
      files := fsL.map (·.1), freeUnits := fr, label := slice kb 5 (kb.getD 4 0 % 16) } := by
  unfold Read.ProdosT.read
  rw [unit_of_get r 2 _ kb hkb]
  simp only
  rw [if_neg (by simpa using hst), if_neg htot, if_neg hbm, htree]
  simp only
  rw [hfree]

/-- the buffer `open_bitmap_buffer` loads from an image of full blocks -/
theorem bufOf_size (r : Raw) (bm cnt : Nat) (hlen : ∀ i ∈ bmRange bm cnt, (unitAt r i).length = blockSize) :
    (bufOf r bm cnt).size = blockSize * cnt := by
  unfold bufOf
  rw [List.size_toArray, List.length_flatten, List.map_map]
  have : List.map (List.length ∘ unitAt r) (List.range' bm cnt) = List.replicate cnt blockSize := by
    apply List.ext_getElem
    · simp
    · intro n h1 h2
      simp only [List.getElem_map, List.getElem_range', Function.comp, List.getElem_replicate]
      have := hlen (bm + 1 * n) (by rw [mem_bmRange]; simp at h1; omega)
      exact this
  rw [this]; simp [Nat.mul_comm]

theorem bufOf_bytesOk (r : Raw) (bm cnt : Nat) (hb : ∀ i ∈ bmRange bm cnt, ∀ x ∈ unitAt r i, x < 256) : BytesOk (bufOf r bm cnt) := by
  apply bytesOk_toArray
  intro x hx
  rw [List.mem_flatten] at hx
  obtain ⟨l, hl, hxl⟩ := hx
  rw [List.mem_map] at hl
  obtain ⟨i, hi, rfl⟩ := hl
  exact hb i hi x hxl

/-- the independent reader's free list is the list of blocks the loaded buffer marks free -/
theorem bitmapFree_eq (r : Raw) (bm total : Nat) (hex : ∀ i ∈ bmRange bm (nbmOf total), i < r.units.size)
    (hlen : ∀ i ∈ bmRange bm (nbmOf total), (unitAt r i).length = blockSize)
    (hb : ∀ i ∈ bmRange bm (nbmOf total), ∀ x ∈ unitAt r i, x < 256) :
    bitmapFree r bm total = .ok ((List.range total).filter (freeB (bufOf r bm (nbmOf total)))) := by
  have hrd := bitmapFree_ok r bm total (by intro k hk; exact hex (bm + k) (by rw [mem_bmRange]; unfold nbmOf; omega))
  rw [hrd]
  congr 1
  apply List.filter_congr
  intro b hb'
  have hsz := bufOf_size r bm (nbmOf total) hlen
  have hlt : b < total := List.mem_range.mp hb'
  rw [freeB_eq_reader _ (bufOf_bytesOk r bm _ hb) b (by
    show b / 8 < (bufOf r bm (nbmOf total)).size
    rw [hsz]; unfold nbmOf blockSize; omega)]
  rfl

/-- **the reading of an image whose bitmap blocks hold the buffer `buf`** (what `get_img()` hands out), from the reading
of the directory tree of the image before the write-back -/
theorem read_wbRaw (r : Raw) (bm total : Nat) (buf : Array Nat) (kb : Bytes) (fsL : List LRec) (ch : List Nat)
    (hkb : r.units[2]? = some kb) (hst : kb.getD 4 0 / 16 = 0xF) (htot : le16 kb 41 = total) (hbmp : le16 kb 39 = bm)
    (hsize : total = r.units.size) (h6 : 6 ≤ total) (hbm3 : 3 ≤ bm) (hbmt : bm + nbmOf total ≤ total)
    (htree : readTree r total = .ok (fsL, ch))
    (hnot : ∀ j ∈ bmRange bm (nbmOf total), j ∉ ch ++ fsL.flatMap (·.1.owned))
    (hbsize : buf.size = blockSize * nbmOf total) (hbytes : BytesOk buf) :
    Read.ProdosT.read (wbRaw r bm (nbmOf total) buf) = .ok {
      lo := 0, hi := total,
      sys := [0, 1] ++ ch ++ (List.range (nbmOf total)).map (· + bm),
      files := fsL.map (·.1), freeUnits := (List.range total).filter (freeB buf), label := slice kb 5 (kb.getD 4 0 % 16) } := by
  have hex : ∀ i ∈ bmRange bm (nbmOf total), i < r.units.size := by
    intro i hi; rw [mem_bmRange] at hi; omega
  have hget := wbRaw_get r bm (nbmOf total) buf hex
  have h2 : (wbRaw r bm (nbmOf total) buf).units[2]? = some kb := by
    rw [hget 2, if_neg (by rw [mem_bmRange]; omega)]; exact hkb
  have hag : Agree r (wbRaw r bm (nbmOf total) buf) (ch ++ fsL.flatMap (·.1.owned)) := by
    intro j hj
    rw [hget j, if_neg (fun hm => hnot j hm hj)]
  have htree' : readTree (wbRaw r bm (nbmOf total) buf) total = .ok (fsL, ch) :=
    readDir_congr r _ total nestingFuel 2 [] 0 fsL ch (by omega) htree hag
  have hround := bufOf_wbRaw r bm (nbmOf total) buf hex hbsize
  have hlenw : ∀ i ∈ bmRange bm (nbmOf total), (unitAt (wbRaw r bm (nbmOf total) buf) i).length = blockSize := by
    intro i hi
    unfold unitAt
    rw [hget i, if_pos hi]
    simp only [Option.getD_some]
    unfold quantize blockSize
    simp only [List.length_append, List.length_take, List.length_replicate]
    omega
  have hbw : ∀ i ∈ bmRange bm (nbmOf total), ∀ x ∈ unitAt (wbRaw r bm (nbmOf total) buf) i, x < 256 := by
    -- the units are slices of the flattened units, which are the buffer
    intro i hi x hx
    have hmem : x ∈ (bufOf (wbRaw r bm (nbmOf total) buf) bm (nbmOf total)).toList := by
      unfold bufOf
      rw [List.toList_toArray, List.mem_flatten]
      exact ⟨_, List.mem_map.mpr ⟨i, hi, rfl⟩, hx⟩
    rw [hround] at hmem
    obtain ⟨k, hk, rfl⟩ := List.getElem_of_mem hmem
    exact hbytes k _ (by rw [← Array.getElem?_toList, List.getElem?_eq_getElem hk])
  have hfree := bitmapFree_eq (wbRaw r bm (nbmOf total) buf) bm total
    (fun i hi => by rw [wbRaw_size]; exact hex i hi) hlenw hbw
  rw [hround] at hfree
  have := read_ok_of (wbRaw r bm (nbmOf total) buf) kb fsL ch _ h2 hst
    (by rw [htot]; unfold Raw.count; rw [wbRaw_size]; omega)
    (by rw [htot, hbmp]; unfold nbmOf at hbmt; omega)
    (by rw [htot]; exact htree') (by rw [htot, hbmp]; exact hfree)
  rw [this, htot, hbmp]
  rfl

/-! ## the file-system object between two calls -/

/-- **the state of the file-system object between two calls of the API** (source as repaired): its image satisfies `Inv`,
its block count is the size of the image, the buffer is closed (`bitmap_blocks` empty as after `from_img`, or what the
last `open_bitmap_buffer` left) or open and in step with the image (as after `stat()`) -/
structure SInv (d : Disk) : Prop where
  inv : Inv d.raw
  total : d.total = d.raw.units.size
  src : d.src = repaired
  buf : (d.bitmap = none ∧ (d.bitmapBlocks = [] ∨ d.bitmapBlocks = bmRange (hdrBm d.raw) (nbmOf d.total))) ∨
        (d.bitmap = some (bufOf d.raw (hdrBm d.raw) (nbmOf d.total)) ∧ d.bitmapBlocks = bmRange (hdrBm d.raw) (nbmOf d.total))

theorem bmCount_repaired {d : Disk} (h : d.src = repaired) : d.bmCount = nbmOf d.total := by
  unfold Disk.bmCount nbmOf; rw [h]; rfl

/-- what the invariant says about the header, the tree and the bitmap -/
theorem Inv.facts {r : Raw} (h : Inv r) :
    ∃ v fsL ch, Read.ProdosT.read r = .ok v ∧ v.wfB = true ∧ v.noLeak = true ∧ Root r ch ∧
      r.units[2]? = some (unitAt r 2) ∧ (unitAt r 2).getD 4 0 / 16 = 0xF ∧ 6 ≤ hdrTotal r ∧ 3 ≤ hdrBm r ∧
      hdrBm r + nbmOf (hdrTotal r) ≤ hdrTotal r ∧
      readTree r (hdrTotal r) = .ok (fsL, ch) ∧
      v = { lo := 0, hi := hdrTotal r, sys := [0, 1] ++ ch ++ (List.range (nbmOf (hdrTotal r))).map (· + hdrBm r),
            files := fsL.map (·.1), freeUnits := (List.range (hdrTotal r)).filter (freeB (bufOf r (hdrBm r) (nbmOf (hdrTotal r)))),
            label := slice (unitAt r 2) 5 ((unitAt r 2).getD 4 0 % 16) } := by
  obtain ⟨v, fsL, ch, hr, ht, hw, hn, hroot⟩ := h.ex
  obtain ⟨kb, fsL', ch', fr, hk2, hst, htot, hbm, htree, hfree, hv⟩ := read_inv r v hr
  have hkb : kb = unitAt r 2 := by unfold unitAt; rw [hk2]; rfl
  subst hkb
  have e41 : le16 (unitAt r 2) 41 = hdrTotal r := rfl
  have e39 : le16 (unitAt r 2) 39 = hdrBm r := rfl
  rw [e41] at htree
  rw [ht] at htree
  have hfc : fsL' = fsL ∧ ch' = ch := by
    injection htree with h1; injection h1 with h1 h2; exact ⟨h1.symm, h2.symm⟩
  obtain ⟨rfl, rfl⟩ := hfc
  have hsz := h.size
  have hex : ∀ i ∈ bmRange (hdrBm r) (nbmOf (hdrTotal r)), i < r.units.size := by
    intro i hi; rw [mem_bmRange] at hi; unfold nbmOf at hi
    rw [e41, e39] at hbm; omega
  have hfr := bitmapFree_eq r (hdrBm r) (hdrTotal r) hex
    (fun i hi => (h.shape.unit (hex i hi)).1) (fun i hi => (h.shape.unit (hex i hi)).2)
  rw [e39, e41, hfr] at hfree
  have hfr2 : fr = (List.range (hdrTotal r)).filter (freeB (bufOf r (hdrBm r) (nbmOf (hdrTotal r)))) := by
    injection hfree with h1; exact h1.symm
  refine ⟨v, fsL', ch', hr, hw, hn, hroot, hk2, hst, by rw [e41] at htot; omega, by rw [e39] at hbm; omega,
    by rw [e41, e39] at hbm; unfold nbmOf; omega, ht, ?_⟩
  rw [hv, hfr2]
  rfl

theorem SInv.st {d : Disk} (h : SInv d) : St d (hdrBm d.raw) (nbmOf d.total) := by
  obtain ⟨v, fsL, ch, _, _, _, _, hk2, _, h6, h3, hbt, _, _⟩ := h.inv.facts
  have hts : hdrTotal d.raw = d.total := by rw [h.inv.size, h.total]
  refine ⟨⟨unitAt d.raw 2, hk2, rfl⟩, bmCount_repaired h.src, h3, ?_, ?_⟩
  · intro i hi; rw [mem_bmRange] at hi; rw [hts] at hbt; rw [← h.total]; omega
  · rcases h.buf with ⟨hc, hb⟩ | ⟨ho, hb⟩
    · exact Or.inl ⟨hc, hb⟩
    · exact Or.inr ⟨_, ho, hb⟩

/-- in either state the model works with the buffer the image holds -/
theorem SInv.eff {d : Disk} (h : SInv d) : effBuf d (hdrBm d.raw) (nbmOf d.total) = bufOf d.raw (hdrBm d.raw) (nbmOf d.total) := by
  unfold effBuf
  rcases h.buf with ⟨hc, _⟩ | ⟨ho, _⟩
  · rw [hc]
  · rw [ho]

end A2Verif.FsProdos
