import A2Verif.Lemmas.C06ProdosRead
/-!
# C06, ProDOS: the example object (non-vacuity, negative witness), evaluated in the kernel
-/
namespace A2Verif.Reload.Prodos
open A2Verif.Fs.Prodos

def blank (n : Nat) : Disk :=
  { raw := { unitLen := 512, units := Array.replicate n (List.replicate 512 0) }, total := n, bitmap := none, bitmapBlocks := [] }

/-- `format("V")` of a 10-block image, **not yet written back**: every allocation of the format lives in the buffer only -/
def exD : Disk := (format [86] (zeros 512) [33, 0, 0, 0] (blank 10)).2

/-- executable form of `Coh` for an object with open buffer -/
def cohB (d : Disk) : Bool :=
  decide (d.raw.unitLen = 512) && d.raw.units.toList.all (fun u => decide (u.length = 512)) && decide (d.total = d.raw.units.size) &&
  decide (volKeyBlock < d.raw.units.size) &&
  (match d.bitmap with
   | none => false
   | some b => decide (d.bitmapBlocks = List.range' (bptrOf d.raw) (d.bmCount)) && decide (b.size = d.bmCount * 512) &&
       decide (bptrOf d.raw + d.bmCount ≤ d.raw.units.size) &&
       decide (volKeyBlock < bptrOf d.raw ∨ bptrOf d.raw + d.bmCount ≤ volKeyBlock))

theorem coh_of_cohB {d : Disk} (h : cohB d = true) : Coh d := by
  unfold cohB at h
  simp only [Bool.and_eq_true, decide_eq_true_eq, List.all_eq_true] at h
  obtain ⟨⟨⟨⟨h1, h2⟩, h3⟩, h4⟩, h5⟩ := h
  refine ⟨⟨by decide, h1, h2⟩, h3, h4, ?_⟩
  intro b hb
  rw [hb] at h5
  simp only [Bool.and_eq_true, decide_eq_true_eq] at h5
  obtain ⟨⟨⟨a, b'⟩, c⟩, e⟩ := h5
  exact ⟨a, b', c, e⟩

set_option maxRecDepth 1000000 in
theorem exD_coh : Coh exD := coh_of_cohB (by decide +kernel)

def freeOf (x : R Nat × Disk) : Nat := match x.1 with | .ok n => n | .error _ => 99999

/-- the variant of `get_img` that forgets the buffer, followed by `load` -/
def reloadForgetful (d : Disk) : Disk := match saveForgetful d with | .ok b => load d.src b | .error _ => d

theorem reloadForgetful_eq {d : Disk} (h : Coh d) :
    reloadForgetful d = { raw := d.raw, total := d.total, bitmap := none, bitmapBlocks := [], src := d.src } := by
  unfold reloadForgetful saveForgetful load
  simp only
  rw [ofBytes_toBytes h.shaped, h.total]

set_option maxRecDepth 1000000 in
/-- 3 of the 10 blocks are free in the object; the image underneath (its bitmap block is still all zero) shows none -/
theorem exD_free : freeOf (statFree exD) = 3 ∧
    freeOf (statFree { raw := exD.raw, total := exD.total, bitmap := none, bitmapBlocks := [], src := exD.src }) = 0 := by decide +kernel


set_option maxRecDepth 1000000 in
theorem exD_closed : exD.bitmap = none → exD.bitmapBlocks = [] := by decide +kernel

set_option maxRecDepth 1000000 in
theorem exD_open : exD.bitmap ≠ none := by decide +kernel

theorem exD_small : exD.total < 4096 := by decide +kernel

end A2Verif.Reload.Prodos
