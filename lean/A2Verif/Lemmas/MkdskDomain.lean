import A2Verif.Model.Mkdsk
/-!
The finite configuration space of property C10 and the generic step from a checked `List.all` to a `∀`.
-/
namespace A2Verif.Lemmas.MkdskDomain
open A2Verif.Gen.Mkdsk A2Verif.Model.Mkdsk

/-- volume names / numbers at the edges of the legal ranges of the five file systems (the same list the harness
uses): no argument, empty, 0, 1, 254, 255, 256, +1, 007, -1, 1 char, 7 and 8 chars (Pascal limit), 8.3 / 9.2 / 8.4 /
two dots (CP/M limits), 11 and 12 chars (FAT limit), 15 and 16 chars (ProDOS limit), lower case, `_`, blank, `:`, `/`,
leading `.`, leading digit, non-ASCII, control character, `*`, `$`, `+`, `#` -/
def volClasses : List (Option (List Nat)) := [
  none,
  some [],
  some [48],
  some [49],
  some [50, 53, 52],
  some [50, 53, 53],
  some [50, 53, 54],
  some [43, 49],
  some [48, 48, 55],
  some [45, 49],
  some [65],
  some [65, 66, 67, 68, 69, 70, 71],
  some [65, 66, 67, 68, 69, 70, 71, 72],
  some [65, 66, 67, 68, 69, 70, 71, 72, 46, 73, 74, 75],
  some [65, 66, 67, 68, 69, 70, 71, 72, 73, 46, 74, 75],
  some [65, 66, 67, 68, 69, 70, 71, 72, 46, 73, 74, 75, 76],
  some [65, 46, 66, 46, 67],
  some [65, 66, 67, 68, 69, 70, 71, 72, 73, 74, 75],
  some [65, 66, 67, 68, 69, 70, 71, 72, 73, 74, 75, 76],
  some [65, 66, 67, 68, 69, 70, 71, 72, 73, 74, 75, 76, 77, 78, 79],
  some [65, 66, 67, 68, 69, 70, 71, 72, 73, 74, 75, 76, 77, 78, 79, 80],
  some [110, 101, 119, 46, 100, 105, 115, 107],
  some [78, 69, 87, 95, 68, 73, 83, 75],
  some [78, 69, 87, 32, 68, 73, 83, 75],
  some [65, 58, 66],
  some [65, 47, 66],
  some [46, 65, 66, 67],
  some [49, 65, 66, 67],
  some [195, 137, 65],
  some [65, 7, 66],
  some [65, 42, 66],
  some [65, 36, 66],
  some [65, 43, 66],
  some [65, 35, 66]]

/-- extension classes: every extension any image type owns, mixed case, a foreign one, none -/
def extClasses : List (List Nat) := [
  [50, 109, 103], [50, 105, 109, 103], [100, 115, 107], [100, 49, 51], [100, 111], [110, 105, 98], [110, 98, 50], [112, 111],
  [119, 111, 122], [105, 109, 100], [116, 100, 48], [105, 109, 103], [105, 109, 97], [68, 83, 75], [87, 111, 122], [120, 121, 122], []]

def wraps : List (Option WrapArg) := none :: WrapArg.all.map some

/-- the configuration with the image type's own extension and a destination that does not exist yet -/
def cfg (os : Os) (kind : KindArg) (typ : TypeArg) (wrap : Option WrapArg) (boot : Bool) (vol : Option (List Nat)) : Config :=
  { os := os, kind := kind, typ := typ, wrap := wrap, boot := boot, vol := vol, ext := primaryExt typ }

/-- Exhaustive check of one OS: no configuration may panic, and every accepted one must satisfy `A`.
The part of `mkdsk` that does not look at the boot flag or the volume (`pre`) is evaluated once per
(kind, type, wrap); only where it yields an image are the 2 x |volClasses| completions evaluated. -/
def checkOs (A : Config → Plan → Bool) (os : Os) : Bool :=
  osKnown os &&
  KindArg.all.all fun kind => TypeArg.all.all fun typ => wraps.all fun wrap =>
    match pre os kind typ wrap (primaryExt typ) with
    | .ok x => [false, true].all fun boot => volClasses.all fun vol =>
        match perOs os x.1 x.2 boot vol with
        | .ok p => A (cfg os kind typ wrap boot vol) p
        | .err _ => true
        | .panic _ => false
    | .err _ => true
    | .panic _ => false

theorem os_complete (o : Os) : o ∈ Os.all := by cases o <;> decide
theorem kindArg_complete (k : KindArg) : k ∈ KindArg.all := by cases k <;> decide
theorem typeArg_complete (t : TypeArg) : t ∈ TypeArg.all := by cases t <;> decide
theorem wrap_complete (w : Option WrapArg) : w ∈ wraps := by
  cases w with
  | none => decide
  | some w => cases w <;> decide
theorem bool_complete (b : Bool) : b ∈ [false, true] := by cases b <;> decide

/-- what `checkOs` establishes: over the whole enumerated space of that OS the model never panics and every
accepted plan satisfies `A` -/
theorem checkOs_sound (A : Config → Plan → Bool) (os : Os) (h : checkOs A os = true)
    (kind : KindArg) (typ : TypeArg) (wrap : Option WrapArg) (boot : Bool) (vol : Option (List Nat)) (hv : vol ∈ volClasses) :
    match plan (cfg os kind typ wrap boot vol) with
    | .ok p => A (cfg os kind typ wrap boot vol) p = true
    | .err _ => True
    | .panic _ => False := by
  unfold checkOs at h
  rw [Bool.and_eq_true] at h
  obtain ⟨hos, h⟩ := h
  have h1 := List.all_eq_true.mp h kind (kindArg_complete kind)
  have h2 := List.all_eq_true.mp h1 typ (typeArg_complete typ)
  have h3 := List.all_eq_true.mp h2 wrap (wrap_complete wrap)
  have hp : plan (cfg os kind typ wrap boot vol)
      = (pre os kind typ wrap (primaryExt typ)).bind fun x => perOs os x.1 x.2 boot vol := by
    simp [plan, cfg, hos]
  rw [hp]
  cases hpre : pre os kind typ wrap (primaryExt typ) with
  | ok x =>
    rw [hpre] at h3
    have h4 := List.all_eq_true.mp h3 boot (bool_complete boot)
    have h5 := List.all_eq_true.mp h4 vol hv
    simp only [Outcome.bind]
    cases hper : perOs os x.1 x.2 boot vol with
    | ok p => rw [hper] at h5; exact h5
    | err s => trivial
    | panic s => rw [hper] at h5; exact Bool.noConfusion h5
  | err s => simp only [Outcome.bind]
  | panic s => rw [hpre] at h3; exact Bool.noConfusion h3

end A2Verif.Lemmas.MkdskDomain
