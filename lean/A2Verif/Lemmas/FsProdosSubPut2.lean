import A2Verif.Lemmas.FsProdosSubPut1
import A2Verif.Lemmas.FsProdosPutJ
/-!
# `put` into a directory other than the volume directory: the model's trace after `prepare_to_write`

`put_rest_key`: `prepare_to_write` has returned the directory's key block `K ≠ 2`, an empty slot `(B, k + 1)` of the
directory and the first free block, leaving the state `dp` (the old state with the buffer opened, or the state after the
directory has been expanded).  The rest of `put` — free count, file count of `K`, entry, `write_file` — as a step from `dp`.
-/
namespace A2Verif.FsProdos
open A2Verif.Fs.Prodos
open A2Verif.Read.Prodos (entryAt dirChain idxPtr indexEntries readData trimName)
open A2Verif.Read.ProdosT

theorem put_rest_key {d dp : Disk} {bm cnt K : Nat} {sch : List Nat} (c : KeyCtx dp bm cnt K sch) (hK2 : 2 ∉ sch)
    (hsrc : dp.src = repaired)
    (htot0 : dp.total ≠ 0) (htot16 : dp.total ≤ 65535) (htotsz : dp.total = dp.raw.units.size)
    (hbsz : (effBuf dp bm cnt).size = blockSize * cnt) (hcover : dp.total ≤ 8 * (effBuf dp bm cnt).size)
    (hbok : BytesOk (effBuf dp bm cnt)) (hshape : ShapeOk dp.raw)
    (hfreeOrd : ∀ b, b < dp.total → freeB (effBuf dp bm cnt) b = true → b ∉ bmRange bm cnt ∧ b ∉ sch ∧ b ≠ 2)
    (hzero : freeB (effBuf dp bm cnt) 0 = false)
    (f : FImg) (time nm : Bytes) (pk : PutOk f time) (hv : isNameValid nm = true)
    (B k : Nat) (hB : B ∈ sch) (hk13 : k < 13) (hkey : B = K → 1 ≤ k)
    (nb : Nat) (hfind : (List.range dp.total).find? (freeB (effBuf dp bm cnt)) = some nb)
    (hprep : prepareToWrite f.fullPath d = (.ok (nm, K, { block := B, idx := k + 1 }, nb), dp))
    (hfit : blocksNeeded f ≤ (freeBlocks (effBuf dp bm cnt) dp.total).length)
    (hcount : le16 (unitAt dp.raw K) 37 + 1 ≤ 65535)
    (acc : Nat) (hacc : f.access[0]? = some acc) (hacc256 : acc < 256) :
    ∃ d2 e0 s dc Al d3, put f time repaired d = (.ok f.eof, d3) ∧
      LoopCtx d2 bm cnt ∧
      d2.raw = setUnit (setUnit dp.raw K (patched (unitAt dp.raw K) 37 (u16le (le16 (unitAt dp.raw K) 37 + 1)))) B
        (patched (if B = K then patched (unitAt dp.raw K) 37 (u16le (le16 (unitAt dp.raw K) 37 + 1)) else unitAt dp.raw B)
          (4 + k * 39) e0) ∧
      (∀ j, freeB (effBuf d2 bm cnt) j = freeB (effBuf dp bm cnt) j) ∧
      NewEntry e0 nm (f.fsType.getD 0 0) nb acc (f.aux.getD 0 0 + 256 * f.aux.getD 1 0) ∧
      LoopRes f d2 bm cnt e0 nb s dc Al ∧
      AState d2 bm cnt dc Al ∧ B ∉ Al ∧
      Next dp d3 bm cnt
        (setUnit dc.raw B (patched (unitAt d2.raw B) (4 + k * 39) (Ent.setAccess (Ent.setEof s.entry f.eof) acc)))
        (clearBit (effBuf dc bm cnt) B) := by
  -- facts about the image
  have hex := c.chain.exists
  have hBsz : B < dp.raw.units.size := hex B hB
  have hBnb : B ∉ bmRange bm cnt := c.nb B hB
  have hKch : K ∈ sch := c.mem
  have hKnb : K ∉ bmRange bm cnt := c.nb K hKch
  have hKsz : K < dp.raw.units.size := hex K hKch
  have hKne2 : K ≠ 2 := fun e => hK2 (e ▸ hKch)
  have hBne2 : B ≠ 2 := fun e => hK2 (e ▸ hB)
  have hlen : ∀ b, b < dp.raw.units.size → (unitAt dp.raw b).length = 512 := fun b hb => (hshape.unit hb).1
  have hnbm := List.mem_of_find?_eq_some hfind
  have hnbl : nb < dp.total := List.mem_range.mp hnbm
  have hnbf : freeB (effBuf dp bm cnt) nb = true := List.find?_some hfind
  have hused : ∀ b ∈ sch, freeB (effBuf dp bm cnt) b = false := by
    intro b hb
    cases hfb : freeB (effBuf dp bm cnt) b with
    | false => rfl
    | true => exact absurd hb (hfreeOrd b (by rw [htotsz]; exact hex b hb) hfb).2.1
  have hcovb : ∀ b, b < dp.raw.units.size → b / 8 < (effBuf dp bm cnt).size := by
    intro b hb; rw [← htotsz] at hb; omega
  -- the buffer is opened
  have stp : St (openD dp bm cnt) bm cnt := c.st.toOpen _
  have hnum : numFreeBlocks dp = (.ok (freeBlocks (effBuf dp bm cnt) dp.total).length, openD dp bm cnt) :=
    numFreeBlocks_st c.st htot0 hcover
  -- the file count
  have hgdK := getDirectory_st stp K (unitAt dp.raw K) hKnb (units_get_unitAt _ _ hKsz)
  have hkK : kindOf K (unitAt dp.raw K) ≠ DKind.entry := (c.kinds K hKch).1 rfl
  have hcntK : le16 ((unitAt dp.raw K).take dirLen) (4 + 33) = le16 (unitAt dp.raw K) 37 :=
    le16_take _ dirLen 37 (by unfold dirLen; omega)
  have hinc := incFileCount_ok (kindOf K (unitAt dp.raw K)) ((unitAt dp.raw K).take dirLen) hkK (by rw [hcntK]; exact hcount)
  rw [hcntK] at hinc
  have hlenK := hlen K hKsz
  obtain ⟨d1, hd1, n1⟩ := writeBlock_next stp (splice ((unitAt dp.raw K).take dirLen) (4 + 33)
      (u16le (le16 (unitAt dp.raw K) 37 + 1))) K hKnb hKsz (hcovb K hKsz) (fun h => absurd h hKne2)
  have hraw1 : d1.raw = setUnit dp.raw K (patched (unitAt dp.raw K) 37 (u16le (le16 (unitAt dp.raw K) 37 + 1))) := n1.raw
  have heff1 : effBuf d1 bm cnt = clearBit (effBuf dp bm cnt) K := n1.eff
  have hsz1 : d1.raw.units.size = dp.raw.units.size := by rw [hraw1, setUnit_size]
  have hu1 : ∀ b, unitAt d1.raw b = if b = K then patched (unitAt dp.raw K) 37 (u16le (le16 (unitAt dp.raw K) 37 + 1)) else unitAt dp.raw b := by
    intro b
    rw [hraw1]
    by_cases hb : b = K
    · subst hb; rw [if_pos rfl]; unfold unitAt; rw [setUnit_self _ _ _ hKsz]; rfl
    · rw [if_neg hb, unitAt_setUnit_other _ _ _ _ (Ne.symm hb)]
  have hlen1 : ∀ b, b < dp.raw.units.size → (unitAt d1.raw b).length = 512 := by
    intro b hb; rw [hu1 b]; split
    · exact patched_length _ _ _
    · exact hlen b hb
  -- the entry
  obtain ⟨hft1, hft2⟩ := pk.fsType
  obtain ⟨hax1, hax2, hax3⟩ := pk.aux
  obtain ⟨hvs1, hvs2⟩ := pk.version
  obtain ⟨hmv1, hmv2⟩ := pk.minVersion
  have ne := createFileEntry_facts nm (f.fsType.getD 0 0) nb (f.version.getD 0 0) (f.minVersion.getD 0 0) acc
    (f.aux.getD 0 0) (f.aux.getD 1 0) K time hv pk.time.1 pk.time.2 hft2 (by omega) hvs2 hmv2 hacc256 hax2 hax3
  have hkok1 : kindOf B (unitAt d1.raw B) ≠ DKind.entry → 1 ≤ k := by
    intro hne'
    by_cases hb : B = K
    · exact hkey hb
    · rw [hu1 B, if_neg hb] at hne'; exact absurd ((c.kinds B hB).2 hb) hne'
  obtain ⟨d2, hd2, n2⟩ := writeEntry_next' n1.st B k hBnb (by rw [hsz1]; exact hBsz)
    (by rw [heff1, size_clearBit]; exact hcovb B hBsz) (hlen1 B hBsz) hk13 hkok1
    (createFileEntry nm (f.fsType.getD 0 0) nb (f.version.getD 0 0) (f.minVersion.getD 0 0) acc
      (f.aux.getD 0 0) (f.aux.getD 1 0) K time)
  rw [take_full _ ne.len, hu1 B, heff1] at n2
  have hraw2 : d2.raw = setUnit d1.raw B _ := n2.raw
  have hsz2 : d2.raw.units.size = dp.raw.units.size := by rw [hraw2, setUnit_size, hsz1]
  have hu2B : unitAt d2.raw B = patched (if B = K then patched (unitAt dp.raw K) 37 (u16le (le16 (unitAt dp.raw K) 37 + 1))
      else unitAt dp.raw B) (4 + k * 39) (createFileEntry nm (f.fsType.getD 0 0) nb (f.version.getD 0 0) (f.minVersion.getD 0 0) acc
      (f.aux.getD 0 0) (f.aux.getD 1 0) K time) := by
    rw [hraw2]; unfold unitAt; rw [setUnit_self _ _ _ (by rw [hsz1]; exact hBsz)]; rfl
  have hlenB1 : (if B = K then patched (unitAt dp.raw K) 37 (u16le (le16 (unitAt dp.raw K) 37 + 1)) else unitAt dp.raw B).length = 512 := by
    rw [← hu1 B]; exact hlen1 B hBsz
  -- the buffer after the two writes marks the same blocks free
  have hf1 : ∀ j, freeB (clearBit (effBuf dp bm cnt) K) j = freeB (effBuf dp bm cnt) j :=
    freeB_clearBit_used _ K hbok (hcovb K hKsz) (hused K hKch)
  have hf2 : ∀ j, freeB (effBuf d2 bm cnt) j = freeB (effBuf dp bm cnt) j := by
    intro j
    rw [n2.eff, freeB_clearBit_used _ B (bytesOk_clearBit _ _ hbok) (by rw [size_clearBit]; exact hcovb B hBsz)
      (by rw [hf1]; exact hused B hB) j, hf1 j]
  have hfun : freeB (effBuf d2 bm cnt) = freeB (effBuf dp bm cnt) := funext hf2
  have htot2 : d2.total = dp.total := by rw [n2.total, n1.total]; rfl
  have hsrc2 : d2.src = dp.src := by rw [n2.src, n1.src]; rfl
  have hshape1 : ShapeOk d1.raw := by
    rw [hraw1]
    exact shape_setUnit hshape K _ (patched_length _ _ _)
      (patched_bytes _ _ _ hlenK (by unfold u16le; simp) (hshape.unit hKsz).2 (u16le_bytes _))
  have hshape2 : ShapeOk d2.raw := by
    rw [hraw2]
    apply shape_setUnit hshape1 B _ (patched_length _ _ _) (patched_bytes _ _ _ hlenB1 (by rw [ne.len]; omega) ?_ ne.bytes)
    rw [← hu1 B]
    exact (hshape1.unit (by rw [hsz1]; exact hBsz)).2
  have ctx : LoopCtx d2 bm cnt := by
    refine ⟨n2.st, by rw [htot2]; exact htot0, by rw [htot2]; exact htot16, by rw [htot2, hsz2]; exact htotsz, ?_, ?_, ?_,
      hshape2, ?_, by rw [hf2]; exact hzero⟩
    · rw [n2.eff, size_clearBit, size_clearBit]; exact hbsz
    · rw [n2.eff, size_clearBit, size_clearBit, htot2]; exact hcover
    · rw [n2.eff]; exact bytesOk_clearBit _ _ (bytesOk_clearBit _ _ hbok)
    · intro b hb hfb
      rw [htot2] at hb; rw [hf2] at hfb
      obtain ⟨h1, _, h3⟩ := hfreeOrd b hb hfb
      exact ⟨h1, h3⟩
  have he0 : entryAt (unitAt d2.raw B) k 39 = createFileEntry nm (f.fsType.getD 0 0) nb (f.version.getD 0 0) (f.minVersion.getD 0 0) acc
      (f.aux.getD 0 0) (f.aux.getD 1 0) K time := by
    rw [hu2B]; exact entryAt_patched_self _ _ k hlenB1 ne.len hk13
  have hkok2 : kindOf B (unitAt d2.raw B) ≠ DKind.entry → 1 ≤ k := by
    intro hne'
    by_cases hb : B = K
    · exact hkey hb
    · have h0 := (c.kinds B hB).2 hb
      rw [hu2B, if_neg hb] at hne'
      unfold kindOf at h0 hne'
      rw [if_neg (by unfold volKeyBlock; exact hBne2)] at h0 hne'
      rw [getD_patched_out _ _ _ 0 (hlen B hBsz) (by rw [ne.len]; omega) (Or.inl (by omega)) (by omega),
        getD_patched_out _ _ _ 1 (hlen B hBsz) (by rw [ne.len]; omega) (Or.inl (by omega)) (by omega)] at hne'
      exact absurd h0 hne'
  have hfit2 : allocCount f f.end_ ≤ (freeBlocks (effBuf d2 bm cnt) d2.total).length := by
    rw [← blocksNeeded_eq f pk.keys]
    unfold freeBlocks; rw [hfun, htot2]; exact hfit
  obtain ⟨s, dc, Al, d3, hwf, hres, ha, hBAl, n3⟩ := writeFile_trace' (f := f) ctx B k hBnb (by rw [hsz2]; exact hBsz)
    (by rw [n2.eff, size_clearBit, size_clearBit]; exact hcovb B hBsz) (by rw [hu2B]; exact patched_length _ _ _)
    hk13 hkok2 he0 ne (by rw [hf2]; exact hused B hB)
    (fun p hp => by rw [hfun, htot2, hfind] at hp; injection hp with hp; exact hp.symm)
    (by rw [hsrc2, hsrc]; rfl) (by have := pk.ne; intro h; exact this (List.eq_nil_of_length_eq_zero h))
    pk.end_pos pk.endle hfit2 pk.first pk.bytes acc hacc
  rw [if_pos pk.eof.1] at n3
  refine ⟨d2, _, s, dc, Al, d3, ?_, ctx, ?_, hf2, ne, hres, ha, hBAl,
    ⟨n3.st, n3.raw, n3.eff, by rw [n3.total, ha.total, htot2], by rw [n3.src, ha.src, hsrc2]⟩⟩
  · unfold put
    simp only [bind_def, pure_def]
    rw [if_neg (by rw [pk.fsOk]; simp), if_neg (by rw [pk.chunkLen]; simp), if_neg (by
      intro h; exact pk.ne (List.eq_nil_of_length_eq_zero h))]
    have hal : 1 ≤ f.access.length := by
      rcases Nat.lt_or_ge 0 f.access.length with h | h
      · exact h
      · rw [List.getElem?_eq_none (by omega)] at hacc; cases hacc
    rw [if_neg (by intro h; have := h.2; omega), if_neg (by intro h; have := h.2; have := pk.eof.2; have := pk.endle; omega)]
    rw [bind_ok _ _ d _ _ hprep]
    simp only []
    rw [bind_ok _ _ _ _ _ hnum, if_neg (by omega), bind_ok _ _ _ _ _ hgdK]
    rw [hinc, bind_ok _ _ _ _ _ (ofOption_some _ _)]
    simp only []
    rw [bind_ok _ _ _ d1 _ hd1, if_neg (by omega)]
    simp only [hacc]
    rw [bind_ok _ _ d1 d1 _ (ofOption_some _ d1), bind_ok _ _ d1 d2 _ hd2]
    exact hwf
  · rw [hraw2, hraw1]

end A2Verif.FsProdos
