import A2Verif.Lemmas.FsFatChain
/-!
# A reading that succeeded does not see changes of FAT entries outside the clusters it owns
-/
namespace A2Verif.FsFat
open A2Verif A2Verif.Fs.Fat A2Verif.Read.Fat A2Verif.Read.FatT

theorem chain_congr_fat (f f' : Array Nat) (hi : Nat) : ∀ (fuel c : Nat) (seen res : List Nat),
    chain f false hi fuel c seen = .ok res → seen.Nodup → (∀ x ∈ res, nxt f' x = nxt f x) →
    chain f' false hi fuel c seen = .ok res := by
  intro fuel
  induction fuel with
  | zero => intro c seen res h _ _; simp [chain] at h
  | succ n ih =>
    intro c seen res h hnd he
    obtain ⟨cl, e1, e2, _, _⟩ := chain_isChain f hi (n + 1) c seen res h hnd
    have hc : c ∈ res := by rw [e1]; simp [e2.head_mem]
    have hn : nxt f' c = nxt f c := he c hc
    rw [chain] at h ⊢
    by_cases h1 : c < 2 ∨ c ≥ hi
    · rw [if_pos h1] at h; cases h
    · rw [if_neg h1] at h ⊢
      by_cases h2 : seen.contains c = true
      · rw [if_pos h2] at h; cases h
      · rw [if_neg h2] at h ⊢
        have hcs : c ∉ seen := by simpa using h2
        simp only [fatEntry_eq] at h ⊢
        rw [hn]
        by_cases h3 : nxt f c = 0
        · rw [if_pos h3] at h; cases h
        · rw [if_neg h3] at h ⊢
          by_cases h4 : isEnd false (nxt f c) = true
          · rw [if_pos h4] at h ⊢; exact h
          · rw [if_neg h4] at h ⊢
            exact ih (nxt f c) (c :: seen) res h (List.nodup_cons.mpr ⟨hcs, hnd⟩) he

theorem fileChain_congr_fat {f f' : Array Nat} {hi c1 size : Nat} {cl : List Nat} (h : fileChain f false hi c1 size = .ok cl)
    (he : ∀ x ∈ cl, nxt f' x = nxt f x) : fileChain f' false hi c1 size = .ok cl := by
  unfold fileChain at h ⊢
  by_cases hc : c1 = 0
  · rw [if_pos hc] at h ⊢; exact h
  · rw [if_neg hc] at h ⊢
    exact chain_congr_fat f f' hi _ _ _ _ h (by simp) he

theorem fileRec_owned {r : Raw} {b : Read.Fat.Bpb} {fat : Array Nat} {hi : Nat} {path e : Bytes} {rec : FileRec}
    (h : fileRec r b fat false hi path e = .ok rec) : fileChain fat false hi (le16 e 26) (le32 e 28) = .ok rec.owned := by
  unfold fileRec at h
  dsimp only at h
  cases hc : fileChain fat false hi (le16 e 26) (le32 e 28) with
  | error er => rw [hc] at h; cases h
  | ok cl =>
    rw [hc] at h
    simp only [] at h
    cases hd : cl.mapM (clusterData r b) with
    | error er => rw [hd] at h; cases h
    | ok datas =>
      rw [hd] at h
      simp only [] at h
      split at h
      · cases h
      · injection h with h
        rw [← h]

theorem fileRec_congr_fat {r : Raw} {b : Read.Fat.Bpb} {f f' : Array Nat} {hi : Nat} {path e : Bytes} {rec : FileRec}
    (h : fileRec r b f false hi path e = .ok rec) (he : ∀ x ∈ rec.owned, nxt f' x = nxt f x) :
    fileRec r b f' false hi path e = .ok rec := by
  have hch := fileRec_owned h
  have hch' := fileChain_congr_fat hch he
  unfold fileRec at h ⊢
  dsimp only at h ⊢
  rw [hch] at h
  rw [hch']
  exact h

theorem mapM_congr_ok {ε α β : Type} (f g : α → Except ε β) : ∀ (l : List α) (R : List β), l.mapM f = .ok R →
    (∀ x y, x ∈ l → y ∈ R → f x = .ok y → g x = .ok y) → l.mapM g = .ok R := by
  intro l
  induction l with
  | nil => intro R h _; exact h
  | cons a t ih =>
    intro R h hc
    rw [List.mapM_cons] at h ⊢
    cases ha : f a with
    | error e => rw [ha] at h; cases h
    | ok b =>
      rw [ha] at h
      cases ht : t.mapM f with
      | error e => rw [ht] at h; cases h
      | ok rt =>
        rw [ht] at h
        injection h with h
        subst h
        rw [hc a b (by simp) (by simp) ha, ih rt ht (fun x y hx hy hxy => hc x y (by simp [hx]) (by simp [hy]) hxy)]
        rfl

/-- **the reading depends on the FAT only at the clusters it reports as owned** -/
theorem readDirT_congr_fat (r : Raw) (b : Read.Fat.Bpb) (f f' : Array Nat) (hi : Nat) : ∀ (fuel : Nat) (buf pfx : Bytes) (recs : List FileRec),
    readDirT r b f false hi fuel buf pfx = .ok recs → (∀ x ∈ recs.flatMap (·.owned), nxt f' x = nxt f x) →
    readDirT r b f' false hi fuel buf pfx = .ok recs := by
  intro fuel
  induction fuel with
  | zero => intro buf pfx recs h _; simp [readDirT] at h
  | succ n ih =>
    intro buf pfx recs h he
    rw [readDirT_succ] at h ⊢
    cases hm : (dirEnts buf).mapM (rdEnt r b f false hi n pfx) with
    | error er => rw [hm] at h; simp [bind, Except.bind] at h
    | ok R =>
      rw [hm] at h
      simp only [bind, Except.bind, pure, Except.pure] at h
      injection h with h
      subst h
      have hm' : (dirEnts buf).mapM (rdEnt r b f' false hi n pfx) = .ok R := by
        apply mapM_congr_ok _ _ _ _ hm
        intro e y _ hy hye
        have hey : ∀ x ∈ y.flatMap (·.owned), nxt f' x = nxt f x := by
          intro x hx
          apply he
          simp only [List.mem_flatMap, List.mem_flatten] at hx ⊢
          obtain ⟨rec, hrec, hxr⟩ := hx
          exact ⟨rec, ⟨y, hy, hrec⟩, hxr⟩
        unfold rdEnt at hye ⊢
        dsimp only at hye ⊢
        by_cases hd : (e.getD 11 0 / 16) % 2 = 1
        · rw [if_pos hd] at hye ⊢
          cases hc : chain f false hi (hi + 1) (le16 e 26) [] with
          | error er => rw [hc] at hye; simp [bind, Except.bind] at hye
          | ok cl =>
            rw [hc] at hye
            simp only [bind, Except.bind] at hye ⊢
            cases hdat : cl.mapM (clusterData r b) with
            | error er => rw [hdat] at hye; simp at hye
            | ok datas =>
              rw [hdat] at hye
              simp only [] at hye
              cases hs : readDirT r b f false hi n datas.flatten (entPath pfx e) with
              | error er => rw [hs] at hye; simp at hye
              | ok sub =>
                rw [hs] at hye
                simp only [pure, Except.pure] at hye
                injection hye with hye
                subst hye
                have hcl : ∀ x ∈ cl, nxt f' x = nxt f x := fun x hx => hey x (by simp [hx])
                have hsub : ∀ x ∈ sub.flatMap (·.owned), nxt f' x = nxt f x := by
                  intro x hx
                  apply hey
                  simp only [List.flatMap_cons, List.mem_append]
                  exact Or.inr hx
                rw [chain_congr_fat f f' hi _ _ _ _ hc (by simp) hcl]
                simp only [hdat, ih _ _ _ hs hsub]
                rfl
        · rw [if_neg hd] at hye ⊢
          cases hfr : fileRec r b f false hi (entPath pfx e) e with
          | error er => rw [hfr] at hye; simp [bind, Except.bind] at hye
          | ok rec =>
            rw [hfr] at hye
            simp only [bind, Except.bind, pure, Except.pure] at hye
            injection hye with hye
            subst hye
            rw [fileRec_congr_fat hfr (fun x hx => hey x (by simp [hx]))]
            rfl
      rw [hm']
      rfl

end A2Verif.FsFat
