import A2Verif.Props.FsProdos
/-!
Kernel-evaluated witnesses for finding `prodos-put-first-chunk-hole` (a file image without chunk 0), source as written and
as repaired.
-/
namespace A2Verif.FsProdos
open A2Verif.Fs.Prodos

/-- **negative witness, source as written (no `firstHole`)**: a file image without chunk 0 (`{1 ↦ 512 × 'A'}`) is accepted, and
the image written does not satisfy the invariant — slot 0 of the index block names the index block itself (the
entry's provisional key pointer), the reader reports `blocks-used-differs-from-reachable`.  The real code at aadfbdc does
the same: `get` returns chunks 0 and 1, chunk 0 being the index block (directed scenario `prodos-put-first-chunk-hole`) -/
theorem first_chunk_hole_as_written_breaks :
    ((COp.put (str "h") 6 0 0xC3 1024 [(1, chunkOf 65 512)]).run asWritten exTime (formatted 10 asWritten)).1 = true ∧
    InvB ((COp.put (str "h") 6 0 0xC3 1024 [(1, chunkOf 65 512)]).run asWritten exTime (formatted 10 asWritten)).2.raw = false := by
  decide +kernel

/-- **the same input on the source as repaired**: slot 0 is a hole, the step is a transition the specification allows
(the stored chunk list `[(1, …)]` reads back index for index: no chunk 0 appears) and ends in an `InvB` image -/
theorem first_chunk_hole_repaired_refines :
    historyRefines repaired exTime
      [ (str "H", [], .put (str "h") 6 0 0xC3 1024 [(1, chunkOf 65 512)], true) ] (formatted 10) = true := by
  decide +kernel

end A2Verif.FsProdos
