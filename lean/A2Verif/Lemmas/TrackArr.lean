import A2Verif.Lemmas.TrackRot
/-!
The array instance of the track code (`ATrk`: the Rust representation — a buffer of `bit_count` bits and a
bit pointer; this is what the driver runs) refines the list instance (`Trk`: the track seen from the head;
this is what the theorems are about): every operation of `Model.Track` on the head-relative view of an array
track is the view of the same operation on the array track.  For EVERY buffer size (a multiple of 8 or not)
and every pointer, including operations that wrap around the end of the buffer.
-/
namespace A2Verif.Model.TrackImg
open A2Verif.Model.Track A2Verif.Model.Nibble Head

/-- a usable array track: the pointer is inside the buffer -/
def AWF (a : ATrk) : Prop := a.pos < a.buf.size

theorem view_eq (a : ATrk) : a.view = ⟨rot a.pos a.buf.toList, a.pos⟩ := rfl

/-- one step of the head: the view rotates by one cell, the cell that moves to the back is `x` -/
theorem rot_step (L : List Bool) (p : Nat) (x : Bool) (hp : p < L.length) :
    (rot p L).tail ++ [x] = rot ((p + 1) % L.length) (L.set p x) := by
  have hn : 0 < L.length := by omega
  apply List.ext_getElem?
  intro i
  have hlt : ((rot p L).tail ++ [x]).length = L.length := by simp [rot_length]; omega
  by_cases hi : i < L.length
  · rw [rot_getElem? (L.set p x) _ i (by rw [List.length_set]; exact Nat.le_of_lt (Nat.mod_lt _ hn)) (by rw [List.length_set]; exact hi),
      List.length_set, Nat.mod_add_mod]
    by_cases hlast : i + 1 < L.length
    · -- a cell that stays: index (p+1+i) % n is not p
      rw [List.getElem?_append_left (by simp [rot_length]; omega), List.getElem?_tail,
        rot_getElem? L p (i + 1) (Nat.le_of_lt hp) hlast]
      have hne : (p + 1 + i) % L.length ≠ p := by
        by_cases h : p + 1 + i < L.length
        · rw [Nat.mod_eq_of_lt h]; omega
        · rw [Nat.mod_eq_sub_mod (by omega), Nat.mod_eq_of_lt (by omega)]; omega
      rw [List.getElem?_set_ne (Ne.symm hne)]
      congr 2; omega
    · have hi' : i = L.length - 1 := by omega
      rw [List.getElem?_append_right (by simp [rot_length]; omega)]
      have h1 : i - (rot p L).tail.length = 0 := by simp [rot_length]; omega
      have h2 : (p + 1 + i) % L.length = p := by
        rw [show p + 1 + i = p + L.length by omega, Nat.add_mod_right, Nat.mod_eq_of_lt hp]
      rw [h1, h2, List.getElem?_set_self hp]; rfl
  · rw [List.getElem?_eq_none (by omega), List.getElem?_eq_none (by rw [rot_length, List.length_set]; omega)]

theorem rot_head (L : List Bool) (p : Nat) (hp : p < L.length) : ∃ rest, rot p L = L[p] :: rest := by
  have h0 := rot_getElem? L p 0 (Nat.le_of_lt hp) (by omega)
  rw [Nat.add_zero, Nat.mod_eq_of_lt hp] at h0
  cases hr : rot p L with
  | nil => rw [hr] at h0; simp at h0; omega
  | cons b rest =>
    rw [hr] at h0
    simp only [List.getElem?_cons_zero] at h0
    rw [List.getElem?_eq_getElem hp] at h0
    exact ⟨rest, by rw [Option.some.inj h0]⟩

/-! ## the two primitives -/

theorem next_view (a : ATrk) (h : AWF a) :
    next a.view = ((next a).1, (next a).2.view) ∧ AWF (next a).2 := by
  have hsz : a.buf.size ≠ 0 := by unfold AWF at h; omega
  have hL : a.pos < a.buf.toList.length := by have := h; unfold AWF at this; simpa using this
  obtain ⟨rest, hr⟩ := rot_head a.buf.toList a.pos hL
  have hstep := rot_step a.buf.toList a.pos (a.buf.toList[a.pos]) hL
  rw [List.set_getElem_self, hr, List.tail_cons] at hstep
  have hlen : rest.length + 1 = a.buf.size := by
    have := congrArg List.length hr
    rw [rot_length] at this; simpa using this.symm
  have hget : a.buf.getD a.pos false = a.buf.toList[a.pos] := by
    have h' : a.pos < a.buf.size := h
    simp [Array.getD, h']
  constructor
  · show Trk.next a.view = ((ATrk.next a).1, (ATrk.next a).2.view)
    rw [view_eq, hr]
    simp only [Trk.next, ATrk.next, hsz, if_false, view_eq, hget, hlen]
    rw [hstep]; simp
  · show AWF (ATrk.next a).2
    simp only [ATrk.next, hsz, if_false, AWF]
    exact Nat.mod_lt _ (by omega)

theorem put_view (x : Bool) (a : ATrk) (h : AWF a) :
    put x a.view = (put x a : ATrk).view ∧ AWF (put x a : ATrk) := by
  have hsz : a.buf.size ≠ 0 := by unfold AWF at h; omega
  have hL : a.pos < a.buf.toList.length := by have := h; unfold AWF at this; simpa using this
  obtain ⟨rest, hr⟩ := rot_head a.buf.toList a.pos hL
  have hstep := rot_step a.buf.toList a.pos x hL
  rw [hr, List.tail_cons] at hstep
  have hlen : rest.length + 1 = a.buf.size := by
    have := congrArg List.length hr
    rw [rot_length] at this; simpa using this.symm
  constructor
  · show Trk.put x a.view = (ATrk.put x a).view
    rw [view_eq, hr]
    simp only [Trk.put, ATrk.put, hsz, if_false, view_eq, hlen, Array.toList_setIfInBounds, Array.size_setIfInBounds]
    rw [hstep]; simp
  · show AWF (ATrk.put x a)
    simp only [ATrk.put, hsz, if_false, AWF, Array.size_setIfInBounds]
    exact Nat.mod_lt _ (by omega)

theorem len_view (a : ATrk) : len a.view = len a := by
  show (rot a.pos a.buf.toList).length = a.buf.size
  rw [rot_length]; simp

/-! ## every operation of the track code -/

theorem writeBits_view : ∀ (xs : List Bool) (a : ATrk), AWF a →
    writeBits xs a.view = (writeBits xs a).view ∧ AWF (writeBits xs a) := by
  intro xs
  induction xs with
  | nil => intro a h; exact ⟨by first | rfl | trivial, h⟩
  | cons x xs ih =>
    intro a h
    obtain ⟨p1, p2⟩ := put_view x a h
    obtain ⟨i1, i2⟩ := ih (put x a) p2
    exact ⟨by simp only [writeBits]; rw [p1, i1], i2⟩

theorem writeByte_view (b : Nat) (a : ATrk) (h : AWF a) :
    writeByte b a.view = (writeByte b a).view ∧ AWF (writeByte b a) := writeBits_view _ a h

theorem writeBytes_view : ∀ (bs : List Nat) (a : ATrk), AWF a →
    writeBytes bs a.view = (writeBytes bs a).view ∧ AWF (writeBytes bs a) := by
  intro bs
  induction bs with
  | nil => intro a h; exact ⟨by first | rfl | trivial, h⟩
  | cons b bs ih =>
    intro a h
    obtain ⟨p1, p2⟩ := writeByte_view b a h
    obtain ⟨i1, i2⟩ := ih (writeByte b a) p2
    exact ⟨by simp only [writeBytes]; rw [p1, i1], i2⟩

theorem writeSync_view (s : Nat) : ∀ (k : Nat) (a : ATrk), AWF a →
    writeSync s k a.view = (writeSync s k a).view ∧ AWF (writeSync s k a) := by
  intro k
  induction k with
  | zero => intro a h; exact ⟨by first | rfl | trivial, h⟩
  | succ k ih =>
    intro a h
    obtain ⟨p1, p2⟩ := writeBits_view (bitsOf 0xff (min s 8) ++ List.replicate (s - 8) false) a h
    obtain ⟨i1, i2⟩ := ih _ p2
    exact ⟨by simp only [writeSync]; rw [p1, i1], i2⟩

theorem skipZeros_view : ∀ (fuel : Nat) (a : ATrk), AWF a →
    skipZeros fuel a.view = ((skipZeros fuel a).1, (skipZeros fuel a).2.view) ∧ AWF (skipZeros fuel a).2 := by
  intro fuel
  induction fuel with
  | zero => intro a h; exact ⟨by first | rfl | trivial, h⟩
  | succ fuel ih =>
    intro a h
    obtain ⟨n1, n2⟩ := next_view a h
    obtain ⟨i1, i2⟩ := ih (next a).2 n2
    simp only [skipZeros, n1]
    split
    · exact ⟨by first | rfl | trivial, n2⟩
    · rw [i1]; exact ⟨by first | rfl | trivial, i2⟩

theorem readVal_view : ∀ (k v : Nat) (a : ATrk), AWF a →
    readVal k v a.view = ((readVal k v a).1, (readVal k v a).2.view) ∧ AWF (readVal k v a).2 := by
  intro k
  induction k with
  | zero => intro v a h; exact ⟨by first | rfl | trivial, h⟩
  | succ k ih =>
    intro v a h
    obtain ⟨n1, n2⟩ := next_view a h
    obtain ⟨i1, i2⟩ := ih ((v * 2 + (if (next a).1 then 1 else 0)) % 256) (next a).2 n2
    simp only [readVal, n1]
    exact ⟨i1, i2⟩

theorem readLatch1_view (a : ATrk) (h : AWF a) :
    readLatch1 a.view = ((readLatch1 a).1, (readLatch1 a).2.view) ∧ AWF (readLatch1 a).2 := by
  obtain ⟨s1, s2⟩ := skipZeros_view (len a) a h
  obtain ⟨r1, r2⟩ := readVal_view 7 1 (skipZeros (len a) a).2 s2
  simp only [readLatch1, len_view, s1]
  exact ⟨r1, r2⟩

theorem readLatchN_view : ∀ (k : Nat) (a : ATrk), AWF a →
    readLatchN k a.view = ((readLatchN k a).1, (readLatchN k a).2.view) ∧ AWF (readLatchN k a).2 := by
  intro k
  induction k with
  | zero => intro a h; exact ⟨by first | rfl | trivial, h⟩
  | succ k ih =>
    intro a h
    obtain ⟨l1, l2⟩ := readLatch1_view a h
    obtain ⟨i1, i2⟩ := ih (readLatch1 a).2 l2
    simp only [readLatchN, l1, i1]
    exact ⟨by first | rfl | trivial, i2⟩

theorem findPatLoop_view (patt mask : List Nat) (cap : Option Nat) : ∀ (fuel tries m : Nat) (a : ATrk), AWF a →
    findPatLoop patt mask cap fuel tries m a.view =
      ((findPatLoop patt mask cap fuel tries m a).1, (findPatLoop patt mask cap fuel tries m a).2.view) ∧
    AWF (findPatLoop patt mask cap fuel tries m a).2 := by
  intro fuel
  induction fuel with
  | zero => intro tries m a h; exact ⟨by first | rfl | trivial, h⟩
  | succ fuel ih =>
    intro tries m a h
    obtain ⟨l1, l2⟩ := readLatch1_view a h
    simp only [findPatLoop, l1]
    by_cases c1 : capped cap tries = true
    · simp only [if_pos c1]; exact ⟨trivial, h⟩
    · simp only [if_neg c1]
      generalize (if (readLatch1 a).1 &&& mask.getD m 0 = patt.getD m 0 &&& mask.getD m 0 then m + 1 else 0) = m'
      by_cases c2 : m' = patt.length
      · simp only [if_pos c2]; exact ⟨trivial, l2⟩
      · simp only [if_neg c2]; exact ih _ _ _ l2

theorem findPat_view (f : Fmt) (patt mask : List Nat) (cap : Option Nat) (a : ATrk) (h : AWF a) :
    findPat f patt mask cap a.view = ((findPat f patt mask cap a).1, (findPat f patt mask cap a).2.view) ∧
    AWF (findPat f patt mask cap a).2 := by
  simp only [findPat]
  split
  · exact ⟨by first | rfl | trivial, h⟩
  · exact findPatLoop_view patt mask cap _ 0 0 a h

theorem decodeAddr_view (a : ATrk) (h : AWF a) :
    decodeAddr a.view = ((decodeAddr a).1, (decodeAddr a).2.view) ∧ AWF (decodeAddr a).2 := by
  obtain ⟨r1, r2⟩ := readLatchN_view 8 a h
  simp only [decodeAddr, r1]
  exact ⟨by first | rfl | trivial, r2⟩

theorem findSectorLoop_view (f : Fmt) (trk sec : Nat) : ∀ (fuel : Nat) (a : ATrk), AWF a →
    findSectorLoop f trk sec fuel a.view =
      ((findSectorLoop f trk sec fuel a).1, (findSectorLoop f trk sec fuel a).2.view) ∧
    AWF (findSectorLoop f trk sec fuel a).2 := by
  intro fuel
  induction fuel with
  | zero => intro a h; exact ⟨by first | rfl | trivial, h⟩
  | succ fuel ih =>
    intro a h
    obtain ⟨p1, p2⟩ := findPat_view f f.adrPro proMask none a h
    obtain ⟨d1, d2⟩ := decodeAddr_view (findPat f f.adrPro proMask none a).2 p2
    obtain ⟨e1, e2⟩ := findPat_view f epi epiMask (some 10) (decodeAddr (findPat f f.adrPro proMask none a).2).2 d2
    have hv : findSectorLoop f trk sec (fuel + 1) a.view =
        (let p := findPat f f.adrPro proMask none a.view
         if !p.1 then (.error .badTrack, p.2) else
         let ad := decodeAddr p.2
         if ad.1.2.1 ≠ trk then findSectorLoop f trk sec fuel ad.2 else
         if 0 ^^^ ad.1.1 ^^^ ad.1.2.1 ^^^ ad.1.2.2.1 ^^^ ad.1.2.2.2 ≠ 0 then findSectorLoop f trk sec fuel ad.2 else
         let e := findPat f epi epiMask (some 10) ad.2
         if !e.1 then findSectorLoop f trk sec fuel e.2 else
         if sec ≠ ad.1.2.2.1 then findSectorLoop f trk sec fuel e.2 else (.ok (), e.2)) := rfl
    have ha : findSectorLoop f trk sec (fuel + 1) a =
        (let p := findPat f f.adrPro proMask none a
         if !p.1 then (.error .badTrack, p.2) else
         let ad := decodeAddr p.2
         if ad.1.2.1 ≠ trk then findSectorLoop f trk sec fuel ad.2 else
         if 0 ^^^ ad.1.1 ^^^ ad.1.2.1 ^^^ ad.1.2.2.1 ^^^ ad.1.2.2.2 ≠ 0 then findSectorLoop f trk sec fuel ad.2 else
         let e := findPat f epi epiMask (some 10) ad.2
         if !e.1 then findSectorLoop f trk sec fuel e.2 else
         if sec ≠ ad.1.2.2.1 then findSectorLoop f trk sec fuel e.2 else (.ok (), e.2)) := rfl
    rw [hv, ha]
    simp only [p1, d1, e1]
    generalize findPat f f.adrPro proMask none a = P at p2 d2 e2 ⊢
    generalize decodeAddr P.2 = D at d2 e2 ⊢
    generalize findPat f epi epiMask (some 10) D.2 = E at e2 ⊢
    by_cases c1 : (!P.1) = true
    · simp only [if_pos c1]; exact ⟨by first | rfl | trivial, p2⟩
    · simp only [if_neg c1]
      by_cases c2 : D.1.2.1 ≠ trk
      · simp only [if_pos c2]; exact ih _ d2
      · simp only [if_neg c2]
        by_cases c3 : 0 ^^^ D.1.1 ^^^ D.1.2.1 ^^^ D.1.2.2.1 ^^^ D.1.2.2.2 ≠ 0
        · simp only [if_pos c3]; exact ih _ d2
        · simp only [if_neg c3]
          by_cases c4 : (!E.1) = true
          · simp only [if_pos c4]; exact ih _ e2
          · simp only [if_neg c4]
            by_cases c5 : sec ≠ D.1.2.2.1
            · simp only [if_pos c5]; exact ih _ e2
            · simp only [if_neg c5]; exact ⟨by first | rfl | trivial, e2⟩

theorem findSector_view (f : Fmt) (trk sec : Nat) (a : ATrk) (h : AWF a) :
    findSector f trk sec a.view = ((findSector f trk sec a).1, (findSector f trk sec a).2.view) ∧
    AWF (findSector f trk sec a).2 := findSectorLoop_view f trk sec 32 a h

theorem encodeSector_view (f : Fmt) (dat : List Nat) (a : ATrk) (h : AWF a) :
    encodeSector f dat a.view = (encodeSector f dat a).view ∧ AWF (encodeSector f dat a) := by
  obtain ⟨s1, s2⟩ := writeSync_view f.syncBits 10 a h
  obtain ⟨p1, p2⟩ := writeBytes_view datPro _ s2
  obtain ⟨n1, n2⟩ := writeBytes_view (if f.six then enc62 dat else enc53 dat) _ p2
  obtain ⟨e1, e2⟩ := writeBytes_view epi _ n2
  simp only [encodeSector, s1, p1, n1, e1]
  exact ⟨by first | rfl | trivial, e2⟩

theorem decodeSector_view (f : Fmt) (a : ATrk) (h : AWF a) :
    decodeSector f a.view = ((decodeSector f a).1, (decodeSector f a).2.view) ∧ AWF (decodeSector f a).2 := by
  obtain ⟨p1, p2⟩ := findPat_view f datPro proMask (some 40) a h
  obtain ⟨r1, r2⟩ := readLatchN_view f.dataNibs (findPat f datPro proMask (some 40) a).2 p2
  simp only [decodeSector, p1, r1]
  split
  · exact ⟨by first | rfl | trivial, p2⟩
  · split <;> exact ⟨by first | rfl | trivial, r2⟩

/-- **`read_sector` on the array track = `read_sector` on its view** -/
theorem readSector_view (f : Fmt) (trk sec : Nat) (a : ATrk) (h : AWF a) :
    Track.readSector f trk sec a.view = ((Track.readSector f trk sec a).1, (Track.readSector f trk sec a).2.view) ∧
    AWF (Track.readSector f trk sec a).2 := by
  obtain ⟨s1, s2⟩ := findSector_view f trk sec a h
  obtain ⟨d1, d2⟩ := decodeSector_view f (findSector f trk sec a).2 s2
  simp only [Track.readSector, s1]
  split
  · rw [d1]; exact ⟨by first | rfl | trivial, d2⟩
  · exact ⟨by first | rfl | trivial, s2⟩

/-- **`write_sector` on the array track = `write_sector` on its view** -/
theorem writeSector_view (f : Fmt) (dat : List Nat) (trk sec : Nat) (a : ATrk) (h : AWF a) :
    Track.writeSector f dat trk sec a.view =
      ((Track.writeSector f dat trk sec a).1, (Track.writeSector f dat trk sec a).2.view) ∧
    AWF (Track.writeSector f dat trk sec a).2 := by
  obtain ⟨s1, s2⟩ := findSector_view f trk sec a h
  obtain ⟨e1, e2⟩ := encodeSector_view f dat (findSector f trk sec a).2 s2
  simp only [Track.writeSector, s1]
  split
  · rw [e1]; exact ⟨by first | rfl | trivial, e2⟩
  · exact ⟨by first | rfl | trivial, s2⟩

theorem formatSector_view (f : Fmt) (vol trk sec : Nat) (a : ATrk) (h : AWF a) :
    formatSector f vol trk sec a.view = (formatSector f vol trk sec a).view ∧ AWF (formatSector f vol trk sec a) := by
  obtain ⟨a1, b1⟩ := writeBytes_view f.adrPro a h
  obtain ⟨a2, b2⟩ := writeBytes_view (encode44 vol) _ b1
  obtain ⟨a3, b3⟩ := writeBytes_view (encode44 trk) _ b2
  obtain ⟨a4, b4⟩ := writeBytes_view (encode44 sec) _ b3
  obtain ⟨a5, b5⟩ := writeBytes_view (encode44 (0 ^^^ vol ^^^ trk ^^^ sec)) _ b4
  obtain ⟨a6, b6⟩ := writeBytes_view epi _ b5
  simp only [formatSector, a1, a2, a3, a4, a5, a6]
  cases f.six
  · obtain ⟨c1, d1⟩ := writeSync_view f.syncBits 10 _ b6
    obtain ⟨c2, d2⟩ := writeBytes_view (List.replicate 417 0xff) _ d1
    obtain ⟨c3, d3⟩ := writeSync_view f.syncBits 20 _ d2
    simp only [Bool.false_eq_true, if_false, c1, c2, c3]
    exact ⟨by first | rfl | trivial, d3⟩
  · obtain ⟨c1, d1⟩ := encodeSector_view f (List.replicate 256 0) _ b6
    obtain ⟨c3, d3⟩ := writeSync_view f.syncBits 20 _ d1
    simp only [if_true, c1, c3]
    exact ⟨by first | rfl | trivial, d3⟩

/-- **`format` on the array track = `format` on its view** -/
theorem formatTrack_view (f : Fmt) (vol trk : Nat) (ids : List Nat) (a : ATrk) (h : AWF a) :
    formatTrack f vol trk ids a.view = (formatTrack f vol trk ids a).view ∧ AWF (formatTrack f vol trk ids a) := by
  obtain ⟨s1, s2⟩ := writeSync_view f.syncBits 40 a h
  simp only [formatTrack, s1]
  generalize writeSync f.syncBits 40 a = b at s2
  induction ids generalizing b with
  | nil => exact ⟨by first | rfl | trivial, s2⟩
  | cons s l ih =>
    obtain ⟨f1, f2⟩ := formatSector_view f vol trk s b s2
    simp only [List.foldl_cons, f1]
    exact ih _ f2

/-- **A write of `xs.length ≤ size` bits at any pointer of an array track of ANY size** (a multiple of 8 or
not; the write may run across the end of the buffer): seen from the head, exactly the first `xs.length` cells
are replaced by `xs` — they are now behind the head — and every other cell is what it was; the pointer has
moved by `xs.length` modulo the size; the size is unchanged. -/
theorem atrk_writeBits_exact (xs : List Bool) (a : ATrk) (h : AWF a) (hl : xs.length ≤ a.buf.size) :
    (writeBits xs a).view.bits = a.view.bits.drop xs.length ++ xs ∧
    (writeBits xs a).pos = (a.pos + xs.length) % a.buf.size ∧ (writeBits xs a).buf.size = a.buf.size := by
  obtain ⟨v1, v2⟩ := writeBits_view xs a h
  have hvl : a.view.bits.length = a.buf.size := by rw [view_eq, rot_length]; simp
  have hb := writeBits_bits xs a.view (a.view.bits.take xs.length) (a.view.bits.drop xs.length)
    (List.take_append_drop _ _).symm (by rw [List.length_take, hvl]; omega)
  have hp := writeBits_posAt xs a.view a.buf.size a.pos ⟨hvl, by unfold AWF at h; omega, by
    show a.pos = a.pos % a.buf.size; rw [Nat.mod_eq_of_lt h]⟩
  rw [v1] at hb hp
  refine ⟨hb, hp.2.2, ?_⟩
  have := hp.1
  rw [view_eq, rot_length] at this
  simpa using this

end A2Verif.Model.TrackImg
