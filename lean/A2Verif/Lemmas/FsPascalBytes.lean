import A2Verif.Model.Fs.Pascal
/-!
# Byte-level lemmas for the concrete Pascal model

`splice` (field assignment), `le16`/`slice` readers, the directory buffer as `header ++ entries ++ padding`
(`entriesFrom`), block-wise writing of a buffer and reading it back (`chunkOf`).  Core Lean only.
-/
namespace A2Verif.Fs.Pascal

theorem entrySize_eq : entrySize = 26 := rfl
theorem blockSize_eq : blockSize = 512 := rfl
theorem volHeaderBlock_eq : volHeaderBlock = 2 := rfl

/-! ## `getD`, `le16`, `slice` -/

theorem getD_eq (b : Bytes) (i : Nat) : b.getD i 0 = (b[i]?).getD 0 := by
  simp [List.getD_eq_getElem?_getD]

theorem getD_take {b : Bytes} {n i : Nat} (h : i < n) : (b.take n).getD i 0 = b.getD i 0 := by
  simp [h]

theorem le16_take {b : Bytes} {n off : Nat} (h : off + 2 ≤ n) : le16 (b.take n) off = le16 b off := by
  unfold le16
  rw [getD_take (by omega), getD_take (by omega)]

theorem getD_append_left {a b : Bytes} {i : Nat} (h : i < a.length) : (a ++ b).getD i 0 = a.getD i 0 := by
  simp [List.getElem?_append_left h]

theorem le16_append_left {a b : Bytes} {off : Nat} (h : off + 2 ≤ a.length) : le16 (a ++ b) off = le16 a off := by
  unfold le16
  rw [getD_append_left (by omega), getD_append_left (by omega)]

theorem slice_length {b : Bytes} {off len : Nat} (h : off + len ≤ b.length) : (slice b off len).length = len := by
  unfold slice
  simp [List.length_take, List.length_drop]
  omega

theorem slice_append_left {a b : Bytes} {off len : Nat} (h : off + len ≤ a.length) :
    slice (a ++ b) off len = slice a off len := by
  unfold slice
  rw [List.drop_append_of_le_length (by omega), List.take_append_of_le_length (by simp [List.length_drop]; omega)]

theorem le16_u16le {v : Nat} (h : v < 65536) : le16 (u16le v) 0 = v := by
  simp [le16, u16le]
  omega

theorem u16le_length (v : Nat) : (u16le v).length = 2 := rfl

/-! ## `splice` -/

theorem splice_length {e new : Bytes} {off : Nat} (h : off + new.length ≤ e.length) :
    (splice e off new).length = e.length := by
  unfold splice
  simp [List.length_take, List.length_drop]
  omega

theorem getD_splice {e new : Bytes} {off i : Nat} (h : off + new.length ≤ e.length) :
    (splice e off new).getD i 0 = if off ≤ i ∧ i < off + new.length then new.getD (i - off) 0 else e.getD i 0 := by
  unfold splice
  simp only [getD_eq]
  by_cases h1 : i < off
  · have : ¬ (off ≤ i ∧ i < off + new.length) := by omega
    rw [if_neg this, List.append_assoc, List.getElem?_append_left (by simp [List.length_take]; omega),
      List.getElem?_take, if_pos h1]
  · by_cases h2 : i < off + new.length
    · rw [if_pos ⟨by omega, h2⟩, List.append_assoc, List.getElem?_append_right (by simp [List.length_take]; omega),
        List.getElem?_append_left (by simp [List.length_take]; omega)]
      congr 2
      simp [List.length_take]; omega
    · have : ¬ (off ≤ i ∧ i < off + new.length) := by omega
      rw [if_neg this, List.getElem?_append_right (by simp [List.length_take]; omega), List.getElem?_drop]
      congr 2
      simp [List.length_take]; omega

/-- a 16-bit field outside the spliced range is unchanged -/
theorem le16_splice_other {e new : Bytes} {off p : Nat} (h : off + new.length ≤ e.length)
    (hp : p + 2 ≤ off ∨ off + new.length ≤ p) : le16 (splice e off new) p = le16 e p := by
  unfold le16
  rw [getD_splice h, getD_splice h, if_neg (by omega), if_neg (by omega)]

theorem getD_splice_other {e new : Bytes} {off p : Nat} (h : off + new.length ≤ e.length)
    (hp : p < off ∨ off + new.length ≤ p) : (splice e off new).getD p 0 = e.getD p 0 := by
  rw [getD_splice h, if_neg (by omega)]

/-- a 16-bit field written with `u16le` reads back -/
theorem le16_splice_same {e : Bytes} {off v : Nat} (h : off + 2 ≤ e.length) (hv : v < 65536) :
    le16 (splice e off (u16le v)) off = v := by
  have h' : off + (u16le v).length ≤ e.length := h
  unfold le16
  rw [getD_splice h', getD_splice h', if_pos ⟨Nat.le_refl _, by show off < off + 2; omega⟩,
    if_pos ⟨by omega, by show off + 1 < off + 2; omega⟩]
  have e1 : off + 1 - off = 1 := by omega
  rw [Nat.sub_self, e1]
  simp [u16le]
  omega

theorem getD_splice_same {e : Bytes} {off v : Nat} (h : off + 1 ≤ e.length) :
    (splice e off [v]).getD off 0 = v := by
  have h' : off + [v].length ≤ e.length := h
  rw [getD_splice h', if_pos ⟨Nat.le_refl _, by show off < off + 1; omega⟩, Nat.sub_self]
  rfl

/-- a slice outside the spliced range is unchanged -/
theorem slice_splice_other {e new : Bytes} {off p len : Nat} (h : off + new.length ≤ e.length)
    (hp : p + len ≤ off ∨ off + new.length ≤ p) : slice (splice e off new) p len = slice e p len := by
  apply List.ext_getElem?
  intro i
  unfold slice
  simp only [List.getElem?_take, List.getElem?_drop]
  by_cases hi : i < len
  · simp only [if_pos hi]
    have := @getD_splice e new off (p + i) h
    rw [if_neg (by omega)] at this
    have e1 : (splice e off new).length = e.length := splice_length h
    by_cases hl : p + i < e.length
    · have a1 : (splice e off new)[p + i]? = some ((splice e off new)[p + i]'(by omega)) := List.getElem?_eq_getElem (by omega)
      have a2 : e[p + i]? = some (e[p + i]'hl) := List.getElem?_eq_getElem hl
      rw [getD_eq, getD_eq, a1, a2] at this
      rw [a1, a2]
      simpa using this
    · rw [List.getElem?_eq_none (by omega), List.getElem?_eq_none (by omega)]
  · simp [hi]

/-- the slice that was spliced in reads back -/
theorem slice_splice_same {e new : Bytes} {off : Nat} (h : off + new.length ≤ e.length) :
    slice (splice e off new) off new.length = new := by
  unfold slice splice
  rw [List.append_assoc, List.drop_append_of_le_length (by simp [List.length_take]; omega)]
  have : (e.take off).length = off := by simp [List.length_take]; omega
  rw [List.drop_of_length_le (by omega), List.nil_append, List.take_append_of_le_length (by omega), List.take_of_length_le (by omega)]

/-- a prefix of the slice that was spliced in -/
theorem slice_splice_prefix {e new : Bytes} {off n : Nat} (h : off + new.length ≤ e.length) (hn : n ≤ new.length) :
    slice (splice e off new) off n = new.take n := by
  have := slice_splice_same h
  unfold slice at this ⊢
  calc List.take n (List.drop off (splice e off new))
      = List.take n (List.take new.length (List.drop off (splice e off new))) := by
        rw [List.take_take, Nat.min_eq_left hn]
    _ = List.take n new := by rw [this]

/-! ## the directory buffer: `header ++ entries ++ padding` -/

theorem entriesFrom_length (buf : Bytes) (n off : Nat) : (entriesFrom buf n off).length = n := by
  induction n generalizing off with
  | zero => rfl
  | succ n ih => simp [entriesFrom, ih]

theorem entriesFrom_entry_length {buf : Bytes} {n off : Nat} (h : off + n * entrySize ≤ buf.length) :
    ∀ e ∈ entriesFrom buf n off, e.length = entrySize := by
  induction n generalizing off with
  | zero => intro e he; cases he
  | succ n ih =>
    intro e he
    simp only [entriesFrom, List.mem_cons] at he
    rcases he with rfl | he
    · exact slice_length (by rw [Nat.succ_mul] at h; omega)
    · exact ih (by rw [Nat.succ_mul] at h; omega) e he

/-- reading back `es` from a buffer that holds them at `off` -/
theorem entriesFrom_flatten {pre post : Bytes} {es : List Bytes} (hes : ∀ e ∈ es, e.length = entrySize) :
    entriesFrom (pre ++ es.flatten ++ post) es.length pre.length = es := by
  induction es generalizing pre with
  | nil => rfl
  | cons e es ih =>
    have he : e.length = entrySize := hes e List.mem_cons_self
    simp only [List.length_cons, entriesFrom, List.flatten_cons]
    congr 1
    · unfold slice
      rw [List.append_assoc, List.drop_append_of_le_length (Nat.le_refl _), List.drop_length, List.nil_append,
        List.append_assoc, List.take_append_of_le_length (by omega), List.take_of_length_le (by omega)]
    · have := @ih (pre ++ e) (fun x hx => hes x (List.mem_cons_of_mem _ hx))
      simp only [List.length_append, he, List.append_assoc] at this ⊢
      exact this

theorem flatten_length_of_entries {es : List Bytes} (hes : ∀ e ∈ es, e.length = entrySize) :
    es.flatten.length = entrySize * es.length := by
  induction es with
  | nil => rfl
  | cons e es ih =>
    simp only [List.flatten_cons, List.length_append, List.length_cons, hes e List.mem_cons_self,
      ih (fun x hx => hes x (List.mem_cons_of_mem _ hx))]
    rw [Nat.mul_succ]; omega

/-- the buffer is its header, its entries and the padding -/
theorem buf_decompose (buf : Bytes) (h : entrySize ≤ buf.length) :
    buf = buf.take entrySize ++ (entriesFrom buf (buf.length / entrySize - 1) entrySize).flatten ++
      buf.drop (entrySize * (buf.length / entrySize)) := by
  have key : ∀ (n off : Nat), off + n * 26 ≤ buf.length →
      (entriesFrom buf n off).flatten = (buf.drop off).take (n * 26) := by
    intro n
    induction n with
    | zero => intro off _; simp [entriesFrom]
    | succ n ih =>
      intro off hle
      rw [Nat.succ_mul] at hle
      simp only [entriesFrom, List.flatten_cons, entrySize_eq]
      rw [ih (off + 26) (by omega), slice, Nat.succ_mul, Nat.add_comm (n * 26) 26,
        List.take_add, List.drop_drop]
  simp only [entrySize_eq] at h ⊢
  have hq : 1 ≤ buf.length / 26 := (Nat.le_div_iff_mul_le (by decide)).2 (by omega)
  have hm : 26 * (buf.length / 26) ≤ buf.length := Nat.mul_div_le _ _
  rw [key _ _ (by omega)]
  have e1 : 26 * (buf.length / 26) = 26 + (buf.length / 26 - 1) * 26 := by omega
  rw [e1, ← List.take_add, List.take_append_drop]

/-! ## writing a buffer block by block and reading it back -/

/-- what `save_directory` writes into block `2 + k` -/
def chunkOf (buf : Bytes) (k : Nat) : Bytes := quantize ((buf.drop (k * blockSize)).take blockSize)

theorem quantize_length (d : Bytes) : (quantize d).length = blockSize := by
  unfold quantize
  simp [List.length_take]
  omega

theorem chunkOf_succ (buf : Bytes) (k : Nat) : chunkOf buf (k + 1) = chunkOf (buf.drop blockSize) k := by
  unfold chunkOf
  rw [List.drop_drop, Nat.succ_mul, Nat.add_comm]

theorem chunkOf_zero (buf : Bytes) : chunkOf buf 0 = buf.take 512 ++ List.replicate (512 - buf.length) 0 := by
  unfold chunkOf quantize
  rw [blockSize_eq, Nat.zero_mul, List.drop_zero, List.take_take, Nat.min_self, List.length_take]
  congr 2
  omega

theorem chunks_flatten (buf : Bytes) (k : Nat) :
    ((List.range k).map (chunkOf buf)).flatten = buf.take (k * 512) ++ List.replicate (k * 512 - buf.length) 0 := by
  induction k generalizing buf with
  | zero => simp
  | succ k ih =>
    rw [List.range_succ_eq_map, List.map_cons, List.map_map, List.flatten_cons]
    have : (chunkOf buf ∘ Nat.succ) = chunkOf (buf.drop 512) := by
      funext j; exact chunkOf_succ buf j
    rw [this, ih, chunkOf_zero, List.length_drop]
    by_cases hl : 512 ≤ buf.length
    · have e0 : 512 - buf.length = 0 := by omega
      have e1 : (k + 1) * 512 = 512 + k * 512 := by omega
      have e2 : k * 512 - (buf.length - 512) = 512 + k * 512 - buf.length := by omega
      rw [e0, List.replicate_zero, List.append_nil, ← List.append_assoc, ← List.take_add, e1, e2]
    · have hd : buf.drop 512 = [] := List.drop_of_length_le (by omega)
      rw [hd, List.take_nil, List.nil_append, List.take_of_length_le (by omega), List.take_of_length_le (by omega),
        List.append_assoc, List.replicate_append_replicate]
      have e3 : 512 - buf.length + (k * 512 - (buf.length - 512)) = (k + 1) * 512 - buf.length := by omega
      rw [e3]

end A2Verif.Fs.Pascal
